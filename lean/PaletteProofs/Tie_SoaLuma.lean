/-
  Source-text tie of the struct-of-arrays collections (C18), part 3: `luma`.

  `Gen/BodiesSoa.lean` is regenerated on every run from the *current* text of `palette/src/macros/struct_of_arrays.rs` (the four
  macros, expanded at the actual invocations of one type per shape) and of `alpha::Iter` / `Extend` / `FromIterator` in
  `alpha/alpha.rs` (tools/rust2lean_soa.py).  Each theorem `tie_<name>` states that the translated body, *for every component type
  and every state*, is the model function the driver executes and the C18 theorems are about: one operation of `Soa.step`
  (PaletteModel/Soa.lean) resp. `Soa.nstep` (SoaNested.lean), or one step of the model iterators `Soa.Zip` / `Soa.NZip`.
  The translated term keeps the statement order of the Rust body (state passing), so the ties say in particular: the columns are
  walked in the order (hue, elements.., alpha); the same index / range goes to every column; `next()` of every column is taken
  before the all-`Some` test; a panic of `Vec::drain` in column `j` leaves the columns before `j` drained and the others untouched
  (`Soa.drainPanicState`), and in `Alpha` the colour's drain comes first.  Proofs: case split on the literal column vector,
  unfolding, `simp` with the literal-vector lemmas of `Lemmas/SoaTie.lean`.
-/
import PaletteModel.Gen.BodiesSoa
import PaletteProofs.Lemmas.SoaTie

namespace Tie
open Soa SoaPrim SoaTie

variable {α : Type}

set_option linter.unusedSimpArgs false

/-! ## `luma`: 1 column -/

theorem tie_lumaIntoIterArr (c : Cols α 1) : toZip (Gen.BodySoa.lumaIntoIterArr c) = Soa.Zip.ofCols c := by
  obtain ⟨a, rfl⟩ := vec1_cases c
  simp [Gen.BodySoa.lumaIntoIterArr, toZip, Zip.ofCols, colIntoIter]

theorem tie_lumaIntoIterSlice (c : Cols α 1) : toZip (Gen.BodySoa.lumaIntoIterSlice c) = Soa.Zip.ofCols c := by
  obtain ⟨a, rfl⟩ := vec1_cases c
  simp [Gen.BodySoa.lumaIntoIterSlice, toZip, Zip.ofCols, colIntoIter]

theorem tie_lumaIntoIterSliceMut (c : Cols α 1) : toZip (Gen.BodySoa.lumaIntoIterSliceMut c) = Soa.Zip.ofCols c := by
  obtain ⟨a, rfl⟩ := vec1_cases c
  simp [Gen.BodySoa.lumaIntoIterSliceMut, toZip, Zip.ofCols, colIntoIter]

theorem tie_lumaIntoIterVec (c : Cols α 1) : toZip (Gen.BodySoa.lumaIntoIterVec c) = Soa.Zip.ofCols c := by
  obtain ⟨a, rfl⟩ := vec1_cases c
  simp [Gen.BodySoa.lumaIntoIterVec, toZip, Zip.ofCols, colIntoIter]

theorem tie_lumaIntoIterRefArr (c : Cols α 1) : toZip (Gen.BodySoa.lumaIntoIterRefArr c) = Soa.Zip.ofCols c := by
  obtain ⟨a, rfl⟩ := vec1_cases c
  simp [Gen.BodySoa.lumaIntoIterRefArr, toZip, Zip.ofCols, colIntoIter]

theorem tie_lumaIntoIterRefSlice (c : Cols α 1) : toZip (Gen.BodySoa.lumaIntoIterRefSlice c) = Soa.Zip.ofCols c := by
  obtain ⟨a, rfl⟩ := vec1_cases c
  simp [Gen.BodySoa.lumaIntoIterRefSlice, toZip, Zip.ofCols, colIntoIter]

theorem tie_lumaIntoIterRefSliceMut (c : Cols α 1) : toZip (Gen.BodySoa.lumaIntoIterRefSliceMut c) = Soa.Zip.ofCols c := by
  obtain ⟨a, rfl⟩ := vec1_cases c
  simp [Gen.BodySoa.lumaIntoIterRefSliceMut, toZip, Zip.ofCols, colIntoIter]

theorem tie_lumaIntoIterRefVec (c : Cols α 1) : toZip (Gen.BodySoa.lumaIntoIterRefVec c) = Soa.Zip.ofCols c := by
  obtain ⟨a, rfl⟩ := vec1_cases c
  simp [Gen.BodySoa.lumaIntoIterRefVec, toZip, Zip.ofCols, colIntoIter]

theorem tie_lumaIntoIterRefBox (c : Cols α 1) : toZip (Gen.BodySoa.lumaIntoIterRefBox c) = Soa.Zip.ofCols c := by
  obtain ⟨a, rfl⟩ := vec1_cases c
  simp [Gen.BodySoa.lumaIntoIterRefBox, toZip, Zip.ofCols, colIntoIter]

theorem tie_lumaIntoIterMutArr (c : Cols α 1) : toZip (Gen.BodySoa.lumaIntoIterMutArr c) = Soa.Zip.ofCols c := by
  obtain ⟨a, rfl⟩ := vec1_cases c
  simp [Gen.BodySoa.lumaIntoIterMutArr, toZip, Zip.ofCols, colIntoIter]

theorem tie_lumaIntoIterMutSliceMut (c : Cols α 1) : toZip (Gen.BodySoa.lumaIntoIterMutSliceMut c) = Soa.Zip.ofCols c := by
  obtain ⟨a, rfl⟩ := vec1_cases c
  simp [Gen.BodySoa.lumaIntoIterMutSliceMut, toZip, Zip.ofCols, colIntoIter]

theorem tie_lumaIntoIterMutVec (c : Cols α 1) : toZip (Gen.BodySoa.lumaIntoIterMutVec c) = Soa.Zip.ofCols c := by
  obtain ⟨a, rfl⟩ := vec1_cases c
  simp [Gen.BodySoa.lumaIntoIterMutVec, toZip, Zip.ofCols, colIntoIter]

theorem tie_lumaIntoIterMutBox (c : Cols α 1) : toZip (Gen.BodySoa.lumaIntoIterMutBox c) = Soa.Zip.ofCols c := by
  obtain ⟨a, rfl⟩ := vec1_cases c
  simp [Gen.BodySoa.lumaIntoIterMutBox, toZip, Zip.ofCols, colIntoIter]

theorem tie_lumaIter (c : Cols α 1) : toZip (Gen.BodySoa.lumaIter c) = Soa.Zip.ofCols c := tie_lumaIntoIterRefVec c

theorem tie_lumaIterMut (c : Cols α 1) : toZip (Gen.BodySoa.lumaIterMut c) = Soa.Zip.ofCols c := tie_lumaIntoIterMutVec c

theorem tie_lumaIterNext (it : Vector (ColIter α) 1) :
    (toZip (Gen.BodySoa.lumaIterNext it).1, (Gen.BodySoa.lumaIterNext it).2) = Soa.Zip.next (toZip it) none := by
  obtain ⟨a, rfl⟩ := vec1_cases it
  simp [Gen.BodySoa.lumaIterNext, Zip.next, toZip, ColIter.next, allSome1, ofFn1, map1, firstLen1, drainPanicState1, emptyCols1]
  repeat' constructor
  all_goals rfl

theorem tie_lumaIterNextBack (it : Vector (ColIter α) 1) :
    (toZip (Gen.BodySoa.lumaIterNextBack it).1, (Gen.BodySoa.lumaIterNextBack it).2) = Soa.Zip.nextBack (toZip it) none := by
  obtain ⟨a, rfl⟩ := vec1_cases it
  simp [Gen.BodySoa.lumaIterNextBack, Zip.nextBack, toZip, ColIter.nextBack, allSome1, ofFn1, map1, firstLen1, drainPanicState1, emptyCols1]
  repeat' constructor
  all_goals rfl

theorem tie_lumaIterLen (it : Vector (ColIter α) 1) : Gen.BodySoa.lumaIterLen it = Soa.Zip.len (toZip it) := by
  obtain ⟨a, rfl⟩ := vec1_cases it
  simp [Gen.BodySoa.lumaIterLen, Zip.len, toZip, ColIter.len, allSome1, ofFn1, map1, firstLen1, drainPanicState1, emptyCols1]

theorem tie_lumaIterSizeHint (it : Vector (ColIter α) 1) : Gen.BodySoa.lumaIterSizeHint it = Soa.Zip.sizeHint (toZip it) := by
  obtain ⟨a, rfl⟩ := vec1_cases it
  simp [Gen.BodySoa.lumaIterSizeHint, Zip.sizeHint, toZip, ColIter.sizeHint, allSome1, ofFn1, map1, firstLen1, drainPanicState1, emptyCols1]

theorem tie_lumaIterCount (it : Vector (ColIter α) 1) : Gen.BodySoa.lumaIterCount it = Soa.Zip.count (toZip it) := by
  obtain ⟨a, rfl⟩ := vec1_cases it
  simp [Gen.BodySoa.lumaIterCount, Zip.count, toZip, ColIter.count, allSome1, ofFn1, map1, firstLen1, drainPanicState1, emptyCols1]

/-- the same index / range goes to every column, in column order, and the result exists iff every column has one -/
theorem lumaGet_eq (s : Cols α 1) (i : Nat) : Gen.BodySoa.lumaGet s i = allSome (s.map (·[i]?)) := by
  obtain ⟨a, rfl⟩ := vec1_cases s
  simp [Gen.BodySoa.lumaGet, sliceGet, allSome1, ofFn1, map1, firstLen1, drainPanicState1, emptyCols1]
  all_goals (cases a[i]? <;> rfl)

/-- the same index / range goes to every column, in column order, and the result exists iff every column has one -/
theorem lumaGetMut_eq (s : Cols α 1) (i : Nat) : Gen.BodySoa.lumaGetMut s i = allSome (s.map (·[i]?)) := by
  obtain ⟨a, rfl⟩ := vec1_cases s
  simp [Gen.BodySoa.lumaGetMut, sliceGetMut, allSome1, ofFn1, map1, firstLen1, drainPanicState1, emptyCols1]
  all_goals (cases a[i]? <;> rfl)

/-- the same index / range goes to every column, in column order, and the result exists iff every column has one -/
theorem lumaGetRange_eq (s : Cols α 1) (i : Rng) : Gen.BodySoa.lumaGetRange s i = allSome (s.map (sliceCol i)) := by
  obtain ⟨a, rfl⟩ := vec1_cases s
  simp [Gen.BodySoa.lumaGetRange, sliceGetRange, allSome1, ofFn1, map1, firstLen1, drainPanicState1, emptyCols1]
  all_goals (cases sliceCol i a <;> rfl)

/-- the same index / range goes to every column, in column order, and the result exists iff every column has one -/
theorem lumaGetMutRange_eq (s : Cols α 1) (i : Rng) : Gen.BodySoa.lumaGetMutRange s i = allSome (s.map (splitCol i)) := by
  obtain ⟨a, rfl⟩ := vec1_cases s
  simp [Gen.BodySoa.lumaGetMutRange, sliceGetMutRange, allSome1, ofFn1, map1, firstLen1, drainPanicState1, emptyCols1]
  all_goals (cases splitCol i a <;> rfl)

theorem tie_lumaGet (s : Cols α 1) (i : Nat) : (s, Obs.item (Gen.BodySoa.lumaGet s i)) = Soa.step s (.get i) := by
  rw [lumaGet_eq]; rfl

theorem tie_lumaGetRange (s : Cols α 1) (r : Rng) (script : List (Step α 1)) :
    obsSlice s (Gen.BodySoa.lumaGetRange s r) script = Soa.step s (.getRange r script) := by
  rw [lumaGetRange_eq]
  simp only [Soa.step, obsSlice]
  cases allSome (s.map (sliceCol r)) <;> rfl

theorem tie_lumaGetMut (s : Cols α 1) (i : Nat) (w : Row α 1) :
    obsGetMut s (Gen.BodySoa.lumaGetMut s i) i w = Soa.step s (.getMut i w) := by
  rw [lumaGetMut_eq]
  simp only [Soa.step, obsGetMut]
  cases allSome (s.map (·[i]?)) <;> rfl

theorem tie_lumaGetMutRange (s : Cols α 1) (r : Rng) (script : List (Step α 1)) :
    obsSplit s (Gen.BodySoa.lumaGetMutRange s r) script = Soa.step s (.getMutRange r script) := by
  rw [lumaGetMutRange_eq]
  simp only [Soa.step, obsSplit]
  cases allSome (s.map (splitCol r)) <;> rfl

theorem tie_lumaWithCapacity (n : Nat) (s : Cols α 1) : Gen.BodySoa.lumaWithCapacity n = (Soa.step s .withCapacity).1 := by
  simp [Gen.BodySoa.lumaWithCapacity, Soa.step, emptyCols1, vecWithCapacity]

theorem tie_lumaPush (s : Cols α 1) (r : Row α 1) : Gen.BodySoa.lumaPush s r = (Soa.step s (.push r)).1 := by
  obtain ⟨a, rfl⟩ := vec1_cases s
  obtain ⟨ra, rfl⟩ := vec1_cases r
  simp [Gen.BodySoa.lumaPush, Soa.step, pushRow, vecPush]

theorem tie_lumaPop (s : Cols α 1) : obsItem (Gen.BodySoa.lumaPop s) = Soa.step s .pop := by
  obtain ⟨a, rfl⟩ := vec1_cases s
  simp [Gen.BodySoa.lumaPop, Soa.step, obsItem, vecPop, allSome1, ofFn1, map1, firstLen1, drainPanicState1, emptyCols1]
  all_goals (cases a.getLast? <;> first | rfl | simp)

theorem tie_lumaClear (s : Cols α 1) : Gen.BodySoa.lumaClear s = (Soa.step s .clear).1 := by
  obtain ⟨a, rfl⟩ := vec1_cases s
  simp [Gen.BodySoa.lumaClear, Soa.step, vecClear]

/-- the translated `drain`, as one case split: all columns resolve the range (every column loses it, the iterator holds what was removed), or the
    receiver is left as the model's `drainPanicState` (statement order: the columns before the first failing one are already drained) -/
theorem lumaDrain_eq (s : Cols α 1) (r : Rng) :
    Gen.BodySoa.lumaDrain s r = (match allSome (s.map (drainCol r)) with
      | some v => .ok (v.map (·.1)) (v.map fun p => colIntoIter p.2)
      | none => .panic (drainPanicState s (s.map (drainCol r)))) := by
  obtain ⟨a, rfl⟩ := vec1_cases s
  simp only [Gen.BodySoa.lumaDrain, vecDrain, allSome1, ofFn1, map1, firstLen1, drainPanicState1, emptyCols1]
  cases ha : drainCol r a <;> simp [ha]

theorem tie_lumaDrain (s : Cols α 1) (r : Rng) (script : List (Step α 1)) :
    obsDrain (Gen.BodySoa.lumaDrain s r) script = Soa.step s (.drain r script) := by
  rw [lumaDrain_eq]
  simp only [Soa.step]
  cases allSome (s.map (drainCol r)) with
  | none => rfl
  | some v =>
    obtain ⟨va, rfl⟩ := vec1_cases v
    simp [obsDrain, runRead, toZip, Zip.ofCols, colIntoIter]

theorem tie_lumaExtend (s : Cols α 1) (rs : List (Row α 1)) : Gen.BodySoa.lumaExtend s rs = (Soa.step s (.extend rs)).1 := by
  simp only [Gen.BodySoa.lumaExtend, Soa.step, extendRows, SoaPrim.forIn]
  congr 1
  funext s r
  obtain ⟨a, rfl⟩ := vec1_cases s
  obtain ⟨ra, rfl⟩ := vec1_cases r
  simp [pushRow, vecExtendOnce]

theorem tie_lumaFromIter (s : Cols α 1) (rs : List (Row α 1)) : Gen.BodySoa.lumaFromIter rs = (Soa.step s (.collect rs)).1 := by
  simp only [Gen.BodySoa.lumaFromIter, tie_lumaExtend, Soa.step]
  simp [emptyCols1, vecDefault]

/-! ### `Alpha<luma<..>, ..>` -/

theorem tie_lumaaIntoIterArr (n : Nest α 1) : toNZip (Gen.BodySoa.lumaaIntoIterArr n) = Soa.NZip.ofParts n.color n.alpha := by
  simp only [Gen.BodySoa.lumaaIntoIterArr, toNZip, nzipOf, NZip.ofParts, colIntoIter]
  congr 1
  first | exact tie_lumaIntoIterArr _ | exact tie_lumaIntoIterArr _ | exact tie_lumaIntoIterRefArr _ | exact tie_lumaIntoIterMutArr _

theorem tie_lumaaIntoIterSlice (n : Nest α 1) : toNZip (Gen.BodySoa.lumaaIntoIterSlice n) = Soa.NZip.ofParts n.color n.alpha := by
  simp only [Gen.BodySoa.lumaaIntoIterSlice, toNZip, nzipOf, NZip.ofParts, colIntoIter]
  congr 1
  first | exact tie_lumaIntoIterSlice _ | exact tie_lumaIntoIterSlice _ | exact tie_lumaIntoIterRefSlice _ | exact tie_lumaIntoIterMutSlice _

theorem tie_lumaaIntoIterSliceMut (n : Nest α 1) : toNZip (Gen.BodySoa.lumaaIntoIterSliceMut n) = Soa.NZip.ofParts n.color n.alpha := by
  simp only [Gen.BodySoa.lumaaIntoIterSliceMut, toNZip, nzipOf, NZip.ofParts, colIntoIter]
  congr 1
  first | exact tie_lumaIntoIterSliceMut _ | exact tie_lumaIntoIterSliceMut _ | exact tie_lumaIntoIterRefSliceMut _ | exact tie_lumaIntoIterMutSliceMut _

theorem tie_lumaaIntoIterVec (n : Nest α 1) : toNZip (Gen.BodySoa.lumaaIntoIterVec n) = Soa.NZip.ofParts n.color n.alpha := by
  simp only [Gen.BodySoa.lumaaIntoIterVec, toNZip, nzipOf, NZip.ofParts, colIntoIter]
  congr 1
  first | exact tie_lumaIntoIterVec _ | exact tie_lumaIntoIterVec _ | exact tie_lumaIntoIterRefVec _ | exact tie_lumaIntoIterMutVec _

theorem tie_lumaaIntoIterRefArr (n : Nest α 1) : toNZip (Gen.BodySoa.lumaaIntoIterRefArr n) = Soa.NZip.ofParts n.color n.alpha := by
  simp only [Gen.BodySoa.lumaaIntoIterRefArr, toNZip, nzipOf, NZip.ofParts, colIntoIter]
  congr 1
  first | exact tie_lumaIntoIterRefArr _ | exact tie_lumaIntoIterArr _ | exact tie_lumaIntoIterRefArr _ | exact tie_lumaIntoIterMutArr _

theorem tie_lumaaIntoIterRefSlice (n : Nest α 1) : toNZip (Gen.BodySoa.lumaaIntoIterRefSlice n) = Soa.NZip.ofParts n.color n.alpha := by
  simp only [Gen.BodySoa.lumaaIntoIterRefSlice, toNZip, nzipOf, NZip.ofParts, colIntoIter]
  congr 1
  first | exact tie_lumaIntoIterRefSlice _ | exact tie_lumaIntoIterSlice _ | exact tie_lumaIntoIterRefSlice _ | exact tie_lumaIntoIterMutSlice _

theorem tie_lumaaIntoIterRefSliceMut (n : Nest α 1) : toNZip (Gen.BodySoa.lumaaIntoIterRefSliceMut n) = Soa.NZip.ofParts n.color n.alpha := by
  simp only [Gen.BodySoa.lumaaIntoIterRefSliceMut, toNZip, nzipOf, NZip.ofParts, colIntoIter]
  congr 1
  first | exact tie_lumaIntoIterRefSliceMut _ | exact tie_lumaIntoIterSliceMut _ | exact tie_lumaIntoIterRefSliceMut _ | exact tie_lumaIntoIterMutSliceMut _

theorem tie_lumaaIntoIterRefVec (n : Nest α 1) : toNZip (Gen.BodySoa.lumaaIntoIterRefVec n) = Soa.NZip.ofParts n.color n.alpha := by
  simp only [Gen.BodySoa.lumaaIntoIterRefVec, toNZip, nzipOf, NZip.ofParts, colIntoIter]
  congr 1
  first | exact tie_lumaIntoIterRefVec _ | exact tie_lumaIntoIterVec _ | exact tie_lumaIntoIterRefVec _ | exact tie_lumaIntoIterMutVec _

theorem tie_lumaaIntoIterRefBox (n : Nest α 1) : toNZip (Gen.BodySoa.lumaaIntoIterRefBox n) = Soa.NZip.ofParts n.color n.alpha := by
  simp only [Gen.BodySoa.lumaaIntoIterRefBox, toNZip, nzipOf, NZip.ofParts, colIntoIter]
  congr 1
  first | exact tie_lumaIntoIterRefBox _ | exact tie_lumaIntoIterBox _ | exact tie_lumaIntoIterRefBox _ | exact tie_lumaIntoIterMutBox _

theorem tie_lumaaIntoIterMutArr (n : Nest α 1) : toNZip (Gen.BodySoa.lumaaIntoIterMutArr n) = Soa.NZip.ofParts n.color n.alpha := by
  simp only [Gen.BodySoa.lumaaIntoIterMutArr, toNZip, nzipOf, NZip.ofParts, colIntoIter]
  congr 1
  first | exact tie_lumaIntoIterMutArr _ | exact tie_lumaIntoIterArr _ | exact tie_lumaIntoIterRefArr _ | exact tie_lumaIntoIterMutArr _

theorem tie_lumaaIntoIterMutSliceMut (n : Nest α 1) : toNZip (Gen.BodySoa.lumaaIntoIterMutSliceMut n) = Soa.NZip.ofParts n.color n.alpha := by
  simp only [Gen.BodySoa.lumaaIntoIterMutSliceMut, toNZip, nzipOf, NZip.ofParts, colIntoIter]
  congr 1
  first | exact tie_lumaIntoIterMutSliceMut _ | exact tie_lumaIntoIterSliceMut _ | exact tie_lumaIntoIterRefSliceMut _ | exact tie_lumaIntoIterMutSliceMut _

theorem tie_lumaaIntoIterMutVec (n : Nest α 1) : toNZip (Gen.BodySoa.lumaaIntoIterMutVec n) = Soa.NZip.ofParts n.color n.alpha := by
  simp only [Gen.BodySoa.lumaaIntoIterMutVec, toNZip, nzipOf, NZip.ofParts, colIntoIter]
  congr 1
  first | exact tie_lumaIntoIterMutVec _ | exact tie_lumaIntoIterVec _ | exact tie_lumaIntoIterRefVec _ | exact tie_lumaIntoIterMutVec _

theorem tie_lumaaIntoIterMutBox (n : Nest α 1) : toNZip (Gen.BodySoa.lumaaIntoIterMutBox n) = Soa.NZip.ofParts n.color n.alpha := by
  simp only [Gen.BodySoa.lumaaIntoIterMutBox, toNZip, nzipOf, NZip.ofParts, colIntoIter]
  congr 1
  first | exact tie_lumaIntoIterMutBox _ | exact tie_lumaIntoIterBox _ | exact tie_lumaIntoIterRefBox _ | exact tie_lumaIntoIterMutBox _

theorem tie_lumaaWithCapacity (c : Nat) (n : Nest α 1) : Gen.BodySoa.lumaaWithCapacity c = (Soa.nstep n .withCapacity).1 := by
  simp only [Gen.BodySoa.lumaaWithCapacity, Soa.nstep, tie_lumaWithCapacity c n.color]
  rfl

theorem tie_lumaaPush (n : Nest α 1) (r : Row α (1 + 1)) : Gen.BodySoa.lumaaPush n r = (Soa.nstep n (.push r)).1 := by
  simp only [Gen.BodySoa.lumaaPush, Soa.nstep, tie_lumaPush]
  rfl

theorem tie_lumaaPop (n : Nest α 1) : obsItemN (Gen.BodySoa.lumaaPop n) = Soa.nstep n .pop := by
  have h := tie_lumaPop n.color
  simp only [obsItem] at h
  simp only [Gen.BodySoa.lumaaPop, Soa.nstep, obsItemN, vecPop, ← h, itemOf]
  cases (Gen.BodySoa.lumaPop n.color).2 <;> cases n.alpha.getLast? <;> rfl

theorem tie_lumaaClear (n : Nest α 1) : Gen.BodySoa.lumaaClear n = (Soa.nstep n .clear).1 := by
  simp only [Gen.BodySoa.lumaaClear, Soa.nstep, tie_lumaClear]
  rfl

theorem tie_lumaaDrain (n : Nest α 1) (r : Rng) (script : List (Step α (1 + 1))) :
    obsDrainN (Gen.BodySoa.lumaaDrain n r) script = Soa.nstep n (.drain r script) := by
  simp only [Gen.BodySoa.lumaaDrain, Soa.nstep, Soa.step, lumaDrain_eq, vecDrain]
  cases allSome (n.color.map (drainCol r)) with
  | none => rfl
  | some v =>
    cases drainCol r n.alpha with
    | none => rfl
    | some pa =>
      obtain ⟨va, rfl⟩ := vec1_cases v
      simp [obsDrainN, nrunRead, toNZip, nzipOf, NZip.ofParts, toZip, Zip.ofCols, colIntoIter]

theorem tie_lumaaGet (n : Nest α 1) (i : Nat) : (n, Obs.item (Gen.BodySoa.lumaaGet n i)) = Soa.nstep n (.get i) := by
  simp only [Gen.BodySoa.lumaaGet, Soa.nstep, Soa.step, sliceGet, lumaGet_eq, itemOf]
  cases allSome (n.color.map (·[i]?)) <;> cases n.alpha[i]? <;> rfl

theorem tie_lumaaGetRange (n : Nest α 1) (r : Rng) (script : List (Step α (1 + 1))) :
    obsSliceN n (Gen.BodySoa.lumaaGetRange n r) script = Soa.nstep n (.getRange r script) := by
  simp only [Gen.BodySoa.lumaaGetRange, Soa.nstep, sliceGetRange, lumaGetRange_eq]
  cases allSome (n.color.map (sliceCol r)) <;> cases sliceCol r n.alpha <;> rfl

theorem tie_lumaaGetMut (n : Nest α 1) (i : Nat) (w : Row α (1 + 1)) :
    obsGetMutN n (Gen.BodySoa.lumaaGetMut n i) i w = Soa.nstep n (.getMut i w) := by
  simp only [Gen.BodySoa.lumaaGetMut, Soa.nstep, Soa.step, sliceGetMut, lumaGetMut_eq, itemOf]
  cases h : allSome (n.color.map (·[i]?)) <;> cases n.alpha[i]? <;> first | rfl | simp [obsGetMutN, h]

theorem tie_lumaaGetMutRange (n : Nest α 1) (r : Rng) (script : List (Step α (1 + 1))) :
    obsSplitN n (Gen.BodySoa.lumaaGetMutRange n r) script = Soa.nstep n (.getMutRange r script) := by
  simp only [Gen.BodySoa.lumaaGetMutRange, Soa.nstep, sliceGetMutRange, lumaGetMutRange_eq]
  cases allSome (n.color.map (splitCol r)) <;> cases splitCol r n.alpha <;> rfl

end Tie
