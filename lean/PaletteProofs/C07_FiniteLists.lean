/-
  C07, whole colours: the *list plumbing* of `blend_separable`, the `Blend` / `Compose` impls for `PreAlpha<C>`, `Alpha<C, T>` and opaque
  `C`, hue-role `Mix`, `Lighten`/`Darken`/`Saturate`/`Desaturate` (relative and fixed, by value and assigning), `ShiftHue`, `WithHue`,
  `SetHue` and the colour-theory helpers — on the unchanged model functions of `Blend.lean` / `Ops.lean` read at `PReal`.

  `C07_FiniteOps.lean` proves the per-component loop bodies (`blendComp_ok`, `compose_comp_ok`, `lighten_component_ok`, `diffC_ok`) and
  the list level for `unpremultiply`, `premultiply`, linear `Mix` and the arithmetic operators.  Here the remaining list-level functions
  are chained, for colours with any number of components: the result of every one of them on real components (and real alpha,
  `alpha = 0` included) is a list of real components — no poison anywhere.
-/
import PaletteProofs.C07_FiniteOps

set_option linter.unusedSimpArgs false
set_option linter.unusedVariables false

namespace C07
open PReal

/-- a list of components without poison, given by its real values -/
def OkList (l : List PReal) : Prop := ∃ r : List ℝ, l = r.map ok
/-- a colour with alpha (`Alpha<C, T>` / `PreAlpha<C>`) without poison -/
def OkWA (p : Blend.WithAlpha PReal) : Prop := OkList p.1 ∧ ∃ a : ℝ, p.2 = ok a

theorem okList_map (r : List ℝ) : OkList (r.map ok) := ⟨r, rfl⟩
theorem okList_nil : OkList [] := ⟨[], rfl⟩
theorem okList_cons {x : PReal} {l : List PReal} (hx : ∃ a, x = ok a) (hl : OkList l) : OkList (x :: l) := by
  obtain ⟨a, rfl⟩ := hx; obtain ⟨r, rfl⟩ := hl; exact ⟨a :: r, rfl⟩
theorem okList_allOk {l : List PReal} (h : OkList l) : AllOk l := by
  obtain ⟨r, rfl⟩ := h; exact allOk_map_ok r
theorem okList_append {l₁ l₂ : List PReal} (h1 : OkList l₁) (h2 : OkList l₂) : OkList (l₁ ++ l₂) := by
  obtain ⟨r1, rfl⟩ := h1; obtain ⟨r2, rfl⟩ := h2; exact ⟨r1 ++ r2, by rw [List.map_append]⟩
theorem okList_drop {l : List PReal} (h : OkList l) (n : Nat) : OkList (l.drop n) := by
  obtain ⟨r, rfl⟩ := h; exact ⟨r.drop n, by rw [List.map_drop]⟩

/-! ## `blend_separable` and the three `Blend` impls, all eleven modes -/

/-- the zipped loop of `blend_separable` over the four component arrays -/
theorem blendList_ok (m : Blend.Mode) (sa da : ℝ) (s sp d dp : List ℝ) :
    OkList (Blend.blendList m.fn (ok sa) (ok da) (s.map ok) (sp.map ok) (d.map ok) (dp.map ok)) := by
  induction s generalizing sp d dp with
  | nil => simp only [List.map_nil, Blend.blendList]; exact okList_nil
  | cons x xs ih =>
    cases sp with
    | nil => simp only [List.map_nil, List.map_cons, Blend.blendList]; exact okList_nil
    | cons y ys =>
      cases d with
      | nil => simp only [List.map_nil, List.map_cons, Blend.blendList]; exact okList_nil
      | cons z zs =>
        cases dp with
        | nil => simp only [List.map_nil, List.map_cons, Blend.blendList]; exact okList_nil
        | cons w ws =>
          simp only [List.map_cons, Blend.blendList]
          exact okList_cons (blendComp_ok m sa da x y z w) (ih ys zs ws)

/-- a `BlendInput` built from real data -/
def okInput (c cp : List ℝ) (a : ℝ) : Blend.BlendInput PReal := ⟨c.map ok, cp.map ok, ok a⟩

/-- `blend_separable` on real inputs -/
theorem blendSeparable_ok (m : Blend.Mode) (c1 cp1 : List ℝ) (a1 : ℝ) (c2 cp2 : List ℝ) (a2 : ℝ) :
    OkWA (Blend.blendSeparable m.fn (okInput c1 cp1 a1) (okInput c2 cp2 a2)) := by
  unfold Blend.blendSeparable okInput
  exact ⟨blendList_ok m a1 a2 c1 cp1 c2 cp2, blendAlpha_ok a1 a2⟩

theorem unpremultiply_okWA {p : Blend.WithAlpha PReal} (h : OkWA p) : OkWA (Blend.unpremultiply p) := by
  obtain ⟨⟨r, hr⟩, a, ha⟩ := h
  obtain ⟨c, x⟩ := p
  simp only at hr ha
  subst hr ha
  obtain ⟨rs, hrs⟩ := unpremultiply_ok r a
  rw [hrs]
  exact ⟨⟨rs, rfl⟩, a, rfl⟩

/-- `BlendInput::from(PreAlpha)`, `::from(Alpha)`, `::new_opaque` of real colours are real -/
theorem ofPre_ok (c : List ℝ) (a : ℝ) : ∃ u : List ℝ, Blend.BlendInput.ofPre (c.map ok, ok a) = okInput u c a := by
  obtain ⟨rs, hrs⟩ := unpremultiply_ok c a
  refine ⟨rs, ?_⟩
  unfold Blend.BlendInput.ofPre okInput
  simp only [hrs]
theorem ofAlpha_ok (c : List ℝ) (a : ℝ) : Blend.BlendInput.ofAlpha (c.map ok, ok a) = okInput c (c.map (· * a)) a := by
  unfold Blend.BlendInput.ofAlpha okInput
  simp only [premultiply_ok]
theorem newOpaque_ok (c : List ℝ) : Blend.BlendInput.newOpaque (c.map ok) = okInput c c 1.0 := rfl

/-- **`impl Blend for PreAlpha<C>`**, every mode, every real premultiplied colour and alpha (zero alpha included) -/
theorem blendPre_ok (m : Blend.Mode) (s : List ℝ) (sa : ℝ) (d : List ℝ) (da : ℝ) :
    OkWA (Blend.blendPre m.fn (s.map ok, ok sa) (d.map ok, ok da)) := by
  unfold Blend.blendPre
  obtain ⟨u1, e1⟩ := ofPre_ok s sa
  obtain ⟨u2, e2⟩ := ofPre_ok d da
  rw [e1, e2]
  exact blendSeparable_ok m _ _ _ _ _ _

/-- **`impl Blend for Alpha<C, T>`** -/
theorem blendStraight_ok (m : Blend.Mode) (s : List ℝ) (sa : ℝ) (d : List ℝ) (da : ℝ) :
    OkWA (Blend.blendStraight m.fn (s.map ok, ok sa) (d.map ok, ok da)) := by
  unfold Blend.blendStraight
  rw [ofAlpha_ok, ofAlpha_ok]
  exact unpremultiply_okWA (blendSeparable_ok m _ _ _ _ _ _)

/-- **`impl Blend for C`** (opaque) -/
theorem blendOpaque_ok (m : Blend.Mode) (s d : List ℝ) : OkList (Blend.blendOpaque m.fn (s.map ok) (d.map ok)) := by
  unfold Blend.blendOpaque
  rw [newOpaque_ok, newOpaque_ok]
  exact (unpremultiply_okWA (blendSeparable_ok m _ _ _ _ _ _)).1

/-! ## Porter–Duff: `impl Compose for PreAlpha<C>`, `Alpha<C, T>`, `C` -/

theorem composeList_ok (op : Blend.Op) (sa da : ℝ) (s d : List ℝ) :
    OkList (Blend.composeList op (ok sa) (ok da) (s.map ok) (d.map ok)) := by
  induction s generalizing d with
  | nil => simp only [List.map_nil, Blend.composeList]; exact okList_nil
  | cons x xs ih =>
    cases d with
    | nil => simp only [List.map_nil, List.map_cons, Blend.composeList]; exact okList_nil
    | cons y ys =>
      simp only [List.map_cons, Blend.composeList]
      exact okList_cons (compose_comp_ok op sa da x y) (ih ys)

theorem composePre_ok (op : Blend.Op) (s : List ℝ) (sa : ℝ) (d : List ℝ) (da : ℝ) :
    OkWA (Blend.composePre op (s.map ok, ok sa) (d.map ok, ok da)) := by
  unfold Blend.composePre
  exact ⟨composeList_ok op sa da s d, compose_alpha_ok op sa da⟩

theorem composeStraight_ok (op : Blend.Op) (s : List ℝ) (sa : ℝ) (d : List ℝ) (da : ℝ) :
    OkWA (Blend.composeStraight op (s.map ok, ok sa) (d.map ok, ok da)) := by
  unfold Blend.composeStraight Blend.viaStraight
  simp only [premultiply_ok]
  exact unpremultiply_okWA (composePre_ok op _ _ _ _)

theorem composeOpaque_ok (op : Blend.Op) (s d : List ℝ) : OkList (Blend.composeOpaque op (s.map ok) (d.map ok)) := by
  unfold Blend.composeOpaque Blend.viaOpaque Blend.newOpaque
  exact (unpremultiply_okWA (composePre_ok op s 1.0 d 1.0)).1

/-! ## `Mix` for types with a hue (`impl_mix_hue!`) -/

theorem diffs_ok (ro : List Ops.Role) (a b : List ℝ) : OkList (Ops.diffs ro (a.map ok) (b.map ok)) := by
  induction ro generalizing a b with
  | nil => simp only [Ops.diffs]; exact okList_nil
  | cons r rs ih =>
    cases a with
    | nil => simp only [List.map_nil, Ops.diffs]; exact okList_nil
    | cons x xs =>
      cases b with
      | nil => simp only [List.map_nil, List.map_cons, Ops.diffs]; exact okList_nil
      | cons y ys =>
        simp only [List.map_cons, Ops.diffs]
        exact okList_cons (diffC_ok r x y) (ih xs ys)

theorem zipWith_mix_ok (a d : List ℝ) (f : ℝ) :
    List.zipWith (fun x dx => x + dx * ok f) (a.map ok) (d.map ok) = (List.zipWith (fun x dx => x + dx * f) a d).map ok := by
  induction a generalizing d with
  | nil => simp
  | cons x xs ih =>
    cases d with
    | nil => simp
    | cons y ys => simp only [List.map_cons, List.zipWith_cons_cons, ih ys, mul_some, add_some]

/-- **`Mix::mix` for hue types**: every real colour, every factor (clamped to `[0, 1]` first), hue differences through
    `normalize_signed_angle` (division by the literal 360 only) -/
theorem mixHue_ok (ro : List Ops.Role) (a b : List ℝ) (f : ℝ) : OkList (Ops.mixHue ro (a.map ok) (b.map ok) (ok f)) := by
  unfold Ops.mixHue Ops.zero Ops.one
  obtain ⟨d, hd⟩ := diffs_ok ro a b
  simp only [ofSci, clamp_some, hd, zipWith_mix_ok]
  exact okList_map _

theorem mixHueAssignGo_ok (a d : List ℝ) (f : ℝ) : OkList (Ops.mixHueAssignGo (a.map ok) (d.map ok) (ok f)) := by
  induction a generalizing d with
  | nil => cases d <;> (simp only [List.map_nil, List.map_cons, Ops.mixHueAssignGo]; exact okList_nil)
  | cons x xs ih =>
    cases d with
    | nil => simp only [List.map_nil, List.map_cons, Ops.mixHueAssignGo]; exact okList_map (x :: xs)
    | cons y ys =>
      simp only [List.map_cons, Ops.mixHueAssignGo, mul_some, add_some]
      exact okList_cons ⟨_, rfl⟩ (ih ys)

theorem mixHueAssign_ok (ro : List Ops.Role) (a b : List ℝ) (f : ℝ) : OkList (Ops.mixHueAssign ro (a.map ok) (b.map ok) (ok f)) := by
  unfold Ops.mixHueAssign Ops.zero Ops.one
  obtain ⟨d, hd⟩ := diffs_ok ro a b
  simp only [ofSci, clamp_some, hd]
  exact mixHueAssignGo_ok a d _

/-! ## `Lighten` / `Darken` / `Saturate` / `Desaturate` (`_impl_increase_value_trait!`) -/

/-- a real specification read at `PReal` -/
def liftInc : Ops.Inc ℝ → Ops.Inc PReal
  | .increase lo hi => .increase (ok lo) (ok hi)
  | .other => .other

theorem incDeltas_ok (spec : List (Ops.Inc ℝ)) (c : List ℝ) (f : ℝ) :
    OkList (Ops.incDeltas (spec.map liftInc) (c.map ok) (ok f)) := by
  induction spec generalizing c with
  | nil => simp only [List.map_nil, Ops.incDeltas]; exact okList_nil
  | cons s ss ih =>
    cases c with
    | nil => cases s <;> (simp only [List.map_nil, List.map_cons, liftInc, Ops.incDeltas]; exact okList_nil)
    | cons x xs =>
      cases s with
      | increase lo hi =>
        simp only [List.map_cons, liftInc, Ops.incDeltas]
        exact okList_cons (incDelta_ok hi x f) (ih xs)
      | other =>
        simp only [List.map_cons, liftInc, Ops.incDeltas]
        exact okList_cons ⟨x, rfl⟩ (ih xs)

theorem incBuild_ok (spec : List (Ops.Inc ℝ)) (c d : List ℝ) :
    OkList (Ops.incBuild (spec.map liftInc) (c.map ok) (d.map ok)) := by
  induction spec generalizing c d with
  | nil => simp only [List.map_nil, Ops.incBuild]; exact okList_map c
  | cons s ss ih =>
    cases c with
    | nil => cases s <;> (simp only [List.map_nil, List.map_cons, liftInc, Ops.incBuild]; exact okList_nil)
    | cons x xs =>
      cases d with
      | nil => cases s <;> (simp only [List.map_nil, List.map_cons, liftInc, Ops.incBuild]; exact okList_map (x :: xs))
      | cons y ys =>
        cases s with
        | increase lo hi =>
          simp only [List.map_cons, liftInc, Ops.incBuild, add_some, clamp_some]
          exact okList_cons ⟨_, rfl⟩ (ih xs ys)
        | other =>
          simp only [List.map_cons, liftInc, Ops.incBuild]
          exact okList_cons ⟨x, rfl⟩ (ih xs ys)

/-- **relative `lighten`/`saturate` by value** (and, with the negated factor, `darken`/`desaturate`): every real colour, every factor -/
theorem incValue_ok (spec : List (Ops.Inc ℝ)) (c : List ℝ) (f : ℝ) : OkList (Ops.incValue (spec.map liftInc) (c.map ok) (ok f)) := by
  unfold Ops.incValue
  obtain ⟨d, hd⟩ := incDeltas_ok spec c f
  rw [hd]
  exact incBuild_ok spec c d
theorem decValue_ok (spec : List (Ops.Inc ℝ)) (c : List ℝ) (f : ℝ) : OkList (Ops.decValue (spec.map liftInc) (c.map ok) (ok f)) := by
  unfold Ops.decValue; rw [neg_some]; exact incValue_ok spec c (-f)

/-- **relative, assigning form** -/
theorem incAssign_ok (spec : List (Ops.Inc ℝ)) (c : List ℝ) (f : ℝ) : OkList (Ops.incAssign (spec.map liftInc) (c.map ok) (ok f)) := by
  induction spec generalizing c with
  | nil => simp only [List.map_nil, Ops.incAssign]; exact okList_map c
  | cons s ss ih =>
    cases c with
    | nil => cases s <;> (simp only [List.map_nil, List.map_cons, liftInc, Ops.incAssign]; exact okList_nil)
    | cons x xs =>
      cases s with
      | increase lo hi =>
        simp only [List.map_cons, liftInc, Ops.incAssign]
        refine okList_cons ?_ (ih xs)
        have := lighten_component_ok lo hi x f
        unfold Ops.incDelta at this
        exact this
      | other =>
        simp only [List.map_cons, liftInc, Ops.incAssign]
        exact okList_cons ⟨x, rfl⟩ (ih xs)
theorem decAssign_ok (spec : List (Ops.Inc ℝ)) (c : List ℝ) (f : ℝ) : OkList (Ops.decAssign (spec.map liftInc) (c.map ok) (ok f)) := by
  unfold Ops.decAssign; rw [neg_some]; exact incAssign_ok spec c (-f)

/-- **fixed forms** (`lighten_fixed`, `saturate_fixed`, …) -/
theorem incFixedAssign_ok (spec : List (Ops.Inc ℝ)) (c : List ℝ) (a : ℝ) :
    OkList (Ops.incFixedAssign (spec.map liftInc) (c.map ok) (ok a)) := by
  induction spec generalizing c with
  | nil => simp only [List.map_nil, Ops.incFixedAssign]; exact okList_map c
  | cons s ss ih =>
    cases c with
    | nil => cases s <;> (simp only [List.map_nil, List.map_cons, liftInc, Ops.incFixedAssign]; exact okList_nil)
    | cons x xs =>
      cases s with
      | increase lo hi =>
        simp only [List.map_cons, liftInc, Ops.incFixedAssign, mul_some, add_some, clamp_some]
        exact okList_cons ⟨_, rfl⟩ (ih xs)
      | other =>
        simp only [List.map_cons, liftInc, Ops.incFixedAssign]
        exact okList_cons ⟨x, rfl⟩ (ih xs)

theorem incFixedValue_ok (spec : List (Ops.Inc ℝ)) (c : List ℝ) (a : ℝ) :
    OkList (Ops.incFixedValue (spec.map liftInc) (c.map ok) (ok a)) := by
  unfold Ops.incFixedValue
  refine okList_append ?_ (okList_drop (okList_map c) _)
  induction spec generalizing c with
  | nil => simp only [List.map_nil, List.zipWith_nil_left]; exact okList_nil
  | cons s ss ih =>
    cases c with
    | nil => simp only [List.map_nil, List.zipWith_nil_right]; exact okList_nil
    | cons x xs =>
      cases s with
      | increase lo hi =>
        simp only [List.map_cons, liftInc, List.zipWith_cons_cons, mul_some, add_some, clamp_some]
        exact okList_cons ⟨_, rfl⟩ (ih xs)
      | other =>
        simp only [List.map_cons, liftInc, List.zipWith_cons_cons]
        exact okList_cons ⟨x, rfl⟩ (ih xs)

/-! ## `ShiftHue`, `WithHue`, `SetHue`, colour theory: additions and assignments only -/

theorem shiftHue_ok (h : Nat) (c : List ℝ) (amount : ℝ) : Ops.shiftHue h (c.map ok) (ok amount) = (c.modify h (· + amount)).map ok := by
  unfold Ops.shiftHue
  induction c generalizing h with
  | nil => cases h <;> simp [List.modify]
  | cons x xs ih =>
    cases h with
    | zero => simp [List.modify]
    | succ n =>
      have := ih n
      simp only [List.map_cons, List.modify_succ_cons, this]

theorem withHue_ok (h : Nat) (c : List ℝ) (hue : ℝ) : Ops.withHue h (c.map ok) (ok hue) = (c.set h hue).map ok := by
  unfold Ops.withHue
  rw [List.map_set]

theorem shiftHueAssign_ok (h : Nat) (c : List ℝ) (amount : ℝ) : OkList (Ops.shiftHueAssign h (c.map ok) (ok amount)) := by
  induction c generalizing h with
  | nil => cases h <;> (simp only [List.map_nil, Ops.shiftHueAssign]; exact okList_nil)
  | cons x xs ih =>
    cases h with
    | zero => simp only [List.map_cons, Ops.shiftHueAssign, add_some]; exact okList_map ((x + amount) :: xs)
    | succ n => simp only [List.map_cons, Ops.shiftHueAssign]; exact okList_cons ⟨x, rfl⟩ (ih n)

theorem setHue_ok (h : Nat) (c : List ℝ) (hue : ℝ) : OkList (Ops.setHue h (c.map ok) (ok hue)) := by
  induction c generalizing h with
  | nil => cases h <;> (simp only [List.map_nil, Ops.setHue]; exact okList_nil)
  | cons x xs ih =>
    cases h with
    | zero => simp only [List.map_cons, Ops.setHue]; exact okList_map (hue :: xs)
    | succ n => simp only [List.map_cons, Ops.setHue]; exact okList_cons ⟨x, rfl⟩ (ih n)

/-- the colour-theory helpers are `shift_hue` by literal angles -/
theorem colorTheory_ok (h : Nat) (c : List ℝ) :
    OkList (Ops.complementary h (c.map ok)) ∧
    OkList (Ops.splitComplementary h (c.map ok)).1 ∧ OkList (Ops.splitComplementary h (c.map ok)).2 ∧
    OkList (Ops.analogous h (c.map ok)).1 ∧ OkList (Ops.analogous h (c.map ok)).2 ∧
    OkList (Ops.analogousSecondary h (c.map ok)).1 ∧ OkList (Ops.analogousSecondary h (c.map ok)).2 ∧
    OkList (Ops.triadic h (c.map ok)).1 ∧ OkList (Ops.triadic h (c.map ok)).2 ∧
    OkList (Ops.tetradic h (c.map ok)).1 ∧ OkList (Ops.tetradic h (c.map ok)).2.1 ∧ OkList (Ops.tetradic h (c.map ok)).2.2 := by
  have key : ∀ x : ℝ, OkList (Ops.shiftHue h (c.map ok) (ok x)) := fun x => by rw [shiftHue_ok]; exact okList_map _
  unfold Ops.complementary Ops.splitComplementary Ops.analogous Ops.analogousSecondary Ops.triadic Ops.tetradic Ops.halfRotation
  simp only [ofSci]
  exact ⟨key _, key _, key _, key _, key _, key _, key _, key _, key _, key _, key _, key _⟩

/-- `impl_lab_color_schemes!` (Lab-like types): negations and swaps of two components -/
theorem labComplementary_ok (ia ib : Nat) (c : List ℝ) : OkList (Ops.labComplementary ia ib (c.map ok)) := by
  unfold Ops.labComplementary
  simp only [List.getElem?_map]
  cases h1 : c[ia]? <;> cases h2 : c[ib]? <;> simp only [Option.map_none, Option.map_some]
  · exact okList_map c
  · exact okList_map c
  · exact okList_map c
  · rename_i a b
    exact ⟨(c.set ia (-a)).set ib (-b), by rw [List.map_set, List.map_set]; rfl⟩

/-! ## `Alpha<C, T>` / `PreAlpha<C>` forwarding: `Mix` adds `alpha + factor·(Δalpha)` -/

/-- for any colour-level `mix` that is total on real data (linear `Mix`: `mixLin_ok`; hue `Mix`: `mixHue_ok`) the `Alpha` wrapper is total -/
theorem alphaMix_ok (mixC : List PReal → List PReal → PReal → List PReal)
    (hmix : ∀ (a b : List ℝ) (f : ℝ), OkList (mixC (a.map ok) (b.map ok) (ok f))) (a b : List ℝ) (aa ba f : ℝ) :
    OkList (Ops.Alpha.mix mixC ⟨a.map ok, ok aa⟩ ⟨b.map ok, ok ba⟩ (ok f)).color ∧
    ∃ r : ℝ, (Ops.Alpha.mix mixC ⟨a.map ok, ok aa⟩ ⟨b.map ok, ok ba⟩ (ok f)).alpha = ok r := by
  unfold Ops.Alpha.mix Ops.zero Ops.one
  simp only [ofSci, clamp_some, sub_some, mul_some, add_some]
  exact ⟨hmix _ _ _, _, rfl⟩

theorem alphaMix_lin_ok (a b : List ℝ) (aa ba f : ℝ) :
    OkList (Ops.Alpha.mix Ops.mixLin ⟨a.map ok, ok aa⟩ ⟨b.map ok, ok ba⟩ (ok f)).color :=
  (alphaMix_ok Ops.mixLin (fun a b f => mixLin_ok a b f) a b aa ba f).1
theorem alphaMix_hue_ok (ro : List Ops.Role) (a b : List ℝ) (aa ba f : ℝ) :
    OkList (Ops.Alpha.mix (Ops.mixHue ro) ⟨a.map ok, ok aa⟩ ⟨b.map ok, ok ba⟩ (ok f)).color :=
  (alphaMix_ok (Ops.mixHue ro) (fun a b f => mixHue_ok ro a b f) a b aa ba f).1

end C07
