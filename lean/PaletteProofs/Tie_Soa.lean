/-
  Source-text tie of the struct-of-arrays collections (C18): `Gen/BodiesSoa.lean` (regenerated on every run by
  tools/extract_plugins/soa.py -> tools/rust2lean_soa.py from the current text of `palette/src/macros/struct_of_arrays.rs` and
  `palette/src/alpha/alpha.rs`) against the hand-written model the driver executes (`PaletteModel/Soa.lean`, `SoaNested.lean`).

  The per-type ties live in `Tie_SoaRgb`, `Tie_SoaHsv`, `Tie_SoaLuma`, `Tie_SoaCam16Jch` (one type per shape of the four macros;
  54 bodies each); this module adds the generic code of alpha.rs -- `alpha::Iter::{next, next_back, size_hint, count, len}`,
  `Extend` and `FromIterator` for `Alpha<C, A>` -- whose translation takes every method of the wrapped iterators / collections
  as a parameter: each tie instantiates the parameters at the model's colour iterator `Soa.Zip` (resp. the colour collection
  `Soa.step`) and one column, and states the result equal to `Soa.NZip.next` / `nextBack` / `step` resp. `Soa.nextend` /
  `Soa.nstep .collect`; `alphaIter_*_at` compose them with the per-type `Iter` ties.
-/
import PaletteProofs.Tie_SoaRgb
import PaletteProofs.Tie_SoaHsv
import PaletteProofs.Tie_SoaLuma
import PaletteProofs.Tie_SoaCam16Jch

namespace Tie
open Soa SoaPrim SoaTie

variable {α : Type} {k : Nat}

set_option linter.unusedSimpArgs false

/-- `alpha::Iter::next`: both halves are advanced (colour first), the item exists iff both yielded -/
theorem tie_alphaIterNext (z : NZip α k) :
    (nzipOf (Gen.BodySoa.alphaIterNext (fun c => Soa.Zip.next c none) ColIter.next (ofNZip z)).1,
      (Gen.BodySoa.alphaIterNext (fun c => Soa.Zip.next c none) ColIter.next (ofNZip z)).2.map joinAlpha) = Soa.NZip.next z none := by
  simp only [Gen.BodySoa.alphaIterNext, NZip.next, nzipOf, ofNZip, ColIter.next, joinAlpha]
  cases hh : z.rest.head? <;> cases hc : (z.color.next none).2 <;> simp [joinItem, hc, joinAlpha]

theorem tie_alphaIterNextBack (z : NZip α k) :
    (nzipOf (Gen.BodySoa.alphaIterNextBack (fun c => Soa.Zip.nextBack c none) ColIter.nextBack (ofNZip z)).1,
      (Gen.BodySoa.alphaIterNextBack (fun c => Soa.Zip.nextBack c none) ColIter.nextBack (ofNZip z)).2.map joinAlpha) = Soa.NZip.nextBack z none := by
  simp only [Gen.BodySoa.alphaIterNextBack, NZip.nextBack, nzipOf, ofNZip, ColIter.nextBack, joinAlpha]
  cases hh : z.rest.getLast? <;> cases hc : (z.color.nextBack none).2 <;> simp [joinItem, hc, joinAlpha]

/-- `len` / `size_hint` / `count` are the colour iterator's (the alpha's is only `debug_assert`ed against it) -/
theorem tie_alphaIterLen (z : NZip α k) :
    (z, SObs.len (Gen.BodySoa.alphaIterLen Soa.Zip.len ColIter.len (ofNZip z))) = Soa.NZip.step z .len := rfl

theorem tie_alphaIterSizeHint (z : NZip α k) :
    (z, SObs.hint (Gen.BodySoa.alphaIterSizeHint Soa.Zip.sizeHint ColIter.sizeHint (ofNZip z)).1
          (Gen.BodySoa.alphaIterSizeHint Soa.Zip.sizeHint ColIter.sizeHint (ofNZip z)).2) = Soa.NZip.step z .sizeHint := rfl

theorem tie_alphaIterCount (z : NZip α k) :
    (z, SObs.count (Gen.BodySoa.alphaIterCount Soa.Zip.count ColIter.count (ofNZip z))) = Soa.NZip.step z .count := rfl

/-- `Extend for Alpha<C, A>`: per item, the colour collection is extended first, then the alpha vector -/
theorem tie_alphaExtend (n : Nest α k) (rs : List (Row α (k + 1))) :
    pairNest (Gen.BodySoa.alphaExtend (fun c x => (Soa.step c (.extend [x])).1) vecExtendOnce (nestPair n) (rs.map rowPair)) = Soa.nextend n rs := by
  simp only [Gen.BodySoa.alphaExtend, nextend, SoaPrim.forIn, List.foldl_map]
  induction rs generalizing n with
  | nil => rfl
  | cons r t ih =>
    simp only [List.foldl_cons]
    exact ih { color := (Soa.step n.color (.extend [rowColor r])).1, alpha := n.alpha ++ [rowAlpha r] }

/-- `FromIterator for Alpha<C, A>`: `C::from_iter(None)`, `A::default()`, then the same loop -/
theorem tie_alphaFromIter (n : Nest α k) (rs : List (Row α (k + 1))) :
    pairNest (Gen.BodySoa.alphaFromIter (Soa.step n.color (.collect [])).1 vecDefault (fun c x => (Soa.step c (.extend [x])).1) vecExtendOnce (rs.map rowPair))
      = (Soa.nstep n (.collect rs)).1 := by
  have h := tie_alphaExtend (α := α) (k := k) { color := (Soa.step n.color (.collect [])).1, alpha := [] } rs
  simp only [Gen.BodySoa.alphaExtend] at h
  simp only [Gen.BodySoa.alphaFromIter, Soa.nstep, ← h]
  rfl

/-! ## the generic `alpha::Iter` over a type's own `Iter`: composition with the per-type ties -/

theorem alphaIterNext_at_hsv (it : AIter (Vector (ColIter α) 3) (ColIter α)) :
    (toNZip (Gen.BodySoa.alphaIterNext Gen.BodySoa.hsvIterNext ColIter.next it).1,
      (Gen.BodySoa.alphaIterNext Gen.BodySoa.hsvIterNext ColIter.next it).2.map joinAlpha) = Soa.NZip.next (toNZip it) none := by
  have h := tie_hsvIterNext it.color
  have h1 := congrArg Prod.fst h
  have h2 := congrArg Prod.snd h
  simp only at h1 h2
  rw [← tie_alphaIterNext]
  simp only [Gen.BodySoa.alphaIterNext, toNZip, nzipOf, ofNZip, h1, h2]

theorem alphaIterNext_at_rgb (it : AIter (Vector (ColIter α) 3) (ColIter α)) :
    (toNZip (Gen.BodySoa.alphaIterNext Gen.BodySoa.rgbIterNext ColIter.next it).1,
      (Gen.BodySoa.alphaIterNext Gen.BodySoa.rgbIterNext ColIter.next it).2.map joinAlpha) = Soa.NZip.next (toNZip it) none := by
  have h := tie_rgbIterNext it.color
  have h1 := congrArg Prod.fst h
  have h2 := congrArg Prod.snd h
  simp only at h1 h2
  rw [← tie_alphaIterNext]
  simp only [Gen.BodySoa.alphaIterNext, toNZip, nzipOf, ofNZip, h1, h2]

end Tie
