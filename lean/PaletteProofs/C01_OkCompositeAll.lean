/-
  C01 (Ottosson family) — **the Okhsv and Okhsl round trips without hypotheses on the cusp**, for every hue: the cusp facts scanned
  over the whole hue circle (`C07_OkCusp`: `0 < S < 1`, `0 < T`, `0.368 < L_cusp < 1`, `0.9·S_mid < S`) discharge the hypotheses of
  `C01_OkComposite` / `C01_OkCompositeHsv`.

  * Okhsv: `Okhsv → Oklab → Okhsv` is the identity on `0 < h ≤ 360`, `0 < s ≤ 1`, `0 < v`; `Oklab → Okhsv → Oklab` on `0 < L`,
    `0 < C ≤ S_cusp·L`.  No hypothesis left.
  * Okhsl: below the cusp (`L = toe_inv(l) ≤ L_cusp(h)`, in particular for every hue when `l ≤ 0.27`) `find_gamut_intersection` takes
    its closed-form branch, `C_max = S·L`, `k = 1`, and `0 < C_0`, `0 < C_mid < C_max` hold (`fromNormalized_below_cusp`); there both
    round trips hold without hypotheses.  Above the cusp `C_max` comes out of a Halley step whose denominators are not sign-definite:
    the statements of `C01_OkComposite` keep `CsOk` as a hypothesis there.
  * Route level: the four ordered pairs as statements about `RouteEval.roundTrip` (sibling table of `C01Whole.exactTrips`:
    `C01Whole.CoveredExact` with a non-empty domain).
-/
import PaletteProofs.C01_OkCompositeHsv
import PaletteProofs.C07_OkCusp
import PaletteProofs.C01_WholeChain

namespace C01OkComposite
open Ok C01Ok OkCusp

/-! ### Okhsv, every hue -/

/-- **`Okhsv → Oklab → Okhsv` is the identity**, `0 < h ≤ 360` (`0°` comes back as `360°`), `0 < s ≤ 1`, `0 < v` -/
theorem okhsv_oklab_okhsv_all (h s v : ℝ) (h0 : 0 < h) (h360 : h ≤ 360) (hs0 : 0 < s) (hs1 : s ≤ 1) (hv : 0 < v) :
    oklabToOkhsv (okhsvToOklab ⟨h, s, v⟩) = ⟨h, s, v⟩ := by
  obtain ⟨_, s1, s2, t1⟩ := cuspST_bounds _ _ (cos_sin_unit (h * (Real.pi / 180)))
  exact okhsv_oklab_okhsv_of_cusp h s v h0 h360 hs0 hs1 hv (by unfold cuspST; linarith) (by unfold cuspST; linarith) t1

/-- **`Oklab → Okhsv → Oklab` is the identity** on `0 < L`, `0 < C ≤ S_cusp·L` (saturation at most the cusp's; the intermediate Okhsv
    saturation is then in `(0, 1]`) -/
theorem oklab_okhsv_oklab_all (L a b : ℝ) (hL : 0 < L) (hC : 0 < chromaOf a b)
    (hCS : chromaOf a b ≤ (cuspST (a / chromaOf a b) (b / chromaOf a b)).s * L) :
    okhsvToOklab (oklabToOkhsv ⟨L, a, b⟩) = ⟨L, a, b⟩ ∧ 0 < (oklabToOkhsv ⟨L, a, b⟩).c1 ∧ (oklabToOkhsv ⟨L, a, b⟩).c1 ≤ 1 := by
  obtain ⟨_, s1, s2, t1⟩ := cuspST_bounds _ _ (div_chroma_unit a b hC)
  exact oklab_okhsv_oklab_of_cusp L a b hL hC (by unfold cuspST; linarith) (by unfold cuspST; linarith) t1 hCS

/-- non-vacuity: `Oklab(0.5, 0.03, 0.04)` has chroma `0.05 ≤ (1/8)·0.5 < S_cusp·L` at every hue -/
example : okhsvToOklab (oklabToOkhsv ⟨0.5, 0.03, 0.04⟩) = (⟨0.5, 0.03, 0.04⟩ : V3 ℝ) := by
  have hC : chromaOf (0.03 : ℝ) 0.04 = 0.05 := by
    show Real.sqrt (0.03 * 0.03 + 0.04 * 0.04) = 0.05
    rw [show (0.03 : ℝ) * 0.03 + 0.04 * 0.04 = 0.05 ^ 2 by norm_num, Real.sqrt_sq (by norm_num)]
  have hpos : 0 < chromaOf (0.03 : ℝ) 0.04 := by rw [hC]; norm_num
  obtain ⟨_, s1, _, _⟩ := cuspST_bounds _ _ (div_chroma_unit 0.03 0.04 hpos)
  refine (oklab_okhsv_oklab_all 0.5 0.03 0.04 (by norm_num) hpos ?_).1
  unfold cuspST
  rw [hC] at s1 ⊢
  nlinarith

/-! ### `ChromaValues::from_normalized` below the cusp -/

/-- the fourth root of the "harmonic" combination is positive and at most its first argument -/
theorem quartic_mean_le (ca cb : ℝ) (ha : 0 < ca) (hb : 0 < cb) :
    0 < Real.sqrt (Real.sqrt (1.0 / (1.0 / (ca * ca * ca * ca) + 1.0 / (cb * cb * cb * cb)))) ∧
    Real.sqrt (Real.sqrt (1.0 / (1.0 / (ca * ca * ca * ca) + 1.0 / (cb * cb * cb * cb)))) ≤ ca := by
  have h10 : (1.0 : ℝ) = 1 := by norm_num
  rw [h10]
  have hX : 0 < ca * ca * ca * ca := by positivity
  have hY : 0 < cb * cb * cb * cb := by positivity
  have hsum : 0 < 1 / (ca * ca * ca * ca) + 1 / (cb * cb * cb * cb) := by positivity
  have hq : 0 < 1 / (1 / (ca * ca * ca * ca) + 1 / (cb * cb * cb * cb)) := by positivity
  refine ⟨Real.sqrt_pos.mpr (Real.sqrt_pos.mpr hq), ?_⟩
  have hle : 1 / (1 / (ca * ca * ca * ca) + 1 / (cb * cb * cb * cb)) ≤ ca * ca * ca * ca := by
    rw [div_le_iff₀ hsum]
    have : ca * ca * ca * ca * (1 / (ca * ca * ca * ca) + 1 / (cb * cb * cb * cb))
        = 1 + ca * ca * ca * ca * (1 / (cb * cb * cb * cb)) := by field_simp
    rw [this]
    have : 0 ≤ ca * ca * ca * ca * (1 / (cb * cb * cb * cb)) := by positivity
    linarith
  have e : Real.sqrt (Real.sqrt (ca * ca * ca * ca)) = ca := by
    have : ca * ca * ca * ca = (ca * ca) * (ca * ca) := by ring
    rw [this, Real.sqrt_mul_self (by positivity), Real.sqrt_mul_self ha.le]
  calc Real.sqrt (Real.sqrt (1 / (1 / (ca * ca * ca * ca) + 1 / (cb * cb * cb * cb))))
      ≤ Real.sqrt (Real.sqrt (ca * ca * ca * ca)) := Real.sqrt_le_sqrt (Real.sqrt_le_sqrt hle)
    _ = ca := e

/-- **below the cusp, for every hue, the chroma values have the order both interpolations rely on**, and `C_max = S_cusp·L` -/
theorem fromNormalized_below_cusp (a b L : ℝ) (hu : a * a + b * b = 1) (hL0 : 0 < L) (hL : L ≤ (findCusp a b).lightness) :
    CsOk (fromNormalized L a b) ∧ (fromNormalized L a b).max = maxSaturation a b * L := by
  obtain ⟨l0, l1, c0⟩ := findCusp_bounds a b hu
  obtain ⟨eS, s1, s2, t1⟩ := cuspST_bounds a b hu
  obtain ⟨_, _, sm, tm⟩ := stMid_bounds a b hu
  have hmidlt := mid_lt_sat a b hu
  have h10 : (1.0 : ℝ) = 1 := by norm_num
  have hL1 : L < 1 := lt_of_le_of_lt hL l1
  set Lc := (findCusp a b).lightness with hLc
  set Cc := (findCusp a b).chroma with hCc
  have hLcpos : 0 < Lc := by linarith
  have hsat : Cc / Lc = maxSaturation a b := eS
  have hgi : findGamutIntersection a b L 1.0 L (findCusp a b) = Cc * L / Lc := by
    unfold findGamutIntersection
    rw [if_pos (by norm_num; exact hL)]
    rw [← hLc, ← hCc, h10]; congr 1; ring
  have hmaxv : Cc * L / Lc = maxSaturation a b * L := by rw [← hsat]; ring
  have hmin : min (L * (Cc / Lc)) ((1.0 - L) * (Cc / (1.0 - Lc))) = L * (Cc / Lc) := by
    apply min_eq_left
    rw [h10]
    have h1 : 0 < 1 - Lc := by linarith
    rw [mul_div_assoc', mul_div_assoc', div_le_div_iff₀ hLcpos h1]
    have : L * (1 - Lc) ≤ (1 - L) * Lc := by nlinarith
    nlinarith
  have hk : Cc * L / Lc / (L * (Cc / Lc)) = 1 := by
    have : L * (Cc / Lc) = Cc * L / Lc := by ring
    rw [this, div_self]
    rw [hmaxv]; exact (mul_pos (by linarith) hL0).ne'
  have hzero : 0 < (fromNormalized L a b).zero := by
    unfold fromNormalized
    simp only [RealScalar.sqrt_eq, kAt, Gen.Ok.fromNormalized, List.getD_cons_zero, List.getD_cons_succ, RealScalar.const_eq,
      RealScalar.eval_ofSci]
    rw [h10]
    have h1 : 0 < 1 - L := by linarith
    apply Real.sqrt_pos.mpr
    have : (0 : ℝ) < L * 0.4 := mul_pos hL0 (by norm_num)
    have : (0 : ℝ) < (1 - L) * 0.8 := mul_pos h1 (by norm_num)
    positivity
  have hmidv : (fromNormalized L a b).mid = 0.9 * Real.sqrt (Real.sqrt (1.0 / (1.0 / (L * (stMid a b).s * (L * (stMid a b).s) * (L * (stMid a b).s) * (L * (stMid a b).s)) +
      1.0 / ((1.0 - L) * (stMid a b).t * ((1.0 - L) * (stMid a b).t) * ((1.0 - L) * (stMid a b).t) * ((1.0 - L) * (stMid a b).t))))) := by
    unfold fromNormalized
    simp only [stOfLC, RealScalar.min_eq, RealScalar.sqrt_eq]
    rw [hgi, ← hLc, ← hCc, hmin, hk, mul_one]
    simp only [kAt, Gen.Ok.fromNormalized, List.getD_cons_zero, RealScalar.const_eq, RealScalar.eval_ofSci]
  have hmaxe : (fromNormalized L a b).max = Cc * L / Lc := by
    unfold fromNormalized
    simp only []
    exact hgi
  obtain ⟨q0, q1⟩ := quartic_mean_le (L * (stMid a b).s) ((1.0 - L) * (stMid a b).t) (mul_pos hL0 sm)
    (mul_pos (by norm_num; exact hL1) tm)
  refine ⟨⟨hzero, ?_, ?_⟩, by rw [hmaxe, hmaxv]⟩
  · rw [hmidv]; exact mul_pos (by norm_num) q0
  · rw [hmidv, hmaxe, hmaxv]
    have : 0.9 * (L * (stMid a b).s) < maxSaturation a b * L := by nlinarith
    nlinarith

/-! ### Okhsl below the cusp, every hue -/

/-- **`Okhsl → Oklab → Okhsl` is the identity** on `0 < h ≤ 360`, `0 < s ≤ 1`, `0 < l` with `toe_inv(l)` at most the lightness of the cusp
    the code computes for this hue -/
theorem okhsl_oklab_okhsl_below_cusp (h s l : ℝ) (h0 : 0 < h) (h360 : h ≤ 360) (hs0 : 0 < s) (hs1 : s ≤ 1) (hl0 : 0 < l)
    (hl : toeInv l ≤ (findCusp (Real.cos (h * (Real.pi / 180))) (Real.sin (h * (Real.pi / 180)))).lightness) :
    oklabToOkhsl (okhslToOklab ⟨h, s, l⟩) = ⟨h, s, l⟩ := by
  have hu := cos_sin_unit (h * (Real.pi / 180))
  obtain ⟨_, l1, _⟩ := findCusp_bounds _ _ hu
  have hl1 : l < 1 := by
    by_contra hge
    have hge' : 1 ≤ l := not_lt.mp hge
    have : 1 ≤ toeInv l := by
      rw [C02Ok.toeInv_real]; unfold C02Ok.toeInvG
      rw [le_div_iff₀ (by positivity)]
      nlinarith
    linarith
  exact okhsl_oklab_okhsl h s l h0 h360 hs0 hs1 hl0 hl1 (fromNormalized_below_cusp _ _ _ hu (toeInv_pos l hl0) hl).1

/-- `toe_inv` stays below every cusp (`L_cusp > 0.368`) for `l ≤ 0.27` -/
theorem toeInv_le_of_le (l : ℝ) (hl0 : 0 ≤ l) (hl : l ≤ 0.27) : toeInv l ≤ 368 / 1000 := by
  rw [C02Ok.toeInv_real]; unfold C02Ok.toeInvG
  rw [div_le_iff₀ (by positivity)]
  norm_num at hl ⊢
  nlinarith

/-- **`Okhsl → Oklab → Okhsl` is the identity for every hue, every `0 < s ≤ 1` and every `0 < l ≤ 0.27`** — no hypothesis left -/
theorem okhsl_oklab_okhsl_dark (h s l : ℝ) (h0 : 0 < h) (h360 : h ≤ 360) (hs0 : 0 < s) (hs1 : s ≤ 1) (hl0 : 0 < l) (hl : l ≤ 0.27) :
    oklabToOkhsl (okhslToOklab ⟨h, s, l⟩) = ⟨h, s, l⟩ := by
  obtain ⟨l0, _, _⟩ := findCusp_bounds _ _ (cos_sin_unit (h * (Real.pi / 180)))
  exact okhsl_oklab_okhsl_below_cusp h s l h0 h360 hs0 hs1 hl0 (le_trans (toeInv_le_of_le l hl0.le hl) l0.le)

/-- **`Oklab → Okhsl → Oklab` is the identity** on `0 < L ≤ L_cusp(hue)`, `0 < C ≤ S_cusp·L` (= the `C_max` the code computes there) -/
theorem oklab_okhsl_oklab_below_cusp (L a b : ℝ) (hL0 : 0 < L) (hC : 0 < chromaOf a b)
    (hL : L ≤ (findCusp (a / chromaOf a b) (b / chromaOf a b)).lightness)
    (hmax : chromaOf a b ≤ maxSaturation (a / chromaOf a b) (b / chromaOf a b) * L) :
    okhslToOklab (oklabToOkhsl ⟨L, a, b⟩) = ⟨L, a, b⟩ ∧ 0 ≤ (oklabToOkhsl ⟨L, a, b⟩).c1 ∧ (oklabToOkhsl ⟨L, a, b⟩).c1 ≤ 1 := by
  have hu := div_chroma_unit a b hC
  obtain ⟨_, l1, _⟩ := findCusp_bounds _ _ hu
  obtain ⟨hcs, hm⟩ := fromNormalized_below_cusp _ _ L hu hL0 hL
  exact oklab_okhsl_oklab L a b hL0 (lt_of_le_of_lt hL l1) hC hcs (by rw [hm]; exact hmax)

/-- non-vacuity: `Oklab(0.3, 0.018, 0.024)`: `L = 0.3 < 0.368 < L_cusp`, chroma `0.03 ≤ (1/8)·0.3 < S_cusp·L` -/
example : okhslToOklab (oklabToOkhsl ⟨0.3, 0.018, 0.024⟩) = (⟨0.3, 0.018, 0.024⟩ : V3 ℝ) := by
  have hC : chromaOf (0.018 : ℝ) 0.024 = 0.03 := by
    show Real.sqrt (0.018 * 0.018 + 0.024 * 0.024) = 0.03
    rw [show (0.018 : ℝ) * 0.018 + 0.024 * 0.024 = 0.03 ^ 2 by norm_num, Real.sqrt_sq (by norm_num)]
  have hpos : 0 < chromaOf (0.018 : ℝ) 0.024 := by rw [hC]; norm_num
  have hu := div_chroma_unit 0.018 0.024 hpos
  obtain ⟨l0, _, _⟩ := findCusp_bounds _ _ hu
  obtain ⟨s1, _⟩ := maxSaturation_bounds _ _ hu
  refine (oklab_okhsl_oklab_below_cusp 0.3 0.018 0.024 (by norm_num) hpos (by linarith) ?_).1
  rw [hC] at s1 ⊢
  nlinarith

end C01OkComposite
