/-
  C06 — `u32 → f32`, `u64 → f32`, `u128 → f32` (`convert_uint_to_float!` with `via f64`: `(self as f64 / MAX as f64) as f32`),
  **for every source value**.  The last step is the bit-level narrowing `Stim.f64ToF32`, proved to be the correctly rounded
  conversion in `Lemmas/StimNarrowF.lean`.  What the code computes, with the roundings named:
      u32:   R32 (R64 (n / (2^32 − 1)))            — quotient rounded to binary64, then to binary32 (a double rounding),
      u64:   R32 (R64 n / 2^64)                     — the integer rounded to 53 bits, exact scaling, then to 24 bits,
      u128:  R32 (R64 n / 2^128)                    — same (results below `2^-126` are binary32 subnormals: `n < 4`).
  All three are monotone over every ordered pair of sources (each rounding is), map `0 ↦ 0` and `MAX ↦ exactly 1.0`.
-/
import PaletteProofs.Lemmas.StimNarrowF
import PaletteProofs.C06_StimulusIntFloat
import PaletteProofs.Lemmas.StimNarrow

namespace C06
open Stim Float.Model Float.Model.UnpackedFloat Ieee

theorem uintToF32_32_eq (n : ℕ) : uintToF32 32 n = f64ToF32 (uintToF64 32 n) := rfl
theorem uintToF32_64_eq (n : ℕ) : uintToF32 64 n = f64ToF32 (uintToF64 64 n) := rfl
theorem uintToF32_128_eq (n : ℕ) : uintToF32 128 n = f64ToF32 (uintToF64 128 n) := rfl

/-- narrowing a finite binary64 value in `[0, 1]` -/
theorem narrow_unit {a : Float} (fa : F64.IsFin a) (h0 : 0 ≤ F64.v a) (h1 : F64.v a ≤ 1) :
    F32.IsFin (f64ToF32 a) ∧ F32.v (f64ToF32 a) = F32.R32 (F64.v a) :=
  f64ToF32_spec_lt fa (by
    rw [abs_of_nonneg h0]
    exact lt_of_le_of_lt h1 (one_lt_pow₀ (by norm_num) (by norm_num)))

theorem R32_one : F32.R32 1 = 1 := by
  have := F32.R32_natCast (n := 1) (by norm_num); simpa using this

/-- **`u32 → f32`**: `R32 (R64 (n / (2^32 − 1)))` -/
theorem u32_to_f32_value (n : ℕ) (hn : n < 2^32) :
    F32.IsFin (uintToF32 32 n) ∧ F32.v (uintToF32 32 n) = F32.R32 (F64.R64 ((n : ℚ) / 4294967295)) := by
  obtain ⟨fa, va⟩ := u32_to_f64_value n hn
  have hq0 : (0 : ℚ) ≤ (n : ℚ) / 4294967295 := by positivity
  have hq1 : (n : ℚ) / 4294967295 ≤ 1 := by
    rw [div_le_one (by norm_num)]; exact_mod_cast (by omega : n ≤ 4294967295)
  have h0 : 0 ≤ F64.v (uintToF64 32 n) := by rw [va]; exact R_nonneg hq0
  have h1 : F64.v (uintToF64 32 n) ≤ 1 := by
    rw [va]; have := F64.R64_mono hq1; rwa [R64_one] at this
  rw [uintToF32_32_eq, ← va]
  exact narrow_unit fa h0 h1

/-- **`u64 → f32`**: `R32 (R64 n / 2^64)` -/
theorem u64_to_f32_value (n : ℕ) (hn : n < 2^64) :
    F32.IsFin (uintToF32 64 n) ∧ F32.v (uintToF32 64 n) = F32.R32 (F64.R64 (n : ℚ) / 2^64) := by
  obtain ⟨fa, va, h0, h1⟩ := u64_to_f64_value n hn
  rw [uintToF32_64_eq, ← va]
  exact narrow_unit fa h0 h1

/-- **`u128 → f32`**: `R32 (R64 n / 2^128)` -/
theorem u128_to_f32_value (n : ℕ) (hn : n < 2^128) :
    F32.IsFin (uintToF32 128 n) ∧ F32.v (uintToF32 128 n) = F32.R32 (F64.R64 (n : ℚ) / 2^128) := by
  obtain ⟨fa, va, h0, h1⟩ := u128_to_f64_value n hn
  rw [uintToF32_128_eq, ← va]
  exact narrow_unit fa h0 h1

/-- **monotone over every ordered pair of source values** -/
theorem u32_to_f32_monotone_all : ∀ n n' : ℕ, n ≤ n' → n' < 2^32 → uintToF32 32 n ≤ uintToF32 32 n' := by
  intro n n' h hn'
  obtain ⟨f1, v1⟩ := u32_to_f32_value n (by omega)
  obtain ⟨f2, v2⟩ := u32_to_f32_value n' hn'
  rw [F32.le_iff f1 f2, v1, v2]
  exact F32.R32_mono (F64.R64_mono (div_le_div_of_nonneg_right (by exact_mod_cast h) (by norm_num)))

theorem u64_to_f32_monotone_all : ∀ n n' : ℕ, n ≤ n' → n' < 2^64 → uintToF32 64 n ≤ uintToF32 64 n' := by
  intro n n' h hn'
  obtain ⟨f1, v1⟩ := u64_to_f32_value n (by omega)
  obtain ⟨f2, v2⟩ := u64_to_f32_value n' hn'
  rw [F32.le_iff f1 f2, v1, v2]
  exact F32.R32_mono (div_le_div_of_nonneg_right (F64.R64_mono (by exact_mod_cast h)) (by positivity))

theorem u128_to_f32_monotone_all : ∀ n n' : ℕ, n ≤ n' → n' < 2^128 → uintToF32 128 n ≤ uintToF32 128 n' := by
  intro n n' h hn'
  obtain ⟨f1, v1⟩ := u128_to_f32_value n (by omega)
  obtain ⟨f2, v2⟩ := u128_to_f32_value n' hn'
  rw [F32.le_iff f1 f2, v1, v2]
  exact F32.R32_mono (div_le_div_of_nonneg_right (F64.R64_mono (by exact_mod_cast h)) (by positivity))

/-- `0 ↦ 0` and `MAX ↦ exactly 1` (values; the bit patterns `0x0` / `0x3f800000` are `C06.uint_to_float_ends`) -/
theorem big_to_f32_ends :
    F32.v (uintToF32 32 0) = 0 ∧ F32.v (uintToF32 32 (2^32 - 1)) = 1 ∧
    F32.v (uintToF32 64 0) = 0 ∧ F32.v (uintToF32 64 (2^64 - 1)) = 1 ∧
    F32.v (uintToF32 128 0) = 0 ∧ F32.v (uintToF32 128 (2^128 - 1)) = 1 := by
  have z64 : F64.R64 (((0 : ℕ) : ℚ)) = 0 := by simp [Rs_zero]
  have z32 : F32.R32 0 = 0 := Rs_zero _
  refine ⟨?_, ?_, ?_, ?_, ?_, ?_⟩
  · rw [(u32_to_f32_value 0 (by norm_num)).2]; simp [Rs_zero]
  · rw [(u32_to_f32_value (2^32 - 1) (by norm_num)).2]
    have : (((2^32 - 1 : ℕ) : ℚ)) / 4294967295 = 1 := by norm_num
    rw [this, R64_one, R32_one]
  · rw [(u64_to_f32_value 0 (by norm_num)).2, z64, zero_div, z32]
  · rw [(u64_to_f32_value (2^64 - 1) (by norm_num)).2, R64_max_big (by norm_num), div_self (by positivity), R32_one]
  · rw [(u128_to_f32_value 0 (by norm_num)).2, z64, zero_div, z32]
  · rw [(u128_to_f32_value (2^128 - 1) (by norm_num)).2, R64_max_big (by norm_num), div_self (by positivity), R32_one]

end C06
