/-
  C01 (CIE family) — the edge pairs are mutual inverses at ℝ, each under an explicit domain predicate with a non-vacuity example.
  (Xyz↔Yxy: `C02Cie.yxy_xyz_roundtrip`, `C02Cie.xyz_yxy_roundtrip`.)
-/
import PaletteProofs.C02_Cie

namespace C01Cie
open Cie C02Cie

/-! ### Xyz ↔ Lab: `f` and `f⁻¹` are inverse bijections of ℝ -/

theorem cbrt_cube {t : ℝ} (h : 0 ≤ t) : (t ^ ((1 : ℝ) / 3)) ^ 3 = t := by
  rw [← Real.rpow_natCast, ← Real.rpow_mul h]; norm_num
theorem cube_cbrt {c : ℝ} (h : 0 ≤ c) : (c ^ 3) ^ ((1 : ℝ) / 3) = c := by
  rw [← Real.rpow_natCast, ← Real.rpow_mul h]; norm_num
theorem cbrt_eps : ((6 / 29 : ℝ) ^ 3) ^ ((1 : ℝ) / 3) = 6 / 29 := cube_cbrt (by norm_num)

/-- `f⁻¹ ∘ f = id` on all of ℝ -/
theorem labFInv_labF (t : ℝ) : labFInv (labF t) = t := by
  by_cases h : (6 / 29 : ℝ) ^ 3 < t
  · have ht : 0 ≤ t := le_of_lt (lt_trans (by norm_num) h)
    have h2 : (6 / 29 : ℝ) < t ^ ((1 : ℝ) / 3) := by
      have := Real.rpow_lt_rpow (by norm_num) h (show (0 : ℝ) < 1 / 3 by norm_num)
      rwa [cbrt_eps] at this
    rw [labF_hi h, labFInv_hi h2, cbrt_cube ht]
  · have h2 : ¬ (6 / 29 : ℝ) < 841 / 108 * t + 4 / 29 := by
      rw [not_lt] at h ⊢; norm_num at h ⊢; linarith
    rw [labF_lo h, labFInv_lo h2]; ring

/-- `f ∘ f⁻¹ = id` on all of ℝ -/
theorem labF_labFInv (c : ℝ) : labF (labFInv c) = c := by
  by_cases h : (6 / 29 : ℝ) < c
  · have hc : 0 ≤ c := le_of_lt (lt_trans (by norm_num) h)
    have h2 : (6 / 29 : ℝ) ^ 3 < c ^ 3 := pow_lt_pow_left₀ h (by norm_num) (by norm_num)
    rw [labFInv_hi h, labF_hi h2, cube_cbrt hc]
  · have h2 : ¬ (6 / 29 : ℝ) ^ 3 < (c - 4 / 29) * (108 / 841) := by
      rw [not_lt] at h ⊢; norm_num at h ⊢; linarith
    rw [labFInv_lo h, labF_lo h2]; ring

/-- **Xyz → Lab → Xyz** is the identity on all of ℝ³, for every white point with non-zero components -/
theorem lab_xyz_roundtrip (wp c : V3 ℝ) (h0 : wp.c0 ≠ 0) (h1 : wp.c1 ≠ 0) (h2 : wp.c2 ≠ 0) :
    labToXyz wp (xyzToLab wp c) = c := by
  obtain ⟨X, Y, Z⟩ := c
  unfold labToXyz xyzToLab
  simp only [recip_eq]
  have ey : (labF (Y / wp.c1) * 116.0 - 16.0 + 16.0) * (1 / 116.0 : ℝ) = labF (Y / wp.c1) := by sring
  have ex : labF (Y / wp.c1) + (labF (X / wp.c0) - labF (Y / wp.c1)) * 500.0 * (1 / 500.0 : ℝ) = labF (X / wp.c0) := by sring
  have ez : labF (Y / wp.c1) - (labF (Y / wp.c1) - labF (Z / wp.c2)) * 200.0 * (1 / 200.0 : ℝ) = labF (Z / wp.c2) := by sring
  rw [ey, ex, ez, labFInv_labF, labFInv_labF, labFInv_labF]
  congr 1 <;> field_simp

/-- **Lab → Xyz → Lab** is the identity on all of ℝ³ -/
theorem xyz_lab_roundtrip (wp c : V3 ℝ) (h0 : wp.c0 ≠ 0) (h1 : wp.c1 ≠ 0) (h2 : wp.c2 ≠ 0) :
    xyzToLab wp (labToXyz wp c) = c := by
  obtain ⟨L, a, b⟩ := c
  unfold labToXyz xyzToLab
  simp only [recip_eq]
  rw [mul_div_assoc, mul_div_assoc, mul_div_assoc, div_self h0, div_self h1, div_self h2, mul_one, mul_one, mul_one,
    labF_labFInv, labF_labFInv, labF_labFInv]
  congr 1 <;> sring

/-- non-vacuity: D65 has non-zero components -/
example : (0.95047 : ℝ) ≠ 0 ∧ (1 : ℝ) ≠ 0 ∧ (1.08883 : ℝ) ≠ 0 := by norm_num


/-! ### cartesian ↔ polar -/

/-- the raw radians of the stored hue -/
theorem hue_rad (a b : ℝ) : Angle.degToRad (hueFromCartesian a b) = Real.pi + Complex.arg (-(⟨a, b⟩ : ℂ)) := by
  rw [hueFromCartesian_eq, RealScalar.degToRad_eq]; have := Real.pi_ne_zero; field_simp

theorem norm_mk (a b : ℝ) : ‖(⟨a, b⟩ : ℂ)‖ = Real.sqrt (a * a + b * b) := by
  rw [Complex.norm_eq_sqrt_sq_add_sq]; congr 1; ring

/-- `cos`/`sin` of the stored hue times the chroma give back the cartesian pair — for every `(a, b)`, zero included -/
theorem cos_hue_mul (a b : ℝ) : Real.cos (Real.pi + Complex.arg (-(⟨a, b⟩ : ℂ))) * Real.sqrt (a * a + b * b) = a := by
  by_cases hz : (⟨a, b⟩ : ℂ) = 0
  · have ha : a = 0 := by simpa using congrArg Complex.re hz
    have hb : b = 0 := by simpa using congrArg Complex.im hz
    subst ha; subst hb; simp
  · have hn : (-(⟨a, b⟩ : ℂ)) ≠ 0 := neg_ne_zero.mpr hz
    have hpos : 0 < ‖(⟨a, b⟩ : ℂ)‖ := norm_pos_iff.mpr hz
    rw [add_comm, Real.cos_add_pi, Complex.cos_arg hn, norm_neg, ← norm_mk]
    simp only [Complex.neg_re]
    field_simp

theorem sin_hue_mul (a b : ℝ) : Real.sin (Real.pi + Complex.arg (-(⟨a, b⟩ : ℂ))) * Real.sqrt (a * a + b * b) = b := by
  by_cases hz : (⟨a, b⟩ : ℂ) = 0
  · have ha : a = 0 := by simpa using congrArg Complex.re hz
    have hb : b = 0 := by simpa using congrArg Complex.im hz
    subst ha; subst hb; simp
  · have hpos : 0 < ‖(⟨a, b⟩ : ℂ)‖ := norm_pos_iff.mpr hz
    rw [add_comm, Real.sin_add_pi, Complex.sin_arg, norm_neg, ← norm_mk]
    simp only [Complex.neg_im]
    field_simp

theorem max_sqrt (x : ℝ) : max (Real.sqrt x) (0.0 : ℝ) = Real.sqrt x := by
  have := Real.sqrt_nonneg x
  exact max_eq_left (by norm_num)

/-- **Lab → Lch → Lab** is the identity on all of ℝ³ (also on the neutral axis, where the hue is arbitrary) -/
theorem lch_lab_roundtrip (c : V3 ℝ) : lchToLab (labToLch c) = c := by
  obtain ⟨L, a, b⟩ := c
  simp only [lchToLab, labToLch, hue_rad, RealScalar.hypot_eq, RealScalar.max_eq, RealScalar.cos_eq, RealScalar.sin_eq, max_sqrt,
    cos_hue_mul, sin_hue_mul]

/-- **Luv → Lchuv → Luv** is the identity on all of ℝ³ -/
theorem lchuv_luv_roundtrip (c : V3 ℝ) : lchuvToLuv (luvToLchuv c) = c := by
  obtain ⟨L, u, v⟩ := c
  simp only [lchuvToLuv, luvToLchuv, hue_rad, RealScalar.hypot_eq, RealScalar.max_eq, RealScalar.cos_eq, RealScalar.sin_eq, max_sqrt]
  rw [mul_comm _ (Real.cos _), mul_comm _ (Real.sin _), cos_hue_mul, sin_hue_mul]

/-- chroma of `(C cos r, C sin r)` is `C` for `C ≥ 0` -/
theorem sqrt_polar (C r : ℝ) (hC : 0 ≤ C) : Real.sqrt (Real.cos r * C * (Real.cos r * C) + Real.sin r * C * (Real.sin r * C)) = C := by
  have : Real.cos r * C * (Real.cos r * C) + Real.sin r * C * (Real.sin r * C) = C ^ 2 * (Real.sin r ^ 2 + Real.cos r ^ 2) := by ring
  rw [this, Real.sin_sq_add_cos_sq, mul_one, Real.sqrt_sq hC]

/-- the hue of `(C cos r, C sin r)`, `C > 0`, `r = h·π/180`: the original hue plus a whole number of turns -/
theorem hue_of_polar (C h : ℝ) (hC : 0 < C) :
    ∃ k : ℤ, hueFromCartesian (Real.cos (h * (Real.pi / 180)) * C) (Real.sin (h * (Real.pi / 180)) * C) = h + 360 * k := by
  set r := h * (Real.pi / 180) with hr
  have hz : (-(⟨Real.cos r * C, Real.sin r * C⟩ : ℂ)) = (C : ℂ) * (Complex.cos ((r + Real.pi : ℝ) : ℂ) + Complex.sin ((r + Real.pi : ℝ) : ℂ) * Complex.I) := by
    have : (-(⟨Real.cos r * C, Real.sin r * C⟩ : ℂ)) = (C : ℂ) * (((Real.cos (r + Real.pi) : ℝ) : ℂ) + ((Real.sin (r + Real.pi) : ℝ) : ℂ) * Complex.I) := by
      apply Complex.ext
      · simp [Real.cos_add_pi, Real.sin_add_pi]; rw [← Complex.ofReal_cos, Complex.ofReal_re]; ring
      · simp [Real.cos_add_pi, Real.sin_add_pi]; rw [← Complex.ofReal_sin, Complex.ofReal_re]; ring
    rw [this, Complex.ofReal_cos, Complex.ofReal_sin]
  have hk := Complex.arg_mul_cos_add_sin_mul_I_sub hC (r + Real.pi)
  refine ⟨⌊(Real.pi - (r + Real.pi)) / (2 * Real.pi)⌋ + 1, ?_⟩
  rw [hueFromCartesian_eq, hz]
  have e : Complex.arg ((C : ℂ) * (Complex.cos ((r + Real.pi : ℝ) : ℂ) + Complex.sin ((r + Real.pi : ℝ) : ℂ) * Complex.I))
      = (r + Real.pi) + 2 * Real.pi * ⌊(Real.pi - (r + Real.pi)) / (2 * Real.pi)⌋ := by linarith
  rw [e, hr]; push_cast
  have := Real.pi_ne_zero; field_simp; ring

/-- **Lch → Lab → Lch** for chroma > 0: lightness and chroma come back exactly, the hue modulo 360 -/
theorem lab_lch_roundtrip (L C h : ℝ) (hC : 0 < C) :
    ∃ k : ℤ, labToLch (lchToLab ⟨L, C, h⟩) = ⟨L, C, h + 360 * k⟩ := by
  obtain ⟨k, hk⟩ := hue_of_polar C h hC
  refine ⟨k, ?_⟩
  have hm : max C (0.0 : ℝ) = C := by norm_num; exact hC.le
  simp only [lchToLab, labToLch, RealScalar.degToRad_eq, RealScalar.hypot_eq, RealScalar.max_eq, RealScalar.cos_eq, RealScalar.sin_eq, hm]
  rw [sqrt_polar C _ hC.le, hk]

theorem luv_lchuv_roundtrip (L C h : ℝ) (hC : 0 < C) :
    ∃ k : ℤ, luvToLchuv (lchuvToLuv ⟨L, C, h⟩) = ⟨L, C, h + 360 * k⟩ := by
  obtain ⟨k, hk⟩ := hue_of_polar C h hC
  refine ⟨k, ?_⟩
  have hm : max C (0.0 : ℝ) = C := by norm_num; exact hC.le
  simp only [lchuvToLuv, luvToLchuv, RealScalar.degToRad_eq, RealScalar.hypot_eq, RealScalar.max_eq, RealScalar.cos_eq, RealScalar.sin_eq, hm]
  rw [mul_comm C (Real.cos _), mul_comm C (Real.sin _), sqrt_polar C _ hC.le, hk]

/-- and exactly (k = 0) when the hue is already in the range the code produces, `(0, 360]` -/
theorem lab_lch_roundtrip_exact (L C h : ℝ) (hC : 0 < C) (h0 : 0 < h) (h1 : h ≤ 360) :
    labToLch (lchToLab ⟨L, C, h⟩) = ⟨L, C, h⟩ := by
  obtain ⟨k, hk⟩ := lab_lch_roundtrip L C h hC
  have hr := hue_range (lchToLab ⟨L, C, h⟩).c1 (lchToLab ⟨L, C, h⟩).c2
  have e : hueFromCartesian (lchToLab ⟨L, C, h⟩).c1 (lchToLab ⟨L, C, h⟩).c2 = h + 360 * k := by
    have := congrArg V3.c2 hk; simpa [labToLch] using this
  rw [e] at hr
  have hk0 : k = 0 := by
    have h2 : (-1 : ℝ) < k := by linarith [hr.1]
    have h3 : (k : ℝ) < 1 := by linarith [hr.2]
    have h2' : (-1 : ℤ) < k := by exact_mod_cast h2
    have h3' : k < (1 : ℤ) := by exact_mod_cast h3
    omega
  rw [hk, hk0]; simp

example : (0 : ℝ) < 40 := by norm_num


/-! ### Xyz ↔ Luv -/

theorem luvL_hi {yr : ℝ} (h : (6 / 29 : ℝ) ^ 3 < yr) : luvL yr = 116 * yr ^ ((1 : ℝ) / 3) - 16 := by
  rw [luvL_eq_spec, Spec.Cie.lightness, if_pos h]
theorem luvL_lo {yr : ℝ} (h : ¬ (6 / 29 : ℝ) ^ 3 < yr) : luvL yr = (29 / 3 : ℝ) ^ 3 * yr := by
  rw [luvL_eq_spec, Spec.Cie.lightness, if_neg h]
theorem luvY_hi {L : ℝ} (h : 8 < L) : luvY L = ((L + 16) / 116) ^ 3 := by rw [luvY_eq, if_pos h]
theorem luvY_lo {L : ℝ} (h : ¬ 8 < L) : luvY L = L * (3 / 29 : ℝ) ^ 3 := by rw [luvY_eq, if_neg h]

/-- above the threshold the lightness exceeds 8 (and conversely): the two piecewise definitions switch together -/
theorem luvL_gt_eight {yr : ℝ} (h : (6 / 29 : ℝ) ^ 3 < yr) : 8 < luvL yr := by
  have := Real.rpow_lt_rpow (by norm_num) h (show (0 : ℝ) < 1 / 3 by norm_num)
  rw [cbrt_eps] at this
  rw [luvL_hi h]; linarith

theorem luvY_luvL (yr : ℝ) : luvY (luvL yr) = yr := by
  by_cases h : (6 / 29 : ℝ) ^ 3 < yr
  · have ht : 0 ≤ yr := le_of_lt (lt_trans (by norm_num) h)
    rw [luvY_hi (luvL_gt_eight h), luvL_hi h]
    have : (116 * yr ^ ((1 : ℝ) / 3) - 16 + 16) / 116 = yr ^ ((1 : ℝ) / 3) := by ring
    rw [this, cbrt_cube ht]
  · have h8 : ¬ 8 < (29 / 3 : ℝ) ^ 3 * yr := by rw [not_lt] at h ⊢; norm_num at h ⊢; linarith
    rw [luvL_lo h, luvY_lo h8]; ring

theorem luvL_luvY (L : ℝ) : luvL (luvY L) = L := by
  by_cases h : 8 < L
  · have hb : (0 : ℝ) ≤ (L + 16) / 116 := by positivity
    have h2 : (6 / 29 : ℝ) ^ 3 < ((L + 16) / 116) ^ 3 := pow_lt_pow_left₀ (by linarith) (by norm_num) (by norm_num)
    rw [luvY_hi h, luvL_hi h2, cube_cbrt hb]; ring
  · have h2 : ¬ (6 / 29 : ℝ) ^ 3 < L * (3 / 29 : ℝ) ^ 3 := by rw [not_lt] at h ⊢; norm_num at h ⊢; linarith
    rw [luvY_lo h, luvL_lo h2]; ring

theorem luvL_ge {yr : ℝ} (h : 1.2e-8 ≤ yr) : (1e-5 : ℝ) ≤ luvL yr := by
  by_cases h1 : (6 / 29 : ℝ) ^ 3 < yr
  · have := luvL_gt_eight h1; norm_num at this ⊢; linarith
  · rw [luvL_lo h1]; norm_num at h ⊢; linarith

theorem luvY_pos {L : ℝ} (hL : 0 < L) : 0 < luvY L := by
  by_cases h : 8 < L
  · rw [luvY_hi h]; positivity
  · rw [luvY_lo h]; positivity

/-- **Xyz → Luv → Xyz** is the identity for `Y/Yn ≥ 1.2e-8` (so that `L* ≥ 1e-5`, above the code's cutoff), `X + 15Y + 3Z ≠ 0` -/
theorem luv_xyz_roundtrip (w c : V3 ℝ) (hw : w.c1 ≠ 0) (hY : 1.2e-8 ≤ c.c1 / w.c1) (hd : c.c0 + 15 * c.c1 + 3 * c.c2 ≠ 0) :
    luvToXyz w (xyzToLuv w c) = c := by
  obtain ⟨X, Y, Z⟩ := c
  simp only at hY hd
  have hLge := luvL_ge hY
  have hL0 : luvL (Y / w.c1) ≠ 0 := by intro h; rw [h] at hLge; norm_num at hLge
  have hYne : Y ≠ 0 := by rintro rfl; norm_num at hY
  rw [xyzToLuv_of_ne w ⟨X, Y, Z⟩ hd, luvToXyz_of_ge _ _ (not_lt.mpr hLge)]
  simp only [luvY_luvL]
  have ey : Y / w.c1 * w.c1 = Y := by field_simp
  rw [ey]
  generalize luvL (Y / w.c1) = L at hL0
  generalize 4 * w.c0 * (1 / (w.c0 + 15 * w.c1 + 3 * w.c2)) = un
  generalize 9 * w.c1 * (1 / (w.c0 + 15 * w.c1 + 3 * w.c2)) = vn
  have eu : 13 * L * (4 * X * (1 / (X + 15 * Y + 3 * Z)) - un) / (13 * L) + un = 4 * X / (X + 15 * Y + 3 * Z) := by field_simp; ring
  have ev : 13 * L * (9 * Y * (1 / (X + 15 * Y + 3 * Z)) - vn) / (13 * L) + vn = 9 * Y / (X + 15 * Y + 3 * Z) := by field_simp; ring
  rw [eu, ev]
  obtain ⟨d, hdd⟩ : ∃ d, d = X + 15 * Y + 3 * Z := ⟨_, rfl⟩
  have hZ : Z = (d - X - 15 * Y) / 3 := by rw [hdd]; ring
  rw [← hdd] at hd ⊢
  congr 1
  · norm_num; field_simp
  · rw [hZ]; norm_num; field_simp; ring

/-- **Luv → Xyz → Luv** is the identity for `L ≥ 1e-5` wherever `v′ = v/(13L) + v′ₙ ≠ 0` (i.e. the XYZ is finite) -/
theorem xyz_luv_roundtrip (w c : V3 ℝ) (hw : w.c1 ≠ 0) (hL : 1e-5 ≤ c.c0)
    (hv : c.c2 / (13 * c.c0) + 9 * w.c1 * (1 / (w.c0 + 15 * w.c1 + 3 * w.c2)) ≠ 0) :
    xyzToLuv w (luvToXyz w c) = c := by
  obtain ⟨L, u, v⟩ := c
  simp only at hL hv
  have hLpos : 0 < L := lt_of_lt_of_le (by norm_num) hL
  have hYpos := luvY_pos hLpos
  rw [luvToXyz_of_ge _ _ (not_lt.mpr hL)]
  simp only
  generalize hun : 4 * w.c0 * (1 / (w.c0 + 15 * w.c1 + 3 * w.c2)) = un
  generalize hvn : 9 * w.c1 * (1 / (w.c0 + 15 * w.c1 + 3 * w.c2)) = vn at hv
  set up := u / (13 * L) + un with hup
  set vp := v / (13 * L) + vn with hvp
  set Y := luvY L * w.c1 with hYd
  have hYne : Y ≠ 0 := mul_ne_zero hYpos.ne' hw
  have hd : Y * 2.25 * up / vp + 15 * Y + 3 * (Y * (3 - 0.75 * up - 5 * vp) / vp) = 9 * Y / vp := by field_simp; ring
  have hdne : Y * 2.25 * up / vp + 15 * Y + 3 * (Y * (3 - 0.75 * up - 5 * vp) / vp) ≠ 0 := by
    rw [hd]; exact div_ne_zero (mul_ne_zero (by norm_num) hYne) hv
  rw [xyzToLuv_of_ne w _ hdne]
  simp only [hd, hun, hvn]
  have eY : Y / w.c1 = luvY L := by rw [hYd]; field_simp
  rw [eY, luvL_luvY]
  congr 1
  · rw [hup]; field_simp; ring
  · rw [hvp]; field_simp; ring

/-- non-vacuity: D65 white itself -/
example : (1 : ℝ) ≠ 0 ∧ (1.2e-8 : ℝ) ≤ 1 / 1 ∧ (0.95047 : ℝ) + 15 * 1 + 3 * 1.08883 ≠ 0 := by norm_num


/-! ### Lchuv ↔ Hsluv -/

/-- **Lchuv → Hsluv → Lchuv** is the identity wherever the divisor `maxChroma` is positive -/
theorem hsluv_lchuv_roundtrip (L C H : ℝ) (hmc : 0 < maxChroma L H) : hsluvToLchuv (lchuvToHsluv ⟨L, C, H⟩) = ⟨L, C, H⟩ := by
  simp only [hsluvToLchuv, lchuvToHsluv]
  congr 1
  have := hmc.ne'
  norm_num; field_simp

/-- **Hsluv → Lchuv → Hsluv** is the identity wherever `maxChroma` is positive -/
theorem lchuv_hsluv_roundtrip (H S L : ℝ) (hmc : 0 < maxChroma L H) : lchuvToHsluv (hsluvToLchuv ⟨H, S, L⟩) = ⟨H, S, L⟩ := by
  simp only [hsluvToLchuv, lchuvToHsluv]
  congr 1
  have := hmc.ne'
  norm_num; field_simp

/-! `maxChroma` is the minimum of the admissible ray lengths (C15: `S ≤ 100 ⇒ C ≤` every boundary distance) -/

theorem chromaStep_le_acc (θ acc : ℝ) (b : BoundaryLine ℝ) : chromaStep θ acc b ≤ acc := by
  unfold chromaStep
  simp only
  split_ifs with h1 h2
  · exact h2.2.le
  · exact le_refl _
  · exact le_refl _

theorem foldl_chromaStep_le_acc (θ : ℝ) (bs : List (BoundaryLine ℝ)) (acc : ℝ) : bs.foldl (chromaStep θ) acc ≤ acc := by
  induction bs generalizing acc with
  | nil => exact le_refl _
  | cons b bs ih => exact le_trans (ih _) (chromaStep_le_acc θ acc b)

/-- the ray length the code computes for a line -/
noncomputable def rayLen (θ : ℝ) (b : BoundaryLine ℝ) : ℝ := b.intercept / (Real.sin θ - b.slope * Real.cos θ)

theorem chromaStep_le_ray (θ acc : ℝ) (b : BoundaryLine ℝ) (hden : 1e-6 < |Real.sin θ - b.slope * Real.cos θ|) (ht : 0 ≤ rayLen θ b) :
    chromaStep θ acc b ≤ rayLen θ b := by
  unfold chromaStep rayLen at *
  simp only [RealScalar.sin_eq, RealScalar.cos_eq, RealScalar.abs_eq]
  rw [if_pos (by norm_num at hden ⊢; exact hden)]
  split_ifs with h2
  · exact le_refl _
  · by_contra hc
    exact h2 ⟨by norm_num; exact ht, not_le.mp hc⟩

theorem foldl_chromaStep_le_ray (θ : ℝ) (bs : List (BoundaryLine ℝ)) (acc : ℝ) (b : BoundaryLine ℝ) (hb : b ∈ bs)
    (hden : 1e-6 < |Real.sin θ - b.slope * Real.cos θ|) (ht : 0 ≤ rayLen θ b) : bs.foldl (chromaStep θ) acc ≤ rayLen θ b := by
  induction bs generalizing acc with
  | nil => cases hb
  | cons b' bs ih =>
    simp only [List.foldl]
    rcases List.mem_cons.mp hb with rfl | hmem
    · exact le_trans (foldl_chromaStep_le_acc θ bs _) (chromaStep_le_ray θ acc b hden ht)
    · exact ih _ hmem

/-- **`max_chroma_at_hue` is a lower bound of every admissible intersection length**: for each of the six boundary lines whose
    ray length is defined (`|denom| > 1e-6`) and non-negative, `maxChroma ≤` that length.  Hence `S ≤ 100` keeps the chroma
    `C = S·maxChroma/100` inside every boundary the hue ray meets. -/
theorem maxChroma_le_ray (l h : ℝ) (b : BoundaryLine ℝ) (hb : b ∈ luvBounds l)
    (hden : 1e-6 < |Real.sin (h * (Real.pi / 180)) - b.slope * Real.cos (h * (Real.pi / 180))|) (ht : 0 ≤ rayLen (h * (Real.pi / 180)) b) :
    maxChroma l h ≤ rayLen (h * (Real.pi / 180)) b := by
  unfold maxChroma maxChromaAtHue
  simp only [RealScalar.up_eq, RealScalar.down_eq, RealScalar.degToRad_eq]
  exact foldl_chromaStep_le_ray _ _ _ b hb hden ht

/-- chroma from a saturation `0 ≤ S ≤ 100` stays below every admissible boundary distance -/
theorem hsluvToLchuv_inside (H S L : ℝ) (hS : S ≤ 100) (b : BoundaryLine ℝ) (hb : b ∈ luvBounds L)
    (hden : 1e-6 < |Real.sin (H * (Real.pi / 180)) - b.slope * Real.cos (H * (Real.pi / 180))|) (ht : 0 ≤ rayLen (H * (Real.pi / 180)) b)
    (hmc : 0 ≤ maxChroma L H) : (hsluvToLchuv ⟨H, S, L⟩).c1 ≤ rayLen (H * (Real.pi / 180)) b := by
  have h1 := maxChroma_le_ray L H b hb hden ht
  simp only [hsluvToLchuv]
  have : S * maxChroma L H * (0.01 : ℝ) ≤ maxChroma L H := by
    have : S * maxChroma L H ≤ 100 * maxChroma L H := mul_le_mul_of_nonneg_right hS hmc
    norm_num; linarith
  linarith


theorem theta90 : (90 : ℝ) * (Real.pi / 180) = Real.pi / 2 := by ring

/-- **D5 witness** (the divisor of `Lchuv → Hsluv`): at `L = 0` every boundary line degenerates to slope = intercept = 0, so
    `maxChroma = 0` — `chroma / maxChroma` divides by zero (NaN / inf in floats; the reference returns `S = 0` by a guard) -/
theorem maxChroma_zero_at_L0 : maxChroma (0 : ℝ) 90 = 0 := by
  unfold maxChroma maxChromaAtHue luvBounds chromaStep boundaryLine f64Max
  simp only [RealScalar.up_eq, RealScalar.down_eq, RealScalar.degToRad_eq, theta90, RealScalar.sin_eq, RealScalar.cos_eq, Real.sin_pi_div_two,
    Real.cos_pi_div_two, RealScalar.abs_eq, cube_eq, Gen.Mat.hsluvM, Gen.Mat.hsluvEpsilon, Gen.Mat.hsluvKappa, M3.ofK, RealScalar.const_eq,
    RealScalar.eval_neg, RealScalar.eval_ofSci, List.foldl]
  norm_num

/-- non-vacuity of the HSLuv round trips: mid lightness, hue 90° -/
theorem maxChroma_pos_example : 0 < maxChroma (50 : ℝ) 90 := by
  unfold maxChroma maxChromaAtHue luvBounds chromaStep boundaryLine f64Max
  simp only [RealScalar.up_eq, RealScalar.down_eq, RealScalar.degToRad_eq, theta90, RealScalar.sin_eq, RealScalar.cos_eq, Real.sin_pi_div_two,
    Real.cos_pi_div_two, RealScalar.abs_eq, cube_eq, Gen.Mat.hsluvM, Gen.Mat.hsluvEpsilon, Gen.Mat.hsluvKappa, M3.ofK, RealScalar.const_eq,
    RealScalar.eval_neg, RealScalar.eval_ofSci, List.foldl]
  norm_num


/-! ### Xyz ↔ Lms: approximate inverses (7-digit tables) -/

/-- **Xyz → Lms → Xyz (Bradford)**: the 7-digit inverse table is not the exact inverse; the round trip is within `3e-7·r` of the
    identity on `‖xyz‖∞ ≤ r` (this *is* what the code computes in exact arithmetic) -/
theorem lms_xyz_roundtrip_bradford (x y z r : ℝ) (hx : |x| ≤ r) (hy : |y| ≤ r) (hz : |z| ≤ r) :
    let c := lmsToXyz (Gen.Mat.coneMatrices.getD 0 default).2.2 (xyzToLms (Gen.Mat.coneMatrices.getD 0 default).2.1 ⟨x, y, z⟩)
    |c.c0 - x| ≤ 3e-7 * r ∧ |c.c1 - y| ≤ 3e-7 * r ∧ |c.c2 - z| ≤ 3e-7 * r := by
  simp only [xyzToLms, lmsToXyz, Gen.Mat.coneMatrices, List.getD_cons_zero, M3.ofK, M3.mulVec, RealScalar.const_eq,
    RealScalar.eval_neg, RealScalar.eval_ofSci]
  rw [abs_le] at hx hy hz
  refine ⟨?_, ?_, ?_⟩ <;> (rw [abs_le]; constructor <;> (norm_num; linarith))

theorem xyz_lms_roundtrip_bradford (x y z r : ℝ) (hx : |x| ≤ r) (hy : |y| ≤ r) (hz : |z| ≤ r) :
    let c := xyzToLms (Gen.Mat.coneMatrices.getD 0 default).2.1 (lmsToXyz (Gen.Mat.coneMatrices.getD 0 default).2.2 ⟨x, y, z⟩)
    |c.c0 - x| ≤ 3e-7 * r ∧ |c.c1 - y| ≤ 3e-7 * r ∧ |c.c2 - z| ≤ 3e-7 * r := by
  simp only [xyzToLms, lmsToXyz, Gen.Mat.coneMatrices, List.getD_cons_zero, M3.ofK, M3.mulVec, RealScalar.const_eq,
    RealScalar.eval_neg, RealScalar.eval_ofSci]
  rw [abs_le] at hx hy hz
  refine ⟨?_, ?_, ?_⟩ <;> (rw [abs_le]; constructor <;> (norm_num; linarith))

theorem lms_xyz_roundtrip_vonKries (x y z r : ℝ) (hx : |x| ≤ r) (hy : |y| ≤ r) (hz : |z| ≤ r) :
    let c := lmsToXyz (Gen.Mat.coneMatrices.getD 2 default).2.2 (xyzToLms (Gen.Mat.coneMatrices.getD 2 default).2.1 ⟨x, y, z⟩)
    |c.c0 - x| ≤ 3e-7 * r ∧ |c.c1 - y| ≤ 3e-7 * r ∧ |c.c2 - z| ≤ 3e-7 * r := by
  simp only [xyzToLms, lmsToXyz, Gen.Mat.coneMatrices, List.getD_cons_succ, List.getD_cons_zero, M3.ofK, M3.mulVec, RealScalar.const_eq,
    RealScalar.eval_neg, RealScalar.eval_ofSci]
  rw [abs_le] at hx hy hz
  refine ⟨?_, ?_, ?_⟩ <;> (rw [abs_le]; constructor <;> (norm_num; linarith))

theorem xyz_lms_roundtrip_vonKries (x y z r : ℝ) (hx : |x| ≤ r) (hy : |y| ≤ r) (hz : |z| ≤ r) :
    let c := xyzToLms (Gen.Mat.coneMatrices.getD 2 default).2.1 (lmsToXyz (Gen.Mat.coneMatrices.getD 2 default).2.2 ⟨x, y, z⟩)
    |c.c0 - x| ≤ 3e-7 * r ∧ |c.c1 - y| ≤ 3e-7 * r ∧ |c.c2 - z| ≤ 3e-7 * r := by
  simp only [xyzToLms, lmsToXyz, Gen.Mat.coneMatrices, List.getD_cons_succ, List.getD_cons_zero, M3.ofK, M3.mulVec, RealScalar.const_eq,
    RealScalar.eval_neg, RealScalar.eval_ofSci]
  rw [abs_le] at hx hy hz
  refine ⟨?_, ?_, ?_⟩ <;> (rw [abs_le]; constructor <;> (norm_num; linarith))

example : |(0.5 : ℝ)| ≤ 1 := by rw [abs_le]; constructor <;> norm_num


end C01Cie
