/-
  C12 (named colours) — "every named color constant is found under its lower-case name and nothing else is."

  Theorems about `PaletteModel/Named.lean` over the tables `tools/extract.py` regenerates from
  `palette/src/named/codegen.rs` (the `pub const`s and the `phf` entries) and `codegen/res/svg_colors.txt`
  (`Gen/Named.lean`); finite facts by kernel evaluation, the lookup statements for *every* string.
  `phf::Map::get` is modelled as the SipHash-1-3 probe it is (`PaletteModel/Phf.lean`); that the probe agrees with
  an association-list lookup on every string is proved here (`fromStrNat_eq_lookup`).
-/
import PaletteModel.Named

namespace C12
open Named Gen.Named

/-- `(k, v)` is a pair of the two parallel lists -/
def isPair (k v : List Nat) : List (List Nat) → List (List Nat) → Bool
  | key :: ks, val :: vs => (key == k && val == v) || isPair k v ks vs
  | _, _ => false

/-- every pair of the first table is a pair of the second -/
def subTable : List (List Nat) → List (List Nat) → List (List Nat) → List (List Nat) → Bool
  | k :: ks, v :: vs, ks', vs' => isPair k v ks' vs' && subTable ks vs ks' vs'
  | _, _, _, _ => true

def lookupKeys (k : List Nat) : Option (List Nat) := lookup2 k phfKeys phfColors

/-! ## the generated table is the published list -/

/-- the four parallel pairs of lists have the shapes the model assumes -/
theorem table_shapes : constIdents.length = constColors.length ∧ phfKeys.length = phfIdents.length ∧
    svgNames.length = svgColors.length ∧ phfKeys.length = svgNames.length ∧ constIdents.length = phfKeys.length := by
  decide +kernel

/-- every entry of the phf map (identifier resolved to its constant) is a line of `svg_colors.txt` and vice versa -/
theorem phf_entries_eq_svg_lines :
    subTable phfKeys phfColors svgNames svgColors = true ∧ subTable svgNames svgColors phfKeys phfColors = true := by
  decide +kernel

/-- keys are distinct (so "first match" is "the match"), non-empty and lower-case ASCII letters -/
theorem keys_distinct : phfKeys.Nodup ∧ svgNames.Nodup ∧ constIdents.Nodup := by decide +kernel

theorem keys_lower_case : phfKeys.all (fun k => !k.isEmpty && k.all (fun c => 97 ≤ c && c ≤ 122)) = true := by
  decide +kernel

/-- every entry `("name", IDENT)` refers to the constant whose identifier is the upper-case name: `lower IDENT = name`,
    the identifier consists of upper-case letters, and it resolves to a colour `[r, g, b]` of bytes -/
theorem entries_refer_to_own_constant :
    (List.zipWith (fun k i => decide (lower i = k) && i.all (fun c => 65 ≤ c && c ≤ 90)) phfKeys phfIdents).all id = true ∧
    phfColors.all (fun c => c.length == 3 && c.all (· < 256)) = true := by
  decide +kernel

/-! ## lookup, for every string -/

theorem lookup2_sound (k : List Nat) : ∀ (ks vs : List (List Nat)) (v : List Nat),
    lookup2 k ks vs = some v → isPair k v ks vs = true := by
  intro ks; induction ks with
  | nil => intro vs v h; simp [lookup2] at h
  | cons key ks ih =>
    intro vs v h
    cases vs with
    | nil => simp [lookup2] at h
    | cons val vs =>
      simp only [lookup2] at h
      by_cases hk : key = k
      · simp only [hk, if_true, Option.some.injEq] at h
        simp [isPair, hk, h]
      · simp only [hk, if_false] at h
        simp [isPair, ih vs v h]

theorem isPair_key_mem (k v : List Nat) : ∀ (ks vs : List (List Nat)), isPair k v ks vs = true → k ∈ ks := by
  intro ks; induction ks with
  | nil => intro vs h; simp [isPair] at h
  | cons key ks ih =>
    intro vs h
    cases vs with
    | nil => simp [isPair] at h
    | cons val vs =>
      simp only [isPair, Bool.or_eq_true, Bool.and_eq_true, beq_iff_eq] at h
      rcases h with ⟨h1, _⟩ | h
      · simp [h1]
      · simp [ih vs h]

/-! ## the perfect hash is an association list -/

theorem getElem?_isPair (k v : List Nat) : ∀ (ks vs : List (List Nat)) (i : Nat),
    ks[i]? = some k → vs[i]? = some v → isPair k v ks vs = true := by
  intro ks; induction ks with
  | nil => intro vs i h; simp at h
  | cons key ks ih =>
    intro vs i hk hv
    cases vs with
    | nil => simp at hv
    | cons val vs =>
      cases i with
      | zero => simp at hk hv; simp [isPair, hk, hv]
      | succ i => simp at hk hv; simp [isPair, ih vs i hk hv]

/-- whatever the probe returns is an entry of the map with exactly the probed key (it compares the key) -/
theorem probe_sound (ks vs : List (List Nat)) (i : Nat) (m v : List Nat) (h : Phf.probe ks vs i m = some v) :
    isPair m v ks vs = true := by
  unfold Phf.probe at h
  split at h
  · rename_i k v' hk hv
    split at h
    · rename_i hkm
      cases h; subst hkm
      exact getElem?_isPair _ _ _ _ _ hk hv
    · cases h
  · cases h

theorem phf_get_sound (key : Nat) (d1 d2 : List Nat) (ks vs : List (List Nat)) (m v : List Nat)
    (h : Phf.get key d1 d2 ks vs m = some v) : isPair m v ks vs = true := by
  unfold Phf.get at h
  split at h
  · cases h
  · exact probe_sound _ _ _ _ _ h

theorem fromStrNat_sound (k c : List Nat) (h : fromStrNat k = some c) : isPair k c phfKeys phfColors = true :=
  phf_get_sound phfKey phfDisps1 phfDisps2 phfKeys phfColors k c h

theorem isPair_lookup2 (k v : List Nat) : ∀ (ks vs : List (List Nat)), ks.Nodup → isPair k v ks vs = true →
    lookup2 k ks vs = some v := by
  intro ks; induction ks with
  | nil => intro vs _ h; simp [isPair] at h
  | cons key ks ih =>
    intro vs hnd h
    cases vs with
    | nil => simp [isPair] at h
    | cons val vs =>
      rw [List.nodup_cons] at hnd
      simp only [isPair, Bool.or_eq_true, Bool.and_eq_true, beq_iff_eq] at h
      by_cases hk : key = k
      · rcases h with ⟨_, hv⟩ | h
        · simp [lookup2, hk, hv]
        · exact absurd (hk ▸ isPair_key_mem _ _ _ _ h) hnd.1
      · rcases h with ⟨h1, _⟩ | h
        · exact absurd h1 hk
        · simp [lookup2, hk, ih vs hnd.2 h]

theorem all_pairs (f : List Nat → Option (List Nat)) (k v : List Nat) : ∀ (ks vs : List (List Nat)),
    (List.zipWith (fun k c => decide (f k = some c)) ks vs).all id = true → isPair k v ks vs = true → f k = some v := by
  intro ks; induction ks with
  | nil => intro vs _ h; simp [isPair] at h
  | cons key ks ih =>
    intro vs hall h
    cases vs with
    | nil => simp [isPair] at h
    | cons val vs =>
      simp only [List.zipWith_cons_cons, List.all_cons, id, Bool.and_eq_true, decide_eq_true_eq] at hall
      simp only [isPair, Bool.or_eq_true, Bool.and_eq_true, beq_iff_eq] at h
      rcases h with ⟨h1, h2⟩ | h
      · rw [← h1, ← h2]; exact hall.1
      · exact ih vs hall.2 h

/-- the generated `key`/`disps`/`entries` are a perfect hash of the keys: the SipHash-1-3 probe finds every entry
    (148 hashes evaluated by the kernel) -/
theorem phf_finds_every_entry :
    (List.zipWith (fun k c => decide (fromStrNat k = some c)) phfKeys phfColors).all id = true := by
  decide +kernel

/-- **`COLORS.get` = association-list lookup, for every string** -/
theorem fromStrNat_eq_lookup (k : List Nat) : fromStrNat k = lookupKeys k := by
  cases h : lookupKeys k with
  | some c => exact all_pairs fromStrNat k c _ _ phf_finds_every_entry (lookup2_sound _ _ _ _ h)
  | none =>
    cases h2 : fromStrNat k with
    | none => rfl
    | some c =>
      have := isPair_lookup2 k c _ _ keys_distinct.1 (fromStrNat_sound _ _ h2)
      rw [lookupKeys, this] at h; cases h

theorem fromStr_eq_lookup (s : List UInt8) : fromStr s = lookupKeys (s.map UInt8.toNat) := fromStrNat_eq_lookup _

/-- **every constant is found under its lower-case name**: for each `pub const IDENT = Srgb::new(r, g, b)` of
    `named/codegen.rs`, `from_str(lower(IDENT)) = Some((r, g, b))` -/
theorem every_constant_found :
    (List.zipWith (fun i c => decide (fromStrNat (lower i) = some c)) constIdents constColors).all id = true := by
  decide +kernel

/-- … and it is the colour the published list gives that name -/
theorem every_svg_name_found :
    (List.zipWith (fun n c => decide (fromStrNat n = some c)) svgNames svgColors).all id = true := by
  decide +kernel

/-- **nothing else is found**: whatever `from_str` returns for any byte string is a constant of the crate, under its
    lower-case name, with that constant's colour -/
theorem nothing_else_found (s : List UInt8) (c : List Nat) (h : fromStr s = some c) :
    ∃ ident, isPair ident c constIdents constColors = true ∧ lower ident = s.map UInt8.toNat := by
  have hp : isPair (s.map UInt8.toNat) c phfKeys phfColors = true := fromStrNat_sound _ _ h
  -- every entry of the resolved table is (lower IDENT, colour of IDENT) for a constant IDENT: decided on the table
  have hall : ∀ ks is_ cs, (List.zipWith (fun k i => decide (lower i = k)) ks is_).all id = true →
      cs = is_.map (fun i => (constColor i).getD []) → (is_.all fun i => (constColor i).isSome) = true →
      ks.length = is_.length →
      isPair (s.map UInt8.toNat) c ks cs = true →
      ∃ ident, isPair ident c constIdents constColors = true ∧ lower ident = s.map UInt8.toNat := by
    intro ks; induction ks with
    | nil => intro is_ cs _ _ _ _ h; cases cs <;> simp [isPair] at h
    | cons k ks ih =>
      intro is_ cs hz hcs hsome hlen hpair
      cases is_ with
      | nil => simp at hlen
      | cons i is_ =>
        subst hcs
        simp only [List.zipWith_cons_cons, List.all_cons, id, Bool.and_eq_true, decide_eq_true_eq] at hz
        simp only [List.all_cons, Bool.and_eq_true] at hsome
        simp only [List.map_cons, isPair, Bool.or_eq_true, Bool.and_eq_true, beq_iff_eq] at hpair
        rcases hpair with ⟨hk, hv⟩ | hrest
        · refine ⟨i, ?_, by rw [hz.1, hk]⟩
          obtain ⟨col, hcol⟩ := Option.isSome_iff_exists.mp hsome.1
          rw [hcol, Option.getD_some] at hv
          subst hv
          exact lookup2_sound _ _ _ _ hcol
        · exact ih is_ _ hz.2 rfl hsome.2 (by simpa using hlen) hrest
  refine hall phfKeys phfIdents phfColors ?_ rfl ?_ ?_ hp
  · have := entries_refer_to_own_constant.1
    revert this; decide +kernel
  · decide +kernel
  · exact table_shapes.2.1

/-- in particular a string that is not one of the keys is not found -/
theorem not_a_key_not_found (s : List UInt8) (h : s.map UInt8.toNat ∉ phfKeys) : fromStr s = none := by
  cases hs : fromStr s with
  | none => rfl
  | some c => exact absurd (isPair_key_mem _ _ _ _ (fromStrNat_sound _ _ hs)) h

/-- case matters: an upper-case or capitalised name is not a key (keys are lower-case), so it is not found -/
theorem upper_case_not_found (s : List UInt8) (h : ∃ b ∈ s, 65 ≤ b.toNat ∧ b.toNat ≤ 90) : fromStr s = none := by
  apply not_a_key_not_found
  intro hm
  have := List.all_eq_true.mp keys_lower_case _ hm
  simp only [Bool.and_eq_true, List.all_eq_true, decide_eq_true_eq] at this
  obtain ⟨b, hb, h1, h2⟩ := h
  have := this.2 b.toNat (List.mem_map.mpr ⟨b, hb, rfl⟩)
  omega

-- non-vacuity: "red" is found, "Red" and "re" are not
example : fromStr [114, 101, 100] = some [255, 0, 0] := by decide +kernel
example : fromStr [82, 101, 100] = none := by decide +kernel
example : fromStr [114, 101] = none := by decide +kernel
example : fromStr [] = none := by decide +kernel

end C12
