/-
  C06 — float → integer conversion for the 64- and 128-bit targets, **for every `Float` (binary64) bit pattern**
  (`f64 → u64`, `f64 → u128`; `convert_double_to_uint!`, both the magic branch below `2^52` and the `scaled as uN` branch from
  `2^52` on, `Stim.bigCast`).

  What the code computes (`w = 64, 128`):  `MAX as f64` is not `2^w − 1` but its binary64 rounding `2^w`.  So
      scaled = clamp (x · 2^w, 0, 2^w)          — the product is EXACT (scaling by a power of two), no rounding at all,
      result = min (rne scaled, 2^w − 1)         — nearest integer (ties to even) below `2^52`; from `2^52` on `scaled` is an
                                                   integer and the saturating cast maps `2^w` to `MAX`.
  Hence for every input: NaN, `+∞`, every `x ≥ 1` ↦ `MAX`; `−∞`, every `x ≤ 0` (also `−0`) ↦ `0`; monotone over every ordered
  pair of non-NaN floats; on `[0, 1]` the result is `min (rne (x·2^w)) MAX`, which differs from `x·MAX` by at most `½ + x`
  (`x·2^w − x·MAX = x`): this is the precise form of "nearest integer of `x × MAX` to within one rounding of the product
  (53 significant bits)" — the one rounding is that of `MAX` itself to `2^w`, a relative perturbation `2^-w` of the product,
  far below `2^-53`.
-/
import PaletteProofs.Lemmas.StimBig
import PaletteProofs.C06_StimulusAll64

namespace C06
open Stim Float.Model Float.Model.UnpackedFloat Ieee Ieee.F64

theorem fin_maxF64_64 : IsFin (maxF64 64) := rfl
theorem fin_maxF64_128 : IsFin (maxF64 128) := rfl
theorem v_maxF64_64 : v (maxF64 64) = 2^64 := by
  unfold v; rw [show U (maxF64 64) = .finite .positive 0x10000000000000 12 (by decide) from rfl]; norm_num [val, sgn]
theorem v_maxF64_128 : v (maxF64 128) = 2^128 := by
  unfold v; rw [show U (maxF64 128) = .finite .positive 0x10000000000000 76 (by decide) from rfl]; norm_num [val, sgn]

/-- scaling a finite float by `2^w` is exact in binary64 (as a value; overflow is handled where it is used) -/
theorem R64_scale_up {x : Float} (hx : IsFin x) (w : ℕ) : R64 (v x * 2^w) = v x * 2^w := by
  have hc := canon_U x
  unfold IsFin v at *
  cases hu : U x <;> rw [hu] at hx hc <;> simp only [UnpackedFloat.isFinite, Bool.false_eq_true] at hx
  · simp [val, Rs_zero]
  · rename_i s m e hm
    have cm : CanonME spec m e := hc
    have key : val (.finite s m e hm) * 2^w = (((sgn s).num * m : ℤ) : ℚ) * 2^(e + w) := by
      simp only [val]
      rw [zpow_add₀ (by norm_num), zpow_natCast]
      cases s <;> simp [sgn] <;> ring
    rw [key]
    apply R_fix (p := spec.mantissaBits) (emin := spec.minExponent)
    · have : |(sgn s).num * (m : ℤ)| = m := by cases s <;> simp [sgn]
      rw [this]; exact_mod_cast cm.lt
    · have := cm.emin_le; omega

/-- the result as a function of the input: `MAX` for NaN and `+∞`, `0` for `−∞`, else `min (rne (clamp (x·2^w) 0 2^w)) MAX` -/
def specBig (w : ℕ) (x : Float) : ℕ :=
  if x.isNaN then 2^w - 1
  else if x.isInf then (if zero64 < x then 2^w - 1 else 0)
  else bigRes w (clampQ (2^w) (v x * 2^w))

theorem bigRes_top (w : ℕ) : bigRes w ((2 : ℚ)^w) = 2^w - 1 := by
  unfold bigRes
  rw [show ((2 : ℚ)^w) = (((2^w : ℕ) : ℕ) : ℚ) by push_cast; rfl, rne_natCast, Int.toNat_natCast]
  exact Nat.min_eq_right (Nat.sub_le _ _)

theorem bigRes_zero (w : ℕ) : bigRes w 0 = 0 := by
  unfold bigRes
  rw [show (0 : ℚ) = ((0 : ℕ) : ℚ) by simp, rne_natCast]; simp

theorem bigRes_le (w : ℕ) (c : ℚ) : bigRes w c ≤ 2^w - 1 := min_le_right _ _

section generic
variable {w : ℕ} {mx : Float} (hm : IsFin mx) (hN : v mx = 2^w) (hw : 53 ≤ w) (hw' : w < 1024)
  (hres : ∀ x, f64ToUint w x = match f64Magic mx x with
      | .inl u => u.toNat % 2^w
      | .inr s => bigCast w s)
include hm hN hw hw' hres

theorem big_fin {x : Float} (hx : IsFin x) : f64ToUint w x = bigRes w (clampQ (2^w) (v x * 2^w)) := by
  have hmpos : 0 < v mx := by rw [hN]; positivity
  have hΩ : v mx < Ω spec := by
    rw [hN, Ω_eq]; exact pow_lt_pow_right₀ (by norm_num) hw'
  have hs := scaled64_fin_big hm hmpos hΩ hx
  rw [hN, R64_scale_up hx] at hs
  exact big_of_scaled hw hs (clampQ_nonneg _ _) (hres x)

omit hw' in
theorem big_nan {x : Float} (hx : U x = .notANumber) : f64ToUint w x = 2^w - 1 := by
  have hmpos : 0 < v mx := by rw [hN]; positivity
  have hs := scaled64_nan hm hmpos hx
  rw [hN] at hs
  rw [big_of_scaled hw hs (by positivity) (hres x), bigRes_top]

omit hw' in
theorem big_posInf {x : Float} (hx : U x = .infinity .positive) : f64ToUint w x = 2^w - 1 := by
  have hmpos : 0 < v mx := by rw [hN]; positivity
  have hs := scaled64_posInf hm hmpos hx
  rw [hN] at hs
  rw [big_of_scaled hw hs (by positivity) (hres x), bigRes_top]

omit hw' in
theorem big_negInf {x : Float} (hx : U x = .infinity .negative) : f64ToUint w x = 0 := by
  have hmpos : 0 < v mx := by rw [hN]; positivity
  have hs := scaled64_negInf hm hmpos hx
  rw [big_of_scaled hw hs le_rfl (hres x), bigRes_zero]

theorem big_closed_form (x : Float) : f64ToUint w x = specBig w x := by
  unfold specBig
  cases hnan : x.isNaN
  · simp only [Bool.false_eq_true, if_false]
    rcases cases_of_not_nan hnan with hx | hx | hx
    · rw [isInf_of_U hx, if_pos rfl, if_neg (not_lt_negInf fin_zero64 hx)]
      exact big_negInf hm hN hw hres hx
    · rw [hx.not_inf]; simp only [Bool.false_eq_true, if_false]
      exact big_fin hm hN hw hw' hres hx
    · rw [isInf_of_U hx, if_pos rfl, if_pos (lt_posInf fin_zero64 hx)]
      exact big_posInf hm hN hw hres hx
  · simp only [if_true]
    exact big_nan hm hN hw hres (U_nan_of_isNaN hnan)

theorem big_le (x : Float) : f64ToUint w x ≤ 2^w - 1 := by
  rw [big_closed_form hm hN hw hw' hres]; unfold specBig
  split_ifs <;> first | exact le_rfl | exact Nat.zero_le _ | exact bigRes_le _ _

theorem big_mono {x y : Float} (hx : x.isNaN = false) (hy : y.isNaN = false) (h : x ≤ y) :
    f64ToUint w x ≤ f64ToUint w y := by
  have h2w : (0 : ℚ) ≤ 2^w := by positivity
  rcases cases_of_not_nan hx with hx | hx | hx
  · rw [big_negInf hm hN hw hres hx]; exact Nat.zero_le _
  · rcases cases_of_not_nan hy with hy | hy | hy
    · exact absurd h (not_le_negInf hx hy)
    · rw [big_fin hm hN hw hw' hres hx, big_fin hm hN hw hw' hres hy]
      apply bigRes_mono
      apply clampQ_mono
      exact mul_le_mul_of_nonneg_right ((le_iff hx hy).mp h) h2w
    · rw [big_posInf hm hN hw hres hy]; exact big_le hm hN hw hw' hres x
  · rcases cases_of_not_nan hy with hy | hy | hy
    · exact absurd h (not_posInf_le_negInf hx hy)
    · exact absurd h (not_posInf_le hy hx)
    · rw [big_posInf hm hN hw hres hx, big_posInf hm hN hw hres hy]

theorem big_sat_hi (x : Float) (h : x.isNaN = true ∨ one64 ≤ x) : f64ToUint w x = 2^w - 1 := by
  have h2w : (0 : ℚ) ≤ 2^w := by positivity
  rcases h with h | h
  · exact big_nan hm hN hw hres (U_nan_of_isNaN h)
  · rcases cases_of_not_nan (not_nan_of_le h).2 with hx | hx | hx
    · exact absurd h (not_le_negInf fin_one64 hx)
    · rw [big_fin hm hN hw hw' hres hx]
      have h1 : 1 ≤ v x := by rw [← v_one64]; exact (le_iff fin_one64 hx).mp h
      rw [clampQ_of_ge h2w (by nlinarith), bigRes_top]
    · exact big_posInf hm hN hw hres hx

theorem big_sat_lo (x : Float) (h : x ≤ zero64) : f64ToUint w x = 0 := by
  have h2w : (0 : ℚ) ≤ 2^w := by positivity
  rcases cases_of_not_nan (not_nan_of_le h).1 with hx | hx | hx
  · exact big_negInf hm hN hw hres hx
  · rw [big_fin hm hN hw hw' hres hx]
    have h1 : v x ≤ 0 := by rw [← v_zero64]; exact (le_iff hx fin_zero64).mp h
    rw [clampQ_of_le h2w (by nlinarith), bigRes_zero]
  · exact absurd h (not_posInf_le fin_zero64 hx)

/-- on `[0, 1]`: `min (rne (x·2^w)) MAX`, within `½ + x` of `x·MAX` -/
theorem big_nearest (x : Float) (h0 : zero64 ≤ x) (h1 : x ≤ one64) :
    f64ToUint w x = min (rne (v x * 2^w)).toNat (2^w - 1) ∧
    |(f64ToUint w x : ℚ) - v x * (2^w - 1)| ≤ 1 / 2 + v x := by
  have h2w : (0 : ℚ) < 2^w := by positivity
  have hx : IsFin x := by
    rcases cases_of_not_nan (not_nan_of_le h0).2 with hx | hx | hx
    · exact absurd h0 (not_le_negInf fin_zero64 hx)
    · exact hx
    · exact absurd h1 (not_posInf_le fin_one64 hx)
  have a0 : 0 ≤ v x := by rw [← v_zero64]; exact (le_iff fin_zero64 hx).mp h0
  have a1 : v x ≤ 1 := by rw [← v_one64]; exact (le_iff hx fin_one64).mp h1
  have z0 : 0 ≤ v x * 2^w := mul_nonneg a0 h2w.le
  have z1 : v x * 2^w ≤ 2^w := by nlinarith
  have hres' : f64ToUint w x = min (rne (v x * 2^w)).toNat (2^w - 1) := by
    rw [big_fin hm hN hw hw' hres hx, clampQ_of_mem z0 z1]; rfl
  refine ⟨hres', ?_⟩
  rw [hres']
  set z := v x * 2^w with hz
  have hr0 : 0 ≤ rne z := rne_nonneg z0
  have hrle : rne z ≤ 2^w := by
    have := rne_mono z1
    rwa [show ((2 : ℚ)^w) = (((2^w : ℤ)) : ℚ) by push_cast; rfl, rne_intCast] at this
  have herr := abs_le.mp (abs_rne_sub_le z)
  have hp1 : (1 : ℤ) ≤ 2^w := by exact_mod_cast Nat.one_le_two_pow
  have hsub : ((2^w - 1 : ℕ) : ℚ) = 2^w - 1 := by
    rw [Nat.cast_sub Nat.one_le_two_pow]; push_cast; rfl
  have hvx : v x * (2^w - 1) = z - v x := by rw [hz]; ring
  rw [hvx, abs_le]
  rcases hrle.lt_or_eq with hlt | heq
  · have hmin : min (rne z).toNat (2^w - 1) = (rne z).toNat := by
      apply Nat.min_eq_left
      have : (rne z).toNat < 2^w := by
        have : ((rne z).toNat : ℤ) < ((2^w : ℕ) : ℤ) := by push_cast; omega
        exact_mod_cast this
      omega
    have hcast : (((rne z).toNat : ℕ) : ℚ) = (rne z : ℚ) := by
      have h : (((rne z).toNat : ℕ) : ℤ) = rne z := by omega
      exact_mod_cast h
    rw [hmin, hcast]
    constructor <;> linarith [herr.1, herr.2]
  · have hmin : min (rne z).toNat (2^w - 1) = 2^w - 1 := by
      apply Nat.min_eq_right
      have : ((2^w : ℕ) : ℤ) = rne z := by rw [heq]; push_cast; rfl
      have : (rne z).toNat = 2^w := by omega
      omega
    rw [hmin, hsub]
    have hzr : (rne z : ℚ) = 2^w := by rw [heq]; push_cast; rfl
    rw [hzr] at herr
    have hone : (1 : ℚ) ≤ 2^w := by exact_mod_cast hp1
    have hhalf : 1 / 2 ≤ v x := by
      have : (1 / 2 : ℚ) * 2^w ≤ v x * 2^w := by rw [← hz]; linarith [herr.2]
      exact le_of_mul_le_mul_right this h2w
    constructor <;> linarith [herr.1, herr.2]

end generic

/-! ## f64 → u64 -/

theorem f64ToUint64_res (x : Float) : f64ToUint 64 x = match f64Magic (maxF64 64) x with
    | .inl u => u.toNat % 2^64
    | .inr s => bigCast 64 s := rfl

theorem f64_to_u64_closed_form (x : Float) : f64ToUint 64 x = specBig 64 x :=
  big_closed_form fin_maxF64_64 v_maxF64_64 (by norm_num) (by norm_num) f64ToUint64_res x

/-- **monotone over every pair of non-NaN `f64` bit patterns** -/
theorem f64_to_u64_monotone_all : ∀ x y : Float, ¬ x.isNaN → ¬ y.isNaN → x ≤ y → f64ToUint 64 x ≤ f64ToUint 64 y :=
  fun _ _ hx hy h => big_mono fin_maxF64_64 v_maxF64_64 (by norm_num) (by norm_num) f64ToUint64_res
    (by simpa using hx) (by simpa using hy) h

/-- **saturation**: `MAX` for NaN and every `x ≥ 1` (including `+∞`); `0` for every `x ≤ 0` (including `−0`, `−∞`) -/
theorem f64_to_u64_saturates_all : ∀ x : Float,
    ((x.isNaN = true ∨ one64 ≤ x) → f64ToUint 64 x = 2^64 - 1) ∧ (x ≤ zero64 → f64ToUint 64 x = 0) :=
  fun x => ⟨big_sat_hi fin_maxF64_64 v_maxF64_64 (by norm_num) (by norm_num) f64ToUint64_res x,
            big_sat_lo fin_maxF64_64 v_maxF64_64 (by norm_num) (by norm_num) f64ToUint64_res x⟩

/-- **nearest integer on `[0, 1]`**: exactly `min (rne (x·2^64)) MAX`; within `½ + x` of `x·MAX` -/
theorem f64_to_u64_nearest_all : ∀ x : Float, zero64 ≤ x → x ≤ one64 →
    f64ToUint 64 x = min (rne (v x * 2^64)).toNat (2^64 - 1) ∧
    |(f64ToUint 64 x : ℚ) - v x * (2^64 - 1)| ≤ 1 / 2 + v x :=
  fun x h0 h1 => big_nearest fin_maxF64_64 v_maxF64_64 (by norm_num) (by norm_num) f64ToUint64_res x h0 h1

/-! ## f64 → u128 -/

theorem f64ToUint128_res (x : Float) : f64ToUint 128 x = match f64Magic (maxF64 128) x with
    | .inl u => u.toNat % 2^128
    | .inr s => bigCast 128 s := rfl

theorem f64_to_u128_closed_form (x : Float) : f64ToUint 128 x = specBig 128 x :=
  big_closed_form fin_maxF64_128 v_maxF64_128 (by norm_num) (by norm_num) f64ToUint128_res x

/-- **monotone over every pair of non-NaN `f64` bit patterns** -/
theorem f64_to_u128_monotone_all : ∀ x y : Float, ¬ x.isNaN → ¬ y.isNaN → x ≤ y → f64ToUint 128 x ≤ f64ToUint 128 y :=
  fun _ _ hx hy h => big_mono fin_maxF64_128 v_maxF64_128 (by norm_num) (by norm_num) f64ToUint128_res
    (by simpa using hx) (by simpa using hy) h

/-- **saturation** -/
theorem f64_to_u128_saturates_all : ∀ x : Float,
    ((x.isNaN = true ∨ one64 ≤ x) → f64ToUint 128 x = 2^128 - 1) ∧ (x ≤ zero64 → f64ToUint 128 x = 0) :=
  fun x => ⟨big_sat_hi fin_maxF64_128 v_maxF64_128 (by norm_num) (by norm_num) f64ToUint128_res x,
            big_sat_lo fin_maxF64_128 v_maxF64_128 (by norm_num) (by norm_num) f64ToUint128_res x⟩

/-- **nearest integer on `[0, 1]`**: exactly `min (rne (x·2^128)) MAX`; within `½ + x` of `x·MAX` -/
theorem f64_to_u128_nearest_all : ∀ x : Float, zero64 ≤ x → x ≤ one64 →
    f64ToUint 128 x = min (rne (v x * 2^128)).toNat (2^128 - 1) ∧
    |(f64ToUint 128 x : ℚ) - v x * (2^128 - 1)| ≤ 1 / 2 + v x :=
  fun x h0 h1 => big_nearest fin_maxF64_128 v_maxF64_128 (by norm_num) (by norm_num) f64ToUint128_res x h0 h1

example : zero64 ≤ Float.ofBits 0x3fd5555555555555 ∧ Float.ofBits 0x3fd5555555555555 ≤ one64 ∧ ¬ (Float.ofBits 0x3fd5555555555555).isNaN := by
  decide +kernel

end C06
