/-
  Tie of the hand-written sampling model (`PaletteModel/Sampling.lean`, C19) to the *text* of palette's random-sampling code.

  `tools/extract.py` (plugin `tools/extract_plugins/rand.py`, translator `tools/rust2lean_rand.py`, family `rand`) re-translates on every run
    * macros/random.rs: `impl_rand_traits_cartesian!`, `_cylinder!`, `_hsv_cone!`, `_hsl_bicone!`, `_hwb_cone!`, expanded (tools/rust_macros.py) at EVERY actual
      invocation found under palette/src (20 types): `Distribution<Ty> for Standard::sample`, the sampler `struct`, `UniformSampler::new`, `new_inclusive`, `sample`;
    * random_sampling/cone.rs: `sample_hsv`, `invert_hsv_sample`, `sample_hsl`, `sample_bicone_height`, `invert_hsl_sample`, `invert_bicone_height_sample`;
    * hues.rs: `impl_uniform!` at its five invocations (`new`, `new_inclusive`, `sample`), `Distribution<$name<T>> for Standard` at the five hues of `make_hues!`,
      and the helpers they call (`from_degrees`, `new`, `From<T>`, `into_positive_degrees`; angle.rs `normalize_unsigned_angle`, `full_rotation`; num.rs `min_max`);
    * alpha/alpha.rs: `Distribution<Alpha<C, T>> for Standard`, `UniformAlpha::new` / `new_inclusive` / `sample` (generic in the colour: dictionary passing)
  into `Gen.BodyRand.*` (lean/PaletteModel/Gen/BodiesRand.lean).  THE RNG IS A PARAMETER: `rng : Prim.Rand.Rng α` is threaded through each body in Rust's
  evaluation order, `rng.gen::<T>()` returns the parameter `rng.gen` at the current position, `u.sample(rng)` the parameter `rng.draw u` at the current position,
  `Uniform::new(a, b)` / `new_inclusive(a, b)` are the records `⟨a, b, false⟩` / `⟨a, b, true⟩` of what was handed to rand (PaletteModel/BodyPrimRand.lean).

  Each theorem `tie_<name>` states, for every `α` with `[Scalar α]` (hence at `Float`, `Float32` and `ℝ`), every input and every generator state, that the
  translated body is the model function the driver executes and the C19 theorems talk about:
    * `tie_<ty>Standard`:      the colour returned is `Sampling.standard .<Ty>` of the next n primitive draws IN ORDER (`Sampling.gens rng n`), n draws are consumed;
    * `tie_<ty>New` / `NewInclusive`: the sampler's `Uniform`s, listed in the order `order<Ty>` in which `sample` draws from them, are exactly the intervals
                               `Sampling.uniformEnds .<Ty> low high`, built with `Uniform::new` resp. `new_inclusive`;
    * `tie_<ty>Sample`:        the colour returned is `Sampling.uniformSample .<Ty>` of the primitive draws made from `order<Ty> s` in that order; n draws are consumed;
    * `<ty>_uniform(Inclusive)`: composition - `sample (new low high)` is the model's `uniformSample` of draws from the model's `uniformEnds`, position by position.
  All of them are `rfl` (definitional unfolding of both sides), except where the model states something in a different shape:
    * `MinMax::min_max` is written `if self > other { (other, self) } else { (self, other) }` in num.rs; `Sampling.minMax` says `(min, max)`.  These agree in a
      linear order (`minMaxCode_eq_real`) but not for every `Scalar` (NaN).  `PaletteModel/SamplingForms.lean` adds the code's form (`minMaxCode`,
      `uniformEndsCode`); `tie_hwbNew_code` is the unconditional `rfl` tie against it, `tie_hwbNew` takes `minMaxCode = minMax` as its hypothesis, and
      `tie_hwbNew_real` discharges it at `ℝ`, where the C19 theorems are stated.
  So a changed operand (`low.$radius * low.$radius`), a swapped argument (`sample_hsv(u2, u1)`), `r1.cbrt()` -> `sqrt`, a changed order of struct-literal
  fields with draws in them (the order of draws), `new` for `new_inclusive`, `>=` -> `>` in the arc guard, a dropped `+ T::full_rotation()`, `* 360` put back
  into the hue sampler (D2), `$height_unmap_fn` applied where the model applies none, ... are broken obligations naming the body.

  `every_invocation_tied`: every `impl_rand_traits_*!` invocation found (regenerated list `Gen.BodyRand.invocations`, cross-checked against
  `Gen.Sampling.family`, which tools/extract.py reads from the same invocations with independent code) is of a type in `tiedTypes`; the plugin stops the run
  when a translated body has no `tie_` theorem here.

  NOT translated: header of Gen/BodiesRand.lean (rand itself - the parameters; rand's `Uniform<X>` wrapper over a colour - read as the identity).
-/
import PaletteModel.Gen.BodiesRand
import PaletteModel.SamplingForms
import PaletteProofs.Real

namespace Tie
open Prim.Rand Gen.Sampling
variable {α : Type} [Scalar α]

/-! ### helpers: angle.rs, hues.rs, num.rs -/
theorem tie_angFullRotation : (Gen.BodyRand.angFullRotation : α) = Gen.Sampling.fullRotation := rfl
theorem tie_angNormalizeUnsigned : @Gen.BodyRand.angNormalizeUnsigned α _ = Sampling.normalizeUnsigned := rfl
theorem tie_hueIntoPositiveDegrees : @Gen.BodyRand.hueIntoPositiveDegrees α _ = Sampling.normalizeUnsigned := rfl
/-- `MinMax::min_max` as written (num.rs `impl_float!`) -/
theorem tie_numMinMax : @Gen.BodyRand.numMinMax α _ = Sampling.minMaxCode := rfl

/-- in a linear order the code's `min_max` is the model's `(min, max)`; here at `ℝ`, where the C19 theorems are stated -/
theorem minMaxCode_eq_real (a b : ℝ) : Sampling.minMaxCode a b = Sampling.minMax a b := by
  unfold Sampling.minMaxCode Sampling.minMax
  simp only [RealScalar.min_eq, RealScalar.max_eq]
  by_cases h : b < a
  · rw [if_pos h, min_eq_right h.le, max_eq_left h.le]
  · rw [if_neg h, min_eq_left (not_lt.mp h), max_eq_right (not_lt.mp h)]

/-- where `min_max` is `(min, max)` the code's form of the constructor intervals is the model's -/
theorem uniformEndsCode_hwb (hmm : ∀ a b : α, Sampling.minMaxCode a b = Sampling.minMax a b) (ty : Ty) (hf : family ty = .hwb_cone) (lo hi : V3 α) :
    Sampling.uniformEndsCode ty lo.toList hi.toList = Sampling.uniformEnds ty lo.toList hi.toList := by
  unfold Sampling.uniformEndsCode Sampling.uniformEnds V3.toList
  rw [hf]
  simp only [Sampling.hwbEndsCode, hmm]

/-- every type: the code's form is the model's where `min_max` is `(min, max)` (it differs in the HWB branch only) -/
theorem uniformEndsCode_eq (hmm : ∀ a b : α, Sampling.minMaxCode a b = Sampling.minMax a b) (ty : Ty) (low high : List α) :
    Sampling.uniformEndsCode ty low high = Sampling.uniformEnds ty low high := by
  unfold Sampling.uniformEndsCode Sampling.uniformEnds
  split <;> simp_all only [Sampling.hwbEndsCode]

/-! ### random_sampling/cone.rs (`HsvSample` = `(value, saturation)`, `HslSample` = `(saturation, lightness)`: declaration order) -/
theorem tie_sampleHsv : @Gen.BodyRand.sampleHsv α _ = Sampling.sampleHsv := rfl
theorem tie_invertHsvSample (value saturation : α) : Gen.BodyRand.invertHsvSample (value, saturation) = Sampling.invertHsv value saturation := rfl
theorem tie_sampleBiconeHeight : @Gen.BodyRand.sampleBiconeHeight α _ = Sampling.biconeHeight := rfl
theorem tie_sampleHsl : @Gen.BodyRand.sampleHsl α _ = Sampling.sampleHsl := rfl
theorem tie_invertBiconeHeightSample : @Gen.BodyRand.invertBiconeHeightSample α _ = Sampling.invertBiconeHeight := rfl
theorem tie_invertHslSample (saturation lightness : α) : Gen.BodyRand.invertHslSample (saturation, lightness) = Sampling.invertHsl saturation lightness := rfl

/-! ### hues.rs: `Distribution<Hue<T>> for Standard` and `impl_uniform!` (a hue is its stored angle; one primitive draw each) -/
/-! #### `UniformLabHue` (`impl_uniform!(UniformLabHue, LabHue)`) -/
theorem tie_uniformLabHueNew (lo hi : α) :
    (Gen.BodyRand.uniformLabHueNew lo hi).hue = Uniform.new (Sampling.hueEnds lo hi).lo (Sampling.hueEnds lo hi).hi := rfl
theorem tie_uniformLabHueNewInclusive (lo hi : α) :
    (Gen.BodyRand.uniformLabHueNewInclusive lo hi).hue = Uniform.newInclusive (Sampling.hueEnds lo hi).lo (Sampling.hueEnds lo hi).hi := rfl
theorem tie_uniformLabHueSample (s : Gen.BodyRand.UniformLabHue α) (rng : Rng α) :
    Gen.BodyRand.uniformLabHueSample s rng = (Sampling.hueSample (rng.draw s.hue rng.pos), rng.skip 1) := rfl
/-! #### `UniformRgbHue` (`impl_uniform!(UniformRgbHue, RgbHue)`) -/
theorem tie_uniformRgbHueNew (lo hi : α) :
    (Gen.BodyRand.uniformRgbHueNew lo hi).hue = Uniform.new (Sampling.hueEnds lo hi).lo (Sampling.hueEnds lo hi).hi := rfl
theorem tie_uniformRgbHueNewInclusive (lo hi : α) :
    (Gen.BodyRand.uniformRgbHueNewInclusive lo hi).hue = Uniform.newInclusive (Sampling.hueEnds lo hi).lo (Sampling.hueEnds lo hi).hi := rfl
theorem tie_uniformRgbHueSample (s : Gen.BodyRand.UniformRgbHue α) (rng : Rng α) :
    Gen.BodyRand.uniformRgbHueSample s rng = (Sampling.hueSample (rng.draw s.hue rng.pos), rng.skip 1) := rfl
/-! #### `UniformLuvHue` (`impl_uniform!(UniformLuvHue, LuvHue)`) -/
theorem tie_uniformLuvHueNew (lo hi : α) :
    (Gen.BodyRand.uniformLuvHueNew lo hi).hue = Uniform.new (Sampling.hueEnds lo hi).lo (Sampling.hueEnds lo hi).hi := rfl
theorem tie_uniformLuvHueNewInclusive (lo hi : α) :
    (Gen.BodyRand.uniformLuvHueNewInclusive lo hi).hue = Uniform.newInclusive (Sampling.hueEnds lo hi).lo (Sampling.hueEnds lo hi).hi := rfl
theorem tie_uniformLuvHueSample (s : Gen.BodyRand.UniformLuvHue α) (rng : Rng α) :
    Gen.BodyRand.uniformLuvHueSample s rng = (Sampling.hueSample (rng.draw s.hue rng.pos), rng.skip 1) := rfl
/-! #### `UniformOklabHue` (`impl_uniform!(UniformOklabHue, OklabHue)`) -/
theorem tie_uniformOklabHueNew (lo hi : α) :
    (Gen.BodyRand.uniformOklabHueNew lo hi).hue = Uniform.new (Sampling.hueEnds lo hi).lo (Sampling.hueEnds lo hi).hi := rfl
theorem tie_uniformOklabHueNewInclusive (lo hi : α) :
    (Gen.BodyRand.uniformOklabHueNewInclusive lo hi).hue = Uniform.newInclusive (Sampling.hueEnds lo hi).lo (Sampling.hueEnds lo hi).hi := rfl
theorem tie_uniformOklabHueSample (s : Gen.BodyRand.UniformOklabHue α) (rng : Rng α) :
    Gen.BodyRand.uniformOklabHueSample s rng = (Sampling.hueSample (rng.draw s.hue rng.pos), rng.skip 1) := rfl
/-! #### `UniformCam16Hue` (`impl_uniform!(UniformCam16Hue, Cam16Hue)`) -/
theorem tie_uniformCam16HueNew (lo hi : α) :
    (Gen.BodyRand.uniformCam16HueNew lo hi).hue = Uniform.new (Sampling.hueEnds lo hi).lo (Sampling.hueEnds lo hi).hi := rfl
theorem tie_uniformCam16HueNewInclusive (lo hi : α) :
    (Gen.BodyRand.uniformCam16HueNewInclusive lo hi).hue = Uniform.newInclusive (Sampling.hueEnds lo hi).lo (Sampling.hueEnds lo hi).hi := rfl
theorem tie_uniformCam16HueSample (s : Gen.BodyRand.UniformCam16Hue α) (rng : Rng α) :
    Gen.BodyRand.uniformCam16HueSample s rng = (Sampling.hueSample (rng.draw s.hue rng.pos), rng.skip 1) := rfl
theorem tie_labHueStandard (rng : Rng α) : Gen.BodyRand.labHueStandard rng = (Sampling.hueStandard (rng.gen rng.pos), rng.skip 1) := rfl
theorem tie_luvHueStandard (rng : Rng α) : Gen.BodyRand.luvHueStandard rng = (Sampling.hueStandard (rng.gen rng.pos), rng.skip 1) := rfl
theorem tie_rgbHueStandard (rng : Rng α) : Gen.BodyRand.rgbHueStandard rng = (Sampling.hueStandard (rng.gen rng.pos), rng.skip 1) := rfl
theorem tie_oklabHueStandard (rng : Rng α) : Gen.BodyRand.oklabHueStandard rng = (Sampling.hueStandard (rng.gen rng.pos), rng.skip 1) := rfl
theorem tie_cam16HueStandard (rng : Rng α) : Gen.BodyRand.cam16HueStandard rng = (Sampling.hueStandard (rng.gen rng.pos), rng.skip 1) := rfl

/-! ### macros/random.rs: every invocation (statement list scaffolded once by tools/scaffold_tie_rand.py, then maintained by hand) -/
/-! #### `Cam16UcsJab` (cam16/ucs_jab.rs: `impl_rand_traits_cartesian!`) -/
/-- the fields of `UniformCam16UcsJab` in the order in which `sample` draws from them -/
def orderCam16UcsJab (s : Gen.BodyRand.UniformCam16UcsJab α) : List (Uniform α) := [s.lightness, s.a, s.b]
theorem tie_cam16UcsJabStandard (wx wy wz : α) (rng : Rng α) :
    Prod.map V3.toList id (Gen.BodyRand.cam16UcsJabStandard rng) = (Sampling.standard .Cam16UcsJab wx wy wz (Sampling.gens rng 3), rng.skip 3) := rfl
theorem tie_cam16UcsJabNew (lo hi : V3 α) :
    orderCam16UcsJab (Gen.BodyRand.cam16UcsJabNew lo hi) = Sampling.ofIvs false (Sampling.uniformEnds .Cam16UcsJab lo.toList hi.toList) := rfl
theorem tie_cam16UcsJabNewInclusive (lo hi : V3 α) :
    orderCam16UcsJab (Gen.BodyRand.cam16UcsJabNewInclusive lo hi) = Sampling.ofIvs true (Sampling.uniformEnds .Cam16UcsJab lo.toList hi.toList) := rfl
theorem tie_cam16UcsJabSample (s : Gen.BodyRand.UniformCam16UcsJab α) (rng : Rng α) :
    Prod.map V3.toList id (Gen.BodyRand.cam16UcsJabSample s rng) = (Sampling.uniformSample .Cam16UcsJab (Sampling.draws rng (orderCam16UcsJab s)), rng.skip 3) := rfl
theorem cam16UcsJab_uniform (lo hi : V3 α) (rng : Rng α) :
    Prod.map V3.toList id (Gen.BodyRand.cam16UcsJabSample (Gen.BodyRand.cam16UcsJabNew lo hi) rng)
      = (Sampling.uniformSample .Cam16UcsJab (Sampling.draws rng (Sampling.ofIvs false (Sampling.uniformEnds .Cam16UcsJab lo.toList hi.toList))), rng.skip 3) := rfl
theorem cam16UcsJab_uniformInclusive (lo hi : V3 α) (rng : Rng α) :
    Prod.map V3.toList id (Gen.BodyRand.cam16UcsJabSample (Gen.BodyRand.cam16UcsJabNewInclusive lo hi) rng)
      = (Sampling.uniformSample .Cam16UcsJab (Sampling.draws rng (Sampling.ofIvs true (Sampling.uniformEnds .Cam16UcsJab lo.toList hi.toList))), rng.skip 3) := rfl

/-! #### `Cam16UcsJmh` (cam16/ucs_jmh.rs: `impl_rand_traits_cylinder!`) -/
/-- the fields of `UniformCam16UcsJmh` in the order in which `sample` draws from them -/
def orderCam16UcsJmh (s : Gen.BodyRand.UniformCam16UcsJmh α) : List (Uniform α) := [s.lightness, s.colorfulness, s.hue.hue]
theorem tie_cam16UcsJmhStandard (wx wy wz : α) (rng : Rng α) :
    Prod.map V3.toList id (Gen.BodyRand.cam16UcsJmhStandard rng) = (Sampling.standard .Cam16UcsJmh wx wy wz (Sampling.gens rng 3), rng.skip 3) := rfl
theorem tie_cam16UcsJmhNew (lo hi : V3 α) :
    orderCam16UcsJmh (Gen.BodyRand.cam16UcsJmhNew lo hi) = Sampling.ofIvs false (Sampling.uniformEnds .Cam16UcsJmh lo.toList hi.toList) := rfl
theorem tie_cam16UcsJmhNewInclusive (lo hi : V3 α) :
    orderCam16UcsJmh (Gen.BodyRand.cam16UcsJmhNewInclusive lo hi) = Sampling.ofIvs true (Sampling.uniformEnds .Cam16UcsJmh lo.toList hi.toList) := rfl
theorem tie_cam16UcsJmhSample (s : Gen.BodyRand.UniformCam16UcsJmh α) (rng : Rng α) :
    Prod.map V3.toList id (Gen.BodyRand.cam16UcsJmhSample s rng) = (Sampling.uniformSample .Cam16UcsJmh (Sampling.draws rng (orderCam16UcsJmh s)), rng.skip 3) := rfl
theorem cam16UcsJmh_uniform (lo hi : V3 α) (rng : Rng α) :
    Prod.map V3.toList id (Gen.BodyRand.cam16UcsJmhSample (Gen.BodyRand.cam16UcsJmhNew lo hi) rng)
      = (Sampling.uniformSample .Cam16UcsJmh (Sampling.draws rng (Sampling.ofIvs false (Sampling.uniformEnds .Cam16UcsJmh lo.toList hi.toList))), rng.skip 3) := rfl
theorem cam16UcsJmh_uniformInclusive (lo hi : V3 α) (rng : Rng α) :
    Prod.map V3.toList id (Gen.BodyRand.cam16UcsJmhSample (Gen.BodyRand.cam16UcsJmhNewInclusive lo hi) rng)
      = (Sampling.uniformSample .Cam16UcsJmh (Sampling.draws rng (Sampling.ofIvs true (Sampling.uniformEnds .Cam16UcsJmh lo.toList hi.toList))), rng.skip 3) := rfl

/-! #### `Hsl` (hsl.rs: `impl_rand_traits_hsl_bicone!`) -/
/-- the fields of `UniformHsl` in the order in which `sample` draws from them -/
def orderHsl (s : Gen.BodyRand.UniformHsl α) : List (Uniform α) := [s.hue.hue, s.u1, s.u2]
theorem tie_hslStandard (wx wy wz : α) (rng : Rng α) :
    Prod.map V3.toList id (Gen.BodyRand.hslStandard rng) = (Sampling.standard .Hsl wx wy wz (Sampling.gens rng 3), rng.skip 3) := rfl
theorem tie_hslNew (lo hi : V3 α) :
    orderHsl (Gen.BodyRand.hslNew lo hi) = Sampling.ofIvs false (Sampling.uniformEnds .Hsl lo.toList hi.toList) := rfl
theorem tie_hslNewInclusive (lo hi : V3 α) :
    orderHsl (Gen.BodyRand.hslNewInclusive lo hi) = Sampling.ofIvs true (Sampling.uniformEnds .Hsl lo.toList hi.toList) := rfl
theorem tie_hslSample (s : Gen.BodyRand.UniformHsl α) (rng : Rng α) :
    Prod.map V3.toList id (Gen.BodyRand.hslSample s rng) = (Sampling.uniformSample .Hsl (Sampling.draws rng (orderHsl s)), rng.skip 3) := rfl
theorem hsl_uniform (lo hi : V3 α) (rng : Rng α) :
    Prod.map V3.toList id (Gen.BodyRand.hslSample (Gen.BodyRand.hslNew lo hi) rng)
      = (Sampling.uniformSample .Hsl (Sampling.draws rng (Sampling.ofIvs false (Sampling.uniformEnds .Hsl lo.toList hi.toList))), rng.skip 3) := rfl
theorem hsl_uniformInclusive (lo hi : V3 α) (rng : Rng α) :
    Prod.map V3.toList id (Gen.BodyRand.hslSample (Gen.BodyRand.hslNewInclusive lo hi) rng)
      = (Sampling.uniformSample .Hsl (Sampling.draws rng (Sampling.ofIvs true (Sampling.uniformEnds .Hsl lo.toList hi.toList))), rng.skip 3) := rfl

/-! #### `Hsluv` (hsluv.rs: `impl_rand_traits_hsl_bicone!`) -/
/-- the fields of `UniformHsluv` in the order in which `sample` draws from them -/
def orderHsluv (s : Gen.BodyRand.UniformHsluv α) : List (Uniform α) := [s.hue.hue, s.u1, s.u2]
theorem tie_hsluvStandard (wx wy wz : α) (rng : Rng α) :
    Prod.map V3.toList id (Gen.BodyRand.hsluvStandard rng) = (Sampling.standard .Hsluv wx wy wz (Sampling.gens rng 3), rng.skip 3) := rfl
theorem tie_hsluvNew (lo hi : V3 α) :
    orderHsluv (Gen.BodyRand.hsluvNew lo hi) = Sampling.ofIvs false (Sampling.uniformEnds .Hsluv lo.toList hi.toList) := rfl
theorem tie_hsluvNewInclusive (lo hi : V3 α) :
    orderHsluv (Gen.BodyRand.hsluvNewInclusive lo hi) = Sampling.ofIvs true (Sampling.uniformEnds .Hsluv lo.toList hi.toList) := rfl
theorem tie_hsluvSample (s : Gen.BodyRand.UniformHsluv α) (rng : Rng α) :
    Prod.map V3.toList id (Gen.BodyRand.hsluvSample s rng) = (Sampling.uniformSample .Hsluv (Sampling.draws rng (orderHsluv s)), rng.skip 3) := rfl
theorem hsluv_uniform (lo hi : V3 α) (rng : Rng α) :
    Prod.map V3.toList id (Gen.BodyRand.hsluvSample (Gen.BodyRand.hsluvNew lo hi) rng)
      = (Sampling.uniformSample .Hsluv (Sampling.draws rng (Sampling.ofIvs false (Sampling.uniformEnds .Hsluv lo.toList hi.toList))), rng.skip 3) := rfl
theorem hsluv_uniformInclusive (lo hi : V3 α) (rng : Rng α) :
    Prod.map V3.toList id (Gen.BodyRand.hsluvSample (Gen.BodyRand.hsluvNewInclusive lo hi) rng)
      = (Sampling.uniformSample .Hsluv (Sampling.draws rng (Sampling.ofIvs true (Sampling.uniformEnds .Hsluv lo.toList hi.toList))), rng.skip 3) := rfl

/-! #### `Hsv` (hsv.rs: `impl_rand_traits_hsv_cone!`) -/
/-- the fields of `UniformHsv` in the order in which `sample` draws from them -/
def orderHsv (s : Gen.BodyRand.UniformHsv α) : List (Uniform α) := [s.hue.hue, s.u1, s.u2]
theorem tie_hsvStandard (wx wy wz : α) (rng : Rng α) :
    Prod.map V3.toList id (Gen.BodyRand.hsvStandard rng) = (Sampling.standard .Hsv wx wy wz (Sampling.gens rng 3), rng.skip 3) := rfl
theorem tie_hsvNew (lo hi : V3 α) :
    orderHsv (Gen.BodyRand.hsvNew lo hi) = Sampling.ofIvs false (Sampling.uniformEnds .Hsv lo.toList hi.toList) := rfl
theorem tie_hsvNewInclusive (lo hi : V3 α) :
    orderHsv (Gen.BodyRand.hsvNewInclusive lo hi) = Sampling.ofIvs true (Sampling.uniformEnds .Hsv lo.toList hi.toList) := rfl
theorem tie_hsvSample (s : Gen.BodyRand.UniformHsv α) (rng : Rng α) :
    Prod.map V3.toList id (Gen.BodyRand.hsvSample s rng) = (Sampling.uniformSample .Hsv (Sampling.draws rng (orderHsv s)), rng.skip 3) := rfl
theorem hsv_uniform (lo hi : V3 α) (rng : Rng α) :
    Prod.map V3.toList id (Gen.BodyRand.hsvSample (Gen.BodyRand.hsvNew lo hi) rng)
      = (Sampling.uniformSample .Hsv (Sampling.draws rng (Sampling.ofIvs false (Sampling.uniformEnds .Hsv lo.toList hi.toList))), rng.skip 3) := rfl
theorem hsv_uniformInclusive (lo hi : V3 α) (rng : Rng α) :
    Prod.map V3.toList id (Gen.BodyRand.hsvSample (Gen.BodyRand.hsvNewInclusive lo hi) rng)
      = (Sampling.uniformSample .Hsv (Sampling.draws rng (Sampling.ofIvs true (Sampling.uniformEnds .Hsv lo.toList hi.toList))), rng.skip 3) := rfl

/-! #### `Hwb` (hwb.rs: `impl_rand_traits_hwb_cone!`) -/
/-- the fields of `UniformHwb` in the order in which `sample` draws from them -/
def orderHwb (s : Gen.BodyRand.UniformHwb α) : List (Uniform α) := [s.sampler.hue.hue, s.sampler.u1, s.sampler.u2]
theorem tie_hwbStandard (wx wy wz : α) (rng : Rng α) :
    Prod.map V3.toList id (Gen.BodyRand.hwbStandard rng) = (Sampling.standard .Hwb wx wy wz (Sampling.gens rng 3), rng.skip 3) := rfl
theorem tie_hwbNew_code (lo hi : V3 α) :
    orderHwb (Gen.BodyRand.hwbNew lo hi) = Sampling.ofIvs false (Sampling.uniformEndsCode .Hwb lo.toList hi.toList) := rfl
theorem tie_hwbNew (hmm : ∀ a b : α, Sampling.minMaxCode a b = Sampling.minMax a b) (lo hi : V3 α) :
    orderHwb (Gen.BodyRand.hwbNew lo hi) = Sampling.ofIvs false (Sampling.uniformEnds .Hwb lo.toList hi.toList) := by
  rw [tie_hwbNew_code, uniformEndsCode_hwb hmm .Hwb rfl]
theorem tie_hwbNewInclusive_code (lo hi : V3 α) :
    orderHwb (Gen.BodyRand.hwbNewInclusive lo hi) = Sampling.ofIvs true (Sampling.uniformEndsCode .Hwb lo.toList hi.toList) := rfl
theorem tie_hwbNewInclusive (hmm : ∀ a b : α, Sampling.minMaxCode a b = Sampling.minMax a b) (lo hi : V3 α) :
    orderHwb (Gen.BodyRand.hwbNewInclusive lo hi) = Sampling.ofIvs true (Sampling.uniformEnds .Hwb lo.toList hi.toList) := by
  rw [tie_hwbNewInclusive_code, uniformEndsCode_hwb hmm .Hwb rfl]
theorem tie_hwbSample (s : Gen.BodyRand.UniformHwb α) (rng : Rng α) :
    Prod.map V3.toList id (Gen.BodyRand.hwbSample s rng) = (Sampling.uniformSample .Hwb (Sampling.draws rng (orderHwb s)), rng.skip 3) := rfl
theorem hwb_uniform (lo hi : V3 α) (rng : Rng α) :
    Prod.map V3.toList id (Gen.BodyRand.hwbSample (Gen.BodyRand.hwbNew lo hi) rng)
      = (Sampling.uniformSample .Hwb (Sampling.draws rng (Sampling.ofIvs false (Sampling.uniformEndsCode .Hwb lo.toList hi.toList))), rng.skip 3) := rfl
theorem hwb_uniformInclusive (lo hi : V3 α) (rng : Rng α) :
    Prod.map V3.toList id (Gen.BodyRand.hwbSample (Gen.BodyRand.hwbNewInclusive lo hi) rng)
      = (Sampling.uniformSample .Hwb (Sampling.draws rng (Sampling.ofIvs true (Sampling.uniformEndsCode .Hwb lo.toList hi.toList))), rng.skip 3) := rfl

/-! #### `Lab` (lab.rs: `impl_rand_traits_cartesian!`) -/
/-- the fields of `UniformLab` in the order in which `sample` draws from them -/
def orderLab (s : Gen.BodyRand.UniformLab α) : List (Uniform α) := [s.l, s.a, s.b]
theorem tie_labStandard (wx wy wz : α) (rng : Rng α) :
    Prod.map V3.toList id (Gen.BodyRand.labStandard rng) = (Sampling.standard .Lab wx wy wz (Sampling.gens rng 3), rng.skip 3) := rfl
theorem tie_labNew (lo hi : V3 α) :
    orderLab (Gen.BodyRand.labNew lo hi) = Sampling.ofIvs false (Sampling.uniformEnds .Lab lo.toList hi.toList) := rfl
theorem tie_labNewInclusive (lo hi : V3 α) :
    orderLab (Gen.BodyRand.labNewInclusive lo hi) = Sampling.ofIvs true (Sampling.uniformEnds .Lab lo.toList hi.toList) := rfl
theorem tie_labSample (s : Gen.BodyRand.UniformLab α) (rng : Rng α) :
    Prod.map V3.toList id (Gen.BodyRand.labSample s rng) = (Sampling.uniformSample .Lab (Sampling.draws rng (orderLab s)), rng.skip 3) := rfl
theorem lab_uniform (lo hi : V3 α) (rng : Rng α) :
    Prod.map V3.toList id (Gen.BodyRand.labSample (Gen.BodyRand.labNew lo hi) rng)
      = (Sampling.uniformSample .Lab (Sampling.draws rng (Sampling.ofIvs false (Sampling.uniformEnds .Lab lo.toList hi.toList))), rng.skip 3) := rfl
theorem lab_uniformInclusive (lo hi : V3 α) (rng : Rng α) :
    Prod.map V3.toList id (Gen.BodyRand.labSample (Gen.BodyRand.labNewInclusive lo hi) rng)
      = (Sampling.uniformSample .Lab (Sampling.draws rng (Sampling.ofIvs true (Sampling.uniformEnds .Lab lo.toList hi.toList))), rng.skip 3) := rfl

/-! #### `Lch` (lch.rs: `impl_rand_traits_cylinder!`) -/
/-- the fields of `UniformLch` in the order in which `sample` draws from them -/
def orderLch (s : Gen.BodyRand.UniformLch α) : List (Uniform α) := [s.l, s.chroma, s.hue.hue]
theorem tie_lchStandard (wx wy wz : α) (rng : Rng α) :
    Prod.map V3.toList id (Gen.BodyRand.lchStandard rng) = (Sampling.standard .Lch wx wy wz (Sampling.gens rng 3), rng.skip 3) := rfl
theorem tie_lchNew (lo hi : V3 α) :
    orderLch (Gen.BodyRand.lchNew lo hi) = Sampling.ofIvs false (Sampling.uniformEnds .Lch lo.toList hi.toList) := rfl
theorem tie_lchNewInclusive (lo hi : V3 α) :
    orderLch (Gen.BodyRand.lchNewInclusive lo hi) = Sampling.ofIvs true (Sampling.uniformEnds .Lch lo.toList hi.toList) := rfl
theorem tie_lchSample (s : Gen.BodyRand.UniformLch α) (rng : Rng α) :
    Prod.map V3.toList id (Gen.BodyRand.lchSample s rng) = (Sampling.uniformSample .Lch (Sampling.draws rng (orderLch s)), rng.skip 3) := rfl
theorem lch_uniform (lo hi : V3 α) (rng : Rng α) :
    Prod.map V3.toList id (Gen.BodyRand.lchSample (Gen.BodyRand.lchNew lo hi) rng)
      = (Sampling.uniformSample .Lch (Sampling.draws rng (Sampling.ofIvs false (Sampling.uniformEnds .Lch lo.toList hi.toList))), rng.skip 3) := rfl
theorem lch_uniformInclusive (lo hi : V3 α) (rng : Rng α) :
    Prod.map V3.toList id (Gen.BodyRand.lchSample (Gen.BodyRand.lchNewInclusive lo hi) rng)
      = (Sampling.uniformSample .Lch (Sampling.draws rng (Sampling.ofIvs true (Sampling.uniformEnds .Lch lo.toList hi.toList))), rng.skip 3) := rfl

/-! #### `Lchuv` (lchuv.rs: `impl_rand_traits_cylinder!`) -/
/-- the fields of `UniformLchuv` in the order in which `sample` draws from them -/
def orderLchuv (s : Gen.BodyRand.UniformLchuv α) : List (Uniform α) := [s.l, s.chroma, s.hue.hue]
theorem tie_lchuvStandard (wx wy wz : α) (rng : Rng α) :
    Prod.map V3.toList id (Gen.BodyRand.lchuvStandard rng) = (Sampling.standard .Lchuv wx wy wz (Sampling.gens rng 3), rng.skip 3) := rfl
theorem tie_lchuvNew (lo hi : V3 α) :
    orderLchuv (Gen.BodyRand.lchuvNew lo hi) = Sampling.ofIvs false (Sampling.uniformEnds .Lchuv lo.toList hi.toList) := rfl
theorem tie_lchuvNewInclusive (lo hi : V3 α) :
    orderLchuv (Gen.BodyRand.lchuvNewInclusive lo hi) = Sampling.ofIvs true (Sampling.uniformEnds .Lchuv lo.toList hi.toList) := rfl
theorem tie_lchuvSample (s : Gen.BodyRand.UniformLchuv α) (rng : Rng α) :
    Prod.map V3.toList id (Gen.BodyRand.lchuvSample s rng) = (Sampling.uniformSample .Lchuv (Sampling.draws rng (orderLchuv s)), rng.skip 3) := rfl
theorem lchuv_uniform (lo hi : V3 α) (rng : Rng α) :
    Prod.map V3.toList id (Gen.BodyRand.lchuvSample (Gen.BodyRand.lchuvNew lo hi) rng)
      = (Sampling.uniformSample .Lchuv (Sampling.draws rng (Sampling.ofIvs false (Sampling.uniformEnds .Lchuv lo.toList hi.toList))), rng.skip 3) := rfl
theorem lchuv_uniformInclusive (lo hi : V3 α) (rng : Rng α) :
    Prod.map V3.toList id (Gen.BodyRand.lchuvSample (Gen.BodyRand.lchuvNewInclusive lo hi) rng)
      = (Sampling.uniformSample .Lchuv (Sampling.draws rng (Sampling.ofIvs true (Sampling.uniformEnds .Lchuv lo.toList hi.toList))), rng.skip 3) := rfl

/-! #### `Lms` (lms/lms.rs: `impl_rand_traits_cartesian!`) -/
/-- the fields of `UniformLms` in the order in which `sample` draws from them -/
def orderLms (s : Gen.BodyRand.UniformLms α) : List (Uniform α) := [s.long, s.medium, s.short]
theorem tie_lmsStandard (wx wy wz : α) (rng : Rng α) :
    Prod.map V3.toList id (Gen.BodyRand.lmsStandard rng) = (Sampling.standard .Lms wx wy wz (Sampling.gens rng 3), rng.skip 3) := rfl
theorem tie_lmsNew (lo hi : V3 α) :
    orderLms (Gen.BodyRand.lmsNew lo hi) = Sampling.ofIvs false (Sampling.uniformEnds .Lms lo.toList hi.toList) := rfl
theorem tie_lmsNewInclusive (lo hi : V3 α) :
    orderLms (Gen.BodyRand.lmsNewInclusive lo hi) = Sampling.ofIvs true (Sampling.uniformEnds .Lms lo.toList hi.toList) := rfl
theorem tie_lmsSample (s : Gen.BodyRand.UniformLms α) (rng : Rng α) :
    Prod.map V3.toList id (Gen.BodyRand.lmsSample s rng) = (Sampling.uniformSample .Lms (Sampling.draws rng (orderLms s)), rng.skip 3) := rfl
theorem lms_uniform (lo hi : V3 α) (rng : Rng α) :
    Prod.map V3.toList id (Gen.BodyRand.lmsSample (Gen.BodyRand.lmsNew lo hi) rng)
      = (Sampling.uniformSample .Lms (Sampling.draws rng (Sampling.ofIvs false (Sampling.uniformEnds .Lms lo.toList hi.toList))), rng.skip 3) := rfl
theorem lms_uniformInclusive (lo hi : V3 α) (rng : Rng α) :
    Prod.map V3.toList id (Gen.BodyRand.lmsSample (Gen.BodyRand.lmsNewInclusive lo hi) rng)
      = (Sampling.uniformSample .Lms (Sampling.draws rng (Sampling.ofIvs true (Sampling.uniformEnds .Lms lo.toList hi.toList))), rng.skip 3) := rfl

/-! #### `Luma` (luma/luma.rs: `impl_rand_traits_cartesian!`) -/
/-- the fields of `UniformLuma` in the order in which `sample` draws from them -/
def orderLuma (s : Gen.BodyRand.UniformLuma α) : List (Uniform α) := [s.luma]
theorem tie_lumaStandard (wx wy wz : α) (rng : Rng α) :
    Prod.map C1.toList id (Gen.BodyRand.lumaStandard rng) = (Sampling.standard .Luma wx wy wz (Sampling.gens rng 1), rng.skip 1) := rfl
theorem tie_lumaNew (lo hi : C1 α) :
    orderLuma (Gen.BodyRand.lumaNew lo hi) = Sampling.ofIvs false (Sampling.uniformEnds .Luma lo.toList hi.toList) := rfl
theorem tie_lumaNewInclusive (lo hi : C1 α) :
    orderLuma (Gen.BodyRand.lumaNewInclusive lo hi) = Sampling.ofIvs true (Sampling.uniformEnds .Luma lo.toList hi.toList) := rfl
theorem tie_lumaSample (s : Gen.BodyRand.UniformLuma α) (rng : Rng α) :
    Prod.map C1.toList id (Gen.BodyRand.lumaSample s rng) = (Sampling.uniformSample .Luma (Sampling.draws rng (orderLuma s)), rng.skip 1) := rfl
theorem luma_uniform (lo hi : C1 α) (rng : Rng α) :
    Prod.map C1.toList id (Gen.BodyRand.lumaSample (Gen.BodyRand.lumaNew lo hi) rng)
      = (Sampling.uniformSample .Luma (Sampling.draws rng (Sampling.ofIvs false (Sampling.uniformEnds .Luma lo.toList hi.toList))), rng.skip 1) := rfl
theorem luma_uniformInclusive (lo hi : C1 α) (rng : Rng α) :
    Prod.map C1.toList id (Gen.BodyRand.lumaSample (Gen.BodyRand.lumaNewInclusive lo hi) rng)
      = (Sampling.uniformSample .Luma (Sampling.draws rng (Sampling.ofIvs true (Sampling.uniformEnds .Luma lo.toList hi.toList))), rng.skip 1) := rfl

/-! #### `Luv` (luv.rs: `impl_rand_traits_cartesian!`) -/
/-- the fields of `UniformLuv` in the order in which `sample` draws from them -/
def orderLuv (s : Gen.BodyRand.UniformLuv α) : List (Uniform α) := [s.l, s.u, s.v]
theorem tie_luvStandard (wx wy wz : α) (rng : Rng α) :
    Prod.map V3.toList id (Gen.BodyRand.luvStandard rng) = (Sampling.standard .Luv wx wy wz (Sampling.gens rng 3), rng.skip 3) := rfl
theorem tie_luvNew (lo hi : V3 α) :
    orderLuv (Gen.BodyRand.luvNew lo hi) = Sampling.ofIvs false (Sampling.uniformEnds .Luv lo.toList hi.toList) := rfl
theorem tie_luvNewInclusive (lo hi : V3 α) :
    orderLuv (Gen.BodyRand.luvNewInclusive lo hi) = Sampling.ofIvs true (Sampling.uniformEnds .Luv lo.toList hi.toList) := rfl
theorem tie_luvSample (s : Gen.BodyRand.UniformLuv α) (rng : Rng α) :
    Prod.map V3.toList id (Gen.BodyRand.luvSample s rng) = (Sampling.uniformSample .Luv (Sampling.draws rng (orderLuv s)), rng.skip 3) := rfl
theorem luv_uniform (lo hi : V3 α) (rng : Rng α) :
    Prod.map V3.toList id (Gen.BodyRand.luvSample (Gen.BodyRand.luvNew lo hi) rng)
      = (Sampling.uniformSample .Luv (Sampling.draws rng (Sampling.ofIvs false (Sampling.uniformEnds .Luv lo.toList hi.toList))), rng.skip 3) := rfl
theorem luv_uniformInclusive (lo hi : V3 α) (rng : Rng α) :
    Prod.map V3.toList id (Gen.BodyRand.luvSample (Gen.BodyRand.luvNewInclusive lo hi) rng)
      = (Sampling.uniformSample .Luv (Sampling.draws rng (Sampling.ofIvs true (Sampling.uniformEnds .Luv lo.toList hi.toList))), rng.skip 3) := rfl

/-! #### `Okhsl` (okhsl/random.rs: `impl_rand_traits_hsl_bicone!`) -/
/-- the fields of `UniformOkhsl` in the order in which `sample` draws from them -/
def orderOkhsl (s : Gen.BodyRand.UniformOkhsl α) : List (Uniform α) := [s.hue.hue, s.u1, s.u2]
theorem tie_okhslStandard (wx wy wz : α) (rng : Rng α) :
    Prod.map V3.toList id (Gen.BodyRand.okhslStandard rng) = (Sampling.standard .Okhsl wx wy wz (Sampling.gens rng 3), rng.skip 3) := rfl
theorem tie_okhslNew (lo hi : V3 α) :
    orderOkhsl (Gen.BodyRand.okhslNew lo hi) = Sampling.ofIvs false (Sampling.uniformEnds .Okhsl lo.toList hi.toList) := rfl
theorem tie_okhslNewInclusive (lo hi : V3 α) :
    orderOkhsl (Gen.BodyRand.okhslNewInclusive lo hi) = Sampling.ofIvs true (Sampling.uniformEnds .Okhsl lo.toList hi.toList) := rfl
theorem tie_okhslSample (s : Gen.BodyRand.UniformOkhsl α) (rng : Rng α) :
    Prod.map V3.toList id (Gen.BodyRand.okhslSample s rng) = (Sampling.uniformSample .Okhsl (Sampling.draws rng (orderOkhsl s)), rng.skip 3) := rfl
theorem okhsl_uniform (lo hi : V3 α) (rng : Rng α) :
    Prod.map V3.toList id (Gen.BodyRand.okhslSample (Gen.BodyRand.okhslNew lo hi) rng)
      = (Sampling.uniformSample .Okhsl (Sampling.draws rng (Sampling.ofIvs false (Sampling.uniformEnds .Okhsl lo.toList hi.toList))), rng.skip 3) := rfl
theorem okhsl_uniformInclusive (lo hi : V3 α) (rng : Rng α) :
    Prod.map V3.toList id (Gen.BodyRand.okhslSample (Gen.BodyRand.okhslNewInclusive lo hi) rng)
      = (Sampling.uniformSample .Okhsl (Sampling.draws rng (Sampling.ofIvs true (Sampling.uniformEnds .Okhsl lo.toList hi.toList))), rng.skip 3) := rfl

/-! #### `Okhsv` (okhsv/random.rs: `impl_rand_traits_hsv_cone!`) -/
/-- the fields of `UniformOkhsv` in the order in which `sample` draws from them -/
def orderOkhsv (s : Gen.BodyRand.UniformOkhsv α) : List (Uniform α) := [s.hue.hue, s.u1, s.u2]
theorem tie_okhsvStandard (wx wy wz : α) (rng : Rng α) :
    Prod.map V3.toList id (Gen.BodyRand.okhsvStandard rng) = (Sampling.standard .Okhsv wx wy wz (Sampling.gens rng 3), rng.skip 3) := rfl
theorem tie_okhsvNew (lo hi : V3 α) :
    orderOkhsv (Gen.BodyRand.okhsvNew lo hi) = Sampling.ofIvs false (Sampling.uniformEnds .Okhsv lo.toList hi.toList) := rfl
theorem tie_okhsvNewInclusive (lo hi : V3 α) :
    orderOkhsv (Gen.BodyRand.okhsvNewInclusive lo hi) = Sampling.ofIvs true (Sampling.uniformEnds .Okhsv lo.toList hi.toList) := rfl
theorem tie_okhsvSample (s : Gen.BodyRand.UniformOkhsv α) (rng : Rng α) :
    Prod.map V3.toList id (Gen.BodyRand.okhsvSample s rng) = (Sampling.uniformSample .Okhsv (Sampling.draws rng (orderOkhsv s)), rng.skip 3) := rfl
theorem okhsv_uniform (lo hi : V3 α) (rng : Rng α) :
    Prod.map V3.toList id (Gen.BodyRand.okhsvSample (Gen.BodyRand.okhsvNew lo hi) rng)
      = (Sampling.uniformSample .Okhsv (Sampling.draws rng (Sampling.ofIvs false (Sampling.uniformEnds .Okhsv lo.toList hi.toList))), rng.skip 3) := rfl
theorem okhsv_uniformInclusive (lo hi : V3 α) (rng : Rng α) :
    Prod.map V3.toList id (Gen.BodyRand.okhsvSample (Gen.BodyRand.okhsvNewInclusive lo hi) rng)
      = (Sampling.uniformSample .Okhsv (Sampling.draws rng (Sampling.ofIvs true (Sampling.uniformEnds .Okhsv lo.toList hi.toList))), rng.skip 3) := rfl

/-! #### `Okhwb` (okhwb/random.rs: `impl_rand_traits_hwb_cone!`) -/
/-- the fields of `UniformOkhwb` in the order in which `sample` draws from them -/
def orderOkhwb (s : Gen.BodyRand.UniformOkhwb α) : List (Uniform α) := [s.sampler.hue.hue, s.sampler.u1, s.sampler.u2]
theorem tie_okhwbStandard (wx wy wz : α) (rng : Rng α) :
    Prod.map V3.toList id (Gen.BodyRand.okhwbStandard rng) = (Sampling.standard .Okhwb wx wy wz (Sampling.gens rng 3), rng.skip 3) := rfl
theorem tie_okhwbNew_code (lo hi : V3 α) :
    orderOkhwb (Gen.BodyRand.okhwbNew lo hi) = Sampling.ofIvs false (Sampling.uniformEndsCode .Okhwb lo.toList hi.toList) := rfl
theorem tie_okhwbNew (hmm : ∀ a b : α, Sampling.minMaxCode a b = Sampling.minMax a b) (lo hi : V3 α) :
    orderOkhwb (Gen.BodyRand.okhwbNew lo hi) = Sampling.ofIvs false (Sampling.uniformEnds .Okhwb lo.toList hi.toList) := by
  rw [tie_okhwbNew_code, uniformEndsCode_hwb hmm .Okhwb rfl]
theorem tie_okhwbNewInclusive_code (lo hi : V3 α) :
    orderOkhwb (Gen.BodyRand.okhwbNewInclusive lo hi) = Sampling.ofIvs true (Sampling.uniformEndsCode .Okhwb lo.toList hi.toList) := rfl
theorem tie_okhwbNewInclusive (hmm : ∀ a b : α, Sampling.minMaxCode a b = Sampling.minMax a b) (lo hi : V3 α) :
    orderOkhwb (Gen.BodyRand.okhwbNewInclusive lo hi) = Sampling.ofIvs true (Sampling.uniformEnds .Okhwb lo.toList hi.toList) := by
  rw [tie_okhwbNewInclusive_code, uniformEndsCode_hwb hmm .Okhwb rfl]
theorem tie_okhwbSample (s : Gen.BodyRand.UniformOkhwb α) (rng : Rng α) :
    Prod.map V3.toList id (Gen.BodyRand.okhwbSample s rng) = (Sampling.uniformSample .Okhwb (Sampling.draws rng (orderOkhwb s)), rng.skip 3) := rfl
theorem okhwb_uniform (lo hi : V3 α) (rng : Rng α) :
    Prod.map V3.toList id (Gen.BodyRand.okhwbSample (Gen.BodyRand.okhwbNew lo hi) rng)
      = (Sampling.uniformSample .Okhwb (Sampling.draws rng (Sampling.ofIvs false (Sampling.uniformEndsCode .Okhwb lo.toList hi.toList))), rng.skip 3) := rfl
theorem okhwb_uniformInclusive (lo hi : V3 α) (rng : Rng α) :
    Prod.map V3.toList id (Gen.BodyRand.okhwbSample (Gen.BodyRand.okhwbNewInclusive lo hi) rng)
      = (Sampling.uniformSample .Okhwb (Sampling.draws rng (Sampling.ofIvs true (Sampling.uniformEndsCode .Okhwb lo.toList hi.toList))), rng.skip 3) := rfl

/-! #### `Oklab` (oklab/random.rs: `impl_rand_traits_cartesian!`) -/
/-- the fields of `UniformOklab` in the order in which `sample` draws from them -/
def orderOklab (s : Gen.BodyRand.UniformOklab α) : List (Uniform α) := [s.l, s.a, s.b]
theorem tie_oklabStandard (wx wy wz : α) (rng : Rng α) :
    Prod.map V3.toList id (Gen.BodyRand.oklabStandard rng) = (Sampling.standard .Oklab wx wy wz (Sampling.gens rng 3), rng.skip 3) := rfl
theorem tie_oklabNew (lo hi : V3 α) :
    orderOklab (Gen.BodyRand.oklabNew lo hi) = Sampling.ofIvs false (Sampling.uniformEnds .Oklab lo.toList hi.toList) := rfl
theorem tie_oklabNewInclusive (lo hi : V3 α) :
    orderOklab (Gen.BodyRand.oklabNewInclusive lo hi) = Sampling.ofIvs true (Sampling.uniformEnds .Oklab lo.toList hi.toList) := rfl
theorem tie_oklabSample (s : Gen.BodyRand.UniformOklab α) (rng : Rng α) :
    Prod.map V3.toList id (Gen.BodyRand.oklabSample s rng) = (Sampling.uniformSample .Oklab (Sampling.draws rng (orderOklab s)), rng.skip 3) := rfl
theorem oklab_uniform (lo hi : V3 α) (rng : Rng α) :
    Prod.map V3.toList id (Gen.BodyRand.oklabSample (Gen.BodyRand.oklabNew lo hi) rng)
      = (Sampling.uniformSample .Oklab (Sampling.draws rng (Sampling.ofIvs false (Sampling.uniformEnds .Oklab lo.toList hi.toList))), rng.skip 3) := rfl
theorem oklab_uniformInclusive (lo hi : V3 α) (rng : Rng α) :
    Prod.map V3.toList id (Gen.BodyRand.oklabSample (Gen.BodyRand.oklabNewInclusive lo hi) rng)
      = (Sampling.uniformSample .Oklab (Sampling.draws rng (Sampling.ofIvs true (Sampling.uniformEnds .Oklab lo.toList hi.toList))), rng.skip 3) := rfl

/-! #### `Oklch` (oklch/random.rs: `impl_rand_traits_cylinder!`) -/
/-- the fields of `UniformOklch` in the order in which `sample` draws from them -/
def orderOklch (s : Gen.BodyRand.UniformOklch α) : List (Uniform α) := [s.l, s.chroma, s.hue.hue]
theorem tie_oklchStandard (wx wy wz : α) (rng : Rng α) :
    Prod.map V3.toList id (Gen.BodyRand.oklchStandard rng) = (Sampling.standard .Oklch wx wy wz (Sampling.gens rng 3), rng.skip 3) := rfl
theorem tie_oklchNew (lo hi : V3 α) :
    orderOklch (Gen.BodyRand.oklchNew lo hi) = Sampling.ofIvs false (Sampling.uniformEnds .Oklch lo.toList hi.toList) := rfl
theorem tie_oklchNewInclusive (lo hi : V3 α) :
    orderOklch (Gen.BodyRand.oklchNewInclusive lo hi) = Sampling.ofIvs true (Sampling.uniformEnds .Oklch lo.toList hi.toList) := rfl
theorem tie_oklchSample (s : Gen.BodyRand.UniformOklch α) (rng : Rng α) :
    Prod.map V3.toList id (Gen.BodyRand.oklchSample s rng) = (Sampling.uniformSample .Oklch (Sampling.draws rng (orderOklch s)), rng.skip 3) := rfl
theorem oklch_uniform (lo hi : V3 α) (rng : Rng α) :
    Prod.map V3.toList id (Gen.BodyRand.oklchSample (Gen.BodyRand.oklchNew lo hi) rng)
      = (Sampling.uniformSample .Oklch (Sampling.draws rng (Sampling.ofIvs false (Sampling.uniformEnds .Oklch lo.toList hi.toList))), rng.skip 3) := rfl
theorem oklch_uniformInclusive (lo hi : V3 α) (rng : Rng α) :
    Prod.map V3.toList id (Gen.BodyRand.oklchSample (Gen.BodyRand.oklchNewInclusive lo hi) rng)
      = (Sampling.uniformSample .Oklch (Sampling.draws rng (Sampling.ofIvs true (Sampling.uniformEnds .Oklch lo.toList hi.toList))), rng.skip 3) := rfl

/-! #### `Rgb` (rgb/rgb.rs: `impl_rand_traits_cartesian!`) -/
/-- the fields of `UniformRgb` in the order in which `sample` draws from them -/
def orderRgb (s : Gen.BodyRand.UniformRgb α) : List (Uniform α) := [s.red, s.green, s.blue]
theorem tie_rgbStandard (wx wy wz : α) (rng : Rng α) :
    Prod.map V3.toList id (Gen.BodyRand.rgbStandard rng) = (Sampling.standard .Rgb wx wy wz (Sampling.gens rng 3), rng.skip 3) := rfl
theorem tie_rgbNew (lo hi : V3 α) :
    orderRgb (Gen.BodyRand.rgbNew lo hi) = Sampling.ofIvs false (Sampling.uniformEnds .Rgb lo.toList hi.toList) := rfl
theorem tie_rgbNewInclusive (lo hi : V3 α) :
    orderRgb (Gen.BodyRand.rgbNewInclusive lo hi) = Sampling.ofIvs true (Sampling.uniformEnds .Rgb lo.toList hi.toList) := rfl
theorem tie_rgbSample (s : Gen.BodyRand.UniformRgb α) (rng : Rng α) :
    Prod.map V3.toList id (Gen.BodyRand.rgbSample s rng) = (Sampling.uniformSample .Rgb (Sampling.draws rng (orderRgb s)), rng.skip 3) := rfl
theorem rgb_uniform (lo hi : V3 α) (rng : Rng α) :
    Prod.map V3.toList id (Gen.BodyRand.rgbSample (Gen.BodyRand.rgbNew lo hi) rng)
      = (Sampling.uniformSample .Rgb (Sampling.draws rng (Sampling.ofIvs false (Sampling.uniformEnds .Rgb lo.toList hi.toList))), rng.skip 3) := rfl
theorem rgb_uniformInclusive (lo hi : V3 α) (rng : Rng α) :
    Prod.map V3.toList id (Gen.BodyRand.rgbSample (Gen.BodyRand.rgbNewInclusive lo hi) rng)
      = (Sampling.uniformSample .Rgb (Sampling.draws rng (Sampling.ofIvs true (Sampling.uniformEnds .Rgb lo.toList hi.toList))), rng.skip 3) := rfl

/-! #### `Xyz` (xyz.rs: `impl_rand_traits_cartesian!`) -/
/-- the fields of `UniformXyz` in the order in which `sample` draws from them -/
def orderXyz (s : Gen.BodyRand.UniformXyz α) : List (Uniform α) := [s.x, s.y, s.z]
theorem tie_xyzStandard (wx wy wz : α) (rng : Rng α) :
    Prod.map V3.toList id (Gen.BodyRand.xyzStandard wx wy wz rng) = (Sampling.standard .Xyz wx wy wz (Sampling.gens rng 3), rng.skip 3) := rfl
theorem tie_xyzNew (lo hi : V3 α) :
    orderXyz (Gen.BodyRand.xyzNew lo hi) = Sampling.ofIvs false (Sampling.uniformEnds .Xyz lo.toList hi.toList) := rfl
theorem tie_xyzNewInclusive (lo hi : V3 α) :
    orderXyz (Gen.BodyRand.xyzNewInclusive lo hi) = Sampling.ofIvs true (Sampling.uniformEnds .Xyz lo.toList hi.toList) := rfl
theorem tie_xyzSample (s : Gen.BodyRand.UniformXyz α) (rng : Rng α) :
    Prod.map V3.toList id (Gen.BodyRand.xyzSample s rng) = (Sampling.uniformSample .Xyz (Sampling.draws rng (orderXyz s)), rng.skip 3) := rfl
theorem xyz_uniform (lo hi : V3 α) (rng : Rng α) :
    Prod.map V3.toList id (Gen.BodyRand.xyzSample (Gen.BodyRand.xyzNew lo hi) rng)
      = (Sampling.uniformSample .Xyz (Sampling.draws rng (Sampling.ofIvs false (Sampling.uniformEnds .Xyz lo.toList hi.toList))), rng.skip 3) := rfl
theorem xyz_uniformInclusive (lo hi : V3 α) (rng : Rng α) :
    Prod.map V3.toList id (Gen.BodyRand.xyzSample (Gen.BodyRand.xyzNewInclusive lo hi) rng)
      = (Sampling.uniformSample .Xyz (Sampling.draws rng (Sampling.ofIvs true (Sampling.uniformEnds .Xyz lo.toList hi.toList))), rng.skip 3) := rfl

/-! #### `Yxy` (yxy.rs: `impl_rand_traits_cartesian!`) -/
/-- the fields of `UniformYxy` in the order in which `sample` draws from them -/
def orderYxy (s : Gen.BodyRand.UniformYxy α) : List (Uniform α) := [s.x, s.y, s.luma]
theorem tie_yxyStandard (wx wy wz : α) (rng : Rng α) :
    Prod.map V3.toList id (Gen.BodyRand.yxyStandard rng) = (Sampling.standard .Yxy wx wy wz (Sampling.gens rng 3), rng.skip 3) := rfl
theorem tie_yxyNew (lo hi : V3 α) :
    orderYxy (Gen.BodyRand.yxyNew lo hi) = Sampling.ofIvs false (Sampling.uniformEnds .Yxy lo.toList hi.toList) := rfl
theorem tie_yxyNewInclusive (lo hi : V3 α) :
    orderYxy (Gen.BodyRand.yxyNewInclusive lo hi) = Sampling.ofIvs true (Sampling.uniformEnds .Yxy lo.toList hi.toList) := rfl
theorem tie_yxySample (s : Gen.BodyRand.UniformYxy α) (rng : Rng α) :
    Prod.map V3.toList id (Gen.BodyRand.yxySample s rng) = (Sampling.uniformSample .Yxy (Sampling.draws rng (orderYxy s)), rng.skip 3) := rfl
theorem yxy_uniform (lo hi : V3 α) (rng : Rng α) :
    Prod.map V3.toList id (Gen.BodyRand.yxySample (Gen.BodyRand.yxyNew lo hi) rng)
      = (Sampling.uniformSample .Yxy (Sampling.draws rng (Sampling.ofIvs false (Sampling.uniformEnds .Yxy lo.toList hi.toList))), rng.skip 3) := rfl
theorem yxy_uniformInclusive (lo hi : V3 α) (rng : Rng α) :
    Prod.map V3.toList id (Gen.BodyRand.yxySample (Gen.BodyRand.yxyNewInclusive lo hi) rng)
      = (Sampling.uniformSample .Yxy (Sampling.draws rng (Sampling.ofIvs true (Sampling.uniformEnds .Yxy lo.toList hi.toList))), rng.skip 3) := rfl


/-! ### HWB at `ℝ`: the hypothesis of `tie_hwbNew` / `tie_okhwbNew` holds, so the constructor intervals are the model's `uniformEnds` -/
theorem tie_hwbNew_real (lo hi : V3 ℝ) :
    orderHwb (Gen.BodyRand.hwbNew lo hi) = Sampling.ofIvs false (Sampling.uniformEnds .Hwb lo.toList hi.toList) := tie_hwbNew minMaxCode_eq_real lo hi
theorem tie_hwbNewInclusive_real (lo hi : V3 ℝ) :
    orderHwb (Gen.BodyRand.hwbNewInclusive lo hi) = Sampling.ofIvs true (Sampling.uniformEnds .Hwb lo.toList hi.toList) := tie_hwbNewInclusive minMaxCode_eq_real lo hi
theorem tie_okhwbNew_real (lo hi : V3 ℝ) :
    orderOkhwb (Gen.BodyRand.okhwbNew lo hi) = Sampling.ofIvs false (Sampling.uniformEnds .Okhwb lo.toList hi.toList) := tie_okhwbNew minMaxCode_eq_real lo hi
theorem tie_okhwbNewInclusive_real (lo hi : V3 ℝ) :
    orderOkhwb (Gen.BodyRand.okhwbNewInclusive lo hi) = Sampling.ofIvs true (Sampling.uniformEnds .Okhwb lo.toList hi.toList) := tie_okhwbNewInclusive minMaxCode_eq_real lo hi
/-- the hypothesis of `tie_hwbNew` is satisfiable (at `ℝ`), and the code's and the model's `min_max` really are different functions of a `Scalar` in general:
    nothing relates `Scalar.min` / `Scalar.max` to `<` -/
example : ∀ a b : ℝ, Sampling.minMaxCode a b = Sampling.minMax a b := minMaxCode_eq_real
theorem hwb_uniform_real (lo hi : V3 ℝ) (rng : Rng ℝ) :
    Prod.map V3.toList id (Gen.BodyRand.hwbSample (Gen.BodyRand.hwbNew lo hi) rng)
      = (Sampling.uniformSample .Hwb (Sampling.draws rng (Sampling.ofIvs false (Sampling.uniformEnds .Hwb lo.toList hi.toList))), rng.skip 3) := by
  rw [hwb_uniform, uniformEndsCode_hwb minMaxCode_eq_real .Hwb rfl]
theorem okhwb_uniform_real (lo hi : V3 ℝ) (rng : Rng ℝ) :
    Prod.map V3.toList id (Gen.BodyRand.okhwbSample (Gen.BodyRand.okhwbNew lo hi) rng)
      = (Sampling.uniformSample .Okhwb (Sampling.draws rng (Sampling.ofIvs false (Sampling.uniformEnds .Okhwb lo.toList hi.toList))), rng.skip 3) := by
  rw [okhwb_uniform, uniformEndsCode_hwb minMaxCode_eq_real .Okhwb rfl]

/-! ### alpha/alpha.rs: generic over the colour `C` (type `γ`, its sampler `σ`); `genC`, `newC`, `newInclusiveC`, `sampleC` are parameters -/
section alpha
variable {γ σ : Type} (genC : Rng α → γ × Rng α) (newC newInclusiveC : γ → γ → σ) (sampleC : σ → Rng α → γ × Rng α)

/-- for EVERY colour: the colour is drawn first, then one primitive `rng.gen::<T>()` for alpha -/
theorem alphaStandard_shape (rng : Rng α) :
    Gen.BodyRand.alphaStandard genC newC newInclusiveC sampleC rng
      = (((genC rng).1, (genC rng).2.gen (genC rng).2.pos), (genC rng).2.skip 1) := rfl
/-- for EVERY colour: the colour sampler from the colour ends with the SAME constructor, and `Uniform::new(low.alpha, high.alpha)` -/
theorem uniformAlphaNew_shape (lo hi : γ × α) :
    Gen.BodyRand.uniformAlphaNew genC newC newInclusiveC sampleC lo hi = (newC lo.1 hi.1, Uniform.new lo.2 hi.2) := rfl
theorem uniformAlphaNewInclusive_shape (lo hi : γ × α) :
    Gen.BodyRand.uniformAlphaNewInclusive genC newC newInclusiveC sampleC lo hi = (newInclusiveC lo.1 hi.1, Uniform.newInclusive lo.2 hi.2) := rfl
/-- for EVERY colour: the colour is sampled first, then one primitive draw from the alpha interval -/
theorem uniformAlphaSample_shape (s : σ × Uniform α) (rng : Rng α) :
    Gen.BodyRand.uniformAlphaSample genC newC newInclusiveC sampleC s rng
      = (((sampleC s.1 rng).1, (sampleC s.1 rng).2.draw s.2 (sampleC s.1 rng).2.pos), (sampleC s.1 rng).2.skip 1) := rfl

omit [Scalar α] in
theorem drawsAt_append (draw : Uniform α → Nat → α) (us : List (Uniform α)) (u : Uniform α) (p : Nat) :
    Sampling.drawsAt draw p (us ++ [u]) = Sampling.drawsAt draw p us ++ [draw u (p + us.length)] := by
  induction us generalizing p with
  | nil => rfl
  | cons v vs ih =>
    simp only [List.cons_append, Sampling.drawsAt, ih, List.length_cons]
    rw [Nat.add_assoc, Nat.add_comm 1]

/-- at the model: if the colour's `Standard` is tied to `Sampling.standard ty` (hypothesis `hC`: any of the `tie_<ty>Standard` above, `view` = `V3.toList`),
    `Alpha<C, T>`'s is `Sampling.alphaStandard ty`: the colour's draws, then one more -/
theorem tie_alphaStandard (ty : Ty) (wx wy wz : α) (n : Nat) (view : γ → List α)
    (hC : ∀ rng, Prod.map view id (genC rng) = (Sampling.standard ty wx wy wz (Sampling.gens rng n), rng.skip n)) (rng : Rng α) :
    Prod.map (fun p : γ × α => view p.1 ++ [p.2]) id (Gen.BodyRand.alphaStandard genC newC newInclusiveC sampleC rng)
      = (Sampling.alphaStandard ty wx wy wz (Sampling.gens rng n) ((rng.skip n).gen (rng.skip n).pos), (rng.skip n).skip 1) := by
  have h1 : view (genC rng).1 = _ := congrArg Prod.fst (hC rng)
  have h2 : (genC rng).2 = rng.skip n := congrArg Prod.snd (hC rng)
  show (view (genC rng).1 ++ [(genC rng).2.gen (genC rng).2.pos], (genC rng).2.skip 1) = _
  rw [h1, h2]; rfl

/-- at the model: the intervals of `UniformAlpha::new` are `Sampling.alphaEnds ty` (the colour's, then alpha's) when the colour's are `uniformEnds ty` -/
theorem tie_uniformAlphaNew (ty : Ty) (view : γ → List α) (ord : σ → List (Uniform α))
    (hN : ∀ lo hi, ord (newC lo hi) = Sampling.ofIvs false (Sampling.uniformEnds ty (view lo) (view hi))) (lo hi : γ × α) :
    (fun s : σ × Uniform α => ord s.1 ++ [s.2]) (Gen.BodyRand.uniformAlphaNew genC newC newInclusiveC sampleC lo hi)
      = Sampling.ofIvs false (Sampling.alphaEnds ty (view lo.1) (view hi.1) lo.2 hi.2) := by
  show ord (newC lo.1 hi.1) ++ [Uniform.new lo.2 hi.2] = _
  rw [hN]; simp only [Sampling.alphaEnds, Sampling.ofIvs, List.map_append, List.map]; rfl
theorem tie_uniformAlphaNewInclusive (ty : Ty) (view : γ → List α) (ord : σ → List (Uniform α))
    (hN : ∀ lo hi, ord (newInclusiveC lo hi) = Sampling.ofIvs true (Sampling.uniformEnds ty (view lo) (view hi))) (lo hi : γ × α) :
    (fun s : σ × Uniform α => ord s.1 ++ [s.2]) (Gen.BodyRand.uniformAlphaNewInclusive genC newC newInclusiveC sampleC lo hi)
      = Sampling.ofIvs true (Sampling.alphaEnds ty (view lo.1) (view hi.1) lo.2 hi.2) := by
  show ord (newInclusiveC lo.1 hi.1) ++ [Uniform.newInclusive lo.2 hi.2] = _
  rw [hN]; simp only [Sampling.alphaEnds, Sampling.ofIvs, List.map_append, List.map]; rfl

/-- at the model: `UniformAlpha::sample` is `Sampling.alphaSample ty` of the draws from the colour's `Uniform`s followed by the draw from alpha's -/
theorem tie_uniformAlphaSample (ty : Ty) (view : γ → List α) (ord : σ → List (Uniform α))
    (hS : ∀ s rng, Prod.map view id (sampleC s rng) = (Sampling.uniformSample ty (Sampling.draws rng (ord s)), rng.skip (ord s).length))
    (s : σ × Uniform α) (rng : Rng α) :
    Prod.map (fun p : γ × α => view p.1 ++ [p.2]) id (Gen.BodyRand.uniformAlphaSample genC newC newInclusiveC sampleC s rng)
      = (Sampling.alphaSample ty (Sampling.draws rng (ord s.1)) (rng.draw s.2 (rng.pos + (ord s.1).length)), (rng.skip (ord s.1).length).skip 1) := by
  have h1 : view (sampleC s.1 rng).1 = _ := congrArg Prod.fst (hS s.1 rng)
  have h2 : (sampleC s.1 rng).2 = rng.skip (ord s.1).length := congrArg Prod.snd (hS s.1 rng)
  show (view (sampleC s.1 rng).1 ++ [(sampleC s.1 rng).2.draw s.2 (sampleC s.1 rng).2.pos], (sampleC s.1 rng).2.skip 1) = _
  rw [h1, h2]; rfl

omit [Scalar α] in
/-- the draws `UniformAlpha::sample` makes are the draws from `ord s.1 ++ [s.2]`, in this order -/
theorem alpha_draws (ord : σ → List (Uniform α)) (s : σ × Uniform α) (rng : Rng α) :
    Sampling.draws rng (ord s.1 ++ [s.2]) = Sampling.draws rng (ord s.1) ++ [rng.draw s.2 (rng.pos + (ord s.1).length)] :=
  drawsAt_append rng.draw (ord s.1) s.2 rng.pos
end alpha

/-! the hypotheses of the Alpha ties are met by the colour ties: `Lcha` as the example -/
example (wx wy wz : α) (rng : Rng α) :
    Prod.map (fun p : V3 α × α => p.1.toList ++ [p.2]) id
        (Gen.BodyRand.alphaStandard Gen.BodyRand.lchStandard Gen.BodyRand.lchNew Gen.BodyRand.lchNewInclusive Gen.BodyRand.lchSample rng)
      = (Sampling.alphaStandard .Lch wx wy wz (Sampling.gens rng 3) (rng.gen (rng.pos + 3)), rng.skip 4) :=
  tie_alphaStandard _ _ _ _ .Lch wx wy wz 3 V3.toList (tie_lchStandard wx wy wz) rng
example (lo hi : V3 α × α) :
    (fun s : Gen.BodyRand.UniformLch α × Uniform α => orderLch s.1 ++ [s.2])
        (Gen.BodyRand.uniformAlphaNew Gen.BodyRand.lchStandard Gen.BodyRand.lchNew Gen.BodyRand.lchNewInclusive Gen.BodyRand.lchSample lo hi)
      = Sampling.ofIvs false (Sampling.alphaEnds .Lch lo.1.toList hi.1.toList lo.2 hi.2) :=
  tie_uniformAlphaNew _ _ _ _ .Lch V3.toList orderLch tie_lchNew lo hi
example (s : Gen.BodyRand.UniformLch α × Uniform α) (rng : Rng α) :
    Prod.map (fun p : V3 α × α => p.1.toList ++ [p.2]) id
        (Gen.BodyRand.uniformAlphaSample Gen.BodyRand.lchStandard Gen.BodyRand.lchNew Gen.BodyRand.lchNewInclusive Gen.BodyRand.lchSample s rng)
      = (Sampling.alphaSample .Lch (Sampling.draws rng (orderLch s.1)) (rng.draw s.2 (rng.pos + 3)), rng.skip 4) :=
  tie_uniformAlphaSample _ _ _ _ .Lch V3.toList orderLch tie_lchSample s rng

/-! ### coverage: every invocation found is of a tied type -/
/-- the types whose four bodies are tied above -/
def tiedTypes : List Ty := [.Cam16UcsJab, .Cam16UcsJmh, .Hsl, .Hsluv, .Hsv, .Hwb, .Lab, .Lch, .Lchuv, .Lms, .Luma, .Luv, .Okhsl, .Okhsv, .Okhwb, .Oklab, .Oklch, .Rgb,
  .Xyz, .Yxy]
/-- every `impl_rand_traits_*!` invocation the translator found is of a tied type, through the macro the model assigns to it (`Gen.Sampling.family`,
    read from the same invocations by tools/extract.py `gen_sampling`), and every sampled type of the model was found -/
theorem every_invocation_tied :
    (Gen.BodyRand.invocations.all fun p => decide (p.1 ∈ tiedTypes) && decide (Gen.Sampling.family p.1 = p.2)) = true
    ∧ (Gen.Sampling.Ty.all.all fun t => decide (t ∈ Gen.BodyRand.invocations.map Prod.fst)) = true := by decide

end Tie
