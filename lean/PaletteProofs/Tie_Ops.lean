/-
  Tie of the hand-written operator model (`PaletteModel/Ops.lean`, C10) to the *text* of the macro-generated Rust code.

  `tools/extract.py` (`gen_bodies`, translator `tools/rust2lean.py`, family `ops`, macro engine `tools/rust_macros.py`) expands on every run
  every invocation of `impl_mix!`, `impl_mix_hue!`, `impl_lighten!`, `impl_saturate!` (both through `_impl_increase_value_trait!`),
  `impl_lighten_hwb!`, `impl_hue_ops!`, `impl_color_add!/_sub!/_mul!/_div!`, `impl_lab_color_schemes!` for a three-component colour type (19
  types) against the `macro_rules!` as written *now*, and translates each generated method — by-value **and** assigning forms, relative and
  fixed forms — into `Gen.Body.<op><Ty>` (lean/PaletteModel/Gen/BodiesOps.lean), together with the `min_*` / `max_*` accessors the invocations
  name (`Gen.Body.lim<Ty><Accessor>`), `normalize_signed_angle` / `half_rotation` (angle.rs), `Hue::into_degrees` (hues.rs), the blanket
  colour-scheme impls of color_theory.rs and the blanket `Darken` / `Desaturate` impls of lib.rs (at `Self` = one implementing type per shape).
  Each theorem `tie_<name>` states for every `α` with `[Scalar α]` (hence bit-exactly at `Float`, `Float32`, and at `ℝ`) that the translated
  body is the generic model function the driver executes and `C10_Ops` / `C10_LawFree` reason about — `Ops.mixLin`, `mixHue (roles n h)`,
  `incValue spec`, `incAssign spec`, `hwbLighten lim`, `shiftHue h`, `addC`, `labComplementary ia ib`, … — **at the spec written in the
  statement**: which component is `increase`d between which accessors and which are `other`, where the hue sits, which fields are `$a`/`$b`.
  All proofs are `rfl` (definitional unfolding; no law of `+ - * / max clamp ceil ≤` is used), so a changed operand (`$get_max - c` →
  `c - $get_max`), comparison (`gt_eq` → `gt`), association, `max`/`min`, a component moved between `increase` and `other`, or an assigning
  form that drifts from its by-value form is a broken obligation naming macro and type, whatever the sampled run happens to hit.  The digest
  theorem `C10.macro_bodies` stays; these are stronger (they survive reformatting and relate the text to the model function).

  Shapes that differ between source and model (stated in the theorems):
    * the model works on the component list in struct order (`V3.toList`), with the role / `Inc` spec per component; the source on the struct;
    * `impl_lighten_hwb!`: the model takes whiteness and blackness and a record of the four limits; the hue is carried along;
    * `get_hue` returns the hue, the model's `getHue h` an `Option` (`some`);
    * `impl_mix!` is written with the colour's own `+ - *` (`impl_color_add!` etc.), which the translator reads as `Prim.v3Add`, …:
      `reading_add` … `reading_divS` prove that reading equal to the translated arithmetic bodies of the same type.

  NOT translated: header of Gen/BodiesOps.lean (`Luma`, partial CAM16 types, `Alpha` / `PreAlpha` / slice forwarding, saturating integer
  arithmetic, the per-type primitives).
-/
import PaletteModel.Gen.BodiesOps

namespace Tie
variable {α : Type} [Scalar α]

/-! ### angle / hue helpers the operator bodies go through -/
theorem tie_opsNormalizeSigned : @Gen.Body.opsNormalizeSigned α _ = Ops.normSigned := rfl
theorem tie_opsHalfRotation : (Gen.Body.opsHalfRotation : α) = Ops.halfRotation := rfl
-- `Hue::into_degrees` (`self.0.normalize_signed_angle()`): the helper inside `impl_mix_hue!`, unfolded in the `tie_mix…` proofs
theorem opsHueIntoDegrees_eq : @Gen.Body.opsHueIntoDegrees α _ = Ops.normSigned := rfl

/-! ### `Lab` (lab.rs): fields ['l', 'a', 'b'] -/
theorem tie_addLab (a b : V3 α) : (Gen.Body.addLab a b).toList = Ops.addC a.toList b.toList := rfl
theorem tie_addSLab (a : V3 α) (c : α) : (Gen.Body.addSLab a c).toList = Ops.addS a.toList c := rfl
theorem tie_addAssignLab (a b : V3 α) : (Gen.Body.addAssignLab a b).toList = Ops.addAssignC a.toList b.toList := rfl
theorem tie_addAssignSLab (a : V3 α) (c : α) : (Gen.Body.addAssignSLab a c).toList = Ops.addAssignS a.toList c := rfl
theorem tie_subLab (a b : V3 α) : (Gen.Body.subLab a b).toList = Ops.subC a.toList b.toList := rfl
theorem tie_subSLab (a : V3 α) (c : α) : (Gen.Body.subSLab a c).toList = Ops.subS a.toList c := rfl
theorem tie_subAssignLab (a b : V3 α) : (Gen.Body.subAssignLab a b).toList = Ops.subAssignC a.toList b.toList := rfl
theorem tie_subAssignSLab (a : V3 α) (c : α) : (Gen.Body.subAssignSLab a c).toList = Ops.subAssignS a.toList c := rfl
theorem tie_mulLab (a b : V3 α) : (Gen.Body.mulLab a b).toList = Ops.mulC a.toList b.toList := rfl
theorem tie_mulSLab (a : V3 α) (c : α) : (Gen.Body.mulSLab a c).toList = Ops.mulS a.toList c := rfl
theorem tie_mulAssignLab (a b : V3 α) : (Gen.Body.mulAssignLab a b).toList = Ops.mulAssignC a.toList b.toList := rfl
theorem tie_mulAssignSLab (a : V3 α) (c : α) : (Gen.Body.mulAssignSLab a c).toList = Ops.mulAssignS a.toList c := rfl
theorem tie_divLab (a b : V3 α) : (Gen.Body.divLab a b).toList = Ops.divC a.toList b.toList := rfl
theorem tie_divSLab (a : V3 α) (c : α) : (Gen.Body.divSLab a c).toList = Ops.divS a.toList c := rfl
theorem tie_divAssignLab (a b : V3 α) : (Gen.Body.divAssignLab a b).toList = Ops.divAssignC a.toList b.toList := rfl
theorem tie_divAssignSLab (a : V3 α) (c : α) : (Gen.Body.divAssignSLab a c).toList = Ops.divAssignS a.toList c := rfl
theorem tie_mixLab (a b : V3 α) (f : α) : (Gen.Body.mixLab a b f).toList = Ops.mixLin a.toList b.toList f := rfl
theorem tie_mixAssignLab (a b : V3 α) (f : α) : (Gen.Body.mixAssignLab a b f).toList = Ops.mixLinAssign a.toList b.toList f := rfl
theorem tie_lightenLab (c : V3 α) (f : α) :
    (Gen.Body.lightenLab c f).toList = Ops.incValue [.increase Gen.Body.limLabMinL Gen.Body.limLabMaxL, .other, .other] c.toList f := rfl
theorem tie_lightenFixedLab (c : V3 α) (f : α) :
    (Gen.Body.lightenFixedLab c f).toList = Ops.incFixedValue [.increase Gen.Body.limLabMinL Gen.Body.limLabMaxL, .other, .other] c.toList f := rfl
theorem tie_lightenAssignLab (c : V3 α) (f : α) :
    (Gen.Body.lightenAssignLab c f).toList = Ops.incAssign [.increase Gen.Body.limLabMinL Gen.Body.limLabMaxL, .other, .other] c.toList f := rfl
theorem tie_lightenFixedAssignLab (c : V3 α) (f : α) :
    (Gen.Body.lightenFixedAssignLab c f).toList = Ops.incFixedAssign [.increase Gen.Body.limLabMinL Gen.Body.limLabMaxL, .other, .other] c.toList f := rfl
theorem tie_complementaryLab (c : V3 α) : (Gen.Body.complementaryLab c).toList = Ops.labComplementary 1 2 c.toList := rfl
theorem tie_tetradicLab (c : V3 α) :
    ((Gen.Body.tetradicLab c).1.toList, (Gen.Body.tetradicLab c).2.1.toList, (Gen.Body.tetradicLab c).2.2.toList) = Ops.labTetradic 1 2 c.toList := rfl

/-! ### `Lch` (lch.rs): fields ['l', 'chroma', 'hue'], hue at 2 -/
theorem tie_addLch (a b : V3 α) : (Gen.Body.addLch a b).toList = Ops.addC a.toList b.toList := rfl
theorem tie_addSLch (a : V3 α) (c : α) : (Gen.Body.addSLch a c).toList = Ops.addS a.toList c := rfl
theorem tie_addAssignLch (a b : V3 α) : (Gen.Body.addAssignLch a b).toList = Ops.addAssignC a.toList b.toList := rfl
theorem tie_addAssignSLch (a : V3 α) (c : α) : (Gen.Body.addAssignSLch a c).toList = Ops.addAssignS a.toList c := rfl
theorem tie_subLch (a b : V3 α) : (Gen.Body.subLch a b).toList = Ops.subC a.toList b.toList := rfl
theorem tie_subSLch (a : V3 α) (c : α) : (Gen.Body.subSLch a c).toList = Ops.subS a.toList c := rfl
theorem tie_subAssignLch (a b : V3 α) : (Gen.Body.subAssignLch a b).toList = Ops.subAssignC a.toList b.toList := rfl
theorem tie_subAssignSLch (a : V3 α) (c : α) : (Gen.Body.subAssignSLch a c).toList = Ops.subAssignS a.toList c := rfl
theorem tie_mixLch (a b : V3 α) (f : α) : (Gen.Body.mixLch a b f).toList = Ops.mixHue (Ops.roles 3 2) a.toList b.toList f := rfl
theorem tie_mixAssignLch (a b : V3 α) (f : α) : (Gen.Body.mixAssignLch a b f).toList = Ops.mixHueAssign (Ops.roles 3 2) a.toList b.toList f := rfl
theorem tie_lightenLch (c : V3 α) (f : α) :
    (Gen.Body.lightenLch c f).toList = Ops.incValue [.increase Gen.Body.limLchMinL Gen.Body.limLchMaxL, .other, .other] c.toList f := rfl
theorem tie_lightenFixedLch (c : V3 α) (f : α) :
    (Gen.Body.lightenFixedLch c f).toList = Ops.incFixedValue [.increase Gen.Body.limLchMinL Gen.Body.limLchMaxL, .other, .other] c.toList f := rfl
theorem tie_lightenAssignLch (c : V3 α) (f : α) :
    (Gen.Body.lightenAssignLch c f).toList = Ops.incAssign [.increase Gen.Body.limLchMinL Gen.Body.limLchMaxL, .other, .other] c.toList f := rfl
theorem tie_lightenFixedAssignLch (c : V3 α) (f : α) :
    (Gen.Body.lightenFixedAssignLch c f).toList = Ops.incFixedAssign [.increase Gen.Body.limLchMinL Gen.Body.limLchMaxL, .other, .other] c.toList f := rfl
theorem tie_saturateLch (c : V3 α) (f : α) :
    (Gen.Body.saturateLch c f).toList = Ops.incValue [.other, .increase Gen.Body.limLchMinChroma Gen.Body.limLchMaxChroma, .other] c.toList f := rfl
theorem tie_saturateFixedLch (c : V3 α) (f : α) :
    (Gen.Body.saturateFixedLch c f).toList = Ops.incFixedValue [.other, .increase Gen.Body.limLchMinChroma Gen.Body.limLchMaxChroma, .other] c.toList f := rfl
theorem tie_saturateAssignLch (c : V3 α) (f : α) :
    (Gen.Body.saturateAssignLch c f).toList = Ops.incAssign [.other, .increase Gen.Body.limLchMinChroma Gen.Body.limLchMaxChroma, .other] c.toList f := rfl
theorem tie_saturateFixedAssignLch (c : V3 α) (f : α) :
    (Gen.Body.saturateFixedAssignLch c f).toList = Ops.incFixedAssign [.other, .increase Gen.Body.limLchMinChroma Gen.Body.limLchMaxChroma, .other] c.toList f := rfl
theorem tie_getHueLch (c : V3 α) : some (Gen.Body.getHueLch c) = Ops.getHue 2 c.toList := rfl
theorem tie_withHueLch (c : V3 α) (h : α) : (Gen.Body.withHueLch c h).toList = Ops.withHue 2 c.toList h := rfl
theorem tie_setHueLch (c : V3 α) (h : α) : (Gen.Body.setHueLch c h).toList = Ops.setHue 2 c.toList h := rfl
theorem tie_shiftHueLch (c : V3 α) (x : α) : (Gen.Body.shiftHueLch c x).toList = Ops.shiftHue 2 c.toList x := rfl
theorem tie_shiftHueAssignLch (c : V3 α) (x : α) : (Gen.Body.shiftHueAssignLch c x).toList = Ops.shiftHueAssign 2 c.toList x := rfl

/-! ### `Luv` (luv.rs): fields ['l', 'u', 'v'] -/
theorem tie_addLuv (a b : V3 α) : (Gen.Body.addLuv a b).toList = Ops.addC a.toList b.toList := rfl
theorem tie_addSLuv (a : V3 α) (c : α) : (Gen.Body.addSLuv a c).toList = Ops.addS a.toList c := rfl
theorem tie_addAssignLuv (a b : V3 α) : (Gen.Body.addAssignLuv a b).toList = Ops.addAssignC a.toList b.toList := rfl
theorem tie_addAssignSLuv (a : V3 α) (c : α) : (Gen.Body.addAssignSLuv a c).toList = Ops.addAssignS a.toList c := rfl
theorem tie_subLuv (a b : V3 α) : (Gen.Body.subLuv a b).toList = Ops.subC a.toList b.toList := rfl
theorem tie_subSLuv (a : V3 α) (c : α) : (Gen.Body.subSLuv a c).toList = Ops.subS a.toList c := rfl
theorem tie_subAssignLuv (a b : V3 α) : (Gen.Body.subAssignLuv a b).toList = Ops.subAssignC a.toList b.toList := rfl
theorem tie_subAssignSLuv (a : V3 α) (c : α) : (Gen.Body.subAssignSLuv a c).toList = Ops.subAssignS a.toList c := rfl
theorem tie_mulLuv (a b : V3 α) : (Gen.Body.mulLuv a b).toList = Ops.mulC a.toList b.toList := rfl
theorem tie_mulSLuv (a : V3 α) (c : α) : (Gen.Body.mulSLuv a c).toList = Ops.mulS a.toList c := rfl
theorem tie_mulAssignLuv (a b : V3 α) : (Gen.Body.mulAssignLuv a b).toList = Ops.mulAssignC a.toList b.toList := rfl
theorem tie_mulAssignSLuv (a : V3 α) (c : α) : (Gen.Body.mulAssignSLuv a c).toList = Ops.mulAssignS a.toList c := rfl
theorem tie_divLuv (a b : V3 α) : (Gen.Body.divLuv a b).toList = Ops.divC a.toList b.toList := rfl
theorem tie_divSLuv (a : V3 α) (c : α) : (Gen.Body.divSLuv a c).toList = Ops.divS a.toList c := rfl
theorem tie_divAssignLuv (a b : V3 α) : (Gen.Body.divAssignLuv a b).toList = Ops.divAssignC a.toList b.toList := rfl
theorem tie_divAssignSLuv (a : V3 α) (c : α) : (Gen.Body.divAssignSLuv a c).toList = Ops.divAssignS a.toList c := rfl
theorem tie_mixLuv (a b : V3 α) (f : α) : (Gen.Body.mixLuv a b f).toList = Ops.mixLin a.toList b.toList f := rfl
theorem tie_mixAssignLuv (a b : V3 α) (f : α) : (Gen.Body.mixAssignLuv a b f).toList = Ops.mixLinAssign a.toList b.toList f := rfl
theorem tie_lightenLuv (c : V3 α) (f : α) :
    (Gen.Body.lightenLuv c f).toList = Ops.incValue [.increase Gen.Body.limLuvMinL Gen.Body.limLuvMaxL, .other, .other] c.toList f := rfl
theorem tie_lightenFixedLuv (c : V3 α) (f : α) :
    (Gen.Body.lightenFixedLuv c f).toList = Ops.incFixedValue [.increase Gen.Body.limLuvMinL Gen.Body.limLuvMaxL, .other, .other] c.toList f := rfl
theorem tie_lightenAssignLuv (c : V3 α) (f : α) :
    (Gen.Body.lightenAssignLuv c f).toList = Ops.incAssign [.increase Gen.Body.limLuvMinL Gen.Body.limLuvMaxL, .other, .other] c.toList f := rfl
theorem tie_lightenFixedAssignLuv (c : V3 α) (f : α) :
    (Gen.Body.lightenFixedAssignLuv c f).toList = Ops.incFixedAssign [.increase Gen.Body.limLuvMinL Gen.Body.limLuvMaxL, .other, .other] c.toList f := rfl
theorem tie_complementaryLuv (c : V3 α) : (Gen.Body.complementaryLuv c).toList = Ops.labComplementary 1 2 c.toList := rfl
theorem tie_tetradicLuv (c : V3 α) :
    ((Gen.Body.tetradicLuv c).1.toList, (Gen.Body.tetradicLuv c).2.1.toList, (Gen.Body.tetradicLuv c).2.2.toList) = Ops.labTetradic 1 2 c.toList := rfl

/-! ### `Lchuv` (lchuv.rs): fields ['l', 'chroma', 'hue'], hue at 2 -/
theorem tie_addLchuv (a b : V3 α) : (Gen.Body.addLchuv a b).toList = Ops.addC a.toList b.toList := rfl
theorem tie_addSLchuv (a : V3 α) (c : α) : (Gen.Body.addSLchuv a c).toList = Ops.addS a.toList c := rfl
theorem tie_addAssignLchuv (a b : V3 α) : (Gen.Body.addAssignLchuv a b).toList = Ops.addAssignC a.toList b.toList := rfl
theorem tie_addAssignSLchuv (a : V3 α) (c : α) : (Gen.Body.addAssignSLchuv a c).toList = Ops.addAssignS a.toList c := rfl
theorem tie_subLchuv (a b : V3 α) : (Gen.Body.subLchuv a b).toList = Ops.subC a.toList b.toList := rfl
theorem tie_subSLchuv (a : V3 α) (c : α) : (Gen.Body.subSLchuv a c).toList = Ops.subS a.toList c := rfl
theorem tie_subAssignLchuv (a b : V3 α) : (Gen.Body.subAssignLchuv a b).toList = Ops.subAssignC a.toList b.toList := rfl
theorem tie_subAssignSLchuv (a : V3 α) (c : α) : (Gen.Body.subAssignSLchuv a c).toList = Ops.subAssignS a.toList c := rfl
theorem tie_mixLchuv (a b : V3 α) (f : α) : (Gen.Body.mixLchuv a b f).toList = Ops.mixHue (Ops.roles 3 2) a.toList b.toList f := rfl
theorem tie_mixAssignLchuv (a b : V3 α) (f : α) : (Gen.Body.mixAssignLchuv a b f).toList = Ops.mixHueAssign (Ops.roles 3 2) a.toList b.toList f := rfl
theorem tie_lightenLchuv (c : V3 α) (f : α) :
    (Gen.Body.lightenLchuv c f).toList = Ops.incValue [.increase Gen.Body.limLchuvMinL Gen.Body.limLchuvMaxL, .other, .other] c.toList f := rfl
theorem tie_lightenFixedLchuv (c : V3 α) (f : α) :
    (Gen.Body.lightenFixedLchuv c f).toList = Ops.incFixedValue [.increase Gen.Body.limLchuvMinL Gen.Body.limLchuvMaxL, .other, .other] c.toList f := rfl
theorem tie_lightenAssignLchuv (c : V3 α) (f : α) :
    (Gen.Body.lightenAssignLchuv c f).toList = Ops.incAssign [.increase Gen.Body.limLchuvMinL Gen.Body.limLchuvMaxL, .other, .other] c.toList f := rfl
theorem tie_lightenFixedAssignLchuv (c : V3 α) (f : α) :
    (Gen.Body.lightenFixedAssignLchuv c f).toList = Ops.incFixedAssign [.increase Gen.Body.limLchuvMinL Gen.Body.limLchuvMaxL, .other, .other] c.toList f := rfl
theorem tie_saturateLchuv (c : V3 α) (f : α) :
    (Gen.Body.saturateLchuv c f).toList = Ops.incValue [.other, .increase Gen.Body.limLchuvMinChroma Gen.Body.limLchuvMaxChroma, .other] c.toList f := rfl
theorem tie_saturateFixedLchuv (c : V3 α) (f : α) :
    (Gen.Body.saturateFixedLchuv c f).toList = Ops.incFixedValue [.other, .increase Gen.Body.limLchuvMinChroma Gen.Body.limLchuvMaxChroma, .other] c.toList f := rfl
theorem tie_saturateAssignLchuv (c : V3 α) (f : α) :
    (Gen.Body.saturateAssignLchuv c f).toList = Ops.incAssign [.other, .increase Gen.Body.limLchuvMinChroma Gen.Body.limLchuvMaxChroma, .other] c.toList f := rfl
theorem tie_saturateFixedAssignLchuv (c : V3 α) (f : α) :
    (Gen.Body.saturateFixedAssignLchuv c f).toList = Ops.incFixedAssign [.other, .increase Gen.Body.limLchuvMinChroma Gen.Body.limLchuvMaxChroma, .other] c.toList f := rfl
theorem tie_getHueLchuv (c : V3 α) : some (Gen.Body.getHueLchuv c) = Ops.getHue 2 c.toList := rfl
theorem tie_withHueLchuv (c : V3 α) (h : α) : (Gen.Body.withHueLchuv c h).toList = Ops.withHue 2 c.toList h := rfl
theorem tie_setHueLchuv (c : V3 α) (h : α) : (Gen.Body.setHueLchuv c h).toList = Ops.setHue 2 c.toList h := rfl
theorem tie_shiftHueLchuv (c : V3 α) (x : α) : (Gen.Body.shiftHueLchuv c x).toList = Ops.shiftHue 2 c.toList x := rfl
theorem tie_shiftHueAssignLchuv (c : V3 α) (x : α) : (Gen.Body.shiftHueAssignLchuv c x).toList = Ops.shiftHueAssign 2 c.toList x := rfl

/-! ### `Hsluv` (hsluv.rs): fields ['hue', 'saturation', 'l'], hue at 0 -/
theorem tie_addHsluv (a b : V3 α) : (Gen.Body.addHsluv a b).toList = Ops.addC a.toList b.toList := rfl
theorem tie_addSHsluv (a : V3 α) (c : α) : (Gen.Body.addSHsluv a c).toList = Ops.addS a.toList c := rfl
theorem tie_addAssignHsluv (a b : V3 α) : (Gen.Body.addAssignHsluv a b).toList = Ops.addAssignC a.toList b.toList := rfl
theorem tie_addAssignSHsluv (a : V3 α) (c : α) : (Gen.Body.addAssignSHsluv a c).toList = Ops.addAssignS a.toList c := rfl
theorem tie_subHsluv (a b : V3 α) : (Gen.Body.subHsluv a b).toList = Ops.subC a.toList b.toList := rfl
theorem tie_subSHsluv (a : V3 α) (c : α) : (Gen.Body.subSHsluv a c).toList = Ops.subS a.toList c := rfl
theorem tie_subAssignHsluv (a b : V3 α) : (Gen.Body.subAssignHsluv a b).toList = Ops.subAssignC a.toList b.toList := rfl
theorem tie_subAssignSHsluv (a : V3 α) (c : α) : (Gen.Body.subAssignSHsluv a c).toList = Ops.subAssignS a.toList c := rfl
theorem tie_mixHsluv (a b : V3 α) (f : α) : (Gen.Body.mixHsluv a b f).toList = Ops.mixHue (Ops.roles 3 0) a.toList b.toList f := rfl
theorem tie_mixAssignHsluv (a b : V3 α) (f : α) : (Gen.Body.mixAssignHsluv a b f).toList = Ops.mixHueAssign (Ops.roles 3 0) a.toList b.toList f := rfl
theorem tie_lightenHsluv (c : V3 α) (f : α) :
    (Gen.Body.lightenHsluv c f).toList = Ops.incValue [.other, .other, .increase Gen.Body.limHsluvMinL Gen.Body.limHsluvMaxL] c.toList f := rfl
theorem tie_lightenFixedHsluv (c : V3 α) (f : α) :
    (Gen.Body.lightenFixedHsluv c f).toList = Ops.incFixedValue [.other, .other, .increase Gen.Body.limHsluvMinL Gen.Body.limHsluvMaxL] c.toList f := rfl
theorem tie_lightenAssignHsluv (c : V3 α) (f : α) :
    (Gen.Body.lightenAssignHsluv c f).toList = Ops.incAssign [.other, .other, .increase Gen.Body.limHsluvMinL Gen.Body.limHsluvMaxL] c.toList f := rfl
theorem tie_lightenFixedAssignHsluv (c : V3 α) (f : α) :
    (Gen.Body.lightenFixedAssignHsluv c f).toList = Ops.incFixedAssign [.other, .other, .increase Gen.Body.limHsluvMinL Gen.Body.limHsluvMaxL] c.toList f := rfl
theorem tie_saturateHsluv (c : V3 α) (f : α) :
    (Gen.Body.saturateHsluv c f).toList = Ops.incValue [.other, .increase Gen.Body.limHsluvMinSaturation Gen.Body.limHsluvMaxSaturation, .other] c.toList f := rfl
theorem tie_saturateFixedHsluv (c : V3 α) (f : α) :
    (Gen.Body.saturateFixedHsluv c f).toList = Ops.incFixedValue [.other, .increase Gen.Body.limHsluvMinSaturation Gen.Body.limHsluvMaxSaturation, .other] c.toList f := rfl
theorem tie_saturateAssignHsluv (c : V3 α) (f : α) :
    (Gen.Body.saturateAssignHsluv c f).toList = Ops.incAssign [.other, .increase Gen.Body.limHsluvMinSaturation Gen.Body.limHsluvMaxSaturation, .other] c.toList f := rfl
theorem tie_saturateFixedAssignHsluv (c : V3 α) (f : α) :
    (Gen.Body.saturateFixedAssignHsluv c f).toList = Ops.incFixedAssign [.other, .increase Gen.Body.limHsluvMinSaturation Gen.Body.limHsluvMaxSaturation, .other] c.toList f := rfl
theorem tie_getHueHsluv (c : V3 α) : some (Gen.Body.getHueHsluv c) = Ops.getHue 0 c.toList := rfl
theorem tie_withHueHsluv (c : V3 α) (h : α) : (Gen.Body.withHueHsluv c h).toList = Ops.withHue 0 c.toList h := rfl
theorem tie_setHueHsluv (c : V3 α) (h : α) : (Gen.Body.setHueHsluv c h).toList = Ops.setHue 0 c.toList h := rfl
theorem tie_shiftHueHsluv (c : V3 α) (x : α) : (Gen.Body.shiftHueHsluv c x).toList = Ops.shiftHue 0 c.toList x := rfl
theorem tie_shiftHueAssignHsluv (c : V3 α) (x : α) : (Gen.Body.shiftHueAssignHsluv c x).toList = Ops.shiftHueAssign 0 c.toList x := rfl

/-! ### `Hsv` (hsv.rs): fields ['hue', 'saturation', 'value'], hue at 0 -/
theorem tie_addHsv (a b : V3 α) : (Gen.Body.addHsv a b).toList = Ops.addC a.toList b.toList := rfl
theorem tie_addSHsv (a : V3 α) (c : α) : (Gen.Body.addSHsv a c).toList = Ops.addS a.toList c := rfl
theorem tie_addAssignHsv (a b : V3 α) : (Gen.Body.addAssignHsv a b).toList = Ops.addAssignC a.toList b.toList := rfl
theorem tie_addAssignSHsv (a : V3 α) (c : α) : (Gen.Body.addAssignSHsv a c).toList = Ops.addAssignS a.toList c := rfl
theorem tie_subHsv (a b : V3 α) : (Gen.Body.subHsv a b).toList = Ops.subC a.toList b.toList := rfl
theorem tie_subSHsv (a : V3 α) (c : α) : (Gen.Body.subSHsv a c).toList = Ops.subS a.toList c := rfl
theorem tie_subAssignHsv (a b : V3 α) : (Gen.Body.subAssignHsv a b).toList = Ops.subAssignC a.toList b.toList := rfl
theorem tie_subAssignSHsv (a : V3 α) (c : α) : (Gen.Body.subAssignSHsv a c).toList = Ops.subAssignS a.toList c := rfl
theorem tie_mixHsv (a b : V3 α) (f : α) : (Gen.Body.mixHsv a b f).toList = Ops.mixHue (Ops.roles 3 0) a.toList b.toList f := rfl
theorem tie_mixAssignHsv (a b : V3 α) (f : α) : (Gen.Body.mixAssignHsv a b f).toList = Ops.mixHueAssign (Ops.roles 3 0) a.toList b.toList f := rfl
theorem tie_lightenHsv (c : V3 α) (f : α) :
    (Gen.Body.lightenHsv c f).toList = Ops.incValue [.other, .other, .increase Gen.Body.limHsvMinValue Gen.Body.limHsvMaxValue] c.toList f := rfl
theorem tie_lightenFixedHsv (c : V3 α) (f : α) :
    (Gen.Body.lightenFixedHsv c f).toList = Ops.incFixedValue [.other, .other, .increase Gen.Body.limHsvMinValue Gen.Body.limHsvMaxValue] c.toList f := rfl
theorem tie_lightenAssignHsv (c : V3 α) (f : α) :
    (Gen.Body.lightenAssignHsv c f).toList = Ops.incAssign [.other, .other, .increase Gen.Body.limHsvMinValue Gen.Body.limHsvMaxValue] c.toList f := rfl
theorem tie_lightenFixedAssignHsv (c : V3 α) (f : α) :
    (Gen.Body.lightenFixedAssignHsv c f).toList = Ops.incFixedAssign [.other, .other, .increase Gen.Body.limHsvMinValue Gen.Body.limHsvMaxValue] c.toList f := rfl
theorem tie_saturateHsv (c : V3 α) (f : α) :
    (Gen.Body.saturateHsv c f).toList = Ops.incValue [.other, .increase Gen.Body.limHsvMinSaturation Gen.Body.limHsvMaxSaturation, .other] c.toList f := rfl
theorem tie_saturateFixedHsv (c : V3 α) (f : α) :
    (Gen.Body.saturateFixedHsv c f).toList = Ops.incFixedValue [.other, .increase Gen.Body.limHsvMinSaturation Gen.Body.limHsvMaxSaturation, .other] c.toList f := rfl
theorem tie_saturateAssignHsv (c : V3 α) (f : α) :
    (Gen.Body.saturateAssignHsv c f).toList = Ops.incAssign [.other, .increase Gen.Body.limHsvMinSaturation Gen.Body.limHsvMaxSaturation, .other] c.toList f := rfl
theorem tie_saturateFixedAssignHsv (c : V3 α) (f : α) :
    (Gen.Body.saturateFixedAssignHsv c f).toList = Ops.incFixedAssign [.other, .increase Gen.Body.limHsvMinSaturation Gen.Body.limHsvMaxSaturation, .other] c.toList f := rfl
theorem tie_getHueHsv (c : V3 α) : some (Gen.Body.getHueHsv c) = Ops.getHue 0 c.toList := rfl
theorem tie_withHueHsv (c : V3 α) (h : α) : (Gen.Body.withHueHsv c h).toList = Ops.withHue 0 c.toList h := rfl
theorem tie_setHueHsv (c : V3 α) (h : α) : (Gen.Body.setHueHsv c h).toList = Ops.setHue 0 c.toList h := rfl
theorem tie_shiftHueHsv (c : V3 α) (x : α) : (Gen.Body.shiftHueHsv c x).toList = Ops.shiftHue 0 c.toList x := rfl
theorem tie_shiftHueAssignHsv (c : V3 α) (x : α) : (Gen.Body.shiftHueAssignHsv c x).toList = Ops.shiftHueAssign 0 c.toList x := rfl

/-! ### `Hsl` (hsl.rs): fields ['hue', 'saturation', 'lightness'], hue at 0 -/
theorem tie_addHsl (a b : V3 α) : (Gen.Body.addHsl a b).toList = Ops.addC a.toList b.toList := rfl
theorem tie_addSHsl (a : V3 α) (c : α) : (Gen.Body.addSHsl a c).toList = Ops.addS a.toList c := rfl
theorem tie_addAssignHsl (a b : V3 α) : (Gen.Body.addAssignHsl a b).toList = Ops.addAssignC a.toList b.toList := rfl
theorem tie_addAssignSHsl (a : V3 α) (c : α) : (Gen.Body.addAssignSHsl a c).toList = Ops.addAssignS a.toList c := rfl
theorem tie_subHsl (a b : V3 α) : (Gen.Body.subHsl a b).toList = Ops.subC a.toList b.toList := rfl
theorem tie_subSHsl (a : V3 α) (c : α) : (Gen.Body.subSHsl a c).toList = Ops.subS a.toList c := rfl
theorem tie_subAssignHsl (a b : V3 α) : (Gen.Body.subAssignHsl a b).toList = Ops.subAssignC a.toList b.toList := rfl
theorem tie_subAssignSHsl (a : V3 α) (c : α) : (Gen.Body.subAssignSHsl a c).toList = Ops.subAssignS a.toList c := rfl
theorem tie_mixHsl (a b : V3 α) (f : α) : (Gen.Body.mixHsl a b f).toList = Ops.mixHue (Ops.roles 3 0) a.toList b.toList f := rfl
theorem tie_mixAssignHsl (a b : V3 α) (f : α) : (Gen.Body.mixAssignHsl a b f).toList = Ops.mixHueAssign (Ops.roles 3 0) a.toList b.toList f := rfl
theorem tie_lightenHsl (c : V3 α) (f : α) :
    (Gen.Body.lightenHsl c f).toList = Ops.incValue [.other, .other, .increase Gen.Body.limHslMinLightness Gen.Body.limHslMaxLightness] c.toList f := rfl
theorem tie_lightenFixedHsl (c : V3 α) (f : α) :
    (Gen.Body.lightenFixedHsl c f).toList = Ops.incFixedValue [.other, .other, .increase Gen.Body.limHslMinLightness Gen.Body.limHslMaxLightness] c.toList f := rfl
theorem tie_lightenAssignHsl (c : V3 α) (f : α) :
    (Gen.Body.lightenAssignHsl c f).toList = Ops.incAssign [.other, .other, .increase Gen.Body.limHslMinLightness Gen.Body.limHslMaxLightness] c.toList f := rfl
theorem tie_lightenFixedAssignHsl (c : V3 α) (f : α) :
    (Gen.Body.lightenFixedAssignHsl c f).toList = Ops.incFixedAssign [.other, .other, .increase Gen.Body.limHslMinLightness Gen.Body.limHslMaxLightness] c.toList f := rfl
theorem tie_saturateHsl (c : V3 α) (f : α) :
    (Gen.Body.saturateHsl c f).toList = Ops.incValue [.other, .increase Gen.Body.limHslMinSaturation Gen.Body.limHslMaxSaturation, .other] c.toList f := rfl
theorem tie_saturateFixedHsl (c : V3 α) (f : α) :
    (Gen.Body.saturateFixedHsl c f).toList = Ops.incFixedValue [.other, .increase Gen.Body.limHslMinSaturation Gen.Body.limHslMaxSaturation, .other] c.toList f := rfl
theorem tie_saturateAssignHsl (c : V3 α) (f : α) :
    (Gen.Body.saturateAssignHsl c f).toList = Ops.incAssign [.other, .increase Gen.Body.limHslMinSaturation Gen.Body.limHslMaxSaturation, .other] c.toList f := rfl
theorem tie_saturateFixedAssignHsl (c : V3 α) (f : α) :
    (Gen.Body.saturateFixedAssignHsl c f).toList = Ops.incFixedAssign [.other, .increase Gen.Body.limHslMinSaturation Gen.Body.limHslMaxSaturation, .other] c.toList f := rfl
theorem tie_getHueHsl (c : V3 α) : some (Gen.Body.getHueHsl c) = Ops.getHue 0 c.toList := rfl
theorem tie_withHueHsl (c : V3 α) (h : α) : (Gen.Body.withHueHsl c h).toList = Ops.withHue 0 c.toList h := rfl
theorem tie_setHueHsl (c : V3 α) (h : α) : (Gen.Body.setHueHsl c h).toList = Ops.setHue 0 c.toList h := rfl
theorem tie_shiftHueHsl (c : V3 α) (x : α) : (Gen.Body.shiftHueHsl c x).toList = Ops.shiftHue 0 c.toList x := rfl
theorem tie_shiftHueAssignHsl (c : V3 α) (x : α) : (Gen.Body.shiftHueAssignHsl c x).toList = Ops.shiftHueAssign 0 c.toList x := rfl

/-! ### `Hwb` (hwb.rs): fields ['hue', 'whiteness', 'blackness'], hue at 0 -/
theorem tie_addHwb (a b : V3 α) : (Gen.Body.addHwb a b).toList = Ops.addC a.toList b.toList := rfl
theorem tie_addSHwb (a : V3 α) (c : α) : (Gen.Body.addSHwb a c).toList = Ops.addS a.toList c := rfl
theorem tie_addAssignHwb (a b : V3 α) : (Gen.Body.addAssignHwb a b).toList = Ops.addAssignC a.toList b.toList := rfl
theorem tie_addAssignSHwb (a : V3 α) (c : α) : (Gen.Body.addAssignSHwb a c).toList = Ops.addAssignS a.toList c := rfl
theorem tie_subHwb (a b : V3 α) : (Gen.Body.subHwb a b).toList = Ops.subC a.toList b.toList := rfl
theorem tie_subSHwb (a : V3 α) (c : α) : (Gen.Body.subSHwb a c).toList = Ops.subS a.toList c := rfl
theorem tie_subAssignHwb (a b : V3 α) : (Gen.Body.subAssignHwb a b).toList = Ops.subAssignC a.toList b.toList := rfl
theorem tie_subAssignSHwb (a : V3 α) (c : α) : (Gen.Body.subAssignSHwb a c).toList = Ops.subAssignS a.toList c := rfl
theorem tie_mixHwb (a b : V3 α) (f : α) : (Gen.Body.mixHwb a b f).toList = Ops.mixHue (Ops.roles 3 0) a.toList b.toList f := rfl
theorem tie_mixAssignHwb (a b : V3 α) (f : α) : (Gen.Body.mixAssignHwb a b f).toList = Ops.mixHueAssign (Ops.roles 3 0) a.toList b.toList f := rfl
theorem tie_lightenHwb (c : V3 α) (f : α) :
    Gen.Body.lightenHwb c f = ⟨c.c0, (Ops.hwbLighten ⟨Gen.Body.limHwbMinWhiteness, Gen.Body.limHwbMaxWhiteness, Gen.Body.limHwbMinBlackness, Gen.Body.limHwbMaxBlackness⟩ c.c1 c.c2 f).1, (Ops.hwbLighten ⟨Gen.Body.limHwbMinWhiteness, Gen.Body.limHwbMaxWhiteness, Gen.Body.limHwbMinBlackness, Gen.Body.limHwbMaxBlackness⟩ c.c1 c.c2 f).2⟩ := rfl
theorem tie_lightenFixedHwb (c : V3 α) (f : α) :
    Gen.Body.lightenFixedHwb c f = ⟨c.c0, (Ops.hwbLightenFixed ⟨Gen.Body.limHwbMinWhiteness, Gen.Body.limHwbMaxWhiteness, Gen.Body.limHwbMinBlackness, Gen.Body.limHwbMaxBlackness⟩ c.c1 c.c2 f).1, (Ops.hwbLightenFixed ⟨Gen.Body.limHwbMinWhiteness, Gen.Body.limHwbMaxWhiteness, Gen.Body.limHwbMinBlackness, Gen.Body.limHwbMaxBlackness⟩ c.c1 c.c2 f).2⟩ := rfl
theorem tie_lightenAssignHwb (c : V3 α) (f : α) :
    Gen.Body.lightenAssignHwb c f = ⟨c.c0, (Ops.hwbLightenAssign ⟨Gen.Body.limHwbMinWhiteness, Gen.Body.limHwbMaxWhiteness, Gen.Body.limHwbMinBlackness, Gen.Body.limHwbMaxBlackness⟩ c.c1 c.c2 f).1, (Ops.hwbLightenAssign ⟨Gen.Body.limHwbMinWhiteness, Gen.Body.limHwbMaxWhiteness, Gen.Body.limHwbMinBlackness, Gen.Body.limHwbMaxBlackness⟩ c.c1 c.c2 f).2⟩ := rfl
theorem tie_lightenFixedAssignHwb (c : V3 α) (f : α) :
    Gen.Body.lightenFixedAssignHwb c f = ⟨c.c0, (Ops.hwbLightenFixedAssign ⟨Gen.Body.limHwbMinWhiteness, Gen.Body.limHwbMaxWhiteness, Gen.Body.limHwbMinBlackness, Gen.Body.limHwbMaxBlackness⟩ c.c1 c.c2 f).1, (Ops.hwbLightenFixedAssign ⟨Gen.Body.limHwbMinWhiteness, Gen.Body.limHwbMaxWhiteness, Gen.Body.limHwbMinBlackness, Gen.Body.limHwbMaxBlackness⟩ c.c1 c.c2 f).2⟩ := rfl
theorem tie_getHueHwb (c : V3 α) : some (Gen.Body.getHueHwb c) = Ops.getHue 0 c.toList := rfl
theorem tie_withHueHwb (c : V3 α) (h : α) : (Gen.Body.withHueHwb c h).toList = Ops.withHue 0 c.toList h := rfl
theorem tie_setHueHwb (c : V3 α) (h : α) : (Gen.Body.setHueHwb c h).toList = Ops.setHue 0 c.toList h := rfl
theorem tie_shiftHueHwb (c : V3 α) (x : α) : (Gen.Body.shiftHueHwb c x).toList = Ops.shiftHue 0 c.toList x := rfl
theorem tie_shiftHueAssignHwb (c : V3 α) (x : α) : (Gen.Body.shiftHueAssignHwb c x).toList = Ops.shiftHueAssign 0 c.toList x := rfl

/-! ### `Rgb` (rgb/rgb.rs): fields ['red', 'green', 'blue'] -/
theorem tie_addRgb (a b : V3 α) : (Gen.Body.addRgb a b).toList = Ops.addC a.toList b.toList := rfl
theorem tie_addSRgb (a : V3 α) (c : α) : (Gen.Body.addSRgb a c).toList = Ops.addS a.toList c := rfl
theorem tie_addAssignRgb (a b : V3 α) : (Gen.Body.addAssignRgb a b).toList = Ops.addAssignC a.toList b.toList := rfl
theorem tie_addAssignSRgb (a : V3 α) (c : α) : (Gen.Body.addAssignSRgb a c).toList = Ops.addAssignS a.toList c := rfl
theorem tie_subRgb (a b : V3 α) : (Gen.Body.subRgb a b).toList = Ops.subC a.toList b.toList := rfl
theorem tie_subSRgb (a : V3 α) (c : α) : (Gen.Body.subSRgb a c).toList = Ops.subS a.toList c := rfl
theorem tie_subAssignRgb (a b : V3 α) : (Gen.Body.subAssignRgb a b).toList = Ops.subAssignC a.toList b.toList := rfl
theorem tie_subAssignSRgb (a : V3 α) (c : α) : (Gen.Body.subAssignSRgb a c).toList = Ops.subAssignS a.toList c := rfl
theorem tie_mulRgb (a b : V3 α) : (Gen.Body.mulRgb a b).toList = Ops.mulC a.toList b.toList := rfl
theorem tie_mulSRgb (a : V3 α) (c : α) : (Gen.Body.mulSRgb a c).toList = Ops.mulS a.toList c := rfl
theorem tie_mulAssignRgb (a b : V3 α) : (Gen.Body.mulAssignRgb a b).toList = Ops.mulAssignC a.toList b.toList := rfl
theorem tie_mulAssignSRgb (a : V3 α) (c : α) : (Gen.Body.mulAssignSRgb a c).toList = Ops.mulAssignS a.toList c := rfl
theorem tie_divRgb (a b : V3 α) : (Gen.Body.divRgb a b).toList = Ops.divC a.toList b.toList := rfl
theorem tie_divSRgb (a : V3 α) (c : α) : (Gen.Body.divSRgb a c).toList = Ops.divS a.toList c := rfl
theorem tie_divAssignRgb (a b : V3 α) : (Gen.Body.divAssignRgb a b).toList = Ops.divAssignC a.toList b.toList := rfl
theorem tie_divAssignSRgb (a : V3 α) (c : α) : (Gen.Body.divAssignSRgb a c).toList = Ops.divAssignS a.toList c := rfl
theorem tie_mixRgb (a b : V3 α) (f : α) : (Gen.Body.mixRgb a b f).toList = Ops.mixLin a.toList b.toList f := rfl
theorem tie_mixAssignRgb (a b : V3 α) (f : α) : (Gen.Body.mixAssignRgb a b f).toList = Ops.mixLinAssign a.toList b.toList f := rfl
theorem tie_lightenRgb (c : V3 α) (f : α) :
    (Gen.Body.lightenRgb c f).toList = Ops.incValue [.increase Gen.Body.limRgbMinRed Gen.Body.limRgbMaxRed, .increase Gen.Body.limRgbMinGreen Gen.Body.limRgbMaxGreen, .increase Gen.Body.limRgbMinBlue Gen.Body.limRgbMaxBlue] c.toList f := rfl
theorem tie_lightenFixedRgb (c : V3 α) (f : α) :
    (Gen.Body.lightenFixedRgb c f).toList = Ops.incFixedValue [.increase Gen.Body.limRgbMinRed Gen.Body.limRgbMaxRed, .increase Gen.Body.limRgbMinGreen Gen.Body.limRgbMaxGreen, .increase Gen.Body.limRgbMinBlue Gen.Body.limRgbMaxBlue] c.toList f := rfl
theorem tie_lightenAssignRgb (c : V3 α) (f : α) :
    (Gen.Body.lightenAssignRgb c f).toList = Ops.incAssign [.increase Gen.Body.limRgbMinRed Gen.Body.limRgbMaxRed, .increase Gen.Body.limRgbMinGreen Gen.Body.limRgbMaxGreen, .increase Gen.Body.limRgbMinBlue Gen.Body.limRgbMaxBlue] c.toList f := rfl
theorem tie_lightenFixedAssignRgb (c : V3 α) (f : α) :
    (Gen.Body.lightenFixedAssignRgb c f).toList = Ops.incFixedAssign [.increase Gen.Body.limRgbMinRed Gen.Body.limRgbMaxRed, .increase Gen.Body.limRgbMinGreen Gen.Body.limRgbMaxGreen, .increase Gen.Body.limRgbMinBlue Gen.Body.limRgbMaxBlue] c.toList f := rfl

/-! ### `Xyz` (xyz.rs): fields ['x', 'y', 'z'] -/
theorem tie_addXyz (a b : V3 α) : (Gen.Body.addXyz a b).toList = Ops.addC a.toList b.toList := rfl
theorem tie_addSXyz (a : V3 α) (c : α) : (Gen.Body.addSXyz a c).toList = Ops.addS a.toList c := rfl
theorem tie_addAssignXyz (a b : V3 α) : (Gen.Body.addAssignXyz a b).toList = Ops.addAssignC a.toList b.toList := rfl
theorem tie_addAssignSXyz (a : V3 α) (c : α) : (Gen.Body.addAssignSXyz a c).toList = Ops.addAssignS a.toList c := rfl
theorem tie_subXyz (a b : V3 α) : (Gen.Body.subXyz a b).toList = Ops.subC a.toList b.toList := rfl
theorem tie_subSXyz (a : V3 α) (c : α) : (Gen.Body.subSXyz a c).toList = Ops.subS a.toList c := rfl
theorem tie_subAssignXyz (a b : V3 α) : (Gen.Body.subAssignXyz a b).toList = Ops.subAssignC a.toList b.toList := rfl
theorem tie_subAssignSXyz (a : V3 α) (c : α) : (Gen.Body.subAssignSXyz a c).toList = Ops.subAssignS a.toList c := rfl
theorem tie_mulXyz (a b : V3 α) : (Gen.Body.mulXyz a b).toList = Ops.mulC a.toList b.toList := rfl
theorem tie_mulSXyz (a : V3 α) (c : α) : (Gen.Body.mulSXyz a c).toList = Ops.mulS a.toList c := rfl
theorem tie_mulAssignXyz (a b : V3 α) : (Gen.Body.mulAssignXyz a b).toList = Ops.mulAssignC a.toList b.toList := rfl
theorem tie_mulAssignSXyz (a : V3 α) (c : α) : (Gen.Body.mulAssignSXyz a c).toList = Ops.mulAssignS a.toList c := rfl
theorem tie_divXyz (a b : V3 α) : (Gen.Body.divXyz a b).toList = Ops.divC a.toList b.toList := rfl
theorem tie_divSXyz (a : V3 α) (c : α) : (Gen.Body.divSXyz a c).toList = Ops.divS a.toList c := rfl
theorem tie_divAssignXyz (a b : V3 α) : (Gen.Body.divAssignXyz a b).toList = Ops.divAssignC a.toList b.toList := rfl
theorem tie_divAssignSXyz (a : V3 α) (c : α) : (Gen.Body.divAssignSXyz a c).toList = Ops.divAssignS a.toList c := rfl
theorem tie_mixXyz (a b : V3 α) (f : α) : (Gen.Body.mixXyz a b f).toList = Ops.mixLin a.toList b.toList f := rfl
theorem tie_mixAssignXyz (a b : V3 α) (f : α) : (Gen.Body.mixAssignXyz a b f).toList = Ops.mixLinAssign a.toList b.toList f := rfl
theorem tie_lightenXyz (wp : V3 α) (c : V3 α) (f : α) :
    (Gen.Body.lightenXyz wp c f).toList = Ops.incValue [.increase Gen.Body.limXyzMinX (Gen.Body.limXyzMaxX wp), .increase Gen.Body.limXyzMinY (Gen.Body.limXyzMaxY wp), .increase Gen.Body.limXyzMinZ (Gen.Body.limXyzMaxZ wp)] c.toList f := rfl
theorem tie_lightenFixedXyz (wp : V3 α) (c : V3 α) (f : α) :
    (Gen.Body.lightenFixedXyz wp c f).toList = Ops.incFixedValue [.increase Gen.Body.limXyzMinX (Gen.Body.limXyzMaxX wp), .increase Gen.Body.limXyzMinY (Gen.Body.limXyzMaxY wp), .increase Gen.Body.limXyzMinZ (Gen.Body.limXyzMaxZ wp)] c.toList f := rfl
theorem tie_lightenAssignXyz (wp : V3 α) (c : V3 α) (f : α) :
    (Gen.Body.lightenAssignXyz wp c f).toList = Ops.incAssign [.increase Gen.Body.limXyzMinX (Gen.Body.limXyzMaxX wp), .increase Gen.Body.limXyzMinY (Gen.Body.limXyzMaxY wp), .increase Gen.Body.limXyzMinZ (Gen.Body.limXyzMaxZ wp)] c.toList f := rfl
theorem tie_lightenFixedAssignXyz (wp : V3 α) (c : V3 α) (f : α) :
    (Gen.Body.lightenFixedAssignXyz wp c f).toList = Ops.incFixedAssign [.increase Gen.Body.limXyzMinX (Gen.Body.limXyzMaxX wp), .increase Gen.Body.limXyzMinY (Gen.Body.limXyzMaxY wp), .increase Gen.Body.limXyzMinZ (Gen.Body.limXyzMaxZ wp)] c.toList f := rfl

/-! ### `Yxy` (yxy.rs): fields ['x', 'y', 'luma'] -/
theorem tie_addYxy (a b : V3 α) : (Gen.Body.addYxy a b).toList = Ops.addC a.toList b.toList := rfl
theorem tie_addSYxy (a : V3 α) (c : α) : (Gen.Body.addSYxy a c).toList = Ops.addS a.toList c := rfl
theorem tie_addAssignYxy (a b : V3 α) : (Gen.Body.addAssignYxy a b).toList = Ops.addAssignC a.toList b.toList := rfl
theorem tie_addAssignSYxy (a : V3 α) (c : α) : (Gen.Body.addAssignSYxy a c).toList = Ops.addAssignS a.toList c := rfl
theorem tie_subYxy (a b : V3 α) : (Gen.Body.subYxy a b).toList = Ops.subC a.toList b.toList := rfl
theorem tie_subSYxy (a : V3 α) (c : α) : (Gen.Body.subSYxy a c).toList = Ops.subS a.toList c := rfl
theorem tie_subAssignYxy (a b : V3 α) : (Gen.Body.subAssignYxy a b).toList = Ops.subAssignC a.toList b.toList := rfl
theorem tie_subAssignSYxy (a : V3 α) (c : α) : (Gen.Body.subAssignSYxy a c).toList = Ops.subAssignS a.toList c := rfl
theorem tie_mulYxy (a b : V3 α) : (Gen.Body.mulYxy a b).toList = Ops.mulC a.toList b.toList := rfl
theorem tie_mulSYxy (a : V3 α) (c : α) : (Gen.Body.mulSYxy a c).toList = Ops.mulS a.toList c := rfl
theorem tie_mulAssignYxy (a b : V3 α) : (Gen.Body.mulAssignYxy a b).toList = Ops.mulAssignC a.toList b.toList := rfl
theorem tie_mulAssignSYxy (a : V3 α) (c : α) : (Gen.Body.mulAssignSYxy a c).toList = Ops.mulAssignS a.toList c := rfl
theorem tie_divYxy (a b : V3 α) : (Gen.Body.divYxy a b).toList = Ops.divC a.toList b.toList := rfl
theorem tie_divSYxy (a : V3 α) (c : α) : (Gen.Body.divSYxy a c).toList = Ops.divS a.toList c := rfl
theorem tie_divAssignYxy (a b : V3 α) : (Gen.Body.divAssignYxy a b).toList = Ops.divAssignC a.toList b.toList := rfl
theorem tie_divAssignSYxy (a : V3 α) (c : α) : (Gen.Body.divAssignSYxy a c).toList = Ops.divAssignS a.toList c := rfl
theorem tie_mixYxy (a b : V3 α) (f : α) : (Gen.Body.mixYxy a b f).toList = Ops.mixLin a.toList b.toList f := rfl
theorem tie_mixAssignYxy (a b : V3 α) (f : α) : (Gen.Body.mixAssignYxy a b f).toList = Ops.mixLinAssign a.toList b.toList f := rfl
theorem tie_lightenYxy (c : V3 α) (f : α) :
    (Gen.Body.lightenYxy c f).toList = Ops.incValue [.other, .other, .increase Gen.Body.limYxyMinLuma Gen.Body.limYxyMaxLuma] c.toList f := rfl
theorem tie_lightenFixedYxy (c : V3 α) (f : α) :
    (Gen.Body.lightenFixedYxy c f).toList = Ops.incFixedValue [.other, .other, .increase Gen.Body.limYxyMinLuma Gen.Body.limYxyMaxLuma] c.toList f := rfl
theorem tie_lightenAssignYxy (c : V3 α) (f : α) :
    (Gen.Body.lightenAssignYxy c f).toList = Ops.incAssign [.other, .other, .increase Gen.Body.limYxyMinLuma Gen.Body.limYxyMaxLuma] c.toList f := rfl
theorem tie_lightenFixedAssignYxy (c : V3 α) (f : α) :
    (Gen.Body.lightenFixedAssignYxy c f).toList = Ops.incFixedAssign [.other, .other, .increase Gen.Body.limYxyMinLuma Gen.Body.limYxyMaxLuma] c.toList f := rfl

/-! ### `Lms` (lms/lms.rs): fields ['long', 'medium', 'short'] -/
theorem tie_addLms (a b : V3 α) : (Gen.Body.addLms a b).toList = Ops.addC a.toList b.toList := rfl
theorem tie_addSLms (a : V3 α) (c : α) : (Gen.Body.addSLms a c).toList = Ops.addS a.toList c := rfl
theorem tie_addAssignLms (a b : V3 α) : (Gen.Body.addAssignLms a b).toList = Ops.addAssignC a.toList b.toList := rfl
theorem tie_addAssignSLms (a : V3 α) (c : α) : (Gen.Body.addAssignSLms a c).toList = Ops.addAssignS a.toList c := rfl
theorem tie_subLms (a b : V3 α) : (Gen.Body.subLms a b).toList = Ops.subC a.toList b.toList := rfl
theorem tie_subSLms (a : V3 α) (c : α) : (Gen.Body.subSLms a c).toList = Ops.subS a.toList c := rfl
theorem tie_subAssignLms (a b : V3 α) : (Gen.Body.subAssignLms a b).toList = Ops.subAssignC a.toList b.toList := rfl
theorem tie_subAssignSLms (a : V3 α) (c : α) : (Gen.Body.subAssignSLms a c).toList = Ops.subAssignS a.toList c := rfl
theorem tie_mulLms (a b : V3 α) : (Gen.Body.mulLms a b).toList = Ops.mulC a.toList b.toList := rfl
theorem tie_mulSLms (a : V3 α) (c : α) : (Gen.Body.mulSLms a c).toList = Ops.mulS a.toList c := rfl
theorem tie_mulAssignLms (a b : V3 α) : (Gen.Body.mulAssignLms a b).toList = Ops.mulAssignC a.toList b.toList := rfl
theorem tie_mulAssignSLms (a : V3 α) (c : α) : (Gen.Body.mulAssignSLms a c).toList = Ops.mulAssignS a.toList c := rfl
theorem tie_divLms (a b : V3 α) : (Gen.Body.divLms a b).toList = Ops.divC a.toList b.toList := rfl
theorem tie_divSLms (a : V3 α) (c : α) : (Gen.Body.divSLms a c).toList = Ops.divS a.toList c := rfl
theorem tie_divAssignLms (a b : V3 α) : (Gen.Body.divAssignLms a b).toList = Ops.divAssignC a.toList b.toList := rfl
theorem tie_divAssignSLms (a : V3 α) (c : α) : (Gen.Body.divAssignSLms a c).toList = Ops.divAssignS a.toList c := rfl
theorem tie_mixLms (a b : V3 α) (f : α) : (Gen.Body.mixLms a b f).toList = Ops.mixLin a.toList b.toList f := rfl
theorem tie_mixAssignLms (a b : V3 α) (f : α) : (Gen.Body.mixAssignLms a b f).toList = Ops.mixLinAssign a.toList b.toList f := rfl

/-! ### `Oklab` (oklab/properties.rs): fields ['l', 'a', 'b'] -/
theorem tie_addOklab (a b : V3 α) : (Gen.Body.addOklab a b).toList = Ops.addC a.toList b.toList := rfl
theorem tie_addSOklab (a : V3 α) (c : α) : (Gen.Body.addSOklab a c).toList = Ops.addS a.toList c := rfl
theorem tie_addAssignOklab (a b : V3 α) : (Gen.Body.addAssignOklab a b).toList = Ops.addAssignC a.toList b.toList := rfl
theorem tie_addAssignSOklab (a : V3 α) (c : α) : (Gen.Body.addAssignSOklab a c).toList = Ops.addAssignS a.toList c := rfl
theorem tie_subOklab (a b : V3 α) : (Gen.Body.subOklab a b).toList = Ops.subC a.toList b.toList := rfl
theorem tie_subSOklab (a : V3 α) (c : α) : (Gen.Body.subSOklab a c).toList = Ops.subS a.toList c := rfl
theorem tie_subAssignOklab (a b : V3 α) : (Gen.Body.subAssignOklab a b).toList = Ops.subAssignC a.toList b.toList := rfl
theorem tie_subAssignSOklab (a : V3 α) (c : α) : (Gen.Body.subAssignSOklab a c).toList = Ops.subAssignS a.toList c := rfl
theorem tie_mulOklab (a b : V3 α) : (Gen.Body.mulOklab a b).toList = Ops.mulC a.toList b.toList := rfl
theorem tie_mulSOklab (a : V3 α) (c : α) : (Gen.Body.mulSOklab a c).toList = Ops.mulS a.toList c := rfl
theorem tie_mulAssignOklab (a b : V3 α) : (Gen.Body.mulAssignOklab a b).toList = Ops.mulAssignC a.toList b.toList := rfl
theorem tie_mulAssignSOklab (a : V3 α) (c : α) : (Gen.Body.mulAssignSOklab a c).toList = Ops.mulAssignS a.toList c := rfl
theorem tie_divOklab (a b : V3 α) : (Gen.Body.divOklab a b).toList = Ops.divC a.toList b.toList := rfl
theorem tie_divSOklab (a : V3 α) (c : α) : (Gen.Body.divSOklab a c).toList = Ops.divS a.toList c := rfl
theorem tie_divAssignOklab (a b : V3 α) : (Gen.Body.divAssignOklab a b).toList = Ops.divAssignC a.toList b.toList := rfl
theorem tie_divAssignSOklab (a : V3 α) (c : α) : (Gen.Body.divAssignSOklab a c).toList = Ops.divAssignS a.toList c := rfl
theorem tie_mixOklab (a b : V3 α) (f : α) : (Gen.Body.mixOklab a b f).toList = Ops.mixLin a.toList b.toList f := rfl
theorem tie_mixAssignOklab (a b : V3 α) (f : α) : (Gen.Body.mixAssignOklab a b f).toList = Ops.mixLinAssign a.toList b.toList f := rfl
theorem tie_lightenOklab (c : V3 α) (f : α) :
    (Gen.Body.lightenOklab c f).toList = Ops.incValue [.increase Gen.Body.limOklabMinL Gen.Body.limOklabMaxL, .other, .other] c.toList f := rfl
theorem tie_lightenFixedOklab (c : V3 α) (f : α) :
    (Gen.Body.lightenFixedOklab c f).toList = Ops.incFixedValue [.increase Gen.Body.limOklabMinL Gen.Body.limOklabMaxL, .other, .other] c.toList f := rfl
theorem tie_lightenAssignOklab (c : V3 α) (f : α) :
    (Gen.Body.lightenAssignOklab c f).toList = Ops.incAssign [.increase Gen.Body.limOklabMinL Gen.Body.limOklabMaxL, .other, .other] c.toList f := rfl
theorem tie_lightenFixedAssignOklab (c : V3 α) (f : α) :
    (Gen.Body.lightenFixedAssignOklab c f).toList = Ops.incFixedAssign [.increase Gen.Body.limOklabMinL Gen.Body.limOklabMaxL, .other, .other] c.toList f := rfl
theorem tie_complementaryOklab (c : V3 α) : (Gen.Body.complementaryOklab c).toList = Ops.labComplementary 1 2 c.toList := rfl
theorem tie_tetradicOklab (c : V3 α) :
    ((Gen.Body.tetradicOklab c).1.toList, (Gen.Body.tetradicOklab c).2.1.toList, (Gen.Body.tetradicOklab c).2.2.toList) = Ops.labTetradic 1 2 c.toList := rfl

/-! ### `Oklch` (oklch/properties.rs): fields ['l', 'chroma', 'hue'], hue at 2 -/
theorem tie_addOklch (a b : V3 α) : (Gen.Body.addOklch a b).toList = Ops.addC a.toList b.toList := rfl
theorem tie_addSOklch (a : V3 α) (c : α) : (Gen.Body.addSOklch a c).toList = Ops.addS a.toList c := rfl
theorem tie_addAssignOklch (a b : V3 α) : (Gen.Body.addAssignOklch a b).toList = Ops.addAssignC a.toList b.toList := rfl
theorem tie_addAssignSOklch (a : V3 α) (c : α) : (Gen.Body.addAssignSOklch a c).toList = Ops.addAssignS a.toList c := rfl
theorem tie_subOklch (a b : V3 α) : (Gen.Body.subOklch a b).toList = Ops.subC a.toList b.toList := rfl
theorem tie_subSOklch (a : V3 α) (c : α) : (Gen.Body.subSOklch a c).toList = Ops.subS a.toList c := rfl
theorem tie_subAssignOklch (a b : V3 α) : (Gen.Body.subAssignOklch a b).toList = Ops.subAssignC a.toList b.toList := rfl
theorem tie_subAssignSOklch (a : V3 α) (c : α) : (Gen.Body.subAssignSOklch a c).toList = Ops.subAssignS a.toList c := rfl
theorem tie_mixOklch (a b : V3 α) (f : α) : (Gen.Body.mixOklch a b f).toList = Ops.mixHue (Ops.roles 3 2) a.toList b.toList f := rfl
theorem tie_mixAssignOklch (a b : V3 α) (f : α) : (Gen.Body.mixAssignOklch a b f).toList = Ops.mixHueAssign (Ops.roles 3 2) a.toList b.toList f := rfl
theorem tie_lightenOklch (c : V3 α) (f : α) :
    (Gen.Body.lightenOklch c f).toList = Ops.incValue [.increase Gen.Body.limOklchMinL Gen.Body.limOklchMaxL, .other, .other] c.toList f := rfl
theorem tie_lightenFixedOklch (c : V3 α) (f : α) :
    (Gen.Body.lightenFixedOklch c f).toList = Ops.incFixedValue [.increase Gen.Body.limOklchMinL Gen.Body.limOklchMaxL, .other, .other] c.toList f := rfl
theorem tie_lightenAssignOklch (c : V3 α) (f : α) :
    (Gen.Body.lightenAssignOklch c f).toList = Ops.incAssign [.increase Gen.Body.limOklchMinL Gen.Body.limOklchMaxL, .other, .other] c.toList f := rfl
theorem tie_lightenFixedAssignOklch (c : V3 α) (f : α) :
    (Gen.Body.lightenFixedAssignOklch c f).toList = Ops.incFixedAssign [.increase Gen.Body.limOklchMinL Gen.Body.limOklchMaxL, .other, .other] c.toList f := rfl
theorem tie_getHueOklch (c : V3 α) : some (Gen.Body.getHueOklch c) = Ops.getHue 2 c.toList := rfl
theorem tie_withHueOklch (c : V3 α) (h : α) : (Gen.Body.withHueOklch c h).toList = Ops.withHue 2 c.toList h := rfl
theorem tie_setHueOklch (c : V3 α) (h : α) : (Gen.Body.setHueOklch c h).toList = Ops.setHue 2 c.toList h := rfl
theorem tie_shiftHueOklch (c : V3 α) (x : α) : (Gen.Body.shiftHueOklch c x).toList = Ops.shiftHue 2 c.toList x := rfl
theorem tie_shiftHueAssignOklch (c : V3 α) (x : α) : (Gen.Body.shiftHueAssignOklch c x).toList = Ops.shiftHueAssign 2 c.toList x := rfl

/-! ### `Okhsl` (okhsl/properties.rs): fields ['hue', 'saturation', 'lightness'], hue at 0 -/
theorem tie_addOkhsl (a b : V3 α) : (Gen.Body.addOkhsl a b).toList = Ops.addC a.toList b.toList := rfl
theorem tie_addSOkhsl (a : V3 α) (c : α) : (Gen.Body.addSOkhsl a c).toList = Ops.addS a.toList c := rfl
theorem tie_addAssignOkhsl (a b : V3 α) : (Gen.Body.addAssignOkhsl a b).toList = Ops.addAssignC a.toList b.toList := rfl
theorem tie_addAssignSOkhsl (a : V3 α) (c : α) : (Gen.Body.addAssignSOkhsl a c).toList = Ops.addAssignS a.toList c := rfl
theorem tie_subOkhsl (a b : V3 α) : (Gen.Body.subOkhsl a b).toList = Ops.subC a.toList b.toList := rfl
theorem tie_subSOkhsl (a : V3 α) (c : α) : (Gen.Body.subSOkhsl a c).toList = Ops.subS a.toList c := rfl
theorem tie_subAssignOkhsl (a b : V3 α) : (Gen.Body.subAssignOkhsl a b).toList = Ops.subAssignC a.toList b.toList := rfl
theorem tie_subAssignSOkhsl (a : V3 α) (c : α) : (Gen.Body.subAssignSOkhsl a c).toList = Ops.subAssignS a.toList c := rfl
theorem tie_mixOkhsl (a b : V3 α) (f : α) : (Gen.Body.mixOkhsl a b f).toList = Ops.mixHue (Ops.roles 3 0) a.toList b.toList f := rfl
theorem tie_mixAssignOkhsl (a b : V3 α) (f : α) : (Gen.Body.mixAssignOkhsl a b f).toList = Ops.mixHueAssign (Ops.roles 3 0) a.toList b.toList f := rfl
theorem tie_lightenOkhsl (c : V3 α) (f : α) :
    (Gen.Body.lightenOkhsl c f).toList = Ops.incValue [.other, .other, .increase Gen.Body.limOkhslMinLightness Gen.Body.limOkhslMaxLightness] c.toList f := rfl
theorem tie_lightenFixedOkhsl (c : V3 α) (f : α) :
    (Gen.Body.lightenFixedOkhsl c f).toList = Ops.incFixedValue [.other, .other, .increase Gen.Body.limOkhslMinLightness Gen.Body.limOkhslMaxLightness] c.toList f := rfl
theorem tie_lightenAssignOkhsl (c : V3 α) (f : α) :
    (Gen.Body.lightenAssignOkhsl c f).toList = Ops.incAssign [.other, .other, .increase Gen.Body.limOkhslMinLightness Gen.Body.limOkhslMaxLightness] c.toList f := rfl
theorem tie_lightenFixedAssignOkhsl (c : V3 α) (f : α) :
    (Gen.Body.lightenFixedAssignOkhsl c f).toList = Ops.incFixedAssign [.other, .other, .increase Gen.Body.limOkhslMinLightness Gen.Body.limOkhslMaxLightness] c.toList f := rfl
theorem tie_saturateOkhsl (c : V3 α) (f : α) :
    (Gen.Body.saturateOkhsl c f).toList = Ops.incValue [.other, .increase Gen.Body.limOkhslMinSaturation Gen.Body.limOkhslMaxSaturation, .other] c.toList f := rfl
theorem tie_saturateFixedOkhsl (c : V3 α) (f : α) :
    (Gen.Body.saturateFixedOkhsl c f).toList = Ops.incFixedValue [.other, .increase Gen.Body.limOkhslMinSaturation Gen.Body.limOkhslMaxSaturation, .other] c.toList f := rfl
theorem tie_saturateAssignOkhsl (c : V3 α) (f : α) :
    (Gen.Body.saturateAssignOkhsl c f).toList = Ops.incAssign [.other, .increase Gen.Body.limOkhslMinSaturation Gen.Body.limOkhslMaxSaturation, .other] c.toList f := rfl
theorem tie_saturateFixedAssignOkhsl (c : V3 α) (f : α) :
    (Gen.Body.saturateFixedAssignOkhsl c f).toList = Ops.incFixedAssign [.other, .increase Gen.Body.limOkhslMinSaturation Gen.Body.limOkhslMaxSaturation, .other] c.toList f := rfl
theorem tie_getHueOkhsl (c : V3 α) : some (Gen.Body.getHueOkhsl c) = Ops.getHue 0 c.toList := rfl
theorem tie_withHueOkhsl (c : V3 α) (h : α) : (Gen.Body.withHueOkhsl c h).toList = Ops.withHue 0 c.toList h := rfl
theorem tie_setHueOkhsl (c : V3 α) (h : α) : (Gen.Body.setHueOkhsl c h).toList = Ops.setHue 0 c.toList h := rfl
theorem tie_shiftHueOkhsl (c : V3 α) (x : α) : (Gen.Body.shiftHueOkhsl c x).toList = Ops.shiftHue 0 c.toList x := rfl
theorem tie_shiftHueAssignOkhsl (c : V3 α) (x : α) : (Gen.Body.shiftHueAssignOkhsl c x).toList = Ops.shiftHueAssign 0 c.toList x := rfl

/-! ### `Okhsv` (okhsv/properties.rs): fields ['hue', 'saturation', 'value'], hue at 0 -/
theorem tie_addOkhsv (a b : V3 α) : (Gen.Body.addOkhsv a b).toList = Ops.addC a.toList b.toList := rfl
theorem tie_addSOkhsv (a : V3 α) (c : α) : (Gen.Body.addSOkhsv a c).toList = Ops.addS a.toList c := rfl
theorem tie_addAssignOkhsv (a b : V3 α) : (Gen.Body.addAssignOkhsv a b).toList = Ops.addAssignC a.toList b.toList := rfl
theorem tie_addAssignSOkhsv (a : V3 α) (c : α) : (Gen.Body.addAssignSOkhsv a c).toList = Ops.addAssignS a.toList c := rfl
theorem tie_subOkhsv (a b : V3 α) : (Gen.Body.subOkhsv a b).toList = Ops.subC a.toList b.toList := rfl
theorem tie_subSOkhsv (a : V3 α) (c : α) : (Gen.Body.subSOkhsv a c).toList = Ops.subS a.toList c := rfl
theorem tie_subAssignOkhsv (a b : V3 α) : (Gen.Body.subAssignOkhsv a b).toList = Ops.subAssignC a.toList b.toList := rfl
theorem tie_subAssignSOkhsv (a : V3 α) (c : α) : (Gen.Body.subAssignSOkhsv a c).toList = Ops.subAssignS a.toList c := rfl
theorem tie_mixOkhsv (a b : V3 α) (f : α) : (Gen.Body.mixOkhsv a b f).toList = Ops.mixHue (Ops.roles 3 0) a.toList b.toList f := rfl
theorem tie_mixAssignOkhsv (a b : V3 α) (f : α) : (Gen.Body.mixAssignOkhsv a b f).toList = Ops.mixHueAssign (Ops.roles 3 0) a.toList b.toList f := rfl
theorem tie_lightenOkhsv (c : V3 α) (f : α) :
    (Gen.Body.lightenOkhsv c f).toList = Ops.incValue [.other, .other, .increase Gen.Body.limOkhsvMinValue Gen.Body.limOkhsvMaxValue] c.toList f := rfl
theorem tie_lightenFixedOkhsv (c : V3 α) (f : α) :
    (Gen.Body.lightenFixedOkhsv c f).toList = Ops.incFixedValue [.other, .other, .increase Gen.Body.limOkhsvMinValue Gen.Body.limOkhsvMaxValue] c.toList f := rfl
theorem tie_lightenAssignOkhsv (c : V3 α) (f : α) :
    (Gen.Body.lightenAssignOkhsv c f).toList = Ops.incAssign [.other, .other, .increase Gen.Body.limOkhsvMinValue Gen.Body.limOkhsvMaxValue] c.toList f := rfl
theorem tie_lightenFixedAssignOkhsv (c : V3 α) (f : α) :
    (Gen.Body.lightenFixedAssignOkhsv c f).toList = Ops.incFixedAssign [.other, .other, .increase Gen.Body.limOkhsvMinValue Gen.Body.limOkhsvMaxValue] c.toList f := rfl
theorem tie_saturateOkhsv (c : V3 α) (f : α) :
    (Gen.Body.saturateOkhsv c f).toList = Ops.incValue [.other, .increase Gen.Body.limOkhsvMinSaturation Gen.Body.limOkhsvMaxSaturation, .other] c.toList f := rfl
theorem tie_saturateFixedOkhsv (c : V3 α) (f : α) :
    (Gen.Body.saturateFixedOkhsv c f).toList = Ops.incFixedValue [.other, .increase Gen.Body.limOkhsvMinSaturation Gen.Body.limOkhsvMaxSaturation, .other] c.toList f := rfl
theorem tie_saturateAssignOkhsv (c : V3 α) (f : α) :
    (Gen.Body.saturateAssignOkhsv c f).toList = Ops.incAssign [.other, .increase Gen.Body.limOkhsvMinSaturation Gen.Body.limOkhsvMaxSaturation, .other] c.toList f := rfl
theorem tie_saturateFixedAssignOkhsv (c : V3 α) (f : α) :
    (Gen.Body.saturateFixedAssignOkhsv c f).toList = Ops.incFixedAssign [.other, .increase Gen.Body.limOkhsvMinSaturation Gen.Body.limOkhsvMaxSaturation, .other] c.toList f := rfl
theorem tie_getHueOkhsv (c : V3 α) : some (Gen.Body.getHueOkhsv c) = Ops.getHue 0 c.toList := rfl
theorem tie_withHueOkhsv (c : V3 α) (h : α) : (Gen.Body.withHueOkhsv c h).toList = Ops.withHue 0 c.toList h := rfl
theorem tie_setHueOkhsv (c : V3 α) (h : α) : (Gen.Body.setHueOkhsv c h).toList = Ops.setHue 0 c.toList h := rfl
theorem tie_shiftHueOkhsv (c : V3 α) (x : α) : (Gen.Body.shiftHueOkhsv c x).toList = Ops.shiftHue 0 c.toList x := rfl
theorem tie_shiftHueAssignOkhsv (c : V3 α) (x : α) : (Gen.Body.shiftHueAssignOkhsv c x).toList = Ops.shiftHueAssign 0 c.toList x := rfl

/-! ### `Okhwb` (okhwb/properties.rs): fields ['hue', 'whiteness', 'blackness'], hue at 0 -/
theorem tie_addOkhwb (a b : V3 α) : (Gen.Body.addOkhwb a b).toList = Ops.addC a.toList b.toList := rfl
theorem tie_addSOkhwb (a : V3 α) (c : α) : (Gen.Body.addSOkhwb a c).toList = Ops.addS a.toList c := rfl
theorem tie_addAssignOkhwb (a b : V3 α) : (Gen.Body.addAssignOkhwb a b).toList = Ops.addAssignC a.toList b.toList := rfl
theorem tie_addAssignSOkhwb (a : V3 α) (c : α) : (Gen.Body.addAssignSOkhwb a c).toList = Ops.addAssignS a.toList c := rfl
theorem tie_subOkhwb (a b : V3 α) : (Gen.Body.subOkhwb a b).toList = Ops.subC a.toList b.toList := rfl
theorem tie_subSOkhwb (a : V3 α) (c : α) : (Gen.Body.subSOkhwb a c).toList = Ops.subS a.toList c := rfl
theorem tie_subAssignOkhwb (a b : V3 α) : (Gen.Body.subAssignOkhwb a b).toList = Ops.subAssignC a.toList b.toList := rfl
theorem tie_subAssignSOkhwb (a : V3 α) (c : α) : (Gen.Body.subAssignSOkhwb a c).toList = Ops.subAssignS a.toList c := rfl
theorem tie_mixOkhwb (a b : V3 α) (f : α) : (Gen.Body.mixOkhwb a b f).toList = Ops.mixHue (Ops.roles 3 0) a.toList b.toList f := rfl
theorem tie_mixAssignOkhwb (a b : V3 α) (f : α) : (Gen.Body.mixAssignOkhwb a b f).toList = Ops.mixHueAssign (Ops.roles 3 0) a.toList b.toList f := rfl
theorem tie_lightenOkhwb (c : V3 α) (f : α) :
    Gen.Body.lightenOkhwb c f = ⟨c.c0, (Ops.hwbLighten ⟨Gen.Body.limOkhwbMinWhiteness, Gen.Body.limOkhwbMaxWhiteness, Gen.Body.limOkhwbMinBlackness, Gen.Body.limOkhwbMaxBlackness⟩ c.c1 c.c2 f).1, (Ops.hwbLighten ⟨Gen.Body.limOkhwbMinWhiteness, Gen.Body.limOkhwbMaxWhiteness, Gen.Body.limOkhwbMinBlackness, Gen.Body.limOkhwbMaxBlackness⟩ c.c1 c.c2 f).2⟩ := rfl
theorem tie_lightenFixedOkhwb (c : V3 α) (f : α) :
    Gen.Body.lightenFixedOkhwb c f = ⟨c.c0, (Ops.hwbLightenFixed ⟨Gen.Body.limOkhwbMinWhiteness, Gen.Body.limOkhwbMaxWhiteness, Gen.Body.limOkhwbMinBlackness, Gen.Body.limOkhwbMaxBlackness⟩ c.c1 c.c2 f).1, (Ops.hwbLightenFixed ⟨Gen.Body.limOkhwbMinWhiteness, Gen.Body.limOkhwbMaxWhiteness, Gen.Body.limOkhwbMinBlackness, Gen.Body.limOkhwbMaxBlackness⟩ c.c1 c.c2 f).2⟩ := rfl
theorem tie_lightenAssignOkhwb (c : V3 α) (f : α) :
    Gen.Body.lightenAssignOkhwb c f = ⟨c.c0, (Ops.hwbLightenAssign ⟨Gen.Body.limOkhwbMinWhiteness, Gen.Body.limOkhwbMaxWhiteness, Gen.Body.limOkhwbMinBlackness, Gen.Body.limOkhwbMaxBlackness⟩ c.c1 c.c2 f).1, (Ops.hwbLightenAssign ⟨Gen.Body.limOkhwbMinWhiteness, Gen.Body.limOkhwbMaxWhiteness, Gen.Body.limOkhwbMinBlackness, Gen.Body.limOkhwbMaxBlackness⟩ c.c1 c.c2 f).2⟩ := rfl
theorem tie_lightenFixedAssignOkhwb (c : V3 α) (f : α) :
    Gen.Body.lightenFixedAssignOkhwb c f = ⟨c.c0, (Ops.hwbLightenFixedAssign ⟨Gen.Body.limOkhwbMinWhiteness, Gen.Body.limOkhwbMaxWhiteness, Gen.Body.limOkhwbMinBlackness, Gen.Body.limOkhwbMaxBlackness⟩ c.c1 c.c2 f).1, (Ops.hwbLightenFixedAssign ⟨Gen.Body.limOkhwbMinWhiteness, Gen.Body.limOkhwbMaxWhiteness, Gen.Body.limOkhwbMinBlackness, Gen.Body.limOkhwbMaxBlackness⟩ c.c1 c.c2 f).2⟩ := rfl
theorem tie_getHueOkhwb (c : V3 α) : some (Gen.Body.getHueOkhwb c) = Ops.getHue 0 c.toList := rfl
theorem tie_withHueOkhwb (c : V3 α) (h : α) : (Gen.Body.withHueOkhwb c h).toList = Ops.withHue 0 c.toList h := rfl
theorem tie_setHueOkhwb (c : V3 α) (h : α) : (Gen.Body.setHueOkhwb c h).toList = Ops.setHue 0 c.toList h := rfl
theorem tie_shiftHueOkhwb (c : V3 α) (x : α) : (Gen.Body.shiftHueOkhwb c x).toList = Ops.shiftHue 0 c.toList x := rfl
theorem tie_shiftHueAssignOkhwb (c : V3 α) (x : α) : (Gen.Body.shiftHueAssignOkhwb c x).toList = Ops.shiftHueAssign 0 c.toList x := rfl

/-! ### `Cam16UcsJab` (cam16/ucs_jab.rs): fields ['lightness', 'a', 'b'] -/
theorem tie_addCam16UcsJab (a b : V3 α) : (Gen.Body.addCam16UcsJab a b).toList = Ops.addC a.toList b.toList := rfl
theorem tie_addSCam16UcsJab (a : V3 α) (c : α) : (Gen.Body.addSCam16UcsJab a c).toList = Ops.addS a.toList c := rfl
theorem tie_addAssignCam16UcsJab (a b : V3 α) : (Gen.Body.addAssignCam16UcsJab a b).toList = Ops.addAssignC a.toList b.toList := rfl
theorem tie_addAssignSCam16UcsJab (a : V3 α) (c : α) : (Gen.Body.addAssignSCam16UcsJab a c).toList = Ops.addAssignS a.toList c := rfl
theorem tie_subCam16UcsJab (a b : V3 α) : (Gen.Body.subCam16UcsJab a b).toList = Ops.subC a.toList b.toList := rfl
theorem tie_subSCam16UcsJab (a : V3 α) (c : α) : (Gen.Body.subSCam16UcsJab a c).toList = Ops.subS a.toList c := rfl
theorem tie_subAssignCam16UcsJab (a b : V3 α) : (Gen.Body.subAssignCam16UcsJab a b).toList = Ops.subAssignC a.toList b.toList := rfl
theorem tie_subAssignSCam16UcsJab (a : V3 α) (c : α) : (Gen.Body.subAssignSCam16UcsJab a c).toList = Ops.subAssignS a.toList c := rfl
theorem tie_mulCam16UcsJab (a b : V3 α) : (Gen.Body.mulCam16UcsJab a b).toList = Ops.mulC a.toList b.toList := rfl
theorem tie_mulSCam16UcsJab (a : V3 α) (c : α) : (Gen.Body.mulSCam16UcsJab a c).toList = Ops.mulS a.toList c := rfl
theorem tie_mulAssignCam16UcsJab (a b : V3 α) : (Gen.Body.mulAssignCam16UcsJab a b).toList = Ops.mulAssignC a.toList b.toList := rfl
theorem tie_mulAssignSCam16UcsJab (a : V3 α) (c : α) : (Gen.Body.mulAssignSCam16UcsJab a c).toList = Ops.mulAssignS a.toList c := rfl
theorem tie_divCam16UcsJab (a b : V3 α) : (Gen.Body.divCam16UcsJab a b).toList = Ops.divC a.toList b.toList := rfl
theorem tie_divSCam16UcsJab (a : V3 α) (c : α) : (Gen.Body.divSCam16UcsJab a c).toList = Ops.divS a.toList c := rfl
theorem tie_divAssignCam16UcsJab (a b : V3 α) : (Gen.Body.divAssignCam16UcsJab a b).toList = Ops.divAssignC a.toList b.toList := rfl
theorem tie_divAssignSCam16UcsJab (a : V3 α) (c : α) : (Gen.Body.divAssignSCam16UcsJab a c).toList = Ops.divAssignS a.toList c := rfl
theorem tie_mixCam16UcsJab (a b : V3 α) (f : α) : (Gen.Body.mixCam16UcsJab a b f).toList = Ops.mixLin a.toList b.toList f := rfl
theorem tie_mixAssignCam16UcsJab (a b : V3 α) (f : α) : (Gen.Body.mixAssignCam16UcsJab a b f).toList = Ops.mixLinAssign a.toList b.toList f := rfl
theorem tie_lightenCam16UcsJab (c : V3 α) (f : α) :
    (Gen.Body.lightenCam16UcsJab c f).toList = Ops.incValue [.increase Gen.Body.limCam16UcsJabMinLightness Gen.Body.limCam16UcsJabMaxLightness, .other, .other] c.toList f := rfl
theorem tie_lightenFixedCam16UcsJab (c : V3 α) (f : α) :
    (Gen.Body.lightenFixedCam16UcsJab c f).toList = Ops.incFixedValue [.increase Gen.Body.limCam16UcsJabMinLightness Gen.Body.limCam16UcsJabMaxLightness, .other, .other] c.toList f := rfl
theorem tie_lightenAssignCam16UcsJab (c : V3 α) (f : α) :
    (Gen.Body.lightenAssignCam16UcsJab c f).toList = Ops.incAssign [.increase Gen.Body.limCam16UcsJabMinLightness Gen.Body.limCam16UcsJabMaxLightness, .other, .other] c.toList f := rfl
theorem tie_lightenFixedAssignCam16UcsJab (c : V3 α) (f : α) :
    (Gen.Body.lightenFixedAssignCam16UcsJab c f).toList = Ops.incFixedAssign [.increase Gen.Body.limCam16UcsJabMinLightness Gen.Body.limCam16UcsJabMaxLightness, .other, .other] c.toList f := rfl
theorem tie_complementaryCam16UcsJab (c : V3 α) : (Gen.Body.complementaryCam16UcsJab c).toList = Ops.labComplementary 1 2 c.toList := rfl
theorem tie_tetradicCam16UcsJab (c : V3 α) :
    ((Gen.Body.tetradicCam16UcsJab c).1.toList, (Gen.Body.tetradicCam16UcsJab c).2.1.toList, (Gen.Body.tetradicCam16UcsJab c).2.2.toList) = Ops.labTetradic 1 2 c.toList := rfl

/-! ### `Cam16UcsJmh` (cam16/ucs_jmh.rs): fields ['lightness', 'colorfulness', 'hue'], hue at 2 -/
theorem tie_addCam16UcsJmh (a b : V3 α) : (Gen.Body.addCam16UcsJmh a b).toList = Ops.addC a.toList b.toList := rfl
theorem tie_addSCam16UcsJmh (a : V3 α) (c : α) : (Gen.Body.addSCam16UcsJmh a c).toList = Ops.addS a.toList c := rfl
theorem tie_addAssignCam16UcsJmh (a b : V3 α) : (Gen.Body.addAssignCam16UcsJmh a b).toList = Ops.addAssignC a.toList b.toList := rfl
theorem tie_addAssignSCam16UcsJmh (a : V3 α) (c : α) : (Gen.Body.addAssignSCam16UcsJmh a c).toList = Ops.addAssignS a.toList c := rfl
theorem tie_subCam16UcsJmh (a b : V3 α) : (Gen.Body.subCam16UcsJmh a b).toList = Ops.subC a.toList b.toList := rfl
theorem tie_subSCam16UcsJmh (a : V3 α) (c : α) : (Gen.Body.subSCam16UcsJmh a c).toList = Ops.subS a.toList c := rfl
theorem tie_subAssignCam16UcsJmh (a b : V3 α) : (Gen.Body.subAssignCam16UcsJmh a b).toList = Ops.subAssignC a.toList b.toList := rfl
theorem tie_subAssignSCam16UcsJmh (a : V3 α) (c : α) : (Gen.Body.subAssignSCam16UcsJmh a c).toList = Ops.subAssignS a.toList c := rfl
theorem tie_mixCam16UcsJmh (a b : V3 α) (f : α) : (Gen.Body.mixCam16UcsJmh a b f).toList = Ops.mixHue (Ops.roles 3 2) a.toList b.toList f := rfl
theorem tie_mixAssignCam16UcsJmh (a b : V3 α) (f : α) : (Gen.Body.mixAssignCam16UcsJmh a b f).toList = Ops.mixHueAssign (Ops.roles 3 2) a.toList b.toList f := rfl
theorem tie_lightenCam16UcsJmh (c : V3 α) (f : α) :
    (Gen.Body.lightenCam16UcsJmh c f).toList = Ops.incValue [.increase Gen.Body.limCam16UcsJmhMinLightness Gen.Body.limCam16UcsJmhMaxLightness, .other, .other] c.toList f := rfl
theorem tie_lightenFixedCam16UcsJmh (c : V3 α) (f : α) :
    (Gen.Body.lightenFixedCam16UcsJmh c f).toList = Ops.incFixedValue [.increase Gen.Body.limCam16UcsJmhMinLightness Gen.Body.limCam16UcsJmhMaxLightness, .other, .other] c.toList f := rfl
theorem tie_lightenAssignCam16UcsJmh (c : V3 α) (f : α) :
    (Gen.Body.lightenAssignCam16UcsJmh c f).toList = Ops.incAssign [.increase Gen.Body.limCam16UcsJmhMinLightness Gen.Body.limCam16UcsJmhMaxLightness, .other, .other] c.toList f := rfl
theorem tie_lightenFixedAssignCam16UcsJmh (c : V3 α) (f : α) :
    (Gen.Body.lightenFixedAssignCam16UcsJmh c f).toList = Ops.incFixedAssign [.increase Gen.Body.limCam16UcsJmhMinLightness Gen.Body.limCam16UcsJmhMaxLightness, .other, .other] c.toList f := rfl
theorem tie_saturateCam16UcsJmh (c : V3 α) (f : α) :
    (Gen.Body.saturateCam16UcsJmh c f).toList = Ops.incValue [.other, .increase Gen.Body.limCam16UcsJmhMinColorfulness Gen.Body.limCam16UcsJmhMaxSrgbColorfulness, .other] c.toList f := rfl
theorem tie_saturateFixedCam16UcsJmh (c : V3 α) (f : α) :
    (Gen.Body.saturateFixedCam16UcsJmh c f).toList = Ops.incFixedValue [.other, .increase Gen.Body.limCam16UcsJmhMinColorfulness Gen.Body.limCam16UcsJmhMaxSrgbColorfulness, .other] c.toList f := rfl
theorem tie_saturateAssignCam16UcsJmh (c : V3 α) (f : α) :
    (Gen.Body.saturateAssignCam16UcsJmh c f).toList = Ops.incAssign [.other, .increase Gen.Body.limCam16UcsJmhMinColorfulness Gen.Body.limCam16UcsJmhMaxSrgbColorfulness, .other] c.toList f := rfl
theorem tie_saturateFixedAssignCam16UcsJmh (c : V3 α) (f : α) :
    (Gen.Body.saturateFixedAssignCam16UcsJmh c f).toList = Ops.incFixedAssign [.other, .increase Gen.Body.limCam16UcsJmhMinColorfulness Gen.Body.limCam16UcsJmhMaxSrgbColorfulness, .other] c.toList f := rfl
theorem tie_getHueCam16UcsJmh (c : V3 α) : some (Gen.Body.getHueCam16UcsJmh c) = Ops.getHue 2 c.toList := rfl
theorem tie_withHueCam16UcsJmh (c : V3 α) (h : α) : (Gen.Body.withHueCam16UcsJmh c h).toList = Ops.withHue 2 c.toList h := rfl
theorem tie_setHueCam16UcsJmh (c : V3 α) (h : α) : (Gen.Body.setHueCam16UcsJmh c h).toList = Ops.setHue 2 c.toList h := rfl
theorem tie_shiftHueCam16UcsJmh (c : V3 α) (x : α) : (Gen.Body.shiftHueCam16UcsJmh c x).toList = Ops.shiftHue 2 c.toList x := rfl
theorem tie_shiftHueAssignCam16UcsJmh (c : V3 α) (x : α) : (Gen.Body.shiftHueAssignCam16UcsJmh c x).toList = Ops.shiftHueAssign 2 c.toList x := rfl

/-! ### the translator's reading of `colour ∘ colour` / `colour ∘ scalar` (`Prim.v3*`, used inside `impl_mix!`) is the translated arithmetic -/
theorem reading_add : @Prim.v3Add α _ = Gen.Body.addLab ∧ @Prim.v3Add α _ = Gen.Body.addRgb ∧ @Prim.v3Add α _ = Gen.Body.addXyz := ⟨rfl, rfl, rfl⟩
theorem reading_sub : @Prim.v3Sub α _ = Gen.Body.subLab ∧ @Prim.v3Sub α _ = Gen.Body.subRgb ∧ @Prim.v3Sub α _ = Gen.Body.subXyz := ⟨rfl, rfl, rfl⟩
theorem reading_mulS : @Prim.v3MulS α _ = Gen.Body.mulSLab ∧ @Prim.v3MulS α _ = Gen.Body.mulSRgb ∧ @Prim.v3MulS α _ = Gen.Body.mulSXyz := ⟨rfl, rfl, rfl⟩
theorem reading_mul : @Prim.v3Mul α _ = Gen.Body.mulLab ∧ @Prim.v3Div α _ = Gen.Body.divLab ∧ @Prim.v3DivS α _ = Gen.Body.divSLab ∧
    @Prim.v3AddS α _ = Gen.Body.addSLab ∧ @Prim.v3SubS α _ = Gen.Body.subSLab := ⟨rfl, rfl, rfl, rfl, rfl⟩

/-! ### color_theory.rs: the blanket impls over `ShiftHue`, at `Self = Hsv` (hue first) and `Self = Lch` (hue last) -/
theorem tie_complementaryHsv (c : V3 α) : (Gen.Body.complementaryHsv c).toList = Ops.complementary 0 c.toList := rfl
theorem tie_splitComplementaryHsv (c : V3 α) :
    ((Gen.Body.splitComplementaryHsv c).1.toList, (Gen.Body.splitComplementaryHsv c).2.toList) = Ops.splitComplementary 0 c.toList := rfl
theorem tie_analogousHsv (c : V3 α) : ((Gen.Body.analogousHsv c).1.toList, (Gen.Body.analogousHsv c).2.toList) = Ops.analogous 0 c.toList := rfl
theorem tie_analogousSecondaryHsv (c : V3 α) :
    ((Gen.Body.analogousSecondaryHsv c).1.toList, (Gen.Body.analogousSecondaryHsv c).2.toList) = Ops.analogousSecondary 0 c.toList := rfl
theorem tie_triadicHsv (c : V3 α) : ((Gen.Body.triadicHsv c).1.toList, (Gen.Body.triadicHsv c).2.toList) = Ops.triadic 0 c.toList := rfl
theorem tie_tetradicHsv (c : V3 α) :
    ((Gen.Body.tetradicHsv c).1.toList, (Gen.Body.tetradicHsv c).2.1.toList, (Gen.Body.tetradicHsv c).2.2.toList) = Ops.tetradic 0 c.toList := rfl
theorem tie_complementaryLch (c : V3 α) : (Gen.Body.complementaryLch c).toList = Ops.complementary 2 c.toList := rfl
theorem tie_splitComplementaryLch (c : V3 α) :
    ((Gen.Body.splitComplementaryLch c).1.toList, (Gen.Body.splitComplementaryLch c).2.toList) = Ops.splitComplementary 2 c.toList := rfl
theorem tie_analogousLch (c : V3 α) : ((Gen.Body.analogousLch c).1.toList, (Gen.Body.analogousLch c).2.toList) = Ops.analogous 2 c.toList := rfl
theorem tie_analogousSecondaryLch (c : V3 α) :
    ((Gen.Body.analogousSecondaryLch c).1.toList, (Gen.Body.analogousSecondaryLch c).2.toList) = Ops.analogousSecondary 2 c.toList := rfl
theorem tie_triadicLch (c : V3 α) : ((Gen.Body.triadicLch c).1.toList, (Gen.Body.triadicLch c).2.toList) = Ops.triadic 2 c.toList := rfl
theorem tie_tetradicLch (c : V3 α) :
    ((Gen.Body.tetradicLch c).1.toList, (Gen.Body.tetradicLch c).2.1.toList, (Gen.Body.tetradicLch c).2.2.toList) = Ops.tetradic 2 c.toList := rfl

/-! ### lib.rs: the blanket `Darken` / `DarkenAssign` / `Desaturate` / `DesaturateAssign` impls (`self.lighten(-factor)`, …) -/
theorem tie_darkenLab (c : V3 α) (f : α) :
    (Gen.Body.darkenLab c f).toList = Ops.decValue [.increase Gen.Body.limLabMinL Gen.Body.limLabMaxL, .other, .other] c.toList f := rfl
theorem tie_darkenFixedLab (c : V3 α) (f : α) :
    (Gen.Body.darkenFixedLab c f).toList = Ops.decFixedValue [.increase Gen.Body.limLabMinL Gen.Body.limLabMaxL, .other, .other] c.toList f := rfl
theorem tie_darkenAssignLab (c : V3 α) (f : α) :
    (Gen.Body.darkenAssignLab c f).toList = Ops.decAssign [.increase Gen.Body.limLabMinL Gen.Body.limLabMaxL, .other, .other] c.toList f := rfl
theorem tie_darkenFixedAssignLab (c : V3 α) (f : α) :
    (Gen.Body.darkenFixedAssignLab c f).toList = Ops.decFixedAssign [.increase Gen.Body.limLabMinL Gen.Body.limLabMaxL, .other, .other] c.toList f := rfl
theorem tie_darkenHsl (c : V3 α) (f : α) :
    (Gen.Body.darkenHsl c f).toList = Ops.decValue [.other, .other, .increase Gen.Body.limHslMinLightness Gen.Body.limHslMaxLightness] c.toList f := rfl
theorem tie_darkenFixedHsl (c : V3 α) (f : α) :
    (Gen.Body.darkenFixedHsl c f).toList = Ops.decFixedValue [.other, .other, .increase Gen.Body.limHslMinLightness Gen.Body.limHslMaxLightness] c.toList f := rfl
theorem tie_darkenAssignHsl (c : V3 α) (f : α) :
    (Gen.Body.darkenAssignHsl c f).toList = Ops.decAssign [.other, .other, .increase Gen.Body.limHslMinLightness Gen.Body.limHslMaxLightness] c.toList f := rfl
theorem tie_darkenFixedAssignHsl (c : V3 α) (f : α) :
    (Gen.Body.darkenFixedAssignHsl c f).toList = Ops.decFixedAssign [.other, .other, .increase Gen.Body.limHslMinLightness Gen.Body.limHslMaxLightness] c.toList f := rfl
theorem tie_desaturateHsv (c : V3 α) (f : α) :
    (Gen.Body.desaturateHsv c f).toList = Ops.decValue [.other, .increase Gen.Body.limHsvMinSaturation Gen.Body.limHsvMaxSaturation, .other] c.toList f := rfl
theorem tie_desaturateFixedHsv (c : V3 α) (f : α) :
    (Gen.Body.desaturateFixedHsv c f).toList = Ops.decFixedValue [.other, .increase Gen.Body.limHsvMinSaturation Gen.Body.limHsvMaxSaturation, .other] c.toList f := rfl
theorem tie_desaturateAssignHsv (c : V3 α) (f : α) :
    (Gen.Body.desaturateAssignHsv c f).toList = Ops.decAssign [.other, .increase Gen.Body.limHsvMinSaturation Gen.Body.limHsvMaxSaturation, .other] c.toList f := rfl
theorem tie_desaturateFixedAssignHsv (c : V3 α) (f : α) :
    (Gen.Body.desaturateFixedAssignHsv c f).toList = Ops.decFixedAssign [.other, .increase Gen.Body.limHsvMinSaturation Gen.Body.limHsvMaxSaturation, .other] c.toList f := rfl
theorem tie_desaturateLch (c : V3 α) (f : α) :
    (Gen.Body.desaturateLch c f).toList = Ops.decValue [.other, .increase Gen.Body.limLchMinChroma Gen.Body.limLchMaxChroma, .other] c.toList f := rfl
theorem tie_desaturateFixedLch (c : V3 α) (f : α) :
    (Gen.Body.desaturateFixedLch c f).toList = Ops.decFixedValue [.other, .increase Gen.Body.limLchMinChroma Gen.Body.limLchMaxChroma, .other] c.toList f := rfl
theorem tie_desaturateAssignLch (c : V3 α) (f : α) :
    (Gen.Body.desaturateAssignLch c f).toList = Ops.decAssign [.other, .increase Gen.Body.limLchMinChroma Gen.Body.limLchMaxChroma, .other] c.toList f := rfl
theorem tie_desaturateFixedAssignLch (c : V3 α) (f : α) :
    (Gen.Body.desaturateFixedAssignLch c f).toList = Ops.decFixedAssign [.other, .increase Gen.Body.limLchMinChroma Gen.Body.limLchMaxChroma, .other] c.toList f := rfl

end Tie
