/-
  Tie of C12 ("hex strings, color names and packed integers round-trip and parse strictly") to the *text* of
  `palette/src/rgb/hex.rs`, the ten `FromStr` impls / `LowerHex` / `UpperHex` / `From<u32>` impls of `rgb/rgb.rs`, `luma/luma.rs`,
  `alpha/alpha.rs`, `cast/packed.rs`, `rgb/channels.rs`, `luma/channels.rs` and `named.rs`.

  `tools/extract.py` (plugin `tools/extract_plugins/hex.py`, translator `tools/rust2lean_hex.py`) re-reads those bodies on every run and
  translates each into `Gen.BodyHex.<name>` (lean/PaletteModel/Gen/BodiesHex.lean; readings of the std / language constructs in
  PaletteModel/BodyPrimHex.lean).  Each `tie_<name>` below proves the translation equal to the hand-written model function that the
  driver executes and that `C12_Hex`, `C12_Packed`, `C12_Named` are about - for every input, and for every value of the dictionary
  parameters or at the instantiation written in the statement.  The translation keeps Rust's representation (tuples, `Rgb { .. }`,
  `Result<_, ParseIntError>`); the model works on component lists and `Hex.Outcome`: the *statement* carries the transport
  (`PRes.lift HexPrim.t3`, `.map Prim.Rgb3.toList`, `HexPrim.rgbaList`), the proof the equality.

  Strings: the translation walks `char`s where the source does (`check_hex_digits`), the model walks bytes.  They agree on every
  byte sequence that has the *shape* of UTF-8 (`HexPrim.Utf8`: what every `&str` satisfies), which is the hypothesis of the string ties;
  the model's own theorems (C12_Hex) hold for every byte list.

  NOT translated: header of Gen/BodiesHex.lean.
-/
import PaletteModel.Gen.BodiesHex
import PaletteModel.Gen.BodiesFormat
import PaletteModel.Stimulus
import PaletteProofs.Lemmas.HexLemmas

set_option linter.unusedSimpArgs false
set_option linter.unusedVariables false

namespace Tie
open HexPrim Gen.BodyHex

/-! ## plumbing: `?`, slices, `Result` transport -/

theorem lift_slice_radix {α β : Type} (f : α → β) (bits : Nat) (hex : Hex.Bytes) (i j : Nat) (k : Nat → PRes α) :
    PRes.lift f (PRes.slice hex i j fun s => PRes.bind (fromStrRadix16 bits s) k)
      = (Hex.comp bits hex i j).bind fun v => PRes.lift f (k v) := by
  unfold PRes.slice Hex.comp fromStrRadix16
  cases Hex.slice hex i j with
  | none => rfl
  | some t =>
    dsimp only
    cases Hex.fromStrRadix16 bits t <;> rfl

theorem lift_bind_via {α α' β γ : Type} (g : α → α') (f : β → γ) (x : PRes α) (k : α → PRes β) (k' : α' → Hex.Outcome γ)
    (hk : ∀ v, PRes.lift f (k v) = k' (g v)) : PRes.lift f (x.bind k) = (PRes.lift g x).bind k' := by
  cases x with
  | ok v => exact hk v
  | err e => rfl
  | panic => rfl

theorem tryFrom_ok_map {α β γ : Type} (x : PRes α) (g : α → β) (h : β → γ) (f : α → γ) (hfg : ∀ v, h (g v) = f v) :
    (tryFrom fromParseIntError x fun v => Hex.Outcome.ok (g v)).map h = PRes.lift f x := by
  cases x with
  | ok v => simp [tryFrom, Hex.Outcome.map, Hex.Outcome.bind, PRes.lift, hfg]
  | err e => rfl
  | panic => rfl

theorem bind_ok_map {α β γ δ : Type} (x : Hex.Outcome α) (g : α → β) (h : β → δ) (h' : α → γ) (m : γ → δ) (hh : ∀ v, h (g v) = m (h' v)) :
    (Hex.Outcome.bind x fun v => Hex.Outcome.ok (g v)).map h = (x.map h').map m := by
  cases x with
  | ok v => simp [Hex.Outcome.map, Hex.Outcome.bind, hh]
  | err e => rfl
  | panic => rfl

theorem map_ite {α β : Type} (f : α → β) (c : Prop) [Decidable c] (a b : Hex.Outcome α) :
    (if c then a else b).map f = if c then a.map f else b.map f := by
  split <;> rfl

/-- `hex.strip_prefix('#').map_or(hex, |stripped| stripped)` is the model's `stripHash` -/
theorem strip_eq (hex : Hex.Bytes) : mapOr hex (fun a => a) (stripPrefixChar 35 hex) = Hex.stripHash hex := by
  cases hex with
  | nil => rfl
  | cons c r =>
    simp only [stripPrefixChar, Hex.stripHash]
    split <;> rfl

theorem utf8_strip (hex : Hex.Bytes) (h : Utf8 hex) : Utf8 (Hex.stripHash hex) := by
  cases hex with
  | nil => exact h
  | cons c r =>
    simp only [Hex.stripHash]
    split
    · next hc =>
      unfold Utf8 at h ⊢
      simp only [wfFrom, utf8Len, hc] at h
      simpa using h
    · exact h

/-! ## `check_hex_digits`: the walk over `char`s is the model's walk over bytes -/

/-- the predicate of the `find` in `check_hex_digits` -/
abbrev nonHex : Nat × Ch → Bool := fun a => !(Ch.isAsciiHexdigit a.2)

/-- one step of the walk, at a `char` boundary: a hex digit is one byte, the walk stays at a boundary; anything else is found -/
theorem find_step (b : UInt8) (r : Hex.Bytes) (i : Nat) :
    find nonHex (charIndicesFrom (b :: r) i 0)
      = if Hex.isHexDigit b = true then find nonHex (charIndicesFrom r (i + 1) 0) else some (i, ⟨b, utf8Len b⟩) := by
  by_cases hb : Hex.isHexDigit b = true
  · have h1 : utf8Len b = 1 := by simp [utf8Len, C12.hex_lt_128 hb]
    simp [charIndicesFrom, find, Ch.isAsciiHexdigit, hb, h1]
  · have hb' : Hex.isHexDigit b = false := by simpa using hb
    simp [charIndicesFrom, find, Ch.isAsciiHexdigit, hb']

/-- after the continuation bytes a well-formed string owes, it ends or a lead byte follows -/
theorem wf_next : ∀ (r : Hex.Bytes) (s : Nat), wfFrom r s = true →
    s ≤ r.length ∧ (s < r.length → (r.getD s 0).toNat < 128 ∨ 192 ≤ (r.getD s 0).toNat) := by
  intro r
  induction r with
  | nil => intro s h; cases s <;> simp [wfFrom] at h ⊢
  | cons c r ih =>
    intro s h
    cases s with
    | zero =>
      simp only [wfFrom, Bool.and_eq_true, Bool.or_eq_true, decide_eq_true_eq] at h
      exact ⟨Nat.zero_le _, fun _ => by simpa using h.1⟩
    | succ s =>
      simp only [wfFrom, Bool.and_eq_true] at h
      have := ih s h.2
      refine ⟨by simp; omega, fun hlt => ?_⟩
      have hlt' : s < r.length := by simpa using hlt
      simpa using this.2 hlt'

theorem utf8Len_pos (b : UInt8) : 1 ≤ utf8Len b := by
  unfold utf8Len; split <;> (try split) <;> (try split) <;> omega

/-- slicing out the `char` that starts at a boundary succeeds on a well-formed string -/
theorem slice_char (pre r : Hex.Bytes) (b : UInt8) (hw : wfFrom (b :: r) 0 = true) :
    Hex.slice (pre ++ b :: r) pre.length (pre.length + utf8Len b) = some (b :: r.take (utf8Len b - 1)) := by
  have hL := utf8Len_pos b
  simp only [wfFrom, Bool.and_eq_true, Bool.or_eq_true, decide_eq_true_eq] at hw
  obtain ⟨hlead, hrest⟩ := hw
  obtain ⟨hlen, hnext⟩ := wf_next r (utf8Len b - 1) hrest
  have hb1 : Hex.isCharBoundary (pre ++ b :: r) pre.length = true := by
    unfold Hex.isCharBoundary
    by_cases h0 : pre.length = 0
    · simp [h0]
    · have : ¬ (pre ++ b :: r).length ≤ pre.length := by simp
      simp only [h0, this, if_false]
      simp [List.getD_eq_getElem?_getD, hlead]
  have hb2 : Hex.isCharBoundary (pre ++ b :: r) (pre.length + utf8Len b) = true := by
    unfold Hex.isCharBoundary
    have h0 : ¬ pre.length + utf8Len b = 0 := by omega
    by_cases hl : (pre ++ b :: r).length ≤ pre.length + utf8Len b
    · have : pre.length + utf8Len b = (pre ++ b :: r).length := by simp at hl ⊢; omega
      simp [h0, hl, this]
    · have hlt : utf8Len b - 1 < r.length := by simp at hl; omega
      have hidx : (pre ++ b :: r)[pre.length + utf8Len b]? = r[utf8Len b - 1]? := by
        rw [List.getElem?_append_right (by omega)]
        have : pre.length + utf8Len b - pre.length = (utf8Len b - 1) + 1 := by omega
        rw [this, List.getElem?_cons_succ]
      have hn := hnext hlt
      simp only [List.getD_eq_getElem?_getD] at hn
      simp only [h0, hl, if_false, List.getD_eq_getElem?_getD, hidx]
      simpa using hn
  unfold Hex.slice
  rw [if_pos ⟨by omega, hb1, hb2⟩]
  have : pre.length + utf8Len b - pre.length = (utf8Len b - 1) + 1 := by omega
  simp [this, List.take_succ_cons]

/-- `from_str_radix` on a `char` that is not a hex digit: `InvalidDigit` (a lone sign included) -/
theorem radix_nonhex (b : UInt8) (rest : Hex.Bytes) (hb : Hex.isHexDigit b = false) (hplus : b.toNat = 43 → rest = []) :
    Hex.fromStrRadix16 8 (b :: rest) = .error .invalidDigit := by
  have hd := C12.toDigit_none_of_not_hex hb
  cases rest with
  | nil =>
    simp only [Hex.fromStrRadix16]
    split
    · rfl
    · simp [Hex.digitsLoop, hd]
  | cons d rest =>
    have : ¬ b.toNat = 43 := fun h => by cases hplus h
    simp [Hex.fromStrRadix16, this, Hex.digitsLoop, hd]

theorem check_scan : ∀ (suf pre : Hex.Bytes), pre.all Hex.isHexDigit = true → wfFrom suf 0 = true →
    PRes.lift id (match find nonHex (charIndicesFrom suf pre.length 0) with
      | some m => PRes.slice (pre ++ suf) m.1 (m.1 + Ch.lenUtf8 m.2) fun s => PRes.map (fun _ => ()) (fromStrRadix16 8 s)
      | none => PRes.ok ()) = Hex.checkHexDigits (pre ++ suf) := by
  intro suf
  induction suf with
  | nil =>
    intro pre hpre _
    rw [C12.checkHexDigits_true (by simpa using hpre)]
    rfl
  | cons b r ih =>
    intro pre hpre hw
    rw [find_step]
    by_cases hb : Hex.isHexDigit b = true
    · have h1 : utf8Len b = 1 := by simp [utf8Len, C12.hex_lt_128 hb]
      have hw' : wfFrom r 0 = true := by
        simp only [wfFrom, Bool.and_eq_true, h1] at hw
        exact hw.2
      have := ih (pre ++ [b]) (by simp [hpre, hb]) hw'
      simp only [List.length_append, List.length_cons, List.length_nil, List.append_assoc, List.singleton_append, List.nil_append] at this
      simpa [hb] using this
    · have hb' : Hex.isHexDigit b = false := by simpa using hb
      rw [C12.checkHexDigits_false (by simp [hb'])]
      have hplus : b.toNat = 43 → r.take (utf8Len b - 1) = [] := by
        intro h43; simp [utf8Len, h43]
      simp only [hb', if_false, Bool.false_eq_true, Ch.lenUtf8, PRes.slice, slice_char pre r b hw, HexPrim.fromStrRadix16,
        radix_nonhex b _ hb' hplus]
      rfl

/-- **`check_hex_digits`**: on the bytes of a `&str`, the source's walk over `char`s (`char_indices().find(..)`, then parsing the offending
    `char` alone, sliced out at `i..i + c.len_utf8()`) is the model's "every byte is an ASCII hex digit, else `InvalidDigit`" - in particular the
    slice in it never panics -/
theorem tie_checkHexDigits (hex : Hex.Bytes) (h : Utf8 hex) :
    PRes.lift id (Gen.BodyHex.checkHexDigits hex) = Hex.checkHexDigits hex := by
  exact check_scan hex [] rfl h

/-- the products `digit * 17` of `rgb_from_hex_4bit` / `rgba_from_hex_4bit` fit a `u8` (the reading `HexPrim.mulU` = exact product applies):
    a component parsed from a one-byte slice is at most 15 -/
theorem nibble_mul_fits (hex : Hex.Bytes) (i v : Nat) (h : Hex.comp 8 hex i (i + 1) = .ok v) : mulU v 17 < 2 ^ 8 := by
  unfold Hex.comp at h
  cases hs : Hex.slice hex i (i + 1) with
  | none => simp [hs] at h
  | some t =>
    have ht : t.length ≤ 1 := by
      unfold Hex.slice at hs
      split at hs
      · cases hs; simp [List.length_take]; omega
      · cases hs
    simp only [hs] at h
    have hr : Hex.fromStrRadix16 8 t = .ok v := by
      cases hr : Hex.fromStrRadix16 8 t with
      | ok w => simp only [hr, Hex.Outcome.ok.injEq] at h; rw [h]
      | error e => simp [hr] at h
    have hv : v < 16 := by
      match t, ht with
      | [], _ => simp [Hex.fromStrRadix16] at hr
      | [c], _ =>
        simp only [Hex.fromStrRadix16] at hr
        split at hr
        · simp at hr
        · by_cases hc : Hex.isHexDigit c = true
          · obtain ⟨x, hx, hx16⟩ := C12.toDigit_of_hex hc
            simp only [Hex.digitsLoop, hx] at hr
            split at hr
            · simp at hr; omega
            · simp at hr
          · have hc' : Hex.isHexDigit c = false := by simpa using hc
            simp [Hex.digitsLoop, C12.toDigit_none_of_not_hex hc'] at hr
    unfold mulU; omega

example : Utf8 [0x23, 0xC3, 0xA9, 0x31, 0xE2, 0x82, 0xAC] := by unfold Utf8; decide

/-! ## rgb/hex.rs -/

theorem tie_rgbFromHex4bit (hex : Hex.Bytes) (h : Utf8 hex) : PRes.lift t3 (Gen.BodyHex.rgbFromHex4bit hex) = Hex.rgbFromHex4bit hex := by
  unfold Gen.BodyHex.rgbFromHex4bit Hex.rgbFromHex4bit Hex.rgbFromHex4bitBody
  rw [← tie_checkHexDigits hex h]
  apply lift_bind_via
  intro v
  simp only [lift_slice_radix]
  rfl

theorem tie_rgbaFromHex4bit (hex : Hex.Bytes) (h : Utf8 hex) : PRes.lift t4 (Gen.BodyHex.rgbaFromHex4bit hex) = Hex.rgbaFromHex4bit hex := by
  unfold Gen.BodyHex.rgbaFromHex4bit Hex.rgbaFromHex4bit Hex.rgbaFromHex4bitBody
  rw [← tie_rgbFromHex4bit hex h]
  apply lift_bind_via
  intro v
  simp only [lift_slice_radix]
  rfl

theorem tie_rgbFromHex8bit (hex : Hex.Bytes) (h : Utf8 hex) : PRes.lift t3 (Gen.BodyHex.rgbFromHex8bit hex) = Hex.rgbFromHex8bit hex := by
  unfold Gen.BodyHex.rgbFromHex8bit Hex.rgbFromHex8bit Hex.rgbFromHexBody
  rw [← tie_checkHexDigits hex h]
  apply lift_bind_via
  intro v
  simp only [lift_slice_radix]
  rfl

theorem tie_rgbaFromHex8bit (hex : Hex.Bytes) (h : Utf8 hex) : PRes.lift t4 (Gen.BodyHex.rgbaFromHex8bit hex) = Hex.rgbaFromHex8bit hex := by
  unfold Gen.BodyHex.rgbaFromHex8bit Hex.rgbaFromHex8bit Hex.rgbaFromHexBody
  rw [← tie_rgbFromHex8bit hex h]
  apply lift_bind_via
  intro v
  simp only [lift_slice_radix]
  rfl

theorem tie_rgbFromHex16bit (hex : Hex.Bytes) (h : Utf8 hex) : PRes.lift t3 (Gen.BodyHex.rgbFromHex16bit hex) = Hex.rgbFromHex16bit hex := by
  unfold Gen.BodyHex.rgbFromHex16bit Hex.rgbFromHex16bit Hex.rgbFromHexBody
  rw [← tie_checkHexDigits hex h]
  apply lift_bind_via
  intro v
  simp only [lift_slice_radix]
  rfl

theorem tie_rgbaFromHex16bit (hex : Hex.Bytes) (h : Utf8 hex) : PRes.lift t4 (Gen.BodyHex.rgbaFromHex16bit hex) = Hex.rgbaFromHex16bit hex := by
  unfold Gen.BodyHex.rgbaFromHex16bit Hex.rgbaFromHex16bit Hex.rgbaFromHexBody
  rw [← tie_rgbFromHex16bit hex h]
  apply lift_bind_via
  intro v
  simp only [lift_slice_radix]
  rfl

theorem tie_rgbFromHex32bit (hex : Hex.Bytes) (h : Utf8 hex) : PRes.lift t3 (Gen.BodyHex.rgbFromHex32bit hex) = Hex.rgbFromHex32bit hex := by
  unfold Gen.BodyHex.rgbFromHex32bit Hex.rgbFromHex32bit Hex.rgbFromHexBody
  rw [← tie_checkHexDigits hex h]
  apply lift_bind_via
  intro v
  simp only [lift_slice_radix]
  rfl

theorem tie_rgbaFromHex32bit (hex : Hex.Bytes) (h : Utf8 hex) : PRes.lift t4 (Gen.BodyHex.rgbaFromHex32bit hex) = Hex.rgbaFromHex32bit hex := by
  unfold Gen.BodyHex.rgbaFromHex32bit Hex.rgbaFromHex32bit Hex.rgbaFromHexBody
  rw [← tie_rgbFromHex32bit hex h]
  apply lift_bind_via
  intro v
  simp only [lift_slice_radix]
  rfl

/-! ## the error enum's conversions, constructors -/

theorem tie_fromParseIntError : Gen.BodyHex.fromParseIntError = Hex.Err.parseInt := rfl
/-- `From<&'static str>` builds `HexFormatError` (not used by the parsers, which name the variant themselves) -/
theorem tie_fromStaticStr : Gen.BodyHex.fromStaticStr = fun _ => Hex.Err.hexFormat := rfl
theorem tie_rgbNew {τ : Type} : @Gen.BodyHex.rgbNew τ = Prim.Rgb3.mk := rfl
theorem tie_rgbaNew {τ : Type} (r g b a : τ) : Gen.BodyHex.rgbaNew r g b a = Prim.AlphaOf.mk (Prim.Rgb3.mk r g b) a := rfl
theorem tie_lumaNew {τ : Type} : @Gen.BodyHex.lumaNew τ = Prim.Luma1.mk := rfl
theorem tie_lumaaNew {τ : Type} (l a : τ) : Gen.BodyHex.lumaaNew l a = Prim.AlphaOf.mk (Prim.Luma1.mk l) a := rfl
/-- `from_components((r, g, b))`: the components in tuple order -/
theorem tie_rgbFromComponents {τ : Type} (t : τ × τ × τ) : (Gen.BodyHex.rgbFromComponents t).toList = HexPrim.t3 t := rfl
theorem tie_rgbaFromComponents {τ : Type} (t : τ × τ × τ × τ) : rgbaList (Gen.BodyHex.rgbaFromComponents t) = HexPrim.t4 t := rfl

/-! ## the ten `FromStr` impls

  `into_format()` is trait-dispatched: a parameter of the translation, instantiated here at the translated `Rgb::into_format` /
  `Rgba::into_format` of family `format` (`Gen.Body.rgbIntoFormat conv`, tied to `Stim.intoFormat` in `Tie_Format`), with the
  component conversion `Stim.widen a b` between integer widths (tied to stimulus.rs in `Tie_Stimulus`) and an arbitrary `conv`
  into a float type, as in the model.  The wider impls call the narrower `from_str` (a parameter: instantiated at its translation). -/

theorem tie_fromStrRgbU8 (hex : Hex.Bytes) (h : Utf8 hex) : (Gen.BodyHex.fromStrRgbU8 hex).map Prim.Rgb3.toList = Hex.fromStrRgbU8 hex := by
  have hs := utf8_strip hex h
  unfold Gen.BodyHex.fromStrRgbU8 Hex.fromStrRgbU8
  simp only [strip_eq, map_ite]
  rw [tryFrom_ok_map _ _ _ t3 tie_rgbFromComponents, tryFrom_ok_map _ _ _ t3 tie_rgbFromComponents,
    tie_rgbFromHex4bit _ hs, tie_rgbFromHex8bit _ hs]
  rfl

theorem tie_fromStrRgbaU8 (hex : Hex.Bytes) (h : Utf8 hex) : (Gen.BodyHex.fromStrRgbaU8 hex).map rgbaList = Hex.fromStrRgbaU8 hex := by
  have hs := utf8_strip hex h
  unfold Gen.BodyHex.fromStrRgbaU8 Hex.fromStrRgbaU8
  simp only [strip_eq, map_ite]
  rw [tryFrom_ok_map _ _ _ t4 tie_rgbaFromComponents, tryFrom_ok_map _ _ _ t4 tie_rgbaFromComponents,
    tie_rgbaFromHex4bit _ hs, tie_rgbaFromHex8bit _ hs]
  rfl

/-- `Rgb::into_format` with the component conversion `conv` (the translated body of family `format`) -/
abbrev rgbFmt {σ τ : Type} (conv : σ → τ) : Prim.Rgb3 σ → Prim.Rgb3 τ := Gen.Body.rgbIntoFormat conv
/-- `Rgba::into_format`: colour and alpha converted with `conv` -/
abbrev rgbaFmt {σ τ : Type} (conv : σ → τ) : Prim.AlphaOf (Prim.Rgb3 σ) σ → Prim.AlphaOf (Prim.Rgb3 τ) τ :=
  Gen.Body.rgbaIntoFormat (Gen.Body.rgbIntoFormat conv) conv

theorem rgbFmt_list {σ τ : Type} (conv : σ → τ) (c : Prim.Rgb3 σ) : (rgbFmt conv c).toList = c.toList.map conv := rfl
theorem rgbaFmt_list {σ τ : Type} (conv : σ → τ) (c : Prim.AlphaOf (Prim.Rgb3 σ) σ) : rgbaList (rgbaFmt conv c) = (rgbaList c).map conv := rfl

theorem tie_fromStrRgbU16 (hex : Hex.Bytes) (h : Utf8 hex) :
    (Gen.BodyHex.fromStrRgbU16 (rgbFmt (Stim.widen 8 16)) hex).map Prim.Rgb3.toList = Hex.fromStrRgbU16 hex := by
  have hs := utf8_strip hex h
  unfold Gen.BodyHex.fromStrRgbU16 Hex.fromStrRgbU16
  simp only [strip_eq, map_ite]
  rw [bind_ok_map _ _ _ Prim.Rgb3.toList _ (rgbFmt_list _), tryFrom_ok_map _ _ _ t3 tie_rgbFromComponents,
    tie_fromStrRgbU8 _ hs, tie_rgbFromHex16bit _ hs]
  rfl

theorem tie_fromStrRgbaU16 (hex : Hex.Bytes) (h : Utf8 hex) :
    (Gen.BodyHex.fromStrRgbaU16 (rgbaFmt (Stim.widen 8 16)) hex).map rgbaList = Hex.fromStrRgbaU16 hex := by
  have hs := utf8_strip hex h
  unfold Gen.BodyHex.fromStrRgbaU16 Hex.fromStrRgbaU16
  simp only [strip_eq, map_ite]
  rw [bind_ok_map _ _ _ rgbaList _ (rgbaFmt_list _), tryFrom_ok_map _ _ _ t4 tie_rgbaFromComponents,
    tie_fromStrRgbaU8 _ hs, tie_rgbaFromHex16bit _ hs]
  rfl

theorem tie_fromStrRgbU32 (hex : Hex.Bytes) (h : Utf8 hex) :
    (Gen.BodyHex.fromStrRgbU32 (rgbFmt (Stim.widen 8 32)) (Gen.BodyHex.fromStrRgbU16 (rgbFmt (Stim.widen 8 16))) (rgbFmt (Stim.widen 16 32)) hex).map Prim.Rgb3.toList
      = Hex.fromStrRgbU32 hex := by
  have hs := utf8_strip hex h
  unfold Gen.BodyHex.fromStrRgbU32 Hex.fromStrRgbU32
  simp only [strip_eq, map_ite]
  rw [bind_ok_map _ _ _ Prim.Rgb3.toList _ (rgbFmt_list _), bind_ok_map _ _ _ Prim.Rgb3.toList _ (rgbFmt_list _),
    tryFrom_ok_map _ _ _ t3 tie_rgbFromComponents, tie_fromStrRgbU8 _ hs, tie_fromStrRgbU16 _ hs, tie_rgbFromHex32bit _ hs]
  rfl

theorem tie_fromStrRgbaU32 (hex : Hex.Bytes) (h : Utf8 hex) :
    (Gen.BodyHex.fromStrRgbaU32 (rgbaFmt (Stim.widen 8 32)) (Gen.BodyHex.fromStrRgbaU16 (rgbaFmt (Stim.widen 8 16))) (rgbaFmt (Stim.widen 16 32)) hex).map rgbaList
      = Hex.fromStrRgbaU32 hex := by
  have hs := utf8_strip hex h
  unfold Gen.BodyHex.fromStrRgbaU32 Hex.fromStrRgbaU32
  simp only [strip_eq, map_ite]
  rw [bind_ok_map _ _ _ rgbaList _ (rgbaFmt_list _), bind_ok_map _ _ _ rgbaList _ (rgbaFmt_list _),
    tryFrom_ok_map _ _ _ t4 tie_rgbaFromComponents, tie_fromStrRgbaU8 _ hs, tie_fromStrRgbaU16 _ hs, tie_rgbaFromHex32bit _ hs]
  rfl

section floats
variable {φ : Type} (conv : Nat → Nat → φ)

/-- the translated `Rgb<S, u16>::from_str` / `Rgb<S, u32>::from_str` with their own dictionaries filled as above -/
abbrev rgbU16 : Hex.Bytes → Hex.Outcome (Prim.Rgb3 Nat) := Gen.BodyHex.fromStrRgbU16 (rgbFmt (Stim.widen 8 16))
abbrev rgbU32 : Hex.Bytes → Hex.Outcome (Prim.Rgb3 Nat) := Gen.BodyHex.fromStrRgbU32 (rgbFmt (Stim.widen 8 32)) rgbU16 (rgbFmt (Stim.widen 16 32))
abbrev rgbaU16 : Hex.Bytes → Hex.Outcome (Prim.AlphaOf (Prim.Rgb3 Nat) Nat) := Gen.BodyHex.fromStrRgbaU16 (rgbaFmt (Stim.widen 8 16))
abbrev rgbaU32 : Hex.Bytes → Hex.Outcome (Prim.AlphaOf (Prim.Rgb3 Nat) Nat) :=
  Gen.BodyHex.fromStrRgbaU32 (rgbaFmt (Stim.widen 8 32)) rgbaU16 (rgbaFmt (Stim.widen 16 32))

theorem tie_fromStrRgbF32 (hex : Hex.Bytes) (h : Utf8 hex) :
    (Gen.BodyHex.fromStrRgbF32 (rgbFmt (conv 8)) rgbU16 (rgbFmt (conv 16)) rgbU32 (rgbFmt (conv 32)) hex).map Prim.Rgb3.toList = Hex.fromStrRgbF32 conv hex := by
  have hs := utf8_strip hex h
  unfold Gen.BodyHex.fromStrRgbF32 Hex.fromStrRgbF32
  simp only [strip_eq, map_ite]
  rw [bind_ok_map _ _ _ Prim.Rgb3.toList _ (rgbFmt_list _), bind_ok_map _ _ _ Prim.Rgb3.toList _ (rgbFmt_list _),
    tie_fromStrRgbU8 _ hs, tie_fromStrRgbU16 _ hs]
  rfl

theorem tie_fromStrRgbaF32 (hex : Hex.Bytes) (h : Utf8 hex) :
    (Gen.BodyHex.fromStrRgbaF32 (rgbaFmt (conv 8)) rgbaU16 (rgbaFmt (conv 16)) rgbaU32 (rgbaFmt (conv 32)) hex).map rgbaList = Hex.fromStrRgbaF32 conv hex := by
  have hs := utf8_strip hex h
  unfold Gen.BodyHex.fromStrRgbaF32 Hex.fromStrRgbaF32
  simp only [strip_eq, map_ite]
  rw [bind_ok_map _ _ _ rgbaList _ (rgbaFmt_list _), bind_ok_map _ _ _ rgbaList _ (rgbaFmt_list _),
    tie_fromStrRgbaU8 _ hs, tie_fromStrRgbaU16 _ hs]
  rfl

theorem tie_fromStrRgbF64 (hex : Hex.Bytes) (h : Utf8 hex) :
    (Gen.BodyHex.fromStrRgbF64 (rgbFmt (conv 8)) rgbU16 (rgbFmt (conv 16)) rgbU32 (rgbFmt (conv 32)) hex).map Prim.Rgb3.toList = Hex.fromStrRgbF64 conv hex := by
  have hs := utf8_strip hex h
  unfold Gen.BodyHex.fromStrRgbF64 Hex.fromStrRgbF64
  simp only [strip_eq, map_ite]
  rw [bind_ok_map _ _ _ Prim.Rgb3.toList _ (rgbFmt_list _), bind_ok_map _ _ _ Prim.Rgb3.toList _ (rgbFmt_list _),
    bind_ok_map _ _ _ Prim.Rgb3.toList _ (rgbFmt_list _), tie_fromStrRgbU8 _ hs, tie_fromStrRgbU16 _ hs, tie_fromStrRgbU32 _ hs]
  rfl

theorem tie_fromStrRgbaF64 (hex : Hex.Bytes) (h : Utf8 hex) :
    (Gen.BodyHex.fromStrRgbaF64 (rgbaFmt (conv 8)) rgbaU16 (rgbaFmt (conv 16)) rgbaU32 (rgbaFmt (conv 32)) hex).map rgbaList = Hex.fromStrRgbaF64 conv hex := by
  have hs := utf8_strip hex h
  unfold Gen.BodyHex.fromStrRgbaF64 Hex.fromStrRgbaF64
  simp only [strip_eq, map_ite]
  rw [bind_ok_map _ _ _ rgbaList _ (rgbaFmt_list _), bind_ok_map _ _ _ rgbaList _ (rgbaFmt_list _),
    bind_ok_map _ _ _ rgbaList _ (rgbaFmt_list _), tie_fromStrRgbaU8 _ hs, tie_fromStrRgbaU16 _ hs, tie_fromStrRgbaU32 _ hs]
  rfl

end floats

/-! ## `LowerHex` / `UpperHex`

  `{:0width$x}` of a component is `core::fmt`'s (a parameter: instantiated at the model's `Hex.fmtComp`); of `self.color` inside `Alpha` it is
  the colour's own impl, which then sees `f.width() = Some(size)`: instantiated at the translated `Rgb` impl. -/

theorem unwrapOr_getD {α : Type} (d : α) (o : Option α) : unwrapOr d o = o.getD d := by cases o <;> rfl

theorem tie_rgbLowerHex (width : Option Nat) (sizeOfT : Nat) (c : Prim.Rgb3 Nat) :
    Gen.BodyHex.rgbLowerHex width sizeOfT (Hex.fmtComp false) (Hex.fmtComp true) c = Hex.fmtRgb false width sizeOfT c.toList := by
  simp [Gen.BodyHex.rgbLowerHex, Hex.fmtRgb, unwrapOr_getD, write, Prim.Rgb3.toList]

theorem tie_rgbUpperHex (width : Option Nat) (sizeOfT : Nat) (c : Prim.Rgb3 Nat) :
    Gen.BodyHex.rgbUpperHex width sizeOfT (Hex.fmtComp false) (Hex.fmtComp true) c = Hex.fmtRgb true width sizeOfT c.toList := by
  simp [Gen.BodyHex.rgbUpperHex, Hex.fmtRgb, unwrapOr_getD, write, Prim.Rgb3.toList]

/-- `Luma`: the one-component case of the same model function -/
theorem tie_lumaLowerHex (width : Option Nat) (sizeOfT : Nat) (c : Prim.Luma1 Nat) :
    Gen.BodyHex.lumaLowerHex width sizeOfT (Hex.fmtComp false) (Hex.fmtComp true) c = Hex.fmtRgb false width sizeOfT c.toList := by
  simp [Gen.BodyHex.lumaLowerHex, Hex.fmtRgb, unwrapOr_getD, write, Prim.Luma1.toList]

theorem tie_lumaUpperHex (width : Option Nat) (sizeOfT : Nat) (c : Prim.Luma1 Nat) :
    Gen.BodyHex.lumaUpperHex width sizeOfT (Hex.fmtComp false) (Hex.fmtComp true) c = Hex.fmtRgb true width sizeOfT c.toList := by
  simp [Gen.BodyHex.lumaUpperHex, Hex.fmtRgb, unwrapOr_getD, write, Prim.Luma1.toList]

theorem tie_alphaLowerHex (width : Option Nat) (sizeOfT : Nat) (c : Prim.AlphaOf (Prim.Rgb3 Nat) Nat) :
    Gen.BodyHex.alphaLowerHex width sizeOfT
        (fun w col => Gen.BodyHex.rgbLowerHex (some w) sizeOfT (Hex.fmtComp false) (Hex.fmtComp true) col)
        (fun w col => Gen.BodyHex.rgbUpperHex (some w) sizeOfT (Hex.fmtComp false) (Hex.fmtComp true) col)
        (Hex.fmtComp false) (Hex.fmtComp true) c
      = Hex.fmtRgba false width sizeOfT (rgbaList c) := by
  simp [Gen.BodyHex.alphaLowerHex, tie_rgbLowerHex, Hex.fmtRgba, Hex.fmtRgb, unwrapOr_getD, write, Prim.Rgb3.toList, rgbaList]

theorem tie_alphaUpperHex (width : Option Nat) (sizeOfT : Nat) (c : Prim.AlphaOf (Prim.Rgb3 Nat) Nat) :
    Gen.BodyHex.alphaUpperHex width sizeOfT
        (fun w col => Gen.BodyHex.rgbLowerHex (some w) sizeOfT (Hex.fmtComp false) (Hex.fmtComp true) col)
        (fun w col => Gen.BodyHex.rgbUpperHex (some w) sizeOfT (Hex.fmtComp false) (Hex.fmtComp true) col)
        (Hex.fmtComp false) (Hex.fmtComp true) c
      = Hex.fmtRgba true width sizeOfT (rgbaList c) := by
  simp [Gen.BodyHex.alphaUpperHex, tie_rgbUpperHex, Hex.fmtRgba, Hex.fmtRgb, unwrapOr_getD, write, Prim.Rgb3.toList, rgbaList]

/-! ## packed integers -/

/-- the ASCII name of each unit struct of `rgb/channels.rs` (what `Gen/Channels.lean` keys the extracted orders by) -/
def rgbaOrderName : RgbaOrder → List Nat
  | .Abgr => [65, 98, 103, 114] | .Argb => [65, 114, 103, 98] | .Bgra => [66, 103, 114, 97] | .Rgba => [82, 103, 98, 97]
def lumaOrderName : LumaOrder → List Nat
  | .La => [76, 97] | .Al => [65, 108]
/-- the model's order of that name -/
def rgbaOrd (o : RgbaOrder) : Packed.Order := Packed.defaultOrder Packed.rgbaOrders (rgbaOrderName o)
def lumaOrd (o : LumaOrder) : Packed.Order := Packed.defaultOrder Packed.lumaOrders (lumaOrderName o)

/-- every struct of the source has its extracted order (so `defaultOrder` never falls back to the empty order) -/
theorem rgbaOrd_name (o : RgbaOrder) : (rgbaOrd o).name = rgbaOrderName o ∧ rgbaOrd o ∈ Packed.rgbaOrders := by cases o <;> decide
theorem lumaOrd_name (o : LumaOrder) : (lumaOrd o).name = lumaOrderName o ∧ lumaOrd o ∈ Packed.lumaOrders := by cases o <;> decide

/-- the translated `pack` / `unpack` of the struct `o` -/
def rgbaPackOf : RgbaOrder → Prim.AlphaOf (Prim.Rgb3 Nat) Nat → Nat × Nat × Nat × Nat
  | .Abgr => Gen.BodyHex.abgrPack | .Argb => Gen.BodyHex.argbPack | .Bgra => Gen.BodyHex.bgraPack | .Rgba => Gen.BodyHex.rgbaPack
def rgbaUnpackOf : RgbaOrder → Nat × Nat × Nat × Nat → Prim.AlphaOf (Prim.Rgb3 Nat) Nat
  | .Abgr => Gen.BodyHex.abgrUnpack | .Argb => Gen.BodyHex.argbUnpack | .Bgra => Gen.BodyHex.bgraUnpack | .Rgba => Gen.BodyHex.rgbaUnpack
def lumaPackOf : LumaOrder → Prim.AlphaOf (Prim.Luma1 Nat) Nat → Nat × Nat
  | .La => Gen.BodyHex.laPack | .Al => Gen.BodyHex.alPack
def lumaUnpackOf : LumaOrder → Nat × Nat → Prim.AlphaOf (Prim.Luma1 Nat) Nat
  | .La => Gen.BodyHex.laUnpack | .Al => Gen.BodyHex.alUnpack

/-! ### rgb/channels.rs, luma/channels.rs: array positions -/
theorem tie_abgrPack (c : Prim.AlphaOf (Prim.Rgb3 Nat) Nat) : t4 (Gen.BodyHex.abgrPack c) = Packed.packArr (rgbaOrd .Abgr) (rgbaList c) := rfl
theorem tie_abgrUnpack (p : Nat × Nat × Nat × Nat) : rgbaList (Gen.BodyHex.abgrUnpack p) = Packed.unpackArr (rgbaOrd .Abgr) (t4 p) := rfl
theorem tie_argbPack (c : Prim.AlphaOf (Prim.Rgb3 Nat) Nat) : t4 (Gen.BodyHex.argbPack c) = Packed.packArr (rgbaOrd .Argb) (rgbaList c) := rfl
theorem tie_argbUnpack (p : Nat × Nat × Nat × Nat) : rgbaList (Gen.BodyHex.argbUnpack p) = Packed.unpackArr (rgbaOrd .Argb) (t4 p) := rfl
theorem tie_bgraPack (c : Prim.AlphaOf (Prim.Rgb3 Nat) Nat) : t4 (Gen.BodyHex.bgraPack c) = Packed.packArr (rgbaOrd .Bgra) (rgbaList c) := rfl
theorem tie_bgraUnpack (p : Nat × Nat × Nat × Nat) : rgbaList (Gen.BodyHex.bgraUnpack p) = Packed.unpackArr (rgbaOrd .Bgra) (t4 p) := rfl
theorem tie_rgbaPack (c : Prim.AlphaOf (Prim.Rgb3 Nat) Nat) : t4 (Gen.BodyHex.rgbaPack c) = Packed.packArr (rgbaOrd .Rgba) (rgbaList c) := rfl
theorem tie_rgbaUnpack (p : Nat × Nat × Nat × Nat) : rgbaList (Gen.BodyHex.rgbaUnpack p) = Packed.unpackArr (rgbaOrd .Rgba) (t4 p) := rfl
theorem tie_laPack (c : Prim.AlphaOf (Prim.Luma1 Nat) Nat) : t2 (Gen.BodyHex.laPack c) = Packed.packArr (lumaOrd .La) (lumaaList c) := rfl
theorem tie_laUnpack (p : Nat × Nat) : lumaaList (Gen.BodyHex.laUnpack p) = Packed.unpackArr (lumaOrd .La) (t2 p) := rfl
theorem tie_alPack (c : Prim.AlphaOf (Prim.Luma1 Nat) Nat) : t2 (Gen.BodyHex.alPack c) = Packed.packArr (lumaOrd .Al) (lumaaList c) := rfl
theorem tie_alUnpack (p : Nat × Nat) : lumaaList (Gen.BodyHex.alUnpack p) = Packed.unpackArr (lumaOrd .Al) (t2 p) := rfl

/-! the model reads each permutation from the *re-extracted* `Gen/Channels.lean` (`gen_channels` of extract.py), so a changed array position moves
    model and translation together (caught by `C12.pack_matches_name` / `orders_inverse`); the documented position itself - slot `i` holds the
    component named by letter `i` of the struct's name - is therefore also stated against the translation alone: -/
theorem abgrPack_positions {τ : Type} (c : Prim.AlphaOf (Prim.Rgb3 τ) τ) : t4 (Gen.BodyHex.abgrPack c) = [c.alpha, c.color.blue, c.color.green, c.color.red] := rfl
theorem argbPack_positions {τ : Type} (c : Prim.AlphaOf (Prim.Rgb3 τ) τ) : t4 (Gen.BodyHex.argbPack c) = [c.alpha, c.color.red, c.color.green, c.color.blue] := rfl
theorem bgraPack_positions {τ : Type} (c : Prim.AlphaOf (Prim.Rgb3 τ) τ) : t4 (Gen.BodyHex.bgraPack c) = [c.color.blue, c.color.green, c.color.red, c.alpha] := rfl
theorem rgbaPack_positions {τ : Type} (c : Prim.AlphaOf (Prim.Rgb3 τ) τ) : t4 (Gen.BodyHex.rgbaPack c) = [c.color.red, c.color.green, c.color.blue, c.alpha] := rfl
theorem abgrUnpack_positions {τ : Type} (a b g r : τ) : Gen.BodyHex.abgrUnpack (a, b, g, r) = ⟨⟨r, g, b⟩, a⟩ := rfl
theorem argbUnpack_positions {τ : Type} (a r g b : τ) : Gen.BodyHex.argbUnpack (a, r, g, b) = ⟨⟨r, g, b⟩, a⟩ := rfl
theorem bgraUnpack_positions {τ : Type} (b g r a : τ) : Gen.BodyHex.bgraUnpack (b, g, r, a) = ⟨⟨r, g, b⟩, a⟩ := rfl
theorem rgbaUnpack_positions {τ : Type} (r g b a : τ) : Gen.BodyHex.rgbaUnpack (r, g, b, a) = ⟨⟨r, g, b⟩, a⟩ := rfl
theorem laPack_positions {τ : Type} (c : Prim.AlphaOf (Prim.Luma1 τ) τ) : t2 (Gen.BodyHex.laPack c) = [c.color.luma, c.alpha] := rfl
theorem alPack_positions {τ : Type} (c : Prim.AlphaOf (Prim.Luma1 τ) τ) : t2 (Gen.BodyHex.alPack c) = [c.alpha, c.color.luma] := rfl
theorem laUnpack_positions {τ : Type} (l a : τ) : Gen.BodyHex.laUnpack (l, a) = ⟨⟨l⟩, a⟩ := rfl
theorem alUnpack_positions {τ : Type} (a l : τ) : Gen.BodyHex.alUnpack (a, l) = ⟨⟨l⟩, a⟩ := rfl

theorem rgbaPackOf_eq (o : RgbaOrder) (c : Prim.AlphaOf (Prim.Rgb3 Nat) Nat) : t4 (rgbaPackOf o c) = Packed.packArr (rgbaOrd o) (rgbaList c) := by cases o <;> rfl
theorem rgbaUnpackOf_eq (o : RgbaOrder) (p : Nat × Nat × Nat × Nat) : rgbaList (rgbaUnpackOf o p) = Packed.unpackArr (rgbaOrd o) (t4 p) := by cases o <;> rfl
theorem lumaPackOf_eq (o : LumaOrder) (c : Prim.AlphaOf (Prim.Luma1 Nat) Nat) : t2 (lumaPackOf o c) = Packed.packArr (lumaOrd o) (lumaaList c) := by cases o <;> rfl
theorem lumaUnpackOf_eq (o : LumaOrder) (p : Nat × Nat) : lumaaList (lumaUnpackOf o p) = Packed.unpackArr (lumaOrd o) (t2 p) := by cases o <;> rfl

/-! ### cast/packed.rs: big-endian bytes -/
theorem u32FromBe_eq (b : Nat × Nat × Nat × Nat) : u32FromBeBytes b = Packed.fromBeBytes (t4 b) := by
  simp [u32FromBeBytes, Packed.fromBeBytes, t4]; omega
theorem u32ToBe_eq (x : Nat) : t4 (u32ToBeBytes x) = Packed.toBeBytes 4 x := by
  simp [u32ToBeBytes, Packed.toBeBytes, t4]
theorem u16FromBe_eq (b : Nat × Nat) : u16FromBeBytes b = Packed.fromBeBytes (t2 b) := by
  simp [u16FromBeBytes, Packed.fromBeBytes, t2]
theorem u16ToBe_eq (x : Nat) : t2 (u16ToBeBytes x) = Packed.toBeBytes 2 x := by
  simp [u16ToBeBytes, Packed.toBeBytes, t2]

/-- the blanket `impl ComponentOrder<C, u32> for T where T: ComponentOrder<C, [u8; 4]>`, for every array-level `pack`:
    big-endian value of the packed array -/
theorem orderPackU32_shape {γ : Type} (pack : γ → Nat × Nat × Nat × Nat) (unpack : Nat × Nat × Nat × Nat → γ) (c : γ) :
    Gen.BodyHex.orderPackU32 pack unpack c = Packed.fromBeBytes (t4 (pack c)) := u32FromBe_eq _
theorem orderUnpackU32_shape {γ : Type} (pack : γ → Nat × Nat × Nat × Nat) (unpack : Nat × Nat × Nat × Nat → γ) (x : Nat) :
    Gen.BodyHex.orderUnpackU32 pack unpack x = unpack (u32ToBeBytes x) := rfl

/-- `<O as ComponentOrder<Rgba<S, u8>, u32>>::pack` / `unpack` of the struct `o`: the blanket impl over the struct's array impl -/
abbrev packU32Of (o : RgbaOrder) : Prim.AlphaOf (Prim.Rgb3 Nat) Nat → Nat := Gen.BodyHex.orderPackU32 (rgbaPackOf o) (rgbaUnpackOf o)
abbrev unpackU32Of (o : RgbaOrder) : Nat → Prim.AlphaOf (Prim.Rgb3 Nat) Nat := Gen.BodyHex.orderUnpackU32 (rgbaPackOf o) (rgbaUnpackOf o)
abbrev packU16Of (o : LumaOrder) : Prim.AlphaOf (Prim.Luma1 Nat) Nat → Nat := Gen.BodyHex.orderPackU16 (lumaPackOf o) (lumaUnpackOf o)
abbrev unpackU16Of (o : LumaOrder) : Nat → Prim.AlphaOf (Prim.Luma1 Nat) Nat := Gen.BodyHex.orderUnpackU16 (lumaPackOf o) (lumaUnpackOf o)

theorem tie_orderPackU32 (o : RgbaOrder) (c : Prim.AlphaOf (Prim.Rgb3 Nat) Nat) :
    Gen.BodyHex.orderPackU32 (rgbaPackOf o) (rgbaUnpackOf o) c = Packed.packU32 (rgbaOrd o) (rgbaList c) := by
  rw [orderPackU32_shape, rgbaPackOf_eq]; rfl
theorem tie_orderUnpackU32 (o : RgbaOrder) (x : Nat) :
    rgbaList (Gen.BodyHex.orderUnpackU32 (rgbaPackOf o) (rgbaUnpackOf o) x) = Packed.unpackU32 (rgbaOrd o) x := by
  rw [orderUnpackU32_shape, rgbaUnpackOf_eq, u32ToBe_eq]; rfl
theorem tie_orderPackU16 (o : LumaOrder) (c : Prim.AlphaOf (Prim.Luma1 Nat) Nat) :
    Gen.BodyHex.orderPackU16 (lumaPackOf o) (lumaUnpackOf o) c = Packed.packU16 (lumaOrd o) (lumaaList c) := by
  show u16FromBeBytes _ = _
  rw [u16FromBe_eq, lumaPackOf_eq]; rfl
theorem tie_orderUnpackU16 (o : LumaOrder) (x : Nat) :
    lumaaList (Gen.BodyHex.orderUnpackU16 (lumaPackOf o) (lumaUnpackOf o) x) = Packed.unpackU16 (lumaOrd o) x := by
  show lumaaList (lumaUnpackOf o (u16ToBeBytes x)) = _
  rw [lumaUnpackOf_eq, u16ToBe_eq]; rfl

/-- `Packed::<O, u32>::pack(c).color` / `Packed { color: x, .. }.unpack()` -/
theorem tie_packedPack (o : RgbaOrder) (c : Prim.AlphaOf (Prim.Rgb3 Nat) Nat) :
    (Gen.BodyHex.packedPack (packU32Of o) (unpackU32Of o) c).color = Packed.packU32 (rgbaOrd o) (rgbaList c) := tie_orderPackU32 o c
theorem tie_packedUnpack (o : RgbaOrder) (x : Nat) :
    rgbaList (Gen.BodyHex.packedUnpack (packU32Of o) (unpackU32Of o) ⟨x⟩) = Packed.unpackU32 (rgbaOrd o) x := tie_orderUnpackU32 o x
theorem packedPack_shape {γ π : Type} (pack : γ → π) (unpack : π → γ) (c : γ) : (Gen.BodyHex.packedPack pack unpack c).color = pack c := rfl
theorem packedUnpack_shape {γ π : Type} (pack : γ → π) (unpack : π → γ) (p : PackedOf π) : Gen.BodyHex.packedUnpack pack unpack p = unpack p.color := rfl

/-! ### `Rgba::from(rgb)`, `into_u32` / `from_u32`, the plain `From` impls -/

/-- `impl From<C> for Alpha<C, T>`: alpha = `Self::max_alpha()` (not `T::max_intensity()` / `T::one()` directly); at `u8`, 255 -/
theorem tie_alphaFrom (c : Prim.Rgb3 Nat) (mi one : Nat) : rgbaList (Gen.BodyHex.alphaFrom 255 mi one c) = Packed.withAlpha c.toList := rfl
theorem alphaFrom_luma (c : Prim.Luma1 Nat) (mi one : Nat) : lumaaList (Gen.BodyHex.alphaFrom 255 mi one c) = Packed.withAlpha c.toList := rfl

abbrev rgbaOfRgb : Prim.Rgb3 Nat → Prim.AlphaOf (Prim.Rgb3 Nat) Nat := Gen.BodyHex.alphaFrom 255 255 1
abbrev lumaaOfLuma : Prim.Luma1 Nat → Prim.AlphaOf (Prim.Luma1 Nat) Nat := Gen.BodyHex.alphaFrom 255 255 1

theorem tie_rgbIntoU32 (o : RgbaOrder) (c : Prim.Rgb3 Nat) :
    Gen.BodyHex.rgbIntoU32 (packU32Of o) (unpackU32Of o) rgbaOfRgb c = Packed.rgbIntoU32 (rgbaOrd o) c.toList := by
  exact (tie_orderPackU32 o (rgbaOfRgb c)).trans rfl
theorem tie_rgbFromU32 (o : RgbaOrder) (x : Nat) :
    (Gen.BodyHex.rgbFromU32 (packU32Of o) (unpackU32Of o) rgbaOfRgb x).toList = Packed.rgbFromU32 (rgbaOrd o) x := by
  unfold Packed.rgbFromU32; rw [← tie_orderUnpackU32]; rfl
theorem tie_rgbaIntoU32 (o : RgbaOrder) (c : Prim.AlphaOf (Prim.Rgb3 Nat) Nat) :
    Gen.BodyHex.rgbaIntoU32 (packU32Of o) (unpackU32Of o) rgbaOfRgb c = Packed.packU32 (rgbaOrd o) (rgbaList c) := tie_orderPackU32 o c
theorem tie_rgbaFromU32 (o : RgbaOrder) (x : Nat) :
    rgbaList (Gen.BodyHex.rgbaFromU32 (packU32Of o) (unpackU32Of o) rgbaOfRgb x) = Packed.unpackU32 (rgbaOrd o) x := tie_orderUnpackU32 o x
theorem tie_lumaIntoU16 (o : LumaOrder) (c : Prim.Luma1 Nat) :
    Gen.BodyHex.lumaIntoU16 (packU16Of o) (unpackU16Of o) lumaaOfLuma c = Packed.lumaIntoU16 (lumaOrd o) c.toList := by
  exact (tie_orderPackU16 o (lumaaOfLuma c)).trans rfl
theorem tie_lumaFromU16 (o : LumaOrder) (x : Nat) :
    (Gen.BodyHex.lumaFromU16 (packU16Of o) (unpackU16Of o) lumaaOfLuma x).toList = Packed.lumaFromU16 (lumaOrd o) x := by
  unfold Packed.lumaFromU16; rw [← tie_orderUnpackU16]; rfl
theorem tie_lumaaIntoU16 (o : LumaOrder) (c : Prim.AlphaOf (Prim.Luma1 Nat) Nat) :
    Gen.BodyHex.lumaaIntoU16 (packU16Of o) (unpackU16Of o) lumaaOfLuma c = Packed.packU16 (lumaOrd o) (lumaaList c) := tie_orderPackU16 o c
theorem tie_lumaaFromU16 (o : LumaOrder) (x : Nat) :
    lumaaList (Gen.BodyHex.lumaaFromU16 (packU16Of o) (unpackU16Of o) lumaaOfLuma x) = Packed.unpackU16 (lumaOrd o) x := tie_orderUnpackU16 o x

/-- which order the plain `From` impls name: the type argument of the source (`super::channels::Argb`, ..) against the order the
    extraction records in `Gen/Channels.lean` and C12_Packed's `default_orders` is about -/
theorem tie_rgbOfU32 (x : Nat) :
    (Gen.BodyHex.rgbOfU32 (fun o => Gen.BodyHex.rgbFromU32 (packU32Of o) (unpackU32Of o) rgbaOfRgb) x).toList
      = Packed.rgbFromU32 (Packed.defaultOrder Packed.rgbaOrders Gen.Channels.fromU32Rgb) x := tie_rgbFromU32 .Argb x
theorem tie_rgbToU32 (c : Prim.Rgb3 Nat) :
    Gen.BodyHex.rgbToU32 (fun o => Gen.BodyHex.rgbIntoU32 (packU32Of o) (unpackU32Of o) rgbaOfRgb) c
      = Packed.rgbIntoU32 (Packed.defaultOrder Packed.rgbaOrders Gen.Channels.intoU32Rgb) c.toList := tie_rgbIntoU32 .Argb c
theorem tie_rgbaOfU32 (x : Nat) :
    rgbaList (Gen.BodyHex.rgbaOfU32 (fun o => Gen.BodyHex.rgbaFromU32 (packU32Of o) (unpackU32Of o) rgbaOfRgb) x)
      = Packed.unpackU32 (Packed.defaultOrder Packed.rgbaOrders Gen.Channels.fromU32Rgba) x := tie_rgbaFromU32 .Rgba x
theorem tie_rgbaToU32 (c : Prim.AlphaOf (Prim.Rgb3 Nat) Nat) :
    Gen.BodyHex.rgbaToU32 (fun o => Gen.BodyHex.rgbaIntoU32 (packU32Of o) (unpackU32Of o) rgbaOfRgb) c
      = Packed.packU32 (Packed.defaultOrder Packed.rgbaOrders Gen.Channels.intoU32Rgba) (rgbaList c) := tie_rgbaIntoU32 .Rgba c
theorem tie_lumaOfU16 (x : Nat) :
    (Gen.BodyHex.lumaOfU16 (fun o => Gen.BodyHex.lumaFromU16 (packU16Of o) (unpackU16Of o) lumaaOfLuma) x).toList
      = Packed.lumaFromU16 (Packed.defaultOrder Packed.lumaOrders Gen.Channels.fromU16Luma) x := tie_lumaFromU16 .Al x
theorem tie_lumaToU16 (c : Prim.Luma1 Nat) :
    Gen.BodyHex.lumaToU16 (fun o => Gen.BodyHex.lumaIntoU16 (packU16Of o) (unpackU16Of o) lumaaOfLuma) c
      = Packed.lumaIntoU16 (Packed.defaultOrder Packed.lumaOrders Gen.Channels.intoU16Luma) c.toList := tie_lumaIntoU16 .Al c
theorem tie_lumaaOfU16 (x : Nat) :
    lumaaList (Gen.BodyHex.lumaaOfU16 (fun o => Gen.BodyHex.lumaaFromU16 (packU16Of o) (unpackU16Of o) lumaaOfLuma) x)
      = Packed.unpackU16 (Packed.defaultOrder Packed.lumaOrders Gen.Channels.fromU16Lumaa) x := tie_lumaaFromU16 .La x
theorem tie_lumaaToU16 (c : Prim.AlphaOf (Prim.Luma1 Nat) Nat) :
    Gen.BodyHex.lumaaToU16 (fun o => Gen.BodyHex.lumaaIntoU16 (packU16Of o) (unpackU16Of o) lumaaOfLuma) c
      = Packed.packU16 (Packed.defaultOrder Packed.lumaOrders Gen.Channels.intoU16Lumaa) (lumaaList c) := tie_lumaaIntoU16 .La c

/-! ## named.rs -/

/-- `from_str(name) = COLORS.get(name).copied()` for every map: the lookup result itself -/
theorem namedFromStr_shape {κ ν : Type} (get : κ → Option ν) (name : κ) : Gen.BodyHex.namedFromStr get name = get name := rfl
/-- at the generated `phf` map (`Phf.get` over the extracted key / displacement / entry tables) it is the model's `fromStrNat` -/
theorem tie_namedFromStr :
    Gen.BodyHex.namedFromStr (Phf.get Gen.Named.phfKey Gen.Named.phfDisps1 Gen.Named.phfDisps2 Gen.Named.phfKeys Named.phfColors) = Named.fromStrNat := rfl

end Tie
