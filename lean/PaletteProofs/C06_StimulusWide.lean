/-
  C06 — `f32 → u32 / u64 / u128` **for every `Float32` bit pattern** (the `via f64` arm of `convert_float_to_uint!`).

  The code widens first (`self as f64`, exact: `Lemmas/StimWiden.lean`, `f32ToF64_spec`) and then runs the binary64 path, so
  every clause is the binary64 theorem (`C06_StimulusAll64.lean` for `u32`, `C06_StimulusBig.lean` for `u64`/`u128`) at the
  widened value, read back on the `Float32` through `v (x as f64) = v x`, `x ≤ y ⟹ (x as f64) ≤ (y as f64)`:
    u32:        result = rne (clamp (R64 (x·(2^32−1)), 0, MAX))     (one binary64 rounding of the 24-bit × 32-bit product),
    u64, u128:  result = min (rne (clamp (x·2^w, 0, 2^w))) MAX       (product exact; `MAX as f64 = 2^w`).
-/
import PaletteProofs.Lemmas.StimWiden
import PaletteProofs.C06_StimulusAll
import PaletteProofs.C06_StimulusBig

namespace C06
open Stim Float.Model Float.Model.UnpackedFloat Ieee

theorem f32ToUint32_eq (x : Float32) : f32ToUint 32 x = f64ToUint 32 (f32ToF64 x) := rfl
theorem f32ToUint64_eq (x : Float32) : f32ToUint 64 x = f64ToUint 64 (f32ToF64 x) := rfl
theorem f32ToUint128_eq (x : Float32) : f32ToUint 128 x = f64ToUint 128 (f32ToF64 x) := rfl

/-! ### the widened float against `0` and `1` -/

theorem widen_ge_one {x : Float32} (h : one32 ≤ x) : one64 ≤ f32ToF64 x := by
  obtain ⟨x1, _, x3⟩ := f32ToF64_spec x
  have nx := (F32.not_nan_of_le h).2
  have nx' : (f32ToF64 x).isNaN = false := by rw [f32ToF64_isNaN]; exact nx
  rcases F32.cases_of_not_nan nx with hx | hx | hx
  · exact absurd h (F32.not_le_negInf fin_one32 hx)
  · obtain ⟨fx, vx⟩ := x1 hx
    rw [F64.le_iff fin_one64 fx, vx, v_one64, ← v_one32]; exact (F32.le_iff fin_one32 hx).mp h
  · exact F64.le_posInf (x3 _ hx) rfl

theorem widen_le_zero {x : Float32} (h : x ≤ zero32) : f32ToF64 x ≤ zero64 := by
  obtain ⟨x1, _, x3⟩ := f32ToF64_spec x
  have nx := (F32.not_nan_of_le h).1
  rcases F32.cases_of_not_nan nx with hx | hx | hx
  · exact F64.negInf_le (x3 _ hx) rfl
  · obtain ⟨fx, vx⟩ := x1 hx
    rw [F64.le_iff fx fin_zero64, vx, v_zero64, ← v_zero32]; exact (F32.le_iff hx fin_zero32).mp h
  · exact absurd h (F32.not_posInf_le fin_zero32 hx)

theorem widen_ge_zero {x : Float32} (h : zero32 ≤ x) : zero64 ≤ f32ToF64 x := by
  obtain ⟨x1, _, x3⟩ := f32ToF64_spec x
  have nx := (F32.not_nan_of_le h).2
  rcases F32.cases_of_not_nan nx with hx | hx | hx
  · exact absurd h (F32.not_le_negInf fin_zero32 hx)
  · obtain ⟨fx, vx⟩ := x1 hx
    rw [F64.le_iff fin_zero64 fx, vx, v_zero64, ← v_zero32]; exact (F32.le_iff fin_zero32 hx).mp h
  · exact F64.le_posInf (x3 _ hx) rfl

theorem widen_le_one {x : Float32} (h : x ≤ one32) : f32ToF64 x ≤ one64 := by
  obtain ⟨x1, _, x3⟩ := f32ToF64_spec x
  have nx := (F32.not_nan_of_le h).1
  rcases F32.cases_of_not_nan nx with hx | hx | hx
  · exact F64.negInf_le (x3 _ hx) rfl
  · obtain ⟨fx, vx⟩ := x1 hx
    rw [F64.le_iff fx fin_one64, vx, v_one64, ← v_one32]; exact (F32.le_iff hx fin_one32).mp h
  · exact absurd h (F32.not_posInf_le fin_one32 hx)

theorem widen_v_of_mem {x : Float32} (h0 : zero32 ≤ x) (h1 : x ≤ one32) : F64.v (f32ToF64 x) = F32.v x := by
  have nx := (F32.not_nan_of_le h0).2
  rcases F32.cases_of_not_nan nx with hx | hx | hx
  · exact absurd h0 (F32.not_le_negInf fin_zero32 hx)
  · exact ((f32ToF64_spec x).1 hx).2
  · exact absurd h1 (F32.not_posInf_le fin_one32 hx)

/-- closed forms read on the `Float32`: the class of `x` is the class of `x as f64` -/
theorem widen_class (x : Float32) (N M : ℕ) (f : ℚ → ℕ) :
    (if (f32ToF64 x).isNaN then N
     else if (f32ToF64 x).isInf then (if zero64 < f32ToF64 x then N else M)
     else f (F64.v (f32ToF64 x))) =
    (if x.isNaN then N else if x.isInf then (if zero32 < x then N else M) else f (F32.v x)) := by
  obtain ⟨x1, x2, x3⟩ := f32ToF64_spec x
  rw [f32ToF64_isNaN]
  cases hn : x.isNaN
  · simp only [Bool.false_eq_true, if_false]
    rcases F32.cases_of_not_nan hn with hx | hx | hx
    · rw [F64.isInf_of_U (x3 _ hx), F32.isInf_of_U hx, if_pos rfl, if_pos rfl,
        if_neg (F64.not_lt_negInf fin_zero64 (x3 _ hx)), if_neg (F32.not_lt_negInf fin_zero32 hx)]
    · obtain ⟨fx, vx⟩ := x1 hx
      rw [fx.not_inf, hx.not_inf, vx]; simp only [Bool.false_eq_true, if_false]
    · rw [F64.isInf_of_U (x3 _ hx), F32.isInf_of_U hx, if_pos rfl, if_pos rfl,
        if_pos (F64.lt_posInf fin_zero64 (x3 _ hx)), if_pos (F32.lt_posInf fin_zero32 hx)]
  · simp only [if_true]

/-! ## f32 → u32 -/

/-- `N` for NaN and `+∞`, `0` for `−∞`, else `rne (clamp (R64 (x·N)) 0 N)`: ONE binary64 rounding of the exact product -/
def spec32w (N : ℕ) (x : Float32) : ℕ :=
  if x.isNaN then N
  else if x.isInf then (if zero32 < x then N else 0)
  else (rne (clampQ N (F64.R64 (F32.v x * N)))).toNat

theorem f32_to_u32_closed_form (x : Float32) : f32ToUint 32 x = spec32w 4294967295 x := by
  rw [f32ToUint32_eq, f64_to_u32_closed_form]
  exact widen_class x 4294967295 0 (fun q => (rne (clampQ (4294967295 : ℕ) (F64.R64 (q * (4294967295 : ℕ))))).toNat)

/-- **monotone over every pair of non-NaN `f32` bit patterns** -/
theorem f32_to_u32_monotone_all : ∀ x y : Float32, ¬ x.isNaN → ¬ y.isNaN → x ≤ y → f32ToUint 32 x ≤ f32ToUint 32 y := by
  intro x y hx hy h
  rw [f32ToUint32_eq, f32ToUint32_eq]
  exact f64_to_u32_monotone_all _ _ (by rw [f32ToF64_isNaN]; exact hx) (by rw [f32ToF64_isNaN]; exact hy) (f32ToF64_le h)

/-- **saturation**: `MAX` for NaN and every `x ≥ 1` (including `+∞`); `0` for every `x ≤ 0` (including `−0`, `−∞`) -/
theorem f32_to_u32_saturates_all : ∀ x : Float32,
    ((x.isNaN = true ∨ one32 ≤ x) → f32ToUint 32 x = 4294967295) ∧ (x ≤ zero32 → f32ToUint 32 x = 0) := by
  intro x
  rw [f32ToUint32_eq]
  refine ⟨fun h => (f64_to_u32_saturates_all _).1 ?_, fun h => (f64_to_u32_saturates_all _).2 (widen_le_zero h)⟩
  rcases h with h | h
  · left; rw [f32ToF64_isNaN]; exact h
  · right; exact widen_ge_one h

/-- **nearest integer on `[0, 1]`** up to the binary64 rounding of the product -/
theorem f32_to_u32_nearest_all : ∀ x : Float32, zero32 ≤ x → x ≤ one32 →
    f32ToUint 32 x = (rne (F64.R64 (F32.v x * 4294967295))).toNat ∧
    |(f32ToUint 32 x : ℚ) - F32.v x * 4294967295| ≤ 1 / 2 + 1 / 2^22 := by
  intro x h0 h1
  have := f64_to_u32_nearest_all _ (widen_ge_zero h0) (widen_le_one h1)
  rw [widen_v_of_mem h0 h1] at this
  rw [f32ToUint32_eq]; exact this

/-! ## f32 → u64, u128 -/

/-- `MAX` for NaN and `+∞`, `0` for `−∞`, else `min (rne (clamp (x·2^w) 0 2^w)) MAX` (the product is exact) -/
def specBig32 (w : ℕ) (x : Float32) : ℕ :=
  if x.isNaN then 2^w - 1
  else if x.isInf then (if zero32 < x then 2^w - 1 else 0)
  else bigRes w (clampQ (2^w) (F32.v x * 2^w))

theorem f32_to_u64_closed_form (x : Float32) : f32ToUint 64 x = specBig32 64 x := by
  rw [f32ToUint64_eq, f64_to_u64_closed_form]
  exact widen_class x (2^64 - 1) 0 (fun q => bigRes 64 (clampQ (2^64) (q * 2^64)))

theorem f32_to_u128_closed_form (x : Float32) : f32ToUint 128 x = specBig32 128 x := by
  rw [f32ToUint128_eq, f64_to_u128_closed_form]
  exact widen_class x (2^128 - 1) 0 (fun q => bigRes 128 (clampQ (2^128) (q * 2^128)))

/-- **monotone over every pair of non-NaN `f32` bit patterns** -/
theorem f32_to_u64_monotone_all : ∀ x y : Float32, ¬ x.isNaN → ¬ y.isNaN → x ≤ y → f32ToUint 64 x ≤ f32ToUint 64 y := by
  intro x y hx hy h
  rw [f32ToUint64_eq, f32ToUint64_eq]
  exact f64_to_u64_monotone_all _ _ (by rw [f32ToF64_isNaN]; exact hx) (by rw [f32ToF64_isNaN]; exact hy) (f32ToF64_le h)

theorem f32_to_u128_monotone_all : ∀ x y : Float32, ¬ x.isNaN → ¬ y.isNaN → x ≤ y → f32ToUint 128 x ≤ f32ToUint 128 y := by
  intro x y hx hy h
  rw [f32ToUint128_eq, f32ToUint128_eq]
  exact f64_to_u128_monotone_all _ _ (by rw [f32ToF64_isNaN]; exact hx) (by rw [f32ToF64_isNaN]; exact hy) (f32ToF64_le h)

/-- **saturation** -/
theorem f32_to_u64_saturates_all : ∀ x : Float32,
    ((x.isNaN = true ∨ one32 ≤ x) → f32ToUint 64 x = 2^64 - 1) ∧ (x ≤ zero32 → f32ToUint 64 x = 0) := by
  intro x
  rw [f32ToUint64_eq]
  refine ⟨fun h => (f64_to_u64_saturates_all _).1 ?_, fun h => (f64_to_u64_saturates_all _).2 (widen_le_zero h)⟩
  rcases h with h | h
  · left; rw [f32ToF64_isNaN]; exact h
  · right; exact widen_ge_one h

theorem f32_to_u128_saturates_all : ∀ x : Float32,
    ((x.isNaN = true ∨ one32 ≤ x) → f32ToUint 128 x = 2^128 - 1) ∧ (x ≤ zero32 → f32ToUint 128 x = 0) := by
  intro x
  rw [f32ToUint128_eq]
  refine ⟨fun h => (f64_to_u128_saturates_all _).1 ?_, fun h => (f64_to_u128_saturates_all _).2 (widen_le_zero h)⟩
  rcases h with h | h
  · left; rw [f32ToF64_isNaN]; exact h
  · right; exact widen_ge_one h

/-- **nearest integer on `[0, 1]`**: exactly `min (rne (x·2^w)) MAX`; within `½ + x` of `x·MAX` -/
theorem f32_to_u64_nearest_all : ∀ x : Float32, zero32 ≤ x → x ≤ one32 →
    f32ToUint 64 x = min (rne (F32.v x * 2^64)).toNat (2^64 - 1) ∧
    |(f32ToUint 64 x : ℚ) - F32.v x * (2^64 - 1)| ≤ 1 / 2 + F32.v x := by
  intro x h0 h1
  have := f64_to_u64_nearest_all _ (widen_ge_zero h0) (widen_le_one h1)
  rw [widen_v_of_mem h0 h1] at this
  rw [f32ToUint64_eq]; exact this

theorem f32_to_u128_nearest_all : ∀ x : Float32, zero32 ≤ x → x ≤ one32 →
    f32ToUint 128 x = min (rne (F32.v x * 2^128)).toNat (2^128 - 1) ∧
    |(f32ToUint 128 x : ℚ) - F32.v x * (2^128 - 1)| ≤ 1 / 2 + F32.v x := by
  intro x h0 h1
  have := f64_to_u128_nearest_all _ (widen_ge_zero h0) (widen_le_one h1)
  rw [widen_v_of_mem h0 h1] at this
  rw [f32ToUint128_eq]; exact this

example : zero32 ≤ Float32.ofBits 0x3eaaaaab ∧ Float32.ofBits 0x3eaaaaab ≤ one32 ∧ ¬ (Float32.ofBits 0x3eaaaaab).isNaN := by
  decide +kernel

end C06
