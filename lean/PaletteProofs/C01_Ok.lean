/-
  C01 (Ottosson family) — the edge pairs are mutual inverses at ℝ on explicit domains; the tabulated matrix pairs are inverse
  within decided bounds (over `Rat`, on the generated tables).
-/
import PaletteProofs.C02_Ok

namespace C01Ok
open Ok

/-! ### Oklab ↔ Oklch -/

theorem oklchToOklab_real (L C h : ℝ) :
    oklchToOklab ⟨L, C, h⟩ = ⟨L, Real.cos (h * (Real.pi / 180)) * max C 0, Real.sin (h * (Real.pi / 180)) * max C 0⟩ := by
  simp only [oklchToOklab, hueIntoCartesian, RealScalar.degToRad_eq, RealScalar.cos_eq, RealScalar.sin_eq, RealScalar.max_eq]
  norm_num

theorem norm_mk (a b : ℝ) : ‖(⟨a, b⟩ : ℂ)‖ = Real.sqrt (a * a + b * b) := by
  rw [Complex.norm_def, Complex.normSq_mk]

/-- **`Oklab → Oklch → Oklab` is the identity**, for every Oklab colour (including the gray axis, where the hue is arbitrary) -/
theorem oklab_oklch_oklab (L a b : ℝ) : oklchToOklab (oklabToOklch ⟨L, a, b⟩) = ⟨L, a, b⟩ := by
  rw [C02Ok.oklabToOklch_real, oklchToOklab_real]
  have hpi : Real.pi ≠ 0 := Real.pi_ne_zero
  have e : (Real.pi + Complex.arg (-(⟨a, b⟩ : ℂ))) * (180 / Real.pi) * (Real.pi / 180) = Real.pi + Complex.arg (-(⟨a, b⟩ : ℂ)) := by
    field_simp
  rw [e, max_eq_left (Real.sqrt_nonneg _)]
  by_cases h : (⟨a, b⟩ : ℂ) = 0
  · have ha : a = 0 := by simpa using congrArg Complex.re h
    have hb : b = 0 := by simpa using congrArg Complex.im h
    subst ha hb; simp
  · have hn : -(⟨a, b⟩ : ℂ) ≠ 0 := neg_ne_zero.mpr h
    have hpos : 0 < Real.sqrt (a * a + b * b) := by rw [← norm_mk]; exact norm_pos_iff.mpr h
    rw [add_comm, Real.cos_add_pi, Real.sin_add_pi, Complex.cos_arg hn, Complex.sin_arg, norm_neg, norm_mk]
    congr 1
    · simp only [Complex.neg_re, neg_div, neg_neg]; exact div_mul_cancel₀ a hpos.ne'
    · simp only [Complex.neg_im, neg_div, neg_neg]; exact div_mul_cancel₀ b hpos.ne'

/-- **`Oklch → Oklab → Oklch` is the identity** for positive chroma and a stored hue in `(0°, 360°]` (`0°` comes back as `360°`,
    the same angle; chroma `0` loses the hue) -/
theorem oklch_oklab_oklch (L C h : ℝ) (hC : 0 < C) (h0 : 0 < h) (h360 : h ≤ 360) : oklabToOklch (oklchToOklab ⟨L, C, h⟩) = ⟨L, C, h⟩ := by
  rw [oklchToOklab_real, C02Ok.oklabToOklch_real, max_eq_left hC.le]
  have hpi : 0 < Real.pi := Real.pi_pos
  set θ := h * (Real.pi / 180) with hθ
  have hθ0 : 0 < θ := by positivity
  have hθ1 : θ ≤ 2 * Real.pi := by rw [hθ]; nlinarith
  obtain ⟨φ, hφ⟩ : ∃ φ : ℝ, φ = θ - Real.pi := ⟨_, rfl⟩
  have hc : Real.cos φ = -Real.cos θ := by rw [hφ, Real.cos_sub_pi]
  have hs : Real.sin φ = -Real.sin θ := by rw [hφ, Real.sin_sub_pi]
  have hz : -(⟨Real.cos θ * C, Real.sin θ * C⟩ : ℂ) = (C : ℂ) * (Complex.cos (φ : ℂ) + Complex.sin (φ : ℂ) * Complex.I) := by
    apply Complex.ext
    · simp [Complex.cos_ofReal_re, Complex.sin_ofReal_im, hc]; ring
    · simp [Complex.sin_ofReal_re, Complex.cos_ofReal_im, hs]; ring
  have harg : Complex.arg (-(⟨Real.cos θ * C, Real.sin θ * C⟩ : ℂ)) = θ - Real.pi := by
    rw [hz, ← hφ]
    exact Complex.arg_mul_cos_add_sin_mul_I hC (θ := φ) ⟨by rw [hφ]; linarith, by rw [hφ]; linarith⟩
  have hch : Real.sqrt (Real.cos θ * C * (Real.cos θ * C) + Real.sin θ * C * (Real.sin θ * C)) = C := by
    have : Real.cos θ * C * (Real.cos θ * C) + Real.sin θ * C * (Real.sin θ * C) = C ^ 2 := by
      have := Real.cos_sq_add_sin_sq θ; nlinarith
    rw [this, Real.sqrt_sq hC.le]
  rw [harg, hch]
  congr 1
  rw [hθ]; field_simp; ring

example : (0:ℝ) < 0.2 ∧ (0:ℝ) < 40 ∧ (40:ℝ) ≤ 360 := by norm_num

/-! ### Okhsv ↔ Okhwb -/

/-- **`Okhsv → Okhwb → Okhsv` is the identity** whenever `v ≠ 0` (black loses hue-independent saturation) -/
theorem okhsv_okhwb_okhsv (h s v : ℝ) (hv : v ≠ 0) : okhwbToOkhsv (okhsvToOkhwb ⟨h, s, v⟩) = ⟨h, s, v⟩ := by
  have e : okhsvToOkhwb (⟨h, s, v⟩ : V3 ℝ) = ⟨h, (1.0 - s) * v, 1.0 - v⟩ := rfl
  have hb : (1.0 : ℝ) - v ≠ 1 := by norm_num; exact hv
  rw [e, C02Ok.okhwbToOkhsv_of_ne _ _ _ hb]
  congr 1
  · norm_num; field_simp; ring
  · norm_num

/-- **`Okhwb → Okhsv → Okhwb` is the identity** whenever `b ≠ 1` -/
theorem okhwb_okhsv_okhwb (h w b : ℝ) (hb : b ≠ 1) : okhsvToOkhwb (okhwbToOkhsv ⟨h, w, b⟩) = ⟨h, w, b⟩ := by
  rw [C02Ok.okhwbToOkhsv_of_ne _ _ _ hb]
  have hv : (1 : ℝ) - b ≠ 0 := sub_ne_zero.mpr (Ne.symm hb)
  show (⟨h, (1.0 - (1.0 - w / (1.0 - b))) * (1.0 - b), 1.0 - (1.0 - b)⟩ : V3 ℝ) = _
  congr 1
  · norm_num; field_simp
  · norm_num

/-- bounds are preserved: `s, v ∈ [0,1] → w, b ≥ 0 ∧ w + b ≤ 1` -/
theorem okhsvToOkhwb_bounds (h s v : ℝ) (hs0 : 0 ≤ s) (hs1 : s ≤ 1) (hv0 : 0 ≤ v) (hv1 : v ≤ 1) :
    0 ≤ (okhsvToOkhwb ⟨h, s, v⟩).c1 ∧ 0 ≤ (okhsvToOkhwb ⟨h, s, v⟩).c2 ∧ (okhsvToOkhwb ⟨h, s, v⟩).c1 + (okhsvToOkhwb ⟨h, s, v⟩).c2 ≤ 1 := by
  simp only [okhsvToOkhwb]; norm_num
  refine ⟨mul_nonneg (by linarith) hv0, hv1, ?_⟩
  nlinarith [mul_nonneg hs0 hv0]

example : (0.5 : ℝ) ≠ 0 ∧ (0.25 : ℝ) ≠ 1 := by norm_num

/-! ### the tabulated matrix pairs, decided over `Rat` on the generated tables -/

/-- `‖A·B − I‖∞` (max row sum) -/
def invErr (a b : List Rat) : Rat := KRat.distInf (KRat.mul3 a b) KRat.ident

/-- **Oklab `M1·M1⁻¹`, `M1⁻¹·M1` within 1.5e-16 and `M2·M2⁻¹`, `M2⁻¹·M2` within 4e-19 of the identity** (16- and 20-digit tables) -/
theorem oklab_matrix_pairs_inverse_bound :
    invErr (KRat.ofK Gen.Mat.oklabM1) (KRat.ofK Gen.Mat.oklabM1Inv) ≤ 1.5e-16 ∧ invErr (KRat.ofK Gen.Mat.oklabM1Inv) (KRat.ofK Gen.Mat.oklabM1) ≤ 1.5e-16 ∧
    invErr (KRat.ofK Gen.Mat.oklabM2) (KRat.ofK Gen.Mat.oklabM2Inv) ≤ 4e-19 ∧ invErr (KRat.ofK Gen.Mat.oklabM2Inv) (KRat.ofK Gen.Mat.oklabM2) ≤ 4e-19 := by
  decide +kernel

/-- the four matrices of the direct linear-sRGB functions, with the signs of the source expressions -/
def directA : List Rat := (C02Ok.signed Gen.Mat.linSrgbToOklabCoeffs [1,1,1, 1,1,1, 1,1,1, 1,1,-1, 1,-1,1, 1,1,-1]).take 9
def directM2 : List Rat := (C02Ok.signed Gen.Mat.linSrgbToOklabCoeffs [1,1,1, 1,1,1, 1,1,1, 1,1,-1, 1,-1,1, 1,1,-1]).drop 9
def directM2Inv : List Rat :=
  match C02Ok.signed Gen.Mat.oklabToLinSrgbCoeffs [1,1, -1,-1, -1,-1, 1,-1,1, 1,1,-1, 1,-1,1] with
  | a :: b :: c :: d :: e :: f :: _ => [1, a, b, 1, c, d, 1, e, f]
  | _ => []
def directAInv : List Rat := (C02Ok.signed Gen.Mat.oklabToLinSrgbCoeffs [1,1, -1,-1, -1,-1, 1,-1,1, 1,1,-1, 1,-1,1]).drop 6

/-- **the direct sRGB ↔ Oklab pair** (10-digit tables): sRGB→LMS and LMS→sRGB are inverse within 4.8e-10, `M2` and the 10-digit
    `Lab → LMS'` coefficients only within 7.6e-8 — which is what the round trip `LinSrgb → Oklab → LinSrgb` shows (≤ 1.8e-6 after the
    cube and the row sum 7.62 of LMS→sRGB; the harness's tolerance is this bound) -/
theorem direct_pair_inverse_bound :
    invErr directA directAInv ≤ 3e-10 ∧ invErr directAInv directA ≤ 4.8e-10 ∧
    invErr directM2 directM2Inv ≤ 5.4e-8 ∧ invErr directM2Inv directM2 ≤ 7.6e-8 ∧ 7e-8 < invErr directM2Inv directM2 := by
  decide +kernel

/-- the first RGB space of the generated table — the sRGB one, identified in the theorem below by its published digits (names
    are strings, which the kernel does not compare) -/
def srgbRgbToXyz : List K := match Gen.Mat.rgbSpaces with
  | (_, _, m, _, _) :: _ => m
  | [] => []

/-- **the direct path vs. the XYZ route, decided**: `M1 · (sRGB → XYZ)` differs from the direct sRGB → LMS table by 1.72e-4 (row
    sum) — *not* by rounding: the recomputed `M1` belongs to the D65 white of chromaticity (0.3127, 0.3290), palette's sRGB matrix
    to the white (0.95047, 1, 1.08883).  So `Rgb<Srgb> → Oklab` (direct) and `Rgb<Srgb> → Xyz → Oklab` (tree path) agree to
    ≈ 1e-4 in Oklab, no better (the harness records the observed distance).  The 10-digit `Lab → LMS'` table is within 7e-8 (row sum)
    of the 20-digit `M2⁻¹`. -/
theorem direct_vs_xyz_route :
    KRat.ofK srgbRgbToXyz = [0.4124564, 0.3575761, 0.1804375, 0.2126729, 0.7151522, 0.0721750, 0.0193339, 0.1191920, 0.9503041] ∧
    KRat.distInf (KRat.mul3 (KRat.ofK Gen.Mat.oklabM1) (KRat.ofK srgbRgbToXyz)) directA ≤ 1.72e-4 ∧
    1.7e-4 < KRat.distInf (KRat.mul3 (KRat.ofK Gen.Mat.oklabM1) (KRat.ofK srgbRgbToXyz)) directA ∧
    KRat.distInf directM2Inv (KRat.ofK Gen.Mat.oklabM2Inv) ≤ 7e-8 := by
  decide +kernel

/-! ### Oklab ↔ Okhsl / Okhsv for an abstract cusp  ([E], partial)

  Full statement (kept, not proved):  for every hue direction `(a_, b_)` with `a_² + b_² = 1`, writing `cs = fromNormalized L a_ b_`
  (the *same* value in both directions, because both compute it from the same hue direction and lightness — whatever the accuracy
  of the cusp fit), and assuming `0 < cs.zero`, `0 < cs.mid < cs.max`, `0 < L < 1`:
      `oklabToOkhsl (okhslToOklab ⟨h, s, l⟩) = ⟨h, s, l⟩` for `0 < s ≤ 1`, `0 < l < 1`, `0 < h ≤ 360`,
  and likewise `oklabToOkhsv ∘ okhsvToOklab = id` for an abstract `ST` with `0 < S, T`.
  Proved below (`_partial`): the saturation ↔ chroma interpolation stage of Okhsl is an exact inverse pair for *abstract*
  `ChromaValues`; together with `toe_toeInv`/`toeInv_toe` (C02_Ok) and the polar pair above these are all the stages of the Okhsl
  round trip except the identification of the two `cs` (which needs `(cos h, sin h) = (a/C, b/C)`, i.e. `oklab_oklch_oklab`, under
  the binders of `fromNormalized`).  Missing: the composition through the model's `if` cascade, and all of Okhsv. -/

theorem okhslChroma_lo (cs : Cs ℝ) (s : ℝ) (h : s < 0.8) :
    okhslChroma cs s = 1.25 * s * (0.8 * cs.zero) / (1.0 - (1.0 - 0.8 * cs.zero / cs.mid) * (1.25 * s)) := by
  unfold okhslChroma; exact if_pos h

theorem okhslChroma_hi (cs : Cs ℝ) (s : ℝ) (h : ¬ s < 0.8) :
    okhslChroma cs s = cs.mid + (s - 0.8) / (1.0 - 0.8) * ((1.0 - 0.8) * cs.mid * cs.mid * 1.25 * 1.25 / cs.zero)
      / (1.0 - (1.0 - (1.0 - 0.8) * cs.mid * cs.mid * 1.25 * 1.25 / cs.zero / (cs.max - cs.mid)) * ((s - 0.8) / (1.0 - 0.8))) := by
  unfold okhslChroma; exact if_neg h

theorem okhslSaturation_lo (cs : Cs ℝ) (C : ℝ) (h : C < cs.mid) :
    okhslSaturation cs C = C / (0.8 * cs.zero + (1.0 - 0.8 * cs.zero / cs.mid) * C) * 0.8 := by
  unfold okhslSaturation; exact if_pos h

theorem okhslSaturation_hi (cs : Cs ℝ) (C : ℝ) (h : ¬ C < cs.mid) :
    okhslSaturation cs C = 0.8 + (1.0 - 0.8) * ((C - cs.mid) / ((1.0 - 0.8) * ((cs.mid * 1.25) * (cs.mid * 1.25)) / cs.zero
      + (1.0 - (1.0 - 0.8) * ((cs.mid * 1.25) * (cs.mid * 1.25)) / cs.zero / (cs.max - cs.mid)) * (C - cs.mid))) := by
  unfold okhslSaturation; exact if_neg h

/-- the algebra shared by both parts: `C = t·k₁/(1 − k₂t)` is undone by `t = C/(k₁ + k₂C)` -/
theorem interp_inv (k1 k2 t : ℝ) (hk : k1 ≠ 0) (hD : 1.0 - k2 * t ≠ 0) :
    t * k1 / (1.0 - k2 * t) / (k1 + k2 * (t * k1 / (1.0 - k2 * t))) = t := by
  have h1 : (1.0 : ℝ) = 1 := by norm_num
  rw [h1] at hD ⊢
  obtain ⟨D, hDdef⟩ : ∃ D, D = 1 - k2 * t := ⟨_, rfl⟩
  rw [← hDdef] at hD ⊢
  have e : k1 + k2 * (t * k1 / D) = k1 / D := by
    rw [eq_div_iff hD, add_mul, mul_assoc k2, div_mul_cancel₀ _ hD, hDdef]; ring
  rw [e]; field_simp

/-- **Okhsl, interpolation stage, lower part** (`0 ≤ s < 0.8`): saturation → chroma → saturation is exact for abstract `ChromaValues` -/
theorem okhsl_saturation_chroma_lo_partial (cs : Cs ℝ) (h0 : 0 < cs.zero) (hm : 0 < cs.mid) (s : ℝ) (hs0 : 0 ≤ s) (hs : s < 0.8) :
    okhslSaturation cs (okhslChroma cs s) = s := by
  rw [okhslChroma_lo cs s hs]
  have hden : 0 < 1.0 - (1.0 - 0.8 * cs.zero / cs.mid) * (1.25 * s) := by
    have e : 1.0 - (1.0 - 0.8 * cs.zero / cs.mid) * (1.25 * s) = (1 - 1.25 * s) + 0.8 * cs.zero / cs.mid * (1.25 * s) := by norm_num; ring
    rw [e]
    have : 0 < 1 - 1.25 * s := by norm_num at hs ⊢; linarith
    have h8 : (0:ℝ) ≤ 0.8 * cs.zero / cs.mid := div_nonneg (mul_nonneg (by norm_num) h0.le) hm.le
    have : 0 ≤ 0.8 * cs.zero / cs.mid * (1.25 * s) := mul_nonneg h8 (mul_nonneg (by norm_num) hs0)
    linarith
  have hlt : 1.25 * s * (0.8 * cs.zero) / (1.0 - (1.0 - 0.8 * cs.zero / cs.mid) * (1.25 * s)) < cs.mid := by
    rw [div_lt_iff₀ hden]
    have e : cs.mid * (1.0 - (1.0 - 0.8 * cs.zero / cs.mid) * (1.25 * s)) = cs.mid * (1 - 1.25 * s) + 1.25 * s * (0.8 * cs.zero) := by
      norm_num; field_simp; ring
    rw [e]
    have : 0 < cs.mid * (1 - 1.25 * s) := mul_pos hm (by norm_num at hs ⊢; linarith)
    linarith
  rw [okhslSaturation_lo cs _ hlt]
  have hk : (0.8 : ℝ) * cs.zero ≠ 0 := (mul_pos (by norm_num) h0).ne'
  rw [interp_inv (0.8 * cs.zero) (1.0 - 0.8 * cs.zero / cs.mid) (1.25 * s) hk hden.ne']
  sring

/-- **Okhsl, interpolation stage, upper part** (`0.8 ≤ s ≤ 1`) -/
theorem okhsl_saturation_chroma_hi_partial (cs : Cs ℝ) (h0 : 0 < cs.zero) (hm : 0 < cs.mid) (hx : cs.mid < cs.max) (s : ℝ)
    (hs : ¬ s < 0.8) (hs1 : s ≤ 1) : okhslSaturation cs (okhslChroma cs s) = s := by
  rw [okhslChroma_hi cs s hs]
  have hs' : (0.8 : ℝ) ≤ s := not_lt.mp hs
  set t := (s - 0.8) / (1.0 - 0.8) with ht
  have ht0 : 0 ≤ t := by rw [ht]; exact div_nonneg (sub_nonneg.mpr hs') (by norm_num)
  have ht1 : t ≤ 1 := by
    have h10 : (1.0 : ℝ) = 1 := by norm_num
    rw [ht, div_le_one (by norm_num), h10]; exact sub_le_sub_right hs1 _
  set k1 := (1.0 - 0.8) * cs.mid * cs.mid * 1.25 * 1.25 / cs.zero with hk1
  have hk1pos : 0 < k1 := by rw [hk1]; norm_num; positivity
  have hd : 0 < cs.max - cs.mid := sub_pos.mpr hx
  have hden : 0 < 1.0 - (1.0 - k1 / (cs.max - cs.mid)) * t := by
    have gen : ∀ a b : ℝ, 1 - (1 - a) * b = (1 - b) + a * b := by intro a b; ring
    have h10 : (1.0 : ℝ) = 1 := by norm_num
    have e : 1.0 - (1.0 - k1 / (cs.max - cs.mid)) * t = (1 - t) + k1 / (cs.max - cs.mid) * t := by rw [h10]; exact gen _ _
    rw [e]
    have hq : 0 < k1 / (cs.max - cs.mid) := div_pos hk1pos hd
    rcases eq_or_lt_of_le ht1 with h1 | h1
    · rw [h1]; norm_num; exact hq
    · have : 0 ≤ k1 / (cs.max - cs.mid) * t := mul_nonneg hq.le ht0
      exact add_pos_of_pos_of_nonneg (sub_pos.mpr h1) this
  have hge : ¬ cs.mid + t * k1 / (1.0 - (1.0 - k1 / (cs.max - cs.mid)) * t) < cs.mid := by
    have : 0 ≤ t * k1 / (1.0 - (1.0 - k1 / (cs.max - cs.mid)) * t) := div_nonneg (mul_nonneg ht0 hk1pos.le) hden.le
    exact not_lt.mpr (le_add_of_nonneg_right this)
  rw [okhslSaturation_hi cs _ hge]
  have hk1' : (1.0 - 0.8) * ((cs.mid * 1.25) * (cs.mid * 1.25)) / cs.zero = k1 := by rw [hk1]; sring
  rw [hk1']
  have e1 : cs.mid + t * k1 / (1.0 - (1.0 - k1 / (cs.max - cs.mid)) * t) - cs.mid = t * k1 / (1.0 - (1.0 - k1 / (cs.max - cs.mid)) * t) := add_sub_cancel_left _ _
  rw [e1]
  rw [interp_inv k1 (1.0 - k1 / (cs.max - cs.mid)) t hk1pos.ne' hden.ne', ht]
  have h2 : (1.0 : ℝ) - 0.8 ≠ 0 := by norm_num
  rw [mul_comm ((1.0 : ℝ) - 0.8), div_mul_cancel₀ _ h2]; norm_num

/-- non-vacuity: `ChromaValues` of the shape the code produces (`0 < C_0`, `0 < C_mid < C_max`) and saturations on both sides of 0.8 -/
example : (0:ℝ) < 0.1 ∧ (0:ℝ) < 0.12 ∧ (0.12:ℝ) < 0.15 ∧ (0:ℝ) ≤ 0.5 ∧ (0.5:ℝ) < 0.8 ∧ ¬ (0.9:ℝ) < 0.8 ∧ (0.9:ℝ) ≤ 1 := by norm_num

end C01Ok
