/-
  C07, CAM16: the composite `into_xyz ∘ from_xyz` **exactly as the model composes it** — with the hue stored in degrees by
  `from_radians` (multiplication by the `f64`-rounded `180/π`) and read back by `into_radians` (`normalize_signed_angle`, then
  multiplication by `π_f64/180`).  At ℝ the product of the two factors is `1 − 1.9e-36` (`C16.degK_mul_radK`), so the inverse model
  sees the angle `θ′ = h_rad·(1 − 1.9e-36)` instead of `h_rad`, and the two facts `C07_FiniteCam16Inv.lean` needs — the divisor
  `23p₁ + t(11cos h + 108 sin h)` of `r` is non-zero, the recovered adapted responses lie in `(−400, 400)` — have to be carried over
  that perturbation quantitatively:

  * `divisor_size`, `divisor_diff`, `divisor_perturbation`: with `|cos θ′ − cos θ|, |sin θ′ − sin θ| ≤ δ ≤ 1e-35` (Lipschitz) the divisor
    changes by at most `20115·D·δ`, stays positive, and `r = 23(0.305 + p₂)t/D` moves by at most `40230·ρ·δ` (`ρ ≤ 1100`);
  * `comp_perturbation`, `comp_bound`: each recovered adapted response moves by at most `1e-26`;
  * `margins_near`: hence both margins hold at every angle within `δ` of `h_rad` when the responses stay `2.06e8·δ` below 400;
  * `hueBack_near`: for **every** hue angle the read-back angle has the `sin`/`cos` of an angle within `4e-20` of `h_rad` (off the
    sliver `|h_rad| > 3.14159` it *is* within `1e-35`; inside it `normalize_signed_angle` may wrap the degree value by ±360, which
    moves the angle by `2π_f64`, and Mathlib's 20 digits of π bound `|π − π_f64|`);  `model_margins`, `model_margins_tight`;
  * `adaptRun_margin`: `|adapt(x)| ≤ 400M/(M + 27.13)` whenever `F_L·|x|/100 ≤ M`; `≤ 400 − 1e-10` for `M = 1e13`;
  * **`cam16_model_roundtrip_finite_partial`** / `…_of_cones`: `$partial::into_xyz($partial::from_xyz(xyz))` evaluated at `PReal`
    (baked parameters, forward attributes, stored hue, inverse) is finite for all six partial types, valid raw viewing conditions and
    **every colour of `InDomain`, every hue**, with `F_L·|cone|/100 ≤ 1e13`;  `greyE_model_roundtrip`: an instance with no
    hypothesis left.
  `_partial`: only responses within `1e-10` of the saturation level 400 are open (no physical viewing condition reaches them).
-/
import PaletteProofs.C07_FiniteCam16Inv
import Mathlib.Analysis.SpecialFunctions.Trigonometric.Bounds

set_option linter.unusedSimpArgs false
set_option linter.unusedVariables false

namespace C07
open Cam16 PReal C16

/-- size of the divisor against the constants it is built from -/
theorem divisor_size {Kc eT ρ den P t D : ℝ}
    (hKc : 0 < Kc) (heT : 0.7 ≤ eT) (hρ0 : 0 ≤ ρ) (hρ : ρ ≤ 1100) (hden0 : 0 < den) (hden : den ≤ 1221) (hP : 0.305 ≤ P)
    (ht : t = Kc * eT * ρ / den) (hDP : D = Kc * eT * (23 * P) / den) :
    0 < D ∧ 0 ≤ t ∧ t * (23 * P) = D * ρ ∧ Kc ≤ 249 * D ∧ t ≤ 157 * D := by
  have hu : 0 < Kc * eT := by positivity
  have ht0 : 0 ≤ t := by rw [ht]; positivity
  have hP0 : 0 < P := by linarith
  have hDpos : 0 < D := by rw [hDP]; positivity
  have e1 : D * den = Kc * eT * (23 * P) := by rw [hDP]; field_simp
  have e2 : t * (23 * P) = D * ρ := by rw [ht, hDP]; field_simp
  refine ⟨hDpos, ht0, e2, ?_, ?_⟩
  · have h1 : Kc * 0.7 * (23 * 0.305) ≤ Kc * eT * (23 * P) := by
      apply mul_le_mul (mul_le_mul_of_nonneg_left heT hKc.le) (by linarith) (by norm_num) (by positivity)
    have h2 : D * den ≤ D * 1221 := mul_le_mul_of_nonneg_left hden hDpos.le
    linarith
  · have h1 : t * (23 * 0.305) ≤ t * (23 * P) := mul_le_mul_of_nonneg_left (by linarith) ht0
    have h2 : D * ρ ≤ D * 1100 := mul_le_mul_of_nonneg_left hρ hDpos.le
    linarith

/-- how far the divisor moves when `cos`, `sin` and `e_t` move by `δ` -/
theorem divisor_diff {Kc eT eT' c s c' s' δ t D D' : ℝ} (hKc : 0 ≤ Kc) (ht0 : 0 ≤ t)
    (hdeT : |eT' - eT| ≤ 0.25 * δ) (hc : |c' - c| ≤ δ) (hs : |s' - s| ≤ δ)
    (hD : D = 23 * (Kc * eT) + t * (11 * c + 108 * s)) (hD' : D' = 23 * (Kc * eT') + t * (11 * c' + 108 * s')) :
    |D' - D| ≤ (5.75 * Kc + 119 * t) * δ := by
  have ediff : D' - D = 23 * Kc * (eT' - eT) + t * (11 * (c' - c) + 108 * (s' - s)) := by rw [hD', hD]; ring
  have q1 : |23 * Kc * (eT' - eT)| ≤ 23 * Kc * (0.25 * δ) := by
    rw [abs_mul, abs_of_nonneg (by positivity : (0:ℝ) ≤ 23 * Kc)]
    exact mul_le_mul_of_nonneg_left hdeT (by positivity)
  have q2 : |11 * (c' - c) + 108 * (s' - s)| ≤ 119 * δ := by
    calc |11 * (c' - c) + 108 * (s' - s)| ≤ |11 * (c' - c)| + |108 * (s' - s)| := abs_add_le _ _
      _ = 11 * |c' - c| + 108 * |s' - s| := by rw [abs_mul, abs_mul, abs_of_pos (by norm_num : (0:ℝ) < 11), abs_of_pos (by norm_num : (0:ℝ) < 108)]
      _ ≤ 119 * δ := by linarith
  have q3 : |t * (11 * (c' - c) + 108 * (s' - s))| ≤ t * (119 * δ) := by
    rw [abs_mul, abs_of_nonneg ht0]; exact mul_le_mul_of_nonneg_left q2 ht0
  rw [ediff]
  calc |23 * Kc * (eT' - eT) + t * (11 * (c' - c) + 108 * (s' - s))|
      ≤ |23 * Kc * (eT' - eT)| + |t * (11 * (c' - c) + 108 * (s' - s))| := abs_add_le _ _
    _ ≤ 23 * Kc * (0.25 * δ) + t * (119 * δ) := add_le_add q1 q3
    _ = (5.75 * Kc + 119 * t) * δ := by ring

/-- abstract perturbation of the divisor of `r`: it stays positive and `r = 23·P·t/D` moves by at most `40230·ρ·δ` -/
theorem divisor_perturbation {Kc eT eT' c s c' s' ρ den P δ t D D' : ℝ}
    (hKc : 0 < Kc) (heT : 0.7 ≤ eT) (hdeT : |eT' - eT| ≤ 0.25 * δ)
    (hc : |c' - c| ≤ δ) (hs : |s' - s| ≤ δ)
    (hρ0 : 0 ≤ ρ) (hρ : ρ ≤ 1100) (hden0 : 0 < den) (hden : den ≤ 1221) (hP : 0.305 ≤ P) (hδ0 : 0 ≤ δ) (hδ' : 20115 * δ ≤ 1 / 2)
    (ht : t = Kc * eT * ρ / den)
    (hD : D = 23 * (Kc * eT) + t * (11 * c + 108 * s)) (hDP : D = Kc * eT * (23 * P) / den)
    (hD' : D' = 23 * (Kc * eT') + t * (11 * c' + 108 * s')) :
    0 < D' ∧ |23 * P * t / D' - ρ| ≤ 40230 * ρ * δ := by
  obtain ⟨hDpos, ht0, e2, b1, b2⟩ := divisor_size hKc heT hρ0 hρ hden0 hden hP ht hDP
  have d1 := divisor_diff hKc.le ht0 hdeT hc hs hD hD'
  have d2 : |D' - D| ≤ 20115 * D * δ := by
    have : 5.75 * Kc + 119 * t ≤ 20115 * D := by linarith
    exact le_trans d1 (mul_le_mul_of_nonneg_right this hδ0)
  have d3 : 20115 * D * δ ≤ D / 2 := by
    calc 20115 * D * δ = D * (20115 * δ) := by ring
      _ ≤ D * (1 / 2) := mul_le_mul_of_nonneg_left hδ' hDpos.le
      _ = D / 2 := by ring
  obtain ⟨g1, g2⟩ := abs_le.mp d2
  have hD'pos : 0 < D' := by linarith
  have hD'half : D ≤ 2 * D' := by linarith
  refine ⟨hD'pos, ?_⟩
  have e3 : 23 * P * t / D' - ρ = ρ * (D - D') / D' := by
    have : 23 * P * t = D * ρ := by rw [← e2]; ring
    rw [this]; field_simp
  rw [e3, abs_div, abs_of_pos hD'pos, div_le_iff₀ hD'pos, abs_mul, abs_of_nonneg hρ0, abs_sub_comm]
  have hρδ : 0 ≤ ρ * δ := mul_nonneg hρ0 hδ0
  calc ρ * |D' - D| ≤ ρ * (20115 * D * δ) := mul_le_mul_of_nonneg_left d2 hρ0
    _ = 20115 * (ρ * δ * D) := by ring
    _ ≤ 20115 * (ρ * δ * (2 * D')) := mul_le_mul_of_nonneg_left (mul_le_mul_of_nonneg_left hD'half hρδ) (by norm_num)
    _ = 40230 * ρ * δ * D' := by ring

/-- and of one recovered adapted response -/
theorem comp_perturbation {c s c' s' ρ r' δ η x y : ℝ} (hc' : |c'| ≤ 1) (hs' : |s'| ≤ 1) (hc : |c' - c| ≤ δ) (hs : |s' - s| ≤ δ)
    (hr : |r' - ρ| ≤ η) (hρ0 : 0 ≤ ρ) :
    |(x * (c' * r') + y * (s' * r')) - (x * (c * ρ) + y * (s * ρ))| ≤ (|x| + |y|) * (η + ρ * δ) := by
  have hη : 0 ≤ η := le_trans (abs_nonneg _) hr
  have k1 : |c' * r' - c * ρ| ≤ η + ρ * δ := by
    have e : c' * r' - c * ρ = c' * (r' - ρ) + (c' - c) * ρ := by ring
    rw [e]
    calc |c' * (r' - ρ) + (c' - c) * ρ| ≤ |c' * (r' - ρ)| + |(c' - c) * ρ| := abs_add_le _ _
      _ = |c'| * |r' - ρ| + |c' - c| * ρ := by rw [abs_mul, abs_mul, abs_of_nonneg hρ0]
      _ ≤ 1 * η + δ * ρ := by
          apply add_le_add
          · exact mul_le_mul hc' hr (abs_nonneg _) (by norm_num)
          · exact mul_le_mul_of_nonneg_right hc hρ0
      _ = η + ρ * δ := by ring
  have k2 : |s' * r' - s * ρ| ≤ η + ρ * δ := by
    have e : s' * r' - s * ρ = s' * (r' - ρ) + (s' - s) * ρ := by ring
    rw [e]
    calc |s' * (r' - ρ) + (s' - s) * ρ| ≤ |s' * (r' - ρ)| + |(s' - s) * ρ| := abs_add_le _ _
      _ = |s'| * |r' - ρ| + |s' - s| * ρ := by rw [abs_mul, abs_mul, abs_of_nonneg hρ0]
      _ ≤ 1 * η + δ * ρ := by
          apply add_le_add
          · exact mul_le_mul hs' hr (abs_nonneg _) (by norm_num)
          · exact mul_le_mul_of_nonneg_right hs hρ0
      _ = η + ρ * δ := by ring
  have e : (x * (c' * r') + y * (s' * r')) - (x * (c * ρ) + y * (s * ρ)) = x * (c' * r' - c * ρ) + y * (s' * r' - s * ρ) := by ring
  rw [e]
  calc |x * (c' * r' - c * ρ) + y * (s' * r' - s * ρ)| ≤ |x * (c' * r' - c * ρ)| + |y * (s' * r' - s * ρ)| := abs_add_le _ _
    _ = |x| * |c' * r' - c * ρ| + |y| * |s' * r' - s * ρ| := by rw [abs_mul, abs_mul]
    _ ≤ |x| * (η + ρ * δ) + |y| * (η + ρ * δ) := by
        apply add_le_add
        · exact mul_le_mul_of_nonneg_left k1 (abs_nonneg _)
        · exact mul_le_mul_of_nonneg_left k2 (abs_nonneg _)
    _ = (|x| + |y|) * (η + ρ * δ) := by ring

/-- one recovered adapted response stays inside `(−400, 400)`: it moves by at most `6520·40231·1100·δ/1403 ≈ 2.06e8·δ` -/
theorem comp_bound {x y c s c' s' ρ r' δ μ base R : ℝ} (hxy : |x| + |y| ≤ 6520)
    (hc' : |c'| ≤ 1) (hs' : |s'| ≤ 1) (hc : |c' - c| ≤ δ) (hs : |s' - s| ≤ δ)
    (hr : |r' - ρ| ≤ 40230 * ρ * δ) (hρ0 : 0 ≤ ρ) (hρ : ρ ≤ 1100) (hδ0 : 0 ≤ δ)
    (hμ : 6520 * (40231 * (1100 * δ)) * (1 / 1403) ≤ μ)
    (hR : (base + x * (c * ρ) + y * (s * ρ)) * (1 / 1403) = R) (hsat : |R| + μ < 400) :
    |(base + x * (c' * r') + y * (s' * r')) * (1 / 1403)| < 400 := by
  have k := comp_perturbation (x := x) (y := y) hc' hs' hc hs hr hρ0
  have e : (base + x * (c' * r') + y * (s' * r')) * (1 / 1403)
      = R + ((x * (c' * r') + y * (s' * r')) - (x * (c * ρ) + y * (s * ρ))) * (1 / 1403) := by rw [← hR]; ring
  have hρδ : ρ * δ ≤ 1100 * δ := mul_le_mul_of_nonneg_right hρ hδ0
  have hρδ0 : 0 ≤ ρ * δ := mul_nonneg hρ0 hδ0
  have k2 : (|x| + |y|) * (40230 * ρ * δ + ρ * δ) ≤ 6520 * (40231 * (1100 * δ)) := by
    have : 40230 * ρ * δ + ρ * δ = 40231 * (ρ * δ) := by ring
    rw [this]
    apply mul_le_mul hxy (by linarith) (by positivity) (by norm_num)
  have k3 : |((x * (c' * r') + y * (s' * r')) - (x * (c * ρ) + y * (s * ρ))) * (1 / 1403)| ≤ μ := by
    rw [abs_mul, abs_of_pos (by norm_num : (0:ℝ) < 1 / 1403)]
    refine le_trans ?_ hμ
    exact mul_le_mul_of_nonneg_right (le_trans k k2) (by norm_num)
  rw [e]
  calc |R + ((x * (c' * r') + y * (s' * r')) - (x * (c * ρ) + y * (s * ρ))) * (1 / 1403)|
      ≤ |R| + |((x * (c' * r') + y * (s' * r')) - (x * (c * ρ) + y * (s * ρ))) * (1 / 1403)| := abs_add_le _ _
    _ ≤ |R| + μ := by linarith
    _ < 400 := hsat

/-- the opponent signals in terms of the adapted responses, and their size -/
theorem forward_ab (xyz : V3 ℝ) (p : Dep ℝ) :
    (forward xyz p).a = (forward xyz p).rA + (-12.0 * (forward xyz p).gA + (forward xyz p).bA) / 11.0 ∧
    (forward xyz p).b = ((forward xyz p).rA + (forward xyz p).gA - 2.0 * (forward xyz p).bA) / 9.0 ∧
    (forward xyz p).hRad = Complex.arg ⟨(forward xyz p).a, (forward xyz p).b⟩ := by
  obtain ⟨-, -, -, r4, r5, r6, -, -⟩ := forward_struct xyz p
  simp only [K.xyzToCam16_1, K.xyzToCam16_2, K.xyzToCam16_3, K.xyzToCam16_4, RealScalar.atan2_eq] at r4 r5 r6
  exact ⟨r4, r5, r6⟩

theorem rho_le (R G B : ℝ) (hR : |R| ≤ 400) (hG : |G| ≤ 400) (hB : |B| ≤ 400) :
    Real.sqrt ((R + (-12.0 * G + B) / 11.0) * (R + (-12.0 * G + B) / 11.0) + (R + G - 2.0 * B) / 9.0 * ((R + G - 2.0 * B) / 9.0)) ≤ 1100 := by
  obtain ⟨r1, r2⟩ := abs_le.mp hR
  obtain ⟨g1, g2⟩ := abs_le.mp hG
  obtain ⟨b1, b2⟩ := abs_le.mp hB
  have ha : |R + (-12.0 * G + B) / 11.0| ≤ 900 := by rw [abs_le]; norm_num; constructor <;> linarith
  have hb : |(R + G - 2.0 * B) / 9.0| ≤ 200 := by rw [abs_le]; norm_num; constructor <;> linarith
  rw [show (1100:ℝ) = Real.sqrt (1100 * 1100) by rw [Real.sqrt_mul_self (by norm_num)]]
  apply Real.sqrt_le_sqrt
  have h1 := abs_mul_abs_self (R + (-12.0 * G + B) / 11.0)
  have h2 := abs_mul_abs_self ((R + G - 2.0 * B) / 9.0)
  have h3 : |R + (-12.0 * G + B) / 11.0| * |R + (-12.0 * G + B) / 11.0| ≤ 900 * 900 :=
    mul_le_mul ha ha (abs_nonneg _) (by norm_num)
  have h4 : |(R + G - 2.0 * B) / 9.0| * |(R + G - 2.0 * B) / 9.0| ≤ 200 * 200 :=
    mul_le_mul hb hb (abs_nonneg _) (by norm_num)
  rw [← h1, ← h2]
  linarith


/-- the angle the model's inverse reads for the hue the forward model stored: `into_radians(from_radians θ) = θ·(degK·radK)` -/
noncomputable def hueBack (θ : ℝ) : ℝ := hueIntoRadians (hueFromRadians θ)

theorem hueBack_close {θ : ℝ} (h : |θ| ≤ 3.14159) : |hueBack θ - θ| ≤ 1e-35 := by
  have := hue_model_error h
  unfold hueBack
  have h2 : (2e-36:ℝ) * |θ| ≤ 2e-36 * 3.14159 := mul_le_mul_of_nonneg_left h (by norm_num)
  have h3 : (2e-36:ℝ) * 3.14159 ≤ 1e-35 := by norm_num
  linarith

theorem l23 : (23.0:ℝ) = 23 := by norm_num
theorem l11 : (11.0:ℝ) = 11 := by norm_num
theorem l108 : (108.0:ℝ) = 108 := by norm_num

/-- the divisor of `r` on the image, as an equation -/
theorem rDivisor_forward_eq (xyz : V3 ℝ) (p : Dep ℝ) (P : Positive p) (D : InDomain xyz p) :
    rDivisor (forward xyz p).alpha (forward xyz p).hRad p
      = 5e4 / 13.0 * p.nC * p.nCb * (0.25 * (Real.cos ((forward xyz p).hRad + 2.0) + 3.8))
          * (23 * (0.305 + achromaticSignal (forward xyz p))) / tDenominator (forward xyz p) ∧
    rDivisor (forward xyz p).alpha (forward xyz p).hRad p
      = 23 * (5e4 / 13.0 * p.nC * p.nCb * (0.25 * (Real.cos ((forward xyz p).hRad + 2.0) + 3.8)))
          + tOf (forward xyz p) p * (11 * Real.cos (forward xyz p).hRad + 108 * Real.sin (forward xyz p).hRad) := by
  have ht := tOf_nonneg xyz p P D
  have e : ((forward xyz p).alpha * (1.64 - (0.29:ℝ) ^ p.n) ^ (-(0.73:ℝ))) ^ ((10.0:ℝ) / 9.0) = tOf (forward xyz p) p := by
    rw [forward_alpha_eq]; exact t_recover ht P.k
  have second : rDivisor (forward xyz p).alpha (forward xyz p).hRad p
      = 23 * (5e4 / 13.0 * p.nC * p.nCb * (0.25 * (Real.cos ((forward xyz p).hRad + 2.0) + 3.8)))
          + tOf (forward xyz p) p * (11 * Real.cos (forward xyz p).hRad + 108 * Real.sin (forward xyz p).hRad) := by
    unfold rDivisor; rw [e, l23, l11, l108]
  refine ⟨?_, second⟩
  rw [second]
  obtain ⟨r4, r5, r6⟩ := forward_ab xyz p
  obtain ⟨hcos, hsin⟩ := cos_sin_arg_mul (forward xyz p).a (forward xyz p).b
  rw [← r6] at hcos hsin
  have hden := D.denom
  have lin : 23 * tDenominator (forward xyz p) + 11 * (forward xyz p).a + 108 * (forward xyz p).b
      = 23 * (0.305 + achromaticSignal (forward xyz p)) := by
    rw [r4, r5]; unfold tDenominator achromaticSignal; norm_num; ring
  unfold tOf
  generalize 0.25 * (Real.cos ((forward xyz p).hRad + 2.0) + 3.8) = et
  generalize 5e4 / 13.0 * p.nC * p.nCb * et = K1
  generalize Real.sqrt ((forward xyz p).a * (forward xyz p).a + (forward xyz p).b * (forward xyz p).b) = ρ at hcos hsin ⊢
  rw [← lin, ← hcos, ← hsin]
  field_simp
  ring

theorem l460 : (460.0:ℝ) = 460 := by norm_num
theorem l451 : (451.0:ℝ) = 451 := by norm_num
theorem l288 : (288.0:ℝ) = 288 := by norm_num
theorem l891 : (891.0:ℝ) = 891 := by norm_num
theorem l261 : (261.0:ℝ) = 261 := by norm_num
theorem l220 : (220.0:ℝ) = 220 := by norm_num
theorem l6300 : (6300.0:ℝ) = 6300 := by norm_num
theorem l1403 : (1.0:ℝ) / 1403.0 = 1 / 1403 := by norm_num

/-- **the two margins hold at every angle near the forward hue angle**: for a colour of `InDomain`, an angle `φ` within `δ` of `h_rad`
    (`20115·δ ≤ 1/2`) and adapted responses that stay `μ ≥ 2.06e8·δ` below the saturation level 400, the divisor of `r` at `φ` is
    non-zero and the three recovered adapted responses are inside `(−400, 400)` -/
theorem margins_near (xyz : V3 ℝ) (p : Dep ℝ) (P : Positive p) (D : InDomain xyz p) (φ δ μ : ℝ)
    (hφ : |φ - (forward xyz p).hRad| ≤ δ) (hδ' : 20115 * δ ≤ 1 / 2) (hμ : 6520 * (40231 * (1100 * δ)) * (1 / 1403) ≤ μ)
    (hsat : |(forward xyz p).rA| + μ < 400 ∧ |(forward xyz p).gA| + μ < 400 ∧ |(forward xyz p).bA| + μ < 400) :
    rDivisor (forward xyz p).alpha φ p ≠ 0 ∧
    (let rgb := inverseOpponent (forward xyz p).jRoot (forward xyz p).alpha φ p
     |rgb.c0| < 400 ∧ |rgb.c1| < 400 ∧ |rgb.c2| < 400) := by
  obtain ⟨hsR, hsG, hsB⟩ := hsat
  have hδ0 : 0 ≤ δ := le_trans (abs_nonneg _) hφ
  have hμ0 : 0 ≤ μ := le_trans (by positivity) hμ
  have hR400 : |(forward xyz p).rA| ≤ 400 := by linarith
  have hG400 : |(forward xyz p).gA| ≤ 400 := by linarith
  have hB400 : |(forward xyz p).bA| ≤ 400 := by linarith
  have hc0 : 0 < p.c := by have := P.c_lo; linarith
  have hz0 : 0 < p.z := by have := P.z; linarith
  have hnc : 0 < p.nC := by have := P.nC_lo; linarith
  have ht := tOf_nonneg xyz p P D
  have et : ((forward xyz p).alpha * (1.64 - (0.29:ℝ) ^ p.n) ^ (-(0.73:ℝ))) ^ ((10.0:ℝ) / 9.0) = tOf (forward xyz p) p := by
    rw [forward_alpha_eq]; exact t_recover ht P.k
  have hAq : 0 ≤ p.nBb * achromaticSignal (forward xyz p) / p.aW := div_nonneg (mul_nonneg P.nBb.le D.achromatic) P.aW.le
  have ep2 : p.aW * (forward xyz p).jRoot ^ ((2.0:ℝ) / p.c / p.z) / p.nBb = achromaticSignal (forward xyz p) := by
    rw [forward_jRoot_eq, a_recover hAq P.aW.ne' hc0.ne' hz0.ne', mul_div_cancel_left₀ _ P.nBb.ne']
  obtain ⟨r4, r5, r6⟩ := forward_ab xyz p
  obtain ⟨hcos, hsin⟩ := cos_sin_arg_mul (forward xyz p).a (forward xyz p).b
  rw [← r6] at hcos hsin
  obtain ⟨eDP, eD⟩ := rDivisor_forward_eq xyz p P D
  -- sizes
  have hρ0 : 0 ≤ Real.sqrt ((forward xyz p).a * (forward xyz p).a + (forward xyz p).b * (forward xyz p).b) := Real.sqrt_nonneg _
  have hρ : Real.sqrt ((forward xyz p).a * (forward xyz p).a + (forward xyz p).b * (forward xyz p).b) ≤ 1100 := by
    rw [r4, r5]
    exact rho_le _ _ _ hR400 hG400 hB400
  have htdef : tOf (forward xyz p) p = 5e4 / 13.0 * p.nC * p.nCb * (0.25 * (Real.cos ((forward xyz p).hRad + 2.0) + 3.8))
      * Real.sqrt ((forward xyz p).a * (forward xyz p).a + (forward xyz p).b * (forward xyz p).b) / tDenominator (forward xyz p) := rfl
  generalize Real.sqrt ((forward xyz p).a * (forward xyz p).a + (forward xyz p).b * (forward xyz p).b) = ρ at hcos hsin hρ0 hρ htdef
  have hden0 := D.denom
  have hden : tDenominator (forward xyz p) ≤ 1221 := by
    unfold tDenominator
    have := (abs_le.mp hR400).2; have := (abs_le.mp hG400).2; have := (abs_le.mp hB400).2
    norm_num at *; linarith
  have hP : (0.305:ℝ) ≤ 0.305 + achromaticSignal (forward xyz p) := by have := D.achromatic; linarith
  -- the perturbation
  have hc := le_trans (Real.abs_cos_sub_cos_le φ (forward xyz p).hRad) hφ
  have hs := le_trans (Real.abs_sin_sub_sin_le φ (forward xyz p).hRad) hφ
  have hc' := Real.abs_cos_le_one (φ)
  have hs' := Real.abs_sin_le_one (φ)
  have hdeT : |0.25 * (Real.cos (φ + 2.0) + 3.8) - 0.25 * (Real.cos ((forward xyz p).hRad + 2.0) + 3.8)|
      ≤ 0.25 * δ := by
    have h1 := Real.abs_cos_sub_cos_le (φ + 2.0) ((forward xyz p).hRad + 2.0)
    have e1 : φ + 2.0 - ((forward xyz p).hRad + 2.0) = φ - (forward xyz p).hRad := add_sub_add_right_eq_sub _ _ _
    rw [e1] at h1
    have e2 : 0.25 * (Real.cos (φ + 2.0) + 3.8) - 0.25 * (Real.cos ((forward xyz p).hRad + 2.0) + 3.8)
        = 0.25 * (Real.cos (φ + 2.0) - Real.cos ((forward xyz p).hRad + 2.0)) := by ring
    rw [e2, abs_mul, abs_of_pos (by norm_num : (0:ℝ) < 0.25)]
    exact mul_le_mul_of_nonneg_left (le_trans h1 hφ) (by norm_num)
  have heT : (0.7:ℝ) ≤ 0.25 * (Real.cos ((forward xyz p).hRad + 2.0) + 3.8) := by
    have := Real.neg_one_le_cos ((forward xyz p).hRad + 2.0); norm_num; linarith
  have hKc : 0 < 5e4 / 13.0 * p.nC * p.nCb := by have := P.nCb; positivity
  have eD' : rDivisor (forward xyz p).alpha (φ) p
      = 23 * (5e4 / 13.0 * p.nC * p.nCb * (0.25 * (Real.cos (φ + 2.0) + 3.8)))
          + tOf (forward xyz p) p * (11 * Real.cos (φ) + 108 * Real.sin (φ)) := by
    unfold rDivisor; rw [et, l23, l11, l108]
  obtain ⟨hD'pos, hr⟩ := divisor_perturbation hKc heT hdeT hc hs hρ0 hρ hden0 hden hP hδ0 hδ' htdef eD eDP eD'
  refine ⟨hD'pos.ne', ?_⟩
  -- the three components
  obtain ⟨o1, o2, o3⟩ := opponent_linear (forward xyz p).rA (forward xyz p).gA (forward xyz p).bA
  have eA : 2.0 * (forward xyz p).rA + (forward xyz p).gA + 0.05 * (forward xyz p).bA = achromaticSignal (forward xyz p) := rfl
  rw [← r4, ← r5, eA, ← hcos, ← hsin, l460, l451, l288, l1403] at o1
  rw [← r4, ← r5, eA, ← hcos, ← hsin, l460, l891, l261, l1403] at o2
  rw [← r4, ← r5, eA, ← hcos, ← hsin, l460, l220, l6300, l1403] at o3
  rw [inverseOpponent_eq_rDivisor]
  simp only [et, ep2, l23, l460, l451, l288, l891, l261, l220, l6300, l1403]
  refine ⟨?_, ?_, ?_⟩
  · exact comp_bound (x := 451) (y := 288) (by norm_num) hc' hs' hc hs hr hρ0 hρ hδ0 hμ o1 hsR
  · have o2' : (460 * achromaticSignal (forward xyz p) + (-891) * (Real.cos (forward xyz p).hRad * ρ)
        + (-261) * (Real.sin (forward xyz p).hRad * ρ)) * (1 / 1403) = (forward xyz p).gA := by
      rw [← o2]; ring
    have := comp_bound (x := -891) (y := -261) (by norm_num) hc' hs' hc hs hr hρ0 hρ hδ0 hμ o2' hsG
    convert this using 2; ring
  · have o3' : (460 * achromaticSignal (forward xyz p) + (-220) * (Real.cos (forward xyz p).hRad * ρ)
        + (-6300) * (Real.sin (forward xyz p).hRad * ρ)) * (1 / 1403) = (forward xyz p).bA := by
      rw [← o3]; ring
    have := comp_bound (x := -220) (y := -6300) (by norm_num) hc' hs' hc hs hr hρ0 hρ hδ0 hμ o3' hsB
    convert this using 2; ring


/-! ## the read-back angle for every hue -/

/-- **for every hue angle** the read-back angle has the `sin`/`cos` of an angle within `4e-20` of it: either no normalisation happens
    (`hueBack θ = θ·degK·radK`), or the degree value `θ·degK` lies just outside `(−180, 180]` and is wrapped by ±360, which moves
    the angle by `2π_f64 ≈ 2π` -/
theorem hueBack_near {θ : ℝ} (h : |θ| ≤ 3.1416) :
    ∃ φ : ℝ, Real.cos φ = Real.cos (hueBack θ) ∧ Real.sin φ = Real.sin (hueBack θ) ∧ |φ - θ| ≤ 4e-20 := by
  obtain ⟨m, hm⟩ := normalizeSigned_congruent (θ * degK)
  obtain ⟨n0, n1⟩ := normalizeSigned_range (θ * degK)
  obtain ⟨t0, t1⟩ := abs_le.mp h
  have hx : |θ * degK| ≤ 181 := by
    rw [degK_val, abs_le]; constructor <;> nlinarith
  obtain ⟨x0, x1⟩ := abs_le.mp hx
  rw [hm] at n0 n1
  -- |m| ≤ 1
  have hm1 : (m : ℝ) ≤ 1 := by
    by_contra hc
    have : (2:ℤ) ≤ m := by
      have : (1:ℤ) < m := by exact_mod_cast (not_le.mp hc)
      omega
    have : (2:ℝ) ≤ m := by exact_mod_cast this
    linarith
  have hm0 : (-1 : ℝ) ≤ m := by
    by_contra hc
    have : m ≤ (-2:ℤ) := by
      have : m < (-1:ℤ) := by exact_mod_cast (not_le.mp hc)
      omega
    have : (m:ℝ) ≤ -2 := by exact_mod_cast this
    linarith
  have hmabs : |(m:ℝ)| ≤ 1 := abs_le.mpr ⟨hm0, hm1⟩
  have eb : hueBack θ = θ * degK * radK - 360 * m * radK := by
    unfold hueBack
    rw [hueIntoRadians_eq_with, hueFromRadians_eq_with]
    unfold hueIntoRadiansWith hueFromRadiansWith
    rw [hm]; ring
  refine ⟨hueBack θ + m * (2 * Real.pi), Real.cos_add_int_mul_two_pi _ _, Real.sin_add_int_mul_two_pi _ _, ?_⟩
  have e : hueBack θ + m * (2 * Real.pi) - θ = (degK * radK - 1) * θ + 360 * m * (Real.pi / 180 - radK) := by rw [eb]; ring
  rw [e]
  have k1 : |(degK * radK - 1) * θ| ≤ 2e-36 * 3.1416 := by
    rw [abs_mul]; exact mul_le_mul degK_mul_radK.1 h (abs_nonneg _) (by norm_num)
  have k2 : |360 * m * (Real.pi / 180 - radK)| ≤ 360 * 1 * 1e-22 := by
    rw [abs_mul, abs_mul, abs_of_pos (by norm_num : (0:ℝ) < 360)]
    have := radK_close
    rw [abs_sub_comm] at this
    exact mul_le_mul (mul_le_mul_of_nonneg_left hmabs (by norm_num)) this (abs_nonneg _) (by norm_num)
  calc |(degK * radK - 1) * θ + 360 * m * (Real.pi / 180 - radK)|
      ≤ |(degK * radK - 1) * θ| + |360 * m * (Real.pi / 180 - radK)| := abs_add_le _ _
    _ ≤ 2e-36 * 3.1416 + 360 * 1 * 1e-22 := add_le_add k1 k2
    _ ≤ 4e-20 := by norm_num

/-- the margins at the model's own read-back angle, **every hue angle**: responses `1e-10` below saturation suffice -/
theorem model_margins (xyz : V3 ℝ) (p : Dep ℝ) (P : Positive p) (D : InDomain xyz p)
    (hsat : |(forward xyz p).rA| ≤ 400 - 1e-10 ∧ |(forward xyz p).gA| ≤ 400 - 1e-10 ∧ |(forward xyz p).bA| ≤ 400 - 1e-10) :
    rDivisor (forward xyz p).alpha (hueBack (forward xyz p).hRad) p ≠ 0 ∧
    (let rgb := inverseOpponent (forward xyz p).jRoot (forward xyz p).alpha (hueBack (forward xyz p).hRad) p
     |rgb.c0| < 400 ∧ |rgb.c1| < 400 ∧ |rgb.c2| < 400) := by
  obtain ⟨r0, r1⟩ := forward_hRad_range xyz p
  have hpi := Real.pi_lt_d4
  have hh : |(forward xyz p).hRad| ≤ 3.1416 := abs_le.mpr ⟨by linarith, by linarith⟩
  obtain ⟨φ, hcos, hsin, hφ⟩ := hueBack_near hh
  obtain ⟨hsR, hsG, hsB⟩ := hsat
  obtain ⟨m1, m2⟩ := margins_near xyz p P D φ 4e-20 1e-11 hφ (by norm_num) (by norm_num)
    ⟨by linarith [show (1e-11:ℝ) < 1e-10 by norm_num], by linarith [show (1e-11:ℝ) < 1e-10 by norm_num],
     by linarith [show (1e-11:ℝ) < 1e-10 by norm_num]⟩
  rw [rDivisor_congr _ _ _ p hcos hsin, inverseOpponent_congr_angle _ _ _ _ p hcos hsin] at *
  exact ⟨m1, m2⟩

/-- the same off the sliver next to ±π, where no normalisation happens and the angle moves by `1e-35` only: responses `1e-25` below
    saturation suffice -/
theorem model_margins_tight (xyz : V3 ℝ) (p : Dep ℝ) (P : Positive p) (D : InDomain xyz p)
    (hh : |(forward xyz p).hRad| ≤ 3.14159)
    (hsat : |(forward xyz p).rA| ≤ 400 - 1e-25 ∧ |(forward xyz p).gA| ≤ 400 - 1e-25 ∧ |(forward xyz p).bA| ≤ 400 - 1e-25) :
    rDivisor (forward xyz p).alpha (hueBack (forward xyz p).hRad) p ≠ 0 ∧
    (let rgb := inverseOpponent (forward xyz p).jRoot (forward xyz p).alpha (hueBack (forward xyz p).hRad) p
     |rgb.c0| < 400 ∧ |rgb.c1| < 400 ∧ |rgb.c2| < 400) := by
  obtain ⟨hsR, hsG, hsB⟩ := hsat
  exact margins_near xyz p P D _ 1e-35 1e-26 (hueBack_close hh) (by norm_num) (by norm_num)
    ⟨by linarith [show (1e-26:ℝ) < 1e-25 by norm_num], by linarith [show (1e-26:ℝ) < 1e-25 by norm_num],
     by linarith [show (1e-26:ℝ) < 1e-25 by norm_num]⟩

/-! ## the saturation margin, from the size of the cone response -/

theorem abs_signum (x : ℝ) : |signum x| = 1 := by
  rcases lt_trichotomy x 0 with h | h | h
  · rw [signum_neg h]; norm_num
  · rw [h, signum_zero]; norm_num
  · rw [signum_pos h]; norm_num

/-- `|adapt(x)| ≤ 400 − 1e-10` as long as `F_L·|x|/100 ≤ 1e13`, and `≤ 400 − 1e-25` as long as it is `≤ 1e29` (any cone response a
    finite colour under a physical adapting luminance can have: `F_L ≤ 1.5·L_A`, in-range cone responses are `< 200`) -/
theorem adaptRun_margin {fL x M : ℝ} (hf : 0 < fL) (hM : 1 ≤ M) (h : fL * |x| * 0.01 ≤ M) :
    |adaptRun fL x| ≤ 400 * M / (M + 27.13) := by
  have hb : 0 ≤ fL * |x| * 0.01 := by positivity
  have hy0 : 0 ≤ (fL * |x| * 0.01) ^ (0.42:ℝ) := Real.rpow_nonneg hb _
  have hy : (fL * |x| * 0.01) ^ (0.42:ℝ) ≤ M := by
    rcases le_or_gt (fL * |x| * 0.01) 1 with h1 | h1
    · exact le_trans (Real.rpow_le_one hb h1 (by norm_num)) hM
    · calc (fL * |x| * 0.01) ^ (0.42:ℝ) ≤ (fL * |x| * 0.01) ^ (1:ℝ) := Real.rpow_le_rpow_of_exponent_le h1.le (by norm_num)
        _ = fL * |x| * 0.01 := Real.rpow_one _
        _ ≤ M := h
  have hm : 0 ≤ adaptMag fL x := by unfold adaptMag; positivity
  rw [adaptRun_eq_signum_mag, abs_mul, abs_signum, one_mul, abs_of_nonneg hm, adaptMag_eq_gOf]
  exact gOf_mono hy0 hy

theorem adaptRun_margin_10 {fL x : ℝ} (hf : 0 < fL) (h : fL * |x| * 0.01 ≤ 1e13) : |adaptRun fL x| ≤ 400 - 1e-10 :=
  le_trans (adaptRun_margin hf (by norm_num) h) (by norm_num)
theorem adaptRun_margin_25 {fL x : ℝ} (hf : 0 < fL) (h : fL * |x| * 0.01 ≤ 1e29) : |adaptRun fL x| ≤ 400 - 1e-25 :=
  le_trans (adaptRun_margin hf (by norm_num) h) (by norm_num)

/-! ## the model as it stands -/

/-- **`into_xyz ∘ from_xyz` exactly as the model composes them** (hue stored in degrees by `from_radians`, read back by
    `into_radians`: the inverse sees the angle `h_rad·(1 − 1.9e-36)`, possibly wrapped by `2π_f64`), all six partial types, everything
    evaluated at `PReal`, hypotheses on the raw viewing conditions and the colour only: finite for **every colour of `InDomain`,
    every hue**, whose adapted cone responses stay `1e-10` below the saturation level 400.
    FULL STATEMENT (every colour of `InDomain`): missing are only responses within `1e-10` of saturation (`F_L·|cone|/100 > 1e13`, see
    `adaptRun_margin_10`; no physical viewing condition) — hence `_partial`. -/
theorem cam16_model_roundtrip_finite_partial (k : PKind) (prm : Parameters ℝ) (v : ValidRaw prm) (xyz : V3 ℝ)
    (D : InDomain xyz (prepareParameters prm))
    (hsat : |(forward xyz (prepareParameters prm)).rA| ≤ 400 - 1e-10 ∧ |(forward xyz (prepareParameters prm)).gA| ≤ 400 - 1e-10 ∧
            |(forward xyz (prepareParameters prm)).bA| ≤ 400 - 1e-10) :
    (k.intoXyz (k.fromXyz xyz.lift (prepareParameters (liftParameters prm))) (prepareParameters (liftParameters prm))).Finite := by
  have P := prepare_positive v
  rcases eq_or_lt_of_le D.achromatic with hA | hA
  · rw [prepare_defined v, partial_fromXyz_defined k xyz _ P D]
    exact ⟨_, intoXyz_black_on_image k xyz _ P hA.symm (ok _) (ok _)⟩
  · obtain ⟨m1, m2⟩ := model_margins xyz _ P D hsat
    exact cam16_model_roundtrip_finite_of_margins k prm v xyz D hA m1 m2

/-- off the sliver next to ±π the saturation margin can be `1e-25` -/
theorem cam16_model_roundtrip_finite_tight_partial (k : PKind) (prm : Parameters ℝ) (v : ValidRaw prm) (xyz : V3 ℝ)
    (D : InDomain xyz (prepareParameters prm)) (hh : |(forward xyz (prepareParameters prm)).hRad| ≤ 3.14159)
    (hsat : |(forward xyz (prepareParameters prm)).rA| ≤ 400 - 1e-25 ∧ |(forward xyz (prepareParameters prm)).gA| ≤ 400 - 1e-25 ∧
            |(forward xyz (prepareParameters prm)).bA| ≤ 400 - 1e-25) :
    (k.intoXyz (k.fromXyz xyz.lift (prepareParameters (liftParameters prm))) (prepareParameters (liftParameters prm))).Finite := by
  have P := prepare_positive v
  rcases eq_or_lt_of_le D.achromatic with hA | hA
  · rw [prepare_defined v, partial_fromXyz_defined k xyz _ P D]
    exact ⟨_, intoXyz_black_on_image k xyz _ P hA.symm (ok _) (ok _)⟩
  · obtain ⟨m1, m2⟩ := model_margins_tight xyz _ P D hh hsat
    exact cam16_model_roundtrip_finite_of_margins k prm v xyz D hA m1 m2

/-- the same with the saturation margin expressed through the cone responses: `F_L·|cone|/100 ≤ 1e13` in each channel -/
theorem cam16_model_roundtrip_finite_of_cones (k : PKind) (prm : Parameters ℝ) (v : ValidRaw prm) (xyz : V3 ℝ)
    (D : InDomain xyz (prepareParameters prm))
    (h0 : (prepareParameters prm).adaptFL * |(coneAdapted xyz (prepareParameters prm)).c0| * 0.01 ≤ 1e13)
    (h1 : (prepareParameters prm).adaptFL * |(coneAdapted xyz (prepareParameters prm)).c1| * 0.01 ≤ 1e13)
    (h2 : (prepareParameters prm).adaptFL * |(coneAdapted xyz (prepareParameters prm)).c2| * 0.01 ≤ 1e13) :
    (k.intoXyz (k.fromXyz xyz.lift (prepareParameters (liftParameters prm))) (prepareParameters (liftParameters prm))).Finite := by
  have P := prepare_positive v
  obtain ⟨e0, e1, e2⟩ := forward_adapted xyz (prepareParameters prm)
  apply cam16_model_roundtrip_finite_partial k prm v xyz D
  rw [e0, e1, e2]
  exact ⟨adaptRun_margin_10 P.fL h0, adaptRun_margin_10 P.fL h1, adaptRun_margin_10 P.fL h2⟩

/-- `F_L ≤ 0.3·max(1, 5 L_A)`: a crude bound, enough to see that the cone hypothesis is met with 27 orders of magnitude to spare -/
theorem spec_FL_le {la : ℝ} (h : 1 ≤ 5 * la) : Spec.Cam16.FL la ≤ 0.3 * (5 * la) := by
  unfold Spec.Cam16.FL Spec.Cam16.k
  have hla : 0 < la := by linarith
  have hk0 : 0 < 1 / (5 * la + 1) := by positivity
  have hk1 : 1 / (5 * la + 1) ≤ 1 := by rw [div_le_one (by positivity)]; linarith
  have hk4 : (1 / (5 * la + 1)) ^ 4 ≤ 1 := pow_le_one₀ hk0.le hk1
  have hk40 : 0 ≤ (1 / (5 * la + 1)) ^ 4 := by positivity
  have hr : (5 * la) ^ ((1:ℝ) / 3) ≤ 5 * la := by
    calc (5 * la) ^ ((1:ℝ) / 3) ≤ (5 * la) ^ (1:ℝ) := Real.rpow_le_rpow_of_exponent_le h (by norm_num)
      _ = 5 * la := Real.rpow_one _
  have hr0 : 0 ≤ (5 * la) ^ ((1:ℝ) / 3) := by positivity
  have hsq : (1 - (1 / (5 * la + 1)) ^ 4) ^ 2 ≤ 1 := by
    have : 0 ≤ 1 - (1 / (5 * la + 1)) ^ 4 := by linarith
    have : 1 - (1 / (5 * la + 1)) ^ 4 ≤ 1 := by linarith
    nlinarith
  have hsq0 : 0 ≤ (1 - (1 / (5 * la + 1)) ^ 4) ^ 2 := by positivity
  have t1 : 0.2 * (1 / (5 * la + 1)) ^ 4 * (5 * la) ≤ 0.2 * (5 * la) := by
    have : (1 / (5 * la + 1)) ^ 4 * (5 * la) ≤ 1 * (5 * la) := mul_le_mul_of_nonneg_right hk4 (by positivity)
    linarith
  have t2 : 0.1 * (1 - (1 / (5 * la + 1)) ^ 4) ^ 2 * (5 * la) ^ ((1:ℝ) / 3) ≤ 0.1 * (5 * la) := by
    have : (1 - (1 / (5 * la + 1)) ^ 4) ^ 2 * (5 * la) ^ ((1:ℝ) / 3) ≤ 1 * (5 * la) := mul_le_mul hsq hr hr0 (by norm_num)
    linarith
  linarith

/-- **a hypothesis-free instance for the model as it stands**: the grey `Xyz(0.2, 0.2, 0.2)` under the equal-energy white
    (`C16.witnessPrm`: `L_A = 40`, `Y_b = 0.2`, average surround) goes through each of the six partial types and back without poison,
    with the hue exactly as the model stores and reads it -/
theorem greyE_model_roundtrip (k : PKind) :
    (k.intoXyz (k.fromXyz (⟨0.2, 0.2, 0.2⟩ : V3 ℝ).lift (prepareParameters (liftParameters witnessPrm)))
      (prepareParameters (liftParameters witnessPrm))).Finite := by
  obtain ⟨D, _, h0⟩ := greyE_forward
  have P := prepare_positive witness_valid
  have hfl : (prepareParameters witnessPrm).adaptFL ≤ 60 := by
    rw [(prepare_eq_spec witnessPrm).1]
    have := spec_FL_le (la := witnessPrm.adaptingLuminance) (by simp only [witnessPrm]; norm_num)
    simp only [witnessPrm] at this ⊢
    norm_num at this ⊢
    linarith
  have c0 : (coneAdapted ⟨0.2, 0.2, 0.2⟩ (prepareParameters witnessPrm)).c0 = 20 := by
    simp only [coneAdapted, mul3, witness_dRgb, m16_eq]; norm_num
  have c1 : (coneAdapted ⟨0.2, 0.2, 0.2⟩ (prepareParameters witnessPrm)).c1 = 20 := by
    simp only [coneAdapted, mul3, witness_dRgb, m16_eq]; norm_num
  have c2 : (coneAdapted ⟨0.2, 0.2, 0.2⟩ (prepareParameters witnessPrm)).c2 = 20 := by
    simp only [coneAdapted, mul3, witness_dRgb, m16_eq]; norm_num
  have hb : (prepareParameters witnessPrm).adaptFL * |(20:ℝ)| * 0.01 ≤ 1e13 := by
    rw [abs_of_pos (by norm_num : (0:ℝ) < 20)]
    have := P.fL
    nlinarith
  apply cam16_model_roundtrip_finite_of_cones k witnessPrm witness_valid _ D
  · rw [c0]; exact hb
  · rw [c1]; exact hb
  · rw [c2]; exact hb

end C07
