/-
  C01 (Ottosson family) — **Oklab ↔ Okhsl as composite inverses** at ℝ, on the model functions `Ok.okhslToOklab` / `Ok.oklabToOkhsl`
  the driver executes (their bodies are re-generated from the Rust text and proved equal to these in `Tie_Bodies`).

  The cusp / gamut-intersection machinery (`find_cusp`, `find_gamut_intersection`, `max_saturation`, `ST::mid`) enters both directions
  only through ONE value, `cs = ChromaValues::from_normalized(L, a_, b_)`, computed from the Oklab lightness `L` and the unit hue vector
  `(a_, b_)`.  Both directions evaluate it at the *same* arguments (`L = toe_inv(l)` resp. the given `L`; `(a_, b_) = (cos h, sin h)`
  resp. `(a/C, b/C)`), so the round trip is exact at ℝ whatever the accuracy of the cusp fit, provided the three chroma values have the
  order both interpolations rely on: `0 < C_0`, `0 < C_mid < C_max` (`CsOk`).  To make "whatever the fit" literal the theorems are proved
  for the model bodies with `from_normalized` replaced by an ARBITRARY function `F` (`okhslToOklabW F`, `oklabToOkhslW F`; the model is
  the instance `F = fromNormalized`, by `rfl`), and the non-vacuity examples instantiate `F` with concrete rational chroma values.

  Stages used: `toe`/`toe_inv` mutually inverse on `[0, ∞)` (`C02Ok.toe_toeInv`, `toeInv_toe`), the polar pair
  (`C01Ok.oklch_oklab_oklch`, `oklab_oklch_oklab`: unit-vector reconstruction and hue normalisation), the two interpolation branches
  saturation → chroma → saturation (`C01Ok.okhsl_saturation_chroma_{lo,hi}_partial`) and — new here — chroma → saturation → chroma.
-/
import PaletteProofs.C01_Ok

namespace C01OkComposite
open Ok C01Ok

theorem eqv_iff (a b : ℝ) : Scalar.eqv a b ↔ a = b := by unfold Scalar.eqv; exact le_antisymm_iff.symm

/-! ### the order of the three chroma values both interpolations rely on -/

/-- `0 < C_0`, `0 < C_mid < C_max` -/
structure CsOk (cs : Cs ℝ) : Prop where
  zero : 0 < cs.zero
  mid : 0 < cs.mid
  max : cs.mid < cs.max

/-! ### the model bodies with `from_normalized` abstracted -/

/-- `Ok.okhslToOklab` with `ChromaValues::from_normalized` replaced by `F` -/
noncomputable def okhslToOklabW (F : ℝ → ℝ → ℝ → Cs ℝ) (c : V3 ℝ) : V3 ℝ :=
  let h := c.c0; let s := c.c1; let l := c.c2
  if Scalar.eqv l 1.0 then ⟨1.0, 0.0, 0.0⟩
  else if Scalar.eqv l 0.0 then ⟨0.0, 0.0, 0.0⟩
  else
    let ab := hueIntoCartesian h
    let a_ := ab.1; let b_ := ab.2
    let oklab_lightness := toeInv l
    if Scalar.eqv oklab_lightness 1.0 then ⟨1.0, 0.0, 0.0⟩ else
    let cs := F oklab_lightness a_ b_
    let chroma := okhslChroma cs s
    ⟨oklab_lightness, chroma * a_, chroma * b_⟩

/-- `Ok.oklabToOkhsl` with `ChromaValues::from_normalized` replaced by `F` -/
noncomputable def oklabToOkhslW (F : ℝ → ℝ → ℝ → Cs ℝ) (c : V3 ℝ) : V3 ℝ :=
  let l := toe c.c0
  let chroma := chromaOf c.c1 c.c2
  if !Scalar.isValidDivisor chroma || decide (Scalar.eqv c.c0 1.0) || !Scalar.isValidDivisor c.c0 then ⟨0.0, 0.0, l⟩
  else
    let hue := hueFromCartesian c.c1 c.c2
    let cs := F c.c0 (c.c1 / chroma) (c.c2 / chroma)
    let s := okhslSaturation cs chroma
    ⟨hue, s, l⟩

/-- **the restatements are the model functions** -/
theorem okhslToOklabW_model : okhslToOklabW fromNormalized = okhslToOklab := rfl
theorem oklabToOkhslW_model : oklabToOkhslW fromNormalized = oklabToOkhsl := rfl

/-! ### `toe`, `toe_inv` on the open unit interval -/

theorem toeInv_pos (y : ℝ) (hy : 0 < y) : 0 < toeInv y := by
  rw [C02Ok.toeInv_real]; unfold C02Ok.toeInvG; positivity

theorem toeInv_ne_one (y : ℝ) (hy0 : 0 ≤ y) (hy1 : y ≠ 1) : toeInv y ≠ 1 := by
  intro h
  have h1 : toe (toeInv y) = y := C02Ok.toe_toeInv y hy0
  have h2 : toe (toeInv (1:ℝ)) = 1 := C02Ok.toe_toeInv 1 (by norm_num)
  rw [C02Ok.toeInv_zero_one.2] at h2
  rw [h, h2] at h1
  exact hy1 h1.symm

theorem toe_ne_one (x : ℝ) (hx0 : 0 ≤ x) (hx1 : x ≠ 1) : toe x ≠ 1 := by
  intro h
  have h1 : toeInv (toe x) = x := C02Ok.toeInv_toe x hx0
  rw [h, C02Ok.toeInv_zero_one.2] at h1
  exact hx1 h1.symm

theorem toe_ne_zero (x : ℝ) (hx : 0 < x) : toe x ≠ 0 := by
  intro h
  have h1 : toeInv (toe x) = x := C02Ok.toeInv_toe x hx.le
  rw [h, C02Ok.toeInv_zero_one.1] at h1
  exact hx.ne' h1.symm

/-! ### the polar stage, in the association the Okhsl/Okhsv code uses (`chroma * a_`) -/

theorem chroma_of_polar (C h : ℝ) (hC : 0 < C) (h0 : 0 < h) (h360 : h ≤ 360) :
    chromaOf (C * Real.cos (h * (Real.pi / 180))) (C * Real.sin (h * (Real.pi / 180))) = C ∧
    hueFromCartesian (C * Real.cos (h * (Real.pi / 180))) (C * Real.sin (h * (Real.pi / 180))) = h := by
  have key := oklch_oklab_oklch 0 C h hC h0 h360
  rw [oklchToOklab_real, max_eq_left hC.le] at key
  have e : oklabToOklch (⟨0, Real.cos (h * (Real.pi / 180)) * C, Real.sin (h * (Real.pi / 180)) * C⟩ : V3 ℝ) =
      ⟨0, chromaOf (Real.cos (h * (Real.pi / 180)) * C) (Real.sin (h * (Real.pi / 180)) * C),
        hueFromCartesian (Real.cos (h * (Real.pi / 180)) * C) (Real.sin (h * (Real.pi / 180)) * C)⟩ := rfl
  rw [e] at key
  rw [mul_comm C, mul_comm C]
  exact ⟨congrArg V3.c1 key, congrArg V3.c2 key⟩

/-- the unit vector is recovered from the stored hue: `(cos, sin)(hue(a, b)) = (a/C, b/C)` with `C = √(a² + b²) > 0` -/
theorem unit_of_hue (a b : ℝ) (hC : 0 < chromaOf a b) :
    Real.cos (hueFromCartesian a b * (Real.pi / 180)) = a / chromaOf a b ∧
    Real.sin (hueFromCartesian a b * (Real.pi / 180)) = b / chromaOf a b := by
  have key := oklab_oklch_oklab 0 a b
  have e : oklabToOklch (⟨0, a, b⟩ : V3 ℝ) = ⟨0, chromaOf a b, hueFromCartesian a b⟩ := rfl
  rw [e, oklchToOklab_real, max_eq_left hC.le] at key
  have k1 := congrArg V3.c1 key
  have k2 := congrArg V3.c2 key
  simp only at k1 k2
  exact ⟨by rw [eq_div_iff hC.ne']; exact k1, by rw [eq_div_iff hC.ne']; exact k2⟩

/-! ### the interpolation stage, chroma → saturation → chroma (the converse of `C01Ok.okhsl_saturation_chroma_*_partial`) -/

/-- the algebra: `t = C/(k₁ + k₂C)` is undone by `C = t·k₁/(1 − k₂t)` -/
theorem interp_inv' (k1 k2 C : ℝ) (hk : k1 ≠ 0) (hD : k1 + k2 * C ≠ 0) :
    C / (k1 + k2 * C) * k1 / (1.0 - k2 * (C / (k1 + k2 * C))) = C := by
  have h1 : (1.0 : ℝ) = 1 := by norm_num
  rw [h1]
  obtain ⟨D, hDdef⟩ : ∃ D, D = k1 + k2 * C := ⟨_, rfl⟩
  rw [← hDdef] at hD ⊢
  have e : 1 - k2 * (C / D) = k1 / D := by
    rw [eq_div_iff hD, sub_mul, mul_assoc, div_mul_cancel₀ _ hD, hDdef]; ring
  rw [e]; field_simp

/-- denominators and range of the lower branch, literal-free: `k₂ = 1 − k₁/m` -/
theorem lo_range (k1 m C : ℝ) (hk : 0 < k1) (hm : 0 < m) (hC0 : 0 ≤ C) (hC : C < m) :
    0 < k1 + (1 - k1 / m) * C ∧ 0 ≤ C / (k1 + (1 - k1 / m) * C) ∧ C / (k1 + (1 - k1 / m) * C) < 1 := by
  have e : k1 + (1 - k1 / m) * C = C + k1 * (1 - C / m) := by ring
  have hq : 0 < 1 - C / m := by rw [sub_pos, div_lt_one hm]; exact hC
  have hp := mul_pos hk hq
  have hden : 0 < k1 + (1 - k1 / m) * C := by rw [e]; linarith
  refine ⟨hden, div_nonneg hC0 hden.le, ?_⟩
  rw [div_lt_one hden, e]; linarith

/-- denominators and range of the upper branch, literal-free: `k₂ = 1 − k₁/D`, `0 ≤ d ≤ D` -/
theorem hi_range (k1 D d : ℝ) (hk : 0 < k1) (hD : 0 < D) (hd0 : 0 ≤ d) (hd1 : d ≤ D) :
    0 < k1 + (1 - k1 / D) * d ∧ 0 ≤ d / (k1 + (1 - k1 / D) * d) ∧ d / (k1 + (1 - k1 / D) * d) ≤ 1 := by
  have e : k1 + (1 - k1 / D) * d = d + k1 * (1 - d / D) := by ring
  have hq : 0 ≤ 1 - d / D := by rw [sub_nonneg, div_le_one hD]; exact hd1
  have hp := mul_nonneg hk.le hq
  have hden : 0 < k1 + (1 - k1 / D) * d := by
    rw [e]
    rcases eq_or_lt_of_le hd0 with h | h
    · rw [← h]; simpa using hk
    · linarith
  refine ⟨hden, div_nonneg hd0 hden.le, ?_⟩
  rw [div_le_one hden, e]; linarith

/-- lower part (`0 ≤ C < C_mid`): the saturation is in `[0, 0.8)` and converts back to `C` -/
theorem okhsl_chroma_saturation_lo (cs : Cs ℝ) (h0 : 0 < cs.zero) (hm : 0 < cs.mid) (C : ℝ) (hC0 : 0 ≤ C) (hC : C < cs.mid) :
    0 ≤ okhslSaturation cs C ∧ okhslSaturation cs C < 0.8 ∧ okhslChroma cs (okhslSaturation cs C) = C := by
  rw [okhslSaturation_lo cs C hC]
  have h10 : (1.0 : ℝ) = 1 := by norm_num
  obtain ⟨k1, hk1⟩ : ∃ k1 : ℝ, k1 = 0.8 * cs.zero := ⟨_, rfl⟩
  have hk1pos : 0 < k1 := by rw [hk1]; exact mul_pos (by norm_num) h0
  rw [← hk1, h10]
  obtain ⟨hden, ht0, ht1⟩ := lo_range k1 cs.mid C hk1pos hm hC0 hC
  obtain ⟨t, ht⟩ : ∃ t : ℝ, t = C / (k1 + (1 - k1 / cs.mid) * C) := ⟨_, rfl⟩
  rw [← ht] at ht0 ht1 ⊢
  have hs : t * 0.8 < 0.8 := by linarith
  refine ⟨by linarith, hs, ?_⟩
  rw [okhslChroma_lo cs _ hs]
  have e : (1.25 : ℝ) * (t * 0.8) = t := by linarith
  rw [e, ← hk1, ht]
  have := interp_inv' k1 (1 - k1 / cs.mid) C hk1pos.ne' hden.ne'
  rw [h10] at this ⊢
  exact this

/-- upper part (`C_mid ≤ C ≤ C_max`): the saturation is in `[0.8, 1]` and converts back to `C` -/
theorem okhsl_chroma_saturation_hi (cs : Cs ℝ) (h0 : 0 < cs.zero) (hm : 0 < cs.mid) (hx : cs.mid < cs.max) (C : ℝ)
    (hC : ¬ C < cs.mid) (hCx : C ≤ cs.max) :
    ¬ okhslSaturation cs C < 0.8 ∧ okhslSaturation cs C ≤ 1 ∧ okhslChroma cs (okhslSaturation cs C) = C := by
  rw [okhslSaturation_hi cs C hC]
  have hC' : cs.mid ≤ C := not_lt.mp hC
  have h10 : (1.0 : ℝ) = 1 := by norm_num
  obtain ⟨k1, hk1⟩ : ∃ k1 : ℝ, k1 = (1.0 - 0.8) * ((cs.mid * 1.25) * (cs.mid * 1.25)) / cs.zero := ⟨_, rfl⟩
  have hk1pos : 0 < k1 := by
    rw [hk1]; exact div_pos (mul_pos (by norm_num) (mul_pos (mul_pos hm (by norm_num)) (mul_pos hm (by norm_num)))) h0
  have hd : 0 < cs.max - cs.mid := sub_pos.mpr hx
  obtain ⟨d, hd'⟩ : ∃ d : ℝ, d = C - cs.mid := ⟨_, rfl⟩
  have hd0 : 0 ≤ d := by rw [hd']; exact sub_nonneg.mpr hC'
  have hd1 : d ≤ cs.max - cs.mid := by rw [hd']; linarith
  rw [← hk1, ← hd']
  obtain ⟨hden, ht0, ht1⟩ := hi_range k1 (cs.max - cs.mid) d hk1pos hd hd0 hd1
  have e8 : (1.0 : ℝ) - 0.8 = 0.2 := by norm_num
  rw [e8]
  rw [h10]
  obtain ⟨t, ht⟩ : ∃ t : ℝ, t = d / (k1 + (1 - k1 / (cs.max - cs.mid)) * d) := ⟨_, rfl⟩
  rw [← ht] at ht0 ht1 ⊢
  have hs : ¬ (0.8 + 0.2 * t < 0.8) := by rw [not_lt]; linarith
  have hs1 : 0.8 + 0.2 * t ≤ 1 := by linarith
  refine ⟨hs, hs1, ?_⟩
  rw [okhslChroma_hi cs _ hs]
  have et : (0.8 + 0.2 * t - 0.8) / (1.0 - 0.8) = t := by
    rw [e8, add_sub_cancel_left, mul_div_assoc, mul_comm, div_mul_cancel₀]; norm_num
  have ek : (1.0 - 0.8) * cs.mid * cs.mid * 1.25 * 1.25 / cs.zero = k1 := by
    rw [hk1]; congr 1; rw [e8]; linarith
  rw [et, ek, ht]
  have := interp_inv' k1 (1 - k1 / (cs.max - cs.mid)) d hk1pos.ne' hden.ne'
  rw [h10] at this ⊢
  rw [this, hd']; exact add_sub_cancel _ _

/-- non-vacuity of the two: `C_0 = 0.1`, `C_mid = 0.12`, `C_max = 0.15`, chroma `0.05` (lower) and `0.13` (upper) -/
example : (0:ℝ) < 0.1 ∧ (0:ℝ) < 0.12 ∧ (0.12:ℝ) < 0.15 ∧ (0:ℝ) ≤ 0.05 ∧ (0.05:ℝ) < 0.12 ∧ ¬ (0.13:ℝ) < 0.12 ∧ (0.13:ℝ) ≤ 0.15 := by norm_num

/-- both parts: saturation → chroma → saturation on `0 ≤ s ≤ 1` -/
theorem okhsl_saturation_chroma (cs : Cs ℝ) (hcs : CsOk cs) (s : ℝ) (hs0 : 0 ≤ s) (hs1 : s ≤ 1) :
    okhslSaturation cs (okhslChroma cs s) = s := by
  by_cases h : s < 0.8
  · exact okhsl_saturation_chroma_lo_partial cs hcs.zero hcs.mid s hs0 h
  · exact okhsl_saturation_chroma_hi_partial cs hcs.zero hcs.mid hcs.max s h hs1

/-- … and chroma → saturation → chroma on `0 ≤ C ≤ C_max`, with the saturation in `[0, 1]` -/
theorem okhsl_chroma_saturation (cs : Cs ℝ) (hcs : CsOk cs) (C : ℝ) (hC0 : 0 ≤ C) (hCx : C ≤ cs.max) :
    0 ≤ okhslSaturation cs C ∧ okhslSaturation cs C ≤ 1 ∧ okhslChroma cs (okhslSaturation cs C) = C := by
  by_cases h : C < cs.mid
  · obtain ⟨a, b, c⟩ := okhsl_chroma_saturation_lo cs hcs.zero hcs.mid C hC0 h
    exact ⟨a, by linarith, c⟩
  · obtain ⟨a, b, c⟩ := okhsl_chroma_saturation_hi cs hcs.zero hcs.mid hcs.max C h hCx
    exact ⟨by linarith [not_lt.mp a], b, c⟩

/-- the forward denominators, literal-free -/
theorem lo_den_pos (k1 m t : ℝ) (hk : 0 < k1) (hm : 0 < m) (ht0 : 0 ≤ t) (ht1 : t < 1) : 0 < 1 - (1 - k1 / m) * t := by
  have e : 1 - (1 - k1 / m) * t = (1 - t) + k1 / m * t := by ring
  have := mul_nonneg (div_pos hk hm).le ht0
  rw [e]; linarith

theorem hi_den_pos (k1 D t : ℝ) (hk : 0 < k1) (hD : 0 < D) (ht0 : 0 ≤ t) (ht1 : t ≤ 1) : 0 < 1 - (1 - k1 / D) * t := by
  have e : 1 - (1 - k1 / D) * t = (1 - t) + k1 / D * t := by ring
  have hq : 0 < k1 / D := div_pos hk hD
  rw [e]
  rcases eq_or_lt_of_le ht1 with h1 | h1
  · rw [h1]; linarith
  · have := mul_nonneg hq.le ht0; linarith

/-- the chroma of a positive saturation is positive -/
theorem okhslChroma_pos (cs : Cs ℝ) (hcs : CsOk cs) (s : ℝ) (hs0 : 0 < s) (hs1 : s ≤ 1) : 0 < okhslChroma cs s := by
  have h10 : (1.0 : ℝ) = 1 := by norm_num
  by_cases h : s < 0.8
  · rw [okhslChroma_lo cs s h, h10]
    have hk : (0 : ℝ) < 0.8 * cs.zero := mul_pos (by norm_num) hcs.zero
    have ht0 : (0 : ℝ) < 1.25 * s := mul_pos (by norm_num) hs0
    have ht1 : (1.25 : ℝ) * s < 1 := by linarith
    exact div_pos (mul_pos ht0 hk) (lo_den_pos _ _ _ hk hcs.mid ht0.le ht1)
  · rw [okhslChroma_hi cs s h, h10]
    have hs' : (0.8 : ℝ) ≤ s := not_lt.mp h
    have e8 : (1 : ℝ) - 0.8 = 0.2 := by norm_num
    have ht0 : 0 ≤ (s - 0.8) / (1 - 0.8) := div_nonneg (sub_nonneg.mpr hs') (by norm_num)
    have ht1 : (s - 0.8) / (1 - 0.8) ≤ 1 := by rw [div_le_one (by norm_num)]; linarith
    have hk : 0 < (1 - 0.8) * cs.mid * cs.mid * 1.25 * 1.25 / cs.zero := by
      rw [e8]
      exact div_pos (mul_pos (mul_pos (mul_pos (mul_pos (by norm_num) hcs.mid) hcs.mid) (by norm_num)) (by norm_num)) hcs.zero
    have hden := hi_den_pos _ _ _ hk (sub_pos.mpr hcs.max) ht0 ht1
    have := div_nonneg (mul_nonneg ht0 hk.le) hden.le
    have := hcs.mid
    linarith

/-! ### Okhsl → Oklab → Okhsl -/

/-- the non-degenerate arm of `Okhsl → Oklab` (any `F`): for `0 < l < 1` -/
theorem okhslToOklabW_arm (F : ℝ → ℝ → ℝ → Cs ℝ) (h s l : ℝ) (hl0 : 0 < l) (hl1 : l < 1) :
    okhslToOklabW F ⟨h, s, l⟩ =
      ⟨toeInv l,
       okhslChroma (F (toeInv l) (Real.cos (h * (Real.pi / 180))) (Real.sin (h * (Real.pi / 180)))) s * Real.cos (h * (Real.pi / 180)),
       okhslChroma (F (toeInv l) (Real.cos (h * (Real.pi / 180))) (Real.sin (h * (Real.pi / 180)))) s * Real.sin (h * (Real.pi / 180))⟩ := by
  have g1 : ¬ Scalar.eqv l 1.0 := by rw [eqv_iff]; norm_num; exact hl1.ne
  have g0 : ¬ Scalar.eqv l 0.0 := by rw [eqv_iff]; norm_num; exact hl0.ne'
  have g2 : ¬ Scalar.eqv (toeInv l) 1.0 := by rw [eqv_iff]; norm_num; exact toeInv_ne_one l hl0.le hl1.ne
  unfold okhslToOklabW
  simp only [if_neg g1, if_neg g0, if_neg g2, hueIntoCartesian, RealScalar.degToRad_eq, RealScalar.cos_eq, RealScalar.sin_eq]

/-- the non-degenerate arm of `Oklab → Okhsl` (any `F`): for chroma `≠ 0`, `L ∉ {0, 1}` -/
theorem oklabToOkhslW_arm (F : ℝ → ℝ → ℝ → Cs ℝ) (L a b : ℝ) (hC : chromaOf a b ≠ 0) (hL0 : L ≠ 0) (hL1 : L ≠ 1) :
    oklabToOkhslW F ⟨L, a, b⟩ =
      ⟨hueFromCartesian a b, okhslSaturation (F L (a / chromaOf a b) (b / chromaOf a b)) (chromaOf a b), toe L⟩ := by
  have g1 : ¬ Scalar.eqv L 1.0 := by rw [eqv_iff]; norm_num; exact hL1
  have hb : (!Scalar.isValidDivisor (chromaOf a b) || decide (Scalar.eqv L 1.0) || !Scalar.isValidDivisor L) = false := by
    simp [RealScalar.valid_eq, hC, hL0, g1]
  unfold oklabToOkhslW
  simp only [hb, Bool.false_eq_true, if_false]

/-- **`Okhsl → Oklab → Okhsl` is the identity** on `0 < h ≤ 360` (`0°` comes back as `360°`, the same angle), `0 < s ≤ 1`, `0 < l < 1`,
    for any `from_normalized` whose value at `(toe_inv l, cos h, sin h)` satisfies `CsOk` -/
theorem okhslW_oklab_okhsl (F : ℝ → ℝ → ℝ → Cs ℝ) (h s l : ℝ) (h0 : 0 < h) (h360 : h ≤ 360) (hs0 : 0 < s) (hs1 : s ≤ 1)
    (hl0 : 0 < l) (hl1 : l < 1)
    (hcs : CsOk (F (toeInv l) (Real.cos (h * (Real.pi / 180))) (Real.sin (h * (Real.pi / 180))))) :
    oklabToOkhslW F (okhslToOklabW F ⟨h, s, l⟩) = ⟨h, s, l⟩ := by
  rw [okhslToOklabW_arm F h s l hl0 hl1]
  set cs := F (toeInv l) (Real.cos (h * (Real.pi / 180))) (Real.sin (h * (Real.pi / 180))) with hcsdef
  have hCpos : 0 < okhslChroma cs s := okhslChroma_pos cs hcs s hs0 hs1
  obtain ⟨eC, eH⟩ := chroma_of_polar (okhslChroma cs s) h hCpos h0 h360
  have hL0 : toeInv l ≠ 0 := (toeInv_pos l hl0).ne'
  have hL1 : toeInv l ≠ 1 := toeInv_ne_one l hl0.le hl1.ne
  rw [oklabToOkhslW_arm F _ _ _ (by rw [eC]; exact hCpos.ne') hL0 hL1, eC, eH, mul_div_cancel_left₀ _ hCpos.ne',
    mul_div_cancel_left₀ _ hCpos.ne', ← hcsdef, okhsl_saturation_chroma cs hcs s hs0.le hs1, C02Ok.toe_toeInv l hl0.le]

/-- **… for the model** (`F = fromNormalized`) -/
theorem okhsl_oklab_okhsl (h s l : ℝ) (h0 : 0 < h) (h360 : h ≤ 360) (hs0 : 0 < s) (hs1 : s ≤ 1) (hl0 : 0 < l) (hl1 : l < 1)
    (hcs : CsOk (fromNormalized (toeInv l) (Real.cos (h * (Real.pi / 180))) (Real.sin (h * (Real.pi / 180))))) :
    oklabToOkhsl (okhslToOklab ⟨h, s, l⟩) = ⟨h, s, l⟩ := by
  rw [← okhslToOklabW_model, ← oklabToOkhslW_model]
  exact okhslW_oklab_okhsl fromNormalized h s l h0 h360 hs0 hs1 hl0 hl1 hcs

/-- non-vacuity through a `findCusp`-free `from_normalized`: constant chroma values `C_0 = 0.1`, `C_mid = 0.12`, `C_max = 0.15`; the
    colours `Okhsl(90°, 0.5, 0.5)` (lower interpolation branch) and `Okhsl(360°, 1, 0.25)` (upper branch, both bounds) round-trip -/
example : oklabToOkhslW (fun _ _ _ => ⟨0.1, 0.12, 0.15⟩) (okhslToOklabW (fun _ _ _ => ⟨0.1, 0.12, 0.15⟩) ⟨90, 0.5, 0.5⟩) = ⟨90, 0.5, 0.5⟩ ∧
    oklabToOkhslW (fun _ _ _ => ⟨0.1, 0.12, 0.15⟩) (okhslToOklabW (fun _ _ _ => ⟨0.1, 0.12, 0.15⟩) ⟨360, 1, 0.25⟩) = ⟨360, 1, 0.25⟩ :=
  ⟨okhslW_oklab_okhsl _ 90 0.5 0.5 (by norm_num) (by norm_num) (by norm_num) (by norm_num) (by norm_num) (by norm_num)
      ⟨by norm_num, by norm_num, by norm_num⟩,
   okhslW_oklab_okhsl _ 360 1 0.25 (by norm_num) (by norm_num) (by norm_num) (by norm_num) (by norm_num) (by norm_num)
      ⟨by norm_num, by norm_num, by norm_num⟩⟩

/-! ### Oklab → Okhsl → Oklab -/

/-- **`Oklab → Okhsl → Oklab` is the identity** on `0 < L < 1`, `(a, b) ≠ (0, 0)`, chroma at most the `C_max` the code itself computes for
    this lightness and hue direction, for any `from_normalized` whose value at `(L, a/C, b/C)` satisfies `CsOk`; the intermediate Okhsl
    colour has its saturation in `[0, 1]` -/
theorem oklabW_okhsl_oklab (F : ℝ → ℝ → ℝ → Cs ℝ) (L a b : ℝ) (hL0 : 0 < L) (hL1 : L < 1) (hC : 0 < chromaOf a b)
    (hcs : CsOk (F L (a / chromaOf a b) (b / chromaOf a b))) (hmax : chromaOf a b ≤ (F L (a / chromaOf a b) (b / chromaOf a b)).max) :
    okhslToOklabW F (oklabToOkhslW F ⟨L, a, b⟩) = ⟨L, a, b⟩ ∧
    0 ≤ (oklabToOkhslW F ⟨L, a, b⟩).c1 ∧ (oklabToOkhslW F ⟨L, a, b⟩).c1 ≤ 1 := by
  rw [oklabToOkhslW_arm F L a b hC.ne' hL0.ne' hL1.ne]
  set C := chromaOf a b with hCdef
  set cs := F L (a / C) (b / C) with hcsdef
  obtain ⟨s0, s1, eS⟩ := okhsl_chroma_saturation cs hcs C hC.le hmax
  refine ⟨?_, s0, s1⟩
  have hl0 : 0 < toe L := lt_of_le_of_ne (by
    have := C02Ok.toeInv_toe L hL0.le
    by_contra hneg
    -- `toe L ≥ 0`: from the closed form
    rw [C02Ok.toe_real] at hneg
    unfold C02Ok.toeG at hneg
    apply hneg
    set B := (1 + 0.206) / (1 + 0.03) * L - (0.206 : ℝ)
    have h4 : (0 : ℝ) ≤ 4 * 0.03 * ((1 + 0.206) / (1 + 0.03)) * L := by positivity
    have hsB : |B| ≤ Real.sqrt (B * B + 4 * 0.03 * ((1 + 0.206) / (1 + 0.03)) * L) := by
      apply Real.abs_le_sqrt; nlinarith
    have := neg_abs_le B
    have : 0 ≤ B + Real.sqrt (B * B + 4 * 0.03 * ((1 + 0.206) / (1 + 0.03)) * L) := by linarith
    positivity) (Ne.symm (toe_ne_zero L hL0))
  have hl1 : toe L < 1 := by
    by_contra hge
    have hge' : 1 ≤ toe L := not_lt.mp hge
    -- `toe_inv` is increasing on `[1, ∞)`: `toe_inv y ≥ 1` for `y ≥ 1`
    have : 1 ≤ toeInv (toe L) := by
      rw [C02Ok.toeInv_real]; unfold C02Ok.toeInvG
      rw [le_div_iff₀ (by positivity)]
      nlinarith
    rw [C02Ok.toeInv_toe L hL0.le] at this
    linarith
  rw [okhslToOklabW_arm F _ _ _ hl0 hl1, C02Ok.toeInv_toe L hL0.le]
  obtain ⟨ec, es⟩ := unit_of_hue a b hC
  rw [ec, es, ← hCdef, ← hcsdef, eS, mul_div_cancel₀ _ hC.ne', mul_div_cancel₀ _ hC.ne']

/-- **… for the model** -/
theorem oklab_okhsl_oklab (L a b : ℝ) (hL0 : 0 < L) (hL1 : L < 1) (hC : 0 < chromaOf a b)
    (hcs : CsOk (fromNormalized L (a / chromaOf a b) (b / chromaOf a b)))
    (hmax : chromaOf a b ≤ (fromNormalized L (a / chromaOf a b) (b / chromaOf a b)).max) :
    okhslToOklab (oklabToOkhsl ⟨L, a, b⟩) = ⟨L, a, b⟩ ∧ 0 ≤ (oklabToOkhsl ⟨L, a, b⟩).c1 ∧ (oklabToOkhsl ⟨L, a, b⟩).c1 ≤ 1 := by
  rw [← okhslToOklabW_model, ← oklabToOkhslW_model]
  exact oklabW_okhsl_oklab fromNormalized L a b hL0 hL1 hC hcs hmax

end C01OkComposite
