/-
  C02 (RGB family) — each directly implemented conversion of the RGB family equals the published definition, at ℝ, on its
  nominal domain; the hard-coded tables agree with what the published primaries and white points give (decided on `Gen`).
-/
import PaletteProofs.Real
import PaletteProofs.Lemmas.RgbTables
import PaletteProofs.Lemmas.Hexcone
import PaletteProofs.Lemmas.HslGuard
import PaletteModel.Color.RgbFamily
import PaletteSpec.Rgb
import Mathlib.Tactic.FieldSimp
import Mathlib.Tactic.Linarith

namespace C02Rgb
open RgbFam RgbTables

/-! ### constants, decided over `Rat` on the generated tables (re-checked whenever `Gen/Matrices.lean` changes) -/

/-- the generated primaries (chromaticities) and white points are the published digits, for every RGB space -/
theorem gen_primaries_published : Gen.Mat.rgbSpaces.all primariesPublished = true := by decide +kernel

/-- `matrix::rgb_to_xyz_matrix`, evaluated exactly on the generated data, **is** Lindbloom's matrix of the published
    primaries and white point (equality of rational matrices), for every RGB space -/
theorem derived_matrix_eq_lindbloom : Gen.Mat.rgbSpaces.all derivedIsLindbloom = true := by decide +kernel

/-- the derivation is regular: every primary has `y ≠ 0` and the primaries matrix is invertible (no `matrix_inverse` panic) -/
theorem derivation_regular : Gen.Mat.rgbSpaces.all derivationRegular = true := by decide +kernel

/-- **every hard-coded `rgb_to_xyz_matrix` / `xyz_to_rgb_matrix` is within 5e-7 (entrywise) of the matrix the crate derives
    from the primaries and white point / of its inverse** -/
theorem hard_matrices_near_derived : Gen.Mat.rgbSpaces.all (hardNearDerived 5e-7) = true := by decide +kernel

/-- the same against Lindbloom's matrix of the published data, with the sharper constant the 7-digit rounding gives -/
theorem hard_matrices_near_published : Gen.Mat.rgbSpaces.all (hardNearPublished 5e-8) = true := by decide +kernel

/-- **`M·(1,1,1)` is within 1e-6 of the white point** for every hard-coded matrix (C14) … -/
theorem hard_white_near : Gen.Mat.rgbSpaces.all (whiteNear 1e-6) = true := by decide +kernel

/-- … and exactly the white point for the derived matrix -/
theorem derived_white_exact : Gen.Mat.rgbSpaces.all derivedWhiteExact = true := by decide +kernel

/-- the tables are not *exactly* what is derived (they are 7-digit roundings): the bound above cannot be replaced by 0 -/
theorem hard_matrices_not_exact : Gen.Mat.rgbSpaces.all (hardNearDerived 1e-9) = false := by decide +kernel

/-! the real reading of a table entry is the cast of its rational reading, so the decided bounds are bounds on the entries
    of the `M3 ℝ` the model multiplies with -/
theorem entry_real_near (k : K) (q eps : Rat) (h : absQ (K.eval k - q) ≤ eps) : |(Scalar.const k : ℝ) - (q : ℝ)| ≤ (eps : ℝ) := by
  have := absQ_le_cast h
  rw [RealScalar.const_eq, K.eval_cast]; push_cast at this; exact this

example : absQ ((K.eval (0.4124564 : K) : Rat) - 0.41245643908969) ≤ 5e-8 := by decide +kernel

/-! ### transfer curves: model = published curve (all of ℝ) -/

macro "curve_eq" : tactic =>
  `(tactic| (norm_num; split_ifs <;> first | rfl | ring1 | (congr 1; ring1) | (congr 1; norm_num; done) | (congr 1; norm_num; ring1)))

open Transfer in
theorem srgbIntoLinear_eq_spec (x : ℝ) : srgbIntoLinear x = Spec.Rgb.srgbDecode x := by
  unfold srgbIntoLinear Spec.Rgb.srgbDecode
  simp only [RealScalar.const_eq, RealScalar.eval_div, RealScalar.eval_ofSci, RealScalar.mulAdd_eq, RealScalar.powf_eq]
  curve_eq
open Transfer in
theorem srgbFromLinear_eq_spec (x : ℝ) : srgbFromLinear x = Spec.Rgb.srgbEncode x := by
  unfold srgbFromLinear Spec.Rgb.srgbEncode
  simp only [RealScalar.const_eq, RealScalar.eval_div, RealScalar.eval_ofSci, RealScalar.mulSub_eq, RealScalar.powf_eq]
  curve_eq
open Transfer in
theorem recFromLinear_eq_spec (x : ℝ) : recFromLinear x = Spec.Rgb.recEncode x := by
  unfold recFromLinear Spec.Rgb.recEncode Spec.Rgb.recBeta Spec.Rgb.recAlpha ALPHA BETA
  simp only [RealScalar.const_eq, RealScalar.eval_sub, RealScalar.eval_ofSci, RealScalar.mulSub_eq, RealScalar.powf_eq]
  curve_eq
open Transfer in
theorem recIntoLinear_eq_spec (x : ℝ) : recIntoLinear x = Spec.Rgb.recDecode x := by
  unfold recIntoLinear Spec.Rgb.recDecode Spec.Rgb.recBeta Spec.Rgb.recAlpha ALPHA BETA
  simp only [RealScalar.const_eq, RealScalar.eval_sub, RealScalar.eval_div, RealScalar.eval_mul, RealScalar.eval_ofSci, RealScalar.mulAdd_eq, RealScalar.powf_eq]
  curve_eq
open Transfer in
theorem adobe_eq_spec (x : ℝ) : adobeIntoLinear x = Spec.Rgb.adobeDecode x ∧ adobeFromLinear x = Spec.Rgb.adobeEncode x := by
  unfold adobeIntoLinear adobeFromLinear Spec.Rgb.adobeDecode Spec.Rgb.adobeEncode
  simp only [RealScalar.const_eq, RealScalar.eval_div, RealScalar.eval_ofSci, RealScalar.powf_eq]
  constructor <;> (congr 1; norm_num)
open Transfer in
theorem p3_eq_spec (x : ℝ) : p3IntoLinear x = Spec.Rgb.p3Decode x ∧ p3FromLinear x = Spec.Rgb.p3Encode x := by
  unfold p3IntoLinear p3FromLinear Spec.Rgb.p3Decode Spec.Rgb.p3Encode
  simp only [RealScalar.const_eq, RealScalar.eval_div, RealScalar.eval_ofSci, RealScalar.powf_eq]
  refine ⟨trivial, ?_⟩
  congr 1; norm_num
open Transfer in
theorem prophoto_eq_spec (x : ℝ) : prophotoIntoLinear x = Spec.Rgb.prophotoDecode x ∧ prophotoFromLinear x = Spec.Rgb.prophotoEncode x := by
  unfold prophotoIntoLinear prophotoFromLinear Spec.Rgb.prophotoDecode Spec.Rgb.prophotoEncode
  simp only [RealScalar.const_eq, RealScalar.eval_div, RealScalar.eval_ofSci, RealScalar.powf_eq]
  constructor
  · curve_eq
  · norm_num

/-! ### hexcone: `Hsv ← Rgb`, `Hsl ← Rgb` — scalar branch = published definition, mask-generic branch = scalar branch up to
    the unsigned normal form of the hue -/
open Hexcone Spec.Rgb

/-- **the mask-generic branch of `Hsv ← Rgb` (SIMD lanes) equals the scalar branch, with the hue in its unsigned normal
    form `[0°, 360°)`; saturation and value are identical.  Every input** (negative components are clamped by both). -/
theorem rgbToHsvMask_eq_scalar (c : V3 ℝ) :
    rgbToHsvMask c = ⟨normalizeUnsigned (rgbToHsv c).c0, (rgbToHsv c).c1, (rgbToHsv c).c2⟩ := by
  unfold rgbToHsvMask rgbToHsv
  generalize max0 c.c0 = r; generalize max0 c.c1 = g; generalize max0 c.c2 = b
  obtain ⟨hmax, hmin⟩ := smax_smin_eq r g b
  simp only [hmax, hmin, eqv_iff]
  by_cases hne : (maxMinSep r g b).max = (maxMinSep r g b).min
  · have hc : (maxMinSep r g b).max - (maxMinSep r g b).min = (0.0 : ℝ) := by norm_num; linarith
    rw [if_neg (not_not.mpr hne), if_pos hc]
    simp only [maskHue, eqv_iff, if_pos hc, normalizeUnsigned_zero]
    norm_num
  · obtain ⟨y, n, y0, y6, hs, _, hm, _, _⟩ := hue_master r g b hne
    have hc : ¬ ((maxMinSep r g b).max - (maxMinSep r g b).min = (0.0 : ℝ)) := by norm_num; intro e; apply hne; linarith
    rw [if_pos hne, if_neg hc, hm]
    simp only
    rw [hs, normalizeUnsigned_of y n y0 y6]
    congr 1; norm_num; ring

/-- **`Hsv ← Rgb` (scalar branch) is the hexcone model of Smith 1978** on colours with non-negative components:
    value = max, saturation = (max − min)/max, hue (reduced to `[0°,360°)`) = the published sextant formula -/
theorem rgbToHsv_eq_spec (r g b : ℝ) (hr : 0 ≤ r) (hg : 0 ≤ g) (hb : 0 ≤ b) :
    normalizeUnsigned (rgbToHsv ⟨r, g, b⟩).c0 = hue r g b ∧ (rgbToHsv ⟨r, g, b⟩).c1 = hsvS r g b ∧ (rgbToHsv ⟨r, g, b⟩).c2 = hsvV r g b := by
  unfold rgbToHsv
  simp only [max0_of_nonneg hr, max0_of_nonneg hg, max0_of_nonneg hb, eqv_iff]
  obtain ⟨hM, hm⟩ := cmax_cmin_eq r g b
  have hmin := min_nonneg r g b hr hg hb
  by_cases hne : (maxMinSep r g b).max = (maxMinSep r g b).min
  · rw [if_neg (not_not.mpr hne)]
    have hC : chroma r g b = 0 := by unfold chroma; rw [hM, hm]; linarith
    refine ⟨?_, ?_, ?_⟩
    · simp only [normalizeUnsigned_zero]; unfold hue; rw [if_pos hC]
    · simp only; unfold hsvS; rw [hC]; split_ifs <;> norm_num
    · simp only; unfold hsvV; exact hM.symm
  · rw [if_pos hne]
    obtain ⟨y, n, y0, y6, hs, hsp, _, _, _⟩ := hue_master r g b hne
    have hlt : (maxMinSep r g b).min < (maxMinSep r g b).max := by
      obtain ⟨b1, b2, _, _, _, _⟩ := maxMin_bounds r g b
      exact lt_of_le_of_ne (le_trans b1 b2) (fun e => hne e.symm)
    refine ⟨?_, ?_, ?_⟩
    · simp only; rw [hs, normalizeUnsigned_of y n y0 y6, hsp]
    · simp only; unfold hsvS chroma; rw [hM, hm, if_neg (by intro e; linarith)]
    · simp only; unfold hsvV; exact hM.symm

example : (0 : ℝ) ≤ 0.2 ∧ (0 : ℝ) ≤ 0.7 ∧ (0 : ℝ) ≤ 1 := by norm_num

/-- **the mask-generic branch of `Hsl ← Rgb` equals the scalar branch up to the unsigned normal form of the hue** -/
theorem rgbToHslMask_eq_scalar (c : V3 ℝ) :
    rgbToHslMask c = ⟨normalizeUnsigned (rgbToHsl c).c0, (rgbToHsl c).c1, (rgbToHsl c).c2⟩ := by
  unfold rgbToHslMask rgbToHsl
  generalize max0 c.c0 = r; generalize max0 c.c1 = g; generalize max0 c.c2 = b
  -- both branches guard the selected divisor (c404fc5); at ℝ the guarded quotient is the quotient (`d / 0 = 0`)
  simp only [RealScalar.hslSat_eq, RealScalar.hslSatMask_eq]
  obtain ⟨hmax, hmin⟩ := smax_smin_eq r g b
  simp only [hmax, hmin, eqv_iff]
  by_cases hne : (maxMinSep r g b).max = (maxMinSep r g b).min
  · have hc : (maxMinSep r g b).max - (maxMinSep r g b).min = (0.0 : ℝ) := by norm_num; linarith
    rw [if_neg (not_not.mpr hne), if_pos hne.symm]
    simp only [maskHue, eqv_iff, if_pos hc, normalizeUnsigned_zero]
    norm_num; ring
  · obtain ⟨y, n, y0, y6, hs, _, hm, _, _⟩ := hue_master r g b hne
    rw [if_pos hne, if_neg (fun e => hne e.symm), hm]
    simp only
    rw [hs, normalizeUnsigned_of y n y0 y6]
    congr 1
    · norm_num; ring
    · split_ifs <;> rfl
    · norm_num; ring

/-- **`Hsl ← Rgb` (scalar branch) is the double-hexcone model**: `L = (max + min)/2`, `S = C/(1 − |2L − 1|)`, same hue;
    on `[0,1]³` -/
theorem rgbToHsl_eq_spec (r g b : ℝ) (hr : 0 ≤ r) (hg : 0 ≤ g) (hb : 0 ≤ b) :
    normalizeUnsigned (rgbToHsl ⟨r, g, b⟩).c0 = hue r g b ∧ (rgbToHsl ⟨r, g, b⟩).c1 = hslS r g b ∧ (rgbToHsl ⟨r, g, b⟩).c2 = hslL r g b := by
  unfold rgbToHsl
  simp only [RealScalar.hslSat_eq]   -- the guard `divisor == 0` (c404fc5); dead on the gamut: `rgbToHsl_guard_dead` below
  simp only [max0_of_nonneg hr, max0_of_nonneg hg, max0_of_nonneg hb, eqv_iff]
  obtain ⟨hM, hm⟩ := cmax_cmin_eq r g b
  by_cases hne : (maxMinSep r g b).max = (maxMinSep r g b).min
  · rw [if_neg (not_not.mpr hne)]
    have hC : chroma r g b = 0 := by unfold chroma; rw [hM, hm]; linarith
    refine ⟨?_, ?_, ?_⟩
    · simp only [normalizeUnsigned_zero]; unfold hue; rw [if_pos hC]
    · simp only; unfold hslS; rw [if_pos hC]; norm_num
    · simp only; unfold hslL; rw [hM, hm]; norm_num
  · rw [if_pos hne]
    obtain ⟨y, n, y0, y6, hs, hsp, _, _, _⟩ := hue_master r g b hne
    refine ⟨?_, ?_, ?_⟩
    · simp only; rw [hs, normalizeUnsigned_of y n y0 y6, hsp]
    · simp only; unfold hslS hslL chroma; rw [hM, hm]
      have hC : ¬ ((maxMinSep r g b).max - (maxMinSep r g b).min = 0) := by intro e; apply hne; linarith
      have e : 2 * (((maxMinSep r g b).max + (maxMinSep r g b).min) / 2) - 1 = (maxMinSep r g b).max + (maxMinSep r g b).min - 1 := by ring
      rw [if_neg hC, e]
      by_cases hsum : (1.0 : ℝ) < (maxMinSep r g b).max + (maxMinSep r g b).min
      · rw [if_pos hsum]
        have : 1 < (maxMinSep r g b).max + (maxMinSep r g b).min := by norm_num at hsum; exact hsum
        rw [abs_of_nonneg (by linarith)]; congr 1; norm_num; ring
      · rw [if_neg hsum]
        have : (maxMinSep r g b).max + (maxMinSep r g b).min ≤ 1 := by norm_num at hsum; exact hsum
        rw [abs_of_nonpos (by linarith)]; congr 1; ring
    · simp only; unfold hslL; rw [hM, hm]; norm_num

/-- **the guard added by palette c404fc5 is dead on the gamut.**  `Rgb → Hsl` returns saturation 0 when the divisor it selected,
    `if max + min > 1 { (1 − max) + (1 − min) } else { max + min }`, is exactly 0 (out-of-gamut `max = 1 + δ`, `min = 1 − δ`:
    finding `hsl-white-inf-C07`).  On the unit cube with `max ≠ min` that divisor -- as the code associates it -- is strictly
    positive, so the guard never fires there and the saturation is the published quotient (`rgbToHsl_eq_spec`): the repair cannot
    change the value of any in-gamut colour.  (`1 − max ≥ 0`, `1 − min > 0`, `max + min > 0` hold for floats as well: differences of
    distinct floats and sums of a non-negative and a positive float are never 0.) -/
theorem rgbToHsl_guard_dead (r g b : ℝ) (hr : 0 ≤ r) (hg : 0 ≤ g) (hb : 0 ≤ b) (hr1 : r ≤ 1) (hg1 : g ≤ 1) (hb1 : b ≤ 1)
    (hne : (maxMinSep r g b).max ≠ (maxMinSep r g b).min) :
    0 < (if 1.0 < (maxMinSep r g b).max + (maxMinSep r g b).min
          then (1.0 - (maxMinSep r g b).max) + (1.0 - (maxMinSep r g b).min)
          else (maxMinSep r g b).max + (maxMinSep r g b).min) ∧
    (rgbToHsl ⟨r, g, b⟩).c1 = ((maxMinSep r g b).max - (maxMinSep r g b).min) /
        (if 1.0 < (maxMinSep r g b).max + (maxMinSep r g b).min
          then (1.0 - (maxMinSep r g b).max) + (1.0 - (maxMinSep r g b).min)
          else (maxMinSep r g b).max + (maxMinSep r g b).min) := by
  obtain ⟨b1, b2, b3, b4, b5, b6⟩ := maxMin_bounds r g b
  have hmin := min_nonneg r g b hr hg hb
  have hM1 : (maxMinSep r g b).max ≤ 1 := by
    rcases cases_order r g b with ⟨_, _, _, hp⟩ | ⟨_, _, _, hp⟩ | ⟨_, _, hp⟩ | ⟨_, _, hp⟩ | ⟨_, _, _, hp⟩ | ⟨_, _, _, hp⟩ <;>
      rw [hp] <;> simp only <;> assumption
  have hlt : (maxMinSep r g b).min < (maxMinSep r g b).max := lt_of_le_of_ne (le_trans b1 b2) (Ne.symm hne)
  have hpos : 0 < (if 1.0 < (maxMinSep r g b).max + (maxMinSep r g b).min
          then (1.0 - (maxMinSep r g b).max) + (1.0 - (maxMinSep r g b).min)
          else (maxMinSep r g b).max + (maxMinSep r g b).min) := by
    split_ifs
    · have h1 : (0 : ℝ) ≤ 1.0 - (maxMinSep r g b).max := by norm_num; exact hM1
      have h2 : (0 : ℝ) < 1.0 - (maxMinSep r g b).min := by norm_num; linarith
      exact add_pos_of_nonneg_of_pos h1 h2
    · linarith
  refine ⟨hpos, ?_⟩
  unfold rgbToHsl
  simp only [max0_of_nonneg hr, max0_of_nonneg hg, max0_of_nonneg hb, eqv_iff]
  rw [if_pos hne]; simp only
  -- the guard's condition is false: this is the `else` arm of `if divisor == 0`
  rw [if_neg (by have e0 : (0.0 : ℝ) = 0 := by norm_num
                 rw [e0]; exact hpos.ne')]

/-- non-vacuity: orange `(1, 0.5, 0)`: `max = 1 ≠ 0 = min` -/
example : (0 : ℝ) ≤ 1 ∧ (0 : ℝ) ≤ 0.5 ∧ (0 : ℝ) ≤ 0 ∧ (1 : ℝ) ≤ 1 ∧ (0.5 : ℝ) ≤ 1 ∧ (0 : ℝ) ≤ 1 ∧
    (maxMinSep (1 : ℝ) 0.5 0).max ≠ (maxMinSep (1 : ℝ) 0.5 0).min := by
  obtain ⟨b1, b2, b3, b4, b5, b6⟩ := maxMin_bounds (1 : ℝ) 0.5 0
  refine ⟨by norm_num, by norm_num, by norm_num, by norm_num, by norm_num, by norm_num, ?_⟩
  intro e; rw [e] at b2; linarith

/-- the same for the mask-generic branch (`red.max(green).max(blue)`, `red.min(green).min(blue)`): on the unit cube with
    `min ≠ max` the divisor it selects is strictly positive, so `min.eq(&max) | divisor.eq(&T::zero())` is `min.eq(&max)` there -/
theorem rgbToHslMask_guard_dead (r g b : ℝ) (hr : 0 ≤ r) (hg : 0 ≤ g) (hb : 0 ≤ b) (hr1 : r ≤ 1) (hg1 : g ≤ 1) (hb1 : b ≤ 1)
    (hne : Scalar.min (Scalar.min r g) b ≠ Scalar.max (Scalar.max r g) b) :
    0 < (if 1.0 < Scalar.max (Scalar.max r g) b + Scalar.min (Scalar.min r g) b
          then (1.0 - Scalar.max (Scalar.max r g) b) + (1.0 - Scalar.min (Scalar.min r g) b)
          else Scalar.max (Scalar.max r g) b + Scalar.min (Scalar.min r g) b) := by
  obtain ⟨hmax, hmin⟩ := smax_smin_eq r g b
  rw [hmax, hmin] at hne ⊢
  exact (rgbToHsl_guard_dead r g b hr hg hb hr1 hg1 hb1 (Ne.symm hne)).1

/-! ### `Rgb ← Hsv`: the chroma/zone form of the code = Smith's sextant form `(i, f, p, q, t)`, every hue, saturation, value -/

theorem spec_sextant (hue : ℝ) (k : ℕ) (f : ℝ) (n : ℤ) (hk : k ≤ 5) (h0 : 0 ≤ f) (h1 : f < 1)
    (hh : hue = 60 * ((k : ℝ) + f) + 360 * (n : ℝ)) : fmod (hue / 60) 6 = (k : ℝ) + f ∧ ⌊fmod (hue / 60) 6⌋ = (k : ℤ) := by
  have hk' : (k : ℝ) ≤ 5 := by exact_mod_cast hk
  have hk0 : (0 : ℝ) ≤ (k : ℝ) := Nat.cast_nonneg k
  have e : fmod (hue / 60) 6 = (k : ℝ) + f := by
    unfold fmod
    have : ⌊hue / 60 / 6⌋ = n := by rw [Int.floor_eq_iff, hh]; constructor <;> linarith
    rw [this, hh]; ring
  refine ⟨e, ?_⟩
  rw [e, Int.floor_eq_iff]; push_cast; constructor <;> linarith

theorem hsvToRgb_eq_spec (hue s v : ℝ) :
    hsvToRgb ⟨hue, s, v⟩ = ⟨(Spec.Rgb.hsvToRgb hue s v).1, (Spec.Rgb.hsvToRgb hue s v).2.1, (Spec.Rgb.hsvToRgb hue s v).2.2⟩ := by
  obtain ⟨k, f, n, hk, h0, h1, hh⟩ := hue_decomp hue
  have hu : hsvToRgb ⟨hue, s, v⟩ = zones (normalizeUnsigned hue / 60.0) (v * s) (hexX (normalizeUnsigned hue / 60.0) (v * s)) (v - v * s) := rfl
  rw [hu, zones_of_hue hue k f n hk h0 h1 hh]
  obtain ⟨e1, e2⟩ := spec_sextant hue k f n hk h0 h1 hh
  rw [e1] at e2
  unfold Spec.Rgb.hsvToRgb
  simp only [e1, e2]
  have e3 : (k : ℝ) + f - (((k : ℕ) : ℤ) : ℝ) = f := by push_cast; ring
  rw [e3]
  interval_cases k <;> norm_num [sectorTriple] <;> ring_nf <;> trivial

/-! ### Hsv ↔ Hwb (Smith & Lyons 1996) and Hsl ↔ Hsv -/

theorem hsvToHwb_eq_spec (h s v : ℝ) : hsvToHwb ⟨h, s, v⟩ = ⟨h, (hwbOfHsv s v).1, (hwbOfHsv s v).2⟩ := by
  unfold hsvToHwb hwbOfHsv; simp only; congr 1 <;> norm_num

theorem hwbToHsv_eq_spec (h w b : ℝ) (hb : b ≠ 1) : hwbToHsv ⟨h, w, b⟩ = ⟨h, (hsvOfHwb w b).1, (hsvOfHwb w b).2⟩ := by
  unfold hwbToHsv hsvOfHwb; simp only [RealScalar.valid_eq, decide_eq_true_eq]
  rw [if_pos (by norm_num; intro e; apply hb; linarith)]
  congr 1 <;> norm_num
/-- the guarded branch: `b = 1` (black) gives saturation 0 without dividing -/
theorem hwbToHsv_black (h w : ℝ) : hwbToHsv ⟨h, w, 1⟩ = ⟨h, 0.0, 1.0 - 1⟩ := by
  unfold hwbToHsv; norm_num
example : (0.25 : ℝ) ≠ 1 := by norm_num

theorem hslToHsv_eq_spec (h s l : ℝ) (hv : l + s * min l (1 - l) ≠ 0) :
    hslToHsv ⟨h, s, l⟩ = ⟨h, (hsvOfHsl s l).1, (hsvOfHsl s l).2⟩ := by
  have hmin : (if l < 0.5 then l else 1.0 - l) = min l (1 - l) := by
    split_ifs with hc
    · rw [min_eq_left]; norm_num at hc; linarith
    · rw [min_eq_right]; norm_num; norm_num at hc; linarith
  unfold hslToHsv hsvOfHsl; simp only [RealScalar.valid_eq, decide_eq_true_eq, hmin]
  have hv' : l + min l (1 - l) * s ≠ 0 := by rw [mul_comm]; exact hv
  rw [if_pos hv']
  congr 1
  · norm_num; field_simp; ring
  · ring
example : (0.5 : ℝ) + 1 * min 0.5 (1 - 0.5) ≠ 0 := by norm_num

theorem hsvToHsl_eq_spec (h s v : ℝ) (hv : v ≠ 0) (hx0 : (2 - s) * v ≠ 0) (hx2 : (2 - s) * v ≠ 2) :
    hsvToHsl ⟨h, s, v⟩ = ⟨h, (hslOfHsv s v).1, (hslOfHsv s v).2⟩ := by
  unfold hsvToHsl hslOfHsv; simp only [RealScalar.valid_eq, decide_eq_true_eq]
  rw [if_neg (not_not.mpr hv)]
  have e2 : (2.0 - s) * v = (2 - s) * v := by norm_num
  rw [e2]
  by_cases hx : (2 - s) * v < 1.0
  · rw [if_pos hx, if_pos hx0]
    have hx' : (2 - s) * v < 1 := by norm_num at hx; exact hx
    have hm : min (v * (1 - s / 2)) (1 - v * (1 - s / 2)) = v * (1 - s / 2) := by rw [min_eq_left]; nlinarith
    rw [hm]
    have hne : v * (1 - s / 2) ≠ 0 := by intro e; apply hx0; linarith
    congr 1
    · field_simp; ring
    · norm_num; ring
  · rw [if_neg hx, if_pos (by norm_num; intro e; apply hx2; linarith)]
    have hx' : 1 ≤ (2 - s) * v := by norm_num at hx; exact hx
    have hm : min (v * (1 - s / 2)) (1 - v * (1 - s / 2)) = 1 - v * (1 - s / 2) := by rw [min_eq_right]; nlinarith
    rw [hm]
    have hne : 1 - v * (1 - s / 2) ≠ 0 := by intro e; apply hx2; linarith
    have hne2 : (2 : ℝ) - (2 - s) * v ≠ 0 := by intro e; apply hx2; linarith
    congr 1
    · norm_num; field_simp; ring
    · norm_num; ring
example : (1 : ℝ) ≠ 0 ∧ ((2 : ℝ) - 0.5) * 1 ≠ 0 ∧ ((2 : ℝ) - 0.5) * 1 ≠ 2 := by norm_num

/-! ### `Rgb ← Hsl` = Smith's `Rgb ← Hsv` after the published `Hsv ← Hsl` (the double hexcone is the hexcone re-parametrised) -/

theorem hslToRgb_eq_via_hsv (hue s l : ℝ) (hv : l + (if l < 0.5 then l else 1.0 - l) * s ≠ 0) :
    hslToRgb ⟨hue, s, l⟩ = hsvToRgb (hslToHsv ⟨hue, s, l⟩) := by
  have hsv : hslToHsv ⟨hue, s, l⟩ = ⟨hue, (if l < 0.5 then l else 1.0 - l) * s * 2.0 / (l + (if l < 0.5 then l else 1.0 - l) * s),
      l + (if l < 0.5 then l else 1.0 - l) * s⟩ := by
    unfold hslToHsv; simp only [RealScalar.valid_eq, decide_eq_true_eq]; rw [if_pos hv]
  rw [hsv]
  have h1 : hslToRgb ⟨hue, s, l⟩ = zones (normalizeUnsigned hue / 60.0) ((1.0 - Scalar.abs (l * 2.0 - 1.0)) * s)
      (hexX (normalizeUnsigned hue / 60.0) ((1.0 - Scalar.abs (l * 2.0 - 1.0)) * s)) (l - (1.0 - Scalar.abs (l * 2.0 - 1.0)) * s * 0.5) := rfl
  have h2 : ∀ s' v' : ℝ, hsvToRgb ⟨hue, s', v'⟩ = zones (normalizeUnsigned hue / 60.0) (v' * s')
      (hexX (normalizeUnsigned hue / 60.0) (v' * s')) (v' - v' * s') := fun _ _ => rfl
  rw [h1, h2, RealScalar.abs_eq]
  have hA : (1.0 : ℝ) - |l * 2.0 - 1.0| = 2 * (if l < 0.5 then l else 1.0 - l) := by
    split_ifs with hc
    · have : l * 2.0 - 1.0 ≤ 0 := by norm_num at hc ⊢; linarith
      rw [abs_of_nonpos this]; norm_num; ring
    · have : 0 ≤ l * 2.0 - 1.0 := by norm_num at hc ⊢; linarith
      rw [abs_of_nonneg this]; norm_num; ring
  rw [hA]
  generalize (if l < 0.5 then l else 1.0 - l) = sel at hv ⊢
  have ec : (l + sel * s) * (sel * s * 2.0 / (l + sel * s)) = 2 * sel * s := by field_simp; norm_num
  have em : l + sel * s - 2 * sel * s = l - 2 * sel * s * 0.5 := by norm_num; ring
  rw [ec, em]

/-- hence `Rgb ← Hsl` is Smith's sextant form on the published `(S_v, V)` of `(S_l, L)` -/
theorem hslToRgb_eq_spec (hue s l : ℝ) (hv : l + s * min l (1 - l) ≠ 0) :
    hslToRgb ⟨hue, s, l⟩ = ⟨(Spec.Rgb.hsvToRgb hue (hsvOfHsl s l).1 (hsvOfHsl s l).2).1, (Spec.Rgb.hsvToRgb hue (hsvOfHsl s l).1 (hsvOfHsl s l).2).2.1,
      (Spec.Rgb.hsvToRgb hue (hsvOfHsl s l).1 (hsvOfHsl s l).2).2.2⟩ := by
  have hmin : (if l < 0.5 then l else 1.0 - l) = min l (1 - l) := by
    split_ifs with hc
    · rw [min_eq_left]; norm_num at hc; linarith
    · rw [min_eq_right]; norm_num; norm_num at hc; linarith
  rw [hslToRgb_eq_via_hsv hue s l (by rw [hmin, mul_comm]; exact hv), hslToHsv_eq_spec hue s l hv, hsvToRgb_eq_spec]

example : (0.5 : ℝ) + 1 * min 0.5 (1 - 0.5) ≠ 0 := by norm_num

end C02Rgb
