/-
  C15 — HWB after `clamp`: over-specified colours (`whiteness + blackness > 1`) and out-of-range components.

  `C15.hwb_in_gamut` (C15_Gamut.lean) covers `w, b ≥ 0`, `w + b ≤ 1`.  `Hwb` / `Okhwb` allow any pair to be *written*; the
  documented normalisation is `Clamp::clamp` (`impl_clamp_hwb!`, model `Clamp.hwbClamp`, tied to the macro text by
  `Tie.tie_clampHwb` / `tie_clampOkhwb`): negative components are raised to 0, and when the sum then exceeds 1 both are divided by the
  sum.  Here, at ℝ, on the functions the driver executes:

  * `hwb_clamped_in_gamut` — for **every** real `w`, `b` (no hypothesis) and every hue the clamped colour converts into `[0,1]³`;
  * `hwbClamp_overspecified` — for `w, b ≥ 0`, `w + b > 1` the clamp is exactly `(w / (w + b), b / (w + b))` (ratio kept, sum 1);
  * `hwb_overspecified_gray` — … and the colour is the gray of value `w / (w + b)`, whatever the hue;
  * `okhwb_clamped_bounds` — the same normalisation lands in the domain on which `Okhsv ← Okhwb` keeps `s, v ∈ [0,1]`
    (`C15.okhwbToOkhsv_bounds`; the converse `Okhwb ← Okhsv` is `C15.okhsvToOkhwb_bounds`, both already in C15_Gamut.lean).
-/
import PaletteProofs.C15_Gamut
import PaletteProofs.C03_Clamp
import PaletteProofs.C14_Gray
import PaletteProofs.C02_Rgb

namespace C15
open RgbFam

/-- the clamped pair satisfies the hypotheses of `hwb_in_gamut`, for every input -/
theorem hwbClamp_bounds (w b : ℝ) :
    0 ≤ (Clamp.hwbClamp (0:ℝ) 1 w b).1 ∧ 0 ≤ (Clamp.hwbClamp (0:ℝ) 1 w b).2 ∧
    (Clamp.hwbClamp (0:ℝ) 1 w b).1 + (Clamp.hwbClamp (0:ℝ) 1 w b).2 ≤ 1 := by
  have h := C03.hwb_clamp_within (F := ℝ) w b
  rw [C03.hwbWithin_iff] at h
  exact ⟨h.2.2.1, h.1, h.2.2.2.2⟩

/-- **every HWB colour, clamped, is in gamut** — any real whiteness / blackness (negative, above 1, sum above 1), every hue -/
theorem hwb_clamped_in_gamut (hue w b : ℝ) :
    let wb := Clamp.hwbClamp (0:ℝ) 1 w b
    let rgb := hsvToRgb (hwbToHsv ⟨hue, wb.1, wb.2⟩)
    0 ≤ rgb.c0 ∧ rgb.c0 ≤ 1 ∧ 0 ≤ rgb.c1 ∧ rgb.c1 ≤ 1 ∧ 0 ≤ rgb.c2 ∧ rgb.c2 ≤ 1 := by
  obtain ⟨h1, h2, h3⟩ := hwbClamp_bounds w b
  exact hwb_in_gamut hue _ _ h1 h2 h3

/-- **the documented normalisation**: non-negative components whose sum exceeds 1 are divided by the sum -/
theorem hwbClamp_overspecified (w b : ℝ) (hw : 0 ≤ w) (hb : 0 ≤ b) (h : 1 < w + b) :
    Clamp.hwbClamp (0:ℝ) 1 w b = (w / (w + b), b / (w + b)) := by
  have ew : Clamp.clampMinV w (0:ℝ) = w := by unfold Clamp.clampMinV; rw [if_neg (not_lt.mpr hw)]
  have eb : Clamp.clampMinV b (0:ℝ) = b := by unfold Clamp.clampMinV; rw [if_neg (not_lt.mpr hb)]
  have hs : (1:ℝ) < b + w := by linarith
  have hpos : (0:ℝ) < b + w := by linarith
  rw [C03.hwbClamp_eq, ew, eb, C03.hwbCore_hi w b hs]
  have e : b / (b + w) = 1 - w / (b + w) := by field_simp; ring
  have : Clamp.clampMaxV (b / (b + w)) (1 - w / (b + w)) = b / (b + w) := by
    unfold Clamp.clampMaxV; rw [if_neg (by rw [e]; exact lt_irrefl _)]
  rw [this, add_comm b w]
example : (0:ℝ) ≤ 0.9 ∧ (0:ℝ) ≤ 0.6 ∧ (1:ℝ) < 0.9 + 0.6 := by norm_num

/-- **an over-specified HWB colour is, after `clamp`, the gray `w / (w + b)`** at every hue (black when `w = 0`) -/
theorem hwb_overspecified_gray (hue w b : ℝ) (hw : 0 ≤ w) (hb : 0 ≤ b) (h : 1 < w + b) :
    let wb := Clamp.hwbClamp (0:ℝ) 1 w b
    hsvToRgb (hwbToHsv ⟨hue, wb.1, wb.2⟩) = ⟨w / (w + b), w / (w + b), w / (w + b)⟩ := by
  intro wb
  have hwb : wb = (w / (w + b), b / (w + b)) := hwbClamp_overspecified w b hw hb h
  have hpos : (0:ℝ) < w + b := by linarith
  have hv : 1 - b / (w + b) = w / (w + b) := by field_simp; ring
  rw [hwb]
  show hsvToRgb (hwbToHsv ⟨hue, w / (w + b), b / (w + b)⟩) = _
  by_cases hb1 : b / (w + b) = 1
  · -- `w = 0`: value 0, the guarded division gives saturation 0
    have hw0 : w / (w + b) = 0 := by rw [← hv, hb1]; ring
    rw [hb1, hw0, C02Rgb.hwbToHsv_black]
    have : ((1.0 : ℝ) - 1) = 0 := by norm_num
    rw [this]
    have z : (0.0 : ℝ) = 0 := by norm_num
    rw [z]
    exact C14Gray.hsvToRgb_neutral hue 0
  · rw [C01Rgb.hwbToHsv_of_ne hue _ _ hb1]
    have o : (1.0 : ℝ) = 1 := by norm_num
    rw [o, hv]
    have hne : w / (w + b) ≠ 0 := by
      intro h0; apply hb1; rw [← sub_eq_zero]; have := hv; linarith
    have : (1:ℝ) - w / (w + b) / (w / (w + b)) = 0 := by rw [div_self hne]; ring
    rw [this]
    exact C14Gray.hsvToRgb_neutral hue _
example : (0:ℝ) ≤ 0.9 ∧ (0:ℝ) ≤ 0.6 ∧ (1:ℝ) < 0.9 + 0.6 := by norm_num   -- Hwb(h, 0.9, 0.6) ↦ gray 0.6

/-- **Okhwb**: the same `clamp` (`impl_clamp_hwb!` at `Okhwb`) lands where `Okhsv ← Okhwb` keeps `s, v ∈ [0,1]`, for every input -/
theorem okhwb_clamped_bounds (h w b : ℝ) :
    let wb := Clamp.hwbClamp (0:ℝ) 1 w b
    0 ≤ (Ok.okhwbToOkhsv ⟨h, wb.1, wb.2⟩).c1 ∧ (Ok.okhwbToOkhsv ⟨h, wb.1, wb.2⟩).c1 ≤ 1 ∧
    0 ≤ (Ok.okhwbToOkhsv ⟨h, wb.1, wb.2⟩).c2 ∧ (Ok.okhwbToOkhsv ⟨h, wb.1, wb.2⟩).c2 ≤ 1 := by
  obtain ⟨h1, h2, h3⟩ := hwbClamp_bounds w b
  exact okhwbToOkhsv_bounds h _ _ h1 h2 h3

end C15
