/-
  C08 — `Equations` (`blend/equations.rs`) against the OpenGL blend equation written independently in
  `PaletteSpec/BlendEquations.lean`: every `Equation` (Add, Subtract, ReverseSubtract, Min, Max) with every `Parameter`
  (Zero, One, Source/DestinationColor, Source/DestinationAlpha and their complements) computes the formula it names
  (`equations_eq_gl`, all reals, any number of components), and the presets — `Equations::from_parameters`,
  `Equations::from_equations`, the documented example `from_parameters(SourceAlpha, OneMinusSourceAlpha)` — against `Compose` /
  `Blend`.  Range statements: `C08_EquationsRange.lean`.
-/
import PaletteProofs.C08_Equations
import PaletteSpec.BlendEquations

namespace C08
open Blend BlendReal

def glFactor : Parameter → GL.Factor
  | .one => .ONE | .zero => .ZERO | .sourceColor => .SRC_COLOR | .oneMinusSourceColor => .ONE_MINUS_SRC_COLOR
  | .destinationColor => .DST_COLOR | .oneMinusDestinationColor => .ONE_MINUS_DST_COLOR
  | .sourceAlpha => .SRC_ALPHA | .oneMinusSourceAlpha => .ONE_MINUS_SRC_ALPHA
  | .destinationAlpha => .DST_ALPHA | .oneMinusDestinationAlpha => .ONE_MINUS_DST_ALPHA

def glFunc : Equation → GL.Func
  | .add => .FUNC_ADD | .subtract => .FUNC_SUBTRACT | .reverseSubtract => .FUNC_REVERSE_SUBTRACT | .min => .MIN | .max => .MAX

theorem mulLists_eq_zipWith : ∀ a b : List ℝ, mulLists a b = List.zipWith (· * ·) a b
  | [], _ => by simp [mulLists]
  | _ :: _, [] => by simp [mulLists]
  | x :: a, y :: b => by simp only [mulLists, List.zipWith_cons_cons, mulLists_eq_zipWith a b]

theorem zipOp_eq_zipWith (f : ℝ → ℝ → ℝ) : ∀ a b : List ℝ, zipOp f a b = List.zipWith f a b
  | [], _ => by simp [zipOp]
  | _ :: _, [] => by simp [zipOp]
  | x :: a, y :: b => by simp only [zipOp, List.zipWith_cons_cons, zipOp_eq_zipWith f a b]

/-- the `i`-th component of `param.apply_to(source, destination).mul_color(o)` -/
theorem mulColor_getElem? (p : Parameter) (s d o : List ℝ) (αs αb : ℝ) (i : Nat) :
    ((p.applyTo (s, αs) (d, αb)).mulColor o)[i]? =
      match o[i]?, s[i]?, d[i]? with
      | some x, some sj, some dj => some (x * (glFactor p).rgb sj αs dj αb)
      | some x, some sj, none => (match p with
          | .destinationColor | .oneMinusDestinationColor => none | _ => some (x * (glFactor p).rgb sj αs 0 αb))
      | some x, none, some dj => (match p with
          | .sourceColor | .oneMinusSourceColor => none | _ => some (x * (glFactor p).rgb 0 αs dj αb))
      | some x, none, none => (match p with
          | .sourceColor | .oneMinusSourceColor | .destinationColor | .oneMinusDestinationColor => none
          | _ => some (x * (glFactor p).rgb 0 αs 0 αb))
      | none, _, _ => none := by
  cases p <;>
    simp only [Parameter.applyTo, ParamOut.mulColor, mulLists_eq_zipWith, List.getElem?_zipWith, List.getElem?_map,
      glFactor, GL.Factor.rgb, lit1, lit0] <;>
    cases o[i]? <;> cases s[i]? <;> cases d[i]? <;> simp

theorem mulConstant_eq (p : Parameter) (s d : List ℝ) (αs αb o : ℝ) :
    (p.applyTo (s, αs) (d, αb)).mulConstant o = o * (glFactor p).alpha αs αb := by
  cases p <;> simp only [Parameter.applyTo, ParamOut.mulConstant, glFactor, GL.Factor.alpha, lit1, lit0] <;> ring

theorem op_eq_gl (q : Equation) (hq : q.isMinMax = false) (x sf y df : ℝ) :
    q.op (x * sf) (y * df) = (glFunc q).eval x sf y df := by
  cases q <;> simp only [Equation.isMinMax, Bool.true_eq_false] at hq <;> rfl

theorem op_eq_gl_minmax (q : Equation) (hq : q.isMinMax = true) (x sf y df : ℝ) :
    q.op x y = (glFunc q).eval x sf y df := by
  cases q <;> simp only [Equation.isMinMax, Bool.false_eq_true] at hq <;> rfl

/-- **`Equations::apply_to` is the OpenGL blend equation**, component by component and for the alpha: every one of the
    5 × 10 × 10 colour settings and 5 × 10 × 10 alpha settings (all reals, any number of components) -/
theorem equations_eq_gl (e : Equations) (s d : List ℝ) (αs αb : ℝ) :
    e.applyTo (s, αs) (d, αb) =
      (List.zipWith (fun cs cd => GL.blendRGB (glFunc e.colorEquation) (glFactor e.colorSource) (glFactor e.colorDestination) cs αs cd αb) s d,
       GL.blendA (glFunc e.alphaEquation) (glFactor e.alphaSource) (glFactor e.alphaDestination) αs αb) := by
  unfold Equations.applyTo
  refine Prod.ext ?_ ?_
  · simp only []
    apply List.ext_getElem?
    intro i
    rw [zipOp_eq_zipWith]
    cases hq : e.colorEquation.isMinMax
    · simp only [Bool.false_eq_true, if_false, List.getElem?_zipWith, mulColor_getElem?, GL.blendRGB]
      cases s[i]? <;> cases d[i]? <;> simp [op_eq_gl _ hq]
    · simp only [if_true, List.getElem?_zipWith, GL.blendRGB]
      cases s[i]? <;> cases d[i]? <;> simp
      exact op_eq_gl_minmax _ hq _ _ _ _
  · simp only []
    cases hq : e.alphaEquation.isMinMax
    · simp only [Bool.false_eq_true, if_false, mulConstant_eq, GL.blendA, op_eq_gl _ hq]
    · simp only [if_true, GL.blendA]
      exact op_eq_gl_minmax _ hq _ _ _ _

/-- one-component colours (`Luma`): the statement without lists -/
theorem equations_component_eq_gl (e : Equations) (S αs D αb : ℝ) :
    e.applyTo ([S], αs) ([D], αb) =
      ([GL.blendRGB (glFunc e.colorEquation) (glFactor e.colorSource) (glFactor e.colorDestination) S αs D αb],
       GL.blendA (glFunc e.alphaEquation) (glFactor e.alphaSource) (glFactor e.alphaDestination) αs αb) := by
  rw [equations_eq_gl]; rfl

/-- the documented formulas, spelled out: `Add` is `sp·S + dp·D`, `Subtract` is `sp·S − dp·D`, `ReverseSubtract` is
    `dp·D − sp·S`, `Min`/`Max` ignore the parameters — e.g. with `SourceAlpha` / `OneMinusDestinationColor` -/
example (S αs D αb : ℝ) : (Equations.mk .subtract .reverseSubtract .sourceAlpha .oneMinusDestinationColor .destinationColor .one).applyTo
    ([S], αs) ([D], αb) = ([S * αs - D * (1 - D)], αb * 1 - αs * αb) := by
  rw [equations_component_eq_gl]; rfl
example (S αs D αb : ℝ) : (Equations.mk .min .max .sourceAlpha .zero .zero .one).applyTo ([S], αs) ([D], αb) = ([min S D], max αs αb) := by
  rw [equations_component_eq_gl]; rfl

/-! ## the presets -/

/-- `Equations::from_parameters(source, destination)`: additive, the same parameters for colour and alpha -/
def fromParameters (src dst : Parameter) : Equations := ⟨.add, .add, src, dst, src, dst⟩
/-- `Equations::from_equations(color, alpha)`: all four parameters `One` -/
def fromEquations (c a : Equation) : Equations := ⟨c, a, .one, .one, .one, .one⟩

/-- the Porter-Duff fractions as parameters -/
def FaParam : Op → Parameter
  | .over => .one | .inside => .destinationAlpha | .outside => .oneMinusDestinationAlpha
  | .atop => .destinationAlpha | .xor => .oneMinusDestinationAlpha | .plus => .one
def FbParam : Op → Parameter
  | .over => .oneMinusSourceAlpha | .inside => .zero | .outside => .zero
  | .atop => .oneMinusSourceAlpha | .xor => .oneMinusSourceAlpha | .plus => .one

theorem eqOf_eq_fromParameters (op : Op) : eqOf op = fromParameters (FaParam op) (FbParam op) := by cases op <;> rfl

/-- **`Equations::from_parameters(Fa, Fb)` is the `Compose` operator on premultiplied colours** — colour exactly, alpha before the
    final clamp (which is inactive for the five bounded operators on alphas in [0, 1], `compose_alpha_eq_porterDuff`) -/
theorem fromParameters_eq_compose (op : Op) (hop : op ≠ .plus) (s d : List ℝ) {αs αb : ℝ}
    (ha0 : 0 ≤ αs) (ha1 : αs ≤ 1) (hc0 : 0 ≤ αb) (hc1 : αb ≤ 1) :
    (fromParameters (FaParam op) (FbParam op)).applyTo (s, αs) (d, αb) = composePre op (s, αs) (d, αb) := by
  rw [← eqOf_eq_fromParameters, equations_eq_compose]
  unfold composePre
  simp only []
  rw [compose_alpha_eq_porterDuff op hop ha0 ha1 hc0 hc1]

example : (fromParameters (FaParam .atop) (FbParam .atop)).applyTo ([0.25, 0.5], (0.5 : ℝ)) ([0.75, 0.25], 0.75) =
    composePre .atop ([0.25, 0.5], 0.5) ([0.75, 0.25], 0.75) :=
  fromParameters_eq_compose .atop (by decide) _ _ (by norm_num) (by norm_num) (by norm_num) (by norm_num)

/-- `from_equations(Add, Add)` is `plus` with the alpha left unclamped -/
theorem fromEquations_add (s d : List ℝ) (αs αb : ℝ) :
    (fromEquations .add .add).applyTo (s, αs) (d, αb) = (composeList .plus αs αb s d, αs + αb) := by
  have h := equations_eq_compose .plus s d αs αb
  have e : (pdOf .plus).αo αs αb = αs + αb := by simp only [pdOf, W3C.PD.αo, W3C.PD.Fa, W3C.PD.Fb]; ring
  rw [e] at h; exact h

/-- `from_equations(Min, Min)` / `(Max, Max)` on opaque colours are the `darken` / `lighten` blend modes -/
theorem fromEquations_min_opaque (s d : List ℝ) :
    viaOpaque (fromEquations .min .min).applyTo s d = blendOpaque darkenBlend s d := by
  unfold viaOpaque newOpaque
  rw [equations_eq_gl, blendOpaque_eq]
  unfold unpremultiply
  simp only [fromEquations, glFunc, GL.blendRGB, GL.blendA, GL.Func.eval, lit1, min_self, map_unpremulC_one]
  rfl
theorem fromEquations_max_opaque (s d : List ℝ) :
    viaOpaque (fromEquations .max .max).applyTo s d = blendOpaque lightenBlend s d := by
  unfold viaOpaque newOpaque
  rw [equations_eq_gl, blendOpaque_eq]
  unfold unpremultiply
  simp only [fromEquations, glFunc, GL.blendRGB, GL.blendA, GL.Func.eval, lit1, max_self, map_unpremulC_one]
  rfl

/-! ### the documented example `Equations::from_parameters(SourceAlpha, OneMinusSourceAlpha)` (module docs of `blend.rs`)

  This is OpenGL's classic `glBlendFunc(SRC_ALPHA, ONE_MINUS_SRC_ALPHA)`: source-over for **straight** (non-premultiplied)
  colours over an opaque destination.  `blend_with` applies it to *premultiplied* colours, where source-over is
  `from_parameters(One, OneMinusSourceAlpha)` (`fromParameters_eq_compose .over`); so through `blend_with` the documented
  example weights the source colour with `αs` twice. -/

def docPreset : Equations := fromParameters .sourceAlpha .oneMinusSourceAlpha

/-- what it computes, on any `PreAlpha` pair -/
theorem docPreset_formula (s d : List ℝ) (αs αb : ℝ) :
    docPreset.applyTo (s, αs) (d, αb) = (List.zipWith (fun x y => x * αs + y * (1 - αs)) s d, αs * αs + αb * (1 - αs)) := by
  unfold docPreset fromParameters
  rw [equations_eq_gl]
  simp only [glFunc, glFactor, GL.blendRGB, GL.blendA, GL.Func.eval, GL.Factor.rgb, GL.Factor.alpha]

/-- **on straight colours over an opaque backdrop it is source-over**: the colour `Compose::over` returns for
    `Alpha(s, αs).over(Alpha(d, 1))`, for all reals; its alpha is `1 − αs·(1 − αs)`, not 1 -/
theorem docPreset_straight_over_opaque (s d : List ℝ) (αs : ℝ) :
    (docPreset.applyTo (s, αs) (d, 1)).1 = (composeStraight .over (s, αs) (d, 1)).1 ∧
    (docPreset.applyTo (s, αs) (d, 1)).2 = 1 - αs * (1 - αs) := by
  rw [docPreset_formula]
  refine ⟨?_, by ring⟩
  unfold composeStraight viaStraight composePre premultiply unpremultiply
  simp only []
  have e : Op.over.alpha αs (1 : ℝ) = 1 := by
    rw [opAlpha_unclamped]
    have : αs + 1 - αs * 1 = (1 : ℝ) := by ring
    simp only [this]; exact clamp01_id (by norm_num) (by norm_num)
  rw [e, map_unpremulC_one, composeList_eq_zipWith]
  apply List.ext_getElem?
  intro i
  simp only [List.getElem?_zipWith, List.getElem?_map]
  cases s[i]? <;> cases d[i]? <;> simp [opComp_eq]
  ring

/-- through `blend_with` on `Alpha` colours (premultiply, apply, unpremultiply): the premultiplied result is
    `cs·αs² + cb·αb·(1 − αs)` with alpha `αs² + αb·(1 − αs)` … -/
theorem docPreset_on_premultiplied (s d : List ℝ) (αs αb : ℝ) :
    docPreset.applyTo (premultiply s αs) (premultiply d αb) =
      (List.zipWith (fun cs cb => cs * αs * αs + cb * αb * (1 - αs)) s d, αs * αs + αb * (1 - αs)) := by
  unfold premultiply
  rw [docPreset_formula]
  congr 1
  apply List.ext_getElem?
  intro i
  simp only [List.getElem?_zipWith, List.getElem?_map]
  cases s[i]? <;> cases d[i]? <;> simp

/-- … which is **not** `Compose::over`: half-transparent white over nothing keeps alpha 1/2 under `over`, but gets alpha 1/4 here -/
theorem docPreset_ne_over_witness :
    docPreset.applyTo (premultiply [1] (1/2 : ℝ)) (premultiply [0] 0) = ([1/4], 1/4) ∧
    composePre .over (premultiply [1] (1/2 : ℝ)) (premultiply [0] 0) = ([1/2], 1/2) := by
  constructor
  · rw [docPreset_on_premultiplied]; norm_num
  · unfold composePre premultiply composeList composeList
    simp only [List.map_cons, List.map_nil, opComp_eq, opAlpha_unclamped]
    rw [clamp01_id (by norm_num) (by norm_num)]; norm_num

/-- it coincides with `over` exactly when the source weight is not applied twice: opaque source (`αs = 1`) … -/
theorem docPreset_eq_over_opaque_source (s d : List ℝ) {αb : ℝ} (hc0 : 0 ≤ αb) (hc1 : αb ≤ 1) :
    docPreset.applyTo (s, 1) (d, αb) = composePre .over (s, 1) (d, αb) := by
  rw [docPreset_formula]
  unfold composePre
  simp only []
  rw [composeList_eq_zipWith, compose_alpha_eq_porterDuff .over (by decide) zero_le_one le_rfl hc0 hc1]
  congr 1
  · apply List.ext_getElem?
    intro i
    simp only [List.getElem?_zipWith]
    cases s[i]? <;> cases d[i]? <;> simp [opComp_eq]

example : docPreset.applyTo ([0.25, 0.5], (1 : ℝ)) ([0.5, 0.25], 0.5) = composePre .over ([0.25, 0.5], 1) ([0.5, 0.25], 0.5) :=
  docPreset_eq_over_opaque_source _ _ (by norm_num) (by norm_num)

/-- … or fully transparent source (`αs = 0`): both return the backdrop -/
theorem docPreset_transparent_source (c : List ℝ) (b : WithAlpha ℝ) (hl : c.length = b.1.length) :
    docPreset.applyTo (premultiply c 0) b = b := by
  obtain ⟨d, αb⟩ := b
  unfold premultiply
  rw [docPreset_formula]
  congr 1
  · apply List.ext_getElem?
    intro i
    simp only [List.getElem?_zipWith, List.getElem?_map]
    by_cases hi : i < d.length
    · have hi' : i < c.length := by simp only [] at hl; omega
      simp [List.getElem?_eq_getElem hi, List.getElem?_eq_getElem hi']
    · have hi' : ¬ i < c.length := by simp only [] at hl; omega
      simp [List.getElem?_eq_none (not_lt.mp hi), List.getElem?_eq_none (not_lt.mp hi')]
  · ring

example : docPreset.applyTo (premultiply [0.25, 0.5] (0 : ℝ)) ([0.5, 0.25], 0.5) = ([0.5, 0.25], 0.5) :=
  docPreset_transparent_source _ _ rfl

end C08
