/-
  C14 — white stays white, adaptation maps white onto white.  Finite configuration space ⇒ complete enumeration over the
  tables regenerated from the sources is a proof; everything here is exact rational arithmetic evaluated by the kernel on the
  *same* model functions (`Adapt.adaptationMatrix`, `M3.mulVec`, `M3.mul`) that the driver runs at `Float`/`Float32`
  (instance `KRat.instScalarRat`: only `+ − × ÷`, comparisons and constants are used by these functions).
-/
import PaletteProofs.KRat
import PaletteModel.Adapt

namespace C14
open KRat Adapt

def wpNames : List String := Gen.Mat.whitePoints.map (·.1)
def coneNames : List String := Gen.Mat.coneMatrices.map (·.1)
def wpR (n : String) : V3 Rat := Color.whitePoint n
def cone (n : String) : M3 Rat × M3 Rat :=
  match coneMatrices? n with | some (a, b) => (M3.ofK a, M3.ofK b) | none => (M3.ofK [], M3.ofK [])
def A (m i o : String) : M3 Rat := adaptationMatrix (cone m).1 (cone m).2 (wpR i) (wpR o)

def dist3 (v w : V3 Rat) : Rat := max (absR (v.c0 - w.c0)) (max (absR (v.c1 - w.c1)) (absR (v.c2 - w.c2)))
def idM : M3 Rat := ⟨1,0,0, 0,1,0, 0,0,1⟩
def distM (a b : M3 Rat) : Rat := distInf (M3.toList a) (M3.toList b)

/-- the tables have the expected shape (16 white points incl. the DCI white, 3 cone matrix pairs, ≥ 7 RGB spaces), every white point has `Y = 1`
    (so `normalize` is the identity on them) and non-zero cone responses under every matrix (so no adaptation divides by zero) -/
theorem tables_shape : wpNames.length = 16 ∧ coneNames = ["Bradford", "UnitMatrix", "VonKries"] ∧ Gen.Mat.rgbSpaces.length ≥ 7 ∧
    wpNames.all (fun w => (wpR w).c1 == 1 && coneNames.all fun m =>
      let l := (cone m).1.mulVec (wpR w); l.c0 != 0 && l.c1 != 0 && l.c2 != 0) = true := by decide +kernel

/-- **adaptation maps the source white point onto the destination white point**: all 16² pairs × 3 methods, within 1e-7
    (exactly, when the cone matrix pair is exactly inverse: XYZ scaling) -/
theorem adapt_white_to_white :
    wpNames.all (fun i => wpNames.all fun o => coneNames.all fun m => decide (dist3 ((A m i o).mulVec (wpR i)) (wpR o) ≤ 1 / 10000000)) = true := by
  decide +kernel
theorem adapt_white_to_white_xyz_scaling_exact :
    wpNames.all (fun i => wpNames.all fun o => dist3 ((A "UnitMatrix" i o).mulVec (wpR i)) (wpR o) == 0) = true := by decide +kernel

/-- **there and back**: `A(o→i)·A(i→o)` is within 1e-6 of the identity for every pair and method, hence the round trip returns every XYZ
    colour to within `1e-6·‖x‖∞` (linearity; `distInf` is the induced ∞-norm of the difference) -/
theorem adapt_there_and_back :
    wpNames.all (fun i => wpNames.all fun o => coneNames.all fun m => decide (distM (M3.mul (A m o i) (A m i o)) idM ≤ 1 / 1000000)) = true := by
  decide +kernel

/-- adapting between equal white points is within 2e-7 of the identity even if it were computed (the code does not compute it: the `TypeId` branch
    returns the input unchanged — law-free, checked bit-exactly by the harness) -/
theorem adapt_same_is_identity :
    wpNames.all (fun w => coneNames.all fun m => decide (distM (A m w w) idM ≤ 2 / 10000000)) = true := by decide +kernel

/-- the cone matrix pairs are mutually inverse to the last published digit -/
theorem cone_pairs_inverse :
    coneNames.all (fun m => decide (distM (M3.mul (cone m).2 (cone m).1) idM ≤ 3 / 10000000) && decide (distM (M3.mul (cone m).1 (cone m).2) idM ≤ 3 / 10000000)) = true := by
  decide +kernel

/-! ## RGB standards -/

def spaceM (sp : String × String × List K × List K × List (List K)) : M3 Rat × M3 Rat := (M3.ofK sp.2.2.1, M3.ofK sp.2.2.2.1)

/-- **RGB white is the standard's white point**: `M·(1,1,1)` within 1e-6 of the white point of every RGB space with hard-coded matrices -/
theorem rgb_white_is_white_point :
    Gen.Mat.rgbSpaces.all (fun sp => decide (dist3 ((spaceM sp).1.mulVec ⟨1, 1, 1⟩) (wpR sp.2.1) ≤ 1 / 1000000)) = true := by decide +kernel

/-- **each standard's RGB→XYZ and XYZ→RGB matrices are mutual inverses** to within 1e-6 (∞-norm), both ways -/
theorem rgb_matrix_pairs_inverse :
    Gen.Mat.rgbSpaces.all (fun sp => decide (distM (M3.mul (spaceM sp).1 (spaceM sp).2) idM ≤ 1 / 1000000) &&
                                     decide (distM (M3.mul (spaceM sp).2 (spaceM sp).1) idM ≤ 1 / 1000000)) = true := by decide +kernel

/-- **Oklab of D65 white**: `M1·D65` is within 1.5e-4 of (1,1,1) — and not within 1e-5: the published M1 belongs to the D65 of chromaticity
    (0.3127, 0.3290), the crate's white point has 5 digits — so Oklab(D65) = (1,0,0) holds to 1e-4 only (cube root and M2, whose rows sum to (1,0,0)
    within 4e-8) -/
theorem oklab_white : dist3 ((M3.ofK (α := Rat) Gen.Mat.oklabM1).mulVec (wpR "D65")) ⟨1, 1, 1⟩ ≤ 15 / 100000 ∧
    (1 : Rat) / 100000 < dist3 ((M3.ofK (α := Rat) Gen.Mat.oklabM1).mulVec (wpR "D65")) ⟨1, 1, 1⟩ ∧
    dist3 ((M3.ofK (α := Rat) Gen.Mat.oklabM2).mulVec ⟨1, 1, 1⟩) ⟨1, 0, 0⟩ ≤ 4 / 100000000 := by decide +kernel

/-! ### … and back: the Oklab gray axis returns to equal RGB components

An Oklab neutral `(L, 0, 0)` goes to `lms' = M2⁻¹·(L,0,0) = L·(first column of M2⁻¹)`, cubed, then through `M1⁻¹` to XYZ and through the
standard's `xyz_to_rgb_matrix`.  Everything but the cube is linear and the cube acts on (numerically) equal components, so the whole gray
axis is settled by the image of `(1,1,1)`. -/

def m1 : M3 Rat := M3.ofK Gen.Mat.oklabM1
def m1Inv : M3 Rat := M3.ofK Gen.Mat.oklabM1Inv
def m2Inv : M3 Rat := M3.ofK Gen.Mat.oklabM2Inv
def spread3 (v : V3 Rat) : Rat := max v.c0 (max v.c1 v.c2) - min v.c0 (min v.c1 v.c2)

/-- `M2⁻¹` sends the Oklab gray axis to equal cone responses (first column within 6e-8 of (1,1,1)); `M1`/`M1⁻¹` are mutual inverses within
    1e-9, both ways — so gray → Oklab → XYZ is the identity to that accuracy whatever the RGB standard; and `M1⁻¹·(1,1,1)` is the published D65
    (within 1.5e-4 of the crate's 5-digit D65, the same mismatch as `oklab_white`) -/
theorem oklab_back_matrices :
    dist3 (m2Inv.mulVec ⟨1, 0, 0⟩) ⟨1, 1, 1⟩ ≤ 6 / 100000000 ∧
    distM (M3.mul m1 m1Inv) idM ≤ 1 / 1000000000 ∧ distM (M3.mul m1Inv m1) idM ≤ 1 / 1000000000 ∧
    dist3 (m1Inv.mulVec ⟨1, 1, 1⟩) (wpR "D65") ≤ 25 / 100000 := by decide +kernel

/-- **an exact Oklab neutral comes back with equal linear RGB components** in every D65 RGB space with hard-coded matrices: the spread of
    `xyz_to_rgb·M1⁻¹·(1,1,1)` is at most 4e-4 (it is the white point digits again: more than 1e-4 for the non-sRGB spaces, whose matrices
    belong to the 5-digit D65), and every component is within 4e-4 of 1 -/
theorem oklab_neutral_back :
    (Gen.Mat.rgbSpaces.filter (·.2.1 == "D65")).all (fun sp =>
      let v := (spaceM sp).2.mulVec (m1Inv.mulVec ⟨1, 1, 1⟩)
      decide (spread3 v ≤ 4 / 10000) && decide (dist3 v ⟨1, 1, 1⟩ ≤ 4 / 10000)) = true ∧
    (Gen.Mat.rgbSpaces.filter (·.2.1 == "D65")).length = 4 := by decide +kernel

end C14
