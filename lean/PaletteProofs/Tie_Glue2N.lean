/-
  Source-text tie, family `glue2`, sub-family `n` (C03, C10; C08 / C09 for two macros): the clamp / operator macros at the colour types
  that do NOT have three components - `Luma<S, T>` (ONE) and `Cam16<T>` (SIX).

  The families `clamp` / `ops` of `tools/rust2lean.py` translate `impl_clamp!`, `impl_is_within_bounds!`, `impl_mix!`, `impl_lighten!`,
  `impl_color_add!` .. at every invocation for a three-component type (`V3 α`) and listed `Luma` and `Cam16` as not translated.
  `tools/rust2lean_glue2.py` (sub-family `n`; a private instance of that translator whose lowering of a NAMED colour struct chooses the
  constructor by the arity re-read from the `struct`: `Prim.V1`, `Prim.V6` of `PaletteModel/BodyPrimGlue2.lean`) expands the same
  `macro_rules!` as written now (tools/rust_macros.py) at the actual invocations of luma/luma.rs and cam16/full.rs and translates the
  resulting `fn`s into `Gen.BodyGlue2N.*` (lean/PaletteModel/Gen/BodiesGlue2N.lean): 6 bounds bodies, and at `Luma` the 16 arithmetic
  bodies, `mix` / `mix_assign`, the four `lighten` forms, `premultiply` / `unpremultiply`, `distance_squared`, and the accessors
  `min_luma` / `max_luma`.  The set of operator macros invoked for the two types is checked against the registration (a new
  invocation without body and tie stops the run).

  Each `tie_<name>` states, for every `α` with `[Scalar α]` and every input, that the translated body is the GENERIC list-based model
  function the driver executes (`Clamp.clampAll` / `Clamp.withinAll`; `Ops.addC` .. `Ops.mixLin`, `Ops.incValue` ..; `Blend.premultiply` /
  `unpremultiply`; `Diff.distSq1`) at the component list of the struct and **at the bounds table / `Inc` spec written in the statement**.
  `luma_entry_shape` / `cam16_entry_shape` relate that table to the entry of the re-extracted `Gen.Bounds.entries` the driver reads
  (which components, which of them have an upper bound).  Proofs: `rfl`; `Bool.and_assoc` / `Bool.and_true` for the left-nested
  conjunction of `is_within_bounds` (Cam16's `Option::from(None).map_or(true, ..)` leaves `&& true`).

  So at `Luma` / `Cam16` too: `gt_eq` → `gt`, `min` / `max` exchanged, a component moved to `other {..}`, `clamp_min` for `clamp`,
  `(other - self)` reversed in `mix`, `factor` unclamped, `difference.max(0)` → `.min(0)`, `/` → `*` in `unpremultiply`, the
  `is_valid_divisor` guard dropped - each is a broken obligation naming the body.
  NOT translated: header of Gen/BodiesGlue2N.lean.
-/
import PaletteModel.Gen.BodiesGlue2N
import PaletteModel.Gen.Bounds

set_option linter.unusedSimpArgs false

namespace Tie
variable {α : Type} [Scalar α]

/-! ### bounds at `Luma` (luma/luma.rs): fields ['luma'] -/
theorem tie_clampLuma (c : Prim.V1 α) :
    (Gen.BodyGlue2N.clampLuma c).toList = Clamp.clampAll c.toList [.both Gen.BodyGlue2N.boundLumaMinLuma Gen.BodyGlue2N.boundLumaMaxLuma] := rfl
theorem tie_clampAssignLuma (c : Prim.V1 α) :
    (Gen.BodyGlue2N.clampAssignLuma c).toList = Clamp.clampAll c.toList [.both Gen.BodyGlue2N.boundLumaMinLuma Gen.BodyGlue2N.boundLumaMaxLuma] := rfl
theorem tie_withinLuma (c : Prim.V1 α) :
    Gen.BodyGlue2N.withinLuma c = Clamp.withinAll c.toList [.both Gen.BodyGlue2N.boundLumaMinLuma Gen.BodyGlue2N.boundLumaMaxLuma] := by
  simp only [Gen.BodyGlue2N.withinLuma, Prim.V1.toList, Clamp.withinAll, Clamp.withinC, Bool.and_true, Bool.true_and, Bool.and_assoc]
/-- the accessors: `T::zero()`, `T::max_intensity()` -/
theorem luma_bounds_values : (Gen.BodyGlue2N.boundLumaMinLuma : α) = 0.0 ∧ (Gen.BodyGlue2N.boundLumaMaxLuma : α) = 1.0 := ⟨rfl, rfl⟩

/-! ### bounds at `Cam16` (cam16/full.rs): fields ['lightness', 'chroma', 'hue', 'brightness', 'colorfulness', 'saturation'] -/
theorem tie_clampCam16 (c : Prim.V6 α) :
    (Gen.BodyGlue2N.clampCam16 c).toList = Clamp.clampAll c.toList [.minOnly 0.0, .minOnly 0.0, .untouched, .minOnly 0.0, .minOnly 0.0, .minOnly 0.0] := rfl
theorem tie_clampAssignCam16 (c : Prim.V6 α) :
    (Gen.BodyGlue2N.clampAssignCam16 c).toList = Clamp.clampAll c.toList [.minOnly 0.0, .minOnly 0.0, .untouched, .minOnly 0.0, .minOnly 0.0, .minOnly 0.0] := rfl
theorem tie_withinCam16 (c : Prim.V6 α) :
    Gen.BodyGlue2N.withinCam16 c = Clamp.withinAll c.toList [.minOnly 0.0, .minOnly 0.0, .untouched, .minOnly 0.0, .minOnly 0.0, .minOnly 0.0] := by
  simp only [Gen.BodyGlue2N.withinCam16, Prim.V6.toList, Clamp.withinAll, Clamp.withinC, Bool.and_true, Bool.true_and, Bool.and_assoc]

/-! ### C03's clause "the clamping form equals the assigning form" at these two types, from the two texts -/
theorem clampAssignLuma_eq_clamp (c : Prim.V1 α) : Gen.BodyGlue2N.clampAssignLuma c = Gen.BodyGlue2N.clampLuma c := rfl
theorem clampAssignCam16_eq_clamp (c : Prim.V6 α) : Gen.BodyGlue2N.clampAssignCam16 c = Gen.BodyGlue2N.clampCam16 c := rfl

/-! ### the tables above against the re-extracted `Gen.Bounds.entries` the driver reads (component names; which have an upper bound) -/
theorem luma_entry_shape :
    (Gen.Bounds.entries.find? (fun e => e.1 == "Luma@luma/luma.rs")).map (fun e => (e.2.1.map (fun c => (c.1, c.2.2 != "None")), e.2.2.map (fun c => (c.1, c.2.2 != "None"))))
      = some ([("luma", true)], [("luma", true)]) := by decide +kernel
theorem cam16_entry_shape :
    (Gen.Bounds.entries.find? (fun e => e.1 == "Cam16@cam16/full.rs")).map (fun e => (e.2.1.map (fun c => (c.1, c.2.2 != "None")), e.2.2.map (fun c => (c.1, c.2.2 != "None"))))
      = some ([("lightness", false), ("chroma", false), ("brightness", false), ("colorfulness", false), ("saturation", false)],
              [("lightness", false), ("chroma", false), ("brightness", false), ("colorfulness", false), ("saturation", false)]) := by decide +kernel

/-! ### component arithmetic at `Luma` (`impl_color_add!` .. `impl_color_div!`) -/
theorem tie_addLuma (a b : Prim.V1 α) : (Gen.BodyGlue2N.addLuma a b).toList = Ops.addC a.toList b.toList := rfl
theorem tie_addSLuma (a : Prim.V1 α) (c : α) : (Gen.BodyGlue2N.addSLuma a c).toList = Ops.addS a.toList c := rfl
theorem tie_addAssignLuma (a b : Prim.V1 α) : (Gen.BodyGlue2N.addAssignLuma a b).toList = Ops.addAssignC a.toList b.toList := rfl
theorem tie_addAssignSLuma (a : Prim.V1 α) (c : α) : (Gen.BodyGlue2N.addAssignSLuma a c).toList = Ops.addAssignS a.toList c := rfl
theorem tie_subLuma (a b : Prim.V1 α) : (Gen.BodyGlue2N.subLuma a b).toList = Ops.subC a.toList b.toList := rfl
theorem tie_subSLuma (a : Prim.V1 α) (c : α) : (Gen.BodyGlue2N.subSLuma a c).toList = Ops.subS a.toList c := rfl
theorem tie_subAssignLuma (a b : Prim.V1 α) : (Gen.BodyGlue2N.subAssignLuma a b).toList = Ops.subAssignC a.toList b.toList := rfl
theorem tie_subAssignSLuma (a : Prim.V1 α) (c : α) : (Gen.BodyGlue2N.subAssignSLuma a c).toList = Ops.subAssignS a.toList c := rfl
theorem tie_mulLuma (a b : Prim.V1 α) : (Gen.BodyGlue2N.mulLuma a b).toList = Ops.mulC a.toList b.toList := rfl
theorem tie_mulSLuma (a : Prim.V1 α) (c : α) : (Gen.BodyGlue2N.mulSLuma a c).toList = Ops.mulS a.toList c := rfl
theorem tie_mulAssignLuma (a b : Prim.V1 α) : (Gen.BodyGlue2N.mulAssignLuma a b).toList = Ops.mulAssignC a.toList b.toList := rfl
theorem tie_mulAssignSLuma (a : Prim.V1 α) (c : α) : (Gen.BodyGlue2N.mulAssignSLuma a c).toList = Ops.mulAssignS a.toList c := rfl
theorem tie_divLuma (a b : Prim.V1 α) : (Gen.BodyGlue2N.divLuma a b).toList = Ops.divC a.toList b.toList := rfl
theorem tie_divSLuma (a : Prim.V1 α) (c : α) : (Gen.BodyGlue2N.divSLuma a c).toList = Ops.divS a.toList c := rfl
theorem tie_divAssignLuma (a b : Prim.V1 α) : (Gen.BodyGlue2N.divAssignLuma a b).toList = Ops.divAssignC a.toList b.toList := rfl
theorem tie_divAssignSLuma (a : Prim.V1 α) (c : α) : (Gen.BodyGlue2N.divAssignSLuma a c).toList = Ops.divAssignS a.toList c := rfl
/-- the readings `Prim.v1Add` .. of `Luma (op) Luma` / `Luma (op) T` used inside `mix`, `premultiply`, `distance_squared` ARE the translated macro bodies -/
theorem reading_v1 :
    @Prim.v1Add α _ = Gen.BodyGlue2N.addLuma ∧ @Prim.v1Sub α _ = Gen.BodyGlue2N.subLuma ∧ @Prim.v1Mul α _ = Gen.BodyGlue2N.mulLuma ∧ @Prim.v1Div α _ = Gen.BodyGlue2N.divLuma ∧
    @Prim.v1AddS α _ = Gen.BodyGlue2N.addSLuma ∧ @Prim.v1SubS α _ = Gen.BodyGlue2N.subSLuma ∧ @Prim.v1MulS α _ = Gen.BodyGlue2N.mulSLuma ∧ @Prim.v1DivS α _ = Gen.BodyGlue2N.divSLuma :=
  ⟨rfl, rfl, rfl, rfl, rfl, rfl, rfl, rfl⟩

/-! ### `impl_mix!` at `Luma` -/
theorem tie_mixLuma (a b : Prim.V1 α) (f : α) : (Gen.BodyGlue2N.mixLuma a b f).toList = Ops.mixLin a.toList b.toList f := rfl
theorem tie_mixAssignLuma (a b : Prim.V1 α) (f : α) : (Gen.BodyGlue2N.mixAssignLuma a b f).toList = Ops.mixLinAssign a.toList b.toList f := rfl

/-! ### `impl_lighten!` at `Luma`: increase {luma => [min_luma, max_luma]}, other {} -/
theorem tie_lightenLuma (c : Prim.V1 α) (f : α) :
    (Gen.BodyGlue2N.lightenLuma c f).toList = Ops.incValue [.increase Gen.BodyGlue2N.boundLumaMinLuma Gen.BodyGlue2N.boundLumaMaxLuma] c.toList f := rfl
theorem tie_lightenFixedLuma (c : Prim.V1 α) (f : α) :
    (Gen.BodyGlue2N.lightenFixedLuma c f).toList = Ops.incFixedValue [.increase Gen.BodyGlue2N.boundLumaMinLuma Gen.BodyGlue2N.boundLumaMaxLuma] c.toList f := rfl
theorem tie_lightenAssignLuma (c : Prim.V1 α) (f : α) :
    (Gen.BodyGlue2N.lightenAssignLuma c f).toList = Ops.incAssign [.increase Gen.BodyGlue2N.boundLumaMinLuma Gen.BodyGlue2N.boundLumaMaxLuma] c.toList f := rfl
theorem tie_lightenFixedAssignLuma (c : Prim.V1 α) (f : α) :
    (Gen.BodyGlue2N.lightenFixedAssignLuma c f).toList = Ops.incFixedAssign [.increase Gen.BodyGlue2N.boundLumaMinLuma Gen.BodyGlue2N.boundLumaMaxLuma] c.toList f := rfl

/-! ### `impl_premultiply!` at `Luma` (C08): the model on the component list -/
theorem tie_premultiplyLuma (c : Prim.V1 α) (a : α) :
    Blend.premultiply c.toList a = ((Gen.BodyGlue2N.premultiplyLuma c a).1.toList, (Gen.BodyGlue2N.premultiplyLuma c a).2) := rfl
theorem tie_unpremultiplyLuma (c : Prim.V1 α) (a : α) :
    Blend.unpremultiply (c.toList, a) = ((Gen.BodyGlue2N.unpremultiplyLuma (c, a)).1.toList, (Gen.BodyGlue2N.unpremultiplyLuma (c, a)).2) := rfl

/-! ### `impl_euclidean_distance!` at `Luma` (C09) -/
theorem tie_distanceSquaredLuma : @Gen.BodyGlue2N.distanceSquaredLuma α _ = fun a b => Diff.distSq1 a.c0 b.c0 := rfl

end Tie
