/-
  C11 — **float hue equality is congruence modulo 360 on integer angles** (the domain of the property's equality clause:
  "all integer angles in ±100000 shifted by up to ±100 turns"; here every integer angle with `|n| ≤ 2^20`, where `n` and
  `n + 360·j` are exactly representable), for `f32` and `f64`, as theorems about `Hue.Bits.normU32/normU64` and
  `Hue.Bits.angleEq32/angleEq64` (`AngleEq::angle_eq`: equality of the unsigned normal forms).

  Key fact (`normU32_int`, `normU64_int`): on an integer angle the computed unsigned normal form is EXACTLY `n mod 360` —
  the rounded quotient `R (n/360)` has the same floor as `n/360` (if `360 ∤ n` the quotient is at least `1/360 > 2^-9` away
  from the next integer, and `q + 1 − 2^-9` is a float), `360·⌊n/360⌋` and the difference are exact.  Hence
    * `x` and `x + 360·j` compare equal (`hue_eq_whole_turns_f32/_f64`; so `0 = 360 = −360`, `180 = −180`, …),
    * integer angles that are not congruent modulo 360 compare unequal (`hue_ne_of_not_congruent_f32/_f64`).
  And for ALL floats with `|x|, |y| ≤ 2^20` (not only integers): **hues that differ by more than rounding error modulo 360
  compare unequal** (`hue_ne_of_far_f32/_f64`): if `x − y` is farther than one spacing of the format at 360 (`2^-15` in binary32,
  `2^-44` in binary64) from every multiple of 360, the computed normal forms differ — each is within half a spacing of `x − 360k`
  (`normU*_congruent_all`).  The property's oracle uses the larger threshold `ulp x + ulp y + ulp 360`.
-/
import PaletteProofs.C11_HueAll
import PaletteProofs.C11_HueAll64

namespace C11
open Hue.Bits Float.Model Float.Model.UnpackedFloat Ieee

/-- floor of a rounded quotient by 360, generic in the rounding `Rd` (monotone, exact on `i·2^-9` for `|i| < 2^22`) -/
theorem floor_round_div360 {Rd : ℚ → ℚ} (hmono : ∀ {a b : ℚ}, a ≤ b → Rd a ≤ Rd b)
    (hfix : ∀ i : ℤ, |i| < 2^22 → Rd ((i : ℚ) * 2^(-9 : ℤ)) = (i : ℚ) * 2^(-9 : ℤ))
    {n : ℤ} (hn : |n| ≤ 2^20) : ⌊Rd ((n : ℚ) / 360)⌋ = n / 360 := by
  have hn' := abs_le.mp hn
  have hdm := Int.emod_add_mul_ediv n 360
  have hr0 := Int.emod_nonneg n (show (360 : ℤ) ≠ 0 by norm_num)
  have hr1 := Int.emod_lt_of_pos n (show (0 : ℤ) < 360 by norm_num)
  set q := n / 360 with hq
  set r := n % 360 with hr
  have hqb : |q| ≤ 2913 := by rw [abs_le]; constructor <;> omega
  have hqb' := abs_le.mp hqb
  have hnq : (n : ℚ) / 360 = q + (r : ℚ) / 360 := by
    have : (n : ℚ) = r + 360 * q := by exact_mod_cast hdm.symm
    rw [this]; field_simp; ring
  have h29 : (2 : ℚ)^(-9 : ℤ) = 1 / 512 := by norm_num
  -- q = (q·512)·2^-9 and q + 1 − 2^-9 = ((q+1)·512 − 1)·2^-9 are fixed points
  have hfq : Rd (q : ℚ) = q := by
    have := hfix (q * 512) (by rw [abs_lt]; constructor <;> omega)
    rw [h29] at this; push_cast at this
    rw [show (q : ℚ) * 512 * (1 / 512) = q by ring] at this; exact this
  have hfc : Rd ((q : ℚ) + 1 - 1 / 512) = (q : ℚ) + 1 - 1 / 512 := by
    have := hfix ((q + 1) * 512 - 1) (by rw [abs_lt]; constructor <;> omega)
    rw [h29] at this; push_cast at this
    rw [show (((q : ℚ) + 1) * 512 - 1) * (1 / 512) = (q : ℚ) + 1 - 1 / 512 by ring] at this; exact this
  rw [Int.floor_eq_iff]
  have hrq0 : (0 : ℚ) ≤ (r : ℚ) / 360 := by
    have : (0 : ℚ) ≤ r := by exact_mod_cast hr0
    positivity
  have hrq1 : (r : ℚ) / 360 ≤ 1 - 1 / 512 := by
    have : (r : ℚ) ≤ 359 := by exact_mod_cast (by omega : r ≤ 359)
    rw [div_le_iff₀ (by norm_num)]; linarith
  constructor
  · have := hmono (show (q : ℚ) ≤ (n : ℚ) / 360 by rw [hnq]; linarith)
    rwa [hfq] at this
  · have := hmono (show (n : ℚ) / 360 ≤ (q : ℚ) + 1 - 1 / 512 by rw [hnq]; linarith)
    rw [hfc] at this; linarith


/-- the spacing of the format at an angle of magnitude at most `2^20` is at most `2^-3` (crude; both formats) -/
theorem ulp32_le_of_abs_le' {X : ℚ} (h : |X| ≤ 2^20) : ulp32 X ≤ 2^(-3 : ℤ) := by
  unfold ulp32 ulp
  split_ifs with h0
  · exact zpow_le_zpow_right₀ (by norm_num) (by norm_num)
  · apply zpow_le_zpow_right₀ (by norm_num)
    have h1 : texp 24 (-149) X ≤ texp 24 (-149) ((2 : ℚ)^(20 : ℤ)) :=
      texp_mono_abs h0 (by rw [abs_of_pos (a := (2 : ℚ)^(20 : ℤ)) (by positivity)]; exact_mod_cast h)
    have h2 : texp 24 (-149) ((2 : ℚ)^(20 : ℤ)) = -3 := by
      unfold texp
      rw [abs_of_pos (by positivity), show ((2 : ℚ)^(20 : ℤ)) = (((2 : ℕ) : ℚ))^(20 : ℤ) by norm_num, Int.log_zpow (by norm_num)]
      norm_num
    omega

theorem ulp64_le_of_abs_le' {X : ℚ} (h : |X| ≤ 2^20) : ulp64 X ≤ 2^(-3 : ℤ) := by
  unfold ulp64 ulp
  split_ifs with h0
  · exact zpow_le_zpow_right₀ (by norm_num) (by norm_num)
  · apply zpow_le_zpow_right₀ (by norm_num)
    have h1 : texp 53 (-1074) X ≤ texp 53 (-1074) ((2 : ℚ)^(20 : ℤ)) :=
      texp_mono_abs h0 (by rw [abs_of_pos (a := (2 : ℚ)^(20 : ℤ)) (by positivity)]; exact_mod_cast h)
    have h2 : texp 53 (-1074) ((2 : ℚ)^(20 : ℤ)) = -32 := by
      unfold texp
      rw [abs_of_pos (by positivity), show ((2 : ℚ)^(20 : ℤ)) = (((2 : ℕ) : ℚ))^(20 : ℤ) by norm_num, Int.log_zpow (by norm_num)]
      norm_num
    omega

/-! ## f32 -/
section f32
open Ieee.F32

theorem R32_fix_m9 (i : ℤ) (hi : |i| < 2^22) : R32 ((i : ℚ) * 2^(-9 : ℤ)) = (i : ℚ) * 2^(-9 : ℤ) :=
  R_fix (p := spec.mantissaBits) (emin := spec.minExponent) (lt_trans hi (by decide)) (by decide)

/-- **on an integer angle the computed unsigned normal form is exactly `n mod 360`** -/
theorem normU32_int {x : Float32} (hx : IsFin x) {n : ℤ} (hv : v x = n) (hn : |n| ≤ 2^20) :
    IsFin (normU32 x) ∧ v (normU32 x) = ((n % 360 : ℤ) : ℚ) := by
  have hb : |v x| ≤ 2^20 := by rw [hv]; exact_mod_cast hn
  obtain ⟨hf, hcf, _⟩ := normU32_closed_form hx hb
  refine ⟨hf, ?_⟩
  rw [hcf, hv, floor_round_div360 (Rd := R32) R32_mono R32_fix_m9 hn]
  have hdm := Int.emod_add_mul_ediv n 360
  have hr0 := Int.emod_nonneg n (show (360 : ℤ) ≠ 0 by norm_num)
  have hr1 := Int.emod_lt_of_pos n (show (0 : ℤ) < 360 by norm_num)
  have : (n : ℚ) - 360 * ((n / 360 : ℤ) : ℚ) = ((n % 360 : ℤ) : ℚ) := by
    have : (n : ℚ) = ((n % 360 : ℤ) : ℚ) + 360 * ((n / 360 : ℤ) : ℚ) := by exact_mod_cast hdm.symm
    linarith
  rw [this]
  exact R32_intCast (by rw [abs_lt]; constructor <;> omega)

/-- **a hue compares equal to itself shifted by any whole number of turns** (integer angles, both exactly representable) -/
theorem hue_eq_whole_turns_f32 : ∀ x y : Float32, IsFin x → IsFin y → ∀ n j : ℤ, v x = n → v y = n + 360 * j →
    |n| ≤ 2^20 → |n + 360 * j| ≤ 2^20 → angleEq32 x y = true := by
  intro x y hx hy n j hvx hvy hn hnj
  obtain ⟨fx, vx⟩ := normU32_int hx hvx hn
  obtain ⟨fy, vy⟩ := normU32_int hy (n := n + 360 * j) (by rw [hvy]; push_cast; ring) hnj
  have hmod : (n + 360 * j) % 360 = n % 360 := by omega
  rw [hmod] at vy
  unfold angleEq32
  rw [Bool.and_eq_true, decide_eq_true_eq, decide_eq_true_eq, le_iff fx fy, le_iff fy fx, vx, vy]
  exact ⟨le_rfl, le_rfl⟩

/-- **integer angles that differ by no whole number of turns compare unequal** -/
theorem hue_ne_of_not_congruent_f32 : ∀ x y : Float32, IsFin x → IsFin y → ∀ n m : ℤ, v x = n → v y = m →
    |n| ≤ 2^20 → |m| ≤ 2^20 → n % 360 ≠ m % 360 → angleEq32 x y = false := by
  intro x y hx hy n m hvx hvy hn hm hne
  obtain ⟨fx, vx⟩ := normU32_int hx hvx hn
  obtain ⟨fy, vy⟩ := normU32_int hy hvy hm
  unfold angleEq32
  rw [Bool.and_eq_false_iff, decide_eq_false_iff_not, decide_eq_false_iff_not, le_iff fx fy, le_iff fy fx, vx, vy]
  have : ((n % 360 : ℤ) : ℚ) ≠ ((m % 360 : ℤ) : ℚ) := by exact_mod_cast hne
  rcases lt_or_gt_of_ne this with h | h
  · right; exact not_le.mpr h
  · left; exact not_le.mpr h

-- the hypotheses are satisfiable: 1000 and 1000 − 3·360 = −80 are floats
example : IsFin (Float32.ofBits 0x447a0000) ∧ v (Float32.ofBits 0x447a0000) = ((1000 : ℤ) : ℚ) := by
  refine ⟨rfl, ?_⟩
  unfold v; rw [show U (Float32.ofBits 0x447a0000) = .finite .positive 0xfa0000 (-14) (by decide) from rfl]; norm_num [val, sgn]

/-- the spacing of binary32 at a normal form (`|U| ≤ 360`) is at most `2^-15` -/
theorem ulp32_le_at_360 {U : ℚ} (h : |U| ≤ 360) : ulp32 U ≤ 2^(-15 : ℤ) := by
  unfold ulp32 ulp
  split_ifs with h0
  · exact zpow_le_zpow_right₀ (by norm_num) (by norm_num)
  · apply zpow_le_zpow_right₀ (by norm_num)
    have h1 : texp 24 (-149) U ≤ texp 24 (-149) (360 : ℚ) :=
      texp_mono_abs h0 (by rw [abs_of_pos (a := (360 : ℚ)) (by norm_num)]; exact h)
    have h2 : texp 24 (-149) (360 : ℚ) = -15 := by
      unfold texp
      have : Int.log 2 |(360 : ℚ)| = 8 := by
        rw [abs_of_pos (by norm_num)]
        have h8 := Int.zpow_le_iff_le_log (b := 2) (by norm_num) (show (0 : ℚ) < 360 by norm_num) (x := 8)
        have h9 := Int.lt_zpow_iff_log_lt (b := 2) (by norm_num) (show (0 : ℚ) < 360 by norm_num) (x := 9)
        have a1 : (8 : ℤ) ≤ Int.log 2 (360 : ℚ) := h8.mp (by norm_num)
        have a2 : Int.log 2 (360 : ℚ) < 9 := h9.mp (by norm_num)
        omega
      rw [this]; norm_num
    omega

/-- **hues that differ by more than rounding error modulo 360 compare unequal** (every pair of f32 with magnitude ≤ 2^20) -/
theorem hue_ne_of_far_f32 : ∀ x y : Float32, IsFin x → |v x| ≤ 2^20 → IsFin y → |v y| ≤ 2^20 →
    (∀ k : ℤ, 2^(-15 : ℤ) < |v x - v y - 360 * k|) → angleEq32 x y = false := by
  intro x y hx hbx hy hby hfar
  by_contra hne
  rw [Bool.not_eq_false] at hne
  unfold angleEq32 at hne
  rw [Bool.and_eq_true, decide_eq_true_eq, decide_eq_true_eq] at hne
  obtain ⟨fx, _⟩ := norm32_finite_all x hx hbx
  obtain ⟨fy, _⟩ := norm32_finite_all y hy hby
  have heq : v (normU32 x) = v (normU32 y) :=
    le_antisymm ((le_iff fx fy).mp hne.1) ((le_iff fy fx).mp hne.2)
  obtain ⟨k1, h1⟩ := normU32_congruent_all x hx hbx
  obtain ⟨k2, h2⟩ := normU32_congruent_all y hy hby
  have hr := normU32_range_all x hx hbx
  have hU : |v (normU32 x)| ≤ 360 := by
    rw [abs_le]; constructor
    · have := ulp32_le_of_abs_le' hbx
      have h149 : (360 : ℚ) * 2^(-149 : ℤ) ≤ 1 := by
        have : (2 : ℚ)^(-149 : ℤ) ≤ 2^(-10 : ℤ) := zpow_le_zpow_right₀ (by norm_num) (by norm_num)
        have e : (2 : ℚ)^(-10 : ℤ) = 1 / 1024 := by norm_num
        rw [e] at this
        calc (360 : ℚ) * 2^(-149 : ℤ) ≤ 360 * (1 / 1024) := mul_le_mul_of_nonneg_left this (by norm_num)
          _ ≤ 1 := by norm_num
      have h3 : (2 : ℚ)^(-3 : ℤ) = 1 / 8 := by norm_num
      rw [h3] at this
      generalize ulp32 (v x) = a at hr this
      generalize (360 : ℚ) * 2^(-149 : ℤ) = b at hr h149
      linarith [hr.1]
    · exact hr.2
  have hu := ulp32_le_at_360 hU
  rw [← heq] at h2
  have := hfar (k1 - k2)
  have h1' := abs_le.mp h1
  have h2' := abs_le.mp h2
  have hpos := ulp_pos (p := 24) (emin := -149) (v (normU32 x))
  have : |v x - v y - 360 * ((k1 - k2 : ℤ) : ℚ)| ≤ ulp32 (v (normU32 x)) := by
    rw [abs_le]; push_cast; constructor <;> linarith [h1'.1, h1'.2, h2'.1, h2'.2]
  linarith [hfar (k1 - k2)]

-- the hypothesis of `hue_ne_of_far_*` is satisfiable: angles 0 and 1
example : ∀ k : ℤ, (2 : ℚ)^(-15 : ℤ) < |(0 : ℚ) - 1 - 360 * k| := by
  intro k
  have h1 : (1 : ℤ) ≤ |(0 : ℤ) - 1 - 360 * k| := Int.one_le_abs (by omega)
  have h2 : ((1 : ℤ) : ℚ) ≤ ((|(0 : ℤ) - 1 - 360 * k| : ℤ) : ℚ) := by exact_mod_cast h1
  rw [Int.cast_abs] at h2; push_cast at h2
  have h3 : (2 : ℚ)^(-15 : ℤ) < 1 := by norm_num
  rw [show (0 : ℚ) - 1 - 360 * k = -1 - 360 * k by ring]
  linarith

end f32

/-! ## f64 -/
section f64
open Ieee.F64

theorem R64_fix_m9 (i : ℤ) (hi : |i| < 2^22) : R64 ((i : ℚ) * 2^(-9 : ℤ)) = (i : ℚ) * 2^(-9 : ℤ) :=
  R_fix (p := spec.mantissaBits) (emin := spec.minExponent) (lt_trans hi (by decide)) (by decide)

theorem normU64_int {x : Float} (hx : IsFin x) {n : ℤ} (hv : v x = n) (hn : |n| ≤ 2^20) :
    IsFin (normU64 x) ∧ v (normU64 x) = ((n % 360 : ℤ) : ℚ) := by
  have hb : |v x| ≤ 2^20 := by rw [hv]; exact_mod_cast hn
  obtain ⟨hf, hcf, _⟩ := normU64_closed_form hx hb
  refine ⟨hf, ?_⟩
  rw [hcf, hv, floor_round_div360 (Rd := R64) R64_mono R64_fix_m9 hn]
  have hdm := Int.emod_add_mul_ediv n 360
  have hr0 := Int.emod_nonneg n (show (360 : ℤ) ≠ 0 by norm_num)
  have hr1 := Int.emod_lt_of_pos n (show (0 : ℤ) < 360 by norm_num)
  have : (n : ℚ) - 360 * ((n / 360 : ℤ) : ℚ) = ((n % 360 : ℤ) : ℚ) := by
    have : (n : ℚ) = ((n % 360 : ℤ) : ℚ) + 360 * ((n / 360 : ℤ) : ℚ) := by exact_mod_cast hdm.symm
    linarith
  rw [this]
  exact R64_intCast (by rw [abs_lt]; constructor <;> omega)

theorem hue_eq_whole_turns_f64 : ∀ x y : Float, IsFin x → IsFin y → ∀ n j : ℤ, v x = n → v y = n + 360 * j →
    |n| ≤ 2^20 → |n + 360 * j| ≤ 2^20 → angleEq64 x y = true := by
  intro x y hx hy n j hvx hvy hn hnj
  obtain ⟨fx, vx⟩ := normU64_int hx hvx hn
  obtain ⟨fy, vy⟩ := normU64_int hy (n := n + 360 * j) (by rw [hvy]; push_cast; ring) hnj
  have hmod : (n + 360 * j) % 360 = n % 360 := by omega
  rw [hmod] at vy
  unfold angleEq64
  rw [Bool.and_eq_true, decide_eq_true_eq, decide_eq_true_eq, le_iff fx fy, le_iff fy fx, vx, vy]
  exact ⟨le_rfl, le_rfl⟩

theorem hue_ne_of_not_congruent_f64 : ∀ x y : Float, IsFin x → IsFin y → ∀ n m : ℤ, v x = n → v y = m →
    |n| ≤ 2^20 → |m| ≤ 2^20 → n % 360 ≠ m % 360 → angleEq64 x y = false := by
  intro x y hx hy n m hvx hvy hn hm hne
  obtain ⟨fx, vx⟩ := normU64_int hx hvx hn
  obtain ⟨fy, vy⟩ := normU64_int hy hvy hm
  unfold angleEq64
  rw [Bool.and_eq_false_iff, decide_eq_false_iff_not, decide_eq_false_iff_not, le_iff fx fy, le_iff fy fx, vx, vy]
  have : ((n % 360 : ℤ) : ℚ) ≠ ((m % 360 : ℤ) : ℚ) := by exact_mod_cast hne
  rcases lt_or_gt_of_ne this with h | h
  · right; exact not_le.mpr h
  · left; exact not_le.mpr h

theorem ulp64_le_at_360 {U : ℚ} (h : |U| ≤ 360) : ulp64 U ≤ 2^(-44 : ℤ) := by
  unfold ulp64 ulp
  split_ifs with h0
  · exact zpow_le_zpow_right₀ (by norm_num) (by norm_num)
  · apply zpow_le_zpow_right₀ (by norm_num)
    have h1 : texp 53 (-1074) U ≤ texp 53 (-1074) (360 : ℚ) :=
      texp_mono_abs h0 (by rw [abs_of_pos (a := (360 : ℚ)) (by norm_num)]; exact h)
    have h2 : texp 53 (-1074) (360 : ℚ) = -44 := by
      unfold texp
      have : Int.log 2 |(360 : ℚ)| = 8 := by
        rw [abs_of_pos (by norm_num)]
        have h8 := Int.zpow_le_iff_le_log (b := 2) (by norm_num) (show (0 : ℚ) < 360 by norm_num) (x := 8)
        have h9 := Int.lt_zpow_iff_log_lt (b := 2) (by norm_num) (show (0 : ℚ) < 360 by norm_num) (x := 9)
        have a1 : (8 : ℤ) ≤ Int.log 2 (360 : ℚ) := h8.mp (by norm_num)
        have a2 : Int.log 2 (360 : ℚ) < 9 := h9.mp (by norm_num)
        omega
      rw [this]; norm_num
    omega

theorem hue_ne_of_far_f64 : ∀ x y : Float, IsFin x → |v x| ≤ 2^20 → IsFin y → |v y| ≤ 2^20 →
    (∀ k : ℤ, 2^(-44 : ℤ) < |v x - v y - 360 * k|) → angleEq64 x y = false := by
  intro x y hx hbx hy hby hfar
  by_contra hne
  rw [Bool.not_eq_false] at hne
  unfold angleEq64 at hne
  rw [Bool.and_eq_true, decide_eq_true_eq, decide_eq_true_eq] at hne
  obtain ⟨fx, _⟩ := norm64_finite_all x hx hbx
  obtain ⟨fy, _⟩ := norm64_finite_all y hy hby
  have heq : v (normU64 x) = v (normU64 y) :=
    le_antisymm ((le_iff fx fy).mp hne.1) ((le_iff fy fx).mp hne.2)
  obtain ⟨k1, h1⟩ := normU64_congruent_all x hx hbx
  obtain ⟨k2, h2⟩ := normU64_congruent_all y hy hby
  have hr := normU64_range_all x hx hbx
  have hU : |v (normU64 x)| ≤ 360 := by
    rw [abs_le]; constructor
    · have := ulp64_le_of_abs_le' hbx
      have h149 : (360 : ℚ) * 2^(-1074 : ℤ) ≤ 1 := by
        have : (2 : ℚ)^(-1074 : ℤ) ≤ 2^(-10 : ℤ) := zpow_le_zpow_right₀ (by norm_num) (by norm_num)
        have e : (2 : ℚ)^(-10 : ℤ) = 1 / 1024 := by norm_num
        rw [e] at this
        calc (360 : ℚ) * 2^(-1074 : ℤ) ≤ 360 * (1 / 1024) := mul_le_mul_of_nonneg_left this (by norm_num)
          _ ≤ 1 := by norm_num
      have h3 : (2 : ℚ)^(-3 : ℤ) = 1 / 8 := by norm_num
      rw [h3] at this
      generalize ulp64 (v x) = a at hr this
      generalize (360 : ℚ) * 2^(-1074 : ℤ) = b at hr h149
      linarith [hr.1]
    · exact hr.2
  have hu := ulp64_le_at_360 hU
  rw [← heq] at h2
  have h1' := abs_le.mp h1
  have h2' := abs_le.mp h2
  have : |v x - v y - 360 * ((k1 - k2 : ℤ) : ℚ)| ≤ ulp64 (v (normU64 x)) := by
    rw [abs_le]; push_cast; constructor <;> linarith [h1'.1, h1'.2, h2'.1, h2'.2]
  linarith [hfar (k1 - k2)]

end f64

end C11
