/-
  C19 — the containment clause of the property, stated about the TRANSLATED CODE (not about the list-shaped hand model).

  `PaletteProofs/Tie_Rand.lean` proves that the bodies re-translated from palette's current source text (`Gen.BodyRand.*`: `impl_rand_traits_*!` expanded at
  every invocation, cone.rs, the hue samplers) are the model functions of `PaletteModel/Sampling.lean`; `PaletteProofs/C19_Sampling.lean` proves the property's
  clauses about those model functions at ℝ.  Here the two are composed, for one type of each macro (`Rgb`, `Lch`, `Hsv`, `Hsl`, `Hsluv`, `Hwb`), into statements
  that mention only the translated code and the assumption about rand:

      for every generator `rng` whose primitive `Uniform` draws lie in the interval they were asked for (`RandOk rng`: `u.lo ≤ rng.draw u k ≤ u.hi` for every
      `Uniform` `u` and every position `k` - what rand documents for `new` (even `< u.hi`) and `new_inclusive`), every two ends `lo`, `hi`:
      the colour returned by `<ty>Sample (<ty>New lo hi) rng` has every component between the corresponding components of `lo` and `hi`
      (HWB: its equivalent HSV saturation and value between those of the two ends, in either order) and its hue on the arc from `lo`'s hue to `hi`'s.

  The other 14 types go through the same macros; their ties (`Tie.<ty>_uniform`) are of the same form, so the same three lines prove their statements.
  Hypotheses as in C19_Sampling: the radius-like high end is non-negative (a valid colour).  Nothing is assumed about the order of the ends: if an interval
  handed to rand is empty, `RandOk` is unsatisfiable for it (rand panics instead of returning), see the `example` at the end for satisfiability.
-/
import PaletteProofs.C19_Sampling
import PaletteProofs.Tie_Rand

namespace C19
open Sampling Gen.Sampling Prim.Rand

/-- the assumption about rand's `Uniform<T>::sample`: a draw lies in the interval it was constructed with (closed form; `new` even gives `< hi`) -/
def RandOk (rng : Rng ℝ) : Prop := ∀ (u : Uniform ℝ) (k : Nat), u.lo ≤ rng.draw u k ∧ rng.draw u k ≤ u.hi

theorem admissible_drawsAt (rng : Rng ℝ) (h : RandOk rng) (b : Bool) : ∀ (ivs : List (Iv ℝ)) (p : Nat), Admissible ivs (Sampling.drawsAt rng.draw p (ofIvs b ivs))
  | [], _ => trivial
  | iv :: ivs, p => ⟨(h ⟨iv.lo, iv.hi, b⟩ p).1, (h ⟨iv.lo, iv.hi, b⟩ p).2, admissible_drawsAt rng h b ivs (p + 1)⟩

/-- draws made from the `Uniform`s built from the model's intervals are admissible for those intervals -/
theorem admissible_draws (rng : Rng ℝ) (h : RandOk rng) (b : Bool) (ivs : List (Iv ℝ)) : Admissible ivs (Sampling.draws rng (ofIvs b ivs)) :=
  admissible_drawsAt rng h b ivs rng.pos

theorem v3_of_toList {c : V3 ℝ} {x y z : ℝ} (h : c.toList = [x, y, z]) : c.c0 = x ∧ c.c1 = y ∧ c.c2 = z := by
  unfold V3.toList at h
  simp only [List.cons.injEq, and_true] at h
  exact h

/-- **cartesian macro, at `Rgb`** (code of `impl_rand_traits_cartesian!(UniformRgb, Rgb<S> {red, green, blue} ..)`): every component between the ends -/
theorem rgb_code_contained (incl : Bool) (lo hi : V3 ℝ) (rng : Rng ℝ) (hr : RandOk rng) :
    let c := (if incl then Gen.BodyRand.rgbSample (Gen.BodyRand.rgbNewInclusive lo hi) rng else Gen.BodyRand.rgbSample (Gen.BodyRand.rgbNew lo hi) rng).1
    lo.c0 ≤ c.c0 ∧ c.c0 ≤ hi.c0 ∧ lo.c1 ≤ c.c1 ∧ c.c1 ≤ hi.c1 ∧ lo.c2 ≤ c.c2 ∧ c.c2 ≤ hi.c2 := by
  intro c
  have key : ∀ b, Admissible (uniformEnds .Rgb lo.toList hi.toList) (Sampling.draws rng (ofIvs b (uniformEnds .Rgb lo.toList hi.toList))) :=
    fun b => admissible_draws rng hr b _
  have hc : c.toList = Sampling.draws rng (ofIvs incl (uniformEnds .Rgb lo.toList hi.toList)) := by
    cases incl
    · exact congrArg Prod.fst (Tie.rgb_uniform lo hi rng)
    · exact congrArg Prod.fst (Tie.rgb_uniformInclusive lo hi rng)
  obtain ⟨a1, a2, b1, b2, c1, c2, _⟩ := key incl
  obtain ⟨e0, e1, e2⟩ := v3_of_toList hc
  rw [e0, e1, e2]
  exact ⟨a1, a2, b1, b2, c1, c2⟩

/-- **cylinder macro, at `Lch`** (`{l, chroma, hue}`): lightness and chroma between the ends, hue on the arc -/
theorem lch_code_contained (lo hi : V3 ℝ) (rng : Rng ℝ) (hr : RandOk rng) (hc1 : 0 ≤ hi.c1) :
    let c := (Gen.BodyRand.lchSample (Gen.BodyRand.lchNew lo hi) rng).1
    lo.c0 ≤ c.c0 ∧ c.c0 ≤ hi.c0 ∧ lo.c1 ≤ c.c1 ∧ c.c1 ≤ hi.c1 ∧ OnArc lo.c2 ((hueEnds lo.c2 hi.c2).hi - (hueEnds lo.c2 hi.c2).lo) c.c2 := by
  intro c
  have hc : c.toList = _ := congrArg Prod.fst (Tie.lch_uniform lo hi rng)
  obtain ⟨h, r, hue, e, p1, p2, p3, p4, p5⟩ :=
    cylinder_contained .Lch rfl lo.c0 lo.c1 lo.c2 hi.c0 hi.c1 hi.c2 _ _ _ hc1 (admissible_draws rng hr false (uniformEnds .Lch lo.toList hi.toList))
  obtain ⟨e0, e1, e2⟩ := v3_of_toList (hc.trans e)
  rw [e0, e1, e2]; exact ⟨p1, p2, p3, p4, p5⟩

/-- **HSV cone macro, at `Hsv`** (`{hue, saturation, value}`) -/
theorem hsv_code_contained (lo hi : V3 ℝ) (rng : Rng ℝ) (hr : RandOk rng) (hs : 0 ≤ hi.c1) :
    let c := (Gen.BodyRand.hsvSample (Gen.BodyRand.hsvNew lo hi) rng).1
    lo.c1 ≤ c.c1 ∧ c.c1 ≤ hi.c1 ∧ lo.c2 ≤ c.c2 ∧ c.c2 ≤ hi.c2 ∧ OnArc lo.c0 ((hueEnds lo.c0 hi.c0).hi - (hueEnds lo.c0 hi.c0).lo) c.c0 := by
  intro c
  have hc : c.toList = _ := congrArg Prod.fst (Tie.hsv_uniform lo hi rng)
  obtain ⟨hue, s, v, e, p1, p2, p3, p4, p5⟩ :=
    hsv_contained .Hsv rfl lo.c0 lo.c1 lo.c2 hi.c0 hi.c1 hi.c2 _ _ _ hs (admissible_draws rng hr false (uniformEnds .Hsv lo.toList hi.toList))
  obtain ⟨e0, e1, e2⟩ := v3_of_toList (hc.trans e)
  rw [e0, e1, e2]; exact ⟨p1, p2, p3, p4, p5⟩

/-- **HSL bicone macro, at `Hsl`** (`{hue, saturation, lightness}`), inclusive constructor -/
theorem hsl_code_contained (lo hi : V3 ℝ) (rng : Rng ℝ) (hr : RandOk rng) (hs : 0 ≤ hi.c1) :
    let c := (Gen.BodyRand.hslSample (Gen.BodyRand.hslNewInclusive lo hi) rng).1
    lo.c1 ≤ c.c1 ∧ c.c1 ≤ hi.c1 ∧ lo.c2 ≤ c.c2 ∧ c.c2 ≤ hi.c2 ∧ OnArc lo.c0 ((hueEnds lo.c0 hi.c0).hi - (hueEnds lo.c0 hi.c0).lo) c.c0 := by
  intro c
  have hc : c.toList = _ := congrArg Prod.fst (Tie.hsl_uniformInclusive lo hi rng)
  obtain ⟨hue, s, l, e, p1, p2, p3, p4, p5⟩ :=
    hsl_contained .Hsl (Or.inl rfl) lo.c0 lo.c1 lo.c2 hi.c0 hi.c1 hi.c2 _ _ _ hs (admissible_draws rng hr true (uniformEnds .Hsl lo.toList hi.toList))
  obtain ⟨e0, e1, e2⟩ := v3_of_toList (hc.trans e)
  rw [e0, e1, e2]; exact ⟨p1, p2, p3, p4, p5⟩

/-- **HSL bicone macro with component maps, at `Hsluv`** (`{hue, saturation, l}`, both on the 0..100 scale) -/
theorem hsluv_code_contained (lo hi : V3 ℝ) (rng : Rng ℝ) (hr : RandOk rng) (hs : 0 ≤ hi.c1) :
    let c := (Gen.BodyRand.hsluvSample (Gen.BodyRand.hsluvNew lo hi) rng).1
    lo.c1 ≤ c.c1 ∧ c.c1 ≤ hi.c1 ∧ lo.c2 ≤ c.c2 ∧ c.c2 ≤ hi.c2 ∧ OnArc lo.c0 ((hueEnds lo.c0 hi.c0).hi - (hueEnds lo.c0 hi.c0).lo) c.c0 := by
  intro c
  have hc : c.toList = _ := congrArg Prod.fst (Tie.hsluv_uniform lo hi rng)
  obtain ⟨hue, s, l, e, p1, p2, p3, p4, p5⟩ :=
    hsluv_contained lo.c0 lo.c1 lo.c2 hi.c0 hi.c1 hi.c2 _ _ _ hs (admissible_draws rng hr false (uniformEnds .Hsluv lo.toList hi.toList))
  obtain ⟨e0, e1, e2⟩ := v3_of_toList (hc.trans e)
  rw [e0, e1, e2]; exact ⟨p1, p2, p3, p4, p5⟩

/-- **HWB macro, at `Hwb`** (`{hue, whiteness, blackness}`): the returned colour is the HWB form of an HSV colour whose saturation and value lie between those
    of the two ends' equivalent HSV colours (in either order) and whose hue is on the arc; it converts back to exactly that HSV colour when its value is not 0.
    Uses the tie at ℝ (`min_max` of num.rs = `(min, max)` in a linear order). -/
theorem hwb_code_contained (lo hi : V3 ℝ) (rng : Rng ℝ) (hr : RandOk rng)
    (hs : 0 ≤ (hwbToHsv lo.c1 lo.c2).1 ∨ 0 ≤ (hwbToHsv hi.c1 hi.c2).1) :
    let c := (Gen.BodyRand.hwbSample (Gen.BodyRand.hwbNew lo hi) rng).1
    ∃ s v, c.c1 = (hsvToHwb s v).1 ∧ c.c2 = (hsvToHwb s v).2 ∧ (v ≠ 0 → hwbToHsv c.c1 c.c2 = (s, v)) ∧
      min (hwbToHsv lo.c1 lo.c2).1 (hwbToHsv hi.c1 hi.c2).1 ≤ s ∧ s ≤ max (hwbToHsv lo.c1 lo.c2).1 (hwbToHsv hi.c1 hi.c2).1 ∧
      min (hwbToHsv lo.c1 lo.c2).2 (hwbToHsv hi.c1 hi.c2).2 ≤ v ∧ v ≤ max (hwbToHsv lo.c1 lo.c2).2 (hwbToHsv hi.c1 hi.c2).2 ∧
      OnArc lo.c0 ((hueEnds lo.c0 hi.c0).hi - (hueEnds lo.c0 hi.c0).lo) c.c0 := by
  intro c
  have hc : c.toList = _ := congrArg Prod.fst (Tie.hwb_uniform_real lo hi rng)
  obtain ⟨hue, s, v, _, e, p0, p1, p2, p3, p4, p5⟩ :=
    hwb_contained .Hwb rfl lo.c0 lo.c1 lo.c2 hi.c0 hi.c1 hi.c2 _ _ _ hs (admissible_draws rng hr false (uniformEnds .Hwb lo.toList hi.toList))
  obtain ⟨e0, e1, e2⟩ := v3_of_toList (hc.trans e)
  refine ⟨s, v, e1, e2, ?_, p1, p2, p3, p4, ?_⟩
  · rw [e1, e2]; exact p0
  · rw [e0]; exact p5

/-- `Standard`, at `Hsv` (code of `impl_rand_traits_hsv_cone!`): for every generator whose `gen::<T>()` values are in `[0, 1)`, the colour drawn is within the
    bounds table regenerated from `impl_is_within_bounds!` -/
theorem hsv_code_standard_within (rng : Rng ℝ) (hg : ∀ k, 0 ≤ rng.gen k ∧ rng.gen k < 1) :
    let c := (Gen.BodyRand.hsvStandard rng).1
    0 ≤ c.c1 ∧ c.c1 ≤ 1 ∧ 0 ≤ c.c2 ∧ c.c2 ≤ 1 ∧ 0 ≤ c.c0 ∧ c.c0 < 360 := by
  intro c
  have e : c = ⟨hueStandard (rng.gen rng.pos), Scalar.sqrt (rng.gen (rng.pos + 1 + 1)), Scalar.cbrt (rng.gen (rng.pos + 1))⟩ := rfl
  have h1 := unit_cbrt (hg (rng.pos + 1)).1 (hg (rng.pos + 1)).2
  have h2 := unit_sqrt (hg (rng.pos + 1 + 1)).2
  have h3 := standard_hue (hg rng.pos).1 (hg rng.pos).2
  rw [e]
  exact ⟨h2.1, h2.2.le, h1.1, h1.2.le, h3.1, h3.2⟩

/-- the assumption about rand is satisfiable together with non-trivial ends: a generator that returns the low end of every interval, on the HSV range
    10°..20°, s 0..1, v 0..1 (every interval handed to rand is non-empty there) -/
example : ∃ rng : Rng ℝ, (∀ u ∈ Tie.orderHsv (Gen.BodyRand.hsvNew ⟨10, 0, 0⟩ ⟨20, 1, 1⟩), ∀ k, u.lo ≤ rng.draw u k ∧ rng.draw u k ≤ u.hi) ∧
    (0:ℝ) ≤ (⟨20, 1, 1⟩ : V3 ℝ).c1 := by
  refine ⟨⟨fun _ => 0, fun u _ => u.lo, 0⟩, ?_, by norm_num⟩
  intro u hu k
  have hl : Tie.orderHsv (Gen.BodyRand.hsvNew (⟨10, 0, 0⟩ : V3 ℝ) ⟨20, 1, 1⟩) = ofIvs false [hueEnds 10 20, ⟨powi3 0, powi3 1⟩, ⟨powi2 0, powi2 1⟩] := rfl
  rw [hl] at hu
  simp only [ofIvs, List.map, List.mem_cons, List.not_mem_nil, or_false] at hu
  refine ⟨le_refl _, ?_⟩
  rcases hu with rfl | rfl | rfl
  · show (hueEnds (10:ℝ) 20).lo ≤ (hueEnds (10:ℝ) 20).hi
    rw [hueEnds_10_20.1, hueEnds_10_20.2]; norm_num
  · show powi3 (0:ℝ) ≤ powi3 1
    simp only [powi3]; norm_num
  · show powi2 (0:ℝ) ≤ powi2 1
    simp only [powi2]; norm_num

end C19
