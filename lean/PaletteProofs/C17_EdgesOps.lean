/-
  C17 — colour operators and blending on SIMD colours: each lane equals the scalar operation on that lane's colour(s), per-lane
  factors / alphas included (lanes with factors of different sign, valid and invalid alpha divisors, different blend branches).

  A SIMD colour is the list of its SIMD components (`List (Lanes n α)`, the cast array); `laneL l i` is colour `i`.
  * `*_lanesV` — for every interpretation of the interface and every lane-wise `clamp` (`hcl`): lane `i` of the operator on SIMD
    colours is the operator on lane `i`.  Induction over the component list; the per-component kernels (`incDelta`, `unpremulC`,
    the eleven blend modes, …) are instances of the lifting lemma (`C17_Edges`) or `rfl`.
  * `*_lanes` — at `[Scalar α]`, with the `wide` clamp `min` then `max` (`Simd.clampMinMax`, num/wide.rs): lane `i` = the **hand
    model's** operator (`Ops.lean`, `Blend.lean`, which use `f32::clamp`), under the hypothesis that the two clamps agree on the
    clamps the operator performs: to `[0, 1]` for `mix`, blending and compositing, to the bounds listed in the specification for
    `lighten`/`saturate`.  `C17_MaskPairs` proves the hypothesis at ℝ whenever `lo ≤ hi`; for IEEE floats the two clamps differ
    exactly on NaN (`f32::clamp` propagates it, `min`/`max` drop it: kernel-checked witness there) — outside the property's domain —
    and possibly in the sign of a zero result.  Operators that do not clamp (`shift_hue`, arithmetic, `premultiply`,
    `unpremultiply`, `Lighten for Hwb`) need no hypothesis.
-/
import PaletteProofs.C17_Edges

namespace C17
open Simd

/-- lane `i` of an `increase` / `other` specification (the bounds are `splat` constants in palette, any SIMD value here) -/
def incLane {n : Nat} {α : Type} (s : Ops.Inc (Lanes n α)) (i : Fin n) : Ops.Inc α :=
  match s with
  | .increase lo hi => .increase (lo i) (hi i)
  | .other => .other

def hwbLimLane {n : Nat} {α : Type} (l : Ops.HwbLim (Lanes n α)) (i : Fin n) : Ops.HwbLim α := ⟨l.minW i, l.maxW i, l.minB i, l.maxB i⟩

def biLane {n : Nat} {α : Type} (b : SimdOps.BlendInput (Lanes n α)) (i : Fin n) : SimdOps.BlendInput α :=
  ⟨laneL b.color i, laneL b.colorPre i, b.alpha i⟩

/-- colour with alpha: lane `i` -/
def waLane {n : Nat} {α : Type} (p : List (Lanes n α) × Lanes n α) (i : Fin n) : List α × α := (laneL p.1 i, p.2 i)

section anyV
variable {α μ : Type} [VScalar α μ] {n : Nat}

/-! ### component-wise colour arithmetic (`impl_color_add!` …) -/
theorem addC_lanesV (a b : List (Lanes n α)) (i : Fin n) : laneL (SimdOps.addC a b) i = SimdOps.addC (laneL a i) (laneL b i) := by
  induction a generalizing b with
  | nil => rfl
  | cons x xs ih => cases b with
    | nil => rfl
    | cons y ys => show (x i + y i) :: laneL (SimdOps.addC xs ys) i = _; rw [ih]; rfl
theorem subC_lanesV (a b : List (Lanes n α)) (i : Fin n) : laneL (SimdOps.subC a b) i = SimdOps.subC (laneL a i) (laneL b i) := by
  induction a generalizing b with
  | nil => rfl
  | cons x xs ih => cases b with
    | nil => rfl
    | cons y ys => show (x i - y i) :: laneL (SimdOps.subC xs ys) i = _; rw [ih]; rfl
theorem mulC_lanesV (a b : List (Lanes n α)) (i : Fin n) : laneL (SimdOps.mulC a b) i = SimdOps.mulC (laneL a i) (laneL b i) := by
  induction a generalizing b with
  | nil => rfl
  | cons x xs ih => cases b with
    | nil => rfl
    | cons y ys => show (x i * y i) :: laneL (SimdOps.mulC xs ys) i = _; rw [ih]; rfl
theorem divC_lanesV (a b : List (Lanes n α)) (i : Fin n) : laneL (SimdOps.divC a b) i = SimdOps.divC (laneL a i) (laneL b i) := by
  induction a generalizing b with
  | nil => rfl
  | cons x xs ih => cases b with
    | nil => rfl
    | cons y ys => show (x i / y i) :: laneL (SimdOps.divC xs ys) i = _; rw [ih]; rfl

omit [VScalar α μ] in
theorem map_lanesV (f : Lanes n α → Lanes n α) (g : α → α) (h : ∀ x, f x i = g (x i)) (a : List (Lanes n α)) :
    laneL (a.map f) i = (laneL a i).map g := by
  induction a with
  | nil => rfl
  | cons x xs ih => show f x i :: laneL (xs.map f) i = g (x i) :: (laneL xs i).map g; rw [ih, h]

theorem addS_lanesV (a : List (Lanes n α)) (c : Lanes n α) (i : Fin n) : laneL (SimdOps.addS a c) i = SimdOps.addS (laneL a i) (c i) :=
  map_lanesV _ _ (fun _ => rfl) a
theorem subS_lanesV (a : List (Lanes n α)) (c : Lanes n α) (i : Fin n) : laneL (SimdOps.subS a c) i = SimdOps.subS (laneL a i) (c i) :=
  map_lanesV _ _ (fun _ => rfl) a
theorem mulS_lanesV (a : List (Lanes n α)) (c : Lanes n α) (i : Fin n) : laneL (SimdOps.mulS a c) i = SimdOps.mulS (laneL a i) (c i) :=
  map_lanesV _ _ (fun _ => rfl) a
theorem divS_lanesV (a : List (Lanes n α)) (c : Lanes n α) (i : Fin n) : laneL (SimdOps.divS a c) i = SimdOps.divS (laneL a i) (c i) :=
  map_lanesV _ _ (fun _ => rfl) a

/-! ### `Mix` -/
variable (clW : Lanes n α → Lanes n α → Lanes n α → Lanes n α) (clV : α → α → α → α)

/-- **`Mix::mix` on SIMD colours with a per-lane factor** -/
theorem mixLin_lanesV (hcl : ∀ v lo hi i, clW v lo hi i = clV (v i) (lo i) (hi i)) (a b : List (Lanes n α)) (f : Lanes n α) (i : Fin n) :
    laneL (SimdOps.mixLin clW a b f) i = SimdOps.mixLin clV (laneL a i) (laneL b i) (f i) := by
  unfold SimdOps.mixLin
  rw [addC_lanesV, mulS_lanesV, subC_lanesV, hcl]; rfl

theorem diffC_lanesV (r : Ops.Role) (a b : Lanes n α) (i : Fin n) : (SimdOps.diffC r a b) i = SimdOps.diffC r (a i) (b i) := by
  cases r <;> rfl
theorem diffs_lanesV (r : List Ops.Role) (a b : List (Lanes n α)) (i : Fin n) :
    laneL (SimdOps.diffs r a b) i = SimdOps.diffs r (laneL a i) (laneL b i) := by
  induction r generalizing a b with
  | nil => cases a <;> cases b <;> rfl
  | cons r rs ih => cases a with
    | nil => rfl
    | cons x xs => cases b with
      | nil => rfl
      | cons y ys =>
        show (SimdOps.diffC r x y) i :: laneL (SimdOps.diffs rs xs ys) i = _
        rw [ih, diffC_lanesV]; rfl

omit [VScalar α μ] in
theorem zipWith_lanesV (f : Lanes n α → Lanes n α → Lanes n α) (g : α → α → α) (h : ∀ x y, f x y i = g (x i) (y i))
    (a b : List (Lanes n α)) : laneL (List.zipWith f a b) i = List.zipWith g (laneL a i) (laneL b i) := by
  induction a generalizing b with
  | nil => rfl
  | cons x xs ih => cases b with
    | nil => rfl
    | cons y ys => show f x y i :: laneL (List.zipWith f xs ys) i = g (x i) (y i) :: List.zipWith g (laneL xs i) (laneL ys i); rw [ih, h]

/-- **`Mix::mix` for the hue types** (the hue difference goes through `normalize_signed_angle` lane by lane) -/
theorem mixHue_lanesV (hcl : ∀ v lo hi i, clW v lo hi i = clV (v i) (lo i) (hi i)) (r : List Ops.Role) (a b : List (Lanes n α))
    (f : Lanes n α) (i : Fin n) :
    laneL (SimdOps.mixHue clW r a b f) i = SimdOps.mixHue clV r (laneL a i) (laneL b i) (f i) := by
  unfold SimdOps.mixHue
  show laneL (List.zipWith (fun x dx => x + dx * clW f SimdOps.zero SimdOps.one) a (SimdOps.diffs r a b)) i = _
  rw [zipWith_lanesV (i := i) _ (fun x dx => x + dx * clV (f i) SimdOps.zero SimdOps.one) (fun x y => by
    show x i + y i * clW f SimdOps.zero SimdOps.one i = _; rw [hcl]; rfl), diffs_lanesV]

/-! ### `Lighten` / `Darken` / `Saturate` / `Desaturate` -/

/-- the per-component kernel: lanes with factors of different sign take different sides of the `lazy_select!` -/
theorem incDelta_lanesV (hi c f : Lanes n α) (i : Fin n) : (SimdOps.incDelta hi c f) i = SimdOps.incDelta (hi i) (c i) (f i) := rfl

theorem incDeltas_lanesV (s : List (Ops.Inc (Lanes n α))) (c : List (Lanes n α)) (f : Lanes n α) (i : Fin n) :
    laneL (SimdOps.incDeltas s c f) i = SimdOps.incDeltas (s.map (incLane · i)) (laneL c i) (f i) := by
  induction s generalizing c with
  | nil => cases c <;> rfl
  | cons s ss ih => cases c with
    | nil => cases s <;> rfl
    | cons x xs => cases s with
      | increase lo hi => show (SimdOps.incDelta hi x f) i :: laneL (SimdOps.incDeltas ss xs f) i = _; rw [ih]; rfl
      | other => show x i :: laneL (SimdOps.incDeltas ss xs f) i = _; rw [ih]; rfl

theorem incBuild_lanesV (hcl : ∀ v lo hi i, clW v lo hi i = clV (v i) (lo i) (hi i)) (s : List (Ops.Inc (Lanes n α)))
    (c d : List (Lanes n α)) (i : Fin n) :
    laneL (SimdOps.incBuild clW s c d) i = SimdOps.incBuild clV (s.map (incLane · i)) (laneL c i) (laneL d i) := by
  induction s generalizing c d with
  | nil => cases c <;> cases d <;> rfl
  | cons s ss ih => cases c with
    | nil => cases s <;> cases d <;> rfl
    | cons x xs => cases d with
      | nil => cases s <;> rfl
      | cons y ys => cases s with
        | increase lo hi =>
          show clW (x + y) lo hi i :: laneL (SimdOps.incBuild clW ss xs ys) i = _
          rw [ih, hcl]; rfl
        | other => show x i :: laneL (SimdOps.incBuild clW ss xs ys) i = _; rw [ih]; rfl

/-- **`Lighten::lighten` / `Saturate::saturate` with a per-lane factor** -/
theorem incValue_lanesV (hcl : ∀ v lo hi i, clW v lo hi i = clV (v i) (lo i) (hi i)) (s : List (Ops.Inc (Lanes n α)))
    (c : List (Lanes n α)) (f : Lanes n α) (i : Fin n) :
    laneL (SimdOps.incValue clW s c f) i = SimdOps.incValue clV (s.map (incLane · i)) (laneL c i) (f i) := by
  unfold SimdOps.incValue; rw [incBuild_lanesV clW clV hcl, incDeltas_lanesV]
/-- **`Darken::darken` / `Desaturate::desaturate`** -/
theorem decValue_lanesV (hcl : ∀ v lo hi i, clW v lo hi i = clV (v i) (lo i) (hi i)) (s : List (Ops.Inc (Lanes n α)))
    (c : List (Lanes n α)) (f : Lanes n α) (i : Fin n) :
    laneL (SimdOps.decValue clW s c f) i = SimdOps.decValue clV (s.map (incLane · i)) (laneL c i) (f i) := by
  unfold SimdOps.decValue; rw [incValue_lanesV clW clV hcl]; rfl
/-- `lighten_fixed` on one component -/
theorem incFixedC_lanesV (hcl : ∀ v lo hi i, clW v lo hi i = clV (v i) (lo i) (hi i)) (lo hi x a : Lanes n α) (i : Fin n) :
    (SimdOps.incFixedC clW lo hi x a) i = SimdOps.incFixedC clV (lo i) (hi i) (x i) (a i) := by
  unfold SimdOps.incFixedC; rw [hcl]; rfl
/-- `Lighten for Hwb` -/
theorem hwbLighten_lanesV (l : Ops.HwbLim (Lanes n α)) (w b f : Lanes n α) (i : Fin n) :
    ((SimdOps.hwbLighten l w b f).1 i, (SimdOps.hwbLighten l w b f).2 i) = SimdOps.hwbLighten (hwbLimLane l i) (w i) (b i) (f i) := rfl

omit [VScalar α μ] in
theorem modify_lanesV (f : Lanes n α → Lanes n α) (g : α → α) (hfg : ∀ x, f x i = g (x i)) (c : List (Lanes n α)) (h : Nat) :
    laneL (c.modify h f) i = (laneL c i).modify h g := by
  induction c generalizing h with
  | nil => cases h <;> rfl
  | cons x xs ih => cases h with
    | zero => show f x i :: laneL xs i = g (x i) :: laneL xs i; rw [hfg]
    | succ h => show x i :: laneL (xs.modify h f) i = x i :: (laneL xs i).modify h g; rw [ih]
/-- `ShiftHue::shift_hue` with a per-lane amount -/
theorem shiftHue_lanesV (h : Nat) (c : List (Lanes n α)) (a : Lanes n α) (i : Fin n) :
    laneL (SimdOps.shiftHue h c a) i = SimdOps.shiftHue h (laneL c i) (a i) :=
  modify_lanesV _ _ (fun _ => rfl) c h

/-! ### blending -/

/-- the per-mode function: an instance of the lifting lemma for each of the eleven modes -/
theorem modeFn_lanesV (m : Blend.Mode) (s d : Lanes n α) (i : Fin n) : (SimdOps.modeFn m s d) i = SimdOps.modeFn m (s i) (d i) := by
  have A : Angle α := ⟨0.0, id, id, fun a _ => a⟩
  have F : VFused α := ⟨fun x m a => x * m + a, fun x m s => x * m - s⟩
  cases m
  · exact multiplyBlend_reified.lanes s d i
  · exact screenBlend_reified.lanes s d i
  · exact overlayBlend_reified.lanes s d i
  · exact darkenBlend_reified.lanes s d i
  · exact lightenBlend_reified.lanes s d i
  · exact dodgeBlend_reified.lanes s d i
  · exact burnBlend_reified.lanes s d i
  · exact hardLightBlend_reified.lanes s d i
  · exact softLightBlend_reified.lanes s d i
  · exact differenceBlend_reified.lanes s d i
  · exact exclusionBlend_reified.lanes s d i

theorem premultiply_lanesV (c : List (Lanes n α)) (a : Lanes n α) (i : Fin n) :
    waLane (SimdOps.premultiply c a) i = SimdOps.premultiply (laneL c i) (a i) := by
  show (laneL (c.map fun x => x * a) i, a i) = ((laneL c i).map (fun x => x * a i), a i)
  rw [map_lanesV (i := i) (fun x => x * a) (fun x => x * a i) (fun _ => rfl)]
/-- **`unpremultiply` with per-lane alphas**: lanes with a valid divisor divide, the others get 0 — the mask is per lane -/
theorem unpremultiply_lanesV (p : List (Lanes n α) × Lanes n α) (i : Fin n) :
    waLane (SimdOps.unpremultiply p) i = SimdOps.unpremultiply (waLane p i) := by
  show (laneL (p.1.map (SimdOps.unpremulC (VScalar.isValidDivisor p.2) p.2)) i, p.2 i) = _
  rw [map_lanesV (i := i) _ (SimdOps.unpremulC (VScalar.isValidDivisor (p.2 i)) (p.2 i)) (fun _ => rfl)]; rfl

theorem blendList_lanesV (fW : Lanes n α → Lanes n α → Lanes n α) (fV : α → α → α) (hf : ∀ s d i, fW s d i = fV (s i) (d i))
    (sa da : Lanes n α) (a b c d : List (Lanes n α)) (i : Fin n) :
    laneL (SimdOps.blendList fW sa da a b c d) i = SimdOps.blendList fV (sa i) (da i) (laneL a i) (laneL b i) (laneL c i) (laneL d i) := by
  induction a generalizing b c d with
  | nil => rfl
  | cons x xs ih => cases b with
    | nil => rfl
    | cons y ys => cases c with
      | nil => rfl
      | cons z zs => cases d with
        | nil => rfl
        | cons w ws =>
          show (SimdOps.blendComp fW sa da x y z w) i :: laneL (SimdOps.blendList fW sa da xs ys zs ws) i = _
          rw [ih]
          show (y i * (1.0 - da i) + fW x z i * sa i * da i + (1.0 - sa i) * w i) :: _ = _
          rw [hf]; rfl

theorem blendSeparable_lanesV (hcl : ∀ v lo hi i, clW v lo hi i = clV (v i) (lo i) (hi i))
    (fW : Lanes n α → Lanes n α → Lanes n α) (fV : α → α → α) (hf : ∀ s d i, fW s d i = fV (s i) (d i))
    (s d : SimdOps.BlendInput (Lanes n α)) (i : Fin n) :
    waLane (SimdOps.blendSeparable clW fW s d) i = SimdOps.blendSeparable clV fV (biLane s i) (biLane d i) := by
  show (laneL (SimdOps.blendList fW s.alpha d.alpha s.color s.colorPre d.color d.colorPre) i, clW _ _ _ i) = _
  rw [blendList_lanesV fW fV hf, hcl]; rfl

theorem ofPre_lanesV (p : List (Lanes n α) × Lanes n α) (i : Fin n) :
    biLane (SimdOps.BlendInput.ofPre p) i = SimdOps.BlendInput.ofPre (waLane p i) := by
  have h := unpremultiply_lanesV p i
  show (⟨laneL (SimdOps.unpremultiply p).1 i, laneL p.1 i, (SimdOps.unpremultiply p).2 i⟩ : SimdOps.BlendInput α) = _
  have h1 : laneL (SimdOps.unpremultiply p).1 i = (SimdOps.unpremultiply (waLane p i)).1 := congrArg Prod.fst h
  have h2 : (SimdOps.unpremultiply p).2 i = (SimdOps.unpremultiply (waLane p i)).2 := congrArg Prod.snd h
  rw [h1, h2]; rfl
theorem ofAlpha_lanesV (p : List (Lanes n α) × Lanes n α) (i : Fin n) :
    biLane (SimdOps.BlendInput.ofAlpha p) i = SimdOps.BlendInput.ofAlpha (waLane p i) := by
  have h := premultiply_lanesV p.1 p.2 i
  show (⟨laneL p.1 i, laneL (SimdOps.premultiply p.1 p.2).1 i, (SimdOps.premultiply p.1 p.2).2 i⟩ : SimdOps.BlendInput α) = _
  have h1 : laneL (SimdOps.premultiply p.1 p.2).1 i = (SimdOps.premultiply (laneL p.1 i) (p.2 i)).1 := congrArg Prod.fst h
  rw [h1]; rfl
theorem newOpaque_lanesV (c : List (Lanes n α)) (i : Fin n) :
    biLane (SimdOps.BlendInput.newOpaque c) i = SimdOps.BlendInput.newOpaque (laneL c i) := rfl

/-- **`Blend for PreAlpha<C>`**: every mode, per-lane alphas -/
theorem blendPre_lanesV (hcl : ∀ v lo hi i, clW v lo hi i = clV (v i) (lo i) (hi i)) (m : Blend.Mode)
    (s d : List (Lanes n α) × Lanes n α) (i : Fin n) :
    waLane (SimdOps.blendPre clW (SimdOps.modeFn m) s d) i = SimdOps.blendPre clV (SimdOps.modeFn m) (waLane s i) (waLane d i) := by
  unfold SimdOps.blendPre
  rw [blendSeparable_lanesV clW clV hcl _ _ (modeFn_lanesV m), ofPre_lanesV, ofPre_lanesV]
/-- **`Blend for Alpha<C, T>`** -/
theorem blendStraight_lanesV (hcl : ∀ v lo hi i, clW v lo hi i = clV (v i) (lo i) (hi i)) (m : Blend.Mode)
    (s d : List (Lanes n α) × Lanes n α) (i : Fin n) :
    waLane (SimdOps.blendStraight clW (SimdOps.modeFn m) s d) i = SimdOps.blendStraight clV (SimdOps.modeFn m) (waLane s i) (waLane d i) := by
  unfold SimdOps.blendStraight
  rw [unpremultiply_lanesV, blendSeparable_lanesV clW clV hcl _ _ (modeFn_lanesV m), ofAlpha_lanesV, ofAlpha_lanesV]
/-- **`Blend for C`** (opaque colours) -/
theorem blendOpaque_lanesV (hcl : ∀ v lo hi i, clW v lo hi i = clV (v i) (lo i) (hi i)) (m : Blend.Mode)
    (s d : List (Lanes n α)) (i : Fin n) :
    laneL (SimdOps.blendOpaque clW (SimdOps.modeFn m) s d) i = SimdOps.blendOpaque clV (SimdOps.modeFn m) (laneL s i) (laneL d i) := by
  unfold SimdOps.blendOpaque
  have h := unpremultiply_lanesV (SimdOps.blendSeparable clW (SimdOps.modeFn m) (SimdOps.BlendInput.newOpaque s) (SimdOps.BlendInput.newOpaque d)) i
  rw [blendSeparable_lanesV clW clV hcl _ _ (modeFn_lanesV m), newOpaque_lanesV, newOpaque_lanesV] at h
  exact congrArg Prod.fst h

/-! ### compositing -/
theorem opComp_lanesV (op : Blend.Op) (sa da s d : Lanes n α) (i : Fin n) :
    (SimdOps.opComp op sa da s d) i = SimdOps.opComp op (sa i) (da i) (s i) (d i) := by
  cases op <;> rfl
theorem opAlpha_lanesV (hcl : ∀ v lo hi i, clW v lo hi i = clV (v i) (lo i) (hi i)) (op : Blend.Op) (s d : Lanes n α) (i : Fin n) :
    (SimdOps.opAlpha clW op s d) i = SimdOps.opAlpha clV op (s i) (d i) := by
  cases op <;> (simp only [SimdOps.opAlpha, SimdOps.blendAlpha]; rw [hcl]; rfl)
theorem composeList_lanesV (op : Blend.Op) (sa da : Lanes n α) (a b : List (Lanes n α)) (i : Fin n) :
    laneL (SimdOps.composeList op sa da a b) i = SimdOps.composeList op (sa i) (da i) (laneL a i) (laneL b i) := by
  induction a generalizing b with
  | nil => rfl
  | cons x xs ih => cases b with
    | nil => rfl
    | cons y ys =>
      show (SimdOps.opComp op sa da x y) i :: laneL (SimdOps.composeList op sa da xs ys) i = _
      rw [ih, opComp_lanesV]; rfl
/-- **`Compose for PreAlpha<C>`**: the six Porter–Duff operators -/
theorem composePre_lanesV (hcl : ∀ v lo hi i, clW v lo hi i = clV (v i) (lo i) (hi i)) (op : Blend.Op)
    (s d : List (Lanes n α) × Lanes n α) (i : Fin n) :
    waLane (SimdOps.composePre clW op s d) i = SimdOps.composePre clV op (waLane s i) (waLane d i) := by
  show (laneL (SimdOps.composeList op s.2 d.2 s.1 d.1) i, (SimdOps.opAlpha clW op s.2 d.2) i) = _
  rw [composeList_lanesV, opAlpha_lanesV clW clV hcl]; rfl
/-- **`Compose for Alpha<C, T>`** -/
theorem composeStraight_lanesV (hcl : ∀ v lo hi i, clW v lo hi i = clV (v i) (lo i) (hi i)) (op : Blend.Op)
    (s d : List (Lanes n α) × Lanes n α) (i : Fin n) :
    waLane (SimdOps.composeStraight clW op s d) i = SimdOps.composeStraight clV op (waLane s i) (waLane d i) := by
  unfold SimdOps.composeStraight
  rw [unpremultiply_lanesV, composePre_lanesV clW clV hcl, premultiply_lanesV, premultiply_lanesV]; rfl
/-- **`Compose for C`** -/
theorem composeOpaque_lanesV (hcl : ∀ v lo hi i, clW v lo hi i = clV (v i) (lo i) (hi i)) (op : Blend.Op)
    (s d : List (Lanes n α)) (i : Fin n) :
    laneL (SimdOps.composeOpaque clW op s d) i = SimdOps.composeOpaque clV op (laneL s i) (laneL d i) := by
  unfold SimdOps.composeOpaque
  have h := unpremultiply_lanesV (SimdOps.composePre clW op (SimdOps.newOpaque s) (SimdOps.newOpaque d)) i
  rw [composePre_lanesV clW clV hcl] at h
  exact congrArg Prod.fst h

end anyV

/-! ## each lane = the hand model's operator -/

section model
variable {α : Type} [Scalar α] {n : Nat}

/-- **`Mix::mix`**: SIMD with the `wide` clamp, lane `i` = `Ops.mixLin` on colour `i` with factor `i` -/
theorem mixLin_lanes (h01 : ∀ v : α, clampMinMax v Ops.zero Ops.one = Scalar.clamp v Ops.zero Ops.one)
    (a b : List (Lanes n α)) (f : Lanes n α) (i : Fin n) :
    laneL (SimdOps.mixLin clampMinMax a b f) i = Ops.mixLin (laneL a i) (laneL b i) (f i) := by
  rw [mixLin_lanesV clampMinMax clampMinMax (fun _ _ _ _ => rfl), ← TieV.model_mixLin]
  unfold SimdOps.mixLin
  show SimdOps.addC _ (SimdOps.mulS _ (clampMinMax (f i) Ops.zero Ops.one)) = _
  rw [h01]; rfl
/-- **`Mix::mix` for the hue types** -/
theorem mixHue_lanes (h01 : ∀ v : α, clampMinMax v Ops.zero Ops.one = Scalar.clamp v Ops.zero Ops.one)
    (r : List Ops.Role) (a b : List (Lanes n α)) (f : Lanes n α) (i : Fin n) :
    laneL (SimdOps.mixHue clampMinMax r a b f) i = Ops.mixHue r (laneL a i) (laneL b i) (f i) := by
  rw [mixHue_lanesV clampMinMax clampMinMax (fun _ _ _ _ => rfl), ← TieV.model_mixHue]
  unfold SimdOps.mixHue
  show List.zipWith (fun x dx => x + dx * clampMinMax (f i) Ops.zero Ops.one) _ _ = _
  rw [h01]; rfl

/-- `incBuild` only clamps to the bounds listed in the specification -/
theorem incBuild_clamp (s : List (Ops.Inc α))
    (hb : ∀ v lo hi : α, Ops.Inc.increase lo hi ∈ s → clampMinMax v lo hi = Scalar.clamp v lo hi) (c d : List α) :
    SimdOps.incBuild (μ := Bool) clampMinMax s c d = SimdOps.incBuild (μ := Bool) Scalar.clamp s c d := by
  induction s generalizing c d with
  | nil => cases c <;> cases d <;> rfl
  | cons s ss ih =>
    have ih' := ih (fun v lo hi hm => hb v lo hi (List.mem_cons_of_mem _ hm))
    cases c with
    | nil => cases s <;> cases d <;> rfl
    | cons x xs => cases d with
      | nil => cases s <;> rfl
      | cons y ys => cases s with
        | increase lo hi =>
          show clampMinMax (x + y) lo hi :: SimdOps.incBuild clampMinMax ss xs ys = Scalar.clamp (x + y) lo hi :: SimdOps.incBuild Scalar.clamp ss xs ys
          rw [hb _ lo hi List.mem_cons_self, ih']
        | other =>
          show x :: SimdOps.incBuild clampMinMax ss xs ys = x :: SimdOps.incBuild Scalar.clamp ss xs ys
          rw [ih']

/-- **`Lighten::lighten`, `Saturate::saturate`** with a per-lane factor: lane `i` = `Ops.incValue` on colour `i`, given that the two
    clamps agree for the bounds of lane `i`'s specification -/
theorem incValue_lanes (s : List (Ops.Inc (Lanes n α))) (c : List (Lanes n α)) (f : Lanes n α) (i : Fin n)
    (hb : ∀ v lo hi : α, Ops.Inc.increase lo hi ∈ s.map (incLane · i) → clampMinMax v lo hi = Scalar.clamp v lo hi) :
    laneL (SimdOps.incValue clampMinMax s c f) i = Ops.incValue (s.map (incLane · i)) (laneL c i) (f i) := by
  rw [incValue_lanesV clampMinMax clampMinMax (fun _ _ _ _ => rfl), ← TieV.model_incValue]
  unfold SimdOps.incValue; rw [incBuild_clamp _ hb]
/-- **`Darken::darken`, `Desaturate::desaturate`** -/
theorem decValue_lanes (s : List (Ops.Inc (Lanes n α))) (c : List (Lanes n α)) (f : Lanes n α) (i : Fin n)
    (hb : ∀ v lo hi : α, Ops.Inc.increase lo hi ∈ s.map (incLane · i) → clampMinMax v lo hi = Scalar.clamp v lo hi) :
    laneL (SimdOps.decValue clampMinMax s c f) i = Ops.decValue (s.map (incLane · i)) (laneL c i) (f i) := by
  rw [decValue_lanesV clampMinMax clampMinMax (fun _ _ _ _ => rfl), ← TieV.model_decValue]
  unfold SimdOps.decValue SimdOps.incValue; rw [incBuild_clamp _ hb]
/-- `Lighten for Hwb` (no clamp: `max` only) -/
theorem hwbLighten_lanes (l : Ops.HwbLim (Lanes n α)) (w b f : Lanes n α) (i : Fin n) :
    ((SimdOps.hwbLighten l w b f).1 i, (SimdOps.hwbLighten l w b f).2 i) = Ops.hwbLighten (hwbLimLane l i) (w i) (b i) (f i) := by
  rw [hwbLighten_lanesV, TieV.model_hwbLighten]
/-- `ShiftHue::shift_hue`, colour arithmetic: no clamp, no approximated operation — lanes bit-identical -/
theorem shiftHue_lanes (h : Nat) (c : List (Lanes n α)) (a : Lanes n α) (i : Fin n) :
    laneL (SimdOps.shiftHue h c a) i = Ops.shiftHue h (laneL c i) (a i) := by
  rw [shiftHue_lanesV, TieV.model_shiftHue]
theorem addC_lanes (a b : List (Lanes n α)) (i : Fin n) : laneL (SimdOps.addC a b) i = Ops.addC (laneL a i) (laneL b i) := by
  rw [addC_lanesV, TieV.model_addC]
theorem subC_lanes (a b : List (Lanes n α)) (i : Fin n) : laneL (SimdOps.subC a b) i = Ops.subC (laneL a i) (laneL b i) := by
  rw [subC_lanesV, TieV.model_subC]
theorem mulC_lanes (a b : List (Lanes n α)) (i : Fin n) : laneL (SimdOps.mulC a b) i = Ops.mulC (laneL a i) (laneL b i) := by
  rw [mulC_lanesV, TieV.model_mulC]
theorem divC_lanes (a b : List (Lanes n α)) (i : Fin n) : laneL (SimdOps.divC a b) i = Ops.divC (laneL a i) (laneL b i) := by
  rw [divC_lanesV, TieV.model_divC]
theorem mulS_lanes (a : List (Lanes n α)) (c : Lanes n α) (i : Fin n) : laneL (SimdOps.mulS a c) i = Ops.mulS (laneL a i) (c i) := by
  rw [mulS_lanesV, TieV.model_mulS]
theorem divS_lanes (a : List (Lanes n α)) (c : Lanes n α) (i : Fin n) : laneL (SimdOps.divS a c) i = Ops.divS (laneL a i) (c i) := by
  rw [divS_lanesV, TieV.model_divS]

/-- `premultiply` / `unpremultiply`: no clamp — lanes bit-identical -/
theorem premultiply_lanes (c : List (Lanes n α)) (a : Lanes n α) (i : Fin n) :
    waLane (SimdOps.premultiply c a) i = Blend.premultiply (laneL c i) (a i) := by
  rw [premultiply_lanesV, TieV.model_premultiply]
theorem unpremultiply_lanes (p : List (Lanes n α) × Lanes n α) (i : Fin n) :
    waLane (SimdOps.unpremultiply p) i = Blend.unpremultiply (waLane p i) := by
  rw [unpremultiply_lanesV, TieV.model_unpremultiply]

theorem blendSeparable_clamp (h : ∀ v : α, clampMinMax v 0.0 1.0 = Scalar.clamp v 0.0 1.0) (f : α → α → α) (s d : SimdOps.BlendInput α) :
    SimdOps.blendSeparable (μ := Bool) clampMinMax f s d = SimdOps.blendSeparable (μ := Bool) Scalar.clamp f s d := by
  unfold SimdOps.blendSeparable SimdOps.blendAlpha; rw [h]
theorem composePre_clamp (h : ∀ v : α, clampMinMax v 0.0 1.0 = Scalar.clamp v 0.0 1.0) (op : Blend.Op) (s d : List α × α) :
    SimdOps.composePre (μ := Bool) clampMinMax op s d = SimdOps.composePre (μ := Bool) Scalar.clamp op s d := by
  unfold SimdOps.composePre
  cases op <;> simp only [SimdOps.opAlpha, SimdOps.blendAlpha, h]

/-- **`Blend` on opaque SIMD colours, every mode**: lane `i` = `Blend.blendOpaque` on colours `i` -/
theorem blendOpaque_lanes (h : ∀ v : α, clampMinMax v 0.0 1.0 = Scalar.clamp v 0.0 1.0) (m : Blend.Mode)
    (s d : List (Lanes n α)) (i : Fin n) :
    laneL (SimdOps.blendOpaque clampMinMax (SimdOps.modeFn m) s d) i = Blend.blendOpaque (Blend.Mode.fn m) (laneL s i) (laneL d i) := by
  rw [blendOpaque_lanesV clampMinMax clampMinMax (fun _ _ _ _ => rfl), ← TieV.model_blendOpaque, ← TieV.model_modeFn]
  unfold SimdOps.blendOpaque; rw [blendSeparable_clamp h]
/-- **`Blend` on `PreAlpha` SIMD colours** -/
theorem blendPre_lanes (h : ∀ v : α, clampMinMax v 0.0 1.0 = Scalar.clamp v 0.0 1.0) (m : Blend.Mode)
    (s d : List (Lanes n α) × Lanes n α) (i : Fin n) :
    waLane (SimdOps.blendPre clampMinMax (SimdOps.modeFn m) s d) i = Blend.blendPre (Blend.Mode.fn m) (waLane s i) (waLane d i) := by
  rw [blendPre_lanesV clampMinMax clampMinMax (fun _ _ _ _ => rfl), ← TieV.model_blendPre, ← TieV.model_modeFn]
  unfold SimdOps.blendPre; rw [blendSeparable_clamp h]
/-- **`Blend` on `Alpha` SIMD colours** -/
theorem blendStraight_lanes (h : ∀ v : α, clampMinMax v 0.0 1.0 = Scalar.clamp v 0.0 1.0) (m : Blend.Mode)
    (s d : List (Lanes n α) × Lanes n α) (i : Fin n) :
    waLane (SimdOps.blendStraight clampMinMax (SimdOps.modeFn m) s d) i = Blend.blendStraight (Blend.Mode.fn m) (waLane s i) (waLane d i) := by
  rw [blendStraight_lanesV clampMinMax clampMinMax (fun _ _ _ _ => rfl), ← TieV.model_blendStraight, ← TieV.model_modeFn]
  unfold SimdOps.blendStraight; rw [blendSeparable_clamp h]
/-- **`Compose` (over, inside, outside, atop, xor, plus)** on `PreAlpha`, `Alpha` and opaque SIMD colours -/
theorem composePre_lanes (h : ∀ v : α, clampMinMax v 0.0 1.0 = Scalar.clamp v 0.0 1.0) (op : Blend.Op)
    (s d : List (Lanes n α) × Lanes n α) (i : Fin n) :
    waLane (SimdOps.composePre clampMinMax op s d) i = Blend.composePre op (waLane s i) (waLane d i) := by
  rw [composePre_lanesV clampMinMax clampMinMax (fun _ _ _ _ => rfl), ← TieV.model_composePre, composePre_clamp h]
theorem composeStraight_lanes (h : ∀ v : α, clampMinMax v 0.0 1.0 = Scalar.clamp v 0.0 1.0) (op : Blend.Op)
    (s d : List (Lanes n α) × Lanes n α) (i : Fin n) :
    waLane (SimdOps.composeStraight clampMinMax op s d) i = Blend.composeStraight op (waLane s i) (waLane d i) := by
  rw [composeStraight_lanesV clampMinMax clampMinMax (fun _ _ _ _ => rfl), ← TieV.model_composeStraight]
  unfold SimdOps.composeStraight; rw [composePre_clamp h]
theorem composeOpaque_lanes (h : ∀ v : α, clampMinMax v 0.0 1.0 = Scalar.clamp v 0.0 1.0) (op : Blend.Op)
    (s d : List (Lanes n α)) (i : Fin n) :
    laneL (SimdOps.composeOpaque clampMinMax op s d) i = Blend.composeOpaque op (laneL s i) (laneL d i) := by
  rw [composeOpaque_lanesV clampMinMax clampMinMax (fun _ _ _ _ => rfl), ← TieV.model_composeOpaque]
  unfold SimdOps.composeOpaque; rw [composePre_clamp h]

end model

end C17
