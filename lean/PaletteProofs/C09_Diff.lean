/-
  C09 — colour difference measures satisfy their defining formulas and metric laws (part 1: Euclidean distance, ΔE, the improved
  variants, HyAB, the polar forms, WCAG 2.1 relative contrast).  Everything is about `PaletteModel/Diff.lean` read at ℝ.
  CIEDE2000 is in `C09_Ciede2000.lean`.
-/
import PaletteProofs.Real
import PaletteModel.Diff
import PaletteModel.Gen.Diff
import Mathlib.Analysis.SpecialFunctions.Pow.Real
import Mathlib.Analysis.SpecialFunctions.Sqrt
import Mathlib.Analysis.SpecialFunctions.Trigonometric.Basic
import Mathlib.Tactic.NormNum
import Mathlib.Tactic.Linarith
import Mathlib.Tactic.Positivity
import Mathlib.Tactic.FieldSimp
import Mathlib.Tactic.LinearCombination

namespace C09
open Diff

/-! ## Euclidean distance (`impl_euclidean_distance!`: Lab, Luv, Oklab, CAM16-UCS Jab, Rgb, Xyz; Luma) and ΔE (`DeltaE for Lab / Jab` = `distance`) -/

/-- closed form: the squared distance is the sum of the squared component differences -/
theorem distSq3_closed (x1 x2 x3 y1 y2 y3 : ℝ) :
    distSq3 x1 x2 x3 y1 y2 y3 = (x1 - y1) ^ 2 + (x2 - y2) ^ 2 + (x3 - y3) ^ 2 := by
  unfold distSq3; ring
theorem distSq1_closed (x y : ℝ) : distSq1 x y = (x - y) ^ 2 := by unfold distSq1; ring

theorem distSq3_nonneg (x1 x2 x3 y1 y2 y3 : ℝ) : 0 ≤ distSq3 x1 x2 x3 y1 y2 y3 := by
  rw [distSq3_closed]; positivity
theorem distSq3_symm (x1 x2 x3 y1 y2 y3 : ℝ) : distSq3 x1 x2 x3 y1 y2 y3 = distSq3 y1 y2 y3 x1 x2 x3 := by
  unfold distSq3; ring
theorem distSq3_self (x1 x2 x3 : ℝ) : distSq3 x1 x2 x3 x1 x2 x3 = 0 := by unfold distSq3; ring

/-- `distance` / `delta_e` = √(Σ Δ²) -/
theorem dist3_closed (x1 x2 x3 y1 y2 y3 : ℝ) :
    dist3 x1 x2 x3 y1 y2 y3 = Real.sqrt ((x1 - y1) ^ 2 + (x2 - y2) ^ 2 + (x3 - y3) ^ 2) := by
  unfold dist3; rw [distSq3_closed]; rfl
theorem dist3_nonneg (x1 x2 x3 y1 y2 y3 : ℝ) : 0 ≤ dist3 x1 x2 x3 y1 y2 y3 := Real.sqrt_nonneg _
theorem dist3_symm (x1 x2 x3 y1 y2 y3 : ℝ) : dist3 x1 x2 x3 y1 y2 y3 = dist3 y1 y2 y3 x1 x2 x3 := by
  unfold dist3; rw [distSq3_symm]
theorem dist3_self (x1 x2 x3 : ℝ) : dist3 x1 x2 x3 x1 x2 x3 = 0 := by
  unfold dist3; rw [distSq3_self]; exact Real.sqrt_zero
/-- and only identical colours are at distance 0 -/
theorem dist3_eq_zero_iff (x1 x2 x3 y1 y2 y3 : ℝ) :
    dist3 x1 x2 x3 y1 y2 y3 = 0 ↔ (x1 = y1 ∧ x2 = y2 ∧ x3 = y3) := by
  rw [dist3_closed, Real.sqrt_eq_zero (by positivity)]
  constructor
  · intro h
    have h1 : (x1 - y1) ^ 2 = 0 := by nlinarith [sq_nonneg (x1 - y1), sq_nonneg (x2 - y2), sq_nonneg (x3 - y3)]
    have h2 : (x2 - y2) ^ 2 = 0 := by nlinarith [sq_nonneg (x1 - y1), sq_nonneg (x2 - y2), sq_nonneg (x3 - y3)]
    have h3 : (x3 - y3) ^ 2 = 0 := by nlinarith [sq_nonneg (x1 - y1), sq_nonneg (x2 - y2), sq_nonneg (x3 - y3)]
    exact ⟨by nlinarith [pow_eq_zero_iff (n := 2) (a := x1 - y1) (by norm_num) |>.mp h1],
           by nlinarith [pow_eq_zero_iff (n := 2) (a := x2 - y2) (by norm_num) |>.mp h2],
           by nlinarith [pow_eq_zero_iff (n := 2) (a := x3 - y3) (by norm_num) |>.mp h3]⟩
  · rintro ⟨rfl, rfl, rfl⟩; ring
/-- one component (`Luma`): the distance is the absolute difference -/
theorem dist1_closed (x y : ℝ) : dist1 x y = |x - y| := by
  unfold dist1; rw [distSq1_closed]; exact Real.sqrt_sq_eq_abs _
theorem dist1_nonneg (x y : ℝ) : 0 ≤ dist1 x y := Real.sqrt_nonneg _
theorem dist1_symm (x y : ℝ) : dist1 x y = dist1 y x := by rw [dist1_closed, dist1_closed, abs_sub_comm]
theorem dist1_self (x : ℝ) : dist1 x x = 0 := by rw [dist1_closed]; simp

/-! ## improved ΔE (Huang et al.): `k · (d²)^(e/2) = k · d^e` -/

theorem rpow_half_exp {s : ℝ} (hs : 0 ≤ s) (e : ℝ) : s ^ (e * 0.5) = (Real.sqrt s) ^ e := by
  rw [Real.sqrt_eq_rpow, ← Real.rpow_mul hs]; congr 1; ring

/-- `ImprovedDeltaE for Lab`: ΔE′ = 1.26 · ΔE^0.55 -/
theorem improvedDeltaELab_closed (x1 x2 x3 y1 y2 y3 : ℝ) :
    improvedDeltaELab x1 x2 x3 y1 y2 y3 = 1.26 * (dist3 x1 x2 x3 y1 y2 y3) ^ (0.55 : ℝ) := by
  unfold improvedDeltaELab dist3
  simp only [RealScalar.powf_eq, RealScalar.const_eq, RealScalar.eval_mul, RealScalar.eval_ofSci, RealScalar.sqrt_eq]
  rw [rpow_half_exp (distSq3_nonneg ..)]
/-- `ImprovedDeltaE for Cam16UcsJab`: ΔE′ = 1.41 · ΔE^0.63 -/
theorem improvedDeltaEJab_closed (x1 x2 x3 y1 y2 y3 : ℝ) :
    improvedDeltaEJab x1 x2 x3 y1 y2 y3 = 1.41 * (dist3 x1 x2 x3 y1 y2 y3) ^ (0.63 : ℝ) := by
  unfold improvedDeltaEJab dist3
  simp only [RealScalar.powf_eq, RealScalar.const_eq, RealScalar.eval_mul, RealScalar.eval_ofSci, RealScalar.sqrt_eq]
  rw [rpow_half_exp (distSq3_nonneg ..)]
/-- `ImprovedCiede2000`: ΔE′ = 1.43 · ΔE₀₀^0.7 (definitional) -/
theorem improvedOfCiede_closed (d : ℝ) : improvedOfCiede d = 1.43 * d ^ (0.7 : ℝ) := rfl

theorem improvedDeltaELab_nonneg (x1 x2 x3 y1 y2 y3 : ℝ) : 0 ≤ improvedDeltaELab x1 x2 x3 y1 y2 y3 := by
  rw [improvedDeltaELab_closed]; exact mul_nonneg (by norm_num) (Real.rpow_nonneg (dist3_nonneg ..) _)
theorem improvedDeltaELab_symm (x1 x2 x3 y1 y2 y3 : ℝ) : improvedDeltaELab x1 x2 x3 y1 y2 y3 = improvedDeltaELab y1 y2 y3 x1 x2 x3 := by
  rw [improvedDeltaELab_closed, improvedDeltaELab_closed, dist3_symm]
theorem improvedDeltaELab_self (x1 x2 x3 : ℝ) : improvedDeltaELab x1 x2 x3 x1 x2 x3 = 0 := by
  rw [improvedDeltaELab_closed, dist3_self, Real.zero_rpow (by norm_num)]; norm_num
theorem improvedDeltaEJab_nonneg (x1 x2 x3 y1 y2 y3 : ℝ) : 0 ≤ improvedDeltaEJab x1 x2 x3 y1 y2 y3 := by
  rw [improvedDeltaEJab_closed]; exact mul_nonneg (by norm_num) (Real.rpow_nonneg (dist3_nonneg ..) _)
theorem improvedDeltaEJab_symm (x1 x2 x3 y1 y2 y3 : ℝ) : improvedDeltaEJab x1 x2 x3 y1 y2 y3 = improvedDeltaEJab y1 y2 y3 x1 x2 x3 := by
  rw [improvedDeltaEJab_closed, improvedDeltaEJab_closed, dist3_symm]
theorem improvedDeltaEJab_self (x1 x2 x3 : ℝ) : improvedDeltaEJab x1 x2 x3 x1 x2 x3 = 0 := by
  rw [improvedDeltaEJab_closed, dist3_self, Real.zero_rpow (by norm_num)]; norm_num
/-- the improved CIEDE2000 inherits ≥ 0 and = 0 from the plain one -/
theorem improvedOfCiede_nonneg {d : ℝ} (h : 0 ≤ d) : 0 ≤ improvedOfCiede d := by
  rw [improvedOfCiede_closed]; exact mul_nonneg (by norm_num) (Real.rpow_nonneg h _)
theorem improvedOfCiede_zero : improvedOfCiede (0 : ℝ) = 0 := by
  rw [improvedOfCiede_closed, Real.zero_rpow (by norm_num)]; norm_num

/-! ## HyAB (`impl_hyab!`: Lab, Luv, Oklab, CAM16-UCS Jab) -/

theorem hyab_closed (l1 a1 b1 l2 a2 b2 : ℝ) :
    hyab l1 a1 b1 l2 a2 b2 = |l1 - l2| + Real.sqrt ((a1 - a2) ^ 2 + (b1 - b2) ^ 2) := by
  unfold hyab; simp only [RealScalar.abs_eq, RealScalar.sqrt_eq]; congr 2; ring
theorem hyab_nonneg (l1 a1 b1 l2 a2 b2 : ℝ) : 0 ≤ hyab l1 a1 b1 l2 a2 b2 := by
  rw [hyab_closed]; exact add_nonneg (abs_nonneg _) (Real.sqrt_nonneg _)
theorem hyab_symm (l1 a1 b1 l2 a2 b2 : ℝ) : hyab l1 a1 b1 l2 a2 b2 = hyab l2 a2 b2 l1 a1 b1 := by
  rw [hyab_closed, hyab_closed, abs_sub_comm]; congr 2; ring
theorem hyab_self (l a b : ℝ) : hyab l a b l a b = 0 := by rw [hyab_closed]; simp

/-! ## polar forms (Lch, CAM16-UCS Jmh) = rectangular forms

`DeltaE for Lch` / `for Cam16UcsJmh` *is* the rectangular ΔE of the converted colours (`deltaEPolarWith` is defined that way, as the
code is).  What is proved here is that this agrees with the intrinsic polar closed form whenever the chromas are non-negative, for
any degree→radian factor. -/

theorem zero_lit : (0.0 : ℝ) = 0 := by norm_num

/-- `Lab::from_color_unclamped(Lch)` / `Cam16UcsJab::from_color_unclamped(Cam16UcsJmh)` for a non-negative chroma -/
theorem polarToRectWith_eq (d2r l c h : ℝ) (hc : 0 ≤ c) :
    polarToRectWith d2r l c h = (l, Real.cos (h * d2r) * c, Real.sin (h * d2r) * c) := by
  unfold polarToRectWith hueCos hueSin
  simp only [RealScalar.max_eq, RealScalar.cos_eq, RealScalar.sin_eq, zero_lit, max_eq_left hc]
/-- a negative chroma is clamped to the achromatic axis by the conversion -/
theorem polarToRectWith_neg (d2r l c h : ℝ) (hc : c ≤ 0) : polarToRectWith d2r l c h = (l, 0, 0) := by
  unfold polarToRectWith hueCos hueSin
  simp only [RealScalar.max_eq, RealScalar.cos_eq, RealScalar.sin_eq, zero_lit, max_eq_right hc, mul_zero]

theorem polar_sq_identity (c1 c2 α β : ℝ) :
    (Real.cos α * c1 - Real.cos β * c2) ^ 2 + (Real.sin α * c1 - Real.sin β * c2) ^ 2
      = (c1 - c2) ^ 2 + 4 * c1 * c2 * Real.sin ((α - β) / 2) ^ 2 := by
  have ha := Real.sin_sq_add_cos_sq α
  have hb := Real.sin_sq_add_cos_sq β
  have hy := Real.sin_sq_add_cos_sq ((α - β) / 2)
  have e1 := Real.cos_sub α β
  have e2 := Real.cos_two_mul ((α - β) / 2)
  rw [show 2 * ((α - β) / 2) = α - β by ring] at e2
  linear_combination c1 ^ 2 * ha + c2 ^ 2 * hb + 2 * c1 * c2 * (e1 - e2) + (-4 * c1 * c2) * hy

/-- **polar ΔE = rectangular ΔE** in closed form: ΔE² = ΔL² + ΔC² + ΔH², ΔH = 2·√(C₁C₂)·sin(Δh/2), for chromas ≥ 0 -/
theorem deltaE_polar_closed_form (d2r l1 c1 h1 l2 c2 h2 : ℝ) (hc1 : 0 ≤ c1) (hc2 : 0 ≤ c2) :
    deltaEPolarWith d2r l1 c1 h1 l2 c2 h2
      = Real.sqrt ((l1 - l2) ^ 2 + (c1 - c2) ^ 2 + (2 * Real.sqrt (c1 * c2) * Real.sin ((h1 - h2) * d2r / 2)) ^ 2) := by
  unfold deltaEPolarWith
  simp only [polarToRectWith_eq _ _ _ _ hc1, polarToRectWith_eq _ _ _ _ hc2, dist3_closed]
  congr 1
  have hs : Real.sqrt (c1 * c2) ^ 2 = c1 * c2 := Real.sq_sqrt (mul_nonneg hc1 hc2)
  have := polar_sq_identity c1 c2 (h1 * d2r) (h2 * d2r)
  rw [show (h1 * d2r - h2 * d2r) / 2 = (h1 - h2) * d2r / 2 by ring] at this
  rw [mul_pow, mul_pow, hs]
  linear_combination this
/-- the improved polar ΔE is the improved rectangular ΔE of the same distance -/
theorem improvedDeltaELch_closed (d2r l1 c1 h1 l2 c2 h2 : ℝ) :
    improvedDeltaELchWith d2r l1 c1 h1 l2 c2 h2 = 1.26 * (deltaEPolarWith d2r l1 c1 h1 l2 c2 h2) ^ (0.55 : ℝ) := by
  unfold improvedDeltaELchWith deltaEPolarWith; exact improvedDeltaELab_closed ..
theorem improvedDeltaEJmh_closed (d2r l1 c1 h1 l2 c2 h2 : ℝ) :
    improvedDeltaEJmhWith d2r l1 c1 h1 l2 c2 h2 = 1.41 * (deltaEPolarWith d2r l1 c1 h1 l2 c2 h2) ^ (0.63 : ℝ) := by
  unfold improvedDeltaEJmhWith deltaEPolarWith; exact improvedDeltaEJab_closed ..
theorem deltaEPolar_nonneg (d2r l1 c1 h1 l2 c2 h2 : ℝ) : 0 ≤ deltaEPolarWith d2r l1 c1 h1 l2 c2 h2 := Real.sqrt_nonneg _
theorem deltaEPolar_symm (d2r l1 c1 h1 l2 c2 h2 : ℝ) : deltaEPolarWith d2r l1 c1 h1 l2 c2 h2 = deltaEPolarWith d2r l2 c2 h2 l1 c1 h1 := by
  unfold deltaEPolarWith; exact dist3_symm ..
theorem deltaEPolar_self (d2r l c h : ℝ) : deltaEPolarWith d2r l c h l c h = 0 := by
  unfold deltaEPolarWith; exact dist3_self ..
/-- hues that differ by a full turn are the same colour (with the exact factor π/180) -/
theorem deltaEPolar_full_turn (l c h : ℝ) : deltaEPolarWith (Real.pi / 180) l c h l c (h + 360) = 0 := by
  unfold deltaEPolarWith polarToRectWith hueCos hueSin
  simp only [RealScalar.cos_eq, RealScalar.sin_eq]
  rw [show (h + 360) * (Real.pi / 180) = h * (Real.pi / 180) + 2 * Real.pi by ring, Real.cos_add_two_pi, Real.sin_add_two_pi]
  exact dist3_self ..

/-- **`LabColorDiff` from Lch = `LabColorDiff` from the Lab it converts to**, for chroma ≥ 0: reusing the chroma instead of recomputing
    `hypot(a, b)` changes nothing, so CIEDE2000 on Lch colours is CIEDE2000 on the converted Lab colours -/
theorem fromLch_eq_fromLab (d2r l c h : ℝ) (hc : 0 ≤ c) :
    fromLchWith d2r l c h = fromLab (polarToRectWith d2r l c h).1 (polarToRectWith d2r l c h).2.1 (polarToRectWith d2r l c h).2.2 := by
  unfold fromLchWith fromLab
  simp only [polarToRectWith_eq _ _ _ _ hc]
  have : hypot (Real.cos (h * d2r) * c) (Real.sin (h * d2r) * c) = c := by
    unfold hypot; simp only [RealScalar.sqrt_eq]
    have e : Real.cos (h * d2r) * c * (Real.cos (h * d2r) * c) + Real.sin (h * d2r) * c * (Real.sin (h * d2r) * c) = c ^ 2 := by
      linear_combination c ^ 2 * Real.sin_sq_add_cos_sq (h * d2r)
    rw [e, Real.sqrt_sq hc]
  rw [this]
theorem ciede2000_polar_eq_rectangular (d2r r2d l1 c1 h1 l2 c2 h2 : ℝ) (hc1 : 0 ≤ c1) (hc2 : 0 ≤ c2) :
    ciede2000With d2r r2d (fromLchWith d2r l1 c1 h1) (fromLchWith d2r l2 c2 h2)
      = ciede2000With d2r r2d (fromLab (polarToRectWith d2r l1 c1 h1).1 (polarToRectWith d2r l1 c1 h1).2.1 (polarToRectWith d2r l1 c1 h1).2.2)
                              (fromLab (polarToRectWith d2r l2 c2 h2).1 (polarToRectWith d2r l2 c2 h2).2.1 (polarToRectWith d2r l2 c2 h2).2.2) := by
  rw [fromLch_eq_fromLab _ _ _ _ hc1, fromLch_eq_fromLab _ _ _ _ hc2]
/-- non-vacuity / necessity of `chroma ≥ 0`: for a negative chroma the reused chroma (−1) is not the chroma of the converted Lab (0) -/
example : (fromLchWith (1:ℝ) 50 (-1) 0).chroma = -1 ∧ (fromLab (50:ℝ) 0 0).chroma = 0 := by
  refine ⟨rfl, ?_⟩; unfold fromLab hypot; simp

/-! ## WCAG 2.1 relative contrast -/

/-- closed form: (L_lighter + 0.05) / (L_darker + 0.05) -/
theorem relativeContrast_closed (l1 l2 : ℝ) : relativeContrast l1 l2 = (0.05 + max l1 l2) / (0.05 + min l1 l2) := by
  unfold relativeContrast minMax
  by_cases h : l2 < l1
  · simp only [if_pos h]; rw [max_eq_left h.le, min_eq_right h.le]
  · simp only [if_neg h]; rw [max_eq_right (not_lt.mp h), min_eq_left (not_lt.mp h)]
/-- **symmetric** -/
theorem relativeContrast_symm (l1 l2 : ℝ) : relativeContrast l1 l2 = relativeContrast l2 l1 := by
  rw [relativeContrast_closed, relativeContrast_closed, max_comm, min_comm]
/-- **in [1, 21]** for relative luminances in [0, 1] (what `relative_luminance` returns: a clamped `LinLuma`) -/
theorem relativeContrast_range (l1 l2 : ℝ) (h1 : 0 ≤ l1 ∧ l1 ≤ 1) (h2 : 0 ≤ l2 ∧ l2 ≤ 1) :
    1 ≤ relativeContrast l1 l2 ∧ relativeContrast l1 l2 ≤ 21 := by
  rw [relativeContrast_closed]
  have hm : 0 ≤ min l1 l2 := le_min h1.1 h2.1
  have hM : max l1 l2 ≤ 1 := max_le h1.2 h2.2
  have hmM : min l1 l2 ≤ max l1 l2 := min_le_max
  have hpos : (0:ℝ) < 0.05 + min l1 l2 := by norm_num; linarith
  constructor
  · rw [one_le_div hpos]; linarith
  · rw [div_le_iff₀ hpos]; norm_num; linarith
/-- the extremes are attained: black on white is 21:1, a colour on itself is 1:1 -/
theorem relativeContrast_black_white : relativeContrast (0:ℝ) 1 = 21 := by rw [relativeContrast_closed]; norm_num
theorem relativeContrast_self (l : ℝ) (h : 0 ≤ l) : relativeContrast l l = 1 := by
  rw [relativeContrast_closed, max_self, min_self]; exact div_self (by norm_num; linarith)

/-- **each threshold predicate ⇔ ratio ≥ its threshold** — law-free: true for every interpretation of the scalar operations, hence
    bit-exactly for `f32`/`f64` -/
theorem hasMinContrastText_iff {α} [Scalar α] (l1 l2 : α) : hasMinContrastText l1 l2 = true ↔ (4.5 : α) ≤ relativeContrast l1 l2 := decide_eq_true_iff
theorem hasMinContrastLargeText_iff {α} [Scalar α] (l1 l2 : α) : hasMinContrastLargeText l1 l2 = true ↔ (3.0 : α) ≤ relativeContrast l1 l2 := decide_eq_true_iff
theorem hasEnhancedContrastText_iff {α} [Scalar α] (l1 l2 : α) : hasEnhancedContrastText l1 l2 = true ↔ (7.0 : α) ≤ relativeContrast l1 l2 := decide_eq_true_iff
theorem hasEnhancedContrastLargeText_iff {α} [Scalar α] (l1 l2 : α) : hasEnhancedContrastLargeText l1 l2 = true ↔ (4.5 : α) ≤ relativeContrast l1 l2 := decide_eq_true_iff
theorem hasMinContrastGraphics_iff {α} [Scalar α] (l1 l2 : α) : hasMinContrastGraphics l1 l2 = true ↔ (3.0 : α) ≤ relativeContrast l1 l2 := decide_eq_true_iff
/-- the predicates are symmetric too, and ordered: enhanced ⇒ minimum ⇒ large-text minimum -/
theorem hasMinContrastText_symm (l1 l2 : ℝ) : hasMinContrastText l1 l2 = hasMinContrastText l2 l1 := by
  unfold hasMinContrastText; rw [relativeContrast_symm]
theorem contrast_levels_ordered (l1 l2 : ℝ) :
    (hasEnhancedContrastText l1 l2 = true → hasMinContrastText l1 l2 = true) ∧ (hasMinContrastText l1 l2 = true → hasMinContrastLargeText l1 l2 = true) := by
  simp only [hasEnhancedContrastText_iff, hasMinContrastText_iff, hasMinContrastLargeText_iff]
  constructor <;> intro h <;> norm_num at h ⊢ <;> linarith
/-- non-vacuity: `#600` on white passes AAA, on black fails large-text AA (the suite's own example, luminances 0.0331 / 1 / 0) -/
example : hasEnhancedContrastText (0.0331 : ℝ) 1 = true ∧ hasMinContrastLargeText (0.0331 : ℝ) 0 = false := by
  constructor
  · rw [hasEnhancedContrastText_iff, relativeContrast_closed]; norm_num
  · rw [← Bool.not_eq_true, hasMinContrastLargeText_iff, relativeContrast_closed]; norm_num

/-! ## what the model transcribes, pinned to the sources (tables regenerated from /repo on every run, decided by the kernel) -/

/-- every numeric constant of `get_ciede2000_difference`, in source order, is the one the model (`Diff.gOf … Diff.combine`) uses -/
theorem ciede_constants_as_transcribed : Gen.Diff.ciedeConsts =
    ["2.0", "6103515625.0", "core::f64::consts::PI / 180.0", "0.5", "360.0", "180.0", "360.0", "360.0", "2.0", "2.0", "180.0", "2.0", "360.0",
     "360.0", "2.0", "360.0", "2.0", "2.0", "2.0", "0.17", "30.0", "0.24", "2.0", "0.32", "3.0", "6.0", "0.20", "4.0", "63.0", "0.015", "50.0",
     "50.0", "50.0", "50.0", "20.0", "0.045", "0.015", "30.0", "275.0", "25.0", "275.0", "25.0", "2.0", "2.0"] ∧ Gen.Diff.ciedePowi = ["7", "7"] := by
  decide +kernel
/-- the arm conditions of its `lazy_select!`s, in source order (`calc_h_prime` ×2, `delta_h_prime` ×3, `h_bar_prime` ×3 — the repaired, four-way mean hue) -/
theorem ciede_arms_as_transcribed : Gen.Diff.ciedeArms =
    ["b.eq(&T::zero()) & a_prime.eq(&T::zero())", "result.lt(&T::zero())",
     "c_one_prime.eq(&T::zero()) | c_two_prime.eq(&T::zero())", "h_prime_abs_diff.lt_eq(&T::from_f64(180.0))", "h_two_prime.lt_eq(&h_one_prime)",
     "c_one_prime.eq(&T::zero()) | c_two_prime.eq(&T::zero())", "h_prime_abs_diff.lt_eq(&T::from_f64(180.0))", "h_prime_sum.lt(&T::from_f64(360.0))"] := by
  decide +kernel
/-- Huang et al.'s coefficients and the WCAG thresholds, per method -/
theorem improved_and_wcag_constants_as_transcribed :
    Gen.Diff.improvedCiedeConsts = ["1.43", "0.7"] ∧
    Gen.Diff.improvedDeltaEConsts = [("lab.rs", ["1.26", "0.55 * 0.5"]), ("cam16/ucs_jab.rs", ["1.41", "0.63 * 0.5"])] ∧
    Gen.Diff.wcag = [("relative_contrast", ["0.05", "0.05"], false), ("has_min_contrast_text", ["4.5"], true), ("has_min_contrast_large_text", ["3.0"], true),
      ("has_enhanced_contrast_text", ["7.0"], true), ("has_enhanced_contrast_large_text", ["4.5"], true), ("has_min_contrast_graphics", ["3.0"], true)] := by
  decide +kernel
/-- the macro bodies and the types they are instantiated for (with the lightness / chroma-plane roles of `impl_hyab!`) -/
theorem macro_tables_as_transcribed :
    Gen.Diff.euclideanBody = "let difference = self - other; let difference_squared = difference.clone() * difference; strip_plus!($(+ difference_squared.$component)+)" ∧
    Gen.Diff.hyabBody = "let lightness = self.$lightness - other.$lightness; let chroma1 = self.$chroma1 - other.$chroma1; let chroma2 = self.$chroma2 - other.$chroma2; lightness.abs() + (chroma1.clone() * chroma1 + chroma2.clone() * chroma2).sqrt()" ∧
    Gen.Diff.hyab = [("Cam16UcsJab@cam16/ucs_jab.rs", ["lightness", "a", "b"]), ("Lab@lab.rs", ["l", "a", "b"]), ("Luv@luv.rs", ["l", "u", "v"]), ("Oklab@oklab/properties.rs", ["l", "a", "b"])] ∧
    Gen.Diff.euclidean.map (·.1) = ["Cam16UcsJab@cam16/ucs_jab.rs", "Lab@lab.rs", "Lms@lms/lms.rs", "Luma@luma/luma.rs", "Luv@luv.rs", "Oklab@oklab/properties.rs",
      "Rgb@rgb/rgb.rs", "Xyz@xyz.rs", "Yxy@yxy.rs"] ∧
    Gen.Diff.euclidean.map (·.2.length) = [3, 3, 3, 1, 3, 3, 3, 3, 3] := by
  decide +kernel

end C09
