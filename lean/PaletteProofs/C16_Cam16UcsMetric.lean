/-
  C16 — CAM16-UCS as a coordinate system: the maps `J ↦ J′ = 1.7 J/(1 + 0.007 J)` and `M ↦ M′ = ln(1 + 0.0228 M)/0.0228` of the model's
  `jmhToUcs` are strictly increasing on `J ≥ 0`, `M ≥ 0`; `J′` maps [0, 100] onto [0, 100] and `M′` maps [0, ∞) onto [0, ∞).  Hence the
  conversion `Cam16Jmh → Cam16UcsJab` (the derive-generated route of `C16_Cam16Chain.lean`) is injective on colours — up to the hue of a
  neutral colour and whole turns of the hue, which are not information — and the colour difference of CAM16-UCS (`DeltaE`/`EuclideanDistance`
  for `Cam16UcsJab`, `DeltaE for Cam16UcsJmh` = the rectangular ΔE of the converted colours; the `Diff.dist3`, `Diff.deltaEPolarWith` of C09's
  model) is a metric pulled back along it:
    * `deltaE_jmh_eq_zero_iff`:  ΔE(UCS a, UCS b) = 0 ↔ a and b are the same colour, for `Cam16Jmh` colours with `J, M ≥ 0`;
    * `deltaE_ucsJmh_eq_zero_iff`: the same for two `Cam16UcsJmh` colours with `M′ ≥ 0` (the polar ΔE of C09);
    * `improvedDeltaE_jmh_eq_zero_iff`: the same for `ImprovedDeltaE` (1.41·ΔE^0.63);
    * `dist3_triangle` + `deltaE_jmh_metric`: non-negative, symmetric, triangle inequality.
  (C09 has: ΔE ≥ 0, symmetric, ΔE(a, a) = 0, ΔE = 0 only for identical *rectangular* coordinates, polar closed form.)
-/
import PaletteProofs.C16_Cam16Chain
import PaletteProofs.C09_Diff
import Mathlib.Order.Monotone.Basic
import Mathlib.Data.Set.Function

namespace C16Chain
open Cam16 C16 Cam16Route

/-! ### the two coordinate maps -/

/-- the lightness coordinate of the model's `Cam16Jmh → Cam16UcsJmh`, in closed form -/
theorem jmhToUcs_c0 (x : V3 ℝ) : (jmhToUcs x).c0 = 1.7 * x.c0 / (1 + 0.007 * x.c0) := by
  simp only [jmhToUcs, K.jmhToUcs_2, K.jmhToUcs_3, show (1.0:ℝ) = 1 by norm_num]
/-- the colourfulness coordinate -/
theorem jmhToUcs_c1 (x : V3 ℝ) : (jmhToUcs x).c1 = Real.log (1 + 0.0228 * x.c1) / 0.0228 := by
  simp only [jmhToUcs, K.jmhToUcs_0, K.jmhToUcs_1, RealScalar.ln_eq, show (1.0:ℝ) = 1 by norm_num]

/-- **`J′` is strictly increasing on `J ≥ 0`** (model function, whatever the other components) -/
theorem ucsJ_strictMono {x y : V3 ℝ} (hx : 0 ≤ x.c0) (h : x.c0 < y.c0) : (jmhToUcs x).c0 < (jmhToUcs y).c0 := by
  rw [jmhToUcs_c0, jmhToUcs_c0]
  have h1 : (0:ℝ) < 1 + 0.007 * x.c0 := by positivity
  have h2 : (0:ℝ) < 1 + 0.007 * y.c0 := by have : 0 ≤ y.c0 := hx.trans h.le; positivity
  rw [div_lt_div_iff₀ h1 h2]
  nlinarith
/-- … as a `StrictMonoOn` statement about `J ↦ J′` -/
theorem ucsJ_strictMonoOn : StrictMonoOn (fun J : ℝ => (jmhToUcs ⟨J, 0, 0⟩).c0) (Set.Ici 0) :=
  fun a ha b _ hab => ucsJ_strictMono (x := ⟨a, 0, 0⟩) (y := ⟨b, 0, 0⟩) ha hab

/-- **`J′` maps [0, 100] onto [0, 100]**, one to one (`J′(0) = 0`, `J′(100) = 100`; the preimage of `y` is `y/(1.7 − 0.007 y)`, the model's
    `ucsToJmh`) -/
theorem ucsJ_bijOn : Set.BijOn (fun J : ℝ => (jmhToUcs ⟨J, 0, 0⟩).c0) (Set.Icc 0 100) (Set.Icc 0 100) := by
  refine ⟨?_, ?_, ?_⟩
  · intro J ⟨h0, h1⟩
    simp only [jmhToUcs_c0, Set.mem_Icc]
    have hd : (0:ℝ) < 1 + 0.007 * J := by positivity
    constructor
    · positivity
    · rw [div_le_iff₀ hd]; nlinarith
  · exact ucsJ_strictMonoOn.injOn.mono (fun J hJ => hJ.1)
  · intro y ⟨h0, h1⟩
    have hd : (0:ℝ) < 1.7 - 0.007 * y := by nlinarith
    refine ⟨(ucsToJmh ⟨y, 0, 0⟩).c0, ?_, ?_⟩
    · simp only [ucsToJmh, K.ucsToJmh_2, K.ucsToJmh_3, Set.mem_Icc]
      constructor
      · positivity
      · rw [div_le_iff₀ hd]; nlinarith
    · have := ucs_jmh_ucs ⟨y, 0, 0⟩ hd.ne'
      have e := congrArg V3.c0 this
      simpa only [jmhToUcs_c0] using e

/-- **`M′` is strictly increasing on `M ≥ 0`** -/
theorem ucsM_strictMono {x y : V3 ℝ} (hx : 0 ≤ x.c1) (h : x.c1 < y.c1) : (jmhToUcs x).c1 < (jmhToUcs y).c1 := by
  rw [jmhToUcs_c1, jmhToUcs_c1]
  apply div_lt_div_of_pos_right _ (by norm_num)
  apply Real.log_lt_log
  · positivity
  · nlinarith
theorem ucsM_strictMonoOn : StrictMonoOn (fun M : ℝ => (jmhToUcs ⟨0, M, 0⟩).c1) (Set.Ici 0) :=
  fun a ha b _ hab => ucsM_strictMono (x := ⟨0, a, 0⟩) (y := ⟨0, b, 0⟩) ha hab

/-- **`M′` maps [0, ∞) onto [0, ∞)**, one to one -/
theorem ucsM_bijOn : Set.BijOn (fun M : ℝ => (jmhToUcs ⟨0, M, 0⟩).c1) (Set.Ici 0) (Set.Ici 0) := by
  refine ⟨fun M hM => jmhToUcs_c1_nonneg (x := ⟨0, M, 0⟩) hM, ucsM_strictMonoOn.injOn, ?_⟩
  intro y hy
  have hy' : (0:ℝ) ≤ y := hy
  refine ⟨(ucsToJmh ⟨0, y, 0⟩).c1, ?_, ?_⟩
  · simp only [ucsToJmh, K.ucsToJmh_0, K.ucsToJmh_1, RealScalar.exp_eq, Set.mem_Ici, show (1.0:ℝ) = 1 by norm_num]
    apply div_nonneg _ (by norm_num)
    have : (0:ℝ) ≤ y * 0.0228 := by positivity
    linarith [Real.add_one_le_exp (y * 0.0228)]
  · have := ucs_jmh_ucs ⟨0, y, 0⟩ (by norm_num)
    exact congrArg V3.c1 this

/-- the two coordinates are injective on the non-negative axis -/
theorem ucsJ_inj {x y : V3 ℝ} (hx : 0 ≤ x.c0) (hy : 0 ≤ y.c0) (h : (jmhToUcs x).c0 = (jmhToUcs y).c0) : x.c0 = y.c0 := by
  rcases lt_trichotomy x.c0 y.c0 with l | e | g
  · exact absurd h (ucsJ_strictMono hx l).ne
  · exact e
  · exact absurd h (ucsJ_strictMono hy g).ne'
theorem ucsM_inj {x y : V3 ℝ} (hx : 0 ≤ x.c1) (hy : 0 ≤ y.c1) (h : (jmhToUcs x).c1 = (jmhToUcs y).c1) : x.c1 = y.c1 := by
  rcases lt_trichotomy x.c1 y.c1 with l | e | g
  · exact absurd h (ucsM_strictMono hx l).ne
  · exact e
  · exact absurd h (ucsM_strictMono hy g).ne'

/-! ### the conversion into CAM16-UCS is injective on colours -/

local notation "toJab" => ucsJmhToJabWith (Real.pi / 180)
local notation "toPol" => ucsJabToJmhWith Real.pi (180 / Real.pi)

/-- two `Cam16UcsJmh` colours with `M′ ≥ 0` have the same rectangular form iff they are the same colour -/
theorem rect_eq_iff_polarEq {x y : V3 ℝ} (hx : 0 ≤ x.c1) (hy : 0 ≤ y.c1) : toJab x = toJab y ↔ PolarEq x y := by
  constructor
  · intro h
    have h1 := polar_rect_polar x hx
    have h2 := polar_rect_polar y hy
    rw [h] at h1
    exact polarEq_trans h1 (polarEq_symm h2)
  · exact rect_of_polarEq

/-- **`Cam16Jmh → Cam16UcsJab` is injective on colours**: for `J, M ≥ 0` two colours have the same CAM16-UCS coordinates iff they are the
    same colour (`J`, `M` equal, hue equal modulo 360 unless `M = 0`) -/
theorem jmh_to_jab_injective {x y : V3 ℝ} (hx : Dom iJmh x) (hy : Dom iJmh y) :
    toJab (jmhToUcs x) = toJab (jmhToUcs y) ↔ PolarEq x y := by
  obtain ⟨hxJ, hxM⟩ := dom_J.mp hx
  obtain ⟨hyJ, hyM⟩ := dom_J.mp hy
  rw [rect_eq_iff_polarEq (jmhToUcs_c1_nonneg hxM) (jmhToUcs_c1_nonneg hyM)]
  constructor
  · intro h
    have := ucsToJmh_polarEq h
    rwa [jmh_ucs_jmh x hxJ hxM, jmh_ucs_jmh y hyJ hyM] at this
  · exact jmhToUcs_polarEq

/-! ### ΔE of CAM16-UCS -/

/-- `DeltaE`/`distance` of two `Cam16UcsJab` colours (C09's model function at the components) -/
noncomputable def deltaEJab (p q : V3 ℝ) : ℝ := Diff.dist3 p.c0 p.c1 p.c2 q.c0 q.c1 q.c2

theorem deltaEJab_eq_zero_iff (p q : V3 ℝ) : deltaEJab p q = 0 ↔ p = q := by
  unfold deltaEJab
  rw [C09.dist3_eq_zero_iff]
  obtain ⟨p0, p1, p2⟩ := p; obtain ⟨q0, q1, q2⟩ := q
  simp only [V3.mk.injEq]

/-- **ΔE(UCS a, UCS b) = 0 ↔ a = b as colours**, for `Cam16Jmh` colours with `J, M ≥ 0`, through the derive-generated conversion
    `Cam16UcsJab::from_color_unclamped(Cam16Jmh)` of the route interpreter -/
theorem deltaE_jmh_eq_zero_iff (x y : V3 ℝ) (hx : Dom iJmh x) (hy : Dom iJmh y) :
    ∃ p q, convertAt piEdges iJmh iUcsJab x = some p ∧ convertAt piEdges iJmh iUcsJab y = some q ∧
      (deltaEJab p q = 0 ↔ PolarEq x y) :=
  ⟨_, _, cv_JB _ _, cv_JB _ _, (deltaEJab_eq_zero_iff _ _).trans (jmh_to_jab_injective hx hy)⟩

/-- the polar ΔE of C09 (`DeltaE for Cam16UcsJmh`: convert both, then the rectangular ΔE) vanishes exactly between equal colours, `M′ ≥ 0` -/
theorem deltaE_ucsJmh_eq_zero_iff (x y : V3 ℝ) (hx : 0 ≤ x.c1) (hy : 0 ≤ y.c1) :
    Diff.deltaEPolarWith (Real.pi / 180) x.c0 x.c1 x.c2 y.c0 y.c1 y.c2 = 0 ↔ PolarEq x y := by
  have e : Diff.deltaEPolarWith (Real.pi / 180) x.c0 x.c1 x.c2 y.c0 y.c1 y.c2 = deltaEJab (toJab x) (toJab y) := by
    unfold Diff.deltaEPolarWith deltaEJab
    simp only [C09.polarToRectWith_eq _ _ _ _ hx, C09.polarToRectWith_eq _ _ _ _ hy, ucsJmhToJabWith,
      max_eq_left (show (0.0:ℝ) ≤ x.c1 by rw [zero_lit]; exact hx), max_eq_left (show (0.0:ℝ) ≤ y.c1 by rw [zero_lit]; exact hy)]
  rw [e, deltaEJab_eq_zero_iff, rect_eq_iff_polarEq hx hy]

/-- `ImprovedDeltaE for Cam16UcsJab` (1.41·ΔE^0.63, `improvedDeltaEJab_closed`) vanishes exactly when ΔE does -/
theorem improvedDeltaE_jmh_eq_zero_iff (x y : V3 ℝ) (hx : Dom iJmh x) (hy : Dom iJmh y) :
    Diff.improvedDeltaEJab (toJab (jmhToUcs x)).c0 (toJab (jmhToUcs x)).c1 (toJab (jmhToUcs x)).c2
      (toJab (jmhToUcs y)).c0 (toJab (jmhToUcs y)).c1 (toJab (jmhToUcs y)).c2 = 0 ↔ PolarEq x y := by
  rw [C09.improvedDeltaEJab_closed, ← jmh_to_jab_injective hx hy, ← deltaEJab_eq_zero_iff]
  unfold deltaEJab
  have hn := C09.dist3_nonneg (toJab (jmhToUcs x)).c0 (toJab (jmhToUcs x)).c1 (toJab (jmhToUcs x)).c2
      (toJab (jmhToUcs y)).c0 (toJab (jmhToUcs y)).c1 (toJab (jmhToUcs y)).c2
  constructor
  · intro h
    have : Diff.dist3 (toJab (jmhToUcs x)).c0 (toJab (jmhToUcs x)).c1 (toJab (jmhToUcs x)).c2
        (toJab (jmhToUcs y)).c0 (toJab (jmhToUcs y)).c1 (toJab (jmhToUcs y)).c2 ^ (0.63:ℝ) = 0 := by
      rcases mul_eq_zero.mp h with h | h
      · norm_num at h
      · exact h
    exact (Real.rpow_eq_zero_iff_of_nonneg hn).mp this |>.1
  · intro h
    rw [h, Real.zero_rpow (by norm_num), mul_zero]

/-- the Euclidean triangle inequality for the model's `dist3` (not in C09) -/
theorem dist3_triangle (a1 a2 a3 b1 b2 b3 c1 c2 c3 : ℝ) :
    Diff.dist3 a1 a2 a3 c1 c2 c3 ≤ Diff.dist3 a1 a2 a3 b1 b2 b3 + Diff.dist3 b1 b2 b3 c1 c2 c3 := by
  rw [C09.dist3_closed, C09.dist3_closed, C09.dist3_closed]
  set u1 := a1 - b1; set u2 := a2 - b2; set u3 := a3 - b3
  set v1 := b1 - c1; set v2 := b2 - c2; set v3 := b3 - c3
  have e1 : a1 - c1 = u1 + v1 := by simp only [u1, v1]; ring
  have e2 : a2 - c2 = u2 + v2 := by simp only [u2, v2]; ring
  have e3 : a3 - c3 = u3 + v3 := by simp only [u3, v3]; ring
  rw [e1, e2, e3]
  set A := u1 ^ 2 + u2 ^ 2 + u3 ^ 2 with hA
  set B := v1 ^ 2 + v2 ^ 2 + v3 ^ 2 with hB
  have hA0 : 0 ≤ A := by positivity
  have hB0 : 0 ≤ B := by positivity
  have hs : 0 ≤ Real.sqrt A + Real.sqrt B := by positivity
  apply Real.sqrt_le_iff.mpr ⟨hs, ?_⟩
  have cs : u1 * v1 + u2 * v2 + u3 * v3 ≤ Real.sqrt A * Real.sqrt B := by
    rw [← Real.sqrt_mul hA0]
    apply Real.le_sqrt_of_sq_le
    nlinarith [sq_nonneg (u1 * v2 - u2 * v1), sq_nonneg (u1 * v3 - u3 * v1), sq_nonneg (u2 * v3 - u3 * v2)]
  have sa := Real.sq_sqrt hA0
  have sb := Real.sq_sqrt hB0
  nlinarith

/-- **ΔE on `Cam16Jmh` colours through CAM16-UCS is a metric on colours** (`J, M ≥ 0`): non-negative, symmetric, zero exactly between equal
    colours, triangle inequality -/
theorem deltaE_jmh_metric (x y z : V3 ℝ) (hx : Dom iJmh x) (hy : Dom iJmh y) :
    let d := fun a b : V3 ℝ => deltaEJab (toJab (jmhToUcs a)) (toJab (jmhToUcs b))
    0 ≤ d x y ∧ d x y = d y x ∧ (d x y = 0 ↔ PolarEq x y) ∧ d x z ≤ d x y + d y z := by
  intro d
  refine ⟨C09.dist3_nonneg .., C09.dist3_symm .., ?_, dist3_triangle ..⟩
  exact (deltaEJab_eq_zero_iff _ _).trans (jmh_to_jab_injective hx hy)

/-- non-vacuity: two different colours of the domain are at positive distance, and a colour and its copy one turn further at distance 0 -/
example : Dom iJmh ⟨50, 30, 40⟩ ∧ Dom iJmh ⟨50, 30, 400⟩ ∧ PolarEq ⟨50, 30, 40⟩ ⟨50, 30, 400⟩ ∧ ¬ PolarEq ⟨50, 30, 40⟩ ⟨60, 30, 40⟩ := by
  refine ⟨dom_J.mpr (by norm_num), dom_J.mpr (by norm_num), ⟨rfl, rfl, Or.inr ⟨1, by norm_num⟩⟩, ?_⟩
  rintro ⟨h, -, -⟩
  norm_num at h

end C16Chain
