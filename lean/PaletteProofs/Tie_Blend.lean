/-
  Tie of the hand-written blending / compositing model (`PaletteModel/Blend.lean`, C08) to the *text* of the Rust functions.

  `tools/extract.py` (`gen_bodies`, translator `tools/rust2lean.py`, family `blend`) re-translates on every run: `blend_alpha` (blend.rs);
  the eleven separable blend functions, `BlendInput::new_opaque`, the two `From<..> for BlendInput`, `blend_separable` and all 33 methods of the
  three `impl Blend` blocks (blend/blend.rs); the six Porter–Duff operators on `PreAlpha` and their `Alpha` / opaque wrappers (blend/compose.rs);
  the three `blend_with` (blend/blend_with.rs); `Equations::apply_to`, `ParamOut::mul_constant`, `ParamOut::mul_color` (blend/equations.rs);
  `PreAlpha::new`, `new_opaque`, `unpremultiply` (blend/pre_alpha.rs), `Alpha::premultiply` (alpha/alpha.rs); and the `impl_premultiply!` macro body
  (macros/blend.rs) instantiated at the invocations for `Lab` and `Rgb` — into `Gen.Body.*` (lean/PaletteModel/Gen/BodiesBlend.lean).  Each
  theorem `tie_<name>` states for every `α` with `[Scalar α]` (hence at `Float`, `Float32`, `ℝ`) that the translated body is the model function
  the driver executes and the C08 theorems talk about.  Law-free: `rfl`, unfolding, three list inductions (the loop combinators) and a case split
  over the `Equation` enum.  A changed operand, comparison, `lazy_select!` arm order, blend function handed to `blend_separable`, weight in a
  Porter–Duff operator or alpha formula breaks the corresponding `tie_` theorem.

  Reading of the generic colour.  `C: ArrayCast<Array = [T; N]>` is the list of its components (as in the model); `PreAlpha<C>` / `Alpha<C, T>`
  are `Blend.WithAlpha` = (components, alpha).  `for (src, dst) in zip_colors(x, &mut y) { *dst = e; }` is `y := Prim.zipWith (fun src dst => e) x y`
  and the loop of `blend_separable` over `zip_input(..)` is `Prim.zip4With` (PaletteModel/BodyPrimExt.lean); `zipWith_eq_composeList`,
  `zipWith_eq_zipOp`, `zip4With_eq_blendList` identify them with the model's own recursions.  `C::premultiply` / `C::unpremultiply` (trait
  methods implemented per colour type by `impl_premultiply!`) occur as the model functions `Blend.premultiply` / `Blend.unpremultiply`; the macro
  body itself is tied at `Lab` and `Rgb` (`tie_labPremultiply`, `tie_labUnpremultiply`, …: the model on the component list of the colour).

  NOT translated (header of Gen/BodiesBlend.lean): `Parameter::apply_to` (array cast through a qualified path; the model function on both sides),
  the iterator plumbing of `zip_colors` / `zip_input`, `impl_premultiply!` at the other colour types, the blanket `BlendFunction for F: FnOnce`.
-/
import PaletteModel.Gen.BodiesBlend

namespace Tie
variable {α : Type} [Scalar α]

/-! ### the loop combinators of the translation are the model's recursions -/
omit [Scalar α] in
theorem zipWith_eq_zipOp (f : α → α → α) : ∀ l1 l2 : List α, Prim.zipWith f l1 l2 = Blend.zipOp f l1 l2
  | [], _ => by simp [Prim.zipWith, Blend.zipOp]
  | _ :: _, [] => by simp [Prim.zipWith, Blend.zipOp]
  | x :: xs, y :: ys => by simp [Prim.zipWith, Blend.zipOp, zipWith_eq_zipOp f xs ys]

theorem zipWith_eq_composeList (op : Blend.Op) (sa da : α) :
    ∀ l1 l2 : List α, Prim.zipWith (fun s d => op.comp sa da s d) l1 l2 = Blend.composeList op sa da l1 l2
  | [], _ => by simp [Prim.zipWith, Blend.composeList]
  | _ :: _, [] => by simp [Prim.zipWith, Blend.composeList]
  | x :: xs, y :: ys => by simp [Prim.zipWith, Blend.composeList, zipWith_eq_composeList op sa da xs ys]

theorem zip4With_eq_blendList (f : α → α → α) (sa da : α) :
    ∀ l1 l2 l3 l4 : List α, Prim.zip4With (fun s sp d dp => Blend.blendComp f sa da s sp d dp) l1 l2 l3 l4 = Blend.blendList f sa da l1 l2 l3 l4
  | [], _, _, _ => by simp [Prim.zip4With, Blend.blendList]
  | _ :: _, [], _, _ => by simp [Prim.zip4With, Blend.blendList]
  | _ :: _, _ :: _, [], _ => by simp [Prim.zip4With, Blend.blendList]
  | _ :: _, _ :: _, _ :: _, [] => by simp [Prim.zip4With, Blend.blendList]
  | a :: as, b :: bs, c :: cs, d :: ds => by simp [Prim.zip4With, Blend.blendList, zip4With_eq_blendList f sa da as bs cs ds]

/-! ### `blend_alpha` and the eleven separable blend functions (blend/blend.rs) -/
theorem tie_blendAlpha : @Gen.Body.blendAlpha α _ = Blend.blendAlpha := rfl
theorem tie_multiplyBlend : @Gen.Body.multiplyBlend α _ = Blend.multiplyBlend := rfl
theorem tie_screenBlend : @Gen.Body.screenBlend α _ = Blend.screenBlend := rfl
theorem tie_overlayBlend : @Gen.Body.overlayBlend α _ = Blend.overlayBlend := rfl
theorem tie_darkenBlend : @Gen.Body.darkenBlend α _ = Blend.darkenBlend := rfl
theorem tie_lightenBlend : @Gen.Body.lightenBlend α _ = Blend.lightenBlend := rfl
theorem tie_dodgeBlend : @Gen.Body.dodgeBlend α _ = Blend.dodgeBlend := rfl
theorem tie_burnBlend : @Gen.Body.burnBlend α _ = Blend.burnBlend := rfl
theorem tie_hardLightBlend : @Gen.Body.hardLightBlend α _ = Blend.hardLightBlend := rfl
theorem tie_softLightBlend : @Gen.Body.softLightBlend α _ = Blend.softLightBlend := rfl
theorem tie_differenceBlend : @Gen.Body.differenceBlend α _ = Blend.differenceBlend := rfl
theorem tie_exclusionBlend : @Gen.Body.exclusionBlend α _ = Blend.exclusionBlend := rfl

/-! ### `impl_premultiply!` (macros/blend.rs) at `Lab<Wp> {l, a, b}` and `Rgb<S> {red, green, blue}`: the model on the component list -/
theorem tie_labPremultiply (c : V3 α) (a : α) :
    Blend.premultiply c.toList a = ((Gen.Body.labPremultiply c a).1.toList, (Gen.Body.labPremultiply c a).2) := rfl
theorem tie_labUnpremultiply (c : V3 α) (a : α) :
    Blend.unpremultiply (c.toList, a) = ((Gen.Body.labUnpremultiply (c, a)).1.toList, (Gen.Body.labUnpremultiply (c, a)).2) := rfl
theorem tie_rgbPremultiply (c : V3 α) (a : α) :
    Blend.premultiply c.toList a = ((Gen.Body.rgbPremultiply c a).1.toList, (Gen.Body.rgbPremultiply c a).2) := rfl
theorem tie_rgbUnpremultiply (c : V3 α) (a : α) :
    Blend.unpremultiply (c.toList, a) = ((Gen.Body.rgbUnpremultiply (c, a)).1.toList, (Gen.Body.rgbUnpremultiply (c, a)).2) := rfl

/-! ### `PreAlpha` / `Alpha` helpers (blend/pre_alpha.rs, alpha/alpha.rs) -/
theorem tie_preAlphaNew : @Gen.Body.preAlphaNew α _ = Blend.premultiply := rfl
theorem tie_preAlphaNewOpaque : @Gen.Body.preAlphaNewOpaque α _ = Blend.newOpaque := rfl
theorem tie_preAlphaUnpremultiply : @Gen.Body.preAlphaUnpremultiply α _ = Blend.unpremultiply := rfl
theorem tie_alphaPremultiply : @Gen.Body.alphaPremultiply α _ = fun c => Blend.premultiply c.1 c.2 := rfl

/-! ### `BlendInput` and `blend_separable` -/
theorem tie_blendInputNewOpaque : @Gen.Body.blendInputNewOpaque α _ = Blend.BlendInput.newOpaque := rfl
theorem tie_blendInputFromAlpha : @Gen.Body.blendInputFromAlpha α _ = Blend.BlendInput.ofAlpha := rfl
theorem tie_blendInputFromPre : @Gen.Body.blendInputFromPre α _ = Blend.BlendInput.ofPre := rfl
theorem tie_blendSeparable : @Gen.Body.blendSeparable α _ = fun s d f => Blend.blendSeparable f s d := by
  funext s d f
  unfold Gen.Body.blendSeparable Blend.blendSeparable
  simp only []
  rw [← zip4With_eq_blendList]
  rfl

/-- one method of an `impl Blend` block: the callees are the tied bodies, the rest is the wrapper of the model -/
macro "tie_blend_wrapper" : tactic =>
  `(tactic| (funext s d; simp only [tie_blendSeparable, tie_blendInputFromPre, tie_blendInputFromAlpha, tie_blendInputNewOpaque,
               tie_preAlphaUnpremultiply, Blend.blendPre, Blend.blendOpaque, Blend.blendStraight]))

/-! ### `impl Blend for PreAlpha<C>`: which blend function each method hands to `blend_separable` -/
theorem tie_blendPreMultiply : @Gen.Body.blendPreMultiply α _ = Blend.blendPre Blend.multiplyBlend := by
  unfold Gen.Body.blendPreMultiply; rw [tie_multiplyBlend]; tie_blend_wrapper
theorem tie_blendPreScreen : @Gen.Body.blendPreScreen α _ = Blend.blendPre Blend.screenBlend := by
  unfold Gen.Body.blendPreScreen; rw [tie_screenBlend]; tie_blend_wrapper
theorem tie_blendPreOverlay : @Gen.Body.blendPreOverlay α _ = Blend.blendPre Blend.overlayBlend := by
  unfold Gen.Body.blendPreOverlay; rw [tie_overlayBlend]; tie_blend_wrapper
theorem tie_blendPreDarken : @Gen.Body.blendPreDarken α _ = Blend.blendPre Blend.darkenBlend := by
  unfold Gen.Body.blendPreDarken; rw [tie_darkenBlend]; tie_blend_wrapper
theorem tie_blendPreLighten : @Gen.Body.blendPreLighten α _ = Blend.blendPre Blend.lightenBlend := by
  unfold Gen.Body.blendPreLighten; rw [tie_lightenBlend]; tie_blend_wrapper
theorem tie_blendPreDodge : @Gen.Body.blendPreDodge α _ = Blend.blendPre Blend.dodgeBlend := by
  unfold Gen.Body.blendPreDodge; rw [tie_dodgeBlend]; tie_blend_wrapper
theorem tie_blendPreBurn : @Gen.Body.blendPreBurn α _ = Blend.blendPre Blend.burnBlend := by
  unfold Gen.Body.blendPreBurn; rw [tie_burnBlend]; tie_blend_wrapper
theorem tie_blendPreHardLight : @Gen.Body.blendPreHardLight α _ = Blend.blendPre Blend.hardLightBlend := by
  unfold Gen.Body.blendPreHardLight; rw [tie_hardLightBlend]; tie_blend_wrapper
theorem tie_blendPreSoftLight : @Gen.Body.blendPreSoftLight α _ = Blend.blendPre Blend.softLightBlend := by
  unfold Gen.Body.blendPreSoftLight; rw [tie_softLightBlend]; tie_blend_wrapper
theorem tie_blendPreDifference : @Gen.Body.blendPreDifference α _ = Blend.blendPre Blend.differenceBlend := by
  unfold Gen.Body.blendPreDifference; rw [tie_differenceBlend]; tie_blend_wrapper
theorem tie_blendPreExclusion : @Gen.Body.blendPreExclusion α _ = Blend.blendPre Blend.exclusionBlend := by
  unfold Gen.Body.blendPreExclusion; rw [tie_exclusionBlend]; tie_blend_wrapper

/-! ### `impl Blend for C`: which blend function each method hands to `blend_separable` -/
theorem tie_blendOpaqueMultiply : @Gen.Body.blendOpaqueMultiply α _ = Blend.blendOpaque Blend.multiplyBlend := by
  unfold Gen.Body.blendOpaqueMultiply; rw [tie_multiplyBlend]; tie_blend_wrapper
theorem tie_blendOpaqueScreen : @Gen.Body.blendOpaqueScreen α _ = Blend.blendOpaque Blend.screenBlend := by
  unfold Gen.Body.blendOpaqueScreen; rw [tie_screenBlend]; tie_blend_wrapper
theorem tie_blendOpaqueOverlay : @Gen.Body.blendOpaqueOverlay α _ = Blend.blendOpaque Blend.overlayBlend := by
  unfold Gen.Body.blendOpaqueOverlay; rw [tie_overlayBlend]; tie_blend_wrapper
theorem tie_blendOpaqueDarken : @Gen.Body.blendOpaqueDarken α _ = Blend.blendOpaque Blend.darkenBlend := by
  unfold Gen.Body.blendOpaqueDarken; rw [tie_darkenBlend]; tie_blend_wrapper
theorem tie_blendOpaqueLighten : @Gen.Body.blendOpaqueLighten α _ = Blend.blendOpaque Blend.lightenBlend := by
  unfold Gen.Body.blendOpaqueLighten; rw [tie_lightenBlend]; tie_blend_wrapper
theorem tie_blendOpaqueDodge : @Gen.Body.blendOpaqueDodge α _ = Blend.blendOpaque Blend.dodgeBlend := by
  unfold Gen.Body.blendOpaqueDodge; rw [tie_dodgeBlend]; tie_blend_wrapper
theorem tie_blendOpaqueBurn : @Gen.Body.blendOpaqueBurn α _ = Blend.blendOpaque Blend.burnBlend := by
  unfold Gen.Body.blendOpaqueBurn; rw [tie_burnBlend]; tie_blend_wrapper
theorem tie_blendOpaqueHardLight : @Gen.Body.blendOpaqueHardLight α _ = Blend.blendOpaque Blend.hardLightBlend := by
  unfold Gen.Body.blendOpaqueHardLight; rw [tie_hardLightBlend]; tie_blend_wrapper
theorem tie_blendOpaqueSoftLight : @Gen.Body.blendOpaqueSoftLight α _ = Blend.blendOpaque Blend.softLightBlend := by
  unfold Gen.Body.blendOpaqueSoftLight; rw [tie_softLightBlend]; tie_blend_wrapper
theorem tie_blendOpaqueDifference : @Gen.Body.blendOpaqueDifference α _ = Blend.blendOpaque Blend.differenceBlend := by
  unfold Gen.Body.blendOpaqueDifference; rw [tie_differenceBlend]; tie_blend_wrapper
theorem tie_blendOpaqueExclusion : @Gen.Body.blendOpaqueExclusion α _ = Blend.blendOpaque Blend.exclusionBlend := by
  unfold Gen.Body.blendOpaqueExclusion; rw [tie_exclusionBlend]; tie_blend_wrapper

/-! ### `impl Blend for Alpha<C, T>`: which blend function each method hands to `blend_separable` -/
theorem tie_blendStraightMultiply : @Gen.Body.blendStraightMultiply α _ = Blend.blendStraight Blend.multiplyBlend := by
  unfold Gen.Body.blendStraightMultiply; rw [tie_multiplyBlend]; tie_blend_wrapper
theorem tie_blendStraightScreen : @Gen.Body.blendStraightScreen α _ = Blend.blendStraight Blend.screenBlend := by
  unfold Gen.Body.blendStraightScreen; rw [tie_screenBlend]; tie_blend_wrapper
theorem tie_blendStraightOverlay : @Gen.Body.blendStraightOverlay α _ = Blend.blendStraight Blend.overlayBlend := by
  unfold Gen.Body.blendStraightOverlay; rw [tie_overlayBlend]; tie_blend_wrapper
theorem tie_blendStraightDarken : @Gen.Body.blendStraightDarken α _ = Blend.blendStraight Blend.darkenBlend := by
  unfold Gen.Body.blendStraightDarken; rw [tie_darkenBlend]; tie_blend_wrapper
theorem tie_blendStraightLighten : @Gen.Body.blendStraightLighten α _ = Blend.blendStraight Blend.lightenBlend := by
  unfold Gen.Body.blendStraightLighten; rw [tie_lightenBlend]; tie_blend_wrapper
theorem tie_blendStraightDodge : @Gen.Body.blendStraightDodge α _ = Blend.blendStraight Blend.dodgeBlend := by
  unfold Gen.Body.blendStraightDodge; rw [tie_dodgeBlend]; tie_blend_wrapper
theorem tie_blendStraightBurn : @Gen.Body.blendStraightBurn α _ = Blend.blendStraight Blend.burnBlend := by
  unfold Gen.Body.blendStraightBurn; rw [tie_burnBlend]; tie_blend_wrapper
theorem tie_blendStraightHardLight : @Gen.Body.blendStraightHardLight α _ = Blend.blendStraight Blend.hardLightBlend := by
  unfold Gen.Body.blendStraightHardLight; rw [tie_hardLightBlend]; tie_blend_wrapper
theorem tie_blendStraightSoftLight : @Gen.Body.blendStraightSoftLight α _ = Blend.blendStraight Blend.softLightBlend := by
  unfold Gen.Body.blendStraightSoftLight; rw [tie_softLightBlend]; tie_blend_wrapper
theorem tie_blendStraightDifference : @Gen.Body.blendStraightDifference α _ = Blend.blendStraight Blend.differenceBlend := by
  unfold Gen.Body.blendStraightDifference; rw [tie_differenceBlend]; tie_blend_wrapper
theorem tie_blendStraightExclusion : @Gen.Body.blendStraightExclusion α _ = Blend.blendStraight Blend.exclusionBlend := by
  unfold Gen.Body.blendStraightExclusion; rw [tie_exclusionBlend]; tie_blend_wrapper

/-! ### Porter–Duff operators on premultiplied colours (blend/compose.rs `impl Compose for PreAlpha<C>`) -/
theorem tie_composePreOver : @Gen.Body.composePreOver α _ = Blend.composePre .over := by
  funext s d
  unfold Gen.Body.composePreOver Blend.composePre
  simp only []
  rw [← zipWith_eq_composeList]
  rfl
theorem tie_composePreInside : @Gen.Body.composePreInside α _ = Blend.composePre .inside := by
  funext s d
  unfold Gen.Body.composePreInside Blend.composePre
  simp only []
  rw [← zipWith_eq_composeList]
  rfl
theorem tie_composePreOutside : @Gen.Body.composePreOutside α _ = Blend.composePre .outside := by
  funext s d
  unfold Gen.Body.composePreOutside Blend.composePre
  simp only []
  rw [← zipWith_eq_composeList]
  rfl
theorem tie_composePreAtop : @Gen.Body.composePreAtop α _ = Blend.composePre .atop := by
  funext s d
  unfold Gen.Body.composePreAtop Blend.composePre
  simp only []
  rw [← zipWith_eq_composeList]
  rfl
theorem tie_composePreXor : @Gen.Body.composePreXor α _ = Blend.composePre .xor := by
  funext s d
  unfold Gen.Body.composePreXor Blend.composePre
  simp only []
  rw [← zipWith_eq_composeList]
  rfl
theorem tie_composePrePlus : @Gen.Body.composePrePlus α _ = Blend.composePre .plus := by
  funext s d
  unfold Gen.Body.composePrePlus Blend.composePre
  simp only []
  rw [← zipWith_eq_composeList]
  rfl

/-! ### the `Alpha` and opaque wrappers of `Compose` -/
theorem tie_composeStraightOver : @Gen.Body.composeStraightOver α _ = Blend.composeStraight .over := by
  unfold Gen.Body.composeStraightOver; rw [tie_composePreOver, tie_preAlphaUnpremultiply, tie_alphaPremultiply]; rfl
theorem tie_composeStraightInside : @Gen.Body.composeStraightInside α _ = Blend.composeStraight .inside := by
  unfold Gen.Body.composeStraightInside; rw [tie_composePreInside, tie_preAlphaUnpremultiply, tie_alphaPremultiply]; rfl
theorem tie_composeStraightOutside : @Gen.Body.composeStraightOutside α _ = Blend.composeStraight .outside := by
  unfold Gen.Body.composeStraightOutside; rw [tie_composePreOutside, tie_preAlphaUnpremultiply, tie_alphaPremultiply]; rfl
theorem tie_composeStraightAtop : @Gen.Body.composeStraightAtop α _ = Blend.composeStraight .atop := by
  unfold Gen.Body.composeStraightAtop; rw [tie_composePreAtop, tie_preAlphaUnpremultiply, tie_alphaPremultiply]; rfl
theorem tie_composeStraightXor : @Gen.Body.composeStraightXor α _ = Blend.composeStraight .xor := by
  unfold Gen.Body.composeStraightXor; rw [tie_composePreXor, tie_preAlphaUnpremultiply, tie_alphaPremultiply]; rfl
theorem tie_composeStraightPlus : @Gen.Body.composeStraightPlus α _ = Blend.composeStraight .plus := by
  unfold Gen.Body.composeStraightPlus; rw [tie_composePrePlus, tie_preAlphaUnpremultiply, tie_alphaPremultiply]; rfl
theorem tie_composeOpaqueOver : @Gen.Body.composeOpaqueOver α _ = Blend.composeOpaque .over := by
  unfold Gen.Body.composeOpaqueOver; rw [tie_composePreOver, tie_preAlphaUnpremultiply, tie_preAlphaNewOpaque]; rfl
theorem tie_composeOpaqueInside : @Gen.Body.composeOpaqueInside α _ = Blend.composeOpaque .inside := by
  unfold Gen.Body.composeOpaqueInside; rw [tie_composePreInside, tie_preAlphaUnpremultiply, tie_preAlphaNewOpaque]; rfl
theorem tie_composeOpaqueOutside : @Gen.Body.composeOpaqueOutside α _ = Blend.composeOpaque .outside := by
  unfold Gen.Body.composeOpaqueOutside; rw [tie_composePreOutside, tie_preAlphaUnpremultiply, tie_preAlphaNewOpaque]; rfl
theorem tie_composeOpaqueAtop : @Gen.Body.composeOpaqueAtop α _ = Blend.composeOpaque .atop := by
  unfold Gen.Body.composeOpaqueAtop; rw [tie_composePreAtop, tie_preAlphaUnpremultiply, tie_preAlphaNewOpaque]; rfl
theorem tie_composeOpaqueXor : @Gen.Body.composeOpaqueXor α _ = Blend.composeOpaque .xor := by
  unfold Gen.Body.composeOpaqueXor; rw [tie_composePreXor, tie_preAlphaUnpremultiply, tie_preAlphaNewOpaque]; rfl
theorem tie_composeOpaquePlus : @Gen.Body.composeOpaquePlus α _ = Blend.composeOpaque .plus := by
  unfold Gen.Body.composeOpaquePlus; rw [tie_composePrePlus, tie_preAlphaUnpremultiply, tie_preAlphaNewOpaque]; rfl

/-! ### `blend_with` (blend/blend_with.rs): the blend function is a parameter -/
theorem tie_blendWithStraight : @Gen.Body.blendWithStraight α _ = fun s d f => Blend.viaStraight f s d := rfl
theorem tie_blendWithOpaque : @Gen.Body.blendWithOpaque α _ = fun s d f => Blend.viaOpaque f s d := rfl

/-! ### `Equations` (blend/equations.rs) -/
theorem tie_paramOutMulConstant : @Gen.Body.paramOutMulConstant α _ = Blend.ParamOut.mulConstant := by
  funext p o; cases p <;> rfl
theorem tie_paramOutMulColor : @Gen.Body.paramOutMulColor α _ = Blend.ParamOut.mulColor := by
  funext p o; cases p <;> rfl
/-- the source selects the operation by a `match` that yields a closure and tests `matches!(.., Min | Max)`; the model by `Equation.op` /
    `Equation.isMinMax`: the same five cases twice (colour equation × alpha equation) -/
theorem tie_equationsApplyTo : @Gen.Body.equationsApplyTo α _ = Blend.Equations.applyTo := by
  funext e s d
  obtain ⟨ce, ae, cs, cd, as, ad⟩ := e
  unfold Gen.Body.equationsApplyTo Blend.Equations.applyTo
  rw [tie_paramOutMulColor, tie_paramOutMulConstant]
  cases ce <;> cases ae <;>
    simp only [Blend.Equation.isMinMax, Blend.Equation.op, zipWith_eq_zipOp, if_true, if_false, Bool.false_eq_true] <;> rfl

end Tie
