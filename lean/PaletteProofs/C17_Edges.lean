/-
  C17 — every conversion edge that compiles for the SIMD component types: **each lane equals the scalar result**, as instances of the
  lifting lemma.  (GENERATED text layout, plain Lean: one block per edge.)

  Per edge `f` (mask-generic body `Gen.BodyV.f`, re-translated from the Rust text on every run, or glue from `SimdOps.lean`):

  * `f_reified` — the body instantiated at the term algebra `Tm` is a term that (i) evaluates, under the interpretation given by
    *any* instances of the interface, to the body at those instances and (ii) uses only the operations of the stated set: `exactOps`
    or `exactPlus [the non-exact operations the edge uses]`.  Both by `rfl` (kernel evaluation of the syntax).
  * `f_wide` — the parameterised statement.  `W`: **any** implementation of the interface on `Fin n → α` (think: the `wide` type);
    `V`: what one lane computes; assumed: `W` acts lane by lane as `V` *on the operations the edge uses*, and `V` agrees with the
    scalar type's own operations on `exactOps`.  Then lane `i` of the edge computed with `W` is
      - exact-class edges: the **hand model's scalar function** (`Cie.*`, `RgbFam.*`, `Ok.*`, `Transfer.*`, `Blend.*`) at lane `i`'s
        input — bit-identical, whatever `wide` does for `powf`, `sin`, `neg`, …;
      - edges that use approximated operations: the hand model's scalar function *read at `withApprox S V` / `V.angle`*, i.e. the
        same formula with exactly those operations replaced by what a lane of `wide` computes — the conclusion is exact, the only
        difference to the scalar result is the accuracy of the replaced operations themselves (oracle).
  * `f_lanes` — the model's own SIMD representation (`Simd.lanes`: every operation lifted pointwise from the scalar type's, the one
    the driver replays against `wide`): lane `i` of the body at `Lanes n α` = the hand model's function at lane `i`, any `n`.

  `nonExact_table` (end of file) is the decided table "edge ↦ non-exact operations it uses"; it is the oracle's `exact()` / `approx()`
  classification (harness/src/c17.rs), now derived from the source text.
-/
import PaletteProofs.C17_Shapes
import PaletteProofs.C17_TieOps

namespace C17
open Simd

theorem sub_all (P : Op → Bool) : ∀ o, P o = true → allOps o = true := fun _ _ => rfl

/-! ### `UnsignedAngle::normalize_unsigned_angle` (the `impl_angle_wide_float!` text) -/
theorem angleNormalizeUnsigned_reified : Reified1 exactOps (fun x => Gen.BodyV.angleNormalizeUnsigned x) (Gen.BodyV.angleNormalizeUnsigned (Tm.var 0)) := ⟨fun _ => rfl, rfl⟩
theorem angleNormalizeUnsigned_wide {α : Type} [Scalar α] [Angle α] {n : Nat} (W : Ops (Lanes n α) (Lanes n Bool)) (V : Ops α Bool)
    (hW : LaneWise W V exactOps) (hV : AgreeOn V (scalarOps α) exactOps) (x : Lanes n α) (i : Fin n) :
    (@Gen.BodyV.angleNormalizeUnsigned _ _ W.vscalar x) i = RgbFam.normalizeUnsigned (x i) := by
  rw [angleNormalizeUnsigned_reified.exact W V hW hV, TieV.model_normalizeUnsigned]
theorem angleNormalizeUnsigned_lanes {α : Type} [Scalar α] {n : Nat} (x : Lanes n α) (i : Fin n) :
    (Gen.BodyV.angleNormalizeUnsigned x) i = RgbFam.normalizeUnsigned (x i) := by
  have h := @Reified1.lanes _ _ _ angleNormalizeUnsigned_reified α Bool _ _ ⟨0.0, id, id, fun a _ => a⟩ n x i
  rw [TieV.model_normalizeUnsigned] at h; exact h

/-! ### `SignedAngle::normalize_signed_angle` (the `impl_angle_wide_float!` text) -/
theorem angleNormalizeSigned_reified : Reified1 exactOps (fun x => Gen.BodyV.angleNormalizeSigned x) (Gen.BodyV.angleNormalizeSigned (Tm.var 0)) := ⟨fun _ => rfl, rfl⟩
theorem angleNormalizeSigned_wide {α : Type} [Scalar α] [Angle α] {n : Nat} (W : Ops (Lanes n α) (Lanes n Bool)) (V : Ops α Bool)
    (hW : LaneWise W V exactOps) (hV : AgreeOn V (scalarOps α) exactOps) (x : Lanes n α) (i : Fin n) :
    (@Gen.BodyV.angleNormalizeSigned _ _ W.vscalar x) i = Ops.normSigned (x i) := by
  rw [angleNormalizeSigned_reified.exact W V hW hV, TieV.tieV_angleNormalizeSigned]
theorem angleNormalizeSigned_lanes {α : Type} [Scalar α] {n : Nat} (x : Lanes n α) (i : Fin n) :
    (Gen.BodyV.angleNormalizeSigned x) i = Ops.normSigned (x i) := by
  have h := @Reified1.lanes _ _ _ angleNormalizeSigned_reified α Bool _ _ ⟨0.0, id, id, fun a _ => a⟩ n x i
  rw [TieV.tieV_angleNormalizeSigned] at h; exact h

/-! ### sRGB decoding -/
theorem srgbIntoLinear_reified : Reified1 (exactPlus [.powf, .mulAdd]) (fun x => Gen.BodyV.srgbIntoLinear x) (Gen.BodyV.srgbIntoLinear (Tm.var 0)) := ⟨fun _ => rfl, rfl⟩
theorem srgbIntoLinear_wide {α : Type} [S : Scalar α] [Angle α] {n : Nat} (W : Ops (Lanes n α) (Lanes n Bool)) (V : Ops α Bool)
    (hW : LaneWise W V (exactPlus [.powf, .mulAdd])) (hV : AgreeOn V (scalarOps α) exactOps) (x : Lanes n α) (i : Fin n) :
    (@Gen.BodyV.srgbIntoLinear _ _ W.vscalar W.vfused x) i = @Transfer.srgbIntoLinear α (withApprox S V) (x i) := by
  rw [srgbIntoLinear_reified.approx W V hW ((agreeOn_withApprox V hV).mono (by intro o; cases o <;> decide))]
  exact congrFun (@TieV.model_srgbIntoLinear α (withApprox S V)) _
theorem srgbIntoLinear_lanes {α : Type} [Scalar α] {n : Nat} (x : Lanes n α) (i : Fin n) :
    (Gen.BodyV.srgbIntoLinear x) i = Transfer.srgbIntoLinear (x i) := by
  have h := @Reified1.lanes _ _ _ srgbIntoLinear_reified α Bool _ _ ⟨0.0, id, id, fun a _ => a⟩ n x i
  rw [TieV.model_srgbIntoLinear] at h; exact h

/-! ### sRGB encoding -/
theorem srgbFromLinear_reified : Reified1 (exactPlus [.mulSub, .powf]) (fun x => Gen.BodyV.srgbFromLinear x) (Gen.BodyV.srgbFromLinear (Tm.var 0)) := ⟨fun _ => rfl, rfl⟩
theorem srgbFromLinear_wide {α : Type} [S : Scalar α] [Angle α] {n : Nat} (W : Ops (Lanes n α) (Lanes n Bool)) (V : Ops α Bool)
    (hW : LaneWise W V (exactPlus [.mulSub, .powf])) (hV : AgreeOn V (scalarOps α) exactOps) (hms : ∀ x m s, V.mulSub x m s = V.sub (V.mul x m) s) (x : Lanes n α) (i : Fin n) :
    (@Gen.BodyV.srgbFromLinear _ _ W.vscalar W.vfused x) i = @Transfer.srgbFromLinear α (withApprox S V) (x i) := by
  rw [srgbFromLinear_reified.approx W V hW ((agreeOn_withApprox_all V hV hms).mono (sub_all _))]
  exact congrFun (@TieV.model_srgbFromLinear α (withApprox S V)) _
theorem srgbFromLinear_lanes {α : Type} [Scalar α] {n : Nat} (x : Lanes n α) (i : Fin n) :
    (Gen.BodyV.srgbFromLinear x) i = Transfer.srgbFromLinear (x i) := by
  have h := @Reified1.lanes _ _ _ srgbFromLinear_reified α Bool _ _ ⟨0.0, id, id, fun a _ => a⟩ n x i
  rw [TieV.model_srgbFromLinear] at h; exact h

/-! ### Rec. 709/2020 decoding -/
theorem recIntoLinear_reified : Reified1 (exactPlus [.powf, .mulAdd]) (fun x => Gen.BodyV.recIntoLinear x) (Gen.BodyV.recIntoLinear (Tm.var 0)) := ⟨fun _ => rfl, rfl⟩
theorem recIntoLinear_wide {α : Type} [S : Scalar α] [Angle α] {n : Nat} (W : Ops (Lanes n α) (Lanes n Bool)) (V : Ops α Bool)
    (hW : LaneWise W V (exactPlus [.powf, .mulAdd])) (hV : AgreeOn V (scalarOps α) exactOps) (x : Lanes n α) (i : Fin n) :
    (@Gen.BodyV.recIntoLinear _ _ W.vscalar W.vfused x) i = @Transfer.recIntoLinear α (withApprox S V) (x i) := by
  rw [recIntoLinear_reified.approx W V hW ((agreeOn_withApprox V hV).mono (by intro o; cases o <;> decide))]
  exact congrFun (@TieV.model_recIntoLinear α (withApprox S V)) _
theorem recIntoLinear_lanes {α : Type} [Scalar α] {n : Nat} (x : Lanes n α) (i : Fin n) :
    (Gen.BodyV.recIntoLinear x) i = Transfer.recIntoLinear (x i) := by
  have h := @Reified1.lanes _ _ _ recIntoLinear_reified α Bool _ _ ⟨0.0, id, id, fun a _ => a⟩ n x i
  rw [TieV.model_recIntoLinear] at h; exact h

/-! ### Rec. 709/2020 encoding -/
theorem recFromLinear_reified : Reified1 (exactPlus [.mulSub, .powf]) (fun x => Gen.BodyV.recFromLinear x) (Gen.BodyV.recFromLinear (Tm.var 0)) := ⟨fun _ => rfl, rfl⟩
theorem recFromLinear_wide {α : Type} [S : Scalar α] [Angle α] {n : Nat} (W : Ops (Lanes n α) (Lanes n Bool)) (V : Ops α Bool)
    (hW : LaneWise W V (exactPlus [.mulSub, .powf])) (hV : AgreeOn V (scalarOps α) exactOps) (hms : ∀ x m s, V.mulSub x m s = V.sub (V.mul x m) s) (x : Lanes n α) (i : Fin n) :
    (@Gen.BodyV.recFromLinear _ _ W.vscalar W.vfused x) i = @Transfer.recFromLinear α (withApprox S V) (x i) := by
  rw [recFromLinear_reified.approx W V hW ((agreeOn_withApprox_all V hV hms).mono (sub_all _))]
  exact congrFun (@TieV.model_recFromLinear α (withApprox S V)) _
theorem recFromLinear_lanes {α : Type} [Scalar α] {n : Nat} (x : Lanes n α) (i : Fin n) :
    (Gen.BodyV.recFromLinear x) i = Transfer.recFromLinear (x i) := by
  have h := @Reified1.lanes _ _ _ recFromLinear_reified α Bool _ _ ⟨0.0, id, id, fun a _ => a⟩ n x i
  rw [TieV.model_recFromLinear] at h; exact h

/-! ### Adobe RGB decoding -/
theorem adobeIntoLinear_reified : Reified1 (exactPlus [.powf]) (fun x => Gen.BodyV.adobeIntoLinear x) (Gen.BodyV.adobeIntoLinear (Tm.var 0)) := ⟨fun _ => rfl, rfl⟩
theorem adobeIntoLinear_wide {α : Type} [S : Scalar α] [Angle α] {n : Nat} (W : Ops (Lanes n α) (Lanes n Bool)) (V : Ops α Bool)
    (hW : LaneWise W V (exactPlus [.powf])) (hV : AgreeOn V (scalarOps α) exactOps) (x : Lanes n α) (i : Fin n) :
    (@Gen.BodyV.adobeIntoLinear _ _ W.vscalar x) i = @Transfer.adobeIntoLinear α (withApprox S V) (x i) := by
  rw [adobeIntoLinear_reified.approx W V hW ((agreeOn_withApprox V hV).mono (by intro o; cases o <;> decide))]
  exact congrFun (@TieV.model_adobeIntoLinear α (withApprox S V)) _
theorem adobeIntoLinear_lanes {α : Type} [Scalar α] {n : Nat} (x : Lanes n α) (i : Fin n) :
    (Gen.BodyV.adobeIntoLinear x) i = Transfer.adobeIntoLinear (x i) := by
  have h := @Reified1.lanes _ _ _ adobeIntoLinear_reified α Bool _ _ ⟨0.0, id, id, fun a _ => a⟩ n x i
  rw [TieV.model_adobeIntoLinear] at h; exact h

/-! ### Adobe RGB encoding -/
theorem adobeFromLinear_reified : Reified1 (exactPlus [.powf]) (fun x => Gen.BodyV.adobeFromLinear x) (Gen.BodyV.adobeFromLinear (Tm.var 0)) := ⟨fun _ => rfl, rfl⟩
theorem adobeFromLinear_wide {α : Type} [S : Scalar α] [Angle α] {n : Nat} (W : Ops (Lanes n α) (Lanes n Bool)) (V : Ops α Bool)
    (hW : LaneWise W V (exactPlus [.powf])) (hV : AgreeOn V (scalarOps α) exactOps) (x : Lanes n α) (i : Fin n) :
    (@Gen.BodyV.adobeFromLinear _ _ W.vscalar x) i = @Transfer.adobeFromLinear α (withApprox S V) (x i) := by
  rw [adobeFromLinear_reified.approx W V hW ((agreeOn_withApprox V hV).mono (by intro o; cases o <;> decide))]
  exact congrFun (@TieV.model_adobeFromLinear α (withApprox S V)) _
theorem adobeFromLinear_lanes {α : Type} [Scalar α] {n : Nat} (x : Lanes n α) (i : Fin n) :
    (Gen.BodyV.adobeFromLinear x) i = Transfer.adobeFromLinear (x i) := by
  have h := @Reified1.lanes _ _ _ adobeFromLinear_reified α Bool _ _ ⟨0.0, id, id, fun a _ => a⟩ n x i
  rw [TieV.model_adobeFromLinear] at h; exact h

/-! ### DCI-P3 decoding -/
theorem p3IntoLinear_reified : Reified1 (exactPlus [.powf]) (fun x => Gen.BodyV.p3IntoLinear x) (Gen.BodyV.p3IntoLinear (Tm.var 0)) := ⟨fun _ => rfl, rfl⟩
theorem p3IntoLinear_wide {α : Type} [S : Scalar α] [Angle α] {n : Nat} (W : Ops (Lanes n α) (Lanes n Bool)) (V : Ops α Bool)
    (hW : LaneWise W V (exactPlus [.powf])) (hV : AgreeOn V (scalarOps α) exactOps) (x : Lanes n α) (i : Fin n) :
    (@Gen.BodyV.p3IntoLinear _ _ W.vscalar x) i = @Transfer.p3IntoLinear α (withApprox S V) (x i) := by
  rw [p3IntoLinear_reified.approx W V hW ((agreeOn_withApprox V hV).mono (by intro o; cases o <;> decide))]
  exact congrFun (@TieV.model_p3IntoLinear α (withApprox S V)) _
theorem p3IntoLinear_lanes {α : Type} [Scalar α] {n : Nat} (x : Lanes n α) (i : Fin n) :
    (Gen.BodyV.p3IntoLinear x) i = Transfer.p3IntoLinear (x i) := by
  have h := @Reified1.lanes _ _ _ p3IntoLinear_reified α Bool _ _ ⟨0.0, id, id, fun a _ => a⟩ n x i
  rw [TieV.model_p3IntoLinear] at h; exact h

/-! ### DCI-P3 encoding -/
theorem p3FromLinear_reified : Reified1 (exactPlus [.powf]) (fun x => Gen.BodyV.p3FromLinear x) (Gen.BodyV.p3FromLinear (Tm.var 0)) := ⟨fun _ => rfl, rfl⟩
theorem p3FromLinear_wide {α : Type} [S : Scalar α] [Angle α] {n : Nat} (W : Ops (Lanes n α) (Lanes n Bool)) (V : Ops α Bool)
    (hW : LaneWise W V (exactPlus [.powf])) (hV : AgreeOn V (scalarOps α) exactOps) (x : Lanes n α) (i : Fin n) :
    (@Gen.BodyV.p3FromLinear _ _ W.vscalar x) i = @Transfer.p3FromLinear α (withApprox S V) (x i) := by
  rw [p3FromLinear_reified.approx W V hW ((agreeOn_withApprox V hV).mono (by intro o; cases o <;> decide))]
  exact congrFun (@TieV.model_p3FromLinear α (withApprox S V)) _
theorem p3FromLinear_lanes {α : Type} [Scalar α] {n : Nat} (x : Lanes n α) (i : Fin n) :
    (Gen.BodyV.p3FromLinear x) i = Transfer.p3FromLinear (x i) := by
  have h := @Reified1.lanes _ _ _ p3FromLinear_reified α Bool _ _ ⟨0.0, id, id, fun a _ => a⟩ n x i
  rw [TieV.model_p3FromLinear] at h; exact h

/-! ### ProPhoto decoding -/
theorem prophotoIntoLinear_reified : Reified1 (exactPlus [.powf]) (fun x => Gen.BodyV.prophotoIntoLinear x) (Gen.BodyV.prophotoIntoLinear (Tm.var 0)) := ⟨fun _ => rfl, rfl⟩
theorem prophotoIntoLinear_wide {α : Type} [S : Scalar α] [Angle α] {n : Nat} (W : Ops (Lanes n α) (Lanes n Bool)) (V : Ops α Bool)
    (hW : LaneWise W V (exactPlus [.powf])) (hV : AgreeOn V (scalarOps α) exactOps) (x : Lanes n α) (i : Fin n) :
    (@Gen.BodyV.prophotoIntoLinear _ _ W.vscalar x) i = @Transfer.prophotoIntoLinear α (withApprox S V) (x i) := by
  rw [prophotoIntoLinear_reified.approx W V hW ((agreeOn_withApprox V hV).mono (by intro o; cases o <;> decide))]
  exact congrFun (@TieV.model_prophotoIntoLinear α (withApprox S V)) _
theorem prophotoIntoLinear_lanes {α : Type} [Scalar α] {n : Nat} (x : Lanes n α) (i : Fin n) :
    (Gen.BodyV.prophotoIntoLinear x) i = Transfer.prophotoIntoLinear (x i) := by
  have h := @Reified1.lanes _ _ _ prophotoIntoLinear_reified α Bool _ _ ⟨0.0, id, id, fun a _ => a⟩ n x i
  rw [TieV.model_prophotoIntoLinear] at h; exact h

/-! ### ProPhoto encoding -/
theorem prophotoFromLinear_reified : Reified1 (exactPlus [.powf]) (fun x => Gen.BodyV.prophotoFromLinear x) (Gen.BodyV.prophotoFromLinear (Tm.var 0)) := ⟨fun _ => rfl, rfl⟩
theorem prophotoFromLinear_wide {α : Type} [S : Scalar α] [Angle α] {n : Nat} (W : Ops (Lanes n α) (Lanes n Bool)) (V : Ops α Bool)
    (hW : LaneWise W V (exactPlus [.powf])) (hV : AgreeOn V (scalarOps α) exactOps) (x : Lanes n α) (i : Fin n) :
    (@Gen.BodyV.prophotoFromLinear _ _ W.vscalar x) i = @Transfer.prophotoFromLinear α (withApprox S V) (x i) := by
  rw [prophotoFromLinear_reified.approx W V hW ((agreeOn_withApprox V hV).mono (by intro o; cases o <;> decide))]
  exact congrFun (@TieV.model_prophotoFromLinear α (withApprox S V)) _
theorem prophotoFromLinear_lanes {α : Type} [Scalar α] {n : Nat} (x : Lanes n α) (i : Fin n) :
    (Gen.BodyV.prophotoFromLinear x) i = Transfer.prophotoFromLinear (x i) := by
  have h := @Reified1.lanes _ _ _ prophotoFromLinear_reified α Bool _ _ ⟨0.0, id, id, fun a _ => a⟩ n x i
  rw [TieV.model_prophotoFromLinear] at h; exact h

/-! ### `GammaFn<F2p2>` decoding -/
theorem gammaIntoLinear_reified : Reified1 (exactPlus [.powf]) (fun x => Gen.BodyV.gammaIntoLinear x) (Gen.BodyV.gammaIntoLinear (Tm.var 0)) := ⟨fun _ => rfl, rfl⟩
theorem gammaIntoLinear_wide {α : Type} [S : Scalar α] [Angle α] {n : Nat} (W : Ops (Lanes n α) (Lanes n Bool)) (V : Ops α Bool)
    (hW : LaneWise W V (exactPlus [.powf])) (hV : AgreeOn V (scalarOps α) exactOps) (x : Lanes n α) (i : Fin n) :
    (@Gen.BodyV.gammaIntoLinear _ _ W.vscalar x) i = @Transfer.gammaIntoLinear α (withApprox S V) (x i) := by
  rw [gammaIntoLinear_reified.approx W V hW ((agreeOn_withApprox V hV).mono (by intro o; cases o <;> decide))]
  exact congrFun (@TieV.model_gammaIntoLinear α (withApprox S V)) _
theorem gammaIntoLinear_lanes {α : Type} [Scalar α] {n : Nat} (x : Lanes n α) (i : Fin n) :
    (Gen.BodyV.gammaIntoLinear x) i = Transfer.gammaIntoLinear (x i) := by
  have h := @Reified1.lanes _ _ _ gammaIntoLinear_reified α Bool _ _ ⟨0.0, id, id, fun a _ => a⟩ n x i
  rw [TieV.model_gammaIntoLinear] at h; exact h

/-! ### `GammaFn<F2p2>` encoding -/
theorem gammaFromLinear_reified : Reified1 (exactPlus [.powf]) (fun x => Gen.BodyV.gammaFromLinear x) (Gen.BodyV.gammaFromLinear (Tm.var 0)) := ⟨fun _ => rfl, rfl⟩
theorem gammaFromLinear_wide {α : Type} [S : Scalar α] [Angle α] {n : Nat} (W : Ops (Lanes n α) (Lanes n Bool)) (V : Ops α Bool)
    (hW : LaneWise W V (exactPlus [.powf])) (hV : AgreeOn V (scalarOps α) exactOps) (x : Lanes n α) (i : Fin n) :
    (@Gen.BodyV.gammaFromLinear _ _ W.vscalar x) i = @Transfer.gammaFromLinear α (withApprox S V) (x i) := by
  rw [gammaFromLinear_reified.approx W V hW ((agreeOn_withApprox V hV).mono (by intro o; cases o <;> decide))]
  exact congrFun (@TieV.model_gammaFromLinear α (withApprox S V)) _
theorem gammaFromLinear_lanes {α : Type} [Scalar α] {n : Nat} (x : Lanes n α) (i : Fin n) :
    (Gen.BodyV.gammaFromLinear x) i = Transfer.gammaFromLinear (x i) := by
  have h := @Reified1.lanes _ _ _ gammaFromLinear_reified α Bool _ _ ⟨0.0, id, id, fun a _ => a⟩ n x i
  rw [TieV.model_gammaFromLinear] at h; exact h

/-! ### `LabHue/LuvHue/OklabHue::from_cartesian` -/
theorem hueFromCartesian_reified : Reified2 (exactPlus [.radToDeg, .pi, .atan2, .neg]) (fun x y => Gen.BodyV.hueFromCartesian x y) (Gen.BodyV.hueFromCartesian (Tm.var 0) (Tm.var 1)) := ⟨fun _ _ => rfl, rfl⟩
theorem hueFromCartesian_wide {α : Type} [S : Scalar α] [Angle α] {n : Nat} (W : Ops (Lanes n α) (Lanes n Bool)) (V : Ops α Bool)
    (hW : LaneWise W V (exactPlus [.radToDeg, .pi, .atan2, .neg])) (hV : AgreeOn V (scalarOps α) exactOps) (x y : Lanes n α) (i : Fin n) :
    (@Gen.BodyV.hueFromCartesian _ _ W.vscalar W.angle x y) i = @Cie.hueFromCartesian α (withApprox S V) V.angle (x i) (y i) := by
  rw [hueFromCartesian_reified.approx W V hW ((agreeOn_withApprox V hV).mono (by intro o; cases o <;> decide))]
  exact congrFun (congrFun (@TieV.model_hueFromCartesian α (withApprox S V) V.angle) _) _
theorem hueFromCartesian_lanes {α : Type} [Scalar α] [Angle α] {n : Nat} (x y : Lanes n α) (i : Fin n) :
    (Gen.BodyV.hueFromCartesian x y) i = Cie.hueFromCartesian (x i) (y i) := by
  have h := hueFromCartesian_reified.lanes (α := α) x y i
  rw [TieV.model_hueFromCartesian] at h; exact h

/-! ### Xyz → Yxy -/
theorem xyzToYxy_reified : Reified3 exactOps (fun c => Gen.BodyV.xyzToYxy c) (Gen.BodyV.xyzToYxy (vars3 0)) := ⟨fun _ => rfl, rfl⟩
theorem xyzToYxy_wide {α : Type} [Scalar α] [Angle α] {n : Nat} (W : Ops (Lanes n α) (Lanes n Bool)) (V : Ops α Bool)
    (hW : LaneWise W V exactOps) (hV : AgreeOn V (scalarOps α) exactOps) (c : V3 (Lanes n α)) (i : Fin n) :
    unpack (@Gen.BodyV.xyzToYxy _ _ W.vscalar c) i = Cie.xyzToYxy (unpack c i) := by
  rw [xyzToYxy_reified.exact W V hW hV, TieV.model_xyzToYxy]
theorem xyzToYxy_lanes {α : Type} [Scalar α] {n : Nat} (c : V3 (Lanes n α)) (i : Fin n) :
    unpack (Gen.BodyV.xyzToYxy c) i = Cie.xyzToYxy (unpack c i) := by
  have h := @Reified3.lanes _ _ _ xyzToYxy_reified α Bool _ _ ⟨0.0, id, id, fun a _ => a⟩ n c i
  rw [TieV.model_xyzToYxy] at h; exact h

/-! ### Yxy → Xyz -/
theorem yxyToXyz_reified : Reified3 exactOps (fun c => Gen.BodyV.yxyToXyz c) (Gen.BodyV.yxyToXyz (vars3 0)) := ⟨fun _ => rfl, rfl⟩
theorem yxyToXyz_wide {α : Type} [Scalar α] [Angle α] {n : Nat} (W : Ops (Lanes n α) (Lanes n Bool)) (V : Ops α Bool)
    (hW : LaneWise W V exactOps) (hV : AgreeOn V (scalarOps α) exactOps) (c : V3 (Lanes n α)) (i : Fin n) :
    unpack (@Gen.BodyV.yxyToXyz _ _ W.vscalar c) i = Cie.yxyToXyz (unpack c i) := by
  rw [yxyToXyz_reified.exact W V hW hV, TieV.model_yxyToXyz]
theorem yxyToXyz_lanes {α : Type} [Scalar α] {n : Nat} (c : V3 (Lanes n α)) (i : Fin n) :
    unpack (Gen.BodyV.yxyToXyz c) i = Cie.yxyToXyz (unpack c i) := by
  have h := @Reified3.lanes _ _ _ yxyToXyz_reified α Bool _ _ ⟨0.0, id, id, fun a _ => a⟩ n c i
  rw [TieV.model_yxyToXyz] at h; exact h

/-! ### Xyz → Lab (first argument: the white point) -/
theorem xyzToLab_reified : Reified33 exactOps (fun w c => Gen.BodyV.xyzToLab w c) (Gen.BodyV.xyzToLab (vars3 0) (vars3 3)) := ⟨fun _ _ => rfl, rfl⟩
theorem xyzToLab_wide {α : Type} [Scalar α] [Angle α] {n : Nat} (W : Ops (Lanes n α) (Lanes n Bool)) (V : Ops α Bool)
    (hW : LaneWise W V exactOps) (hV : AgreeOn V (scalarOps α) exactOps) (w c : V3 (Lanes n α)) (i : Fin n) :
    unpack (@Gen.BodyV.xyzToLab _ _ W.vscalar w c) i = Cie.xyzToLab (unpack w i) (unpack c i) := by
  rw [xyzToLab_reified.exact W V hW hV, TieV.model_xyzToLab]
theorem xyzToLab_lanes {α : Type} [Scalar α] {n : Nat} (w c : V3 (Lanes n α)) (i : Fin n) :
    unpack (Gen.BodyV.xyzToLab w c) i = Cie.xyzToLab (unpack w i) (unpack c i) := by
  have h := @Reified33.lanes _ _ _ xyzToLab_reified α Bool _ _ ⟨0.0, id, id, fun a _ => a⟩ n w c i
  rw [TieV.model_xyzToLab] at h; exact h

/-! ### Lab → Xyz -/
theorem labToXyz_reified : Reified33 exactOps (fun w c => Gen.BodyV.labToXyz w c) (Gen.BodyV.labToXyz (vars3 0) (vars3 3)) := ⟨fun _ _ => rfl, rfl⟩
theorem labToXyz_wide {α : Type} [Scalar α] [Angle α] {n : Nat} (W : Ops (Lanes n α) (Lanes n Bool)) (V : Ops α Bool)
    (hW : LaneWise W V exactOps) (hV : AgreeOn V (scalarOps α) exactOps) (w c : V3 (Lanes n α)) (i : Fin n) :
    unpack (@Gen.BodyV.labToXyz _ _ W.vscalar w c) i = Cie.labToXyz (unpack w i) (unpack c i) := by
  rw [labToXyz_reified.exact W V hW hV, TieV.model_labToXyz]
theorem labToXyz_lanes {α : Type} [Scalar α] {n : Nat} (w c : V3 (Lanes n α)) (i : Fin n) :
    unpack (Gen.BodyV.labToXyz w c) i = Cie.labToXyz (unpack w i) (unpack c i) := by
  have h := @Reified33.lanes _ _ _ labToXyz_reified α Bool _ _ ⟨0.0, id, id, fun a _ => a⟩ n w c i
  rw [TieV.model_labToXyz] at h; exact h

/-! ### Lab → Lch -/
theorem labToLch_reified : Reified3 (exactPlus [.hypot, .radToDeg, .pi, .atan2, .neg]) (fun c => Gen.BodyV.labToLch c) (Gen.BodyV.labToLch (vars3 0)) := ⟨fun _ => rfl, rfl⟩
theorem labToLch_wide {α : Type} [S : Scalar α] [Angle α] {n : Nat} (W : Ops (Lanes n α) (Lanes n Bool)) (V : Ops α Bool)
    (hW : LaneWise W V (exactPlus [.hypot, .radToDeg, .pi, .atan2, .neg])) (hV : AgreeOn V (scalarOps α) exactOps) (c : V3 (Lanes n α)) (i : Fin n) :
    unpack (@Gen.BodyV.labToLch _ _ W.vscalar W.angle c) i = @Cie.labToLch α (withApprox S V) V.angle (unpack c i) := by
  rw [labToLch_reified.approx W V hW ((agreeOn_withApprox V hV).mono (by intro o; cases o <;> decide))]
  exact congrFun (@TieV.model_labToLch α (withApprox S V) V.angle) _
theorem labToLch_lanes {α : Type} [Scalar α] [Angle α] {n : Nat} (c : V3 (Lanes n α)) (i : Fin n) :
    unpack (Gen.BodyV.labToLch c) i = Cie.labToLch (unpack c i) := by
  have h := labToLch_reified.lanes (α := α) c i
  rw [TieV.model_labToLch] at h; exact h

/-! ### Lch → Lab -/
theorem lchToLab_reified : Reified3 (exactPlus [.cos, .degToRad, .sin]) (fun c => Gen.BodyV.lchToLab c) (Gen.BodyV.lchToLab (vars3 0)) := ⟨fun _ => rfl, rfl⟩
theorem lchToLab_wide {α : Type} [S : Scalar α] [Angle α] {n : Nat} (W : Ops (Lanes n α) (Lanes n Bool)) (V : Ops α Bool)
    (hW : LaneWise W V (exactPlus [.cos, .degToRad, .sin])) (hV : AgreeOn V (scalarOps α) exactOps) (c : V3 (Lanes n α)) (i : Fin n) :
    unpack (@Gen.BodyV.lchToLab _ _ W.vscalar W.angle c) i = @Cie.lchToLab α (withApprox S V) V.angle (unpack c i) := by
  rw [lchToLab_reified.approx W V hW ((agreeOn_withApprox V hV).mono (by intro o; cases o <;> decide))]
  exact congrFun (@TieV.model_lchToLab α (withApprox S V) V.angle) _
theorem lchToLab_lanes {α : Type} [Scalar α] [Angle α] {n : Nat} (c : V3 (Lanes n α)) (i : Fin n) :
    unpack (Gen.BodyV.lchToLab c) i = Cie.lchToLab (unpack c i) := by
  have h := lchToLab_reified.lanes (α := α) c i
  rw [TieV.model_lchToLab] at h; exact h

/-! ### Luv → Lchuv -/
theorem luvToLchuv_reified : Reified3 (exactPlus [.hypot, .radToDeg, .pi, .atan2, .neg]) (fun c => Gen.BodyV.luvToLchuv c) (Gen.BodyV.luvToLchuv (vars3 0)) := ⟨fun _ => rfl, rfl⟩
theorem luvToLchuv_wide {α : Type} [S : Scalar α] [Angle α] {n : Nat} (W : Ops (Lanes n α) (Lanes n Bool)) (V : Ops α Bool)
    (hW : LaneWise W V (exactPlus [.hypot, .radToDeg, .pi, .atan2, .neg])) (hV : AgreeOn V (scalarOps α) exactOps) (c : V3 (Lanes n α)) (i : Fin n) :
    unpack (@Gen.BodyV.luvToLchuv _ _ W.vscalar W.angle c) i = @Cie.luvToLchuv α (withApprox S V) V.angle (unpack c i) := by
  rw [luvToLchuv_reified.approx W V hW ((agreeOn_withApprox V hV).mono (by intro o; cases o <;> decide))]
  exact congrFun (@TieV.model_luvToLchuv α (withApprox S V) V.angle) _
theorem luvToLchuv_lanes {α : Type} [Scalar α] [Angle α] {n : Nat} (c : V3 (Lanes n α)) (i : Fin n) :
    unpack (Gen.BodyV.luvToLchuv c) i = Cie.luvToLchuv (unpack c i) := by
  have h := luvToLchuv_reified.lanes (α := α) c i
  rw [TieV.model_luvToLchuv] at h; exact h

/-! ### Lchuv → Luv -/
theorem lchuvToLuv_reified : Reified3 (exactPlus [.cos, .degToRad, .sin]) (fun c => Gen.BodyV.lchuvToLuv c) (Gen.BodyV.lchuvToLuv (vars3 0)) := ⟨fun _ => rfl, rfl⟩
theorem lchuvToLuv_wide {α : Type} [S : Scalar α] [Angle α] {n : Nat} (W : Ops (Lanes n α) (Lanes n Bool)) (V : Ops α Bool)
    (hW : LaneWise W V (exactPlus [.cos, .degToRad, .sin])) (hV : AgreeOn V (scalarOps α) exactOps) (c : V3 (Lanes n α)) (i : Fin n) :
    unpack (@Gen.BodyV.lchuvToLuv _ _ W.vscalar W.angle c) i = @Cie.lchuvToLuv α (withApprox S V) V.angle (unpack c i) := by
  rw [lchuvToLuv_reified.approx W V hW ((agreeOn_withApprox V hV).mono (by intro o; cases o <;> decide))]
  exact congrFun (@TieV.model_lchuvToLuv α (withApprox S V) V.angle) _
theorem lchuvToLuv_lanes {α : Type} [Scalar α] [Angle α] {n : Nat} (c : V3 (Lanes n α)) (i : Fin n) :
    unpack (Gen.BodyV.lchuvToLuv c) i = Cie.lchuvToLuv (unpack c i) := by
  have h := lchuvToLuv_reified.lanes (α := α) c i
  rw [TieV.model_lchuvToLuv] at h; exact h

/-! ### Rgb → Hsv, the branch taken when `T::Mask ≠ bool` -/
theorem rgbToHsvMask_reified : Reified3 (exactPlus [.neg]) (fun c => Gen.BodyV.rgbToHsvMask c) (Gen.BodyV.rgbToHsvMask (vars3 0)) := ⟨fun _ => rfl, rfl⟩
theorem rgbToHsvMask_wide {α : Type} [S : Scalar α] [Angle α] {n : Nat} (W : Ops (Lanes n α) (Lanes n Bool)) (V : Ops α Bool)
    (hW : LaneWise W V (exactPlus [.neg])) (hV : AgreeOn V (scalarOps α) exactOps) (c : V3 (Lanes n α)) (i : Fin n) :
    unpack (@Gen.BodyV.rgbToHsvMask _ _ W.vscalar c) i = @RgbFam.rgbToHsvMask α (withApprox S V) (unpack c i) := by
  rw [rgbToHsvMask_reified.approx W V hW ((agreeOn_withApprox V hV).mono (by intro o; cases o <;> decide))]
  exact congrFun (@TieV.model_rgbToHsvMask α (withApprox S V)) _
theorem rgbToHsvMask_lanes {α : Type} [Scalar α] {n : Nat} (c : V3 (Lanes n α)) (i : Fin n) :
    unpack (Gen.BodyV.rgbToHsvMask c) i = RgbFam.rgbToHsvMask (unpack c i) := by
  have h := @Reified3.lanes _ _ _ rgbToHsvMask_reified α Bool _ _ ⟨0.0, id, id, fun a _ => a⟩ n c i
  rw [TieV.model_rgbToHsvMask] at h; exact h

/-! ### Rgb → Hsl, the branch taken when `T::Mask ≠ bool` -/
theorem rgbToHslMask_reified : Reified3 (exactPlus [.neg]) (fun c => Gen.BodyV.rgbToHslMask c) (Gen.BodyV.rgbToHslMask (vars3 0)) := ⟨fun _ => rfl, rfl⟩
theorem rgbToHslMask_wide {α : Type} [S : Scalar α] [Angle α] {n : Nat} (W : Ops (Lanes n α) (Lanes n Bool)) (V : Ops α Bool)
    (hW : LaneWise W V (exactPlus [.neg])) (hV : AgreeOn V (scalarOps α) exactOps) (c : V3 (Lanes n α)) (i : Fin n) :
    unpack (@Gen.BodyV.rgbToHslMask _ _ W.vscalar c) i = @RgbFam.rgbToHslMask α (withApprox S V) (unpack c i) := by
  rw [rgbToHslMask_reified.approx W V hW ((agreeOn_withApprox V hV).mono (by intro o; cases o <;> decide))]
  exact congrFun (@TieV.model_rgbToHslMask α (withApprox S V)) _
theorem rgbToHslMask_lanes {α : Type} [Scalar α] {n : Nat} (c : V3 (Lanes n α)) (i : Fin n) :
    unpack (Gen.BodyV.rgbToHslMask c) i = RgbFam.rgbToHslMask (unpack c i) := by
  have h := @Reified3.lanes _ _ _ rgbToHslMask_reified α Bool _ _ ⟨0.0, id, id, fun a _ => a⟩ n c i
  rw [TieV.model_rgbToHslMask] at h; exact h

/-! ### Hsv → Rgb -/
theorem hsvToRgb_reified : Reified3 exactOps (fun c => Gen.BodyV.hsvToRgb c) (Gen.BodyV.hsvToRgb (vars3 0)) := ⟨fun _ => rfl, rfl⟩
theorem hsvToRgb_wide {α : Type} [Scalar α] [Angle α] {n : Nat} (W : Ops (Lanes n α) (Lanes n Bool)) (V : Ops α Bool)
    (hW : LaneWise W V exactOps) (hV : AgreeOn V (scalarOps α) exactOps) (c : V3 (Lanes n α)) (i : Fin n) :
    unpack (@Gen.BodyV.hsvToRgb _ _ W.vscalar c) i = RgbFam.hsvToRgb (unpack c i) := by
  rw [hsvToRgb_reified.exact W V hW hV, TieV.model_hsvToRgb]
theorem hsvToRgb_lanes {α : Type} [Scalar α] {n : Nat} (c : V3 (Lanes n α)) (i : Fin n) :
    unpack (Gen.BodyV.hsvToRgb c) i = RgbFam.hsvToRgb (unpack c i) := by
  have h := @Reified3.lanes _ _ _ hsvToRgb_reified α Bool _ _ ⟨0.0, id, id, fun a _ => a⟩ n c i
  rw [TieV.model_hsvToRgb] at h; exact h

/-! ### Hsl → Rgb -/
theorem hslToRgb_reified : Reified3 exactOps (fun c => Gen.BodyV.hslToRgb c) (Gen.BodyV.hslToRgb (vars3 0)) := ⟨fun _ => rfl, rfl⟩
theorem hslToRgb_wide {α : Type} [Scalar α] [Angle α] {n : Nat} (W : Ops (Lanes n α) (Lanes n Bool)) (V : Ops α Bool)
    (hW : LaneWise W V exactOps) (hV : AgreeOn V (scalarOps α) exactOps) (c : V3 (Lanes n α)) (i : Fin n) :
    unpack (@Gen.BodyV.hslToRgb _ _ W.vscalar c) i = RgbFam.hslToRgb (unpack c i) := by
  rw [hslToRgb_reified.exact W V hW hV, TieV.model_hslToRgb]
theorem hslToRgb_lanes {α : Type} [Scalar α] {n : Nat} (c : V3 (Lanes n α)) (i : Fin n) :
    unpack (Gen.BodyV.hslToRgb c) i = RgbFam.hslToRgb (unpack c i) := by
  have h := @Reified3.lanes _ _ _ hslToRgb_reified α Bool _ _ ⟨0.0, id, id, fun a _ => a⟩ n c i
  rw [TieV.model_hslToRgb] at h; exact h

/-! ### Hsl → Hsv -/
theorem hslToHsv_reified : Reified3 exactOps (fun c => Gen.BodyV.hslToHsv c) (Gen.BodyV.hslToHsv (vars3 0)) := ⟨fun _ => rfl, rfl⟩
theorem hslToHsv_wide {α : Type} [Scalar α] [Angle α] {n : Nat} (W : Ops (Lanes n α) (Lanes n Bool)) (V : Ops α Bool)
    (hW : LaneWise W V exactOps) (hV : AgreeOn V (scalarOps α) exactOps) (c : V3 (Lanes n α)) (i : Fin n) :
    unpack (@Gen.BodyV.hslToHsv _ _ W.vscalar c) i = RgbFam.hslToHsv (unpack c i) := by
  rw [hslToHsv_reified.exact W V hW hV, TieV.model_hslToHsv]
theorem hslToHsv_lanes {α : Type} [Scalar α] {n : Nat} (c : V3 (Lanes n α)) (i : Fin n) :
    unpack (Gen.BodyV.hslToHsv c) i = RgbFam.hslToHsv (unpack c i) := by
  have h := @Reified3.lanes _ _ _ hslToHsv_reified α Bool _ _ ⟨0.0, id, id, fun a _ => a⟩ n c i
  rw [TieV.model_hslToHsv] at h; exact h

/-! ### Hsv → Hsl -/
theorem hsvToHsl_reified : Reified3 exactOps (fun c => Gen.BodyV.hsvToHsl c) (Gen.BodyV.hsvToHsl (vars3 0)) := ⟨fun _ => rfl, rfl⟩
theorem hsvToHsl_wide {α : Type} [Scalar α] [Angle α] {n : Nat} (W : Ops (Lanes n α) (Lanes n Bool)) (V : Ops α Bool)
    (hW : LaneWise W V exactOps) (hV : AgreeOn V (scalarOps α) exactOps) (c : V3 (Lanes n α)) (i : Fin n) :
    unpack (@Gen.BodyV.hsvToHsl _ _ W.vscalar c) i = RgbFam.hsvToHsl (unpack c i) := by
  rw [hsvToHsl_reified.exact W V hW hV, TieV.model_hsvToHsl]
theorem hsvToHsl_lanes {α : Type} [Scalar α] {n : Nat} (c : V3 (Lanes n α)) (i : Fin n) :
    unpack (Gen.BodyV.hsvToHsl c) i = RgbFam.hsvToHsl (unpack c i) := by
  have h := @Reified3.lanes _ _ _ hsvToHsl_reified α Bool _ _ ⟨0.0, id, id, fun a _ => a⟩ n c i
  rw [TieV.model_hsvToHsl] at h; exact h

/-! ### Hsv → Hwb -/
theorem hsvToHwb_reified : Reified3 exactOps (fun c => Gen.BodyV.hsvToHwb c) (Gen.BodyV.hsvToHwb (vars3 0)) := ⟨fun _ => rfl, rfl⟩
theorem hsvToHwb_wide {α : Type} [Scalar α] [Angle α] {n : Nat} (W : Ops (Lanes n α) (Lanes n Bool)) (V : Ops α Bool)
    (hW : LaneWise W V exactOps) (hV : AgreeOn V (scalarOps α) exactOps) (c : V3 (Lanes n α)) (i : Fin n) :
    unpack (@Gen.BodyV.hsvToHwb _ _ W.vscalar c) i = RgbFam.hsvToHwb (unpack c i) := by
  rw [hsvToHwb_reified.exact W V hW hV, TieV.model_hsvToHwb]
theorem hsvToHwb_lanes {α : Type} [Scalar α] {n : Nat} (c : V3 (Lanes n α)) (i : Fin n) :
    unpack (Gen.BodyV.hsvToHwb c) i = RgbFam.hsvToHwb (unpack c i) := by
  have h := @Reified3.lanes _ _ _ hsvToHwb_reified α Bool _ _ ⟨0.0, id, id, fun a _ => a⟩ n c i
  rw [TieV.model_hsvToHwb] at h; exact h

/-! ### Hwb → Hsv -/
theorem hwbToHsv_reified : Reified3 exactOps (fun c => Gen.BodyV.hwbToHsv c) (Gen.BodyV.hwbToHsv (vars3 0)) := ⟨fun _ => rfl, rfl⟩
theorem hwbToHsv_wide {α : Type} [Scalar α] [Angle α] {n : Nat} (W : Ops (Lanes n α) (Lanes n Bool)) (V : Ops α Bool)
    (hW : LaneWise W V exactOps) (hV : AgreeOn V (scalarOps α) exactOps) (c : V3 (Lanes n α)) (i : Fin n) :
    unpack (@Gen.BodyV.hwbToHsv _ _ W.vscalar c) i = RgbFam.hwbToHsv (unpack c i) := by
  rw [hwbToHsv_reified.exact W V hW hV, TieV.model_hwbToHsv]
theorem hwbToHsv_lanes {α : Type} [Scalar α] {n : Nat} (c : V3 (Lanes n α)) (i : Fin n) :
    unpack (Gen.BodyV.hwbToHsv c) i = RgbFam.hwbToHsv (unpack c i) := by
  have h := @Reified3.lanes _ _ _ hwbToHsv_reified α Bool _ _ ⟨0.0, id, id, fun a _ => a⟩ n c i
  rw [TieV.model_hwbToHsv] at h; exact h

/-! ### Xyz → Oklab -/
theorem xyzToOklab_reified : Reified3 exactOps (fun c => Gen.BodyV.xyzToOklab c) (Gen.BodyV.xyzToOklab (vars3 0)) := ⟨fun _ => rfl, rfl⟩
theorem xyzToOklab_wide {α : Type} [Scalar α] [Angle α] {n : Nat} (W : Ops (Lanes n α) (Lanes n Bool)) (V : Ops α Bool)
    (hW : LaneWise W V exactOps) (hV : AgreeOn V (scalarOps α) exactOps) (c : V3 (Lanes n α)) (i : Fin n) :
    unpack (@Gen.BodyV.xyzToOklab _ _ W.vscalar c) i = Ok.xyzToOklab (unpack c i) := by
  rw [xyzToOklab_reified.exact W V hW hV, TieV.model_xyzToOklab]
theorem xyzToOklab_lanes {α : Type} [Scalar α] {n : Nat} (c : V3 (Lanes n α)) (i : Fin n) :
    unpack (Gen.BodyV.xyzToOklab c) i = Ok.xyzToOklab (unpack c i) := by
  have h := @Reified3.lanes _ _ _ xyzToOklab_reified α Bool _ _ ⟨0.0, id, id, fun a _ => a⟩ n c i
  rw [TieV.model_xyzToOklab] at h; exact h

/-! ### Oklab → Xyz -/
theorem oklabToXyz_reified : Reified3 exactOps (fun c => Gen.BodyV.oklabToXyz c) (Gen.BodyV.oklabToXyz (vars3 0)) := ⟨fun _ => rfl, rfl⟩
theorem oklabToXyz_wide {α : Type} [Scalar α] [Angle α] {n : Nat} (W : Ops (Lanes n α) (Lanes n Bool)) (V : Ops α Bool)
    (hW : LaneWise W V exactOps) (hV : AgreeOn V (scalarOps α) exactOps) (c : V3 (Lanes n α)) (i : Fin n) :
    unpack (@Gen.BodyV.oklabToXyz _ _ W.vscalar c) i = Ok.oklabToXyz (unpack c i) := by
  rw [oklabToXyz_reified.exact W V hW hV, TieV.model_oklabToXyz]
theorem oklabToXyz_lanes {α : Type} [Scalar α] {n : Nat} (c : V3 (Lanes n α)) (i : Fin n) :
    unpack (Gen.BodyV.oklabToXyz c) i = Ok.oklabToXyz (unpack c i) := by
  have h := @Reified3.lanes _ _ _ oklabToXyz_reified α Bool _ _ ⟨0.0, id, id, fun a _ => a⟩ n c i
  rw [TieV.model_oklabToXyz] at h; exact h

/-! ### linear sRGB → Oklab (direct) -/
theorem linSrgbToOklab_reified : Reified3 exactOps (fun c => Gen.BodyV.linSrgbToOklab c) (Gen.BodyV.linSrgbToOklab (vars3 0)) := ⟨fun _ => rfl, rfl⟩
theorem linSrgbToOklab_wide {α : Type} [Scalar α] [Angle α] {n : Nat} (W : Ops (Lanes n α) (Lanes n Bool)) (V : Ops α Bool)
    (hW : LaneWise W V exactOps) (hV : AgreeOn V (scalarOps α) exactOps) (c : V3 (Lanes n α)) (i : Fin n) :
    unpack (@Gen.BodyV.linSrgbToOklab _ _ W.vscalar c) i = Ok.linSrgbToOklab (unpack c i) := by
  rw [linSrgbToOklab_reified.exact W V hW hV, TieV.model_linSrgbToOklab]
theorem linSrgbToOklab_lanes {α : Type} [Scalar α] {n : Nat} (c : V3 (Lanes n α)) (i : Fin n) :
    unpack (Gen.BodyV.linSrgbToOklab c) i = Ok.linSrgbToOklab (unpack c i) := by
  have h := @Reified3.lanes _ _ _ linSrgbToOklab_reified α Bool _ _ ⟨0.0, id, id, fun a _ => a⟩ n c i
  rw [TieV.model_linSrgbToOklab] at h; exact h

/-! ### Oklab → linear sRGB (direct) -/
theorem oklabToLinSrgb_reified : Reified3 exactOps (fun c => Gen.BodyV.oklabToLinSrgb c) (Gen.BodyV.oklabToLinSrgb (vars3 0)) := ⟨fun _ => rfl, rfl⟩
theorem oklabToLinSrgb_wide {α : Type} [Scalar α] [Angle α] {n : Nat} (W : Ops (Lanes n α) (Lanes n Bool)) (V : Ops α Bool)
    (hW : LaneWise W V exactOps) (hV : AgreeOn V (scalarOps α) exactOps) (c : V3 (Lanes n α)) (i : Fin n) :
    unpack (@Gen.BodyV.oklabToLinSrgb _ _ W.vscalar c) i = Ok.oklabToLinSrgb (unpack c i) := by
  rw [oklabToLinSrgb_reified.exact W V hW hV, TieV.model_oklabToLinSrgb]
theorem oklabToLinSrgb_lanes {α : Type} [Scalar α] {n : Nat} (c : V3 (Lanes n α)) (i : Fin n) :
    unpack (Gen.BodyV.oklabToLinSrgb c) i = Ok.oklabToLinSrgb (unpack c i) := by
  have h := @Reified3.lanes _ _ _ oklabToLinSrgb_reified α Bool _ _ ⟨0.0, id, id, fun a _ => a⟩ n c i
  rw [TieV.model_oklabToLinSrgb] at h; exact h

/-! ### Oklab → Oklch -/
theorem oklabToOklch_reified : Reified3 (exactPlus [.hypot, .radToDeg, .pi, .atan2, .neg]) (fun c => Gen.BodyV.oklabToOklch c) (Gen.BodyV.oklabToOklch (vars3 0)) := ⟨fun _ => rfl, rfl⟩
theorem oklabToOklch_wide {α : Type} [S : Scalar α] [Angle α] {n : Nat} (W : Ops (Lanes n α) (Lanes n Bool)) (V : Ops α Bool)
    (hW : LaneWise W V (exactPlus [.hypot, .radToDeg, .pi, .atan2, .neg])) (hV : AgreeOn V (scalarOps α) exactOps) (c : V3 (Lanes n α)) (i : Fin n) :
    unpack (@Gen.BodyV.oklabToOklch _ _ W.vscalar W.angle c) i = @Ok.oklabToOklch α (withApprox S V) V.angle (unpack c i) := by
  rw [oklabToOklch_reified.approx W V hW ((agreeOn_withApprox V hV).mono (by intro o; cases o <;> decide))]
  exact congrFun (@TieV.model_oklabToOklch α (withApprox S V) V.angle) _
theorem oklabToOklch_lanes {α : Type} [Scalar α] [Angle α] {n : Nat} (c : V3 (Lanes n α)) (i : Fin n) :
    unpack (Gen.BodyV.oklabToOklch c) i = Ok.oklabToOklch (unpack c i) := by
  have h := oklabToOklch_reified.lanes (α := α) c i
  rw [TieV.model_oklabToOklch] at h; exact h

/-! ### Oklch → Oklab -/
theorem oklchToOklab_reified : Reified3 (exactPlus [.cos, .degToRad, .sin]) (fun c => Gen.BodyV.oklchToOklab c) (Gen.BodyV.oklchToOklab (vars3 0)) := ⟨fun _ => rfl, rfl⟩
theorem oklchToOklab_wide {α : Type} [S : Scalar α] [Angle α] {n : Nat} (W : Ops (Lanes n α) (Lanes n Bool)) (V : Ops α Bool)
    (hW : LaneWise W V (exactPlus [.cos, .degToRad, .sin])) (hV : AgreeOn V (scalarOps α) exactOps) (c : V3 (Lanes n α)) (i : Fin n) :
    unpack (@Gen.BodyV.oklchToOklab _ _ W.vscalar W.angle c) i = @Ok.oklchToOklab α (withApprox S V) V.angle (unpack c i) := by
  rw [oklchToOklab_reified.approx W V hW ((agreeOn_withApprox V hV).mono (by intro o; cases o <;> decide))]
  exact congrFun (@TieV.model_oklchToOklab α (withApprox S V) V.angle) _
theorem oklchToOklab_lanes {α : Type} [Scalar α] [Angle α] {n : Nat} (c : V3 (Lanes n α)) (i : Fin n) :
    unpack (Gen.BodyV.oklchToOklab c) i = Ok.oklchToOklab (unpack c i) := by
  have h := oklchToOklab_reified.lanes (α := α) c i
  rw [TieV.model_oklchToOklab] at h; exact h

/-! ### Okhsv → Okhwb -/
theorem okhsvToOkhwb_reified : Reified3 exactOps (fun c => Gen.BodyV.okhsvToOkhwb c) (Gen.BodyV.okhsvToOkhwb (vars3 0)) := ⟨fun _ => rfl, rfl⟩
theorem okhsvToOkhwb_wide {α : Type} [Scalar α] [Angle α] {n : Nat} (W : Ops (Lanes n α) (Lanes n Bool)) (V : Ops α Bool)
    (hW : LaneWise W V exactOps) (hV : AgreeOn V (scalarOps α) exactOps) (c : V3 (Lanes n α)) (i : Fin n) :
    unpack (@Gen.BodyV.okhsvToOkhwb _ _ W.vscalar c) i = Ok.okhsvToOkhwb (unpack c i) := by
  rw [okhsvToOkhwb_reified.exact W V hW hV, TieV.model_okhsvToOkhwb]
theorem okhsvToOkhwb_lanes {α : Type} [Scalar α] {n : Nat} (c : V3 (Lanes n α)) (i : Fin n) :
    unpack (Gen.BodyV.okhsvToOkhwb c) i = Ok.okhsvToOkhwb (unpack c i) := by
  have h := @Reified3.lanes _ _ _ okhsvToOkhwb_reified α Bool _ _ ⟨0.0, id, id, fun a _ => a⟩ n c i
  rw [TieV.model_okhsvToOkhwb] at h; exact h

/-! ### Okhwb → Okhsv -/
theorem okhwbToOkhsv_reified : Reified3 exactOps (fun c => Gen.BodyV.okhwbToOkhsv c) (Gen.BodyV.okhwbToOkhsv (vars3 0)) := ⟨fun _ => rfl, rfl⟩
theorem okhwbToOkhsv_wide {α : Type} [Scalar α] [Angle α] {n : Nat} (W : Ops (Lanes n α) (Lanes n Bool)) (V : Ops α Bool)
    (hW : LaneWise W V exactOps) (hV : AgreeOn V (scalarOps α) exactOps) (c : V3 (Lanes n α)) (i : Fin n) :
    unpack (@Gen.BodyV.okhwbToOkhsv _ _ W.vscalar c) i = Ok.okhwbToOkhsv (unpack c i) := by
  rw [okhwbToOkhsv_reified.exact W V hW hV, TieV.model_okhwbToOkhsv]
theorem okhwbToOkhsv_lanes {α : Type} [Scalar α] {n : Nat} (c : V3 (Lanes n α)) (i : Fin n) :
    unpack (Gen.BodyV.okhwbToOkhsv c) i = Ok.okhwbToOkhsv (unpack c i) := by
  have h := @Reified3.lanes _ _ _ okhwbToOkhsv_reified α Bool _ _ ⟨0.0, id, id, fun a _ => a⟩ n c i
  rw [TieV.model_okhwbToOkhsv] at h; exact h

/-! ### Hwb → Rgb (`Rgb ← Hsv ← Hwb`) -/
theorem hwbToRgb_reified : Reified3 exactOps (fun c => SimdOps.hwbToRgb c) (SimdOps.hwbToRgb (vars3 0)) := ⟨fun _ => rfl, rfl⟩
theorem hwbToRgb_wide {α : Type} [Scalar α] [Angle α] {n : Nat} (W : Ops (Lanes n α) (Lanes n Bool)) (V : Ops α Bool)
    (hW : LaneWise W V exactOps) (hV : AgreeOn V (scalarOps α) exactOps) (c : V3 (Lanes n α)) (i : Fin n) :
    unpack (@SimdOps.hwbToRgb _ _ W.vscalar c) i = RgbFam.hsvToRgb (RgbFam.hwbToHsv (unpack c i)) := by
  rw [hwbToRgb_reified.exact W V hW hV]; exact TieV.model_hwbToRgb _
theorem hwbToRgb_lanes {α : Type} [Scalar α] {n : Nat} (c : V3 (Lanes n α)) (i : Fin n) :
    unpack (SimdOps.hwbToRgb c) i = RgbFam.hsvToRgb (RgbFam.hwbToHsv (unpack c i)) := by
  have h := @Reified3.lanes _ _ _ hwbToRgb_reified α Bool _ _ ⟨0.0, id, id, fun a _ => a⟩ n c i
  rw [← TieV.model_hwbToRgb]; exact h

/-! ### Rgb → Hwb (`Hwb ← Hsv ← Rgb`, mask-generic first hop) -/
theorem rgbToHwb_reified : Reified3 (exactPlus [.neg]) (fun c => SimdOps.rgbToHwb c) (SimdOps.rgbToHwb (vars3 0)) := ⟨fun _ => rfl, rfl⟩
theorem rgbToHwb_wide {α : Type} [S : Scalar α] [Angle α] {n : Nat} (W : Ops (Lanes n α) (Lanes n Bool)) (V : Ops α Bool)
    (hW : LaneWise W V (exactPlus [.neg])) (hV : AgreeOn V (scalarOps α) exactOps) (c : V3 (Lanes n α)) (i : Fin n) :
    unpack (@SimdOps.rgbToHwb _ _ W.vscalar c) i = @RgbFam.hsvToHwb α (withApprox S V) (@RgbFam.rgbToHsvMask α (withApprox S V) (unpack c i)) := by
  rw [rgbToHwb_reified.approx W V hW ((agreeOn_withApprox V hV).mono (by intro o; cases o <;> decide))]
  exact @TieV.model_rgbToHwb α (withApprox S V) _
theorem rgbToHwb_lanes {α : Type} [Scalar α] {n : Nat} (c : V3 (Lanes n α)) (i : Fin n) :
    unpack (SimdOps.rgbToHwb c) i = RgbFam.hsvToHwb (RgbFam.rgbToHsvMask (unpack c i)) := by
  have h := @Reified3.lanes _ _ _ rgbToHwb_reified α Bool _ _ ⟨0.0, id, id, fun a _ => a⟩ n c i
  rw [← TieV.model_rgbToHwb]; exact h

/-! ### blend mode `multiply` on one component (`src`, `dst`) -/
theorem multiplyBlend_reified : Reified2 exactOps (fun x y => Gen.BodyV.multiplyBlend x y) (Gen.BodyV.multiplyBlend (Tm.var 0) (Tm.var 1)) := ⟨fun _ _ => rfl, rfl⟩
theorem multiplyBlend_wide {α : Type} [Scalar α] [Angle α] {n : Nat} (W : Ops (Lanes n α) (Lanes n Bool)) (V : Ops α Bool)
    (hW : LaneWise W V exactOps) (hV : AgreeOn V (scalarOps α) exactOps) (x y : Lanes n α) (i : Fin n) :
    (@Gen.BodyV.multiplyBlend _ _ W.vscalar x y) i = Blend.multiplyBlend (x i) (y i) := by
  rw [multiplyBlend_reified.exact W V hW hV, TieV.tieV_multiplyBlend]
theorem multiplyBlend_lanes {α : Type} [Scalar α] {n : Nat} (x y : Lanes n α) (i : Fin n) :
    (Gen.BodyV.multiplyBlend x y) i = Blend.multiplyBlend (x i) (y i) := by
  have h := @Reified2.lanes _ _ _ multiplyBlend_reified α Bool _ _ ⟨0.0, id, id, fun a _ => a⟩ n x y i
  rw [TieV.tieV_multiplyBlend] at h; exact h

/-! ### blend mode `screen` on one component (`src`, `dst`) -/
theorem screenBlend_reified : Reified2 exactOps (fun x y => Gen.BodyV.screenBlend x y) (Gen.BodyV.screenBlend (Tm.var 0) (Tm.var 1)) := ⟨fun _ _ => rfl, rfl⟩
theorem screenBlend_wide {α : Type} [Scalar α] [Angle α] {n : Nat} (W : Ops (Lanes n α) (Lanes n Bool)) (V : Ops α Bool)
    (hW : LaneWise W V exactOps) (hV : AgreeOn V (scalarOps α) exactOps) (x y : Lanes n α) (i : Fin n) :
    (@Gen.BodyV.screenBlend _ _ W.vscalar x y) i = Blend.screenBlend (x i) (y i) := by
  rw [screenBlend_reified.exact W V hW hV, TieV.tieV_screenBlend]
theorem screenBlend_lanes {α : Type} [Scalar α] {n : Nat} (x y : Lanes n α) (i : Fin n) :
    (Gen.BodyV.screenBlend x y) i = Blend.screenBlend (x i) (y i) := by
  have h := @Reified2.lanes _ _ _ screenBlend_reified α Bool _ _ ⟨0.0, id, id, fun a _ => a⟩ n x y i
  rw [TieV.tieV_screenBlend] at h; exact h

/-! ### blend mode `overlay` on one component (`src`, `dst`) -/
theorem overlayBlend_reified : Reified2 exactOps (fun x y => Gen.BodyV.overlayBlend x y) (Gen.BodyV.overlayBlend (Tm.var 0) (Tm.var 1)) := ⟨fun _ _ => rfl, rfl⟩
theorem overlayBlend_wide {α : Type} [Scalar α] [Angle α] {n : Nat} (W : Ops (Lanes n α) (Lanes n Bool)) (V : Ops α Bool)
    (hW : LaneWise W V exactOps) (hV : AgreeOn V (scalarOps α) exactOps) (x y : Lanes n α) (i : Fin n) :
    (@Gen.BodyV.overlayBlend _ _ W.vscalar x y) i = Blend.overlayBlend (x i) (y i) := by
  rw [overlayBlend_reified.exact W V hW hV, TieV.tieV_overlayBlend]
theorem overlayBlend_lanes {α : Type} [Scalar α] {n : Nat} (x y : Lanes n α) (i : Fin n) :
    (Gen.BodyV.overlayBlend x y) i = Blend.overlayBlend (x i) (y i) := by
  have h := @Reified2.lanes _ _ _ overlayBlend_reified α Bool _ _ ⟨0.0, id, id, fun a _ => a⟩ n x y i
  rw [TieV.tieV_overlayBlend] at h; exact h

/-! ### blend mode `darken` on one component (`src`, `dst`) -/
theorem darkenBlend_reified : Reified2 exactOps (fun x y => Gen.BodyV.darkenBlend x y) (Gen.BodyV.darkenBlend (Tm.var 0) (Tm.var 1)) := ⟨fun _ _ => rfl, rfl⟩
theorem darkenBlend_wide {α : Type} [Scalar α] [Angle α] {n : Nat} (W : Ops (Lanes n α) (Lanes n Bool)) (V : Ops α Bool)
    (hW : LaneWise W V exactOps) (hV : AgreeOn V (scalarOps α) exactOps) (x y : Lanes n α) (i : Fin n) :
    (@Gen.BodyV.darkenBlend _ _ W.vscalar x y) i = Blend.darkenBlend (x i) (y i) := by
  rw [darkenBlend_reified.exact W V hW hV, TieV.tieV_darkenBlend]
theorem darkenBlend_lanes {α : Type} [Scalar α] {n : Nat} (x y : Lanes n α) (i : Fin n) :
    (Gen.BodyV.darkenBlend x y) i = Blend.darkenBlend (x i) (y i) := by
  have h := @Reified2.lanes _ _ _ darkenBlend_reified α Bool _ _ ⟨0.0, id, id, fun a _ => a⟩ n x y i
  rw [TieV.tieV_darkenBlend] at h; exact h

/-! ### blend mode `lighten` on one component (`src`, `dst`) -/
theorem lightenBlend_reified : Reified2 exactOps (fun x y => Gen.BodyV.lightenBlend x y) (Gen.BodyV.lightenBlend (Tm.var 0) (Tm.var 1)) := ⟨fun _ _ => rfl, rfl⟩
theorem lightenBlend_wide {α : Type} [Scalar α] [Angle α] {n : Nat} (W : Ops (Lanes n α) (Lanes n Bool)) (V : Ops α Bool)
    (hW : LaneWise W V exactOps) (hV : AgreeOn V (scalarOps α) exactOps) (x y : Lanes n α) (i : Fin n) :
    (@Gen.BodyV.lightenBlend _ _ W.vscalar x y) i = Blend.lightenBlend (x i) (y i) := by
  rw [lightenBlend_reified.exact W V hW hV, TieV.tieV_lightenBlend]
theorem lightenBlend_lanes {α : Type} [Scalar α] {n : Nat} (x y : Lanes n α) (i : Fin n) :
    (Gen.BodyV.lightenBlend x y) i = Blend.lightenBlend (x i) (y i) := by
  have h := @Reified2.lanes _ _ _ lightenBlend_reified α Bool _ _ ⟨0.0, id, id, fun a _ => a⟩ n x y i
  rw [TieV.tieV_lightenBlend] at h; exact h

/-! ### blend mode `dodge` on one component (`src`, `dst`) -/
theorem dodgeBlend_reified : Reified2 exactOps (fun x y => Gen.BodyV.dodgeBlend x y) (Gen.BodyV.dodgeBlend (Tm.var 0) (Tm.var 1)) := ⟨fun _ _ => rfl, rfl⟩
theorem dodgeBlend_wide {α : Type} [Scalar α] [Angle α] {n : Nat} (W : Ops (Lanes n α) (Lanes n Bool)) (V : Ops α Bool)
    (hW : LaneWise W V exactOps) (hV : AgreeOn V (scalarOps α) exactOps) (x y : Lanes n α) (i : Fin n) :
    (@Gen.BodyV.dodgeBlend _ _ W.vscalar x y) i = Blend.dodgeBlend (x i) (y i) := by
  rw [dodgeBlend_reified.exact W V hW hV, TieV.tieV_dodgeBlend]
theorem dodgeBlend_lanes {α : Type} [Scalar α] {n : Nat} (x y : Lanes n α) (i : Fin n) :
    (Gen.BodyV.dodgeBlend x y) i = Blend.dodgeBlend (x i) (y i) := by
  have h := @Reified2.lanes _ _ _ dodgeBlend_reified α Bool _ _ ⟨0.0, id, id, fun a _ => a⟩ n x y i
  rw [TieV.tieV_dodgeBlend] at h; exact h

/-! ### blend mode `burn` on one component (`src`, `dst`) -/
theorem burnBlend_reified : Reified2 exactOps (fun x y => Gen.BodyV.burnBlend x y) (Gen.BodyV.burnBlend (Tm.var 0) (Tm.var 1)) := ⟨fun _ _ => rfl, rfl⟩
theorem burnBlend_wide {α : Type} [Scalar α] [Angle α] {n : Nat} (W : Ops (Lanes n α) (Lanes n Bool)) (V : Ops α Bool)
    (hW : LaneWise W V exactOps) (hV : AgreeOn V (scalarOps α) exactOps) (x y : Lanes n α) (i : Fin n) :
    (@Gen.BodyV.burnBlend _ _ W.vscalar x y) i = Blend.burnBlend (x i) (y i) := by
  rw [burnBlend_reified.exact W V hW hV, TieV.tieV_burnBlend]
theorem burnBlend_lanes {α : Type} [Scalar α] {n : Nat} (x y : Lanes n α) (i : Fin n) :
    (Gen.BodyV.burnBlend x y) i = Blend.burnBlend (x i) (y i) := by
  have h := @Reified2.lanes _ _ _ burnBlend_reified α Bool _ _ ⟨0.0, id, id, fun a _ => a⟩ n x y i
  rw [TieV.tieV_burnBlend] at h; exact h

/-! ### blend mode `hardLight` on one component (`src`, `dst`) -/
theorem hardLightBlend_reified : Reified2 exactOps (fun x y => Gen.BodyV.hardLightBlend x y) (Gen.BodyV.hardLightBlend (Tm.var 0) (Tm.var 1)) := ⟨fun _ _ => rfl, rfl⟩
theorem hardLightBlend_wide {α : Type} [Scalar α] [Angle α] {n : Nat} (W : Ops (Lanes n α) (Lanes n Bool)) (V : Ops α Bool)
    (hW : LaneWise W V exactOps) (hV : AgreeOn V (scalarOps α) exactOps) (x y : Lanes n α) (i : Fin n) :
    (@Gen.BodyV.hardLightBlend _ _ W.vscalar x y) i = Blend.hardLightBlend (x i) (y i) := by
  rw [hardLightBlend_reified.exact W V hW hV, TieV.tieV_hardLightBlend]
theorem hardLightBlend_lanes {α : Type} [Scalar α] {n : Nat} (x y : Lanes n α) (i : Fin n) :
    (Gen.BodyV.hardLightBlend x y) i = Blend.hardLightBlend (x i) (y i) := by
  have h := @Reified2.lanes _ _ _ hardLightBlend_reified α Bool _ _ ⟨0.0, id, id, fun a _ => a⟩ n x y i
  rw [TieV.tieV_hardLightBlend] at h; exact h

/-! ### blend mode `softLight` on one component (`src`, `dst`) -/
theorem softLightBlend_reified : Reified2 exactOps (fun x y => Gen.BodyV.softLightBlend x y) (Gen.BodyV.softLightBlend (Tm.var 0) (Tm.var 1)) := ⟨fun _ _ => rfl, rfl⟩
theorem softLightBlend_wide {α : Type} [Scalar α] [Angle α] {n : Nat} (W : Ops (Lanes n α) (Lanes n Bool)) (V : Ops α Bool)
    (hW : LaneWise W V exactOps) (hV : AgreeOn V (scalarOps α) exactOps) (x y : Lanes n α) (i : Fin n) :
    (@Gen.BodyV.softLightBlend _ _ W.vscalar x y) i = Blend.softLightBlend (x i) (y i) := by
  rw [softLightBlend_reified.exact W V hW hV, TieV.tieV_softLightBlend]
theorem softLightBlend_lanes {α : Type} [Scalar α] {n : Nat} (x y : Lanes n α) (i : Fin n) :
    (Gen.BodyV.softLightBlend x y) i = Blend.softLightBlend (x i) (y i) := by
  have h := @Reified2.lanes _ _ _ softLightBlend_reified α Bool _ _ ⟨0.0, id, id, fun a _ => a⟩ n x y i
  rw [TieV.tieV_softLightBlend] at h; exact h

/-! ### blend mode `difference` on one component (`src`, `dst`) -/
theorem differenceBlend_reified : Reified2 exactOps (fun x y => Gen.BodyV.differenceBlend x y) (Gen.BodyV.differenceBlend (Tm.var 0) (Tm.var 1)) := ⟨fun _ _ => rfl, rfl⟩
theorem differenceBlend_wide {α : Type} [Scalar α] [Angle α] {n : Nat} (W : Ops (Lanes n α) (Lanes n Bool)) (V : Ops α Bool)
    (hW : LaneWise W V exactOps) (hV : AgreeOn V (scalarOps α) exactOps) (x y : Lanes n α) (i : Fin n) :
    (@Gen.BodyV.differenceBlend _ _ W.vscalar x y) i = Blend.differenceBlend (x i) (y i) := by
  rw [differenceBlend_reified.exact W V hW hV, TieV.tieV_differenceBlend]
theorem differenceBlend_lanes {α : Type} [Scalar α] {n : Nat} (x y : Lanes n α) (i : Fin n) :
    (Gen.BodyV.differenceBlend x y) i = Blend.differenceBlend (x i) (y i) := by
  have h := @Reified2.lanes _ _ _ differenceBlend_reified α Bool _ _ ⟨0.0, id, id, fun a _ => a⟩ n x y i
  rw [TieV.tieV_differenceBlend] at h; exact h

/-! ### blend mode `exclusion` on one component (`src`, `dst`) -/
theorem exclusionBlend_reified : Reified2 exactOps (fun x y => Gen.BodyV.exclusionBlend x y) (Gen.BodyV.exclusionBlend (Tm.var 0) (Tm.var 1)) := ⟨fun _ _ => rfl, rfl⟩
theorem exclusionBlend_wide {α : Type} [Scalar α] [Angle α] {n : Nat} (W : Ops (Lanes n α) (Lanes n Bool)) (V : Ops α Bool)
    (hW : LaneWise W V exactOps) (hV : AgreeOn V (scalarOps α) exactOps) (x y : Lanes n α) (i : Fin n) :
    (@Gen.BodyV.exclusionBlend _ _ W.vscalar x y) i = Blend.exclusionBlend (x i) (y i) := by
  rw [exclusionBlend_reified.exact W V hW hV, TieV.tieV_exclusionBlend]
theorem exclusionBlend_lanes {α : Type} [Scalar α] {n : Nat} (x y : Lanes n α) (i : Fin n) :
    (Gen.BodyV.exclusionBlend x y) i = Blend.exclusionBlend (x i) (y i) := by
  have h := @Reified2.lanes _ _ _ exclusionBlend_reified α Bool _ _ ⟨0.0, id, id, fun a _ => a⟩ n x y i
  rw [TieV.tieV_exclusionBlend] at h; exact h

/-- **which non-exact operations each edge uses** (decided on the syntax obtained from the Rust text): `[]` = every lane is
    bit-identical to the scalar result given only IEEE `+ − × ÷ abs sqrt min max`, comparisons, `blend` and palette's own lane loops
    (`cbrt floor ceil`).  `neg`: `wide` computes `0 − x` (sign of a zero result); `powf sin cos atan2`: polynomial
    approximations; `mul_add`/`mul_sub`: fused or not by target feature; `hypot`: `sqrt(a² + b²)`; `to_degrees/to_radians`, π:
    factor computed in the lane type. -/
theorem nonExact_table :
    [("angleNormalizeUnsigned", nonExact ([Gen.BodyV.angleNormalizeUnsigned (Tm.var 0)])),
     ("angleNormalizeSigned", nonExact ([Gen.BodyV.angleNormalizeSigned (Tm.var 0)])),
     ("srgbIntoLinear", nonExact ([Gen.BodyV.srgbIntoLinear (Tm.var 0)])),
     ("srgbFromLinear", nonExact ([Gen.BodyV.srgbFromLinear (Tm.var 0)])),
     ("recIntoLinear", nonExact ([Gen.BodyV.recIntoLinear (Tm.var 0)])),
     ("recFromLinear", nonExact ([Gen.BodyV.recFromLinear (Tm.var 0)])),
     ("adobeIntoLinear", nonExact ([Gen.BodyV.adobeIntoLinear (Tm.var 0)])),
     ("adobeFromLinear", nonExact ([Gen.BodyV.adobeFromLinear (Tm.var 0)])),
     ("p3IntoLinear", nonExact ([Gen.BodyV.p3IntoLinear (Tm.var 0)])),
     ("p3FromLinear", nonExact ([Gen.BodyV.p3FromLinear (Tm.var 0)])),
     ("prophotoIntoLinear", nonExact ([Gen.BodyV.prophotoIntoLinear (Tm.var 0)])),
     ("prophotoFromLinear", nonExact ([Gen.BodyV.prophotoFromLinear (Tm.var 0)])),
     ("gammaIntoLinear", nonExact ([Gen.BodyV.gammaIntoLinear (Tm.var 0)])),
     ("gammaFromLinear", nonExact ([Gen.BodyV.gammaFromLinear (Tm.var 0)])),
     ("hueFromCartesian", nonExact ([Gen.BodyV.hueFromCartesian (Tm.var 0) (Tm.var 1)])),
     ("xyzToYxy", nonExact (v3Terms (Gen.BodyV.xyzToYxy (vars3 0)))),
     ("yxyToXyz", nonExact (v3Terms (Gen.BodyV.yxyToXyz (vars3 0)))),
     ("xyzToLab", nonExact (v3Terms (Gen.BodyV.xyzToLab (vars3 0) (vars3 3)))),
     ("labToXyz", nonExact (v3Terms (Gen.BodyV.labToXyz (vars3 0) (vars3 3)))),
     ("labToLch", nonExact (v3Terms (Gen.BodyV.labToLch (vars3 0)))),
     ("lchToLab", nonExact (v3Terms (Gen.BodyV.lchToLab (vars3 0)))),
     ("luvToLchuv", nonExact (v3Terms (Gen.BodyV.luvToLchuv (vars3 0)))),
     ("lchuvToLuv", nonExact (v3Terms (Gen.BodyV.lchuvToLuv (vars3 0)))),
     ("rgbToHsvMask", nonExact (v3Terms (Gen.BodyV.rgbToHsvMask (vars3 0)))),
     ("rgbToHslMask", nonExact (v3Terms (Gen.BodyV.rgbToHslMask (vars3 0)))),
     ("hsvToRgb", nonExact (v3Terms (Gen.BodyV.hsvToRgb (vars3 0)))),
     ("hslToRgb", nonExact (v3Terms (Gen.BodyV.hslToRgb (vars3 0)))),
     ("hslToHsv", nonExact (v3Terms (Gen.BodyV.hslToHsv (vars3 0)))),
     ("hsvToHsl", nonExact (v3Terms (Gen.BodyV.hsvToHsl (vars3 0)))),
     ("hsvToHwb", nonExact (v3Terms (Gen.BodyV.hsvToHwb (vars3 0)))),
     ("hwbToHsv", nonExact (v3Terms (Gen.BodyV.hwbToHsv (vars3 0)))),
     ("xyzToOklab", nonExact (v3Terms (Gen.BodyV.xyzToOklab (vars3 0)))),
     ("oklabToXyz", nonExact (v3Terms (Gen.BodyV.oklabToXyz (vars3 0)))),
     ("linSrgbToOklab", nonExact (v3Terms (Gen.BodyV.linSrgbToOklab (vars3 0)))),
     ("oklabToLinSrgb", nonExact (v3Terms (Gen.BodyV.oklabToLinSrgb (vars3 0)))),
     ("oklabToOklch", nonExact (v3Terms (Gen.BodyV.oklabToOklch (vars3 0)))),
     ("oklchToOklab", nonExact (v3Terms (Gen.BodyV.oklchToOklab (vars3 0)))),
     ("okhsvToOkhwb", nonExact (v3Terms (Gen.BodyV.okhsvToOkhwb (vars3 0)))),
     ("okhwbToOkhsv", nonExact (v3Terms (Gen.BodyV.okhwbToOkhsv (vars3 0)))),
     ("hwbToRgb", nonExact (v3Terms (SimdOps.hwbToRgb (vars3 0)))),
     ("rgbToHwb", nonExact (v3Terms (SimdOps.rgbToHwb (vars3 0)))),
     ("multiplyBlend", nonExact ([Gen.BodyV.multiplyBlend (Tm.var 0) (Tm.var 1)])),
     ("screenBlend", nonExact ([Gen.BodyV.screenBlend (Tm.var 0) (Tm.var 1)])),
     ("overlayBlend", nonExact ([Gen.BodyV.overlayBlend (Tm.var 0) (Tm.var 1)])),
     ("darkenBlend", nonExact ([Gen.BodyV.darkenBlend (Tm.var 0) (Tm.var 1)])),
     ("lightenBlend", nonExact ([Gen.BodyV.lightenBlend (Tm.var 0) (Tm.var 1)])),
     ("dodgeBlend", nonExact ([Gen.BodyV.dodgeBlend (Tm.var 0) (Tm.var 1)])),
     ("burnBlend", nonExact ([Gen.BodyV.burnBlend (Tm.var 0) (Tm.var 1)])),
     ("hardLightBlend", nonExact ([Gen.BodyV.hardLightBlend (Tm.var 0) (Tm.var 1)])),
     ("softLightBlend", nonExact ([Gen.BodyV.softLightBlend (Tm.var 0) (Tm.var 1)])),
     ("differenceBlend", nonExact ([Gen.BodyV.differenceBlend (Tm.var 0) (Tm.var 1)])),
     ("exclusionBlend", nonExact ([Gen.BodyV.exclusionBlend (Tm.var 0) (Tm.var 1)]))]
  = [("angleNormalizeUnsigned", []),
     ("angleNormalizeSigned", []),
     ("srgbIntoLinear", [Op.powf, Op.mulAdd]),
     ("srgbFromLinear", [Op.mulSub, Op.powf]),
     ("recIntoLinear", [Op.powf, Op.mulAdd]),
     ("recFromLinear", [Op.mulSub, Op.powf]),
     ("adobeIntoLinear", [Op.powf]),
     ("adobeFromLinear", [Op.powf]),
     ("p3IntoLinear", [Op.powf]),
     ("p3FromLinear", [Op.powf]),
     ("prophotoIntoLinear", [Op.powf]),
     ("prophotoFromLinear", [Op.powf]),
     ("gammaIntoLinear", [Op.powf]),
     ("gammaFromLinear", [Op.powf]),
     ("hueFromCartesian", [Op.radToDeg, Op.pi, Op.atan2, Op.neg]),
     ("xyzToYxy", []),
     ("yxyToXyz", []),
     ("xyzToLab", []),
     ("labToXyz", []),
     ("labToLch", [Op.hypot, Op.radToDeg, Op.pi, Op.atan2, Op.neg]),
     ("lchToLab", [Op.cos, Op.degToRad, Op.sin]),
     ("luvToLchuv", [Op.hypot, Op.radToDeg, Op.pi, Op.atan2, Op.neg]),
     ("lchuvToLuv", [Op.cos, Op.degToRad, Op.sin]),
     ("rgbToHsvMask", [Op.neg]),
     ("rgbToHslMask", [Op.neg]),
     ("hsvToRgb", []),
     ("hslToRgb", []),
     ("hslToHsv", []),
     ("hsvToHsl", []),
     ("hsvToHwb", []),
     ("hwbToHsv", []),
     ("xyzToOklab", []),
     ("oklabToXyz", []),
     ("linSrgbToOklab", []),
     ("oklabToLinSrgb", []),
     ("oklabToOklch", [Op.hypot, Op.radToDeg, Op.pi, Op.atan2, Op.neg]),
     ("oklchToOklab", [Op.cos, Op.degToRad, Op.sin]),
     ("okhsvToOkhwb", []),
     ("okhwbToOkhsv", []),
     ("hwbToRgb", []),
     ("rgbToHwb", [Op.neg]),
     ("multiplyBlend", []),
     ("screenBlend", []),
     ("overlayBlend", []),
     ("darkenBlend", []),
     ("lightenBlend", []),
     ("dodgeBlend", []),
     ("burnBlend", []),
     ("hardLightBlend", []),
     ("softLightBlend", []),
     ("differenceBlend", []),
     ("exclusionBlend", [])] := by
  decide +kernel

end C17
