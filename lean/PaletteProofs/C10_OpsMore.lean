/-
  C10 — leftovers of `C10_Ops.lean` that were only examined by the oracle:

  1. `mix a b 1 = b` **for colours with a hue**, as a theorem about whole colours.  The code returns
     `a.hue + normalize_signed(b.hue − a.hue)`, which is `b.hue` up to whole turns; here: it *is* `b.hue` whenever the two hues are
     less than half a turn apart as numbers (`mixC_hue_one_exact`, `mixHue_at_one_exact`), and in every case it is the same angle —
     same cosine and sine (`mixC_hue_one_same_angle`), same normal form `normalize_signed` (`mixC_hue_one_normalized`), which is
     what palette's hue equality compares.  Whole colours: `mixHue_at_one`, and `mixHue_above_one` for factors > 1;
     betweenness of the linear components of whole colours: `mixAll_lin_between`.
  2. the **relative** HWB forms (`Hwb::lighten(f)`, `Okhwb`, and `darken` = the same at `−f`) for factors **outside [0, 1]**:
     closed forms for every factor (`hwbLighten_nonneg_factor`, `hwbLighten_neg_factor`); unlike every other `Lighten` impl
     (which ends in `clamp(.., min, max)`: `incC_mem`) the macro bounds whiteness and blackness from below only, so a factor > 1
     takes the whiteness of every in-range colour with `w < 1` above 1 (`hwb_relative_exceeds`, `hwb_relative_in_range_iff`,
     witness `hwb_relative_witness`).  This is outside C10 (the property speaks about factors in [0, 1]), recorded as an observation.
-/
import PaletteProofs.C10_Ops
import Mathlib.Analysis.SpecialFunctions.Trigonometric.Basic

namespace C10
open Ops

/-! ## 1. hue components at factor 1 -/

/-- the signed normal form is the identity on `(-180, 180]` -/
theorem normSigned_id {d : ℝ} (h1 : -180 < d) (h2 : d ≤ 180) : normSigned d = d := by
  unfold normSigned; rw [ceil_eq]
  have hc : ⌈(d + 180.0) / 360.0 - 1.0⌉ = 0 := by
    rw [Int.ceil_eq_iff]; norm_num; constructor <;> linarith
  rw [hc]; norm_num

/-- … and invariant under whole turns -/
theorem normSigned_sub_turns (y : ℝ) (k : ℤ) : normSigned (y - 360 * k) = normSigned y := by
  unfold normSigned; rw [ceil_eq, ceil_eq]
  have e : (y - 360 * (k : ℝ) + 180.0) / 360.0 - 1.0 = ((y + 180.0) / 360.0 - 1.0) - (k : ℝ) := by norm_num; ring
  rw [e, Int.ceil_sub_intCast]; push_cast; norm_num; ring

/-- **`mix a b 1 = b` exactly** for a hue component when the hues are less than half a turn apart as numbers
    (e.g. both in `(-180, 180]` and `|Δ| < 180`, or both in `[0, 360)` and `|Δ| < 180`) -/
theorem mixC_hue_one_exact {x y : ℝ} (h1 : -180 < y - x) (h2 : y - x ≤ 180) : mixC Role.hue x y 1 = y := by
  rw [mixC_hue, normSigned_id h1 h2]; ring

example : mixC Role.hue (170 : ℝ) (-175) 1 ≠ -175 ∧ mixC Role.hue (30 : ℝ) 100 1 = 100 := by
  refine ⟨?_, mixC_hue_one_exact (by norm_num) (by norm_num)⟩
  have hn : normSigned ((-175 : ℝ) - 170) = 15 := by
    have e : ((-175 : ℝ) - 170) = 15 - 360 * (1 : ℤ) := by norm_num
    rw [e, normSigned_sub_turns, normSigned_id (by norm_num) (by norm_num)]
  rw [mixC_hue, hn]; norm_num

/-- **in every case the result is the same angle as `b.hue`**: equal cosine and sine (hues are degrees) -/
theorem mixC_hue_one_same_angle (x y : ℝ) :
    Real.cos (mixC Role.hue x y 1 * (Real.pi / 180)) = Real.cos (y * (Real.pi / 180)) ∧
    Real.sin (mixC Role.hue x y 1 * (Real.pi / 180)) = Real.sin (y * (Real.pi / 180)) := by
  obtain ⟨k, hk⟩ := mixC_hue_one x y
  have e : mixC Role.hue x y 1 * (Real.pi / 180) = y * (Real.pi / 180) - (k : ℝ) * (2 * Real.pi) := by rw [hk]; ring
  rw [e]
  exact ⟨Real.cos_sub_int_mul_two_pi _ k, Real.sin_sub_int_mul_two_pi _ k⟩

/-- **… and has the same normal form** (`Hue::into_degrees`, what hue equality compares) -/
theorem mixC_hue_one_normalized (x y : ℝ) : normSigned (mixC Role.hue x y 1) = normSigned y := by
  obtain ⟨k, hk⟩ := mixC_hue_one x y
  rw [hk, normSigned_sub_turns]

/-- a colour with its hue components put into normal form (linear components untouched) -/
noncomputable def canon : List Role → List ℝ → List ℝ
  | r :: rs, x :: xs => (match r with | .lin => x | .hue => normSigned x) :: canon rs xs
  | _, _ => []

theorem canon_mixAll_one : ∀ (rs : List Role) (a b : List ℝ), rs.length = a.length → a.length = b.length →
    canon rs (mixAll rs a b 1) = canon rs b
  | [], [], [], _, _ => rfl
  | [], _ :: _, _, h, _ => by simp at h
  | _ :: _, [], _, h, _ => by simp at h
  | _, _ :: _, [], _, h => by simp at h
  | _, [], _ :: _, _, h => by simp at h
  | r :: rs, x :: xs, y :: ys, h1, h2 => by
    have ih := canon_mixAll_one rs xs ys (by simpa using h1) (by simpa using h2)
    cases r
    · simp only [mixAll, canon, mixC_lin_one, ih]
    · simp only [mixAll, canon, mixC_hue_one_normalized, ih]

/-- **`mix a b 1 = b` for every `impl_mix_hue!` colour type**: the linear components are exactly `b`'s, the hue is `b`'s hue in
    normal form -/
theorem mixHue_at_one (rs : List Role) (a b : List ℝ) (h1 : rs.length = a.length) (h2 : a.length = b.length) :
    canon rs (mixHue rs a b 1) = canon rs b := by
  rw [mixHue_eq_mixAll rs a b 1 h1 h2]; show canon rs (mixAll rs a b (clamp01 1)) = canon rs b
  rw [clamp01_mid zero_le_one le_rfl]; exact canon_mixAll_one rs a b h1 h2

/-- **factors above 1 give `b`** for hue types too (`mix_above_one` is the `impl_mix!` case) -/
theorem mixHue_above_one (rs : List Role) (a b : List ℝ) (f : ℝ) (hf : 1 < f) (h1 : rs.length = a.length) (h2 : a.length = b.length) :
    canon rs (mixHue rs a b f) = canon rs b := by
  rw [mixHue_factor_clamped, clamp01_big hf]; exact mixHue_at_one rs a b h1 h2

/-- hue differences of every hue component within half a turn -/
def HuesClose : List Role → List ℝ → List ℝ → Prop
  | r :: rs, x :: xs, y :: ys => (r = Role.hue → -180 < y - x ∧ y - x ≤ 180) ∧ HuesClose rs xs ys
  | _, _, _ => True

theorem mixAll_one_exact : ∀ (rs : List Role) (a b : List ℝ), rs.length = a.length → a.length = b.length → HuesClose rs a b →
    mixAll rs a b 1 = b
  | [], [], [], _, _, _ => rfl
  | [], _ :: _, _, h, _, _ => by simp at h
  | _ :: _, [], _, h, _, _ => by simp at h
  | _, _ :: _, [], _, h, _ => by simp at h
  | _, [], _ :: _, _, h, _ => by simp at h
  | r :: rs, x :: xs, y :: ys, h1, h2, hc => by
    have ih := mixAll_one_exact rs xs ys (by simpa using h1) (by simpa using h2) hc.2
    cases r
    · simp only [mixAll, mixC_lin_one, ih]
    · have := hc.1 rfl
      simp only [mixAll, mixC_hue_one_exact this.1 this.2, ih]

/-- **`mix a b 1 = b`, exactly, for a colour with a hue** whenever the hues are less than half a turn apart as numbers -/
theorem mixHue_at_one_exact (rs : List Role) (a b : List ℝ) (h1 : rs.length = a.length) (h2 : a.length = b.length)
    (hc : HuesClose rs a b) : mixHue rs a b 1 = b := by
  rw [mixHue_eq_mixAll rs a b 1 h1 h2]; show mixAll rs a b (clamp01 1) = b
  rw [clamp01_mid zero_le_one le_rfl]; exact mixAll_one_exact rs a b h1 h2 hc

/-- Hsl `(350°, 0.2, 0.4)` mixed into `(10°, 0.6, 0.8)` at factor 1: the hue comes out as `370°` — the same angle, not the same
    number (the hypotheses of `mixHue_at_one_exact` fail: `10 − 350 = −340`) … -/
example : mixHue [.hue, .lin, .lin] [(350 : ℝ), 0.2, 0.4] [10, 0.6, 0.8] 1 ≠ [10, 0.6, 0.8] ∧
    canon [.hue, .lin, .lin] (mixHue [.hue, .lin, .lin] [(350 : ℝ), 0.2, 0.4] [10, 0.6, 0.8] 1) = canon [.hue, .lin, .lin] [10, 0.6, 0.8] := by
  refine ⟨?_, mixHue_at_one _ _ _ rfl rfl⟩
  rw [mixHue_eq_mixAll [.hue, .lin, .lin] [(350 : ℝ), 0.2, 0.4] [10, 0.6, 0.8] 1 rfl rfl]; show mixAll _ _ _ (clamp01 1) ≠ _
  rw [clamp01_mid zero_le_one le_rfl]
  simp only [mixAll, mixC_hue, ne_eq, List.cons.injEq, not_and]
  intro h
  exfalso
  have hn : normSigned ((10 : ℝ) - 350) = 20 := by
    have e : ((10 : ℝ) - 350) = 20 - 360 * (1 : ℤ) := by norm_num
    rw [e, normSigned_sub_turns, normSigned_id (by norm_num) (by norm_num)]
  rw [hn] at h; norm_num at h
/-- … while from `(30°, …)` to `(100°, …)` it is exact -/
example : mixHue [.hue, .lin, .lin] [(30 : ℝ), 0.2, 0.4] [100, 0.6, 0.8] 1 = [100, 0.6, 0.8] :=
  mixHue_at_one_exact _ _ _ rfl rfl (by simp [HuesClose]; norm_num)

/-- **whole colours: every linear component of `mix a b t`, `t ∈ [0,1]`, lies between the inputs** -/
theorem mixAll_lin_between : ∀ (rs : List Role) (a b : List ℝ) (t : ℝ), 0 ≤ t → t ≤ 1 → ∀ (i : Nat) (x y z : ℝ),
    rs[i]? = some Role.lin → a[i]? = some x → b[i]? = some y → (mixAll rs a b t)[i]? = some z → min x y ≤ z ∧ z ≤ max x y
  | [], _, _, _, _, _, i, _, _, _, h, _, _, _ => by simp at h
  | _ :: _, [], _, _, _, _, i, _, _, _, _, h, _, _ => by simp at h
  | _ :: _, _ :: _, [], _, _, _, i, _, _, _, _, _, h, _ => by simp at h
  | r :: rs, p :: a, q :: b, t, h0, h1, 0, x, y, z, hr, ha, hb, hz => by
    simp only [List.getElem?_cons_zero, Option.some.injEq] at hr ha hb
    simp only [mixAll, List.getElem?_cons_zero, Option.some.injEq] at hz
    subst hr ha hb hz
    exact mixC_lin_between _ _ t h0 h1
  | r :: rs, p :: a, q :: b, t, h0, h1, i + 1, x, y, z, hr, ha, hb, hz => by
    simp only [List.getElem?_cons_succ] at hr ha hb
    simp only [mixAll, List.getElem?_cons_succ] at hz
    exact mixAll_lin_between rs a b t h0 h1 i x y z hr ha hb hz

example : ∀ z : ℝ, (mixAll [.hue, .lin] [(10 : ℝ), 0.25] [50, 0.75] (1/2))[1]? = some z → min 0.25 0.75 ≤ z ∧ z ≤ max 0.25 0.75 :=
  fun z hz => mixAll_lin_between [.hue, .lin] [10, 0.25] [50, 0.75] (1/2) (by norm_num) (by norm_num) 1 0.25 0.75 z rfl rfl rfl hz

/-! ## 2. the relative HWB forms for every factor -/

/-- `lighten(f)`, `f ≥ 0`, in-range colour: whiteness `w + (1 − w)·f` (no upper limit), blackness `max (b − b·f) 0` -/
theorem hwbLighten_nonneg_factor {w b f : ℝ} (hw0 : 0 ≤ w) (hw1 : w ≤ 1) (hb0 : 0 ≤ b) (hf0 : 0 ≤ f) :
    hwbLighten unitLim w b f = (w + (1 - w) * f, max (b - b * f) 0) := by
  unfold hwbLighten unitLim
  simp only [zero_eq, if_pos hf0, smax_eq]
  rw [max_eq_left (by linarith : (0:ℝ) ≤ 1 - w), max_eq_left hb0, max_eq_left (by nlinarith [mul_nonneg (sub_nonneg.mpr hw1) hf0])]

/-- `lighten(−f)` = `darken(f)`, `f > 0`: whiteness `max (w − w·f) 0`, blackness `b + (1 − b)·f` (no upper limit) -/
theorem hwbLighten_neg_factor {w b f : ℝ} (hw0 : 0 ≤ w) (hb0 : 0 ≤ b) (hb1 : b ≤ 1) (hf0 : 0 < f) :
    hwbLighten unitLim w b (-f) = (max (w - w * f) 0, b + (1 - b) * f) := by
  unfold hwbLighten unitLim
  simp only [zero_eq, if_neg (by linarith : ¬ (0:ℝ) ≤ -f), smax_eq]
  rw [max_eq_left hw0, max_eq_left (by linarith : (0:ℝ) ≤ 1 - b), max_eq_left (by nlinarith [mul_nonneg (sub_nonneg.mpr hb1) hf0.le] : (0:ℝ) ≤ b - (1 - b) * -f)]
  congr 1 <;> ring_nf

/-- **a factor above 1 takes the whiteness of every in-range colour with `w < 1` above 1** (and the blackness to 0) -/
theorem hwb_relative_exceeds {w b f : ℝ} (hw0 : 0 ≤ w) (hw1 : w < 1) (hb0 : 0 ≤ b) (hf : 1 < f) :
    1 < (hwbLighten unitLim w b f).1 ∧ (hwbLighten unitLim w b f).2 = 0 := by
  rw [hwbLighten_nonneg_factor hw0 hw1.le hb0 (by linarith)]
  refine ⟨by nlinarith, max_eq_right ?_⟩
  nlinarith

/-- for `f ≥ 0` and an in-range colour with `w < 1` the relative form stays in range **iff** `f ≤ 1` -/
theorem hwb_relative_in_range_iff {w b f : ℝ} (hw0 : 0 ≤ w) (hw1 : w < 1) (hb0 : 0 ≤ b) (hf0 : 0 ≤ f) :
    (hwbLighten unitLim w b f).1 ≤ 1 ↔ f ≤ 1 := by
  rw [hwbLighten_nonneg_factor hw0 hw1.le hb0 hf0]
  constructor
  · intro h
    by_contra hf
    have : 1 < f := not_le.mp hf
    have h' : w + (1 - w) * f ≤ 1 := h
    nlinarith
  · intro h
    show w + (1 - w) * f ≤ 1
    nlinarith
/-- the mirror image for darkening: blackness above 1 for a factor below −1 -/
theorem hwb_relative_darken_exceeds {w b f : ℝ} (hw0 : 0 ≤ w) (hb0 : 0 ≤ b) (hb1 : b < 1) (hf : 1 < f) :
    1 < (hwbLighten unitLim w b (-f)).2 ∧ (hwbLighten unitLim w b (-f)).1 = 0 := by
  rw [hwbLighten_neg_factor hw0 hb0 hb1.le (by linarith)]
  refine ⟨by nlinarith, max_eq_right ?_⟩
  nlinarith

/-- witness: `Hwb(_, 0.5, 0.25).lighten(2.0)` has whiteness 1.5 — whereas every `_impl_increase_value_trait!` type stays in
    `[lo, hi]` for every factor (`incC_mem`), e.g. `Hsl` lightness at factor 2 is 1 -/
theorem hwb_relative_witness : hwbLighten unitLim (1/2 : ℝ) (1/4) 2 = (3/2, 0) := by
  rw [hwbLighten_nonneg_factor (by norm_num) (by norm_num) (by norm_num) (by norm_num)]
  norm_num
example : incC (0 : ℝ) 1 (1/2) 2 ≤ 1 := (incC_mem 0 1 (1/2) 2 zero_le_one).2

end C10
