/-
  C18 — the iterators are exact-size, and a leaked drain.

  (b) `size_hint()` / `len()` / `count()` of the struct-of-arrays iterators (`Iter<I>` of every colour type, `alpha::Iter`):
      after any mixture of `next` / `next_back` (with or without write-through, interleaved with the queries themselves) the
      reported bounds are *exactly* the number of items still to come, `next`/`next_back` yield an item exactly while that
      number is positive — `sizes_exact` (column model), `nested_sizes_exact` (`Alpha`), `*_sizes_exact` per operation.
  (c) `mem::forget` of a `Drain` (`Op.forgetDrain`): the range and the tail are lost in every column alike, nothing is
      duplicated, all columns keep one length — `forget_*`.
  The harness observes `size_hint()`/`count()` inside the iterator scripts and replays leaked drains (`harness/src/c18.rs`).
-/
import PaletteProofs.C18_SoaNested

namespace C18
open Soa

variable {α : Type} {k : Nat}

/-! ## (b) exact size -/

/-- what an exact-size double-ended iterator with `n` items left may report, observation by observation: every
    `len`/`size_hint`/`count` says exactly `n`, an item comes exactly when `n > 0` (and leaves `n - 1`), `None` exactly when `n = 0` -/
def SizesExact : Nat → List (SObs α k) → Prop
  | _, [] => True
  | n, .item (some _) :: t => 0 < n ∧ SizesExact (n - 1) t
  | n, .item none :: t => n = 0 ∧ SizesExact n t
  | n, .len m :: t => m = n ∧ SizesExact n t
  | n, .hint lo hi :: t => lo = n ∧ hi = some n ∧ SizesExact n t
  | n, .count m :: t => m = n ∧ SizesExact n t

/-- the plain vector's iterator (`slice::Iter` & co.: the trusted reference) is exact-size in this sense -/
theorem ref_sizes_exact (rz : RZip α k) (sc : List (Step α k)) : SizesExact rz.rest.length (rz.run sc).2 := by
  induction sc generalizing rz with
  | nil => trivial
  | cons st t ih =>
    obtain ⟨pre, rest, post⟩ := rz
    cases st with
    | next w =>
      cases rest with
      | nil => exact ⟨rfl, ih ⟨pre, [], post⟩⟩
      | cons r rest' =>
        simp only [RZip.run, RZip.step, RZip.next]
        exact ⟨by simp, by simpa using ih ⟨pre ++ [w.getD r], rest', post⟩⟩
    | nextBack w =>
      cases hl : rest.getLast? with
      | none =>
        have : rest = [] := by simpa using hl
        subst this
        simp only [RZip.run, RZip.step, RZip.nextBack, List.getLast?_nil]
        exact ⟨rfl, ih ⟨pre, [], post⟩⟩
      | some r =>
        have hne : rest ≠ [] := by intro e; subst e; simp at hl
        simp only [RZip.run, RZip.step, RZip.nextBack, hl]
        refine ⟨List.length_pos_iff.mpr hne, ?_⟩
        have := ih ⟨pre, rest.dropLast, w.getD r :: post⟩
        simpa using this
    | len => exact ⟨rfl, ih _⟩
    | sizeHint => exact ⟨rfl, rfl, ih _⟩
    | count => exact ⟨rfl, ih _⟩

/-- **the struct-of-arrays iterator is exact-size**: started on a window of `rz.rest.length` colours, after any mixture of
    `next`/`next_back` (any writes, any queries in between) every reported `len`, `size_hint` (both bounds) and `count` is the
    number of items still to come -/
theorem sizes_exact (hk : 0 < k) (rz : RZip α k) (sc : List (Step α k)) : SizesExact rz.rest.length ((zipOf rz).run sc).2 := by
  rw [zipRun_refines hk]; exact ref_sizes_exact rz sc

/-- the same for `alpha::Iter` (its `len`/`size_hint`/`count` are the colour iterator's): on equal-length parts -/
theorem nested_sizes_exact (hk : 0 < k) (z : NZip α k) (rz : RZip α (k + 1)) (h : flatZip z = zipOf rz) (sc : List (Step α (k + 1))) :
    SizesExact rz.rest.length (z.run sc).2 := by
  have := sizes_exact (Nat.succ_pos k) rz sc
  rw [← h, nzipRun_refines hk] at this
  exact this

/-- its hypothesis is met by the iterator over any nested collection of colours-with-alpha; so `iter()`/`iter_mut()` of an
    `Alpha<Color<Vec<T>>, Vec<A>>` holding `rs` are exact-size from `rs.length` -/
theorem nested_iter_sizes_exact (hk : 0 < k) (rs : List (Row α (k + 1))) (sc : List (Step α (k + 1))) :
    SizesExact rs.length ((NZip.ofParts (nestOf rs).color (nestOf rs).alpha).run sc).2 :=
  nested_sizes_exact hk _ ⟨[], rs, []⟩ (flatZip_nestOf rs) sc

/-- as a number: the items still to come are the initial ones minus those yielded so far, from either end -/
def yielded (obs : List (SObs α k)) : Nat := obs.countP fun o => match o with | .item (some _) => true | _ => false

theorem yielded_cons_some (r : Row α k) (t : List (SObs α k)) : yielded (.item (some r) :: t) = yielded t + 1 := by
  simp [yielded]

theorem ref_remaining (rz : RZip α k) (sc : List (Step α k)) : (rz.run sc).1.rest.length + yielded (rz.run sc).2 = rz.rest.length := by
  induction sc generalizing rz with
  | nil => simp [RZip.run, yielded]
  | cons st t ih =>
    obtain ⟨pre, rest, post⟩ := rz
    cases st with
    | next w =>
      cases rest with
      | nil => simpa [RZip.run, RZip.step, RZip.next, yielded] using ih ⟨pre, [], post⟩
      | cons r rest' =>
        have := ih ⟨pre ++ [w.getD r], rest', post⟩
        dsimp only at this
        simp only [RZip.run, RZip.step, RZip.next, yielded_cons_some, List.length_cons]
        omega
    | nextBack w =>
      cases hl : rest.getLast? with
      | none =>
        have : rest = [] := by simpa using hl
        subst this
        simpa [RZip.run, RZip.step, RZip.nextBack, yielded] using ih ⟨pre, [], post⟩
      | some r =>
        have hne : rest ≠ [] := by intro e; subst e; simp at hl
        have hpos := List.length_pos_iff.mpr hne
        have := ih ⟨pre, rest.dropLast, w.getD r :: post⟩
        dsimp only at this
        simp only [List.length_dropLast] at this
        simp only [RZip.run, RZip.step, RZip.nextBack, hl, yielded_cons_some]
        omega
    | len => simpa [RZip.run, RZip.step, yielded] using ih ⟨pre, rest, post⟩
    | sizeHint => simpa [RZip.run, RZip.step, yielded] using ih ⟨pre, rest, post⟩
    | count => simpa [RZip.run, RZip.step, yielded] using ih ⟨pre, rest, post⟩

/-- **`size_hint() = (m, Some(m))`, `len() = m`, `count() = m`** with `m` = initial length − items yielded so far, after any script -/
theorem exact_size (hk : 0 < k) (rz : RZip α k) (sc : List (Step α k)) :
    ((zipOf rz).run sc).1.sizeHint = (rz.rest.length - yielded ((zipOf rz).run sc).2, some (rz.rest.length - yielded ((zipOf rz).run sc).2)) ∧
    ((zipOf rz).run sc).1.len = rz.rest.length - yielded ((zipOf rz).run sc).2 ∧
    ((zipOf rz).run sc).1.count = rz.rest.length - yielded ((zipOf rz).run sc).2 := by
  have h := ref_remaining rz sc
  rw [zipRun_refines hk]
  simp only [Zip.sizeHint, Zip.len, Zip.count, zipOf, firstLen_colsOf hk]
  have : (rz.run sc).1.rest.length = rz.rest.length - yielded (rz.run sc).2 := by omega
  simp [this]

/-- … and `m` is what an exhaustive `next` loop then yields: exactly the `m` remaining colours, in order, then `None` -/
theorem exact_size_remaining (hk : 0 < k) (rz : RZip α k) (sc : List (Step α k)) :
    ((((zipOf rz).run sc).1).run (List.replicate (((zipOf rz).run sc).1.len + 1) (.next none))).2
      = (rz.run sc).1.rest.map (fun r => SObs.item (some r)) ++ [SObs.item none] := by
  rw [zipRun_refines hk]
  simp only [Zip.len, zipOf, firstLen_colsOf hk]
  have := zipRun_refines hk (rz.run sc).1 (List.replicate ((rz.run sc).1.rest.length + 1) (.next none))
  simp only [zipOf] at this
  rw [this]
  exact ref_fwd_all _ _ _

/-! ### per operation: the observations of every iterator-carrying operation are exact-size -/

theorem runRead_sizes_exact (hk : 0 < k) (rs : List (Row α k)) (sc : List (Step α k)) : SizesExact rs.length (runRead (colsOf rs) sc) := by
  rw [runRead_refines hk]; exact ref_sizes_exact ⟨[], rs, []⟩ _

theorem iter_sizes_exact (hk : 0 < k) (rs : List (Row α k)) (sc : List (Step α k)) :
    (step (colsOf rs) (.iter sc)).2 = .steps (runRead (colsOf rs) sc) ∧ SizesExact rs.length (runRead (colsOf rs) sc) :=
  ⟨rfl, runRead_sizes_exact hk rs sc⟩

theorem iterMut_sizes_exact (hk : 0 < k) (rs : List (Row α k)) (sc : List (Step α k)) :
    ∃ obs, (step (colsOf rs) (.iterMut sc)).2 = .steps obs ∧ SizesExact rs.length obs := by
  refine ⟨((Zip.ofCols (colsOf rs)).run sc).2, rfl, ?_⟩
  rw [ofCols_colsOf]; exact sizes_exact hk ⟨[], rs, []⟩ sc

theorem window_length (rs : List (Row α k)) (r : Rng) (a b : Nat) (h : r.resolve rs.length = some (a, b)) :
    ((rs.take b).drop a).length = b - a := by
  have := resolve_some rs.length r a b h
  simp; omega

/-- `drain(range)`, `get(range)`, `get_mut(range)`, a leaked drain: the iterator over a window `a..b` starts at `b - a` -/
theorem window_sizes_exact (hk : 0 < k) (rs : List (Row α k)) (r : Rng) (a b : Nat) (h : r.resolve rs.length = some (a, b))
    (sc : List (Step α k)) :
    (∃ obs, (step (colsOf rs) (.drain r sc)).2 = .steps obs ∧ SizesExact (b - a) obs) ∧
    (∃ obs, (step (colsOf rs) (.forgetDrain r sc)).2 = .steps obs ∧ SizesExact (b - a) obs) ∧
    (∃ obs, (step (colsOf rs) (.getRange r sc)).2 = .steps obs ∧ SizesExact (b - a) obs) ∧
    (∃ obs, (step (colsOf rs) (.getMutRange r sc)).2 = .steps obs ∧ SizesExact (b - a) obs) := by
  have hw := window_length rs r a b h
  refine ⟨?_, ?_, ?_, ?_⟩
  · rw [step_refines hk]; simp only [stepRef, h]
    exact ⟨_, rfl, hw ▸ ref_sizes_exact ⟨[], (rs.take b).drop a, []⟩ _⟩
  · rw [step_refines hk]; simp only [stepRef, h]
    exact ⟨_, rfl, hw ▸ ref_sizes_exact ⟨[], (rs.take b).drop a, []⟩ _⟩
  · rw [step_refines hk]; simp only [stepRef, h]
    exact ⟨_, rfl, hw ▸ ref_sizes_exact ⟨[], (rs.take b).drop a, []⟩ _⟩
  · rw [step_refines hk]; simp only [stepRef, h]
    exact ⟨_, rfl, hw ▸ ref_sizes_exact ⟨rs.take a, (rs.take b).drop a, rs.drop b⟩ _⟩

/-! ## (c) a leaked drain (`mem::forget`) -/

/-- the range **and the tail** are lost, in every column alike: what is left is the first `a` colours -/
theorem forget_keeps_prefix (hk : 0 < k) (rs : List (Row α k)) (r : Rng) (sc : List (Step α k)) (a b : Nat)
    (h : r.resolve rs.length = some (a, b)) : (step (colsOf rs) (.forgetDrain r sc)).1 = colsOf (rs.take a) := by
  rw [step_refines hk]; simp [stepRef, h]

/-- nothing is duplicated: the colours kept, the colours the iterator can yield and the lost tail are consecutive,
    disjoint pieces of the original -/
theorem forget_partition (rs : List (Row α k)) (r : Rng) (a b : Nat) (h : r.resolve rs.length = some (a, b)) :
    rs.take a ++ ((rs.take b).drop a ++ rs.drop b) = rs := by
  have hab := (resolve_some rs.length r a b h).1
  have e : (rs.take b).drop a ++ rs.drop b = rs.drop a := by
    have h1 : rs.drop a = (rs.take b ++ rs.drop b).drop a := by rw [List.take_append_drop]
    rw [h1, List.drop_append_of_le_length (by simp; have := (resolve_some rs.length r a b h).2; omega)]
  rw [e, List.take_append_drop]

/-- what the leaked iterator yields comes from the range only, in order, like a dropped drain's -/
theorem forget_yields_as_drain (hk : 0 < k) (rs : List (Row α k)) (r : Rng) (sc : List (Step α k)) :
    (step (colsOf rs) (.forgetDrain r sc)).2 = (step (colsOf rs) (.drain r sc)).2 := by
  rw [step_refines hk, step_refines hk]
  simp only [stepRef]
  cases r.resolve rs.length <;> rfl

/-- it panics exactly where `drain` panics, and then nothing has been touched -/
theorem forget_panic_iff (hk : 0 < k) (rs : List (Row α k)) (r : Rng) (sc : List (Step α k)) :
    (step (colsOf rs) (.forgetDrain r sc)).2 = .panic ↔ r.resolve rs.length = none := by
  rw [forget_yields_as_drain hk]; exact drain_panic_iff hk rs r sc

theorem forget_panic_state (hk : 0 < k) (rs : List (Row α k)) (r : Rng) (sc : List (Step α k)) (h : r.resolve rs.length = none) :
    (step (colsOf rs) (.forgetDrain r sc)).1 = colsOf rs := by
  rw [step_refines hk]; simp [stepRef, h]

/-- all columns (hue and alpha included) keep one common length — the general invariant at this operation -/
theorem forget_keeps_equal_lengths (hk : 0 < k) (s : Cols α k) (h : EqLen s) (r : Rng) (sc : List (Step α k)) :
    EqLen (step s (.forgetDrain r sc)).1 := invariant_step hk s h _

/-- the same under `Alpha`: the colour's columns and the alpha vector lose the same range and tail -/
theorem nested_forget_keeps_prefix (hk : 0 < k) (n : Nest α k) (rs : List (Row α (k + 1))) (hn : n.flat = colsOf rs) (r : Rng)
    (sc : List (Step α (k + 1))) (a b : Nat) (h : r.resolve rs.length = some (a, b)) :
    (nstep n (.forgetDrain r sc)).1.flat = colsOf (rs.take a) := by
  have e := nstep_refines hk n (.forgetDrain r sc)
  rw [hn] at e
  have h1 := forget_keeps_prefix (Nat.succ_pos k) rs r sc a b h
  rw [e] at h1
  exact h1

/-! ## non-vacuity -/

/-- the hypothesis of `nested_forget_keeps_prefix` is met by every nested collection of colours-with-alpha -/
example (rs : List (Row α (k + 1))) : (nestOf rs).flat = colsOf rs := nestOf_flat rs
example : SizesExact (α := Nat) (k := 2) 2 [.hint 2 (some 2), .item (some #v[1, 2]), .len 1, .item (some #v[3, 4]), .item none, .count 0] := by
  simp [SizesExact]
/-- an iterator that reported a stale length would not pass -/
example : ¬ SizesExact (α := Nat) (k := 2) 2 [.item (some #v[1, 2]), .len 2] := by simp [SizesExact]
example :
    (step (colsOf [#v[1, 2], #v[3, 4], #v[5, 6], #v[7, 8]]) (.iterMut [.sizeHint, .next none, .nextBack (some #v[0, 0]), .sizeHint, .len, .next none, .count])).2
    = .steps [.hint 4 (some 4), .item (some #v[1, 2]), .item (some #v[7, 8]), .hint 2 (some 2), .len 2, .item (some #v[3, 4]), .count 1] := by
  decide +kernel
example : (Rng.range 1 3).resolve ([#v[1, 2], #v[3, 4], #v[5, 6], #v[7, 8]] : List (Row Nat 2)).length = some (1, 3) := by decide
example :
    step (colsOf [#v[1, 2], #v[3, 4], #v[5, 6], #v[7, 8]]) (.forgetDrain (.range 1 3) [.next none])
    = (colsOf [#v[1, 2]], .steps [.item (some #v[3, 4])]) := by
  decide +kernel

end C18
