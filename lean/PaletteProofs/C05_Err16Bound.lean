/-
  C05 — **the 16-bit ProPhoto encoder (`FromLinear<f32, u16>` for `ProPhotoRgb`, feature `gamma_lut_u16`) is within 0.6 of one code of
  the exact transfer curve, for every f32 in [0, 1]** (property text: "The integer fast paths (8-bit, and 16-bit where offered) …
  return the code that exact rounding of the standard curve would give except within a narrow band around rounding ties (error below
  0.6 of one code)").

    theorem fromLinearU16_faithful (b : Nat) (hb : b ≤ 0x3f800000) :
        |(prophotoFromLinearU16 b : ℝ) − 65535 · fromLinear .prophoto (f32val b)| < 0.6

  `prophotoFromLinearU16` is the bit-level model the driver executes (`PaletteModel/Lut.lean`: clamp, float branch
  `((linear_scale·x + 2²³).to_bits() & 0xffff)` below `min_float = 2⁻⁹`, table branch above; table, `min_float` and `linear_scale`
  regenerated from /repo), `fromLinear .prophoto` the generic float curve of `PaletteModel/Color/Transfer.lean` read at ℝ (`16·x` below
  `1/512`, `x^(1/1.8)` from there on; the standard's curve: C02), `f32val b` the real number the pattern `b` stands for;
  `b ≤ 0x3f800000` are exactly the f32 values in `[0, 1]` (+0, subnormals, normals up to 1.0).

  Proof.
  * **table branch** (`2⁻⁹ ≤ x < 1`, 1152 cells × 65 536 one-pattern steps): the code is `⌊L(t)⌋` with `L` affine in the in-cell offset
    `t`; per cell the kernel checks six integer power comparisons (`C05_Err16_Cells`, 6912 in all, ≈ 4 s) which give
    `L(t) − 0.6 < 65535·x^(5/9) ≤ L(t) − 0.4` on the whole cell — upper side by concavity (chord), lower side by two tangent lines
    (Bernoulli) — see `Lemmas/C05_Err16Check.lean` / `Lemmas/C05_Err16Real.lean`; with `L − 1 < ⌊L⌋ ≤ L` this is `|code − C| < 0.6`.
  * **float branch** (`0 < x < 2⁻⁹`): `lin16_eq` (closed form in Lean's own `Float32` model: the exact product `linear_scale·x`, rounded
    to 24 bits, rounded to an integer, both to nearest) and `linear_scale = 16·65535` exactly, so the exact product *is*
    `65535·16·x`; the two roundings move it by at most `2⁻¹⁴ + ½`.
  * `x = 0 ↦ 0`, `x = 1 ↦ 65535` (saturation), where the curve is `0` resp. `1`.
-/
import PaletteProofs.Real
import PaletteModel.Color.Transfer
import PaletteProofs.C05_LutMono16Lin
import PaletteProofs.C05_Transfer
import PaletteProofs.Lemmas.C05_Err16Real
import PaletteProofs.C05_Err16_Cells

namespace C05E16
open Lut Transfer C05 C05T C05E F32Round

/-- facts about the three generated numbers `min_float`, `linear_scale`, `max_float`, decided on `Gen/Lut.lean`:
    `min_float` is the pattern of `2⁻⁹` (the knee of the curve) and starts a cell; `linear_scale` has significand `65535·2⁸`
    (with exponent `2⁻⁴`, `scale_facts`: it is `16·65535`); the exact product on the float branch stays below `2¹¹` -/
theorem facts16 :
    Gen.Lut.prophotoMinFloat % 65536 = 0 ∧ 128 ≤ Gen.Lut.prophotoMinFloat / 65536 ∧
    mant Gen.Lut.prophotoMinFloat = 2 ^ 23 ∧ expo Gen.Lut.prophotoMinFloat = 118 ∧
    mant (Gen.Lut.prophotoMinFloat - 1) * 2 ^ expo (Gen.Lut.prophotoMinFloat - 1) * 512 < 1 * 2 ^ 150 ∧
    mant Gen.Lut.prophotoLinearScaleBits = 65535 * 256 ∧
    mant Gen.Lut.prophotoLinearScaleBits *
        (mant (Gen.Lut.prophotoMinFloat - 1) * 2 ^ expo (Gen.Lut.prophotoMinFloat - 1)) < 2 ^ (141 + 24) ∧
    Gen.Lut.prophotoMinFloat ≤ Gen.Lut.maxFloatBits := by
  decide +kernel

theorem f32val_min : f32val Gen.Lut.prophotoMinFloat = 0.001953125 := by
  obtain ⟨_, _, hm, he, _⟩ := facts16
  unfold f32val; rw [hm, he]; norm_num

theorem f32val_lt_of (b n d : Nat) (hd : 0 < d) (h : mant b * 2 ^ expo b * d < n * 2 ^ 150) : f32val b < (n:ℝ) / d := by
  have hc := (Nat.cast_lt (α := ℝ)).mpr h
  push_cast at hc
  have hd' : (0:ℝ) < d := by exact_mod_cast hd
  unfold f32val
  rw [div_lt_div_iff₀ (by positivity) hd']; linarith

theorem f32val_below_min {b : Nat} (h : b < Gen.Lut.prophotoMinFloat) : f32val b < 0.001953125 := by
  obtain ⟨_, _, _, _, hlt, _⟩ := facts16
  have h1 := f32val_mono (b := b) (b' := Gen.Lut.prophotoMinFloat - 1) (by omega)
  have h2 := f32val_lt_of (Gen.Lut.prophotoMinFloat - 1) 1 512 (by decide) hlt
  norm_num at h2 ⊢
  linarith

/-- the exponent `1/1.8` of the model curve is `5/9` -/
theorem exp59 : ((1.0:ℝ) / 1.8) = ((5:ℕ):ℝ) / ((9:ℕ):ℝ) := by norm_num

/-! ## the table branch -/

/-- **table branch**: every pattern from `min_float = 2⁻⁹` to `max_float` (the last f32 below 1) -/
theorem table_faithful (b : Nat) (h0 : Gen.Lut.prophotoMinFloat ≤ b) (h1 : b ≤ Gen.Lut.maxFloatBits) :
    |(encodeClamped Gen.Lut.prophotoEnc Gen.Lut.prophotoMinFloat 16 7 b : ℝ) -
        65535 * f32val b ^ (((5:ℕ):ℝ) / ((9:ℕ):ℝ))| < 0.6 := by
  obtain ⟨hal, hk0, _⟩ := facts16
  obtain ⟨ci, ct⟩ := cell_coords16 b h0
  have hidx := index_in_bounds_u16 b h0 h1
  rw [ci] at hidx
  unfold encodeClamped
  rw [ci, ct]
  set j := (b - Gen.Lut.prophotoMinFloat) / 65536 with hj
  set t := (b - Gen.Lut.prophotoMinFloat) % 65536 with ht
  have hcell := prophoto16_cells j hidx
  generalize Gen.Lut.prophotoEnc.getD j 0 = entry at hcell ⊢
  have ht' : t < 65536 := Nat.mod_lt _ (by decide)
  have hlo : Gen.Lut.prophotoMinFloat + j * 65536 = 65536 * (Gen.Lut.prophotoMinFloat / 65536 + j) := by omega
  have hb : b = 65536 * (Gen.Lut.prophotoMinFloat / 65536 + j) + t := by omega
  rw [hlo] at hcell
  obtain ⟨up, low⟩ := cell_real entry _ t (by omega) ht' hcell
  rw [← hb] at up low
  -- the floor
  obtain ⟨g1, g2⟩ := cellRes_floor entry t
  have g1' := (Nat.cast_le (α := ℝ)).mpr g1
  have g2' := (Nat.cast_lt (α := ℝ)).mpr g2
  push_cast at g1' g2'
  have p32 : (0:ℝ) < 2 ^ 32 := by positivity
  have e32 : (4294967296:ℝ) = 2 ^ 32 := by norm_num
  rw [e32] at g1' g2'
  have f1 : ((cellRes 16 entry t : ℕ) : ℝ) ≤ Lr entry t := by
    unfold Lr; rw [le_div_iff₀ p32]; exact g1'
  have f2 : Lr entry t < ((cellRes 16 entry t : ℕ) : ℝ) + 1 := by
    unfold Lr; rw [div_lt_iff₀ p32]; exact g2'
  rw [abs_lt]
  constructor <;> linarith

/-! ## the float branch -/

/-- the float branch is within `½ + 2⁻¹⁴` of `65535·16·x` (two roundings to nearest) -/
theorem lin_err (b : Nat) (h1 : b < Gen.Lut.prophotoMinFloat) :
    |(linSpec b : ℝ) - 65535 * (16 * f32val b)| ≤ 0.5001 := by
  obtain ⟨_, _, _, _, _, hS, hVmax, _⟩ := facts16
  have hV : mant Gen.Lut.prophotoLinearScaleBits * mant b * 2 ^ expo b < 2 ^ (141 + 24) := by
    rw [Nat.mul_assoc]
    exact Nat.lt_of_le_of_lt
      (Nat.mul_le_mul_left _ (F32Round.weight_mono (b := b) (b' := Gen.Lut.prophotoMinFloat - 1) (by omega))) hVmax
  unfold linSpec
  set V := mant Gen.Lut.prophotoLinearScaleBits * mant b * 2 ^ expo b with hVdef
  have hg : gexp (154 - 149) V ≤ 141 := gexp_le _ _ 141 hV (by decide)
  have hgp : 2 ^ gexp (154 - 149) V ≤ 2 ^ 141 := Nat.pow_le_pow_right (by decide) hg
  obtain ⟨r1, r2⟩ := rnd_err (154 - 149) V
  obtain ⟨d1, d2⟩ := rneDiv_err (rnd (154 - 149) V) (2 ^ 154) (Nat.two_pow_pos _)
  set R := rnd (154 - 149) V with hR
  set c := rneDiv R (2 ^ 154) with hc
  -- in ℕ: 2·c·2¹⁵⁴ ≤ 2·V + 2¹⁴¹ + 2¹⁵⁴ and 2·V ≤ 2·c·2¹⁵⁴ + 2¹⁴¹ + 2¹⁵⁴
  have n1 : 2 * (c * 2 ^ 154) ≤ 2 * V + 2 ^ 141 + 2 ^ 154 := by omega
  have n2 : 2 * V ≤ 2 * (c * 2 ^ 154) + 2 ^ 141 + 2 ^ 154 := by omega
  have n1' := (Nat.cast_le (α := ℝ)).mpr n1
  have n2' := (Nat.cast_le (α := ℝ)).mpr n2
  push_cast at n1' n2'
  -- the exact product is `65535·16·x`
  have hVr : (V : ℝ) = 65535 * (16 * f32val b) * 2 ^ 154 := by
    rw [hVdef, hS]; unfold f32val; push_cast
    have : (2:ℝ) ^ 154 = 16 * 2 ^ 150 := by norm_num
    rw [this]; field_simp; ring
  rw [hVr] at n1' n2'
  set u : ℝ := 65535 * (16 * f32val b) with hu
  rw [abs_le]
  constructor <;> linarith

/-- **float branch**: every positive pattern below `min_float = 2⁻⁹` (subnormals included); the curve there is `16·x` -/
theorem lin_faithful (b : Nat) (_h0 : 0 < b) (h1 : b < Gen.Lut.prophotoMinFloat) :
    |(linSpec b : ℝ) - 65535 * (16 * f32val b)| < 0.6 :=
  lt_of_le_of_lt (lin_err b h1) (by norm_num)

/-! ## the theorem -/

theorem clamp16_id (b : Nat) (h0 : 0 < b) (h1 : b ≤ Gen.Lut.maxFloatBits) : clamp16 b = b := by
  have hmax : Gen.Lut.maxFloatBits = 0x3f7fffff := geometry.2.2.2.2.2.2.1
  unfold clamp16
  simp only [beq_iff_eq]
  (repeat' split) <;> omega

/-- **0.6-code error bound, every f32 in [0, 1], 16-bit ProPhoto encoder.** -/
theorem fromLinearU16_faithful (b : Nat) (hb : b ≤ 0x3f800000) :
    |(prophotoFromLinearU16 b : ℝ) - 65535 * fromLinear .prophoto (f32val b)| < 0.6 := by
  show |(prophotoFromLinearU16 b : ℝ) - 65535 * prophotoFromLinear (f32val b)| < 0.6
  have hmax : Gen.Lut.maxFloatBits = 0x3f7fffff := geometry.2.2.2.2.2.2.1
  have hminmax : Gen.Lut.prophotoMinFloat ≤ Gen.Lut.maxFloatBits := facts16.2.2.2.2.2.2.2
  by_cases hb0 : b = 0
  · subst hb0
    rw [prophoto_low_saturates 0 (Or.inr (Or.inl rfl)), f32val_zero, prophotoFrom_lo (by norm_num)]
    norm_num
  by_cases hb1 : b = 0x3f800000
  · subst hb1
    rw [prophoto_high_saturates 0x3f800000 (by omega) (by omega), f32val_one, prophotoFrom_hi (by norm_num), Real.one_rpow]
    norm_num
  have hcl : clamp16 b = b := clamp16_id b (by omega) (by omega)
  by_cases hlow : b < Gen.Lut.prophotoMinFloat
  · -- float branch
    rw [prophoto_lin_branch b (by rw [hcl]; exact hlow), hcl, lin16_eq b (by omega) hlow,
      prophotoFrom_lo (f32val_below_min hlow)]
    have e : (16.0:ℝ) = 16 := by norm_num
    rw [e]
    exact lin_faithful b (by omega) hlow
  · -- table branch
    have hge : Gen.Lut.prophotoMinFloat ≤ b := by omega
    have hx : ¬ f32val b < 0.001953125 := by
      rw [not_lt, ← f32val_min]; exact f32val_mono hge
    rw [prophoto_table_branch b (by rw [hcl]; exact hge), hcl, prophotoFrom_hi hx, exp59]
    exact table_faithful b hge (by omega)

/-- read as "the code exact rounding would give, except near ties": whenever `65535·curve(x)` is at least 0.1 away from a rounding tie
    `n + ½`, the encoder returns the nearest integer `n` — i.e. any integer `n` with `|n − 65535·curve(x)| ≤ 0.4` is the code. -/
theorem fromLinearU16_is_rounding (b : Nat) (hb : b ≤ 0x3f800000) (n : Nat)
    (hn : |(n:ℝ) - 65535 * fromLinear .prophoto (f32val b)| ≤ 0.4) : prophotoFromLinearU16 b = n := by
  have h := fromLinearU16_faithful b hb
  rw [abs_lt] at h
  rw [abs_le] at hn
  have h1 : ((prophotoFromLinearU16 b : ℕ) : ℝ) < (n:ℝ) + 1 := by linarith [h.1, h.2, hn.1, hn.2]
  have h2 : (n:ℝ) < ((prophotoFromLinearU16 b : ℕ) : ℝ) + 1 := by linarith [h.1, h.2, hn.1, hn.2]
  have h1' : prophotoFromLinearU16 b < n + 1 := by exact_mod_cast h1
  have h2' : n < prophotoFromLinearU16 b + 1 := by exact_mod_cast h2
  omega

/-- non-vacuity: x = 0.5 (pattern `0x3f000000`, table branch) is in range and encodes as 44590 = round(65535·0.68039…);
    x = 2⁻¹¹ (pattern `0x3a000000`, float branch) encodes as 512 = round(65535·16·2⁻¹¹ = 511.99…) -/
example : (0x3f000000 : Nat) ≤ 0x3f800000 ∧ prophotoFromLinearU16 0x3f000000 = 44590 := by decide +kernel
example : (0x3a000000 : Nat) ≤ 0x3f800000 ∧ prophotoFromLinearU16 0x3a000000 = 512 := by decide +kernel
/-- the hypothesis of `fromLinearU16_is_rounding` is satisfiable: at x = 1/4 … the premise holds for the value the theorem then
    forces, e.g. x = 1 with n = 65535 -/
example : |((65535:ℕ):ℝ) - 65535 * fromLinear .prophoto (f32val 0x3f800000)| ≤ 0.4 := by
  show |((65535:ℕ):ℝ) - 65535 * prophotoFromLinear (f32val 0x3f800000)| ≤ 0.4
  rw [f32val_one, prophotoFrom_hi (by norm_num), Real.one_rpow]; norm_num

end C05E16
