/-
  C10 — further laws of `Mix`, per component, on `Ops.mixC` at ℝ (every `Mix` impl reduces to `mixC` at the clamped factor:
  `mixHue_eq_mixAll`, `mixLin_eq_mixAll` in `C10_Ops`).  `C10_Ops` / `C10_OpsMore` have the end points, the range and the shorter-arc
  statements; added here: mixing a colour with itself is the identity (hue included), swapping the operands mirrors the factor,
  nested mixes compose multiplicatively, the linear mix is monotone in the factor and is an affine map of each operand.
-/
import PaletteProofs.C10_OpsMore

namespace C10
open Ops

theorem mixC_lin_self (x t : ℝ) : mixC Role.lin x x t = x := by rw [mixC_lin]; ring
theorem mixC_hue_self (x t : ℝ) : mixC Role.hue x x t = x := by
  rw [mixC_hue, sub_self, normSigned_id (by norm_num) (by norm_num)]; ring
/-- **mixing a colour with itself returns it**, whatever the role of the component and the factor -/
theorem mixC_self (r : Role) (x t : ℝ) : mixC r x x t = x := by
  cases r
  · exact mixC_lin_self x t
  · exact mixC_hue_self x t

/-- swapping the operands mirrors the factor -/
theorem mixC_lin_swap (x y t : ℝ) : mixC Role.lin y x (1 - t) = mixC Role.lin x y t := by rw [mixC_lin, mixC_lin]; ring
/-- … for hues too, as long as the two are not antipodal (where the shorter arc is ambiguous and the code picks +180 both ways) -/
theorem mixC_hue_swap (x y t : ℝ) (h1 : -180 < y - x) (h2 : y - x < 180) : mixC Role.hue y x (1 - t) = mixC Role.hue x y t := by
  rw [mixC_hue, mixC_hue, normSigned_id h1 (le_of_lt h2), normSigned_id (by linarith) (by linarith)]; ring
/-- at antipodal hues both orders go the positive way: the mirrored mix lands a full turn away, i.e. on the same hue -/
theorem mixC_hue_swap_antipodal (x t : ℝ) : mixC Role.hue (x + 180) x (1 - t) = mixC Role.hue x (x + 180) t + 360 * (1 - t) := by
  rw [mixC_hue, mixC_hue]
  have e1 : x + 180 - x = 180 := by ring
  have e2 : x - (x + 180) = -180 := by ring
  rw [e1, e2, show normSigned (180:ℝ) = 180 from normSigned_id (by norm_num) (by norm_num)]
  obtain ⟨k, hk⟩ := normSigned_turns (-180)
  have hm := normSigned_mem (-180)
  have hk1 : k = -1 := by
    have h3 : (-180 : ℝ) < -180 - 360 * k := by rw [← hk]; exact hm.1
    have h4 : (-180 : ℝ) - 360 * k ≤ 180 := by rw [← hk]; exact hm.2
    have h5 : (k : ℝ) < 0 := by linarith
    have h6 : (-1 : ℝ) ≤ k := by linarith
    have h5' : k < 0 := by exact_mod_cast h5
    have h6' : (-1 : ℤ) ≤ k := by exact_mod_cast h6
    omega
  rw [hk, hk1]; push_cast; ring

/-- nested mixes toward the same colour compose multiplicatively -/
theorem mixC_lin_nested (x y s t : ℝ) : mixC Role.lin x (mixC Role.lin x y s) t = mixC Role.lin x y (s * t) := by
  simp only [mixC_lin]; ring
/-- the linear mix is monotone in the factor toward the larger operand, antitone toward the smaller -/
theorem mixC_lin_mono {x y : ℝ} (h : x ≤ y) {s t : ℝ} (hst : s ≤ t) : mixC Role.lin x y s ≤ mixC Role.lin x y t := by
  simp only [mixC_lin]; nlinarith
theorem mixC_lin_anti {x y : ℝ} (h : y ≤ x) {s t : ℝ} (hst : s ≤ t) : mixC Role.lin x y t ≤ mixC Role.lin x y s := by
  simp only [mixC_lin]; nlinarith
/-- the linear mix is the convex combination `(1 − t)·x + t·y`, and commutes with affine maps of the operands -/
theorem mixC_lin_convex (x y t : ℝ) : mixC Role.lin x y t = (1 - t) * x + t * y := by rw [mixC_lin]; ring
theorem mixC_lin_affine (k c x y t : ℝ) : mixC Role.lin (k * x + c) (k * y + c) t = k * mixC Role.lin x y t + c := by
  simp only [mixC_lin]; ring
/-- the midpoint is the arithmetic mean -/
theorem mixC_lin_half (x y : ℝ) : mixC Role.lin x y (1 / 2) = (x + y) / 2 := by rw [mixC_lin]; ring
/-- a hue mix moves by exactly the factor's share of the signed shorter arc -/
theorem mixC_hue_arc (x y t : ℝ) : mixC Role.hue x y t - x = normSigned (y - x) * t := by rw [mixC_hue]; ring
/-- nested hue mixes toward the same hue compose multiplicatively when the first step stays within the half turn -/
theorem mixC_hue_nested (x y s t : ℝ) (hs0 : 0 ≤ s) (hs1 : s ≤ 1) :
    mixC Role.hue x (mixC Role.hue x y s) t = mixC Role.hue x y (s * t) ∨ normSigned (y - x) * s = -180 := by
  by_cases hb : normSigned (y - x) * s = -180
  · exact Or.inr hb
  · left
    have hm := normSigned_mem (y - x)
    have hlo : -180 < normSigned (y - x) * s := by
      rcases lt_or_ge (normSigned (y - x)) 0 with hn | hn
      · have : -180 ≤ normSigned (y - x) * s := by nlinarith
        exact lt_of_le_of_ne this (Ne.symm hb)
      · nlinarith [mul_nonneg hn hs0]
    have hhi : normSigned (y - x) * s ≤ 180 := by
      rcases lt_or_ge (normSigned (y - x)) 0 with hn | hn
      · nlinarith [mul_nonpos_of_nonpos_of_nonneg (le_of_lt hn) hs0]
      · nlinarith
    rw [mixC_hue x (mixC Role.hue x y s) t, mixC_hue_arc, normSigned_id hlo hhi, mixC_hue]; ring

/-- non-vacuity -/
example : mixC Role.lin (2:ℝ) 6 (1/4) = 3 := by rw [mixC_lin]; norm_num
example : mixC Role.hue (350:ℝ) 10 (1/2) = 360 := by
  rw [mixC_hue]
  obtain ⟨k, hk⟩ := normSigned_turns ((10:ℝ) - 350)
  have hm := normSigned_mem ((10:ℝ) - 350)
  have hk1 : k = -1 := by
    have h3 : (-180 : ℝ) < 10 - 350 - 360 * k := by rw [← hk]; exact hm.1
    have h4 : (10 : ℝ) - 350 - 360 * k ≤ 180 := by rw [← hk]; exact hm.2
    have h5 : (k : ℝ) < 0 := by linarith
    have h6 : (-2 : ℝ) < k := by linarith
    have h5' : k < 0 := by exact_mod_cast h5
    have h6' : (-2 : ℤ) < k := by exact_mod_cast h6
    omega
  rw [hk, hk1]; push_cast; norm_num

end C10
