/-
  C11 — **upper bound of the signed normal form for every `Float` (binary64) with |x| ≤ 2^20**:  `normS64 x ≤ 180 + ulp x`
  (with `normS64_lower_all`: `−180 ≤ normS64 x ≤ 180 + ulp x`; `ulp` = spacing of binary64 at `x`).  Port of `C11_HueAllS.lean`.

  Proof: the same argument as in binary32.  Monotonicity of the computed whole-turn count
  `K X = ⌈R64 (R64 (R64 (X+180)/360) − 1)⌉` reduces the claim to one float per integer `k` (`Lemmas/HueScan64.lean`,
  `upper_of_chk64`: the count has already increased two floats above `360k + 180`); the 5832 checks `chk64 k`,
  `−2916 ≤ k ≤ 2915`, are decided by kernel evaluation of core's unpacked-float operations in `C11_HueScan64A..D.lean`
  (the number of checks depends on the range `|x| ≤ 2^20` only, not on the precision: about 55 s per module, cached).
-/
import PaletteProofs.C11_HueAll64
import PaletteProofs.C11_HueScan64A
import PaletteProofs.C11_HueScan64B
import PaletteProofs.C11_HueScan64C
import PaletteProofs.C11_HueScan64D

namespace C11
open Hue.Bits Float.Model Float.Model.UnpackedFloat Ieee Ieee.F64

theorem chk_of_scan64 {off k : ℤ} (scan : ∀ i : Fin 486, chk64 ((i.val : ℤ) + off) = true) (h0 : off ≤ k) (h1 : k < off + 486) :
    chk64 k = true := by
  have := scan ⟨(k - off).toNat, by omega⟩
  rwa [show (((⟨(k - off).toNat, by omega⟩ : Fin 486).val : ℤ)) + off = k by simp; omega] at this

theorem chk_all64 {k : ℤ} (h : |k| ≤ 2915) : chk64 k = true := by
  have hk := abs_le.mp h
  rcases lt_or_ge k (-2430) with h0 | h0
  · exact chk_of_scan64 scan64_00 (by omega) (by omega)
  rcases lt_or_ge k (-1944) with h1 | h1
  · exact chk_of_scan64 scan64_01 (by omega) (by omega)
  rcases lt_or_ge k (-1458) with h2 | h2
  · exact chk_of_scan64 scan64_02 (by omega) (by omega)
  rcases lt_or_ge k (-972) with h3 | h3
  · exact chk_of_scan64 scan64_03 (by omega) (by omega)
  rcases lt_or_ge k (-486) with h4 | h4
  · exact chk_of_scan64 scan64_04 (by omega) (by omega)
  rcases lt_or_ge k (0) with h5 | h5
  · exact chk_of_scan64 scan64_05 (by omega) (by omega)
  rcases lt_or_ge k (486) with h6 | h6
  · exact chk_of_scan64 scan64_06 (by omega) (by omega)
  rcases lt_or_ge k (972) with h7 | h7
  · exact chk_of_scan64 scan64_07 (by omega) (by omega)
  rcases lt_or_ge k (1458) with h8 | h8
  · exact chk_of_scan64 scan64_08 (by omega) (by omega)
  rcases lt_or_ge k (1944) with h9 | h9
  · exact chk_of_scan64 scan64_09 (by omega) (by omega)
  rcases lt_or_ge k (2430) with h10 | h10
  · exact chk_of_scan64 scan64_10 (by omega) (by omega)
  exact chk_of_scan64 scan64_11 (by omega) (by omega)

def t12864 : UnpackedFloat := .finite .positive 0x10000000000000 (-45) (by decide)
def tm12864 : UnpackedFloat := .finite .negative 0x10000000000000 (-45) (by decide)
theorem canon_t12864 : Canon spec t12864 := ⟨by decide, by decide, Or.inr (Or.inl (by decide))⟩
theorem canon_tm12864 : Canon spec tm12864 := ⟨by decide, by decide, Or.inr (Or.inl (by decide))⟩
theorem val_t12864 : val t12864 = 128 := by norm_num [t12864, val, sgn]
theorem val_tm12864 : val tm12864 = -128 := by norm_num [tm12864, val, sgn]

theorem g_at_12864 : (y364 t12864).le (.zero .positive) = true ∧
    (UnpackedFloat.normalize spec (-1) 0 .positive).lt (y364 tm12864) = true ∧ (y364 tm12864).le (.zero .positive) = true := by
  decide +kernel

theorem g_128_le64 : g64 128 ≤ 0 := by
  obtain ⟨vy, cy, fy⟩ := y3_spec64 canon_t12864 rfl
  have := (le_iff_val cy (show Canon spec (.zero .positive) from trivial) fy rfl).mp g_at_12864.1
  rw [vy, val_t12864] at this; simpa [val] using this

theorem g_m128_gt64 : -1 < g64 (-128) := by
  obtain ⟨vy, cy, fy⟩ := y3_spec64 canon_tm12864 rfl
  have := (lt_iff_val (canon_normalize spec (-1) 0 .positive) cy (isFinite_normalize ..) fy).mp g_at_12864.2.1
  rw [vy, val_tm12864, val_normalize] at this
  have h1 : Rs spec (((-1 : ℤ) : ℚ) * 2^(0 : ℤ)) = -1 := by
    have := R64_intCast (n := -1) (by norm_num); simpa using this
  rw [h1] at this; exact this

theorem g_m128_le64 : g64 (-128) ≤ 0 := by
  obtain ⟨vy, cy, fy⟩ := y3_spec64 canon_tm12864 rfl
  have := (le_iff_val cy (show Canon spec (.zero .positive) from trivial) fy rfl).mp g_at_12864.2.2
  rw [vy, val_tm12864] at this; simpa [val] using this

/-- **the signed normal form never exceeds `180 + ulp x`** (every f64 with |x| ≤ 2^20) -/
theorem normS64_upper_all : ∀ x : Float, IsFin x → |v x| ≤ 2^20 → v (normS64 x) ≤ 180 + ulp64 (v x) := by
  intro x hx hb
  obtain ⟨_, hv, hkb⟩ := normS64_closed_form hx hb
  have hgdef : R64 (R64 (R64 (v x + 180) / 360) - 1) = g64 (v x) := rfl
  rw [hgdef] at hv hkb
  set X := v x with hX
  set k := ⌈g64 X⌉ with hk
  have hupos := ulp_pos (p := 53) (emin := -1074) X
  by_cases hsmall : |X| ≤ 128
  · -- no whole turn is subtracted
    obtain ⟨hlo, hhi⟩ := abs_le.mp hsmall
    have h1 : g64 X ≤ 0 := le_trans (g_mono64 hhi) g_128_le64
    have h2 : -1 < g64 X := lt_of_lt_of_le g_m128_gt64 (g_mono64 hlo)
    have hk0 : k = 0 := by
      rw [hk, Int.ceil_eq_iff]; push_cast; constructor <;> linarith
    rw [hv, hk0]
    have : R64 (X - 360 * ((0 : ℤ) : ℚ)) = X := by
      rw [show X - 360 * ((0 : ℤ) : ℚ) = X by simp]
      exact R_val_of_canon spec (canon_U x)
    rw [this]; linarith
  · rw [not_le] at hsmall
    -- unpack x
    have hc := canon_U x
    have hXval : X = val (U x) := rfl
    unfold IsFin at hx
    cases hu : U x <;> rw [hu] at hx hc hXval <;> simp only [UnpackedFloat.isFinite, Bool.false_eq_true] at hx
    · exfalso; rw [hXval] at hsmall; simp [val] at hsmall; linarith
    · rename_i s m e hm
      have cm : CanonME spec m e := hc
      have hXs : X = sgn s * mag m e := by rw [hXval]; simp only [val, mag]; ring
      have habs : |X| = mag m e := by
        rw [hXs, abs_mul, abs_of_pos (mag_pos hm e)]; cases s <;> simp [sgn]
      have hmagpos := mag_pos hm e
      have h2e := two_zpow_pos e
      -- normal, and the exponent range
      have hmlt : (m : ℚ) < 2^53 := by exact_mod_cast cm.lt
      have he_lo : -46 < e := by
        by_contra hle; rw [not_lt] at hle
        have : mag m e ≤ 2^53 * 2^(-46 : ℤ) := by
          unfold mag
          exact mul_le_mul hmlt.le (zpow_le_zpow_right₀ (by norm_num) hle) h2e.le (by norm_num)
        rw [habs] at hsmall; norm_num at this; linarith
      have hnorm : 2^52 ≤ m := by
        rcases cm.norm with h | h | h
        · omega
        · exact h
        · exfalso; have : e = -1074 := h; omega
      have hmge : (2 : ℚ)^52 ≤ m := by exact_mod_cast hnorm
      have he_hi : e ≤ -32 := by
        by_contra hgt; rw [not_le] at hgt
        have : (2 : ℚ)^52 * 2^(-31 : ℤ) ≤ mag m e := by
          unfold mag
          exact mul_le_mul hmge (zpow_le_zpow_right₀ (by norm_num) (by omega)) (by positivity) (by positivity)
        rw [habs] at hb; norm_num at this; linarith
      -- ulp X = 2^e
      have hulp : ulp64 X = 2^e := by
        have hXne : X ≠ 0 := by rw [hXs]; cases s <;> simp [sgn] <;> linarith
        rw [show ulp64 X = ulp 53 (-1074) X from rfl, ulp_of_ne hXne]
        have hte : texp 53 (-1074) ((m : ℚ) * 2^e) = e := by
          have := texp_eq_tE spec hm e
          rw [tE_def] at this
          have hl : m.log2 = 52 := by
            rw [Nat.log2_eq_iff (by omega)]; exact ⟨hnorm, cm.lt⟩
          rw [hl] at this
          show texp spec.mantissaBits spec.minExponent _ = e
          rw [this]
          show max (((52 : ℕ) : ℤ) + 1 + e - ((53 : ℕ) : ℤ)) (-1074) = e
          rw [max_eq_left (by push_cast; omega)]; push_cast; ring
        congr 1
        cases s
        · rw [hXs, show sgn Sign.negative * mag m e = -((m : ℚ) * 2^e) by simp [sgn, mag], texp_neg]; exact hte
        · rw [hXs, show sgn Sign.positive * mag m e = (m : ℚ) * 2^e by simp [sgn, mag]]; exact hte
      -- sign agreement beyond F
      have hsign : ((360 * k + 180 : ℤ) : ℚ) < sgn s * mag m e → (0 < sgn s * mag m e ↔ 0 < 360 * k + 180) := by
        intro hF
        rw [← hXs] at hF ⊢
        constructor
        · intro hpos
          have hge : (-128 : ℚ) ≤ X := by linarith
          have : -1 < g64 X := lt_of_lt_of_le g_m128_gt64 (g_mono64 hge)
          have : 0 ≤ k := by
            rw [hk]; by_contra hneg; rw [not_le] at hneg
            have : (⌈g64 X⌉ : ℚ) ≤ -1 := by exact_mod_cast (by omega : ⌈g64 X⌉ ≤ -1)
            have := Int.le_ceil (g64 X); linarith
          omega
        · intro hFpos
          have : (0 : ℚ) < ((360 * k + 180 : ℤ) : ℚ) := by exact_mod_cast hFpos
          linarith
      have hup := upper_of_chk64 (chk_all64 hkb) hm cm (by rw [← hXs]) hsign
      rw [← hXs] at hup
      -- 180 + 2^e is representable
      obtain ⟨j, hj⟩ : ∃ j : ℕ, (j : ℤ) = -e := ⟨(-e).toNat, by omega⟩
      have hj3 : 32 ≤ j := by omega
      have hj16 : j ≤ 45 := by omega
      have hrep : R64 (180 + 2^e) = 180 + 2^e := by
        have hn : |((180 * 2^j + 1 : ℕ) : ℤ)| < 2^53 := by
          rw [abs_of_nonneg (by positivity)]
          have : 2^j ≤ 2^45 := Nat.pow_le_pow_right (by norm_num) hj16
          have : 180 * 2^j + 1 < 2^53 := by omega
          exact_mod_cast this
        have := R_fix (p := 53) (emin := -1074) (n := ((180 * 2^j + 1 : ℕ) : ℤ)) (t := e) hn (by omega)
        have hval : ((((180 * 2^j + 1 : ℕ) : ℤ)) : ℚ) * 2^e = 180 + 2^e := by
          push_cast
          have : (2 : ℚ)^j * 2^e = 1 := by
            rw [← zpow_natCast, ← zpow_add₀ (by norm_num), hj]; simp
          linarith [this]
        rw [hval] at this; exact this
      rw [hv, hulp, ← hrep]
      exact R64_mono hup

/-- **range of the signed normal form over every f64 with |x| ≤ 2^20** -/
theorem normS64_range_all : ∀ x : Float, IsFin x → |v x| ≤ 2^20 →
    -180 ≤ v (normS64 x) ∧ v (normS64 x) ≤ 180 + ulp64 (v x) :=
  fun x hx hb => ⟨normS64_lower_all x hx hb, normS64_upper_all x hx hb⟩

end C11
