/-
  C16 — CAM16 appearance correlates round-trip and are mutually consistent.

  Layers (DESIGN §2.1):
  * **law-free** (`section LawFree`): statements about the *shape* of the code that hold for every interpretation of the scalar
    operations — hence bit for bit for `f32`/`f64`: each partial type's `from_xyz` is the projection of `Cam16::from_xyz`,
    `from_full ∘ into_full`, black ↦ black in the inverse direction and in `into_full`, `Cam16::into_xyz` is the `Jch` route.
  * **ℝ** (`section Real`): the attribute algebra `J↔Q`, `C↔M`, `C↔s` (mutually inverse for positive parameters), a partial colour
    taken from a full one expands back to it, black ↦ black in the forward direction, the UCS maps and their inverses, the polar pair,
    the two 3×3 tables are inverse to each other within 1e-15, `adapt`/`unadapt` are inverse on positive responses, and the
    `(J_root, α, h)` core of `cam16_to_xyz ∘ xyz_to_cam16` (`roundtrip_core_partial`).
  The published equations (Li et al. 2017) are in `PaletteSpec/Cam16.lean`; `section Spec` proves model = spec.
-/
import PaletteProofs.Real
import PaletteProofs.Lemmas.Cam16Consts
import PaletteModel.Color.Cam16
import PaletteSpec.Cam16
import Mathlib.Tactic.FieldSimp
import Mathlib.Tactic.Linarith
import Mathlib.Tactic.Positivity

namespace C16
open Cam16

/-! ## law-free -/
section LawFree
variable {α : Type} [Scalar α]

/-- **partial = attributes of full**: for each of the six partial types, `from_xyz` is `from_full` of `Cam16::from_xyz` — the same
    expression, so the same bits in every component type. -/
theorem partial_fromXyz_eq_projection (k : PKind) (xyz : V3 α) (p : Dep α) :
    k.fromXyz xyz p = k.fromFull (xyzToCam16 xyz p) := rfl

/-- spelled out per type: which attribute of the full colour each component is -/
theorem partial_fromXyz_components (xyz : V3 α) (p : Dep α) :
    PKind.Jch.fromXyz xyz p = ⟨(xyzToCam16 xyz p).lightness, (xyzToCam16 xyz p).chroma, (xyzToCam16 xyz p).hue⟩ ∧
    PKind.Jmh.fromXyz xyz p = ⟨(xyzToCam16 xyz p).lightness, (xyzToCam16 xyz p).colorfulness, (xyzToCam16 xyz p).hue⟩ ∧
    PKind.Jsh.fromXyz xyz p = ⟨(xyzToCam16 xyz p).lightness, (xyzToCam16 xyz p).saturation, (xyzToCam16 xyz p).hue⟩ ∧
    PKind.Qch.fromXyz xyz p = ⟨(xyzToCam16 xyz p).brightness, (xyzToCam16 xyz p).chroma, (xyzToCam16 xyz p).hue⟩ ∧
    PKind.Qmh.fromXyz xyz p = ⟨(xyzToCam16 xyz p).brightness, (xyzToCam16 xyz p).colorfulness, (xyzToCam16 xyz p).hue⟩ ∧
    PKind.Qsh.fromXyz xyz p = ⟨(xyzToCam16 xyz p).brightness, (xyzToCam16 xyz p).saturation, (xyzToCam16 xyz p).hue⟩ :=
  ⟨rfl, rfl, rfl, rfl, rfl, rfl⟩

/-- `Cam16::into_xyz` only reads lightness, chroma and hue (it is the `Cam16Jch` route) -/
theorem fullIntoXyz_eq_jch (f : Full α) (p : Dep α) :
    fullIntoXyz f p = cam16ToXyz (.lightness f.lightness) (.chroma f.chroma) f.hue p := rfl

/-- the lightness `into_full` computes for a partial colour -/
def expandedLightness (k : PKind) (c : V3 α) (p : Dep α) : α := ((k.lum c.c0).intoCam16 p).1

/-- **`from_full ∘ into_full = id`** on every partial colour that is not black (the lightness it expands to is not `== 0`):
    expanding a partial colour and projecting again returns the very same components. -/
theorem fromFull_intoFull (k : PKind) (c : V3 α) (p : Dep α) (h : ¬ Scalar.eqv (expandedLightness k c p) 0.0) :
    k.fromFull (k.intoFull c p) = c := by
  cases k <;> cases c <;>
    simp_all [expandedLightness, PKind.fromFull, PKind.intoFull, PKind.lumOf, PKind.chrOf, PKind.lum, PKind.chr,
      Lum.intoCam16, Chr.intoCam16]

/-- and on a black one the chromaticity is replaced by zero, luminance and hue are kept -/
theorem fromFull_intoFull_black (k : PKind) (c : V3 α) (p : Dep α) (h : Scalar.eqv (expandedLightness k c p) 0.0) :
    k.fromFull (k.intoFull c p) = ⟨c.c0, 0.0, c.c2⟩ := by
  cases k <;> cases c <;>
    simp_all [expandedLightness, PKind.fromFull, PKind.intoFull, PKind.lumOf, PKind.chrOf, PKind.lum, PKind.chr,
      Lum.intoCam16, Chr.intoCam16]

/-- **black ↦ black, inverse direction**: a zero lightness / brightness gives XYZ = (0, 0, 0) whatever the chromaticity, hue and
    viewing conditions are (the `non_black` result, possibly NaN, is discarded) -/
theorem cam16ToXyz_black (lum : Lum α) (chr : Chr α) (hue : α) (p : Dep α) (h : Scalar.eqv lum.value 0.0) :
    cam16ToXyz lum chr hue p = ⟨0.0, 0.0, 0.0⟩ := by
  simp [cam16ToXyz, h]

theorem partial_intoXyz_black (k : PKind) (c : V3 α) (p : Dep α) (h : Scalar.eqv c.c0 0.0) :
    k.intoXyz c p = ⟨0.0, 0.0, 0.0⟩ := by
  apply cam16ToXyz_black
  cases k <;> simpa [PKind.lum, Lum.value] using h

/-- **black ↦ black, `into_full`**: a partial colour with zero luminance expands to zero brightness/lightness, chroma, colourfulness
    and saturation (`h0`: zero compares equal to itself — true for floats and reals, not a law of the bare interface) -/
theorem partial_intoFull_black (k : PKind) (c : V3 α) (p : Dep α) (h : Scalar.eqv c.c0 0.0) (h0 : Scalar.eqv (0.0 : α) 0.0) :
    let f := k.intoFull c p
    Scalar.eqv f.lightness 0.0 ∧ Scalar.eqv f.brightness 0.0 ∧ f.chroma = 0.0 ∧ f.colorfulness = 0.0 ∧ f.saturation = 0.0 ∧ f.hue = c.c2 := by
  cases k <;> cases c <;>
    simp_all [PKind.intoFull, PKind.lum, PKind.chr, Lum.intoCam16, Chr.intoCam16]

end LawFree


section Real

/-! ## ℝ: attribute algebra -/

theorem calculateLightness_jroot {J : ℝ} (hJ : 0 ≤ J) : calculateLightness (lightnessToJRoot J) = J := by
  simp only [calculateLightness, lightnessToJRoot, K.calcLightness_0, K.lightnessToJRoot_0, RealScalar.sqrt_eq]
  have := Real.mul_self_sqrt hJ
  have e : (100.0:ℝ) * (Real.sqrt J * 0.1) * (Real.sqrt J * 0.1) = Real.sqrt J * Real.sqrt J := by sring
  rw [e, this]

theorem jroot_calculateLightness {j : ℝ} (hj : 0 ≤ j) : lightnessToJRoot (calculateLightness j) = j := by
  simp only [calculateLightness, lightnessToJRoot, K.calcLightness_0, K.lightnessToJRoot_0, RealScalar.sqrt_eq]
  have e : (100.0:ℝ) * j * j = (10 * j) * (10 * j) := by sring
  rw [e, Real.sqrt_mul_self (by positivity)]; sring

theorem brightness_jroot {j c aw fl4 : ℝ} (hc : c ≠ 0) (haw : 4 + aw ≠ 0) (hfl : fl4 ≠ 0) :
    brightnessToJRoot (calculateBrightness j c aw fl4) c aw fl4 = j := by
  simp only [calculateBrightness, brightnessToJRoot, K.calcBrightness_0, K.calcBrightness_1, K.brightnessToJRoot_0, K.brightnessToJRoot_1]
  norm_num
  field_simp

theorem jroot_brightness {q c aw fl4 : ℝ} (hc : c ≠ 0) (haw : 4 + aw ≠ 0) (hfl : fl4 ≠ 0) :
    calculateBrightness (brightnessToJRoot q c aw fl4) c aw fl4 = q := by
  simp only [calculateBrightness, brightnessToJRoot, K.calcBrightness_0, K.calcBrightness_1, K.brightnessToJRoot_0, K.brightnessToJRoot_1]
  norm_num
  field_simp

/-- **J → Q → J** -/
theorem lightness_brightness_lightness {J c aw fl4 : ℝ} (hJ : 0 ≤ J) (hc : c ≠ 0) (haw : 4 + aw ≠ 0) (hfl : fl4 ≠ 0) :
    brightnessToLightness (lightnessToBrightness J c aw fl4) c aw fl4 = J := by
  unfold brightnessToLightness lightnessToBrightness
  rw [brightness_jroot hc haw hfl, calculateLightness_jroot hJ]

/-- **Q → J → Q** -/
theorem brightness_lightness_brightness {Q c aw fl4 : ℝ} (hQ : 0 ≤ Q) (hc : 0 < c) (haw : 0 < 4 + aw) (hfl : 0 < fl4) :
    lightnessToBrightness (brightnessToLightness Q c aw fl4) c aw fl4 = Q := by
  unfold brightnessToLightness lightnessToBrightness
  have hj : 0 ≤ brightnessToJRoot Q c aw fl4 := by
    simp only [brightnessToJRoot, K.brightnessToJRoot_0, K.brightnessToJRoot_1]
    have : (0:ℝ) < (4.0 + aw) * fl4 := by norm_num; positivity
    have : (0:ℝ) ≤ 0.25 * c * Q := by positivity
    positivity
  rw [jroot_calculateLightness hj, jroot_brightness hc.ne' haw.ne' hfl.ne']

/-- **C ↔ M** -/
theorem chroma_colorfulness_chroma {C fl4 : ℝ} (hfl : fl4 ≠ 0) : colorfulnessToChroma (chromaToColorfulness C fl4) fl4 = C := by
  simp only [colorfulnessToChroma, chromaToColorfulness]; field_simp
theorem colorfulness_chroma_colorfulness {M fl4 : ℝ} (hfl : fl4 ≠ 0) : chromaToColorfulness (colorfulnessToChroma M fl4) fl4 = M := by
  simp only [colorfulnessToChroma, chromaToColorfulness]; field_simp

theorem saturationToAlpha_calculateSaturation {alpha c aw : ℝ} (ha : 0 ≤ alpha) (hc : 0 < c) (haw : 0 < 4 + aw) :
    saturationToAlpha (calculateSaturation c aw alpha) c aw = alpha := by
  simp only [saturationToAlpha, calculateSaturation, K.saturationToAlpha_0, K.saturationToAlpha_1, K.calcSaturation_0, K.calcSaturation_1, RealScalar.sqrt_eq]
  have haw' : (0:ℝ) < aw + 4.0 := by norm_num; linarith
  have h0 : 0 ≤ c * alpha / (aw + 4.0) := by positivity
  have e : (0.0004:ℝ) * (50.0 * Real.sqrt (c * alpha / (aw + 4.0))) * (50.0 * Real.sqrt (c * alpha / (aw + 4.0))) * (4.0 + aw) / c
      = (Real.sqrt (c * alpha / (aw + 4.0)) * Real.sqrt (c * alpha / (aw + 4.0))) * (4.0 + aw) / c := by sring
  rw [e, Real.mul_self_sqrt h0]
  have : (4.0:ℝ) + aw = aw + 4.0 := by ring
  rw [this]; field_simp

theorem calculateSaturation_saturationToAlpha {s c aw : ℝ} (hs : 0 ≤ s) (hc : 0 < c) (haw : 0 < 4 + aw) :
    calculateSaturation c aw (saturationToAlpha s c aw) = s := by
  simp only [saturationToAlpha, calculateSaturation, K.saturationToAlpha_0, K.saturationToAlpha_1, K.calcSaturation_0, K.calcSaturation_1, RealScalar.sqrt_eq]
  have haw' : (0:ℝ) < aw + 4.0 := by norm_num; linarith
  have e : c * ((0.0004:ℝ) * s * s * (4.0 + aw) / c) / (aw + 4.0) = (0.02 * s) * (0.02 * s) := by
    have : (4.0:ℝ) + aw = aw + 4.0 := by ring
    rw [this]; field_simp; norm_num; ring
  rw [e, Real.sqrt_mul_self (by positivity)]; sring


/-- **C → s → C** (needs a lightness to go through) -/
theorem chroma_saturation_chroma {C J c aw : ℝ} (hC : 0 ≤ C) (hJ : 0 < J) (hc : 0 < c) (haw : 0 < 4 + aw) :
    saturationToChroma (chromaToSaturation C J c aw) J c aw = C := by
  unfold saturationToChroma chromaToSaturation
  have hj : 0 < lightnessToJRoot J := by
    simp only [lightnessToJRoot, K.lightnessToJRoot_0, RealScalar.sqrt_eq]
    have := Real.sqrt_pos.mpr hJ
    positivity
  simp only []
  rw [saturationToAlpha_calculateSaturation (div_nonneg hC hj.le) hc haw]
  simp only [calculateChroma]; field_simp

/-- **s → C → s** -/
theorem saturation_chroma_saturation {s J c aw : ℝ} (hs : 0 ≤ s) (hJ : 0 < J) (hc : 0 < c) (haw : 0 < 4 + aw) :
    chromaToSaturation (saturationToChroma s J c aw) J c aw = s := by
  unfold saturationToChroma chromaToSaturation
  have hj : 0 < lightnessToJRoot J := by
    simp only [lightnessToJRoot, K.lightnessToJRoot_0, RealScalar.sqrt_eq]
    have := Real.sqrt_pos.mpr hJ
    positivity
  simp only [calculateChroma]
  rw [mul_div_cancel_left₀ _ hj.ne', calculateSaturation_saturationToAlpha hs hc haw]

/-! ### a partial colour taken from a full one expands back to it -/

/-- the six attributes as `xyz_to_cam16` computes them from `J_root`, `α` and the hue -/
noncomputable def attrs (jRoot alpha hue : ℝ) (p : Dep ℝ) : Full ℝ :=
  { lightness := calculateLightness jRoot, chroma := calculateChroma jRoot alpha, hue := hue,
    brightness := calculateBrightness jRoot p.c p.aW p.fL4,
    colorfulness := calculateColorfulness p.fL4 (calculateChroma jRoot alpha),
    saturation := calculateSaturation p.c p.aW alpha }

theorem xyzToCam16_eq_attrs (xyz : V3 ℝ) (p : Dep ℝ) :
    xyzToCam16 xyz p = attrs (forward xyz p).jRoot (forward xyz p).alpha (hueFromRadians (forward xyz p).hRad) p := rfl

theorem not_eqv_zero_of_pos {x : ℝ} (h : 0 < x) : ¬ Scalar.eqv x (0.0 : ℝ) := by
  unfold Scalar.eqv; intro hh
  have : x ≤ 0 := by have := hh.1; norm_num at this; exact this
  linarith

theorem calculateLightness_pos {j : ℝ} (hj : 0 < j) : 0 < calculateLightness j := by
  simp only [calculateLightness, K.calcLightness_0]; positivity

theorem lum_intoCam16_lightness {j : ℝ} (p : Dep ℝ) (hj : 0 < j) :
    (Lum.lightness (calculateLightness j)).intoCam16 p = (calculateLightness j, calculateBrightness j p.c p.aW p.fL4) := by
  simp only [Lum.intoCam16, if_neg (not_eqv_zero_of_pos (calculateLightness_pos hj)), lightnessToBrightness, jroot_calculateLightness hj.le]

theorem lum_intoCam16_brightness {j : ℝ} (p : Dep ℝ) (hj : 0 < j) (hc : 0 < p.c) (haw : 0 < 4 + p.aW) (hfl : 0 < p.fL4) :
    (Lum.brightness (calculateBrightness j p.c p.aW p.fL4)).intoCam16 p = (calculateLightness j, calculateBrightness j p.c p.aW p.fL4) := by
  have hq : 0 < calculateBrightness j p.c p.aW p.fL4 := by
    simp only [calculateBrightness, K.calcBrightness_0, K.calcBrightness_1]
    have : (0:ℝ) < 4.0 + p.aW := by norm_num; linarith
    positivity
  simp only [Lum.intoCam16, if_neg (not_eqv_zero_of_pos hq), brightnessToLightness, brightness_jroot hc.ne' haw.ne' hfl.ne']

theorem chr_intoCam16 {j alpha : ℝ} (p : Dep ℝ) (hj : 0 < j) (ha : 0 ≤ alpha) (hc : 0 < p.c) (haw : 0 < 4 + p.aW) (hfl : 0 < p.fL4) :
    let full := (calculateChroma j alpha, calculateColorfulness p.fL4 (calculateChroma j alpha), calculateSaturation p.c p.aW alpha)
    (Chr.chroma (calculateChroma j alpha)).intoCam16 (calculateLightness j) p = full ∧
    (Chr.colorfulness (calculateColorfulness p.fL4 (calculateChroma j alpha))).intoCam16 (calculateLightness j) p = full ∧
    (Chr.saturation (calculateSaturation p.c p.aW alpha)).intoCam16 (calculateLightness j) p = full := by
  have hb := not_eqv_zero_of_pos (calculateLightness_pos hj)
  have e1 : calculateChroma j alpha / j = alpha := by simp only [calculateChroma]; field_simp
  refine ⟨?_, ?_, ?_⟩
  · simp only [Chr.intoCam16, if_neg hb, chromaToColorfulness, calculateColorfulness, chromaToSaturation, jroot_calculateLightness hj.le, e1]
  · simp only [Chr.intoCam16, if_neg hb, calculateColorfulness, colorfulnessToChroma, chromaToSaturation, jroot_calculateLightness hj.le]
    have e2 : p.fL4 * calculateChroma j alpha / p.fL4 = calculateChroma j alpha := by field_simp
    rw [e2, e1]
  · simp only [Chr.intoCam16, if_neg hb, saturationToChroma, chromaToColorfulness, calculateColorfulness, jroot_calculateLightness hj.le,
      saturationToAlpha_calculateSaturation ha hc haw]

/-- **each partial colour expands back to the full colour it was taken from** (all six kinds), for a non-black colour
    (`J_root > 0`, `α ≥ 0`) and positive viewing-condition parameters -/
theorem intoFull_fromFull_attrs (k : PKind) {j alpha : ℝ} (hue : ℝ) (p : Dep ℝ) (hj : 0 < j) (ha : 0 ≤ alpha)
    (hc : 0 < p.c) (haw : 0 < 4 + p.aW) (hfl : 0 < p.fL4) :
    k.intoFull (k.fromFull (attrs j alpha hue p)) p = attrs j alpha hue p := by
  obtain ⟨h1, h2, h3⟩ := chr_intoCam16 p hj ha hc haw hfl
  cases k <;>
    simp only [PKind.intoFull, PKind.fromFull, PKind.lumOf, PKind.chrOf, PKind.lum, PKind.chr, attrs,
      lum_intoCam16_lightness p hj, lum_intoCam16_brightness p hj hc haw hfl, h1, h2, h3]

/-- the same for the forward model itself -/
theorem intoFull_fromXyz (k : PKind) (xyz : V3 ℝ) (p : Dep ℝ) (hj : 0 < (forward xyz p).jRoot) (ha : 0 ≤ (forward xyz p).alpha)
    (hc : 0 < p.c) (haw : 0 < 4 + p.aW) (hfl : 0 < p.fL4) :
    k.intoFull (k.fromXyz xyz p) p = xyzToCam16 xyz p := by
  rw [partial_fromXyz_eq_projection, xyzToCam16_eq_attrs]
  exact intoFull_fromFull_attrs k _ p hj ha hc haw hfl

/-! ### CAM16-UCS -/

theorem ucs_j_inv (u v J : ℝ) (hu : u ≠ 0) (h : 1 + v * J ≠ 0) : u * J / (1 + v * J) / (u - v * (u * J / (1 + v * J))) = J := by
  have e : u - v * (u * J / (1 + v * J)) = u / (1 + v * J) := by field_simp; ring
  rw [e, div_div_div_cancel_right₀ h, mul_div_cancel_left₀ J hu]
theorem ucs_j_inv_rev (u v J : ℝ) (hu : u ≠ 0) (h : u - v * J ≠ 0) : u * (J / (u - v * J)) / (1 + v * (J / (u - v * J))) = J := by
  have e : 1 + v * (J / (u - v * J)) = u / (u - v * J) := by field_simp; ring
  rw [e, ← mul_div_assoc, div_div_div_cancel_right₀ h, mul_div_cancel_left₀ J hu]
theorem ucs_m_inv (w M : ℝ) (hw : w ≠ 0) (h : 0 < 1 + w * M) : (Real.exp (Real.log (1 + w * M) / w * w) - 1) / w = M := by
  have e : Real.log (1 + w * M) / w * w = Real.log (1 + w * M) := by field_simp
  rw [e, Real.exp_log h]; field_simp; ring
theorem ucs_m_inv_rev (w M : ℝ) (hw : w ≠ 0) : Real.log (1 + w * ((Real.exp (M * w) - 1) / w)) / w = M := by
  have e : 1 + w * ((Real.exp (M * w) - 1) / w) = Real.exp (M * w) := by field_simp; ring
  rw [e, Real.log_exp]; field_simp

/-- **Jmh → UCS Jmh → Jmh** on `1 + 0.007 J ≠ 0`, `1 + 0.0228 M > 0` (in particular for all `J, M ≥ 0`) -/
theorem ucsToJmh_jmhToUcs (J M h : ℝ) (hJ : 1 + 0.007 * J ≠ 0) (hM : 0 < 1 + 0.0228 * M) :
    ucsToJmh (jmhToUcs ⟨J, M, h⟩) = ⟨J, M, h⟩ := by
  simp only [ucsToJmh, jmhToUcs, K.jmhToUcs_0, K.jmhToUcs_1, K.jmhToUcs_2, K.jmhToUcs_3, K.ucsToJmh_0, K.ucsToJmh_1, K.ucsToJmh_2, K.ucsToJmh_3,
    RealScalar.exp_eq, RealScalar.ln_eq, show (1.0:ℝ) = 1 by norm_num]
  congr 1
  · exact ucs_j_inv 1.7 0.007 J (by norm_num) hJ
  · exact ucs_m_inv 0.0228 M (by norm_num) hM

/-- **UCS Jmh → Jmh → UCS Jmh** on `1.7 − 0.007 J′ ≠ 0` (in particular for all `J′ ≤ 100`) -/
theorem jmhToUcs_ucsToJmh (J M h : ℝ) (hJ : 1.7 - 0.007 * J ≠ 0) :
    jmhToUcs (ucsToJmh ⟨J, M, h⟩) = ⟨J, M, h⟩ := by
  simp only [ucsToJmh, jmhToUcs, K.jmhToUcs_0, K.jmhToUcs_1, K.jmhToUcs_2, K.jmhToUcs_3, K.ucsToJmh_0, K.ucsToJmh_1, K.ucsToJmh_2, K.ucsToJmh_3,
    RealScalar.exp_eq, RealScalar.ln_eq, show (1.0:ℝ) = 1 by norm_num]
  congr 1
  · exact ucs_j_inv_rev 1.7 0.007 J (by norm_num) hJ
  · exact ucs_m_inv_rev 0.0228 M (by norm_num)

/-- polar → rectangular → polar keeps lightness and colourfulness (`M ≥ 0`) -/
theorem ucsJabToJmh_ucsJmhToJab_radius (J M h : ℝ) (hM : 0 ≤ M) :
    (ucsJabToJmh (ucsJmhToJab ⟨J, M, h⟩)).c0 = J ∧ (ucsJabToJmh (ucsJmhToJab ⟨J, M, h⟩)).c1 = M := by
  refine ⟨rfl, ?_⟩
  simp only [ucsJabToJmh, ucsJmhToJab, hypot, RealScalar.sqrt_eq, RealScalar.cos_eq, RealScalar.sin_eq, RealScalar.max_eq]
  have hm : max M (0.0:ℝ) = M := by apply max_eq_left; norm_num; exact hM
  rw [hm]
  set r := hueIntoRawRadians h
  have e : Real.cos r * M * (Real.cos r * M) + Real.sin r * M * (Real.sin r * M) = M * M := by
    have := Real.cos_sq_add_sin_sq r
    calc _ = (Real.cos r ^ 2 + Real.sin r ^ 2) * (M * M) := by ring
      _ = M * M := by rw [this]; ring
  rw [e, Real.sqrt_mul_self hM]

theorem polar_direction (a b : ℝ) (h : (a, b) ≠ (0, 0)) :
    Real.cos (Real.pi + Complex.arg ⟨-a, -b⟩) * Real.sqrt (a * a + b * b) = a ∧
    Real.sin (Real.pi + Complex.arg ⟨-a, -b⟩) * Real.sqrt (a * a + b * b) = b := by
  have hz : (⟨-a, -b⟩ : ℂ) ≠ 0 := by
    intro hh; apply h
    have h1 := congrArg Complex.re hh; have h2 := congrArg Complex.im hh
    simp at h1 h2; simp [h1, h2]
  have hn : ‖(⟨-a, -b⟩ : ℂ)‖ = Real.sqrt (a * a + b * b) := by
    rw [Complex.norm_def, Complex.normSq_mk]; congr 1; ring
  have hpos : 0 < Real.sqrt (a * a + b * b) := by rw [← hn]; exact norm_pos_iff.mpr hz
  rw [Real.cos_add, Real.sin_add, Real.cos_pi, Real.sin_pi, Complex.cos_arg hz, Complex.sin_arg, hn]
  generalize Real.sqrt (a * a + b * b) = s at hpos
  have hs : s ≠ 0 := hpos.ne'
  constructor
  · simp only []; field_simp; ring
  · simp only []; field_simp; ring

/-! ## ℝ: the tables, `adapt`/`unadapt` -/

/-- `m16` at ℝ, written out -/
theorem m16_eq (x y z : ℝ) : m16 ⟨x, y, z⟩ =
    ⟨0.401288 * x + 0.650173 * y - 0.051461 * z, -0.250268 * x + 1.204414 * y + 0.045854 * z, -0.002079 * x + 0.048952 * y + 0.953127 * z⟩ := by
  simp only [m16, rows3, Gen.Cam16.m16, Gen.Cam16.m16Ops, comb, RealScalar.const_eq, RealScalar.eval_ofSci, RealScalar.eval_neg, if_true]
  simp

/-- `m16_inv` at ℝ, written out -/
theorem m16Inv_eq (r g b : ℝ) : m16Inv ⟨r, g, b⟩ =
    ⟨1.862067855087233 * r - 1.011254630531685 * g + 0.1491867754444518 * b,
     0.3875265432361372 * r + 0.6214474419314753 * g - 0.008973985167612518 * b,
     -0.01584149884933386 * r - 0.03412293802851557 * g + 1.049964436877850 * b⟩ := by
  simp only [m16Inv, rows3, Gen.Cam16.m16Inv, Gen.Cam16.m16InvOps, comb, RealScalar.const_eq, RealScalar.eval_ofSci, RealScalar.eval_neg, if_true]
  norm_num

/-- **the two tables are inverse to each other within 1e-15 per coefficient**: `m16_inv (m16 v) = v + E v` with `|E_ij| ≤ 1e-15`
    (the 16-digit inverse of the 6-digit CAT16 matrix).  Stated on the basis vectors, which determines the linear map. -/
theorem m16Inv_m16_close :
    let e0 := m16Inv (m16 (⟨1, 0, 0⟩ : V3 ℝ)); let e1 := m16Inv (m16 (⟨0, 1, 0⟩ : V3 ℝ)); let e2 := m16Inv (m16 (⟨0, 0, 1⟩ : V3 ℝ))
    |e0.c0 - 1| ≤ 1e-15 ∧ |e0.c1| ≤ 1e-15 ∧ |e0.c2| ≤ 1e-15 ∧
    |e1.c0| ≤ 1e-15 ∧ |e1.c1 - 1| ≤ 1e-15 ∧ |e1.c2| ≤ 1e-15 ∧
    |e2.c0| ≤ 1e-15 ∧ |e2.c1| ≤ 1e-15 ∧ |e2.c2 - 1| ≤ 1e-15 := by
  simp only [m16_eq, m16Inv_eq]
  refine ⟨?_, ?_, ?_, ?_, ?_, ?_, ?_, ?_, ?_⟩ <;> · rw [abs_le]; constructor <;> norm_num

/-- `signum` on positive / negative reals -/
theorem signum_pos {x : ℝ} (h : 0 < x) : signum x = 1.0 := by
  unfold signum
  rw [if_neg (by norm_num; exact h.le), if_pos (by norm_num; exact h)]
theorem signum_neg {x : ℝ} (h : x < 0) : signum x = -1.0 := by
  unfold signum
  rw [if_pos (by norm_num; exact h)]

/-- value of `Adapt::run` on a positive response -/
theorem adaptRun_pos {fL x : ℝ} (hx : 0 < x) :
    adaptRun fL x = 400 * (fL * x * 0.01) ^ (0.42:ℝ) / ((fL * x * 0.01) ^ (0.42:ℝ) + 27.13) := by
  simp only [adaptRun, signum_pos hx, K.adapt_0, K.adapt_1, K.adapt_2, K.adapt_3, RealScalar.powf_eq, RealScalar.abs_eq, abs_of_pos hx]
  norm_num

theorem adaptRun_pos_range {fL x : ℝ} (hf : 0 < fL) (hx : 0 < x) : 0 < adaptRun fL x ∧ adaptRun fL x < 400 := by
  rw [adaptRun_pos hx]
  have hy : 0 < (fL * x * 0.01) ^ (0.42:ℝ) := Real.rpow_pos_of_pos (by positivity) _
  generalize (fL * x * 0.01) ^ (0.42:ℝ) = y at hy
  constructor
  · positivity
  · rw [div_lt_iff₀ (by positivity)]; nlinarith

/-- **`unadapt ∘ adapt = id` on positive cone responses**, with the constant and exponent `prepare_parameters` bakes -/
theorem unadapt_adapt_pos {fL x : ℝ} (hf : 0 < fL) (hx : 0 < x) :
    unadaptRun (100.0 / fL * (27.13:ℝ) ^ ((1.0:ℝ) / 0.42)) ((1.0:ℝ) / 0.42) (adaptRun fL x) = x := by
  obtain ⟨h0, h400⟩ := adaptRun_pos_range hf hx
  simp only [unadaptRun, signum_pos h0, K.unadapt_0, RealScalar.powf_eq, RealScalar.abs_eq, abs_of_pos h0]
  rw [adaptRun_pos hx]
  have hb : 0 < fL * x * 0.01 := by positivity
  have hy : 0 < (fL * x * 0.01) ^ (0.42:ℝ) := Real.rpow_pos_of_pos hb _
  have hyy : ((fL * x * 0.01) ^ (0.42:ℝ)) ^ ((1.0:ℝ) / 0.42) = fL * x * 0.01 := by
    rw [← Real.rpow_mul hb.le]; norm_num
  generalize (fL * x * 0.01) ^ (0.42:ℝ) = y at hy hyy
  have e : 400 * y / (y + 27.13) / (400.0 - 400 * y / (y + 27.13)) = y / 27.13 := by
    have hd : y + 27.13 ≠ 0 := by positivity
    have e2 : (400.0:ℝ) - 400 * y / (y + 27.13) = 400 * 27.13 / (y + 27.13) := by
      rw [eq_div_iff hd, sub_mul, div_mul_cancel₀ _ hd]; norm_num; ring
    rw [e2, div_div_div_cancel_right₀ hd]
    rw [div_eq_div_iff (by norm_num) (by norm_num)]; ring
  rw [e, Real.div_rpow hy.le (by norm_num), hyy]
  have h27 : (0:ℝ) < (27.13:ℝ) ^ ((1.0:ℝ) / 0.42) := Real.rpow_pos_of_pos (by norm_num) _
  generalize (27.13:ℝ) ^ ((1.0:ℝ) / 0.42) = w at h27
  field_simp; norm_num

/-! ## ℝ: XYZ → CAM16 → XYZ -/

/-- `(t^0.9 · k^0.73 · k^(−0.73))^(10/9) = t` -/
theorem t_recover {t k : ℝ} (ht : 0 ≤ t) (hk : 0 < k) :
    (t ^ (0.9:ℝ) * k ^ (0.73:ℝ) * k ^ (-(0.73:ℝ))) ^ ((10.0:ℝ) / 9.0) = t := by
  have e : t ^ (0.9:ℝ) * k ^ (0.73:ℝ) * k ^ (-(0.73:ℝ)) = t ^ (0.9:ℝ) := by
    rw [mul_assoc, ← Real.rpow_add hk]; norm_num
  rw [e, ← Real.rpow_mul ht]; norm_num

/-- `A_w · ((A/A_w)^(0.5 c z))^(2/c/z) = A` -/
theorem a_recover {A aW c z : ℝ} (hA : 0 ≤ A / aW) (haw : aW ≠ 0) (hc : c ≠ 0) (hz : z ≠ 0) :
    aW * ((A / aW) ^ (0.5 * c * z)) ^ ((2.0:ℝ) / c / z) = A := by
  rw [← Real.rpow_mul hA]
  have : (0.5:ℝ) * c * z * (2.0 / c / z) = 1 := by field_simp; norm_num
  rw [this, Real.rpow_one]; field_simp

theorem r_recover_abs {p1 rho cosH sinH den P a b : ℝ} (hp1 : p1 ≠ 0) (hden : den ≠ 0) (hP : P ≠ 0)
    (hc : cosH * rho = a) (hs : sinH * rho = b) (hlin : 23 * den + 11 * a + 108 * b = 23 * P) :
    23 * P * (p1 * rho / den) / (23 * p1 + p1 * rho / den * (11 * cosH + 108 * sinH)) = rho := by
  have e : 23 * p1 + p1 * rho / den * (11 * cosH + 108 * sinH) = p1 * (23 * P) / den := by
    have : p1 * rho / den * (11 * cosH + 108 * sinH) = p1 * (11 * (cosH * rho) + 108 * (sinH * rho)) / den := by ring
    rw [this, hc, hs, ← hlin]; field_simp; ring
  rw [e]; field_simp

/-- the opponent-signal algebra of the inverse: with `t = p₁ρ/den`, `r = 23(0.305 + p₂)t/(23p₁ + t(11cos h + 108 sin h))` is `ρ` -/
theorem r_recover {R G B p1 rho cosH sinH : ℝ} (hp1 : p1 ≠ 0) (hden : R + G + 1.05 * B + 0.305 ≠ 0)
    (hp2 : 0.305 + (2.0 * R + G + 0.05 * B) ≠ 0)
    (hc : cosH * rho = R + (-12.0 * G + B) / 11.0) (hs : sinH * rho = (R + G - 2.0 * B) / 9.0) :
    23.0 * (0.305 + (2.0 * R + G + 0.05 * B)) * (p1 * rho / (R + G + 1.05 * B + 0.305))
      / (23.0 * p1 + p1 * rho / (R + G + 1.05 * B + 0.305) * (11.0 * cosH + 108.0 * sinH)) = rho := by
  rw [show (23.0:ℝ) = 23 by norm_num, show (11.0:ℝ) = 11 by norm_num, show (108.0:ℝ) = 108 by norm_num]
  refine r_recover_abs hp1 hden hp2 hc hs ?_
  sring

/-- the linear step `(p₂, a, b) ↦ (R, G, B)` of the inverse undoes the opponent transform -/
theorem opponent_linear (R G B : ℝ) :
    let a := R + (-12.0 * G + B) / 11.0; let b := (R + G - 2.0 * B) / 9.0; let p2 := 2.0 * R + G + 0.05 * B
    (460.0 * p2 + 451.0 * a + 288.0 * b) * (1.0 / 1403.0) = R ∧
    (460.0 * p2 - 891.0 * a - 261.0 * b) * (1.0 / 1403.0) = G ∧
    (460.0 * p2 - 220.0 * a - 6300.0 * b) * (1.0 / 1403.0) = B := by
  refine ⟨?_, ?_, ?_⟩ <;> sring


/-- `cos`/`sin` of the hue angle times the chroma radius are the opponent signals (also for a neutral colour, where both sides are 0) -/
theorem cos_sin_arg_mul (a b : ℝ) :
    Real.cos (Complex.arg ⟨a, b⟩) * Real.sqrt (a * a + b * b) = a ∧ Real.sin (Complex.arg ⟨a, b⟩) * Real.sqrt (a * a + b * b) = b := by
  have hn : ‖(⟨a, b⟩ : ℂ)‖ = Real.sqrt (a * a + b * b) := by rw [Complex.norm_def, Complex.normSq_mk]
  by_cases hz : (⟨a, b⟩ : ℂ) = 0
  · have h1 := congrArg Complex.re hz; have h2 := congrArg Complex.im hz
    simp at h1 h2; subst h1; subst h2; simp
  · have hpos : 0 < Real.sqrt (a * a + b * b) := by rw [← hn]; exact norm_pos_iff.mpr hz
    rw [Complex.cos_arg hz, Complex.sin_arg, hn]
    exact ⟨div_mul_cancel₀ _ hpos.ne', div_mul_cancel₀ _ hpos.ne'⟩

/-- **inverse of the opponent stage**: from the `J_root`, `α` and hue angle the forward model derives from adapted responses
    `R, G, B > 0`, `non_black_cam16_to_xyz` recovers exactly `R, G, B` (positive viewing-condition parameters) -/
theorem inverseOpponent_of_adapted (p : Dep ℝ) (R G B : ℝ) (hR : 0 < R) (hG : 0 < G) (hB : 0 < B)
    (hnbb : 0 < p.nBb) (haw : 0 < p.aW) (hc : 0 < p.c) (hz : 0 < p.z) (hnc : 0 < p.nC) (hncb : 0 < p.nCb)
    (hk : 0 < 1.64 - (0.29:ℝ) ^ p.n) :
    inverseOpponent ((p.nBb * (2.0 * R + G + 0.05 * B) / p.aW) ^ (0.5 * p.c * p.z))
      ((5e4 / 13.0 * p.nC * p.nCb * (0.25 * (Real.cos (Complex.arg ⟨R + (-12.0 * G + B) / 11.0, (R + G - 2.0 * B) / 9.0⟩ + 2.0) + 3.8))
          * Real.sqrt ((R + (-12.0 * G + B) / 11.0) * (R + (-12.0 * G + B) / 11.0) + (R + G - 2.0 * B) / 9.0 * ((R + G - 2.0 * B) / 9.0))
          / (R + G + 1.05 * B + 0.305)) ^ (0.9:ℝ) * (1.64 - (0.29:ℝ) ^ p.n) ^ (0.73:ℝ))
      (Complex.arg ⟨R + (-12.0 * G + B) / 11.0, (R + G - 2.0 * B) / 9.0⟩) p = ⟨R, G, B⟩ := by
  obtain ⟨hcos, hsin⟩ := cos_sin_arg_mul (R + (-12.0 * G + B) / 11.0) ((R + G - 2.0 * B) / 9.0)
  set a := R + (-12.0 * G + B) / 11.0 with ha
  set b := (R + G - 2.0 * B) / 9.0 with hb
  set θ := Complex.arg ⟨a, b⟩ with hθ
  set rho := Real.sqrt (a * a + b * b) with hrho
  have het : 0 < 0.25 * (Real.cos (θ + 2.0) + 3.8) := by
    have := Real.neg_one_le_cos (θ + 2.0)
    have : (0:ℝ) < Real.cos (θ + 2.0) + 3.8 := by norm_num; linarith
    positivity
  set et := 0.25 * (Real.cos (θ + 2.0) + 3.8) with het'
  have hp1 : 0 < 5e4 / 13.0 * p.nC * p.nCb * et := by positivity
  set p1 := 5e4 / 13.0 * p.nC * p.nCb * et with hp1'
  have hden : 0 < R + G + 1.05 * B + 0.305 := by positivity
  have hP : 0 < 2.0 * R + G + 0.05 * B := by positivity
  have hT : 0 ≤ p1 * rho / (R + G + 1.05 * B + 0.305) := by
    have : 0 ≤ rho := Real.sqrt_nonneg _
    positivity
  have hAq : 0 ≤ p.nBb * (2.0 * R + G + 0.05 * B) / p.aW := by positivity
  simp only [inverseOpponent, K.nonBlack_0, K.nonBlack_1, K.nonBlack_2, K.nonBlack_3, K.nonBlack_4, K.nonBlack_5, K.nonBlack_6, K.nonBlack_7, K.nonBlack_8, K.nonBlack_9,
    K.nonBlack_10, K.nonBlack_11, K.nonBlack_12, K.nonBlack_13, K.nonBlack_14, K.nonBlack_15, K.nonBlack_16, K.nonBlack_17, K.nonBlack_18, K.nonBlack_19, K.nonBlack_20,
    K.nonBlack_21, K.nonBlack_22, K.nonBlack_23, K.nonBlack_24, K.nonBlack_25,
    RealScalar.powf_eq, RealScalar.cos_eq, RealScalar.sin_eq]
  rw [t_recover hT hk, a_recover hAq haw.ne' hc.ne' hz.ne', mul_div_cancel_left₀ _ hnbb.ne', ← het', ← hp1']
  have hpp : (0.305:ℝ) + (2.0 * R + G + 0.05 * B) ≠ 0 := by positivity
  rw [r_recover hp1.ne' hden.ne' hpp hcos hsin, hcos, hsin]
  obtain ⟨e1, e2, e3⟩ := opponent_linear R G B
  simp only [← ha, ← hb] at e1 e2 e3
  rw [e1, e2, e3]

/-- the cone responses after chromatic adaptation, as `xyz_to_cam16` forms them: `m16(100·xyz) ⊙ d_rgb` -/
noncomputable def coneAdapted (xyz : V3 ℝ) (p : Dep ℝ) : V3 ℝ :=
  mul3 (m16 ⟨xyz.c0 * 100.0, xyz.c1 * 100.0, xyz.c2 * 100.0⟩) p.dRgb

theorem forward_adapted (xyz : V3 ℝ) (p : Dep ℝ) :
    (forward xyz p).rA = adaptRun p.adaptFL (coneAdapted xyz p).c0 ∧ (forward xyz p).gA = adaptRun p.adaptFL (coneAdapted xyz p).c1 ∧
    (forward xyz p).bA = adaptRun p.adaptFL (coneAdapted xyz p).c2 := by
  simp only [forward, coneAdapted, map3, mul3, K.xyzToCam16_0]; exact ⟨trivial, trivial, trivial⟩

/-- what `prepare_parameters` bakes is consistent (law-free, by construction): the inverse factors, the `unadapt` constant and
    exponent belong to the same `F_L` as `adapt`, `N_cb = N_bb` -/
theorem prepare_consistent {α : Type} [Scalar α] (prm : Parameters α) :
    let p := prepareParameters prm
    p.dRgbInv = map3 p.dRgb (fun d => 1.0 / d) ∧ p.unadaptExponent = 1.0 / Scalar.const Gen.Cam16.prepare_26 ∧
    p.unadaptConstant = Scalar.const Gen.Cam16.prepare_27 / p.adaptFL * Scalar.powf (Scalar.const Gen.Cam16.prepare_28) p.unadaptExponent ∧
    p.nCb = p.nBb ∧ p.nC = p.nC :=
  ⟨rfl, rfl, rfl, rfl, rfl⟩

/-- the baked constants in the form the ℝ theorems use -/
def Baked (p : Dep ℝ) : Prop :=
  p.dRgbInv = map3 p.dRgb (fun d => 1.0 / d) ∧ p.unadaptExponent = (1.0:ℝ) / 0.42 ∧
  p.unadaptConstant = 100.0 / p.adaptFL * (27.13:ℝ) ^ ((1.0:ℝ) / 0.42)

theorem prepare_baked (prm : Parameters ℝ) : Baked (prepareParameters prm) := by
  obtain ⟨h1, h2, h3, -, -⟩ := prepare_consistent prm
  refine ⟨h1, ?_, ?_⟩
  · rw [h2, K.prepare_26]
  · rw [h3, h2, K.prepare_26, K.prepare_27, K.prepare_28]; rfl

/-- **second stage of the inverse**: `unadapt`, division by `d_rgb` and `m16_inv` applied to the adapted responses of positive cone
    responses give `m16_inv (m16 (100·xyz)) / 100` -/
theorem inverseFromAdapted_adapt (xyz : V3 ℝ) (p : Dep ℝ) (hb : Baked p) (hf : 0 < p.adaptFL)
    (h0 : 0 < (coneAdapted xyz p).c0) (h1 : 0 < (coneAdapted xyz p).c1) (h2 : 0 < (coneAdapted xyz p).c2)
    (hd0 : p.dRgb.c0 ≠ 0) (hd1 : p.dRgb.c1 ≠ 0) (hd2 : p.dRgb.c2 ≠ 0) :
    inverseFromAdapted ⟨adaptRun p.adaptFL (coneAdapted xyz p).c0, adaptRun p.adaptFL (coneAdapted xyz p).c1, adaptRun p.adaptFL (coneAdapted xyz p).c2⟩ p
      = ⟨(m16Inv (m16 ⟨xyz.c0 * 100.0, xyz.c1 * 100.0, xyz.c2 * 100.0⟩)).c0 / 100.0,
         (m16Inv (m16 ⟨xyz.c0 * 100.0, xyz.c1 * 100.0, xyz.c2 * 100.0⟩)).c1 / 100.0,
         (m16Inv (m16 ⟨xyz.c0 * 100.0, xyz.c1 * 100.0, xyz.c2 * 100.0⟩)).c2 / 100.0⟩ := by
  obtain ⟨hinv, hexp, hconst⟩ := hb
  simp only [inverseFromAdapted, map3, K.nonBlack_26, hexp, hconst, unadapt_adapt_pos hf h0, unadapt_adapt_pos hf h1, unadapt_adapt_pos hf h2, hinv]
  have e : mul3 (coneAdapted xyz p) ⟨1.0 / p.dRgb.c0, 1.0 / p.dRgb.c1, 1.0 / p.dRgb.c2⟩ = m16 ⟨xyz.c0 * 100.0, xyz.c1 * 100.0, xyz.c2 * 100.0⟩ := by
    simp only [coneAdapted, mul3]
    generalize m16 (⟨xyz.c0 * 100.0, xyz.c1 * 100.0, xyz.c2 * 100.0⟩ : V3 ℝ) = m
    cases m; simp only []; congr 1 <;> (field_simp; norm_num)
  simp only [mul3] at e ⊢
  rw [e]

/-- Full statement (extension [E] of DESIGN §3/C16), kept for the record:
      ∀ kind ∈ {Jch, Jmh, Jsh, Qch, Qmh, Qsh}, kind.intoXyz (kind.fromXyz xyz p) p = xyz
    What is proved (`_partial`): the `(J_root, α, h_rad)` core, i.e. `non_black_cam16_to_xyz` fed with the very quantities
    `xyz_to_cam16` derives (for the `(J, C, h)` projection `J_root = √J·0.1` and `α = C/J_root` return them by
    `jroot_calculateLightness` and `calculateChroma`; the other five by the attribute algebra above), for positive adapted cone
    responses and positive baked parameters.  The result is `m16_inv (m16 (100·xyz)) / 100`: the two tables are inverse only to
    1e-15 (`m16Inv_m16_close`), so `= xyz` holds up to that.
    Missing for the full statement: (i) the degree/radian conversion of the hue — the model reads `180/π` and `π/180` as the two
    `f64` constants of Rust's std, whose product is `1 ± 1e-16` at ℝ, so `into_radians (from_radians θ) = θ` is itself only a
    rounding-level identity; (ii) mixed-sign cone responses (`signum·|·|^0.42` branches); (iii) positivity of the baked
    parameters from the raw viewing conditions. -/
theorem roundtrip_core_partial (xyz : V3 ℝ) (p : Dep ℝ) (hb : Baked p) (hf : 0 < p.adaptFL)
    (h0 : 0 < (coneAdapted xyz p).c0) (h1 : 0 < (coneAdapted xyz p).c1) (h2 : 0 < (coneAdapted xyz p).c2)
    (hd0 : p.dRgb.c0 ≠ 0) (hd1 : p.dRgb.c1 ≠ 0) (hd2 : p.dRgb.c2 ≠ 0)
    (hnbb : 0 < p.nBb) (haw : 0 < p.aW) (hc : 0 < p.c) (hz : 0 < p.z) (hnc : 0 < p.nC) (hncb : 0 < p.nCb)
    (hk : 0 < 1.64 - (0.29:ℝ) ^ p.n) :
    inverseCore (forward xyz p).jRoot (forward xyz p).alpha (forward xyz p).hRad p
      = ⟨(m16Inv (m16 ⟨xyz.c0 * 100.0, xyz.c1 * 100.0, xyz.c2 * 100.0⟩)).c0 / 100.0,
         (m16Inv (m16 ⟨xyz.c0 * 100.0, xyz.c1 * 100.0, xyz.c2 * 100.0⟩)).c1 / 100.0,
         (m16Inv (m16 ⟨xyz.c0 * 100.0, xyz.c1 * 100.0, xyz.c2 * 100.0⟩)).c2 / 100.0⟩ := by
  have hR := (adaptRun_pos_range hf h0).1
  have hG := (adaptRun_pos_range hf h1).1
  have hB := (adaptRun_pos_range hf h2).1
  have key := inverseOpponent_of_adapted p _ _ _ hR hG hB hnbb haw hc hz hnc hncb hk
  unfold inverseCore
  have e : inverseOpponent (forward xyz p).jRoot (forward xyz p).alpha (forward xyz p).hRad p
      = ⟨adaptRun p.adaptFL (coneAdapted xyz p).c0, adaptRun p.adaptFL (coneAdapted xyz p).c1, adaptRun p.adaptFL (coneAdapted xyz p).c2⟩ := by
    rw [← key]
    simp only [forward, coneAdapted, map3, mul3, K.xyzToCam16_0, K.xyzToCam16_1, K.xyzToCam16_2, K.xyzToCam16_3, K.xyzToCam16_4, K.xyzToCam16_5, K.xyzToCam16_6, K.xyzToCam16_7, K.xyzToCam16_8,
      K.xyzToCam16_9, K.xyzToCam16_10, K.xyzToCam16_11, K.xyzToCam16_12, K.xyzToCam16_13, K.xyzToCam16_14, K.xyzToCam16_15, K.xyzToCam16_16, K.xyzToCam16_17, K.xyzToCam16_18,
      RealScalar.powf_eq, RealScalar.sqrt_eq, RealScalar.cos_eq, RealScalar.atan2_eq]
  rw [e]
  exact inverseFromAdapted_adapt xyz p hb hf h0 h1 h2 hd0 hd1 hd2

/-- for the `(J, C, h)` projection the attributes return `J_root` and `α`: `cam16_to_xyz`'s first two steps on `Cam16Jch::from_xyz` -/
theorem jch_recovers_core (xyz : V3 ℝ) (p : Dep ℝ) (hj : 0 < (forward xyz p).jRoot) :
    let f := xyzToCam16 xyz p
    (Lum.lightness f.lightness).jRoot p = (forward xyz p).jRoot ∧
    (Chr.chroma f.chroma).alpha p ((Lum.lightness f.lightness).jRoot p) = (forward xyz p).alpha := by
  have e1 : lightnessToJRoot (calculateLightness (forward xyz p).jRoot) = (forward xyz p).jRoot := jroot_calculateLightness hj.le
  refine ⟨e1, ?_⟩
  simp only [xyzToCam16, Lum.jRoot, Chr.alpha, e1, calculateChroma]
  field_simp

/-- non-vacuity: D65-like numbers satisfy the positivity hypotheses on `k` -/
example : (0:ℝ) < 1.64 - (0.29:ℝ) ^ (0.2:ℝ) := by
  have : (0.29:ℝ) ^ (0.2:ℝ) ≤ 1 := Real.rpow_le_one (by norm_num) (by norm_num) (by norm_num)
  linarith

/-! ## ℝ: black ↦ black, forward -/

theorem adaptRun_zero (fL : ℝ) : adaptRun fL 0 = 0 := by
  simp only [adaptRun, K.adapt_0, K.adapt_1, K.adapt_2, K.adapt_3, RealScalar.powf_eq, RealScalar.abs_eq, abs_zero, mul_zero, zero_mul]
  rw [Real.zero_rpow (by norm_num)]; simp

theorem forward_black (p : Dep ℝ) (he : 0.5 * p.c * p.z ≠ 0) :
    (forward ⟨0, 0, 0⟩ p).jRoot = 0 ∧ (forward ⟨0, 0, 0⟩ p).alpha = 0 ∧ (forward ⟨0, 0, 0⟩ p).hRad = 0 := by
  have hm : m16 (⟨0, 0, 0⟩ : V3 ℝ) = ⟨0, 0, 0⟩ := by rw [m16_eq]; simp
  have hz : (⟨0, 0⟩ : ℂ) = 0 := rfl
  simp only [forward, map3, mul3, K.xyzToCam16_0, K.xyzToCam16_1, K.xyzToCam16_2, K.xyzToCam16_3, K.xyzToCam16_4, K.xyzToCam16_5, K.xyzToCam16_6, K.xyzToCam16_7, K.xyzToCam16_8,
    K.xyzToCam16_9, K.xyzToCam16_10, K.xyzToCam16_11, K.xyzToCam16_12, K.xyzToCam16_13, K.xyzToCam16_14, K.xyzToCam16_15, K.xyzToCam16_16, K.xyzToCam16_17, K.xyzToCam16_18,
    RealScalar.powf_eq, RealScalar.sqrt_eq, RealScalar.cos_eq, RealScalar.atan2_eq, hm, zero_mul, adaptRun_zero, mul_zero, add_zero, zero_add, zero_div, sub_zero, hz, Complex.arg_zero,
    Real.sqrt_zero]
  refine ⟨Real.zero_rpow he, ?_, trivial⟩
  rw [Real.zero_rpow (by norm_num)]; simp

/-- **black ↦ black, forward direction** (ℝ): XYZ = 0 gives zero lightness, brightness, chroma, colourfulness and saturation (and
    hue 0) under any viewing conditions with `c·z ≠ 0` -/
theorem xyzToCam16_black (p : Dep ℝ) (he : 0.5 * p.c * p.z ≠ 0) :
    let f := xyzToCam16 ⟨0, 0, 0⟩ p
    f.lightness = 0 ∧ f.chroma = 0 ∧ f.hue = 0 ∧ f.brightness = 0 ∧ f.colorfulness = 0 ∧ f.saturation = 0 := by
  obtain ⟨hj, ha, hh⟩ := forward_black p he
  simp only [xyzToCam16, hj, ha, hh, calculateLightness, calculateBrightness, calculateChroma, calculateColorfulness, calculateSaturation, hueFromRadians, toDegrees,
    RealScalar.sqrt_eq, mul_zero, zero_mul, zero_div, Real.sqrt_zero]
  exact ⟨trivial, trivial, trivial, trivial, trivial, trivial⟩

end Real

/-! ## model = published equations (Li et al. 2017, `PaletteSpec/Cam16.lean`) -/
section Spec

/-- **= published step 3** (post-adaptation response), for every cone response: `Adapt::run` is the paper's formula without
    the `+0.1` offset (which cancels in `a`, `b`, and against the `−0.305` of `A` and the denominator of `t`, see below) -/
theorem adaptRun_eq_spec (fL x : ℝ) : adaptRun fL x + 0.1 = Spec.Cam16.postAdapt fL x := by
  have e : fL * |x| * 0.01 = fL * |x| / 100 := by sring
  rcases lt_trichotomy x 0 with h | h | h
  · simp only [adaptRun, signum_neg h, K.adapt_0, K.adapt_1, K.adapt_2, K.adapt_3, RealScalar.powf_eq, RealScalar.abs_eq, Spec.Cam16.postAdapt, e]
    rw [sign_neg h]; norm_num
  · subst h
    simp only [adaptRun_zero, Spec.Cam16.postAdapt, sign_zero]; norm_num
  · simp only [adaptRun, signum_pos h, K.adapt_0, K.adapt_1, K.adapt_2, K.adapt_3, RealScalar.powf_eq, RealScalar.abs_eq, Spec.Cam16.postAdapt, e]
    rw [sign_pos h]; norm_num

/-- **= published steps 4 and 6, and the denominator of step 9**: with `R′ = R + 0.1` etc. the offsets cancel exactly -/
theorem opponent_eq_spec (nBb R G B : ℝ) :
    R + (-12.0 * G + B) / 11.0 = Spec.Cam16.a (R + 0.1) (G + 0.1) (B + 0.1) ∧
    (R + G - 2.0 * B) / 9.0 = Spec.Cam16.b (R + 0.1) (G + 0.1) (B + 0.1) ∧
    nBb * (2.0 * R + G + 0.05 * B) = Spec.Cam16.achromatic nBb (R + 0.1) (G + 0.1) (B + 0.1) ∧
    R + G + 1.05 * B + 0.305 = (R + 0.1) + (G + 0.1) + 21 * (B + 0.1) / 20 := by
  simp only [Spec.Cam16.a, Spec.Cam16.b, Spec.Cam16.achromatic]
  refine ⟨?_, ?_, ?_, ?_⟩ <;> sring

/-- **= published step 7**: `J = 100·J_root²` with `J_root = (A/A_w)^{0.5cz}` is `100 (A/A_w)^{cz}` -/
theorem lightness_eq_spec {A aW c z : ℝ} (h : 0 < A / aW) :
    calculateLightness ((A / aW) ^ (0.5 * c * z)) = Spec.Cam16.J A aW c z := by
  simp only [calculateLightness, K.calcLightness_0, Spec.Cam16.J]
  rw [mul_assoc, ← Real.rpow_add h]
  have : (0.5:ℝ) * c * z + 0.5 * c * z = c * z := by sring
  rw [this]; norm_num

/-- **= published step 8**, with `J = 100·J_root²`, `J_root ≥ 0` and `F_L^{1/4}` baked -/
theorem brightness_eq_spec {j c aW fL : ℝ} (hj : 0 ≤ j) :
    calculateBrightness j c aW (fL ^ (0.25:ℝ)) = Spec.Cam16.Q (calculateLightness j) aW c fL := by
  simp only [calculateBrightness, calculateLightness, K.calcBrightness_0, K.calcBrightness_1, K.calcLightness_0, Spec.Cam16.Q]
  have e : (100.0:ℝ) * j * j / 100 = j * j := by sring
  have e2 : (j * j) ^ (0.5:ℝ) = j := by
    rw [show (0.5:ℝ) = 1 / 2 by norm_num, ← Real.sqrt_eq_rpow, Real.sqrt_mul_self hj]
  rw [e, e2, show (4.0:ℝ) = 4 by norm_num]; ring

/-- **= published step 9 (chroma, colourfulness)** -/
theorem chroma_eq_spec {j t n : ℝ} (hj : 0 ≤ j) :
    calculateChroma j (t ^ (0.9:ℝ) * (1.64 - (0.29:ℝ) ^ n) ^ (0.73:ℝ)) = Spec.Cam16.C t (calculateLightness j) n := by
  simp only [calculateChroma, calculateLightness, K.calcLightness_0, Spec.Cam16.C]
  have e : (100.0:ℝ) * j * j / 100 = j * j := by sring
  have e2 : (j * j) ^ (0.5:ℝ) = j := by
    rw [show (0.5:ℝ) = 1 / 2 by norm_num, ← Real.sqrt_eq_rpow, Real.sqrt_mul_self hj]
  rw [e, e2]; ring

theorem colorfulness_eq_spec (C fL : ℝ) : calculateColorfulness (fL ^ (0.25:ℝ)) C = Spec.Cam16.M C fL := by
  simp only [calculateColorfulness, Spec.Cam16.M]; ring

/-- **= published step 9 (saturation)**: `50 √(c α/(A_w + 4)) = 100 √(M/Q)` for the `M`, `Q` of the same colour -/
theorem saturation_eq_spec {j alpha c aW fl4 : ℝ} (hj : 0 < j) (hc : 0 < c) (haw : 0 < aW + 4) (hfl : 0 < fl4) :
    calculateSaturation c aW alpha
      = Spec.Cam16.s (calculateColorfulness fl4 (calculateChroma j alpha)) (calculateBrightness j c aW fl4) := by
  simp only [calculateSaturation, calculateColorfulness, calculateChroma, calculateBrightness, K.calcSaturation_0, K.calcSaturation_1, K.calcBrightness_0, K.calcBrightness_1,
    Spec.Cam16.s, RealScalar.sqrt_eq]
  have haw' : (0:ℝ) < aW + 4.0 := by norm_num; exact haw
  have e : fl4 * (j * alpha) / (4.0 / c * j * (4.0 + aW) * fl4) = (c * alpha / (aW + 4.0)) / 4 := by
    have : (4.0:ℝ) + aW = aW + 4.0 := by ring
    rw [this]; field_simp; norm_num
  rw [e, show (0.5:ℝ) = 1 / 2 by norm_num, ← Real.sqrt_eq_rpow, Real.sqrt_div' _ (by norm_num : (0:ℝ) ≤ 4)]
  have : Real.sqrt 4 = 2 := by
    rw [show (4:ℝ) = 2 * 2 by norm_num, Real.sqrt_mul_self (by norm_num)]
  rw [this]; sring

/-- **= published CAM16-UCS**: `J′`, `M′` and the rectangular coordinates -/
theorem jmhToUcs_eq_spec (J M h : ℝ) : jmhToUcs ⟨J, M, h⟩ = ⟨Spec.Cam16.ucsJ J, Spec.Cam16.ucsM M, h⟩ := by
  simp only [jmhToUcs, K.jmhToUcs_0, K.jmhToUcs_1, K.jmhToUcs_2, K.jmhToUcs_3, RealScalar.ln_eq, Spec.Cam16.ucsJ, Spec.Cam16.ucsM]
  norm_num

theorem ucsJmhToJab_eq_spec (J M h : ℝ) (hM : 0 ≤ M) :
    ucsJmhToJab ⟨J, M, h⟩ = ⟨J, Spec.Cam16.ucsA M (hueIntoRawRadians h), Spec.Cam16.ucsB M (hueIntoRawRadians h)⟩ := by
  have hm : max M (0.0:ℝ) = M := by apply max_eq_left; norm_num; exact hM
  simp only [ucsJmhToJab, RealScalar.cos_eq, RealScalar.sin_eq, RealScalar.max_eq, hm, Spec.Cam16.ucsA, Spec.Cam16.ucsB]
  congr 1 <;> ring

theorem lerp_eq (a b t : ℝ) : lerp a b t = (1 - t) * a + t * b := by simp only [lerp]; norm_num

/-- **= published step 0 (luminance-level adaptation, background induction)**: `F_L`, `n`, `z`, `N_bb = N_cb` of the baked
    parameters are the paper's (XYZ of the white and `Y_b` scaled to 0–100 by the code) -/
theorem prepare_eq_spec (prm : Parameters ℝ) :
    let p := prepareParameters prm
    p.adaptFL = Spec.Cam16.FL prm.adaptingLuminance ∧
    p.fL4 = (Spec.Cam16.FL prm.adaptingLuminance) ^ (0.25:ℝ) ∧
    p.n = Spec.Cam16.n (prm.backgroundLuminance * 100) (prm.whitePoint.c1 * 100) ∧
    p.z = Spec.Cam16.z p.n ∧
    (0 < p.n → p.nBb = Spec.Cam16.Nbb p.n) ∧ p.nCb = p.nBb := by
  have hFL : (prepareParameters prm).adaptFL = Spec.Cam16.FL prm.adaptingLuminance := by
    simp only [prepareParameters, K.prepare_15, K.prepare_16, K.prepare_17, K.prepare_18, RealScalar.powf_eq, Spec.Cam16.FL, Spec.Cam16.k]
    have hk : (1.0:ℝ) / (5.0 * prm.adaptingLuminance + 1.0) = 1 / (5 * prm.adaptingLuminance + 1) := by norm_num
    have hp : (5.0 * prm.adaptingLuminance) ^ ((1.0:ℝ) / 3.0) = (5 * prm.adaptingLuminance) ^ ((1:ℝ) / 3) := by norm_num
    rw [hk, hp]
    generalize (1:ℝ) / (5 * prm.adaptingLuminance + 1) = k
    generalize (5 * prm.adaptingLuminance) ^ ((1:ℝ) / 3) = w
    sring
  refine ⟨hFL, ?_, ?_, ?_, ?_, rfl⟩
  · rw [← hFL]; simp only [prepareParameters, K.prepare_19, RealScalar.powf_eq]
  · simp only [prepareParameters, K.prepare_0, K.prepare_1, Spec.Cam16.n]; norm_num
  · simp only [prepareParameters, K.prepare_20, RealScalar.sqrt_eq, Spec.Cam16.z]
  · intro hn
    have e : (prepareParameters prm).nBb = 0.725 * (prepareParameters prm).n ^ (-(0.2:ℝ)) := by
      simp only [prepareParameters, K.prepare_21, K.prepare_22, RealScalar.powf_eq]
    rw [e, Spec.Cam16.Nbb, Real.rpow_neg hn.le, one_div, Real.inv_rpow hn.le]

/-- **= published surround table**: dark / dim / average give `(F, c, N_c)` = (0.8, 0.525, 0.8) / (0.9, 0.59, 0.9) / (1.0, 0.69, 1.0) -/
theorem prepare_surround_eq_spec (wp : V3 ℝ) (la yb : ℝ) (d : Discounting ℝ) :
    ((prepareParameters ⟨wp, la, yb, .dark, d⟩).c = Spec.Cam16.Surround.dark.c ∧ (prepareParameters ⟨wp, la, yb, .dark, d⟩).nC = Spec.Cam16.Surround.dark.Nc) ∧
    ((prepareParameters ⟨wp, la, yb, .dim, d⟩).c = Spec.Cam16.Surround.dim.c ∧ (prepareParameters ⟨wp, la, yb, .dim, d⟩).nC = Spec.Cam16.Surround.dim.Nc) ∧
    ((prepareParameters ⟨wp, la, yb, .average, d⟩).c = Spec.Cam16.Surround.average.c ∧ (prepareParameters ⟨wp, la, yb, .average, d⟩).nC = Spec.Cam16.Surround.average.Nc) := by
  simp only [prepareParameters, Surround.intoPercent, K.surround_0, K.surround_1, K.surround_2, K.prepare_2, K.prepare_3, K.prepare_4, K.prepare_5, K.prepare_6, K.prepare_7, K.prepare_8,
    K.prepare_9, K.prepare_10, K.prepare_11, K.prepare_12, K.prepare_13, K.prepare_14, lerp_eq, Spec.Cam16.Surround.c, Spec.Cam16.Surround.Nc]
  norm_num

/-- **= published degree of adaptation and `D_R`**: the `Auto` discounting is `D = F[1 − (1/3.6)e^{(−L_A−42)/92}]` (then clipped
    to [0, 1]); each channel factor is `D·Y_w/R_w + 1 − D` -/
theorem discounting_eq_spec (f la d yw cw : ℝ) :
    f * (1.0 - 1.0 / 3.6 * Real.exp ((-la - 42.0) / 92.0)) = Spec.Cam16.degreeOfAdaptation f la ∧
    lerp 1.0 (yw / cw) d = Spec.Cam16.dFactor d yw cw := by
  constructor
  · simp only [Spec.Cam16.degreeOfAdaptation]; norm_num
  · simp only [lerp_eq, Spec.Cam16.dFactor]; norm_num; ring

/-! ## non-vacuity -/

/-- the hypotheses of the attribute algebra and of `intoFull_fromFull_attrs` are met by the values of the repo's own test colour
    0x5588cc under its test parameters (J_root ≈ 0.675, α ≈ 66.8, c = 0.69, A_w ≈ 29.98, F_L^¼ ≈ 0.87) -/
example : (0:ℝ) < 0.675 ∧ (0:ℝ) ≤ 66.8 ∧ (0:ℝ) < 0.69 ∧ (0:ℝ) < 4 + 29.98 ∧ (0:ℝ) < 0.87 := by norm_num

/-- `roundtrip_core_partial`'s hypotheses hold for a baked `Dep` with unit adaptation factors and D65-like positive cone responses -/
example : ∃ p : Dep ℝ, Baked p ∧ 0 < p.adaptFL ∧ p.dRgb.c0 ≠ 0 ∧ 0 < p.nBb ∧ 0 < p.aW ∧ 0 < p.c ∧ 0 < p.z ∧ 0 < p.nC ∧ 0 < p.nCb ∧
    0 < (coneAdapted ⟨0.2, 0.2, 0.2⟩ p).c0 ∧ 0 < (coneAdapted ⟨0.2, 0.2, 0.2⟩ p).c1 ∧ 0 < (coneAdapted ⟨0.2, 0.2, 0.2⟩ p).c2 := by
  refine ⟨{ dRgb := ⟨1, 1, 1⟩, dRgbInv := map3 (⟨1, 1, 1⟩ : V3 ℝ) (fun d => 1.0 / d), n := 0.2, nBb := 1, nC := 1, nCb := 1, aW := 30, c := 0.69, z := 1.9, fL4 := 1,
             adaptFL := 1, unadaptConstant := 100.0 / 1 * (27.13:ℝ) ^ ((1.0:ℝ) / 0.42), unadaptExponent := (1.0:ℝ) / 0.42 }, ⟨rfl, rfl, rfl⟩, ?_⟩
  simp only [coneAdapted, mul3, m16_eq]
  norm_num

/-- UCS: `J = 50`, `M = 40` (and their images) satisfy the side conditions of the two UCS round trips -/
example : (1:ℝ) + 0.007 * 50 ≠ 0 ∧ (0:ℝ) < 1 + 0.0228 * 40 ∧ (1.7:ℝ) - 0.007 * 62.96 ≠ 0 := by norm_num

end Spec

end C16
