/-
  C20 — serialized colours deserialize to the same colour in a stable shape.

  Theorems about `PaletteModel/Serde.lean` over the tables regenerated from /repo (`Gen/Serde.lean`): the derived
  `Serialize`/`Deserialize` of the 20 colour structs, `AlphaSerializer`/`AlphaDeserializer`, `Alpha`/`PreAlpha`,
  the optional-alpha helpers and `as_array`/`as_uint`.  The component type `α` is arbitrary (components are moved,
  never computed on), so every statement holds bit-exactly for `f32`, `f64`, `u8`, ….

  Formats are a parameter: `Serde.json`/`Serde.ron` describe how a format presents the data model (trusted, checked
  against serde_json / ron on every run by the `shape` lines), and `Format` below is any (render, parse) pair with
  `parse ∘ render = id`.
-/
import PaletteModel.Serde

namespace C20
open Serde

/-! ## the extracted tables are what the model assumes -/

/-- 20 serializable colour structs, pairwise different names -/
theorem colors_table : colors.length = 20 ∧ (colors.map (·.name)).Nodup := by decide

/-- field names of every colour are pairwise different and none of them is the alpha key; every colour has a component -/
theorem field_names_ok : ∀ d ∈ colors, d.names.Nodup ∧ cfgAlpha.serStructKey ∉ d.names ∧ d.fields ≠ [] := by decide

/-- **no type-level metadata in the output**: every `PhantomData` field (RGB standard, white point, LMS matrix) carries
    `serde(skip)`, no component is skipped, and no serialized field has the name of a metadata field -/
theorem no_metadata_fields :
    Gen.Serde.phantomNotSkipped = [] ∧ Gen.Serde.componentSkipped = [] ∧
    (∀ r ∈ Gen.Serde.colors, ∀ p ∈ Gen.Serde.phantomFields, r.1 = p.1 → ∀ f ∈ r.2, f.1 ∉ p.2) ∧
    (Gen.Serde.colors.map (·.1) = Gen.Serde.phantomFields.map (·.1)) := by decide

/-- the keys of a serialized colour are exactly its declared component names, in order -/
theorem ser_keys (tr : Bool) (d : Desc) (c : List α) (h : c.length = d.fields.length) :
    ∃ fs, serColor tr d c = .struct d.name d.fields.length fs ∧ fs.map (·.1) = d.names := by
  refine ⟨_, rfl, ?_⟩
  unfold Desc.names
  generalize d.fields = fl at h
  induction fl generalizing c with
  | nil => simp
  | cons f fl ih =>
    cases c with
    | nil => simp at h
    | cons x c => simp at h; simp [List.zipWith, ih c h]

/-- the alpha key is the literal `alpha` in both wrappers and for both `Alpha` and `PreAlpha` -/
theorem alpha_key_literal :
    cfgAlpha.serStructKey = "alpha" ∧ cfgAlpha.serMapKey = "alpha" ∧ cfgAlpha.deStrKey = "alpha" ∧
    Gen.Serde.deBytesAlphaKey = "alpha" ∧ cfgAlpha.deDupName = "alpha" ∧ cfgAlpha.missingName = "alpha" ∧
    cfgPreAlpha.missingName = "alpha" ∧ cfgPreAlpha.serStructKey = "alpha" ∧ cfgPreAlpha.deStrKey = "alpha" := by decide

/-! ## shape of the output -/

/-- **a colour with alpha is the colour's own fields plus an `alpha` field at the same level**: same struct name, the
    colour's entries unchanged and in place, one more entry `("alpha", a)` at the end, nothing nested -/
theorem alpha_is_flat (d : Desc) (c : List α) (a : α) :
    ∃ fs, serColor cfgAlpha.hueTransparent d c = .struct d.name d.fields.length fs ∧
      serAlpha cfgAlpha d c a = some (.struct d.name (d.fields.length + 1) (fs ++ [("alpha", .num a)])) ∧
      serAlpha cfgPreAlpha d c a = some (.struct d.name (d.fields.length + 1) (fs ++ [("alpha", .num a)])) :=
  ⟨_, rfl, rfl, rfl⟩

/-- `AlphaSerializer` keeps declared lengths right in every shape it supports (length-prefixed formats rely on it) -/
theorem alphaSer_wf (t : Tree α) (a : Val α) (h : t.wf = true) : ∀ t', alphaSer cfgAlpha t a = some t' → t'.wf = true := by
  intro t' ht
  cases t with
  | val v => cases v <;> simp [alphaSer] at ht <;> subst ht <;> rfl
  | unit => simp [alphaSer] at ht; subst ht; rfl
  | unitStruct n => cases a <;> simp [alphaSer] at ht; subst ht; rfl
  | seq len xs =>
    simp [alphaSer] at ht; subst ht
    cases len with
    | none => rfl
    | some n => simp [Tree.wf] at h ⊢; subst h; rfl
  | tuple len xs => simp [alphaSer] at ht; subst ht; simp [Tree.wf] at h ⊢; subst h; rfl
  | tupleStruct n len xs => simp [alphaSer] at ht; subst ht; simp [Tree.wf] at h ⊢; subst h; rfl
  | map len es =>
    simp [alphaSer] at ht; subst ht
    cases len with
    | none => rfl
    | some n => simp [Tree.wf] at h ⊢; subst h; rfl
  | struct n len fs => simp [alphaSer] at ht; subst ht; simp [Tree.wf] at h ⊢; subst h; rfl

/-- `AlphaSerializer` on the sequence-like shapes appends exactly one element, the alpha, last -/
theorem alphaSer_seq_shapes (xs : List (Val α)) (a : Val α) (n : Nat) (name : String) :
    alphaSer cfgAlpha (.tuple n xs) a = some (.tuple (n + 1) (xs ++ [a])) ∧
    alphaSer cfgAlpha (.seq (some n) xs) a = some (.seq (some (n + 1)) (xs ++ [a])) ∧
    alphaSer cfgAlpha (.tupleStruct name n xs) a = some (.tupleStruct name (n + 1) (xs ++ [a])) := ⟨rfl, rfl, rfl⟩

/-- **a hue serializes as a bare number**, on its own and as a field, in every format of the model -/
theorem hue_is_bare_number (f : Fmt) (name : String) (fd : Field) (x : α) :
    present f (serHue Gen.Serde.hueTransparent name x) = .val (.num x) ∧
    presentVal f (encField Gen.Serde.hueTransparent fd x) = .num x := by
  have h : Gen.Serde.hueTransparent = true := by decide
  rw [h]
  constructor
  · rfl
  · unfold encField; cases fd.hue <;> rfl

/-- every field value of every colour, with or without alpha, shows as a bare number: nothing is nested -/
theorem all_values_bare (f : Fmt) (d : Desc) (c : List α) :
    ∀ kv ∈ (match serColor Gen.Serde.hueTransparent d c with | .struct _ _ fs => fs | _ => []),
      ∃ x, presentVal f kv.2 = .num x := by
  have h : Gen.Serde.hueTransparent = true := by decide
  rw [h]
  simp only [serColor]
  intro kv hkv
  generalize d.fields = fl at hkv
  induction fl generalizing c with
  | nil => simp at hkv
  | cons fd fl ih =>
    cases c with
    | nil => simp at hkv
    | cons x c =>
      simp only [List.zipWith, List.mem_cons] at hkv
      rcases hkv with rfl | hkv
      · refine ⟨x, ?_⟩; simp only [encField]; cases fd.hue <;> rfl
      · exact ih c hkv

/-! ## round trips -/

theorem len1 {c : List α} (h : c.length = 1) : ∃ x0, c = [x0] := by
  match c, h with
  | [x0], _ => exact ⟨x0, rfl⟩
theorem len3 {c : List α} (h : c.length = 3) : ∃ x0 x1 x2, c = [x0, x1, x2] := by
  match c, h with
  | [x0, x1, x2], _ => exact ⟨x0, x1, x2, rfl⟩

/-- run a statement over every colour struct of the table with its components named -/
macro "each_color" : tactic => `(tactic|
  (intro d hd c hc
   simp only [colors, Gen.Serde.colors, List.map, Desc.ofRaw, List.mem_cons, List.mem_nil_iff, or_false] at hd
   rcases hd with hd | hd | hd | hd | hd | hd | hd | hd | hd | hd | hd | hd | hd | hd | hd | hd | hd | hd | hd | hd <;>
   subst hd <;>
   first
   | (obtain ⟨x0, x1, x2, hx⟩ := len3 hc; subst hx; intros; refine ⟨?_, ?_⟩ <;> rfl)
   | (obtain ⟨x0, hx⟩ := len1 hc; subst hx; intros; refine ⟨?_, ?_⟩ <;> rfl)))

/-- **plain colours, self-describing formats**: `deserialize (serialize c) = c` through JSON and RON (struct shape) -/
theorem roundtrip_plain_struct : ∀ d ∈ colors, ∀ c : List α, c.length = d.fields.length →
    deColor Gen.Serde.hueTransparent json d (present json (serColor Gen.Serde.hueTransparent d c)) = .ok c ∧
    deColor Gen.Serde.hueTransparent ron d (present ron (serColor Gen.Serde.hueTransparent d c)) = .ok c := by
  each_color

/-- **plain colours, compact sequence form** (names dropped, values in order) and by-index identifiers -/
theorem roundtrip_plain_seq : ∀ d ∈ colors, ∀ c : List α, c.length = d.fields.length →
    deColor Gen.Serde.hueTransparent json d (presentSeq json (serColor Gen.Serde.hueTransparent d c)) = .ok c ∧
    deColor Gen.Serde.hueTransparent json d (presentIdx json (serColor Gen.Serde.hueTransparent d c)) = .ok c := by
  each_color

/-- **`Alpha<C>`, self-describing formats** -/
theorem roundtrip_alpha_struct : ∀ d ∈ colors, ∀ c : List α, c.length = d.fields.length → ∀ a : α,
    ((serAlpha cfgAlpha d c a).map fun t => deAlpha cfgAlpha json d (present json t)) = some (.ok (c, a)) ∧
    ((serAlpha cfgAlpha d c a).map fun t => deAlpha cfgAlpha ron d (present ron t)) = some (.ok (c, a)) := by
  each_color

/-- **`Alpha<C>`, compact sequence form and by-index identifiers** (the alpha is the last element / index `n`) -/
theorem roundtrip_alpha_seq : ∀ d ∈ colors, ∀ c : List α, c.length = d.fields.length → ∀ a : α,
    ((serAlpha cfgAlpha d c a).map fun t => deAlpha cfgAlpha json d (presentSeq json t)) = some (.ok (c, a)) ∧
    ((serAlpha cfgAlpha d c a).map fun t => deAlpha cfgAlpha json d (presentIdx json t)) = some (.ok (c, a)) := by
  each_color

/-- **`PreAlpha<C>`**, all three shapes (the wrappers are shared with `Alpha`; stated for every struct of the table,
    the crate instantiates it where `Premultiply` exists) -/
theorem roundtrip_prealpha_struct : ∀ d ∈ colors, ∀ c : List α, c.length = d.fields.length → ∀ a : α,
    ((serAlpha cfgPreAlpha d c a).map fun t => deAlpha cfgPreAlpha json d (present json t)) = some (.ok (c, a)) ∧
    ((serAlpha cfgPreAlpha d c a).map fun t => deAlpha cfgPreAlpha ron d (present ron t)) = some (.ok (c, a)) := by
  each_color

theorem roundtrip_prealpha_seq : ∀ d ∈ colors, ∀ c : List α, c.length = d.fields.length → ∀ a : α,
    ((serAlpha cfgPreAlpha d c a).map fun t => deAlpha cfgPreAlpha json d (presentSeq json t)) = some (.ok (c, a)) ∧
    ((serAlpha cfgPreAlpha d c a).map fun t => deAlpha cfgPreAlpha json d (presentIdx json t)) = some (.ok (c, a)) := by
  each_color

/-- **data without an alpha field yields full opacity** (`deserialize_with_optional_alpha`, `…_pre_alpha`): the plain
    colour's own output, struct or sequence shaped, reads back as that colour with `max_intensity` -/
theorem optional_alpha_absent : ∀ d ∈ colors, ∀ c : List α, c.length = d.fields.length → ∀ mx : α,
    deAlphaOpt cfgAlpha json d mx (present json (serColor cfgAlpha.hueTransparent d c)) = .ok (c, mx) ∧
    deAlphaOpt cfgAlpha ron d mx (present ron (serColor cfgAlpha.hueTransparent d c)) = .ok (c, mx) := by
  each_color

theorem optional_alpha_absent_seq_pre : ∀ d ∈ colors, ∀ c : List α, c.length = d.fields.length → ∀ mx : α,
    deAlphaOpt cfgAlpha json d mx (presentSeq json (serColor cfgAlpha.hueTransparent d c)) = .ok (c, mx) ∧
    deAlphaOpt cfgPreAlpha json d mx (present json (serColor cfgAlpha.hueTransparent d c)) = .ok (c, mx) := by
  each_color

/-- … and the value the two helpers substitute **is** the component type's `max_intensity` (full opacity), whatever the
    component type's constants are: the function named in serde.rs is read on every run -/
theorem optional_alpha_default_is_full_opacity (k : CompConsts α) :
    optDefault Gen.Serde.optAlphaDefault k = some k.maxIntensity ∧
    optDefault Gen.Serde.optPreAlphaDefault k = some k.maxIntensity := by
  constructor <;> rfl

/-- … and when the alpha is there the helpers return it -/
theorem optional_alpha_present : ∀ d ∈ colors, ∀ c : List α, c.length = d.fields.length → ∀ a mx : α,
    ((serAlpha cfgAlpha d c a).map fun t => deAlphaOpt cfgAlpha json d mx (present json t)) = some (.ok (c, a)) ∧
    ((serAlpha cfgAlpha d c a).map fun t => deAlphaOpt cfgAlpha json d mx (presentSeq json t)) = some (.ok (c, a)) := by
  each_color

/-- whereas `Alpha::deserialize` itself refuses data without alpha: `missing field "alpha"` -/
theorem alpha_required : ∀ d ∈ colors, ∀ c : List α, c.length = d.fields.length →
    deAlpha cfgAlpha json d (present json (serColor cfgAlpha.hueTransparent d c)) = .error (.missingField "alpha") ∧
    deAlpha cfgPreAlpha json d (presentSeq json (serColor cfgAlpha.hueTransparent d c)) = .error (.missingField "alpha") := by
  each_color

/-- hues on their own -/
theorem roundtrip_hue (f : Fmt) (name : String) (x : α) :
    deHue Gen.Serde.hueTransparent f (present f (serHue Gen.Serde.hueTransparent name x)) = .ok x := by
  have h : Gen.Serde.hueTransparent = true := by decide
  rw [h]; rfl

/-! ## the helper forms go through the cast values -/

theorem mapM_decode (xs : List α) : (xs.map GVal.num).mapM (decodeNum (α := α)) = Except.ok xs := by
  induction xs with
  | nil => rfl
  | cons x xs ih => simp [List.mapM_cons, decodeNum, ih]; rfl

/-- `as_array`: the output is the sequence of exactly the `cast::into_array` values, in order, and reading it back
    hands exactly those values to `cast::from_array` -/
theorem as_array_roundtrip (f : Fmt) (arr : List α) :
    present f (serAsArray arr) = .seq (arr.map .num) ∧ (serAsArray arr).wf = true ∧
    deAsArray arr.length (present f (serAsArray arr)) = .ok arr := by
  refine ⟨?_, ?_, ?_⟩
  · simp [serAsArray, present, presentVal, Function.comp_def]
  · simp [serAsArray, Tree.wf]
  · have h : present f (serAsArray arr) = .seq (arr.map .num) := by simp [serAsArray, present, presentVal, Function.comp_def]
    rw [h]; simp only [deAsArray, List.length_map, Nat.lt_irrefl, ↓reduceIte]; exact mapM_decode arr

/-- `as_uint`: the output is the bare `cast::into_uint` value and reads back as it -/
theorem as_uint_roundtrip (f : Fmt) (u : α) :
    present f (serAsUint u) = .val (.num u) ∧ deAsUint (present f (serAsUint u)) = .ok u := ⟨rfl, rfl⟩

/-! ## any format -/

/-- a format as an abstract (render, parse) pair over what it presents -/
structure Format (α Text : Type) where
  render : GTree α → Text
  parse : Text → Option (GTree α)
  parse_render : ∀ t, parse (render t) = some t

/-- through any such format the text round trip is the tree round trip: with the theorems above,
    `from_str (to_string c) = Ok c` for every colour, `Alpha` and `PreAlpha`, in every presented shape -/
theorem roundtrip_any_format {Text β : Type} (F : Format α Text) (de : GTree α → Res β) (t : GTree α) (r : Res β)
    (h : de t = r) : (F.parse (F.render t)).map de = some r := by
  rw [F.parse_render]; simp [h]

/-! ## non-vacuity -/

def hsv : Desc := { name := "Hsv", fields := [⟨"hue", some "RgbHue"⟩, ⟨"saturation", none⟩, ⟨"value", none⟩] }
example : hsv ∈ colors := by decide
example : ([1, 2, 3] : List Nat).length = hsv.fields.length := rfl
example : serAlpha cfgAlpha hsv [10, 20, 30] 40 =
    some (.struct "Hsv" 4 [("hue", .num 10), ("saturation", .num 20), ("value", .num 30), ("alpha", .num 40)]) := by decide
example : present ron (serColor cfgAlpha.hueTransparent hsv [10, 20, 30]) =
    .map [(.str "hue", .num 10), (.str "saturation", .num 20), (.str "value", .num 30)] := by decide
/-- reordered fields, alpha first -/
example : deAlpha cfgAlpha json hsv (.map [(.str "alpha", .num 40), (.str "value", .num 30), (.str "hue", .num 10), (.str "saturation", .num 20)])
    = .ok ([10, 20, 30], 40) := rfl
/-- duplicate alpha is an error, an unknown field is ignored -/
example : deAlpha cfgAlpha json hsv (.map [(.str "alpha", .num 40), (.str "hue", .num 10), (.str "alpha", .num 41)])
    = .error (.duplicateField "alpha") := rfl
example : deColor true json hsv (.map [(.str "extra", .num 0), (.str "value", .num 30), (.str "hue", .num 10), (.str "saturation", .num 20)])
    = .ok [10, 20, 30] := rfl
/-- what the hue clause excludes: a derived (non-transparent) newtype shows as `(x)` in RON and a bare number is refused -/
example : present ron (serHue false "RgbHue" 10) = .seq [.num 10] ∧ deHue false ron (.val (.num 10)) = .error .invalidType := ⟨rfl, rfl⟩
/-- an instance of the abstract format: the identity -/
example : Format Nat (GTree Nat) := { render := id, parse := some, parse_render := fun _ => rfl }

end C20
