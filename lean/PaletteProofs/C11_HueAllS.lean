/-
  C11 — **upper bound of the signed normal form for every `Float32` with |x| ≤ 2^20**:  `normS32 x ≤ 180 + ulp x`
  (with `normS32_lower_all`: `−180 ≤ normS32 x ≤ 180 + ulp x`; the oracle's interval `[−180 − ulp x, 180 + ulp x]` is
  wider below).  The bound is tight: the exhaustive scan of the thorough tier finds 17 patterns at exactly `180 + ulp x`.

  Proof: monotonicity of the computed whole-turn count `K X = ⌈R32 (R32 (R32 (X+180)/360) − 1)⌉` reduces the claim to one
  float per integer `k` (`Lemmas/HueScan.lean`, `upper_of_chk`); the 5832 checks `chk k`, `−2916 ≤ k ≤ 2915`, are decided
  by kernel evaluation of core's unpacked-float operations in `C11_HueScanA..D.lean`.
-/
import PaletteProofs.C11_HueAll
import PaletteProofs.C11_HueScanA
import PaletteProofs.C11_HueScanB
import PaletteProofs.C11_HueScanC
import PaletteProofs.C11_HueScanD

namespace C11
open Hue.Bits Float.Model Float.Model.UnpackedFloat Ieee Ieee.F32

theorem chk_of_scan {off k : ℤ} (scan : ∀ i : Fin 486, chk ((i.val : ℤ) + off) = true) (h0 : off ≤ k) (h1 : k < off + 486) :
    chk k = true := by
  have := scan ⟨(k - off).toNat, by omega⟩
  rwa [show (((⟨(k - off).toNat, by omega⟩ : Fin 486).val : ℤ)) + off = k by simp; omega] at this

theorem chk_all {k : ℤ} (h : |k| ≤ 2915) : chk k = true := by
  have hk := abs_le.mp h
  rcases lt_or_ge k (-2430) with h0 | h0
  · exact chk_of_scan scan_00 (by omega) (by omega)
  rcases lt_or_ge k (-1944) with h1 | h1
  · exact chk_of_scan scan_01 (by omega) (by omega)
  rcases lt_or_ge k (-1458) with h2 | h2
  · exact chk_of_scan scan_02 (by omega) (by omega)
  rcases lt_or_ge k (-972) with h3 | h3
  · exact chk_of_scan scan_03 (by omega) (by omega)
  rcases lt_or_ge k (-486) with h4 | h4
  · exact chk_of_scan scan_04 (by omega) (by omega)
  rcases lt_or_ge k (0) with h5 | h5
  · exact chk_of_scan scan_05 (by omega) (by omega)
  rcases lt_or_ge k (486) with h6 | h6
  · exact chk_of_scan scan_06 (by omega) (by omega)
  rcases lt_or_ge k (972) with h7 | h7
  · exact chk_of_scan scan_07 (by omega) (by omega)
  rcases lt_or_ge k (1458) with h8 | h8
  · exact chk_of_scan scan_08 (by omega) (by omega)
  rcases lt_or_ge k (1944) with h9 | h9
  · exact chk_of_scan scan_09 (by omega) (by omega)
  rcases lt_or_ge k (2430) with h10 | h10
  · exact chk_of_scan scan_10 (by omega) (by omega)
  exact chk_of_scan scan_11 (by omega) (by omega)

def t128 : UnpackedFloat := .finite .positive 0x800000 (-16) (by decide)
def tm128 : UnpackedFloat := .finite .negative 0x800000 (-16) (by decide)
theorem canon_t128 : Canon spec t128 := ⟨by decide, by decide, Or.inr (Or.inl (by decide))⟩
theorem canon_tm128 : Canon spec tm128 := ⟨by decide, by decide, Or.inr (Or.inl (by decide))⟩
theorem val_t128 : val t128 = 128 := by norm_num [t128, val, sgn]
theorem val_tm128 : val tm128 = -128 := by norm_num [tm128, val, sgn]

theorem g_at_128 : (y3 t128).le (.zero .positive) = true ∧
    (UnpackedFloat.normalize spec (-1) 0 .positive).lt (y3 tm128) = true ∧ (y3 tm128).le (.zero .positive) = true := by
  decide +kernel

theorem g_128_le : g 128 ≤ 0 := by
  obtain ⟨vy, cy, fy⟩ := y3_spec canon_t128 rfl
  have := (le_iff_val cy (show Canon spec (.zero .positive) from trivial) fy rfl).mp g_at_128.1
  rw [vy, val_t128] at this; simpa [val] using this

theorem g_m128_gt : -1 < g (-128) := by
  obtain ⟨vy, cy, fy⟩ := y3_spec canon_tm128 rfl
  have := (lt_iff_val (canon_normalize spec (-1) 0 .positive) cy (isFinite_normalize ..) fy).mp g_at_128.2.1
  rw [vy, val_tm128, val_normalize] at this
  have h1 : Rs spec (((-1 : ℤ) : ℚ) * 2^(0 : ℤ)) = -1 := by
    have := R32_intCast (n := -1) (by norm_num); simpa using this
  rw [h1] at this; exact this

theorem g_m128_le : g (-128) ≤ 0 := by
  obtain ⟨vy, cy, fy⟩ := y3_spec canon_tm128 rfl
  have := (le_iff_val cy (show Canon spec (.zero .positive) from trivial) fy rfl).mp g_at_128.2.2
  rw [vy, val_tm128] at this; simpa [val] using this

/-- **the signed normal form never exceeds `180 + ulp x`** (every f32 with |x| ≤ 2^20) -/
theorem normS32_upper_all : ∀ x : Float32, IsFin x → |v x| ≤ 2^20 → v (normS32 x) ≤ 180 + ulp32 (v x) := by
  intro x hx hb
  obtain ⟨_, hv, hkb⟩ := normS32_closed_form hx hb
  have hgdef : R32 (R32 (R32 (v x + 180) / 360) - 1) = g (v x) := rfl
  rw [hgdef] at hv hkb
  set X := v x with hX
  set k := ⌈g X⌉ with hk
  have hupos := ulp_pos (p := 24) (emin := -149) X
  by_cases hsmall : |X| ≤ 128
  · -- no whole turn is subtracted
    obtain ⟨hlo, hhi⟩ := abs_le.mp hsmall
    have h1 : g X ≤ 0 := le_trans (g_mono hhi) g_128_le
    have h2 : -1 < g X := lt_of_lt_of_le g_m128_gt (g_mono hlo)
    have hk0 : k = 0 := by
      rw [hk, Int.ceil_eq_iff]; push_cast; constructor <;> linarith
    rw [hv, hk0]
    have : R32 (X - 360 * ((0 : ℤ) : ℚ)) = X := by
      rw [show X - 360 * ((0 : ℤ) : ℚ) = X by simp]
      exact R_val_of_canon spec (canon_U x)
    rw [this]; linarith
  · rw [not_le] at hsmall
    -- unpack x
    have hc := canon_U x
    have hXval : X = val (U x) := rfl
    unfold IsFin at hx
    cases hu : U x <;> rw [hu] at hx hc hXval <;> simp only [UnpackedFloat.isFinite, Bool.false_eq_true] at hx
    · exfalso; rw [hXval] at hsmall; simp [val] at hsmall; linarith
    · rename_i s m e hm
      have cm : CanonME spec m e := hc
      have hXs : X = sgn s * mag m e := by rw [hXval]; simp only [val, mag]; ring
      have habs : |X| = mag m e := by
        rw [hXs, abs_mul, abs_of_pos (mag_pos hm e)]; cases s <;> simp [sgn]
      have hmagpos := mag_pos hm e
      have h2e := two_zpow_pos e
      -- normal, and the exponent range
      have hmlt : (m : ℚ) < 2^24 := by exact_mod_cast cm.lt
      have he_lo : -17 < e := by
        by_contra hle; rw [not_lt] at hle
        have : mag m e ≤ 2^24 * 2^(-17 : ℤ) := by
          unfold mag
          exact mul_le_mul hmlt.le (zpow_le_zpow_right₀ (by norm_num) hle) h2e.le (by norm_num)
        rw [habs] at hsmall; norm_num at this; linarith
      have hnorm : 2^23 ≤ m := by
        rcases cm.norm with h | h | h
        · omega
        · exact h
        · exfalso; have : e = -149 := h; omega
      have hmge : (2 : ℚ)^23 ≤ m := by exact_mod_cast hnorm
      have he_hi : e ≤ -3 := by
        by_contra hgt; rw [not_le] at hgt
        have : (2 : ℚ)^23 * 2^(-2 : ℤ) ≤ mag m e := by
          unfold mag
          exact mul_le_mul hmge (zpow_le_zpow_right₀ (by norm_num) (by omega)) (by positivity) (by positivity)
        rw [habs] at hb; norm_num at this; linarith
      -- ulp X = 2^e
      have hulp : ulp32 X = 2^e := by
        have hXne : X ≠ 0 := by rw [hXs]; cases s <;> simp [sgn] <;> linarith
        rw [show ulp32 X = ulp 24 (-149) X from rfl, ulp_of_ne hXne]
        have hte : texp 24 (-149) ((m : ℚ) * 2^e) = e := by
          have := texp_eq_tE spec hm e
          rw [tE_def] at this
          have hl : m.log2 = 23 := by
            rw [Nat.log2_eq_iff (by omega)]; exact ⟨hnorm, cm.lt⟩
          rw [hl] at this
          show texp spec.mantissaBits spec.minExponent _ = e
          rw [this]
          show max (((23 : ℕ) : ℤ) + 1 + e - ((24 : ℕ) : ℤ)) (-149) = e
          rw [max_eq_left (by push_cast; omega)]; push_cast; ring
        congr 1
        cases s
        · rw [hXs, show sgn Sign.negative * mag m e = -((m : ℚ) * 2^e) by simp [sgn, mag], texp_neg]; exact hte
        · rw [hXs, show sgn Sign.positive * mag m e = (m : ℚ) * 2^e by simp [sgn, mag]]; exact hte
      -- sign agreement beyond F
      have hsign : ((360 * k + 180 : ℤ) : ℚ) < sgn s * mag m e → (0 < sgn s * mag m e ↔ 0 < 360 * k + 180) := by
        intro hF
        rw [← hXs] at hF ⊢
        constructor
        · intro hpos
          have hge : (-128 : ℚ) ≤ X := by linarith
          have : -1 < g X := lt_of_lt_of_le g_m128_gt (g_mono hge)
          have : 0 ≤ k := by
            rw [hk]; by_contra hneg; rw [not_le] at hneg
            have : (⌈g X⌉ : ℚ) ≤ -1 := by exact_mod_cast (by omega : ⌈g X⌉ ≤ -1)
            have := Int.le_ceil (g X); linarith
          omega
        · intro hFpos
          have : (0 : ℚ) < ((360 * k + 180 : ℤ) : ℚ) := by exact_mod_cast hFpos
          linarith
      have hup := upper_of_chk (chk_all hkb) hm cm (by rw [← hXs]) hsign
      rw [← hXs] at hup
      -- 180 + 2^e is representable
      obtain ⟨j, hj⟩ : ∃ j : ℕ, (j : ℤ) = -e := ⟨(-e).toNat, by omega⟩
      have hj3 : 3 ≤ j := by omega
      have hj16 : j ≤ 16 := by omega
      have hrep : R32 (180 + 2^e) = 180 + 2^e := by
        have hn : |((180 * 2^j + 1 : ℕ) : ℤ)| < 2^24 := by
          rw [abs_of_nonneg (by positivity)]
          have : 2^j ≤ 2^16 := Nat.pow_le_pow_right (by norm_num) hj16
          have : 180 * 2^j + 1 < 2^24 := by omega
          exact_mod_cast this
        have := R_fix (p := 24) (emin := -149) (n := ((180 * 2^j + 1 : ℕ) : ℤ)) (t := e) hn (by omega)
        have hval : ((((180 * 2^j + 1 : ℕ) : ℤ)) : ℚ) * 2^e = 180 + 2^e := by
          push_cast
          have : (2 : ℚ)^j * 2^e = 1 := by
            rw [← zpow_natCast, ← zpow_add₀ (by norm_num), hj]; simp
          linarith [this]
        rw [hval] at this; exact this
      rw [hv, hulp, ← hrep]
      exact R32_mono hup

/-- **range of the signed normal form over every f32 with |x| ≤ 2^20** -/
theorem normS32_range_all : ∀ x : Float32, IsFin x → |v x| ≤ 2^20 →
    -180 ≤ v (normS32 x) ∧ v (normS32 x) ≤ 180 + ulp32 (v x) :=
  fun x hx hb => ⟨normS32_lower_all x hx hb, normS32_upper_all x hx hb⟩

end C11
