/-
  C09 — CIEDE2000 (part 2): `get_ciede2000_difference` as modelled in `PaletteModel/Diff.lean`, read at ℝ.

  * one lemma per intermediate: `G` symmetric, `Δh′` antisymmetric, `ΔH′` antisymmetric, `h̄′` symmetric, the final expression even in
    (ΔL′, ΔC′, ΔH′) ⇒ **symmetric for every pair** (also at |h₂′−h₁′| = 180: the exclusion in the property is needed for the comparison
    with the reference under rounding, not for symmetry);
  * `d c c = 0`, `d ≥ 0`, and the radicand itself is ≥ 0 (|R_T| ≤ 2), so the square root is never taken of a negative number;
  * **model = the Sharma–Wu–Dalal formula** (`PaletteSpec/Ciede2000.lean`) for every pair of Lab colours, with the degree/radian
    factors read as π/180 and 180/π — including zero chroma (both conventions: `h′ = 0`, `h̄′ = h₁′+h₂′`) and hues straddling 0/360;
  * the mean hue lies in [0, 360) — and the pre-repair three-arm rule did not (finding D7), with a kernel-checked witness.

  The theorems hold for *any* real degree/radian factors unless `π` is mentioned, so they cover both the exact reading and the
  rational constants `f64` PI / 180 the code uses.
-/
import PaletteProofs.Real
import PaletteModel.Diff
import PaletteSpec.Ciede2000
import Mathlib.Analysis.SpecialFunctions.Sqrt
import Mathlib.Analysis.SpecialFunctions.Trigonometric.Basic
import Mathlib.Analysis.SpecialFunctions.Complex.Arg
import Mathlib.Tactic.NormNum
import Mathlib.Tactic.Linarith
import Mathlib.Tactic.Positivity
import Mathlib.Tactic.LinearCombination
import Mathlib.Tactic.FieldSimp

namespace C09
open Diff

/-! ### reading the law-free pieces at ℝ -/

theorem eqv_iff (a b : ℝ) : Scalar.eqv a b ↔ a = b :=
  ⟨fun h => le_antisymm h.1 h.2, fun h => h ▸ ⟨le_refl _, le_refl _⟩⟩

theorem lit0 : (0.0 : ℝ) = 0 := by norm_num
theorem lit1 : (1.0 : ℝ) = 1 := by norm_num
theorem lit2 : (2.0 : ℝ) = 2 := by norm_num
theorem lit3 : (3.0 : ℝ) = 3 := by norm_num
theorem lit4 : (4.0 : ℝ) = 4 := by norm_num
theorem lit6 : (6.0 : ℝ) = 6 := by norm_num
theorem lit20 : (20.0 : ℝ) = 20 := by norm_num
theorem lit25 : (25.0 : ℝ) = 25 := by norm_num
theorem lit30 : (30.0 : ℝ) = 30 := by norm_num
theorem lit50 : (50.0 : ℝ) = 50 := by norm_num
theorem lit63 : (63.0 : ℝ) = 63 := by norm_num
theorem lit180 : (180.0 : ℝ) = 180 := by norm_num
theorem lit275 : (275.0 : ℝ) = 275 := by norm_num
theorem lit360 : (360.0 : ℝ) = 360 := by norm_num
theorem tf7_eq : (tf7 : ℝ) = 25 ^ 7 := by unfold tf7; norm_num
theorem powi7_eq (x : ℝ) : powi7 x = x ^ 7 := by unfold powi7; ring

/-! ### value lemmas, one per arm (no rewriting under `ite`) -/

section arms
variable {c1 c2 h1 h2 : ℝ}

theorem deltaHPrime_achrom (hc : c1 = 0 ∨ c2 = 0) : deltaHPrime c1 c2 h1 h2 = 0 := by
  simp only [deltaHPrime, eqv_iff, lit0]; rw [if_pos hc]
theorem deltaHPrime_direct (hc : ¬(c1 = 0 ∨ c2 = 0)) (ha : |h2 - h1| ≤ 180) : deltaHPrime c1 c2 h1 h2 = h2 - h1 := by
  simp only [deltaHPrime, eqv_iff, lit0, lit180, RealScalar.abs_eq]; rw [if_neg hc, if_pos ha]
theorem deltaHPrime_plus (hc : ¬(c1 = 0 ∨ c2 = 0)) (ha : ¬ |h2 - h1| ≤ 180) (hle : h2 ≤ h1) : deltaHPrime c1 c2 h1 h2 = h2 - h1 + 360 := by
  simp only [deltaHPrime, eqv_iff, lit0, lit180, lit360, RealScalar.abs_eq]; rw [if_neg hc, if_neg ha, if_pos hle]
theorem deltaHPrime_minus (hc : ¬(c1 = 0 ∨ c2 = 0)) (ha : ¬ |h2 - h1| ≤ 180) (hle : ¬ h2 ≤ h1) : deltaHPrime c1 c2 h1 h2 = h2 - h1 - 360 := by
  simp only [deltaHPrime, eqv_iff, lit0, lit180, lit360, RealScalar.abs_eq]; rw [if_neg hc, if_neg ha, if_neg hle]

theorem hBarPrime_achrom (hc : c1 = 0 ∨ c2 = 0) : hBarPrime c1 c2 h1 h2 = h1 + h2 := by
  simp only [hBarPrime, eqv_iff, lit0]; rw [if_pos hc]
theorem hBarPrime_mean (hc : ¬(c1 = 0 ∨ c2 = 0)) (ha : |h2 - h1| ≤ 180) : hBarPrime c1 c2 h1 h2 = (h1 + h2) / 2 := by
  simp only [hBarPrime, eqv_iff, lit0, lit180, lit2, RealScalar.abs_eq]; rw [if_neg hc, if_pos ha]
theorem hBarPrime_wrapLo (hc : ¬(c1 = 0 ∨ c2 = 0)) (ha : ¬ |h2 - h1| ≤ 180) (hs : h1 + h2 < 360) : hBarPrime c1 c2 h1 h2 = (h1 + h2 + 360) / 2 := by
  simp only [hBarPrime, eqv_iff, lit0, lit180, lit360, lit2, RealScalar.abs_eq]; rw [if_neg hc, if_neg ha, if_pos hs]
theorem hBarPrime_wrapHi (hc : ¬(c1 = 0 ∨ c2 = 0)) (ha : ¬ |h2 - h1| ≤ 180) (hs : ¬ h1 + h2 < 360) : hBarPrime c1 c2 h1 h2 = (h1 + h2 - 360) / 2 := by
  simp only [hBarPrime, eqv_iff, lit0, lit180, lit360, lit2, RealScalar.abs_eq]; rw [if_neg hc, if_neg ha, if_neg hs]

theorem hBarPrimeOld_wrap (hc : ¬(c1 = 0 ∨ c2 = 0)) (ha : ¬ |h2 - h1| ≤ 180) : hBarPrimeOld c1 c2 h1 h2 = (h1 + h2 + 360) / 2 := by
  simp only [hBarPrimeOld, eqv_iff, lit0, lit180, lit360, lit2, RealScalar.abs_eq]; rw [if_neg hc, if_pos (not_le.mp ha)]
end arms

/-! ### one lemma per intermediate -/

/-- `G` depends on the two chromas only through their sum -/
theorem gOf_symm (k1 k2 : ℝ) : gOf k1 k2 = gOf k2 k1 := by
  simp only [gOf, add_comm k1 k2]

/-- **Δh′ is antisymmetric** — in all four arms, also at |h₂′−h₁′| = 180 (+180 one way, −180 the other) -/
theorem deltaHPrime_antisymm (c1 c2 h1 h2 : ℝ) : deltaHPrime c2 c1 h2 h1 = -deltaHPrime c1 c2 h1 h2 := by
  by_cases hc : c1 = 0 ∨ c2 = 0
  · rw [deltaHPrime_achrom hc, deltaHPrime_achrom hc.symm, neg_zero]
  · have hc' : ¬(c2 = 0 ∨ c1 = 0) := fun h => hc h.symm
    by_cases ha : |h2 - h1| ≤ 180
    · have ha' : |h1 - h2| ≤ 180 := by rwa [abs_sub_comm]
      rw [deltaHPrime_direct hc ha, deltaHPrime_direct hc' ha']; ring
    · have ha' : ¬ |h1 - h2| ≤ 180 := by rwa [abs_sub_comm]
      by_cases hle : h2 ≤ h1
      · have hne : ¬ h1 ≤ h2 := by
          intro h; have e : h1 = h2 := le_antisymm h hle
          rw [e, sub_self, abs_zero] at ha; exact ha (by norm_num)
        rw [deltaHPrime_plus hc ha hle, deltaHPrime_minus hc' ha' hne]; ring
      · rw [deltaHPrime_minus hc ha hle, deltaHPrime_plus hc' ha' (le_of_lt (not_le.mp hle))]; ring

/-- **ΔH′ is antisymmetric**: symmetric in (C₁′, C₂′), odd in Δh′ -/
theorem bigDeltaH_antisymm (d2r c1 c2 dh : ℝ) : bigDeltaH d2r c2 c1 (-dh) = -bigDeltaH d2r c1 c2 dh := by
  simp only [bigDeltaH, RealScalar.sqrt_eq, RealScalar.sin_eq, mul_comm c2 c1, lit2]
  rw [show -dh / 2 * d2r = -(dh / 2 * d2r) by ring, Real.sin_neg]; ring

/-- **the mean hue h̄′ is symmetric** -/
theorem hBarPrime_symm (c1 c2 h1 h2 : ℝ) : hBarPrime c2 c1 h2 h1 = hBarPrime c1 c2 h1 h2 := by
  by_cases hc : c1 = 0 ∨ c2 = 0
  · rw [hBarPrime_achrom hc, hBarPrime_achrom hc.symm, add_comm]
  · have hc' : ¬(c2 = 0 ∨ c1 = 0) := fun h => hc h.symm
    by_cases ha : |h2 - h1| ≤ 180
    · have ha' : |h1 - h2| ≤ 180 := by rwa [abs_sub_comm]
      rw [hBarPrime_mean hc ha, hBarPrime_mean hc' ha', add_comm]
    · have ha' : ¬ |h1 - h2| ≤ 180 := by rwa [abs_sub_comm]
      by_cases hs : h1 + h2 < 360
      · rw [hBarPrime_wrapLo hc ha hs, hBarPrime_wrapLo hc' ha' (by rwa [add_comm]), add_comm h2 h1]
      · rw [hBarPrime_wrapHi hc ha hs, hBarPrime_wrapHi hc' ha' (by rwa [add_comm]), add_comm h2 h1]

/-- the final expression is even in (ΔL′, ΔC′, ΔH′) jointly -/
theorem combine_neg (dL dC dH sl sc sh rt : ℝ) : combine (-dL) (-dC) (-dH) sl sc sh rt = combine dL dC dH sl sc sh rt := by
  simp only [combine, lit1, RealScalar.sqrt_eq]; congr 1; ring

/-! ### how the intermediates of `(other, this)` relate to those of `(this, other)` -/

section swap
variable (d2r r2d : ℝ) (x y : LabColorDiff ℝ)

theorem inter_c1p_swap : (inter d2r r2d y x).c1p = (inter d2r r2d x y).c2p := by simp only [inter, gOf_symm y.chroma x.chroma]
theorem inter_c2p_swap : (inter d2r r2d y x).c2p = (inter d2r r2d x y).c1p := by simp only [inter, gOf_symm y.chroma x.chroma]
theorem inter_h1p_swap : (inter d2r r2d y x).h1p = (inter d2r r2d x y).h2p := by simp only [inter, gOf_symm y.chroma x.chroma]
theorem inter_h2p_swap : (inter d2r r2d y x).h2p = (inter d2r r2d x y).h1p := by simp only [inter, gOf_symm y.chroma x.chroma]
/-- ΔL′ antisymmetric -/
theorem inter_dL_swap : (inter d2r r2d y x).dL = -(inter d2r r2d x y).dL := by simp only [inter]; ring
/-- ΔC′ antisymmetric -/
theorem inter_dC_swap : (inter d2r r2d y x).dC = -(inter d2r r2d x y).dC := by
  simp only [inter, gOf_symm y.chroma x.chroma]; ring
/-- L̄′ symmetric -/
theorem inter_lBar_swap : (inter d2r r2d y x).lBar = (inter d2r r2d x y).lBar := by simp only [inter, add_comm y.l x.l]
/-- C̄′ symmetric -/
theorem inter_cBarP_swap : (inter d2r r2d y x).cBarP = (inter d2r r2d x y).cBarP := by
  simp only [inter, gOf_symm y.chroma x.chroma, lit2]; ring
theorem inter_dh_eq : (inter d2r r2d x y).dh = deltaHPrime (inter d2r r2d x y).c1p (inter d2r r2d x y).c2p (inter d2r r2d x y).h1p (inter d2r r2d x y).h2p := rfl
theorem inter_dH_eq : (inter d2r r2d x y).dH = bigDeltaH d2r (inter d2r r2d x y).c1p (inter d2r r2d x y).c2p (inter d2r r2d x y).dh := rfl
theorem inter_hBar_eq : (inter d2r r2d x y).hBar = hBarPrime (inter d2r r2d x y).c1p (inter d2r r2d x y).c2p (inter d2r r2d x y).h1p (inter d2r r2d x y).h2p := rfl
/-- Δh′ antisymmetric (on the colours) -/
theorem inter_dh_swap : (inter d2r r2d y x).dh = -(inter d2r r2d x y).dh := by
  rw [inter_dh_eq d2r r2d y x, inter_dh_eq d2r r2d x y, inter_c1p_swap d2r r2d x y, inter_c2p_swap d2r r2d x y, inter_h1p_swap d2r r2d x y,
    inter_h2p_swap d2r r2d x y]
  exact deltaHPrime_antisymm ..
/-- ΔH′ antisymmetric (on the colours) -/
theorem inter_dH_swap : (inter d2r r2d y x).dH = -(inter d2r r2d x y).dH := by
  rw [inter_dH_eq d2r r2d y x, inter_dH_eq d2r r2d x y, inter_dh_swap d2r r2d x y, inter_c1p_swap d2r r2d x y, inter_c2p_swap d2r r2d x y]
  exact bigDeltaH_antisymm ..
/-- h̄′ symmetric (on the colours) -/
theorem inter_hBar_swap : (inter d2r r2d y x).hBar = (inter d2r r2d x y).hBar := by
  rw [inter_hBar_eq d2r r2d y x, inter_hBar_eq d2r r2d x y, inter_c1p_swap d2r r2d x y, inter_c2p_swap d2r r2d x y, inter_h1p_swap d2r r2d x y,
    inter_h2p_swap d2r r2d x y]
  exact hBarPrime_symm ..
end swap

theorem ciede2000With_unfold (d2r r2d : ℝ) (x y : LabColorDiff ℝ) :
    ciede2000With d2r r2d x y =
      combine (inter d2r r2d x y).dL (inter d2r r2d x y).dC (inter d2r r2d x y).dH (sL (inter d2r r2d x y).lBar) (sC (inter d2r r2d x y).cBarP)
        (sH (inter d2r r2d x y).cBarP (bigT d2r (inter d2r r2d x y).hBar)) (rT d2r (inter d2r r2d x y).cBarP (inter d2r r2d x y).hBar) := rfl

/-- **CIEDE2000 is symmetric: `d c₁ c₂ = d c₂ c₁` for every pair** (any `LabColorDiff`s, from Lab or from Lch; any degree/radian
    factors).  Stronger than the property asks: no hypothesis `|h₂′−h₁′| ≠ 180` is needed, because the `≤ 180` arm is taken from both
    sides and gives +180 / −180. -/
theorem ciede2000With_symm (d2r r2d : ℝ) (x y : LabColorDiff ℝ) : ciede2000With d2r r2d x y = ciede2000With d2r r2d y x := by
  rw [ciede2000With_unfold d2r r2d x y, ciede2000With_unfold d2r r2d y x, inter_dL_swap d2r r2d x y, inter_dC_swap d2r r2d x y,
    inter_dH_swap d2r r2d x y, inter_lBar_swap d2r r2d x y, inter_cBarP_swap d2r r2d x y, inter_hBar_swap d2r r2d x y, combine_neg]
theorem ciede2000_symm (x y : LabColorDiff ℝ) : ciede2000 x y = ciede2000 y x := ciede2000With_symm ..
/-- the form the property states it in (hypothesis unused) -/
theorem ciede2000_symm_off_180 (d2r r2d : ℝ) (x y : LabColorDiff ℝ)
    (_h : |(inter d2r r2d x y).h2p - (inter d2r r2d x y).h1p| ≠ 180) : ciede2000With d2r r2d x y = ciede2000With d2r r2d y x :=
  ciede2000With_symm ..
/-- non-vacuity of that hypothesis, and of the exclusion: two chromatic colours whose hues are exactly 180° apart still have
    antisymmetric Δh′ (+180 / −180), so nothing is lost there -/
example : deltaHPrime (1:ℝ) 1 0 180 = 180 ∧ deltaHPrime (1:ℝ) 1 180 0 = -180 := by
  constructor
  · rw [deltaHPrime_direct (by norm_num) (by norm_num)]; norm_num
  · rw [deltaHPrime_direct (by norm_num) (by norm_num)]; norm_num
/-- … while the formula itself jumps there as a function of the hues: just beyond 180° the wrap arm gives ≈ −180 instead of +180 -/
example : deltaHPrime (1:ℝ) 1 0 181 = -179 := by
  rw [deltaHPrime_minus (by norm_num) (by rw [abs_of_pos] <;> norm_num) (by norm_num)]; norm_num

/-- **≥ 0** -/
theorem ciede2000With_nonneg (d2r r2d : ℝ) (x y : LabColorDiff ℝ) : 0 ≤ ciede2000With d2r r2d x y := by
  rw [ciede2000With_unfold]; simp only [combine, RealScalar.sqrt_eq]; exact Real.sqrt_nonneg _
theorem ciede2000_nonneg (x y : LabColorDiff ℝ) : 0 ≤ ciede2000 x y := ciede2000With_nonneg ..

/-- **`d c c = 0`** -/
theorem ciede2000With_self (d2r r2d : ℝ) (x : LabColorDiff ℝ) : ciede2000With d2r r2d x x = 0 := by
  have hdL : (inter d2r r2d x x).dL = 0 := by simp only [inter]; ring
  have hdC : (inter d2r r2d x x).dC = 0 := by simp only [inter]; ring
  have hdh : (inter d2r r2d x x).dh = 0 := by
    rw [inter_dh_eq]
    by_cases hc : (inter d2r r2d x x).c1p = 0 ∨ (inter d2r r2d x x).c2p = 0
    · exact deltaHPrime_achrom hc
    · have e : (inter d2r r2d x x).h2p = (inter d2r r2d x x).h1p := rfl
      rw [deltaHPrime_direct hc (by rw [e, sub_self, abs_zero]; norm_num), e, sub_self]
  have hdH : (inter d2r r2d x x).dH = 0 := by
    rw [inter_dH_eq, hdh]; simp only [bigDeltaH, RealScalar.sin_eq, zero_div, zero_mul, Real.sin_zero, mul_zero]
  rw [ciede2000With_unfold, hdL, hdC, hdH]
  simp only [combine, RealScalar.sqrt_eq, zero_div, mul_zero, add_zero, Real.sqrt_zero]
theorem ciede2000_self (x : LabColorDiff ℝ) : ciede2000 x x = 0 := ciede2000With_self ..

/-- the improved variant inherits all three laws -/
theorem improvedCiede2000_laws (x y : LabColorDiff ℝ) :
    0 ≤ improvedOfCiede (ciede2000 x y) ∧ improvedOfCiede (ciede2000 x y) = improvedOfCiede (ciede2000 y x) ∧ improvedOfCiede (ciede2000 x x) = 0 := by
  refine ⟨?_, by rw [ciede2000_symm], ?_⟩
  · exact mul_nonneg (by norm_num) (Real.rpow_nonneg (ciede2000_nonneg x y) _)
  · rw [ciede2000_self]; show (1.43:ℝ) * (0:ℝ) ^ (0.7:ℝ) = 0; rw [Real.zero_rpow (by norm_num)]; norm_num

/-! ## model = the Sharma–Wu–Dalal reference formula -/

section spec
open Spec.Ciede2000

theorem cosd_eq (x : ℝ) : Real.cos (x * (Real.pi / 180)) = cosd x := by unfold cosd; congr 1; ring
theorem sind_eq (x : ℝ) : Real.sin (x * (Real.pi / 180)) = sind x := by unfold sind; congr 1; ring

/-- eq. (2): `hypot(a, b)` is C* -/
theorem hypot_eq_Cstar (l a b : ℝ) : hypot a b = Cstar ⟨l, a, b⟩ := by
  unfold hypot Cstar; simp only [RealScalar.sqrt_eq]; congr 1; ring
/-- eq. (3), (4) -/
theorem gOf_eq_G (l1 a1 b1 l2 a2 b2 : ℝ) : gOf (hypot a1 b1) (hypot a2 b2) = G ⟨l1, a1, b1⟩ ⟨l2, a2, b2⟩ := by
  unfold G Cbar
  simp only [gOf, powi7_eq, tf7_eq, RealScalar.sqrt_eq, hypot_eq_Cstar l1 a1 b1, hypot_eq_Cstar l2 a2 b2, lit1, lit2]
/-- eq. (5) -/
theorem aPrime_eq (g l a b : ℝ) : aPrime g a = a' g ⟨l, a, b⟩ := by unfold aPrime a'; simp only [lit1]; ring
/-- eq. (6) -/
theorem cPrime_eq (g l a b : ℝ) : cPrime (aPrime g a) b = C' g ⟨l, a, b⟩ := by
  unfold cPrime C'; rw [aPrime_eq g l a b]; simp only [RealScalar.sqrt_eq]; congr 1; ring
/-- eq. (7), both conventions: `h′ = 0` at `a′ = b = 0`, otherwise the angle in [0°, 360°) -/
theorem calcHPrime_eq (g l a b : ℝ) : calcHPrime (180 / Real.pi) b (aPrime g a) = h' g ⟨l, a, b⟩ := by
  rw [aPrime_eq g l a b]
  unfold h' atan2d
  have e : Complex.arg ⟨a' g ⟨l, a, b⟩, b⟩ * (180 / Real.pi) = Complex.arg ⟨a' g ⟨l, a, b⟩, b⟩ * 180 / Real.pi := by ring
  simp only [calcHPrime, eqv_iff, lit0, lit360, RealScalar.atan2_eq, e]
/-- eq. (10): the code's test `h₂′ ≤ h₁′` selects the same arm as the paper's `(h₂′ − h₁′) > 180` / `< −180` -/
theorem deltaHPrime_eq_spec (c1 c2 h1 h2 : ℝ) : deltaHPrime c1 c2 h1 h2 = Δh' c1 c2 h1 h2 := by
  unfold Δh'
  by_cases hc : c1 = 0 ∨ c2 = 0
  · rw [deltaHPrime_achrom hc, if_pos (mul_eq_zero.mpr hc)]
  · have hm : ¬ c1 * c2 = 0 := fun h => hc (mul_eq_zero.mp h)
    rw [if_neg hm]
    by_cases ha : |h2 - h1| ≤ 180
    · rw [deltaHPrime_direct hc ha, if_pos ha]
    · rw [if_neg ha]
      by_cases hle : h2 ≤ h1
      · have hn : ¬ (h2 - h1 > 180) := by intro h; linarith
        rw [deltaHPrime_plus hc ha hle, if_neg hn]
      · have hlt : h1 < h2 := not_le.mp hle
        have hgt : h2 - h1 > 180 := by
          rw [not_le, abs_of_pos (by linarith)] at ha; exact ha
        rw [deltaHPrime_minus hc ha hle, if_pos hgt]
/-- eq. (14), all four cases -/
theorem hBarPrime_eq_spec (c1 c2 h1 h2 : ℝ) : hBarPrime c1 c2 h1 h2 = hbar' c1 c2 h1 h2 := by
  unfold hbar'
  by_cases hc : c1 = 0 ∨ c2 = 0
  · rw [hBarPrime_achrom hc, if_pos (mul_eq_zero.mpr hc)]
  · have hm : ¬ c1 * c2 = 0 := fun h => hc (mul_eq_zero.mp h)
    rw [if_neg hm]
    by_cases ha : |h2 - h1| ≤ 180
    · rw [hBarPrime_mean hc ha, if_pos (by rwa [abs_sub_comm])]
    · rw [if_neg (by rwa [abs_sub_comm])]
      by_cases hs : h1 + h2 < 360
      · rw [hBarPrime_wrapLo hc ha hs, if_pos hs]
      · rw [hBarPrime_wrapHi hc ha hs, if_neg hs]
/-- eq. (11) -/
theorem bigDeltaH_eq (c1 c2 dh : ℝ) : bigDeltaH (Real.pi / 180) c1 c2 dh = 2 * Real.sqrt (c1 * c2) * sind (dh / 2) := by
  simp only [bigDeltaH, RealScalar.sqrt_eq, RealScalar.sin_eq, lit2, sind_eq]
/-- eq. (15) -/
theorem bigT_eq (hb : ℝ) : bigT (Real.pi / 180) hb = T hb := by
  unfold T
  simp only [bigT, RealScalar.cos_eq, cosd_eq, lit1, lit2, lit3, lit4, lit6, lit30, lit63]
  rw [mul_comm hb 2, mul_comm hb 3, mul_comm hb 4]
/-- eq. (16) -/
theorem deltaTheta_eq (hb : ℝ) : deltaTheta hb = Δθ hb := by
  unfold Δθ
  simp only [deltaTheta, RealScalar.exp_eq, lit30, lit275, lit25]
  rw [show -((hb - 275) / 25 * ((hb - 275) / 25)) = -((hb - 275) / 25) ^ 2 by ring]
/-- eq. (17) -/
theorem rC_eq (cb : ℝ) : rC cb = R_C cb := by
  unfold R_C; simp only [rC, powi7_eq, tf7_eq, RealScalar.sqrt_eq, lit2]
/-- eq. (18) -/
theorem sL_eq (lb : ℝ) : sL lb = S_L lb := by
  unfold S_L
  simp only [sL, RealScalar.sqrt_eq, lit1, lit50, lit20]
  rw [show (lb - 50) * (lb - 50) + 20 = 20 + (lb - 50) ^ 2 by ring]; ring
/-- eq. (19), (20) -/
theorem sC_eq (cb : ℝ) : sC cb = S_C cb := by unfold S_C; simp only [sC, lit1]
theorem sH_eq (cb t : ℝ) : sH cb t = S_H cb t := by unfold S_H; simp only [sH, lit1]
/-- eq. (21) -/
theorem rT_eq (cb hb : ℝ) : rT (Real.pi / 180) cb hb = R_T cb hb := by
  unfold R_T
  simp only [rT, rC_eq, deltaTheta_eq, RealScalar.sin_eq, lit2, sind_eq]; ring
/-- eq. (22) -/
theorem combine_eq (dL dC dH sl sc sh rt : ℝ) :
    combine dL dC dH sl sc sh rt = Real.sqrt ((dL / sl) ^ 2 + (dC / sc) ^ 2 + (dH / sh) ^ 2 + rt * (dC / sc) * (dH / sh)) := by
  simp only [combine, lit1, RealScalar.sqrt_eq]; congr 1; ring

/-- **`get_ciede2000_difference` (as repaired) computes the Sharma–Wu–Dalal ΔE₀₀ for every pair of L\*a\*b\* colours** — zero chroma,
    hues straddling 0°/360° and hue differences of exactly 180° included — when the degree/radian factors are read exactly. -/
theorem ciede2000_eq_spec (l1 a1 b1 l2 a2 b2 : ℝ) :
    ciede2000With (Real.pi / 180) (180 / Real.pi) (fromLab l1 a1 b1) (fromLab l2 a2 b2) = ΔE₀₀ ⟨l1, a1, b1⟩ ⟨l2, a2, b2⟩ := by
  have hg : gOf (hypot a1 b1) (hypot a2 b2) = G ⟨l1, a1, b1⟩ ⟨l2, a2, b2⟩ := gOf_eq_G ..
  rw [ciede2000With_unfold, inter_dH_eq, inter_dh_eq, inter_hBar_eq]
  simp only [inter, fromLab, hg, cPrime_eq _ l1 a1 b1, cPrime_eq _ l2 a2 b2, calcHPrime_eq _ l1 a1 b1, calcHPrime_eq _ l2 a2 b2,
    deltaHPrime_eq_spec, hBarPrime_eq_spec, bigDeltaH_eq, bigT_eq, sL_eq, sC_eq, sH_eq, rT_eq, combine_eq, lit2]
  rfl
/-- hence the reference formula itself is symmetric for every pair -/
theorem ciede2000_symm_spec (c₁ c₂ : Lab) : ΔE₀₀ c₁ c₂ = ΔE₀₀ c₂ c₁ := by
  obtain ⟨l1, a1, b1⟩ := c₁; obtain ⟨l2, a2, b2⟩ := c₂
  rw [← ciede2000_eq_spec, ← ciede2000_eq_spec]; exact ciede2000With_symm ..
end spec

/-! ## the radicand is non-negative: the square root is real for every input -/

theorem rC_bounds (cb : ℝ) (h : 0 ≤ cb) : 0 ≤ rC cb ∧ rC cb ≤ 2 := by
  simp only [rC, powi7_eq, tf7_eq, RealScalar.sqrt_eq, lit2]
  have h7 : 0 ≤ cb ^ 7 := pow_nonneg h 7
  have hq : cb ^ 7 / (cb ^ 7 + 25 ^ 7) ≤ 1 := by rw [div_le_one (by positivity)]; linarith [show (0:ℝ) < 25 ^ 7 by norm_num]
  have hs : Real.sqrt (cb ^ 7 / (cb ^ 7 + 25 ^ 7)) ≤ 1 := by rw [← Real.sqrt_one]; exact Real.sqrt_le_sqrt hq
  exact ⟨by positivity, by linarith⟩
/-- |R_T| ≤ 2 -/
theorem rT_bounds (d2r cb hb : ℝ) (h : 0 ≤ cb) : -2 ≤ rT d2r cb hb ∧ rT d2r cb hb ≤ 2 := by
  obtain ⟨h0, h2⟩ := rC_bounds cb h
  simp only [rT, RealScalar.sin_eq]
  have hs1 := Real.sin_le_one (2.0 * deltaTheta hb * d2r)
  have hs2 := Real.neg_one_le_sin (2.0 * deltaTheta hb * d2r)
  constructor <;> nlinarith
theorem quad_nonneg (x y z r : ℝ) (h1 : -2 ≤ r) (h2 : r ≤ 2) : 0 ≤ x ^ 2 + y ^ 2 + z ^ 2 + r * y * z := by
  nlinarith [sq_nonneg x, mul_nonneg (by linarith : (0:ℝ) ≤ 2 + r) (sq_nonneg (y + z)), mul_nonneg (by linarith : (0:ℝ) ≤ 2 - r) (sq_nonneg (y - z))]
/-- the argument of the final `sqrt` is ≥ 0 for every pair (so `d` is the genuine root of the quadratic form, never `sqrt` of a negative) -/
theorem ciede2000_radicand_nonneg (d2r r2d : ℝ) (x y : LabColorDiff ℝ) :
    ∃ q : ℝ, 0 ≤ q ∧ ciede2000With d2r r2d x y = Real.sqrt q := by
  have hcb : 0 ≤ (inter d2r r2d x y).cBarP := by
    simp only [inter, cPrime, RealScalar.sqrt_eq, lit2]; have := Real.sqrt_nonneg; positivity
  obtain ⟨h1, h2⟩ := rT_bounds d2r _ (inter d2r r2d x y).hBar hcb
  rw [ciede2000With_unfold, combine_eq]
  exact ⟨_, quad_nonneg _ _ _ _ h1 h2, rfl⟩

/-! ## the mean hue stays in [0°, 360°) — and the pre-repair rule did not (finding D7) -/

/-- for hues in [0, 360) and two chromatic colours, `h̄′ ∈ [0, 360)` -/
theorem hBarPrime_range (c1 c2 h1 h2 : ℝ) (hc : ¬(c1 = 0 ∨ c2 = 0)) (r1 : 0 ≤ h1 ∧ h1 < 360) (r2 : 0 ≤ h2 ∧ h2 < 360) :
    0 ≤ hBarPrime c1 c2 h1 h2 ∧ hBarPrime c1 c2 h1 h2 < 360 := by
  by_cases ha : |h2 - h1| ≤ 180
  · rw [hBarPrime_mean hc ha]; constructor <;> linarith [r1.1, r1.2, r2.1, r2.2]
  · by_cases hs : h1 + h2 < 360
    · rw [hBarPrime_wrapLo hc ha hs]; constructor <;> linarith [r1.1, r1.2, r2.1, r2.2]
    · rw [hBarPrime_wrapHi hc ha hs]; constructor <;> linarith [r1.1, r1.2, r2.1, r2.2, not_lt.mp hs]
/-- eq. (7) yields an angle in [0°, 360°) for every `(b, a′)` -/
theorem calcHPrime_range (b ap : ℝ) : 0 ≤ calcHPrime (180 / Real.pi) b ap ∧ calcHPrime (180 / Real.pi) b ap < 360 := by
  have hpi := Real.pi_pos
  have hk : (0:ℝ) < 180 / Real.pi := div_pos (by norm_num) hpi
  have e : Real.pi * (180 / Real.pi) = 180 := by field_simp
  have h1 : -180 < Complex.arg ⟨ap, b⟩ * (180 / Real.pi) := by
    have := mul_lt_mul_of_pos_right (Complex.neg_pi_lt_arg ⟨ap, b⟩) hk; rw [neg_mul, e] at this; exact this
  have h2 : Complex.arg ⟨ap, b⟩ * (180 / Real.pi) ≤ 180 := by
    have := mul_le_mul_of_nonneg_right (Complex.arg_le_pi ⟨ap, b⟩) hk.le; rw [e] at this; exact this
  simp only [calcHPrime, eqv_iff, lit0, lit360, RealScalar.atan2_eq]
  split_ifs with h0 hneg
  · norm_num
  · constructor <;> linarith
  · constructor <;> linarith [not_lt.mp hneg]
/-- so the mean hue the repaired code hands to `T` and `Δθ` lies in [0°, 360°) for every chromatic pair -/
theorem ciede2000_mean_hue_in_range (d2r : ℝ) (x y : LabColorDiff ℝ)
    (hc : ¬((inter d2r (180 / Real.pi) x y).c1p = 0 ∨ (inter d2r (180 / Real.pi) x y).c2p = 0)) :
    0 ≤ (inter d2r (180 / Real.pi) x y).hBar ∧ (inter d2r (180 / Real.pi) x y).hBar < 360 := by
  rw [inter_hBar_eq]
  exact hBarPrime_range _ _ _ _ hc (calcHPrime_range ..) (calcHPrime_range ..)
/-- D7: the three-arm rule `(h₁′+h₂′+360)/2` is a full turn too large exactly when the hues are more than 180° apart and sum to ≥ 360° -/
theorem d7_old_mean_hue_off_by_360 (c1 c2 h1 h2 : ℝ) (hc : ¬(c1 = 0 ∨ c2 = 0)) (ha : ¬ |h2 - h1| ≤ 180) (hs : ¬ h1 + h2 < 360) :
    hBarPrimeOld c1 c2 h1 h2 = hBarPrime c1 c2 h1 h2 + 360 := by
  rw [hBarPrimeOld_wrap hc ha, hBarPrime_wrapHi hc ha hs]; ring
/-- … `T` does not notice (every term is 360°-periodic) … -/
theorem bigT_periodic (hb : ℝ) : bigT (Real.pi / 180) (hb + 360) = bigT (Real.pi / 180) hb := by
  simp only [bigT, RealScalar.cos_eq, lit1, lit2, lit3, lit4, lit6, lit30, lit63]
  rw [show (hb + 360 - 30) * (Real.pi / 180) = (hb - 30) * (Real.pi / 180) + 2 * Real.pi by ring,
      show (hb + 360) * 2 * (Real.pi / 180) = hb * 2 * (Real.pi / 180) + (2:ℕ) * (2 * Real.pi) by push_cast; ring,
      show ((hb + 360) * 3 + 6) * (Real.pi / 180) = (hb * 3 + 6) * (Real.pi / 180) + (3:ℕ) * (2 * Real.pi) by push_cast; ring,
      show ((hb + 360) * 4 - 63) * (Real.pi / 180) = (hb * 4 - 63) * (Real.pi / 180) + (4:ℕ) * (2 * Real.pi) by push_cast; ring,
      Real.cos_add_two_pi, Real.cos_add_nat_mul_two_pi, Real.cos_add_nat_mul_two_pi, Real.cos_add_nat_mul_two_pi]
/-- … but the Gaussian `Δθ` of the rotation term does: it is *not* 360°-periodic (equal only at the single point h̄′ = 95°) -/
theorem deltaTheta_not_periodic (hb : ℝ) : deltaTheta (hb + 360) = deltaTheta hb ↔ hb = 95 := by
  simp only [deltaTheta, RealScalar.exp_eq, lit30, lit275, lit25]
  constructor
  · intro h
    have h' := Real.exp_injective (mul_left_cancel₀ (by norm_num : (30:ℝ) ≠ 0) h)
    nlinarith
  · rintro rfl; norm_num
/-- kernel-checked witness (hues 10° and 355°): the old rule's mean hue 362.5° is outside [0°, 360°); the repaired one gives 2.5° -/
theorem d7_witness : hBarPrimeOld (1:ℝ) 1 10 355 = 362.5 ∧ hBarPrime (1:ℝ) 1 10 355 = 2.5 := by
  have hc : ¬((1:ℝ) = 0 ∨ (1:ℝ) = 0) := by norm_num
  have ha : ¬ |(355:ℝ) - 10| ≤ 180 := by rw [abs_of_pos (by norm_num)]; norm_num
  constructor
  · rw [hBarPrimeOld_wrap hc ha]; norm_num
  · rw [hBarPrime_wrapHi hc ha (by norm_num)]; norm_num

end C09
