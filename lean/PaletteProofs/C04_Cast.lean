/-
  C04 — zero-copy casts are lossless, length-exact and layout-sound.

  Property theorems about `PaletteModel/Cast.lean` (the raw-parts model of `palette/src/cast/array.rs`, `uint.rs`,
  `packed.rs` and the cast traits) and about the type table `PaletteModel/Gen/Types.lean`, which `tools/extract.py`
  regenerates from the colour struct definitions on every run.

  Every statement about lengths and capacities is for *every* channel count `n` (with `0 < n` where the Rust code would
  otherwise divide by zero), every length, every capacity and every memory content: plain `Nat` arithmetic, no bound.
  The statements about the castable types are decided on the extracted table.

  Outside the model (DESIGN §2.9-3, Rust semantics): that re-typing the pointer is sound.  The crate asserts size and
  alignment before every pointer cast; the harness reports both for every type (`c04layout` lines).
-/
import PaletteModel.Cast

namespace C04
open Cast

variable {α : Type}

/-! ## colour ↔ array and colour ↔ uint: nothing changes -/

/-- `into_array_*`, `from_array_*`, `into_uint_*`, `from_uint_*` on buffers: same address, length, capacity and memory -/
theorem sameUnit_eq (b : Buf α) : sameUnit b = b := rfl

/-- uint casts are the identity on the bit pattern, for every width (8 … 128 in the crate) -/
theorem fromUint_intoUint {w : Nat} (c : BitVec w) : fromUint (intoUint c) = c := rfl
theorem intoUint_fromUint {w : Nat} (u : BitVec w) : intoUint (fromUint u) = u := rfl
theorem intoUint_injective {w : Nat} (a b : BitVec w) (h : intoUint a = intoUint b) : a = b := h

/-! ## colours → components: lengths and capacities scale exactly by `n`, nothing else changes -/

theorem intoComponents_len (n : Nat) (b : Buf α) : (intoComponents n b).len = n * b.len := Nat.mul_comm _ _
theorem intoComponents_cap (n : Nat) (b : Buf α) : (intoComponents n b).cap = n * b.cap := Nat.mul_comm _ _
theorem intoComponents_id (n : Nat) (b : Buf α) : (intoComponents n b).id = b.id := rfl
theorem intoComponents_mem (n : Nat) (b : Buf α) : (intoComponents n b).mem = b.mem := rfl

/-- a well-formed buffer of `n`-channel colours becomes a well-formed buffer of components -/
theorem intoComponents_wf (n : Nat) (b : Buf α) (h : WF n b) : WF 1 (intoComponents n b) := by
  obtain ⟨h1, h2⟩ := h
  refine ⟨?_, Nat.mul_le_mul_right n h2⟩
  show b.mem.length = 1 * (b.len * n)
  rw [h1, Nat.one_mul, Nat.mul_comm]

/-! ## components → colours, vectors: accepted exactly on multiples; length is tested before capacity -/

theorem tryFromComponentVec_ok_iff (n : Nat) (b : Buf α) :
    (∃ r, tryFromComponentVec n b = .ok r) ↔ n ∣ b.len ∧ n ∣ b.cap := by
  unfold tryFromComponentVec
  rw [Nat.dvd_iff_mod_eq_zero, Nat.dvd_iff_mod_eq_zero]
  by_cases h1 : b.len % n = 0 <;> by_cases h2 : b.cap % n = 0 <;> simp [h1, h2]

/-- on success: same address and memory, `len / n`, `cap / n`, and the division is exact -/
theorem tryFromComponentVec_ok_spec (n : Nat) (b r : Buf α) (h : tryFromComponentVec n b = .ok r) :
    r.id = b.id ∧ r.mem = b.mem ∧ r.len = b.len / n ∧ r.cap = b.cap / n ∧ n * r.len = b.len ∧ n * r.cap = b.cap := by
  unfold tryFromComponentVec at h
  by_cases h1 : b.len % n = 0 <;> by_cases h2 : b.cap % n = 0 <;> simp [h1, h2] at h
  subst h
  exact ⟨rfl, rfl, rfl, rfl, Nat.mul_div_cancel' (Nat.dvd_of_mod_eq_zero h1), Nat.mul_div_cancel' (Nat.dvd_of_mod_eq_zero h2)⟩

/-- on rejection the very same vector (address, length, capacity, content) comes back inside the error;
    the kind is `LengthMismatch` whenever the length is off — also when the capacity is off too — and
    `CapacityMismatch` only when the length is fine -/
theorem tryFromComponentVec_reject (n : Nat) (b : Buf α) (h : ¬ (n ∣ b.len ∧ n ∣ b.cap)) :
    (¬ n ∣ b.len → tryFromComponentVec n b = .err .lengthMismatch (some b)) ∧
    (n ∣ b.len → tryFromComponentVec n b = .err .capacityMismatch (some b)) := by
  unfold tryFromComponentVec
  rw [Nat.dvd_iff_mod_eq_zero, Nat.dvd_iff_mod_eq_zero] at h
  rw [Nat.dvd_iff_mod_eq_zero]
  by_cases h1 : b.len % n = 0 <;> by_cases h2 : b.cap % n = 0 <;> simp_all

/-- the three outcomes are exhaustive: a vector cast never panics and never returns another error kind -/
theorem tryFromComponentVec_cases (n : Nat) (b : Buf α) :
    (∃ r, tryFromComponentVec n b = .ok r) ∨ tryFromComponentVec n b = .err .lengthMismatch (some b) ∨
      tryFromComponentVec n b = .err .capacityMismatch (some b) := by
  unfold tryFromComponentVec
  by_cases h1 : b.len % n = 0 <;> by_cases h2 : b.cap % n = 0 <;> simp [h1, h2]

/-! ## components → colours, slices and boxed slices -/

theorem tryFromComponentSlice_ok_iff (n : Nat) (b : Buf α) :
    (∃ r, tryFromComponentSlice n b = .ok r) ↔ n ∣ b.len := by
  unfold tryFromComponentSlice
  rw [Nat.dvd_iff_mod_eq_zero]
  by_cases h1 : b.len % n = 0 <;> simp [h1]

theorem tryFromComponentSlice_ok_spec (n : Nat) (b r : Buf α) (h : tryFromComponentSlice n b = .ok r) :
    r.id = b.id ∧ r.mem = b.mem ∧ r.len = b.len / n ∧ n * r.len = b.len := by
  unfold tryFromComponentSlice at h
  by_cases h1 : b.len % n = 0 <;> simp [h1] at h
  subst h
  exact ⟨rfl, rfl, rfl, Nat.mul_div_cancel' (Nat.dvd_of_mod_eq_zero h1)⟩

theorem tryFromComponentSlice_reject (n : Nat) (b : Buf α) (h : ¬ n ∣ b.len) :
    tryFromComponentSlice n b = .err .slice none := by
  unfold tryFromComponentSlice
  rw [Nat.dvd_iff_mod_eq_zero] at h
  simp [h]

theorem tryFromComponentSliceBox_ok_iff (n : Nat) (b : Buf α) :
    (∃ r, tryFromComponentSliceBox n b = .ok r) ↔ n ∣ b.len := by
  unfold tryFromComponentSliceBox tryFromComponentSlice
  rw [Nat.dvd_iff_mod_eq_zero]
  by_cases h1 : b.len % n = 0 <;> simp [h1]

/-- a boxed slice gives the same result as the borrowed slice when it is accepted … -/
theorem tryFromComponentSliceBox_ok (n : Nat) (b : Buf α) (h : n ∣ b.len) :
    tryFromComponentSliceBox n b = tryFromComponentSlice n b := by
  unfold tryFromComponentSliceBox tryFromComponentSlice
  rw [Nat.dvd_iff_mod_eq_zero] at h
  simp [h]

/-- … and is handed back unchanged when it is not; the inner `unwrap` is unreachable (no panic) -/
theorem tryFromComponentSliceBox_reject (n : Nat) (b : Buf α) (h : ¬ n ∣ b.len) :
    tryFromComponentSliceBox n b = .err .boxedSlice (some b) := by
  unfold tryFromComponentSliceBox
  rw [Nat.dvd_iff_mod_eq_zero] at h
  simp [h]

theorem tryFromComponentSliceBox_no_panic (n : Nat) (b : Buf α) : tryFromComponentSliceBox n b ≠ .panic := by
  unfold tryFromComponentSliceBox tryFromComponentSlice
  by_cases h1 : b.len % n = 0 <;> simp [h1]

/-! ## the `.unwrap()` variants panic exactly on the rejected buffers -/

theorem unwrap_vec_panic_iff (n : Nat) (b : Buf α) :
    unwrap (tryFromComponentVec n b) = .panic ↔ ¬ (n ∣ b.len ∧ n ∣ b.cap) := by
  unfold tryFromComponentVec
  rw [Nat.dvd_iff_mod_eq_zero, Nat.dvd_iff_mod_eq_zero]
  by_cases h1 : b.len % n = 0 <;> by_cases h2 : b.cap % n = 0 <;> simp [h1, h2, unwrap]

theorem unwrap_slice_panic_iff (n : Nat) (b : Buf α) :
    unwrap (tryFromComponentSlice n b) = .panic ↔ ¬ n ∣ b.len := by
  unfold tryFromComponentSlice
  rw [Nat.dvd_iff_mod_eq_zero]
  by_cases h1 : b.len % n = 0 <;> simp [h1, unwrap]

theorem unwrap_ok (o : Outcome α) (r : Buf α) (h : o = .ok r) : unwrap o = .ok r := by subst h; rfl

/-! ## round trips reproduce the original: same address, length, capacity, memory -/

/-- colours → components → colours, vectors (any capacity) -/
theorem vec_roundtrip (n : Nat) (hn : 0 < n) (b : Buf α) :
    tryFromComponentVec n (intoComponents n b) = .ok b := by
  unfold tryFromComponentVec intoComponents
  simp [Nat.mul_mod_left, Nat.mul_div_cancel _ hn]

/-- components → colours → components, vectors -/
theorem vec_roundtrip_conv (n : Nat) (b r : Buf α) (h : tryFromComponentVec n b = .ok r) :
    intoComponents n r = b := by
  obtain ⟨h1, h2, _, _, h5, h6⟩ := tryFromComponentVec_ok_spec n b r h
  cases b; cases r
  simp only [intoComponents] at *
  subst h1; subst h2
  simp only [Buf.mk.injEq, true_and, and_true]
  exact ⟨by rw [Nat.mul_comm]; exact h5, by rw [Nat.mul_comm]; exact h6⟩

/-- colours → components → colours, slices and boxed slices (`cap = len`) -/
theorem slice_roundtrip (n : Nat) (hn : 0 < n) (b : Buf α) (hc : b.cap = b.len) :
    tryFromComponentSlice n (intoComponents n b) = .ok b := by
  cases b
  simp only at hc
  subst hc
  unfold tryFromComponentSlice intoComponents
  simp [Nat.mul_mod_left, Nat.mul_div_cancel _ hn]

theorem box_roundtrip (n : Nat) (hn : 0 < n) (b : Buf α) (hc : b.cap = b.len) :
    tryFromComponentSliceBox n (intoComponents n b) = .ok b := by
  rw [tryFromComponentSliceBox_ok, slice_roundtrip n hn b hc]
  exact ⟨b.len, Nat.mul_comm _ _⟩

/-- components → colours → components, slices -/
theorem slice_roundtrip_conv (n : Nat) (b r : Buf α) (hc : b.cap = b.len) (h : tryFromComponentSlice n b = .ok r) :
    intoComponents n r = b := by
  unfold tryFromComponentSlice at h
  by_cases h1 : b.len % n = 0 <;> simp [h1] at h
  subst h
  cases b
  simp only at hc h1
  subst hc
  simp only [intoComponents, Buf.mk.injEq, true_and, and_true]
  exact ⟨Nat.div_mul_cancel (Nat.dvd_of_mod_eq_zero h1), Nat.div_mul_cancel (Nat.dvd_of_mod_eq_zero h1)⟩

/-! ## fixed-size arrays by value -/

theorem intoComponentArray_ok_iff (n N M : Nat) (b : Buf α) :
    (∃ r, intoComponentArray n N M b = .ok r) ↔ N * n = M := by
  unfold intoComponentArray; by_cases h : N * n = M <;> simp [h]

theorem fromComponentArray_ok_iff (n N M : Nat) (b : Buf α) :
    (∃ r, fromComponentArray n N M b = .ok r) ↔ n ∣ N ∧ N / n = M := by
  unfold fromComponentArray
  rw [Nat.dvd_iff_mod_eq_zero]
  by_cases h1 : N % n = 0 <;> by_cases h2 : N / n = M <;> simp [h1, h2]

/-- `[C; K]` → `[T; K*n]` → `[C; K]` -/
theorem array_roundtrip (n K : Nat) (hn : 0 < n) (b : Buf α) (hl : b.len = K) (hc : b.cap = K) :
    (intoComponentArray n K (K * n) b = .ok { b with len := K * n, cap := K * n }) ∧
    fromComponentArray n (K * n) K { b with len := K * n, cap := K * n } = .ok b := by
  cases b; simp only at hl hc; subst hl; subst hc
  unfold intoComponentArray fromComponentArray
  simp [Nat.mul_mod_left, Nat.mul_div_cancel _ hn]

/-! ## what the typed views read: colour `i`, field `j` is component `n·i + j` -/

theorem fieldAt_eq_compAt (n : Nat) (b : Buf α) (i j : Nat) (hj : j < n) :
    fieldAt n b i j = compAt (intoComponents n b) (n * i + j) := by
  simp [fieldAt, compAt, intoComponents, hj]

theorem compAt_eq_fieldAt (n : Nat) (hn : 0 < n) (b : Buf α) (k : Nat) :
    compAt (intoComponents n b) k = fieldAt n b (k / n) (k % n) := by
  simp [fieldAt, compAt, intoComponents, Nat.mod_lt k hn, Nat.div_add_mod]

/-- the same for the colour side of `try_from_component_*`: field `j` of colour `i` of the result is component `n·i+j` of the input -/
theorem tryFrom_fieldAt (n : Nat) (b r : Buf α) (h : tryFromComponentVec n b = .ok r) (i j : Nat) (hj : j < n) :
    fieldAt n r i j = compAt b (n * i + j) := by
  obtain ⟨_, h2, _⟩ := tryFromComponentVec_ok_spec n b r h
  simp [fieldAt, compAt, hj, h2]

theorem colorAt_getElem? (n : Nat) (b : Buf α) (i j : Nat) :
    (colorAt n b i)[j]? = fieldAt n b i j := by
  unfold colorAt fieldAt
  rw [List.getElem?_take]
  by_cases hj : j < n <;> simp [hj, List.getElem?_drop]

/-- a well-formed buffer holds exactly `len` colours of exactly `n` components each -/
theorem colors_length (n : Nat) (b : Buf α) : (colors n b).length = b.len := by simp [colors]

theorem colorAt_length (n : Nat) (b : Buf α) (h : WF n b) (i : Nat) (hi : i < b.len) : (colorAt n b i).length = n := by
  unfold colorAt
  rw [List.length_take, List.length_drop, h.1]
  have h1 : n * (i + 1) ≤ n * b.len := Nat.mul_le_mul_left n hi
  rw [Nat.mul_add, Nat.mul_one] at h1
  omega

/-- cutting a list of `n·k` components into `k` consecutive chunks of `n` and gluing them back is the identity -/
theorem flatten_chunks (n : Nat) : ∀ (k : Nat) (l : List α), l.length = n * k →
    ((List.range k).map (fun i => (l.drop (n * i)).take n)).flatten = l := by
  intro k
  induction k with
  | zero => intro l h; simp at h; simp [h]
  | succ k ih =>
    intro l h
    have h' : (l.drop n).length = n * k := by rw [List.length_drop, h, Nat.mul_succ]; omega
    have e : ((fun i => (l.drop (n * i)).take n) ∘ Nat.succ) = fun i => ((l.drop n).drop (n * i)).take n := by
      funext i; simp [List.drop_drop, Nat.mul_succ, Nat.add_comm]
    rw [List.range_succ_eq_map, List.map_cons, List.map_map, List.flatten_cons, e, ih (l.drop n) h']
    simp

/-- the colours of a well-formed buffer, field by field in declared order, *are* the component sequence:
    what `into_component_*` exposes is the concatenation of the colours, nothing reordered, dropped or added -/
theorem colors_flatten (n : Nat) (b : Buf α) (h : WF n b) : (colors n b).flatten = b.mem := by
  unfold colors colorAt
  exact flatten_chunks n b.len b.mem h.1

theorem intoComponents_colors (n : Nat) (b : Buf α) (h : WF n b) :
    (colors n b).flatten = (intoComponents n b).mem := colors_flatten n b h

/-- and conversely the colours obtained from an accepted component vector concatenate to that vector's content -/
theorem tryFrom_colors (n : Nat) (b r : Buf α) (hb : WF 1 b) (h : tryFromComponentVec n b = .ok r) :
    (colors n r).flatten = b.mem := by
  obtain ⟨_, h2, _, _, h5, _⟩ := tryFromComponentVec_ok_spec n b r h
  unfold colors colorAt
  rw [h2]
  apply flatten_chunks
  rw [hb.1, Nat.one_mul, h5]

/-! ## the castable types (decided on the table extracted from the sources) -/

open Gen.Types in
/-- every derived colour struct, `Alpha`, `PreAlpha`, the hue newtypes and `Packed` have a fixed layout -/
theorem all_repr_fixed :
    (∀ t ∈ types, t.repr = "C" ∨ t.repr = "transparent") ∧ alpha.repr = "C" ∧ preAlpha.repr = "C" ∧
      packed.repr = "transparent" ∧ hueRepr = "C" := by decide

open Gen.Types in
/-- the channel count named in `impl_array_casts!` is the number of memory-occupying fields, and is at least 1 -/
theorem arrayLen_eq_field_count : ∀ t ∈ types, t.fields.length = t.arrayLen ∧ 1 ≤ t.arrayLen := by decide

open Gen.Types in
/-- field names are distinct, zero-sized fields are not counted, wrapped (hue) fields are memory fields, no colour has
    a field called `alpha`, and type names are unique (so `lookup` is a function) -/
theorem field_tables_sane :
    (∀ t ∈ types, t.fields.Nodup ∧ (∀ z ∈ t.zeroSized, z ∉ t.fields) ∧ (∀ w ∈ t.wrapped, w ∈ t.fields) ∧ "alpha" ∉ t.fields) ∧
      (types.map (·.name)).Nodup := by decide

open Gen.Types in
/-- every wrapped field is one of the five hue newtypes over the component type -/
theorem wrapped_fields_are_hues :
    ∀ x ∈ wrappedFieldTypes, x.2.2 ∈ hueTypes.map (· ++ "<T>") := by decide

open Gen.Types in
/-- `Alpha<C, T>` and `PreAlpha<C>`: the colour's fields in their order, then `alpha` last; one channel more -/
theorem alpha_last :
    alpha.fields = ["color", "alpha"] ∧ preAlpha.fields = ["color", "alpha"] ∧
    ∀ t ∈ types,
      fieldsOf (.alpha (.base t.name)) = some (t.fields ++ ["alpha"]) ∧
      fieldsOf (.preAlpha (.base t.name)) = some (t.fields ++ ["alpha"]) ∧
      channels (.alpha (.base t.name)) = some (t.arrayLen + 1) ∧
      channels (.preAlpha (.base t.name)) = some (t.arrayLen + 1) := by decide

/-- `NextArray`: `[T; k]` ↦ `[T; k+1]` for every `k` the macro covers -/
theorem nextLen_succ : ∀ k : Fin 17, nextLen k.val = some (k.val + 1) := by decide

open Gen.Types in
/-- every `UintCast` impl (`Luma<S, uN>`, `Packed<O, uN>`) names the unsigned integer of the same width -/
theorem uint_casts_same_width : ∀ x ∈ uintCasts, x.2.1 = x.2.2 ∧ x.2.1 ∈ [8, 16, 32, 64, 128] := by decide

open Gen.Types in
/-- the only hand-written `unsafe impl ArrayCast` are the three the model knows; `Packed` has one memory field -/
theorem manual_impls_known : manualArrayCastImpls.length = 3 ∧ packed.fields = ["color"] := by decide

/-! ## non-vacuity -/

/-- a 2-colour, 3-channel vector with capacity 5: 6 components, capacity 15, and back -/
example : let b : Buf Nat := ⟨1, 2, 5, [10, 11, 12, 20, 21, 22]⟩
    WF 3 b ∧ intoComponents 3 b = ⟨1, 6, 15, [10, 11, 12, 20, 21, 22]⟩ ∧
    tryFromComponentVec 3 (intoComponents 3 b) = .ok b ∧ colors 3 b = [[10, 11, 12], [20, 21, 22]] ∧
    fieldAt 3 b 1 2 = some 22 := by decide

/-- the crate's own test vector: 9 components, capacity 24 ↦ 3 colours, capacity 8 -/
example : tryFromComponentVec 3 (⟨7, 9, 24, List.range 9⟩ : Buf Nat) = .ok ⟨7, 3, 8, List.range 9⟩ := by decide

/-- length off and capacity off: `LengthMismatch`; only capacity off: `CapacityMismatch`; the buffer comes back -/
example : tryFromComponentVec 3 (⟨7, 4, 5, [1, 2, 3, 4]⟩ : Buf Nat) = .err .lengthMismatch (some ⟨7, 4, 5, [1, 2, 3, 4]⟩) ∧
    tryFromComponentVec 3 (⟨7, 3, 5, [1, 2, 3]⟩ : Buf Nat) = .err .capacityMismatch (some ⟨7, 3, 5, [1, 2, 3]⟩) ∧
    tryFromComponentSlice 3 (⟨7, 4, 4, [1, 2, 3, 4]⟩ : Buf Nat) = .err .slice none ∧
    tryFromComponentSliceBox 3 (⟨7, 4, 4, [1, 2, 3, 4]⟩ : Buf Nat) = .err .boxedSlice (some ⟨7, 4, 4, [1, 2, 3, 4]⟩) := by decide

example : fieldsOf (.alpha (.base "Hsl")) = some ["hue", "saturation", "lightness", "alpha"] ∧
    channels (.alpha (.base "Luma")) = some 2 ∧ channels (.preAlpha (.base "Rgb")) = some 4 ∧
    fieldsOf (.packed 4) = some ["0", "1", "2", "3"] := by decide

example : ¬ (3 ∣ 4 ∧ 3 ∣ 5) := by decide
example : (3 : Nat) ∣ 9 ∧ (3 : Nat) ∣ 24 := by decide

end C04
