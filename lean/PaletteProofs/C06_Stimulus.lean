/-
  C06 — component number-format conversion saturates, rounds to nearest and round-trips.

  Property theorems about `PaletteModel/Stimulus.lean` (the bit-for-bit model of `palette/src/stimulus.rs`).
  The model is written on Lean's `Float32`/`Float`, whose arithmetic has a kernel-transparent IEEE-754
  definition, so every finite domain below is decided by the kernel on the *same* definitions that the
  correspondence driver runs natively against the implementation.
-/
import PaletteModel.Stimulus

namespace C06
open Stim

/-! ## integer → larger integer: bit replication (all inputs, all widths) -/

theorem widenStep_eq (w n : Nat) : widenStep w n = n * (2^w + 1) := by
  unfold widenStep; rw [Nat.mul_add, Nat.mul_one]

theorem widenStep_strictMono (w : Nat) {a b : Nat} (h : a < b) : widenStep w a < widenStep w b := by
  rw [widenStep_eq, widenStep_eq]; exact Nat.mul_lt_mul_of_pos_right h (Nat.succ_pos _)

theorem widenStep_zero (w : Nat) : widenStep w 0 = 0 := by simp [widenStep]

/-- MAX ↦ MAX: `(2^w − 1)·(2^w + 1) = 2^(2w) − 1` -/
theorem widenStep_max (w : Nat) : widenStep w (2^w - 1) = 2^(2*w) - 1 := by
  have h : 0 < 2^w := Nat.pos_of_ne_zero (by simp)
  have e : 2^(2*w) = 2^w * 2^w := by rw [Nat.two_mul, Nat.pow_add]
  obtain ⟨k, hk⟩ : ∃ k, 2^w = k + 1 := ⟨2^w - 1, by omega⟩
  rw [widenStep, e, hk]
  simp only [Nat.add_sub_cancel, Nat.mul_add, Nat.add_mul, Nat.mul_one, Nat.one_mul]
  omega

theorem widenStep_lt (w n : Nat) (h : n < 2^w) : widenStep w n < 2^(2*w) := by
  have e : 2^(2*w) = 2^w * 2^w := by rw [Nat.two_mul, Nat.pow_add]
  have h1 : n + 1 ≤ 2^w := h
  have h2 : (n + 1) * 2^w ≤ 2^w * 2^w := Nat.mul_le_mul_right _ h1
  rw [widenStep, e]; rw [Nat.add_mul] at h2; omega

/-- every widening in the crate is a chain of replication steps ⇒ strictly monotone, 0 ↦ 0, MAX ↦ MAX -/
theorem widen_strictMono : ∀ (w w' : Nat), (w, w') ∈ [(8,16),(8,32),(8,64),(8,128),(16,32),(16,64),(16,128),(32,64),(32,128),(64,128)] →
    ∀ {a b : Nat}, a < b → widen w w' a < widen w w' b := by
  intro w w' hm a b h
  simp only [List.mem_cons, Prod.mk.injEq, List.mem_nil_iff, or_false] at hm
  rcases hm with ⟨rfl, rfl⟩ | ⟨rfl, rfl⟩ | ⟨rfl, rfl⟩ | ⟨rfl, rfl⟩ | ⟨rfl, rfl⟩ | ⟨rfl, rfl⟩ | ⟨rfl, rfl⟩ | ⟨rfl, rfl⟩ | ⟨rfl, rfl⟩ | ⟨rfl, rfl⟩ <;>
    simp only [widen] <;> repeat (first | exact h | apply widenStep_strictMono)

theorem widen_zero : ∀ (w w' : Nat), widen w w' 0 = 0 := by
  intro w w'; unfold widen; split <;> simp [widenStep]

theorem widen_max : ∀ (w w' : Nat), (w, w') ∈ [(8,16),(8,32),(8,64),(8,128),(16,32),(16,64),(16,128),(32,64),(32,128),(64,128)] →
    widen w w' (2^w - 1) = 2^w' - 1 := by
  intro w w' hm
  simp only [List.mem_cons, Prod.mk.injEq, List.mem_nil_iff, or_false] at hm
  rcases hm with ⟨rfl, rfl⟩ | ⟨rfl, rfl⟩ | ⟨rfl, rfl⟩ | ⟨rfl, rfl⟩ | ⟨rfl, rfl⟩ | ⟨rfl, rfl⟩ | ⟨rfl, rfl⟩ | ⟨rfl, rfl⟩ | ⟨rfl, rfl⟩ | ⟨rfl, rfl⟩ <;>
    decide +kernel

/-! ## finite domains decided on the IEEE model (kernel evaluation) -/

/-- `u8 → u16 → u8` (narrowing runs through `f32`, `round`, `clamp`) is the identity on all 256 values -/
theorem widen_narrow_u8_u16 : ∀ n : Fin 256, narrow 16 8 (widen 8 16 n.val) = n.val := by decide +kernel

/-- `u8 → f32 → u8` and `u8 → f64 → u8` are the identity on all 256 values -/
theorem u8_f32_u8 : ∀ n : Fin 256, f32ToUint 8 (uintToF32 8 n.val) = n.val := by decide +kernel
theorem u8_f64_u8 : ∀ n : Fin 256, f64ToUint 8 (uintToF64 8 n.val) = n.val := by decide +kernel

/-- integer → float maps 0 ↦ 0.0 and MAX ↦ exactly 1.0, all five source widths, both float types -/
theorem uint_to_float_ends : ∀ w ∈ [8, 16, 32, 64, 128],
    (uintToF32 w 0).toBits = 0 ∧ (uintToF32 w (2^w - 1)).toBits = 0x3f800000 ∧
    (uintToF64 w 0).toBits = 0 ∧ (uintToF64 w (2^w - 1)).toBits = 0x3ff0000000000000 := by decide +kernel

/-- float → integer at the special values: ±0, 1, +∞, NaN ↦ 0 / MAX; −∞ and the D4 witnesses −800, −1e5 ↦ 0 -/
theorem f32_to_uint_specials : ∀ w ∈ [8, 16, 32, 64, 128],
    f32ToUint w (Float32.ofBits 0x00000000) = 0 ∧ f32ToUint w (Float32.ofBits 0x80000000) = 0 ∧
    f32ToUint w (Float32.ofBits 0x3f800000) = 2^w - 1 ∧ f32ToUint w (Float32.ofBits 0x7f800000) = 2^w - 1 ∧
    f32ToUint w (Float32.ofBits 0x7fc00000) = 2^w - 1 ∧ f32ToUint w (Float32.ofBits 0xff800000) = 0 ∧
    f32ToUint w (Float32.ofBits 0xc4480000) = 0 ∧ f32ToUint w (Float32.ofBits 0xc7c35000) = 0 ∧
    f32ToUint w (Float32.ofBits 0x7f7fffff) = 2^w - 1 ∧ f32ToUint w (Float32.ofBits 0xff7fffff) = 0 := by decide +kernel

theorem f64_to_uint_specials : ∀ w ∈ [8, 16, 32, 64, 128],
    f64ToUint w (Float.ofBits 0x0000000000000000) = 0 ∧ f64ToUint w (Float.ofBits 0x8000000000000000) = 0 ∧
    f64ToUint w (Float.ofBits 0x3ff0000000000000) = 2^w - 1 ∧ f64ToUint w (Float.ofBits 0x7ff0000000000000) = 2^w - 1 ∧
    f64ToUint w (Float.ofBits 0x7ff8000000000000) = 2^w - 1 ∧ f64ToUint w (Float.ofBits 0xfff0000000000000) = 0 ∧
    f64ToUint w (Float.ofBits 0xc089000000000000) = 0 ∧ f64ToUint w (Float.ofBits 0xc0f86a0000000000) = 0 ∧
    f64ToUint w (Float.ofBits 0x7fefffffffffffff) = 2^w - 1 ∧ f64ToUint w (Float.ofBits 0xffefffffffffffff) = 0 := by decide +kernel

/-! ## D4 (repaired by the `fix:` commit in /repo): the formula as it was before the repair -/

/-- `convert_float_to_uint!` direct arm before the repair: no `.max(0.0)` -/
def f32DirectOld (max : Float32) (x : Float32) : UInt32 :=
  let scaled := min32 (x * max) max
  let f := scaled + Float32.ofBits C23
  satSub32 f.toBits C23

/-- witness: `-800f32 → u16` was 65336, not 0 -/
theorem d4_witness_neg : (f32DirectOld (Float32.ofBits 0x477fff00) (Float32.ofBits 0xc4480000)).toNat % 65536 = 65336 := by decide +kernel

/-- witness: `1.0f64 → u64` was 54044295040073728, not `u64::MAX` (the scaled value 2^64 is beyond the 2^52 trick) -/
theorem d4_witness_u64 :
    (satSub64 ((min64 (Float.ofBits 0x3ff0000000000000 * maxF64 64) (maxF64 64)) + Float.ofBits C52).toBits C52).toNat = 54044295040073728 := by
  decide +kernel

end C06
