/-
  C05 — `f32val` (the real number an f32 pattern stands for in `C05_ErrBound.lean`: `mant·2^expo / 2^150`) is the reading of
  **Lean's own kernel-transparent IEEE-754 model** (`Init/Data/Float/Model`, the one `Float32.ofBits` / `*` / `+` are defined through and
  the driver's compiled code is checked against on every run): for every positive finite pattern `b`, the model unpacks `b` to
  sign `+`, significand `mant b`, exponent `expo b − 150`.  (Core Lean only.)
-/
import PaletteProofs.Lemmas.C05_ErrCheck

namespace C05E
open Float.Model Float.Model.UnpackedFloat

theorem ofNat_toNat (b : Nat) (h1 : b < 2^32) : (BitVec.ofNat Format.binary32.numBits b).toNat = b := by
  rw [BitVec.toNat_ofNat]; exact Nat.mod_eq_of_lt h1

theorem unpackMantissa_ofNat (b : Nat) (h1 : b < 2^32) :
    (unpackMantissa (spec := .binary32) (BitVec.ofNat _ b)).toNat = b % 2^23 := by
  simp [unpackMantissa, BitVec.extractLsb, BitVec.extractLsb', ofNat_toNat b h1]

theorem unpackExponent_ofNat (b : Nat) (h1 : b < 2^32) :
    (unpackExponent (spec := .binary32) (BitVec.ofNat _ b)).toNat = (b / 2^23) % 256 := by
  simp [unpackExponent, BitVec.extractLsb, BitVec.extractLsb', ofNat_toNat b h1, Nat.shiftRight_eq_div_pow]

theorem unpackSign_ofNat (b : Nat) (h1 : b < 2^31) : (unpackSign (spec := .binary32) (BitVec.ofNat _ b)) = 0#1 := by
  apply BitVec.eq_of_toNat_eq
  simp [unpackSign, BitVec.extractLsb, BitVec.extractLsb', ofNat_toNat b (by omega), Nat.shiftRight_eq_div_pow]
  omega

theorem one_append (mv : BitVec 23) : (1#1 ++ mv).toNat = 2^23 + mv.toNat := by
  rw [BitVec.toNat_append, ← Nat.shiftLeft_add_eq_or_of_lt mv.isLt]
  simp [Nat.shiftLeft_eq]

theorem mant_pos {b : Nat} (h : 0 < b) : 0 < mant b := by
  unfold mant; split <;> omega

/-- **Lean's IEEE model decodes the positive finite pattern `b` as `+ mant b · 2^(expo b − 150)`** (subnormals and normals) -/
theorem unpack_pos (b : Nat) (h0 : 0 < b) (h1 : b < 0x7f800000) :
    UnpackedFloat.unpack .binary32 (BitVec.ofNat _ b) = .finite .positive (mant b) ((expo b : Int) - 150) (mant_pos h0) := by
  have hm := unpackMantissa_ofNat b (by omega)
  have he := unpackExponent_ofNat b (by omega)
  have hs := unpackSign_ofNat b (by omega)
  unfold UnpackedFloat.unpack
  simp only [hs]
  have hE : b / 2^23 < 255 := by omega
  have c1 : unpackExponent (spec := .binary32) (BitVec.ofNat _ b) ≠ -1#8 := by intro h; rw [h] at he; simp at he; omega
  rw [if_neg c1]
  have hsign : Sign.ofBitVec 0#1 = Sign.positive := rfl
  by_cases hz : b / 2^23 = 0
  · have c2 : unpackExponent (spec := .binary32) (BitVec.ofNat _ b) = 0#8 := by apply BitVec.eq_of_toNat_eq; simp; omega
    have c3 : unpackMantissa (spec := .binary32) (BitVec.ofNat _ b) ≠ 0#23 := by intro h; rw [h] at hm; simp at hm; omega
    have hb : b < 2^23 := by omega
    rw [if_pos c2, dif_neg c3]
    simp only [finite.injEq, hsign, true_and]
    unfold mant expo
    rw [if_pos hb, if_pos hb, hm, he]
    simp [Format.exponentBias]
    constructor <;> omega
  · have c2 : unpackExponent (spec := .binary32) (BitVec.ofNat _ b) ≠ 0#8 := by intro h; rw [h] at he; simp at he; omega
    have hb : ¬ b < 2^23 := by omega
    rw [if_neg c2]
    simp only [finite.injEq, hsign, true_and]
    unfold mant expo
    rw [if_neg hb, if_neg hb, he]
    rw [one_append, hm]
    simp [Format.exponentBias]
    omega

/-- the same through `Float32.ofBits`' first step: the pattern handed to `unpack` is `BitVec.ofNat 32 b` -/
theorem toBitVec_ofNat (b : Nat) : (UInt32.ofNat b).toBitVec = BitVec.ofNat 32 b := rfl

/-- examples: 1.0 = 2²³·2⁻²³, the least subnormal = 1·2⁻¹⁴⁹ -/
example : mant 0x3f800000 = 2^23 ∧ (expo 0x3f800000 : Int) - 150 = -23 := by decide
example : mant 1 = 1 ∧ (expo 1 : Int) - 150 = -149 := by decide

end C05E
