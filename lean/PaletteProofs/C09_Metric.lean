/-
  C09 — colour difference measures: the remaining metric laws (part 3).  `C09_Diff` proves closed form, non-negativity, symmetry and
  identity for every measure; this file adds what makes the Euclidean measures and HyAB *metrics* on the modelled functions of
  `PaletteModel/Diff.lean` read at ℝ: the triangle inequality (3-component `distance`/`delta_e`, 1-component `Luma` distance, HyAB),
  separation for HyAB, and for the WCAG ratio the lower bound 1 without any upper bound on the luminances and monotonicity in the
  lighter luminance.  Nothing here is needed by the other C09 modules; the statements are about the same `Diff.*` definitions the
  correspondence run executes at f32/f64.
-/
import PaletteProofs.C09_Diff
import PaletteProofs.C09_Ciede2000

namespace C09
open Diff

/-- Cauchy–Schwarz in ℝ³, in the form the triangle inequality needs -/
theorem cauchy3 (u1 u2 u3 v1 v2 v3 : ℝ) :
    u1 * v1 + u2 * v2 + u3 * v3 ≤ Real.sqrt (u1 ^ 2 + u2 ^ 2 + u3 ^ 2) * Real.sqrt (v1 ^ 2 + v2 ^ 2 + v3 ^ 2) := by
  rw [← Real.sqrt_mul (by positivity)]
  refine le_trans (le_abs_self _) (Real.abs_le_sqrt ?_)
  nlinarith [sq_nonneg (u1 * v2 - u2 * v1), sq_nonneg (u1 * v3 - u3 * v1), sq_nonneg (u2 * v3 - u3 * v2)]

theorem minkowski3 (u1 u2 u3 v1 v2 v3 : ℝ) :
    Real.sqrt ((u1 + v1) ^ 2 + (u2 + v2) ^ 2 + (u3 + v3) ^ 2)
      ≤ Real.sqrt (u1 ^ 2 + u2 ^ 2 + u3 ^ 2) + Real.sqrt (v1 ^ 2 + v2 ^ 2 + v3 ^ 2) := by
  have hA : (0:ℝ) ≤ u1 ^ 2 + u2 ^ 2 + u3 ^ 2 := by positivity
  have hB : (0:ℝ) ≤ v1 ^ 2 + v2 ^ 2 + v3 ^ 2 := by positivity
  rw [Real.sqrt_le_iff]
  refine ⟨add_nonneg (Real.sqrt_nonneg _) (Real.sqrt_nonneg _), ?_⟩
  have cs := cauchy3 u1 u2 u3 v1 v2 v3
  have sA := Real.sq_sqrt hA
  have sB := Real.sq_sqrt hB
  nlinarith

/-- **triangle inequality** for `EuclideanDistance::distance` / `DeltaE::delta_e` on three-component colours -/
theorem dist3_triangle (x1 x2 x3 y1 y2 y3 z1 z2 z3 : ℝ) :
    dist3 x1 x2 x3 z1 z2 z3 ≤ dist3 x1 x2 x3 y1 y2 y3 + dist3 y1 y2 y3 z1 z2 z3 := by
  rw [dist3_closed, dist3_closed, dist3_closed]
  have := minkowski3 (x1 - y1) (x2 - y2) (x3 - y3) (y1 - z1) (y2 - z2) (y3 - z3)
  have e : (x1 - y1 + (y1 - z1)) ^ 2 + (x2 - y2 + (y2 - z2)) ^ 2 + (x3 - y3 + (y3 - z3)) ^ 2
      = (x1 - z1) ^ 2 + (x2 - z2) ^ 2 + (x3 - z3) ^ 2 := by ring
  rwa [e] at this

/-- … and on `Luma` -/
theorem dist1_triangle (x y z : ℝ) : dist1 x z ≤ dist1 x y + dist1 y z := by
  rw [dist1_closed, dist1_closed, dist1_closed]; exact abs_sub_le x y z

/-- only identical lumas are at distance 0 -/
theorem dist1_eq_zero_iff (x y : ℝ) : dist1 x y = 0 ↔ x = y := by
  rw [dist1_closed, abs_eq_zero, sub_eq_zero]

/-- **triangle inequality** for HyAB (city-block in lightness + Euclidean in the chromatic plane) -/
theorem hyab_triangle (l1 a1 b1 l2 a2 b2 l3 a3 b3 : ℝ) :
    hyab l1 a1 b1 l3 a3 b3 ≤ hyab l1 a1 b1 l2 a2 b2 + hyab l2 a2 b2 l3 a3 b3 := by
  rw [hyab_closed, hyab_closed, hyab_closed]
  have hl : |l1 - l3| ≤ |l1 - l2| + |l2 - l3| := abs_sub_le l1 l2 l3
  have hc := minkowski3 (a1 - a2) (b1 - b2) 0 (a2 - a3) (b2 - b3) 0
  have e : (a1 - a2 + (a2 - a3)) ^ 2 + (b1 - b2 + (b2 - b3)) ^ 2 + ((0:ℝ) + 0) ^ 2 = (a1 - a3) ^ 2 + (b1 - b3) ^ 2 := by ring
  have e1 : (a1 - a2) ^ 2 + (b1 - b2) ^ 2 + (0:ℝ) ^ 2 = (a1 - a2) ^ 2 + (b1 - b2) ^ 2 := by ring
  have e2 : (a2 - a3) ^ 2 + (b2 - b3) ^ 2 + (0:ℝ) ^ 2 = (a2 - a3) ^ 2 + (b2 - b3) ^ 2 := by ring
  rw [e, e1, e2] at hc
  linarith

/-- HyAB separates: difference 0 only for identical colours -/
theorem hyab_eq_zero_iff (l1 a1 b1 l2 a2 b2 : ℝ) :
    hyab l1 a1 b1 l2 a2 b2 = 0 ↔ (l1 = l2 ∧ a1 = a2 ∧ b1 = b2) := by
  rw [hyab_closed]
  constructor
  · intro h
    have h1 : |l1 - l2| = 0 := le_antisymm (by linarith [Real.sqrt_nonneg ((a1 - a2) ^ 2 + (b1 - b2) ^ 2)]) (abs_nonneg _)
    have h2 : Real.sqrt ((a1 - a2) ^ 2 + (b1 - b2) ^ 2) = 0 := by linarith
    rw [Real.sqrt_eq_zero (by positivity)] at h2
    have ha : (a1 - a2) ^ 2 = 0 := by nlinarith [sq_nonneg (a1 - a2), sq_nonneg (b1 - b2)]
    have hb : (b1 - b2) ^ 2 = 0 := by nlinarith [sq_nonneg (a1 - a2), sq_nonneg (b1 - b2)]
    refine ⟨sub_eq_zero.mp (abs_eq_zero.mp h1), sub_eq_zero.mp ?_, sub_eq_zero.mp ?_⟩
    · exact pow_eq_zero_iff (n := 2) (by norm_num) |>.mp ha
    · exact pow_eq_zero_iff (n := 2) (by norm_num) |>.mp hb
  · rintro ⟨rfl, rfl, rfl⟩; simp

/-- the WCAG ratio is at least 1 for any two non-negative luminances (no upper bound on them is needed) -/
theorem relativeContrast_ge_one (l1 l2 : ℝ) (h1 : 0 ≤ l1) (h2 : 0 ≤ l2) : 1 ≤ relativeContrast l1 l2 := by
  rw [relativeContrast_closed]
  have hm : 0 ≤ min l1 l2 := le_min h1 h2
  rw [le_div_iff₀ (by linarith)]
  have : min l1 l2 ≤ max l1 l2 := min_le_max
  linarith

/-- the ratio is 1 exactly when the two luminances coincide -/
theorem relativeContrast_eq_one_iff (l1 l2 : ℝ) (h1 : 0 ≤ l1) (h2 : 0 ≤ l2) : relativeContrast l1 l2 = 1 ↔ l1 = l2 := by
  rw [relativeContrast_closed]
  have hm : 0 ≤ min l1 l2 := le_min h1 h2
  rw [div_eq_one_iff_eq (by linarith)]
  constructor
  · intro h
    have : max l1 l2 = min l1 l2 := by linarith
    exact le_antisymm (le_trans (le_max_left _ _) (this ▸ min_le_right _ _)) (le_trans (le_max_right _ _) (this ▸ min_le_left _ _))
  · rintro rfl; simp

/-- brightening the lighter colour never lowers the contrast against a fixed darker one -/
theorem relativeContrast_mono_lighter (d l l' : ℝ) (hd : 0 ≤ d) (h : d ≤ l) (h' : l ≤ l') :
    relativeContrast l d ≤ relativeContrast l' d := by
  rw [relativeContrast_closed, relativeContrast_closed, max_eq_left h, min_eq_right h,
    max_eq_left (le_trans h h'), min_eq_right (le_trans h h')]
  gcongr

/-! ## the improved variants are order-isomorphic rescalings of the plain measures

`ImprovedDeltaE` / `ImprovedCiede2000` apply `k · d^e` with `k > 0`, `0 < e`: strictly increasing on `d ≥ 0`, so they rank every two pairs of
colours exactly as the plain measure does and vanish exactly where it does. -/

theorem scaled_rpow_lt_iff {k e : ℝ} (hk : 0 < k) (he : 0 < e) {d d' : ℝ} (hd : 0 ≤ d) (hd' : 0 ≤ d') :
    k * d ^ e < k * d' ^ e ↔ d < d' := by
  rw [mul_lt_mul_iff_right₀ hk, Real.rpow_lt_rpow_iff hd hd' he]

theorem scaled_rpow_eq_zero_iff {k e : ℝ} (hk : 0 < k) (he : 0 < e) {d : ℝ} (hd : 0 ≤ d) : k * d ^ e = 0 ↔ d = 0 := by
  rw [mul_eq_zero, Real.rpow_eq_zero_iff_of_nonneg hd]
  constructor
  · rintro (h | ⟨h, _⟩)
    · exact absurd h hk.ne'
    · exact h
  · intro h; exact Or.inr ⟨h, he.ne'⟩

/-- improved ΔE (Lab) ranks pairs as ΔE does -/
theorem improvedDeltaELab_lt_iff (x1 x2 x3 y1 y2 y3 u1 u2 u3 v1 v2 v3 : ℝ) :
    improvedDeltaELab x1 x2 x3 y1 y2 y3 < improvedDeltaELab u1 u2 u3 v1 v2 v3 ↔ dist3 x1 x2 x3 y1 y2 y3 < dist3 u1 u2 u3 v1 v2 v3 := by
  rw [improvedDeltaELab_closed, improvedDeltaELab_closed]
  exact scaled_rpow_lt_iff (by norm_num) (by norm_num) (dist3_nonneg ..) (dist3_nonneg ..)
/-- improved ΔE (CAM16-UCS Jab) ranks pairs as ΔE does -/
theorem improvedDeltaEJab_lt_iff (x1 x2 x3 y1 y2 y3 u1 u2 u3 v1 v2 v3 : ℝ) :
    improvedDeltaEJab x1 x2 x3 y1 y2 y3 < improvedDeltaEJab u1 u2 u3 v1 v2 v3 ↔ dist3 x1 x2 x3 y1 y2 y3 < dist3 u1 u2 u3 v1 v2 v3 := by
  rw [improvedDeltaEJab_closed, improvedDeltaEJab_closed]
  exact scaled_rpow_lt_iff (by norm_num) (by norm_num) (dist3_nonneg ..) (dist3_nonneg ..)
/-- improved CIEDE2000 ranks pairs as CIEDE2000 does -/
theorem improvedOfCiede_lt_iff {d d' : ℝ} (hd : 0 ≤ d) (hd' : 0 ≤ d') : improvedOfCiede d < improvedOfCiede d' ↔ d < d' := by
  rw [improvedOfCiede_closed, improvedOfCiede_closed]
  exact scaled_rpow_lt_iff (by norm_num) (by norm_num) hd hd'
/-- … and they separate exactly as the plain measures do -/
theorem improvedDeltaELab_eq_zero_iff (x1 x2 x3 y1 y2 y3 : ℝ) :
    improvedDeltaELab x1 x2 x3 y1 y2 y3 = 0 ↔ (x1 = y1 ∧ x2 = y2 ∧ x3 = y3) := by
  rw [improvedDeltaELab_closed, scaled_rpow_eq_zero_iff (by norm_num) (by norm_num) (dist3_nonneg ..), dist3_eq_zero_iff]
theorem improvedDeltaEJab_eq_zero_iff (x1 x2 x3 y1 y2 y3 : ℝ) :
    improvedDeltaEJab x1 x2 x3 y1 y2 y3 = 0 ↔ (x1 = y1 ∧ x2 = y2 ∧ x3 = y3) := by
  rw [improvedDeltaEJab_closed, scaled_rpow_eq_zero_iff (by norm_num) (by norm_num) (dist3_nonneg ..), dist3_eq_zero_iff]
theorem improvedOfCiede_eq_zero_iff {d : ℝ} (hd : 0 ≤ d) : improvedOfCiede d = 0 ↔ d = 0 := by
  rw [improvedOfCiede_closed]; exact scaled_rpow_eq_zero_iff (by norm_num) (by norm_num) hd
/-- for real CIEDE2000 values (always ≥ 0): the improved variant is an order-embedding of the difference -/
theorem improvedCiede2000_lt_iff (x y u v : LabColorDiff ℝ) :
    improvedOfCiede (ciede2000 x y) < improvedOfCiede (ciede2000 u v) ↔ ciede2000 x y < ciede2000 u v :=
  improvedOfCiede_lt_iff (ciede2000_nonneg x y) (ciede2000_nonneg u v)

/-! ## invariances: the Euclidean measures and HyAB see only component differences, and scale with them -/

theorem dist3_translate (t1 t2 t3 x1 x2 x3 y1 y2 y3 : ℝ) :
    dist3 (x1 + t1) (x2 + t2) (x3 + t3) (y1 + t1) (y2 + t2) (y3 + t3) = dist3 x1 x2 x3 y1 y2 y3 := by
  rw [dist3_closed, dist3_closed]; congr 1; ring
theorem dist3_scale (k x1 x2 x3 y1 y2 y3 : ℝ) :
    dist3 (k * x1) (k * x2) (k * x3) (k * y1) (k * y2) (k * y3) = |k| * dist3 x1 x2 x3 y1 y2 y3 := by
  rw [dist3_closed, dist3_closed, ← Real.sqrt_sq_eq_abs, ← Real.sqrt_mul (sq_nonneg k)]; congr 1; ring
theorem hyab_translate (t1 t2 t3 l1 a1 b1 l2 a2 b2 : ℝ) :
    hyab (l1 + t1) (a1 + t2) (b1 + t3) (l2 + t1) (a2 + t2) (b2 + t3) = hyab l1 a1 b1 l2 a2 b2 := by
  rw [hyab_closed, hyab_closed]; congr 2 <;> ring
theorem hyab_scale (k l1 a1 b1 l2 a2 b2 : ℝ) :
    hyab (k * l1) (k * a1) (k * b1) (k * l2) (k * a2) (k * b2) = |k| * hyab l1 a1 b1 l2 a2 b2 := by
  rw [hyab_closed, hyab_closed, mul_add, ← abs_mul, ← Real.sqrt_sq_eq_abs k, ← Real.sqrt_mul (sq_nonneg k)]
  congr 1
  · congr 1; ring
  · congr 1; ring
/-- HyAB dominates nothing smaller than the Euclidean distance: ΔE ≤ HyAB ≤ √2·ΔE -/
theorem dist3_le_hyab (l1 a1 b1 l2 a2 b2 : ℝ) : dist3 l1 a1 b1 l2 a2 b2 ≤ hyab l1 a1 b1 l2 a2 b2 := by
  rw [dist3_closed, hyab_closed, Real.sqrt_le_iff]
  refine ⟨add_nonneg (abs_nonneg _) (Real.sqrt_nonneg _), ?_⟩
  have hs := Real.sq_sqrt (show (0:ℝ) ≤ (a1 - a2) ^ 2 + (b1 - b2) ^ 2 by positivity)
  have h1 : |l1 - l2| ^ 2 = (l1 - l2) ^ 2 := sq_abs _
  nlinarith [mul_nonneg (abs_nonneg (l1 - l2)) (Real.sqrt_nonneg ((a1 - a2) ^ 2 + (b1 - b2) ^ 2))]

/-- non-vacuity: a 3-4-5 witness, where the triangle inequality is strict for Euclid and tight for a collinear triple -/
example : dist3 (0:ℝ) 0 0 3 4 0 = 5 := by
  rw [dist3_closed]; rw [show ((0:ℝ) - 3) ^ 2 + (0 - 4) ^ 2 + (0 - 0) ^ 2 = 5 ^ 2 by norm_num]; exact Real.sqrt_sq (by norm_num)
example : hyab (50:ℝ) 0 0 40 3 4 = 15 := by
  rw [hyab_closed]; rw [show ((0:ℝ) - 3) ^ 2 + (0 - 4) ^ 2 = 5 ^ 2 by norm_num, Real.sqrt_sq (by norm_num)]; norm_num [abs_of_pos]

end C09
