/-
  C07, CAM16: the **inverse** model (`cam16_to_xyz`, `$partial::into_xyz`, `Cam16::into_xyz`) at `PReal`, on the image of the
  forward model, and the CAM16-UCS maps.

  The partial CAM16 types document no component range, and arbitrary triples are not images of any colour (e.g. brightness 26 with
  colourfulness 60 has `|R_a| > 400` in the inverse model, where `Unadapt::run` takes a power of a negative number) — the C07 clause
  for the inverse is therefore *finiteness on the image of `from_xyz`*:

  * transfer lemmas `…_T` for `normalize_signed_angle`, `into_radians`, `lightness_to_j_root`, `brightness_to_j_root`,
    `saturation_to_alpha`, `Unadapt::run` (on `|c| < 400`), the opponent stage (`inverseOpponent_T`: defined as soon as `J_root ≥ 0`,
    `α ≥ 0` and the divisor `23p₁ + t(11cos h + 108 sin h)` of `r` is non-zero) and the linear stage (`inverseFromAdapted_T`);
  * `rDivisor_forward_pos`: on the image that divisor is `p₁·23·(0.305 + 2R_a + G_a + 0.05B_a)/(R_a + G_a + 1.05B_a + 0.305) > 0`;
  * **`intoXyz_defined_on_image`**: for each of the six partial types, every colour of `InDomain` with positive achromatic signal, and
    every stored hue whose `into_radians` has the `sin`/`cos` of the forward hue angle, `into_xyz` of the forward attributes evaluated
    at `PReal` is `ok` of `M16⁻¹(M16(100·xyz))/100`; `intoXyz_black_on_image`: zero achromatic signal takes the black branch;
    `intoXyz_finite_on_image`, `cam16_roundtrip_finite_partial` (raw viewing conditions, forward attributes computed at `PReal` as well);
  * `intoXyz_defined_general`: for ARBITRARY partial colours (positive luminance, non-negative chromaticity component) `into_xyz` is
    defined as soon as the divisor of `r` is non-zero and the recovered adapted responses lie in `(−400, 400)`;
    `unadaptRun_outside_poison`: at `|c| ≥ 400` `Unadapt::run` is poison, so the second condition is needed;
  * CAM16-UCS: `jmhToUcs_finite` (`J, M ≥ 0`), `ucsToJmh_finite` (`J′ ≤ 100`… any `J′ ≠ 1.7/0.007`), polar ↔ rectangular total;
    the chain `Xyz → Cam16Jmh → Cam16UcsJmh → Cam16UcsJab` is finite on `InDomain` (`xyz_to_ucs_finite`).

  The composite `into_xyz ∘ from_xyz` *with the hue as the model stores it* sees the angle `h_rad·(1 − 1.9e-36)` (`from_radians`
  multiplies by the `f64`-rounded `180/π`, `into_radians` by `π_f64/180`; `C16.degK_mul_radK`): `cam16_model_roundtrip_finite_of_margins`
  reduces its finiteness to two margins at that angle, which `C07_FiniteCam16Hue.lean` proves by a perturbation argument (off a sliver
  of hue angles next to ±π and `1e-25` below saturation).  The hue hypothesis of the theorems of this file is met by
  `h = h_rad / radK` (`C16.hueIntoRadians_preimage`).
-/
import PaletteProofs.C07_FiniteCam16

set_option linter.unusedSimpArgs false
set_option linter.unusedVariables false

namespace C07
open Cam16 PReal C16

/-! ## transfer lemmas -/

theorem normalizeSigned_T (x : ℝ) : normalizeSigned (ok x) = ok (normalizeSigned x) := by
  have h : (360.0:ℝ) ≠ 0 := by norm_num
  simp only [normalizeSigned, ofSci, add_some, div_some_of_ne _ _ h, sub_some, ceil_some, mul_some]
  rfl

theorem hueIntoRadians_T (h : ℝ) : hueIntoRadians (ok h) = ok (hueIntoRadians h) := by
  have h180 : (180.0:ℝ) ≠ 0 := by norm_num
  have e : (Scalar.const Cam16.PI : PReal) = ok (Scalar.const Cam16.PI : ℝ) := rfl
  simp only [hueIntoRadians, toRadians, normalizeSigned_T, e, ofSci, div_some_of_ne _ _ h180, mul_some]

theorem lightnessToJRoot_T (J : ℝ) (h : 0 ≤ J) : lightnessToJRoot (ok J) = ok (lightnessToJRoot J) := by
  simp only [lightnessToJRoot, KP.lightnessToJRoot_0, K.lightnessToJRoot_0, sqrt_some_of_nonneg _ h, mul_some, RealScalar.sqrt_eq]

theorem brightnessToJRoot_T (Q c aw fl4 : ℝ) (h : (4.0 + aw) * fl4 ≠ 0) :
    brightnessToJRoot (ok Q) (ok c) (ok aw) (ok fl4) = ok (brightnessToJRoot Q c aw fl4) := by
  simp only [brightnessToJRoot, KP.brightnessToJRoot_0, KP.brightnessToJRoot_1, K.brightnessToJRoot_0, K.brightnessToJRoot_1, mul_some, add_some,
    div_some_of_ne _ _ h]

theorem saturationToAlpha_T (s c aw : ℝ) (hc : c ≠ 0) : saturationToAlpha (ok s) (ok c) (ok aw) = ok (saturationToAlpha s c aw) := by
  simp only [saturationToAlpha, KP.saturationToAlpha_0, KP.saturationToAlpha_1, K.saturationToAlpha_0, K.saturationToAlpha_1, mul_some, add_some,
    div_some_of_ne _ _ hc]

theorem unadaptRun_T (k e c : ℝ) (hc : |c| < 400) (he : 0 < e) : unadaptRun (ok k) (ok e) (ok c) = ok (unadaptRun k e c) := by
  have hd : (400.0:ℝ) - |c| ≠ 0 := by norm_num; linarith
  have hb : 0 ≤ |c| / (400.0 - |c|) := div_nonneg (abs_nonneg c) (by norm_num; linarith)
  simp only [unadaptRun, signum_ok, KP.unadapt_0, K.unadapt_0, abs_some, sub_some, div_some_of_ne _ _ hd, powf_some_of_nonneg_pos _ _ hb he,
    mul_some, RealScalar.abs_eq, RealScalar.powf_eq]

theorem m16Inv_lift (v : V3 ℝ) : m16Inv v.lift = (m16Inv v).lift := rfl

/-! ## the opponent stage -/

/-- the divisor of `r` in `non_black_cam16_to_xyz` (real reading): `23p₁ + t(11cos h + 108 sin h)` -/
noncomputable def rDivisor (alpha hRad : ℝ) (p : Dep ℝ) : ℝ :=
  23.0 * (5e4 / 13.0 * p.nC * p.nCb * (0.25 * (Real.cos (hRad + 2.0) + 3.8)))
    + (alpha * (1.64 - (0.29:ℝ) ^ p.n) ^ (-(0.73:ℝ))) ^ ((10.0:ℝ) / 9.0) * (11.0 * Real.cos hRad + 108.0 * Real.sin hRad)

theorem inverseOpponent_T (j alpha hRad : ℝ) (p : Dep ℝ) (P : Positive p) (hj : 0 ≤ j) (ha : 0 ≤ alpha)
    (hdiv : rDivisor alpha hRad p ≠ 0) :
    inverseOpponent (ok j) (ok alpha) (ok hRad) (liftDep p) = (inverseOpponent j alpha hRad p).lift := by
  have hc : 0 < p.c := by have := P.c_lo; linarith
  have hz : 0 < p.z := by have := P.z; linarith
  have hk := P.k
  have hkb : 0 ≤ alpha * (1.64 - (0.29:ℝ) ^ p.n) ^ (-(0.73:ℝ)) := mul_nonneg ha (Real.rpow_nonneg hk.le _)
  have h109 : (0:ℝ) < 10.0 / 9.0 := by norm_num
  have he : (0:ℝ) < 2.0 / p.c / p.z := by positivity
  unfold rDivisor at hdiv
  simp only [inverseOpponent, liftDep, V3.lift, KP.nonBlack_0, KP.nonBlack_1, KP.nonBlack_2, KP.nonBlack_3, KP.nonBlack_4, KP.nonBlack_5, KP.nonBlack_6,
    KP.nonBlack_7, KP.nonBlack_8, KP.nonBlack_9, KP.nonBlack_10, KP.nonBlack_11, KP.nonBlack_12, KP.nonBlack_13, KP.nonBlack_14, KP.nonBlack_15,
    KP.nonBlack_16, KP.nonBlack_17, KP.nonBlack_18, KP.nonBlack_19, KP.nonBlack_20, KP.nonBlack_21, KP.nonBlack_22, KP.nonBlack_23, KP.nonBlack_24,
    KP.nonBlack_25,
    K.nonBlack_0, K.nonBlack_1, K.nonBlack_2, K.nonBlack_3, K.nonBlack_4, K.nonBlack_5, K.nonBlack_6, K.nonBlack_7, K.nonBlack_8, K.nonBlack_9,
    K.nonBlack_10, K.nonBlack_11, K.nonBlack_12, K.nonBlack_13, K.nonBlack_14, K.nonBlack_15, K.nonBlack_16, K.nonBlack_17, K.nonBlack_18, K.nonBlack_19, K.nonBlack_20,
    K.nonBlack_21, K.nonBlack_22, K.nonBlack_23, K.nonBlack_24, K.nonBlack_25,
    sin_some, cos_some, add_some, powf_some_of_pos _ _ (by norm_num : (0:ℝ) < 0.29), sub_some, powf_some_of_pos _ _ hk, mul_some,
    div_some_of_ne _ _ (by norm_num : (9.0:ℝ) ≠ 0), powf_some_of_nonneg_pos _ _ hkb h109,
    div_some_of_ne _ _ hc.ne', div_some_of_ne _ _ hz.ne', powf_some_of_nonneg_pos _ _ hj he,
    div_some_of_ne _ _ (by norm_num : (13.0:ℝ) ≠ 0), div_some_of_ne _ _ P.nBb.ne',
    RealScalar.powf_eq, RealScalar.cos_eq, RealScalar.sin_eq]
  simp only [div_some_of_ne _ _ hdiv, ofSci, div_some_of_ne _ _ (by norm_num : (1403.0:ℝ) ≠ 0), mul_some, add_some, sub_some]

/-! ## the linear stage -/

theorem inverseFromAdapted_T (rgb : V3 ℝ) (p : Dep ℝ) (P : Positive p) (h0 : |rgb.c0| < 400) (h1 : |rgb.c1| < 400) (h2 : |rgb.c2| < 400) :
    inverseFromAdapted rgb.lift (liftDep p) = (inverseFromAdapted rgb p).lift := by
  have he : 0 < p.unadaptExponent := by rw [P.baked.2.1]; norm_num
  have h100 : (100.0:ℝ) ≠ 0 := by norm_num
  have e : map3 rgb.lift (unadaptRun (ok p.unadaptConstant) (ok p.unadaptExponent))
      = (map3 rgb (unadaptRun p.unadaptConstant p.unadaptExponent)).lift := by
    simp only [map3, V3.lift, unadaptRun_T _ _ _ h0 he, unadaptRun_T _ _ _ h1 he, unadaptRun_T _ _ _ h2 he]
  have e2 : ∀ a b : V3 ℝ, mul3 a.lift b.lift = (mul3 a b).lift := fun _ _ => rfl
  simp only [inverseFromAdapted, liftDep, e, e2, m16Inv_lift]
  simp only [V3.lift, KP.nonBlack_26, K.nonBlack_26, div_some_of_ne _ _ h100]

/-! ## the divisor of `r` on the image -/

theorem rDivisor_congr (alpha h1 h2 : ℝ) (p : Dep ℝ) (hc : Real.cos h1 = Real.cos h2) (hs : Real.sin h1 = Real.sin h2) :
    rDivisor alpha h1 p = rDivisor alpha h2 p := by
  simp only [rDivisor, Real.cos_add, hc, hs]

/-- `rDivisor` is the divisor the model function uses: `non_black_cam16_to_xyz` read at ℝ, written with it -/
theorem inverseOpponent_eq_rDivisor (j alpha hRad : ℝ) (p : Dep ℝ) :
    inverseOpponent j alpha hRad p =
      (let t := (alpha * (1.64 - (0.29:ℝ) ^ p.n) ^ (-(0.73:ℝ))) ^ ((10.0:ℝ) / 9.0)
       let p2 := p.aW * j ^ ((2.0:ℝ) / p.c / p.z) / p.nBb
       let r := 23.0 * (0.305 + p2) * t / rDivisor alpha hRad p
       (⟨(460.0 * p2 + 451.0 * (Real.cos hRad * r) + 288.0 * (Real.sin hRad * r)) * (1.0 / 1403.0),
         (460.0 * p2 - 891.0 * (Real.cos hRad * r) - 261.0 * (Real.sin hRad * r)) * (1.0 / 1403.0),
         (460.0 * p2 - 220.0 * (Real.cos hRad * r) - 6300.0 * (Real.sin hRad * r)) * (1.0 / 1403.0)⟩ : V3 ℝ)) := by
  simp only [inverseOpponent, rDivisor, K.nonBlack_0, K.nonBlack_1, K.nonBlack_2, K.nonBlack_3, K.nonBlack_4, K.nonBlack_5, K.nonBlack_6, K.nonBlack_7, K.nonBlack_8, K.nonBlack_9,
    K.nonBlack_10, K.nonBlack_11, K.nonBlack_12, K.nonBlack_13, K.nonBlack_14, K.nonBlack_15, K.nonBlack_16, K.nonBlack_17, K.nonBlack_18, K.nonBlack_19, K.nonBlack_20,
    K.nonBlack_21, K.nonBlack_22, K.nonBlack_23, K.nonBlack_24, K.nonBlack_25, RealScalar.powf_eq, RealScalar.cos_eq, RealScalar.sin_eq]

theorem rDivisor_forward_pos (xyz : V3 ℝ) (p : Dep ℝ) (P : Positive p) (D : InDomain xyz p) :
    0 < rDivisor (forward xyz p).alpha (forward xyz p).hRad p := by
  have ht := tOf_nonneg xyz p P D
  have e : ((forward xyz p).alpha * (1.64 - (0.29:ℝ) ^ p.n) ^ (-(0.73:ℝ))) ^ ((10.0:ℝ) / 9.0) = tOf (forward xyz p) p := by
    rw [forward_alpha_eq]; exact t_recover ht P.k
  unfold rDivisor
  rw [e]
  obtain ⟨-, -, -, r4, r5, r6, -, -⟩ := forward_struct xyz p
  simp only [K.xyzToCam16_1, K.xyzToCam16_2, K.xyzToCam16_3, K.xyzToCam16_4, RealScalar.atan2_eq] at r4 r5 r6
  obtain ⟨hcos, hsin⟩ := cos_sin_arg_mul (forward xyz p).a (forward xyz p).b
  rw [← r6] at hcos hsin
  have hnc : 0 < p.nC := by have := P.nC_lo; linarith
  have hncb := P.nCb
  have hden := D.denom
  have hA := D.achromatic
  have het : 0 < 0.25 * (Real.cos ((forward xyz p).hRad + 2.0) + 3.8) := by
    have := Real.neg_one_le_cos ((forward xyz p).hRad + 2.0)
    have : (0:ℝ) < Real.cos ((forward xyz p).hRad + 2.0) + 3.8 := by norm_num; linarith
    positivity
  have lin : 23 * tDenominator (forward xyz p) + 11 * (forward xyz p).a + 108 * (forward xyz p).b
      = 23 * (0.305 + achromaticSignal (forward xyz p)) := by
    rw [r4, r5]; unfold tDenominator achromaticSignal; norm_num; ring
  unfold tOf
  generalize 0.25 * (Real.cos ((forward xyz p).hRad + 2.0) + 3.8) = et at het ⊢
  have hK : 0 < 5e4 / 13.0 * p.nC * p.nCb * et := by positivity
  generalize 5e4 / 13.0 * p.nC * p.nCb * et = K1 at hK ⊢
  generalize Real.sqrt ((forward xyz p).a * (forward xyz p).a + (forward xyz p).b * (forward xyz p).b) = ρ at hcos hsin ⊢
  have e2 : 23.0 * K1 + K1 * ρ / tDenominator (forward xyz p) * (11.0 * Real.cos (forward xyz p).hRad + 108.0 * Real.sin (forward xyz p).hRad)
      = K1 * (23 * tDenominator (forward xyz p) + 11 * (Real.cos (forward xyz p).hRad * ρ) + 108 * (Real.sin (forward xyz p).hRad * ρ))
          / tDenominator (forward xyz p) := by
    norm_num
    field_simp
    ring
  rw [e2, hcos, hsin, lin]
  positivity

/-! ## `into_xyz` on the image of `from_xyz` -/

theorem lum_value_T (k : PKind) (L : ℝ) : (k.lum (ok L)).value = ok ((k.lum L).value) := by cases k <;> rfl
theorem lum_value_real (k : PKind) (L : ℝ) : (k.lum L).value = L := by cases k <;> rfl

theorem lum_jRoot_T (k : PKind) (L : ℝ) (p : Dep ℝ) (P : Positive p) (hL : 0 ≤ L) :
    (k.lum (ok L)).jRoot (liftDep p) = ok ((k.lum L).jRoot p) := by
  have h4 : (4.0 + p.aW) * p.fL4 ≠ 0 := by
    have h1 : (0:ℝ) < 4.0 + p.aW := by have := P.aW; norm_num; linarith
    exact (mul_pos h1 P.fL4).ne'
  cases k <;> simp only [PKind.lum, Lum.jRoot, liftDep, lightnessToJRoot_T _ hL, brightnessToJRoot_T _ _ _ _ h4]

theorem chr_alpha_T (k : PKind) (C j : ℝ) (p : Dep ℝ) (P : Positive p) (hj : j ≠ 0) :
    (k.chr (ok C)).alpha (liftDep p) (ok j) = ok ((k.chr C).alpha p j) := by
  have hc : p.c ≠ 0 := by have := P.c_lo; intro h; rw [h] at this; norm_num at this
  cases k <;>
    simp only [PKind.chr, Chr.alpha, liftDep, colorfulnessToChroma, div_some_of_ne _ _ hj, div_some_of_ne _ _ P.fL4.ne',
      saturationToAlpha_T _ _ _ hc]

/-- **the inverse is defined on the image, all six partial types**: `cam16_to_xyz` evaluated at `PReal` on the attributes
    `xyz_to_cam16` computes for a colour of `InDomain` with positive achromatic signal, and any stored hue `h` whose `into_radians`
    has the `sin`/`cos` of the forward hue angle, returns `ok` of `M16⁻¹(M16(100·xyz))/100` (`C16.throughTables`, within
    `1e-15·(|X|+|Y|+|Z|)` of `xyz`): no division by zero, no power of a negative number in `non_black_cam16_to_xyz`. -/
theorem intoXyz_defined_on_image (k : PKind) (xyz : V3 ℝ) (p : Dep ℝ) (P : Positive p) (D : InDomain xyz p)
    (hA : 0 < achromaticSignal (forward xyz p)) (h : ℝ)
    (hcos : Real.cos (hueIntoRadians h) = Real.cos (forward xyz p).hRad)
    (hsin : Real.sin (hueIntoRadians h) = Real.sin (forward xyz p).hRad) :
    k.intoXyz (⟨k.lumOf (xyzToCam16 xyz p), k.chrOf (xyzToCam16 xyz p), h⟩ : V3 ℝ).lift (liftDep p) = (throughTables xyz).lift := by
  have hj := forward_jRoot_pos xyz p P hA
  have ha := forward_alpha_nonneg xyz p P D
  have hLpos := kinds_lum_pos k (alpha := (forward xyz p).alpha) (hueFromRadians (forward xyz p).hRad) p P hj
  obtain ⟨e1, e2⟩ := kinds_recover_core k (hueFromRadians (forward xyz p).hRad) p P hj ha
  rw [← xyzToCam16_eq_attrs] at e1 e2 hLpos
  rw [lum_value_real] at hLpos
  have hdiv : rDivisor (forward xyz p).alpha (hueIntoRadians h) p ≠ 0 := by
    rw [rDivisor_congr _ _ _ p hcos hsin]; exact (rDivisor_forward_pos xyz p P D).ne'
  obtain ⟨f0, f1, f2⟩ := forward_adapted xyz p
  have r0 := (adaptRun_range P.fL (coneAdapted xyz p).c0).1
  have r1 := (adaptRun_range P.fL (coneAdapted xyz p).c1).1
  have r2 := (adaptRun_range P.fL (coneAdapted xyz p).c2).1
  have main : nonBlackCam16ToXyz (k.lum (ok (k.lumOf (xyzToCam16 xyz p)))) (k.chr (ok (k.chrOf (xyzToCam16 xyz p)))) (ok h) (liftDep p)
      = (throughTables xyz).lift := by
    unfold nonBlackCam16ToXyz
    simp only [hueIntoRadians_T, lum_jRoot_T k _ p P hLpos.le, e1, chr_alpha_T k _ _ p P hj.ne', e2]
    unfold inverseCore
    rw [inverseOpponent_T _ _ _ p P hj.le ha hdiv, inverseOpponent_congr_angle _ _ _ _ p hcos hsin, inverseOpponent_forward xyz p P D,
      f0, f1, f2, inverseFromAdapted_T _ p P r0 r1 r2,
      inverseFromAdapted_adapt_signed xyz p P.baked P.fL P.d0.ne' P.d1.ne' P.d2.ne']
    rfl
  have hnb : ¬ Scalar.eqv (k.lum (ok (k.lumOf (xyzToCam16 xyz p)))).value (0.0 : PReal) := by
    rw [lum_value_T, lum_value_real, show (0.0 : PReal) = ok (0.0:ℝ) from rfl, eqv_some]
    intro h0; rw [h0] at hLpos; norm_num at hLpos
  unfold PKind.intoXyz cam16ToXyz
  simp only [V3.lift, if_neg hnb, main]

/-- on the boundary of the domain (zero achromatic signal: `J = Q = 0`) the black branch answers `(0, 0, 0)` whatever the discarded
    `non_black` value is -/
theorem intoXyz_black_on_image (k : PKind) (xyz : V3 ℝ) (p : Dep ℝ) (P : Positive p)
    (hA : achromaticSignal (forward xyz p) = 0) (C h : PReal) :
    k.intoXyz ⟨ok (k.lumOf (xyzToCam16 xyz p)), C, h⟩ (liftDep p) = (⟨0.0, 0.0, 0.0⟩ : V3 ℝ).lift := by
  have hj := forward_jRoot_zero xyz p P hA
  have e : k.lumOf (xyzToCam16 xyz p) = 0 := by
    cases k <;> simp only [PKind.lumOf, xyzToCam16, hj, calculateLightness, calculateBrightness, mul_zero, zero_mul]
  rw [e]
  apply partial_intoXyz_black
  show Scalar.eqv (ok 0) (ok (0.0:ℝ))
  rw [eqv_some]; norm_num

/-- **finite on the whole image** (interior and boundary of `InDomain`) -/
theorem intoXyz_finite_on_image (k : PKind) (xyz : V3 ℝ) (p : Dep ℝ) (P : Positive p) (D : InDomain xyz p) (h : ℝ)
    (hcos : Real.cos (hueIntoRadians h) = Real.cos (forward xyz p).hRad)
    (hsin : Real.sin (hueIntoRadians h) = Real.sin (forward xyz p).hRad) :
    (k.intoXyz (⟨k.lumOf (xyzToCam16 xyz p), k.chrOf (xyzToCam16 xyz p), h⟩ : V3 ℝ).lift (liftDep p)).Finite := by
  rcases eq_or_lt_of_le D.achromatic with hA | hA
  · exact ⟨_, intoXyz_black_on_image k xyz p P hA.symm _ _⟩
  · exact ⟨_, intoXyz_defined_on_image k xyz p P D hA h hcos hsin⟩

/-- FULL STATEMENT (not proved): for valid raw viewing conditions, every colour of `InDomain` and every kind `k`,
      `(k.intoXyz (k.fromXyz xyz.lift P) P).Finite`  with `P = prepareParameters (liftParameters prm)`,
    i.e. with the hue exactly as `from_xyz` stores it (`h_rad·degK`, which `into_radians` turns into `h_rad·(1 − 1.9e-36)`).
    Proved here (`_partial`): the same with the stored hue replaced by any `h` whose `into_radians` has the `sin`/`cos` of the forward
    hue angle — **Xyz → partial CAM16 → Xyz with everything evaluated at `PReal`**, hypotheses on the raw viewing conditions and the
    colour only: baked parameters, forward attributes and inverse are all defined.  The model's own stored hue is treated in
    `C07_FiniteCam16Hue.lean` (`cam16_model_roundtrip_finite_partial`). -/
theorem cam16_roundtrip_finite_partial (k : PKind) (prm : Parameters ℝ) (v : ValidRaw prm) (xyz : V3 ℝ)
    (D : InDomain xyz (prepareParameters prm)) (h : ℝ)
    (hcos : Real.cos (hueIntoRadians h) = Real.cos (forward xyz (prepareParameters prm)).hRad)
    (hsin : Real.sin (hueIntoRadians h) = Real.sin (forward xyz (prepareParameters prm)).hRad) :
    (k.intoXyz ⟨(k.fromXyz xyz.lift (prepareParameters (liftParameters prm))).c0,
                (k.fromXyz xyz.lift (prepareParameters (liftParameters prm))).c1, ok h⟩ (prepareParameters (liftParameters prm))).Finite := by
  have P := prepare_positive v
  rw [prepare_defined v, partial_fromXyz_defined k xyz _ P D]
  exact intoXyz_finite_on_image k xyz _ P D h hcos hsin

/-- `Cam16::into_xyz` is the `Jch` route (`C16.fullIntoXyz_eq_jch`), so it inherits the statement -/
theorem cam16_full_roundtrip_finite_partial (prm : Parameters ℝ) (v : ValidRaw prm) (xyz : V3 ℝ)
    (D : InDomain xyz (prepareParameters prm)) (h : ℝ)
    (hcos : Real.cos (hueIntoRadians h) = Real.cos (forward xyz (prepareParameters prm)).hRad)
    (hsin : Real.sin (hueIntoRadians h) = Real.sin (forward xyz (prepareParameters prm)).hRad) :
    (fullIntoXyz { xyzToCam16 xyz.lift (prepareParameters (liftParameters prm)) with hue := ok h } (prepareParameters (liftParameters prm))).Finite :=
  cam16_roundtrip_finite_partial .Jch prm v xyz D h hcos hsin

/-- non-vacuity of the hue hypothesis for every colour with `|h_rad| ≤ 3.14`: the exact preimage `h_rad / radK` of the forward angle
    under the model's own `into_radians` -/
example (xyz : V3 ℝ) (p : Dep ℝ) (hh : |(forward xyz p).hRad| ≤ 3.14) :
    Real.cos (hueIntoRadians ((forward xyz p).hRad / radK)) = Real.cos (forward xyz p).hRad ∧
    Real.sin (hueIntoRadians ((forward xyz p).hRad / radK)) = Real.sin (forward xyz p).hRad := by
  rw [hueIntoRadians_preimage hh]; exact ⟨rfl, rfl⟩

/-- a concrete instance with no hypothesis left: the grey `Xyz(0.2, 0.2, 0.2)` under the equal-energy white of `C16.witnessPrm`
    (`L_A = 40`, `Y_b = 0.2`, average surround): all three cone responses are `20`, so `a = b = 0`, the hue angle is `0`, and the
    stored hue `0°` satisfies the hue hypothesis -/
theorem greyE_forward :
    InDomain ⟨0.2, 0.2, 0.2⟩ (prepareParameters witnessPrm) ∧ 0 < achromaticSignal (forward ⟨0.2, 0.2, 0.2⟩ (prepareParameters witnessPrm)) ∧
    (forward ⟨0.2, 0.2, 0.2⟩ (prepareParameters witnessPrm)).hRad = 0 := by
  have P := prepare_positive witness_valid
  have hD : InDomain ⟨0.2, 0.2, 0.2⟩ (prepareParameters witnessPrm) := by
    apply inDomain_of_m16_nonneg witnessPrm witness_valid <;> rw [m16_eq] <;> norm_num
  obtain ⟨e0, e1, e2⟩ := forward_adapted ⟨0.2, 0.2, 0.2⟩ (prepareParameters witnessPrm)
  have c0 : (coneAdapted ⟨0.2, 0.2, 0.2⟩ (prepareParameters witnessPrm)).c0 = 20 := by
    simp only [coneAdapted, mul3, witness_dRgb, m16_eq]; norm_num
  have c1 : (coneAdapted ⟨0.2, 0.2, 0.2⟩ (prepareParameters witnessPrm)).c1 = 20 := by
    simp only [coneAdapted, mul3, witness_dRgb, m16_eq]; norm_num
  have c2 : (coneAdapted ⟨0.2, 0.2, 0.2⟩ (prepareParameters witnessPrm)).c2 = 20 := by
    simp only [coneAdapted, mul3, witness_dRgb, m16_eq]; norm_num
  rw [c0] at e0; rw [c1] at e1; rw [c2] at e2
  have hR := (adaptRun_pos_range P.fL (by norm_num : (0:ℝ) < 20)).1
  refine ⟨hD, ?_, ?_⟩
  · simp only [achromaticSignal, e0, e1, e2]; positivity
  · obtain ⟨-, -, -, r4, r5, r6, -, -⟩ := forward_struct ⟨0.2, 0.2, 0.2⟩ (prepareParameters witnessPrm)
    simp only [K.xyzToCam16_1, K.xyzToCam16_2, K.xyzToCam16_3, K.xyzToCam16_4, RealScalar.atan2_eq] at r4 r5 r6
    rw [e0, e1, e2] at r4 r5
    have ha : (forward ⟨0.2, 0.2, 0.2⟩ (prepareParameters witnessPrm)).a = 0 := by rw [r4]; norm_num; ring
    have hb : (forward ⟨0.2, 0.2, 0.2⟩ (prepareParameters witnessPrm)).b = 0 := by rw [r5]; norm_num; ring
    rw [r6, ha, hb]
    exact Complex.arg_zero

theorem hueIntoRadians_zero : hueIntoRadians (0:ℝ) = 0 := by
  rw [hueIntoRadians_eq_with]; unfold hueIntoRadiansWith
  rw [normalizeSigned_of_mem (by norm_num) (by norm_num), zero_mul]

example (k : PKind) :
    (k.intoXyz ⟨(k.fromXyz (⟨0.2, 0.2, 0.2⟩ : V3 ℝ).lift (prepareParameters (liftParameters witnessPrm))).c0,
                (k.fromXyz (⟨0.2, 0.2, 0.2⟩ : V3 ℝ).lift (prepareParameters (liftParameters witnessPrm))).c1, ok 0⟩
        (prepareParameters (liftParameters witnessPrm))).Finite := by
  obtain ⟨D, _, h0⟩ := greyE_forward
  exact cam16_roundtrip_finite_partial k witnessPrm witness_valid _ D 0 (by rw [hueIntoRadians_zero, h0]) (by rw [hueIntoRadians_zero, h0])

/-! ## the domain of the inverse for arbitrary partial colours -/

/-- `J_root > 0` and `α ≥ 0` for any partial colour with positive luminance and non-negative chromaticity component -/
theorem partial_core_signs (k : PKind) (c : V3 ℝ) (p : Dep ℝ) (P : Positive p) (hL : 0 < c.c0) (hC : 0 ≤ c.c1) :
    0 < (k.lum c.c0).jRoot p ∧ 0 ≤ (k.chr c.c1).alpha p ((k.lum c.c0).jRoot p) := by
  have hc : 0 < p.c := by have := P.c_lo; linarith
  have h4 : (0:ℝ) < 4.0 + p.aW := by have := P.aW; norm_num; linarith
  have hfl := P.fL4
  have hj : 0 < (k.lum c.c0).jRoot p := by
    cases k <;> simp only [PKind.lum, Lum.jRoot, lightnessToJRoot, brightnessToJRoot, K.lightnessToJRoot_0, K.brightnessToJRoot_0,
      K.brightnessToJRoot_1, RealScalar.sqrt_eq]
    all_goals (have := Real.sqrt_pos.mpr hL; positivity)
  refine ⟨hj, ?_⟩
  generalize (k.lum c.c0).jRoot p = j at hj ⊢
  cases k <;> simp only [PKind.chr, Chr.alpha, colorfulnessToChroma, saturationToAlpha, K.saturationToAlpha_0, K.saturationToAlpha_1]
  all_goals positivity

/-- **the domain of the inverse model for ARBITRARY partial colours** (not only images of `from_xyz`): for each of the six partial
    types, a colour with positive luminance component and non-negative chromaticity component is converted by `into_xyz` without
    poison as soon as (i) the divisor `23p₁ + t(11cos h + 108 sin h)` of `r` is non-zero and (ii) the three recovered adapted
    responses lie inside `(−400, 400)` (outside, `Unadapt::run` takes a power of a negative number or divides by zero).  The value at
    `PReal` is then `ok` of the value at ℝ. -/
theorem intoXyz_defined_general (k : PKind) (c : V3 ℝ) (p : Dep ℝ) (P : Positive p) (hL : 0 < c.c0) (hC : 0 ≤ c.c1)
    (hdiv : rDivisor ((k.chr c.c1).alpha p ((k.lum c.c0).jRoot p)) (hueIntoRadians c.c2) p ≠ 0)
    (h400 : let rgb := inverseOpponent ((k.lum c.c0).jRoot p) ((k.chr c.c1).alpha p ((k.lum c.c0).jRoot p)) (hueIntoRadians c.c2) p
            |rgb.c0| < 400 ∧ |rgb.c1| < 400 ∧ |rgb.c2| < 400) :
    k.intoXyz c.lift (liftDep p) = (k.intoXyz c p).lift := by
  obtain ⟨hj, ha⟩ := partial_core_signs k c p P hL hC
  obtain ⟨r0, r1, r2⟩ := h400
  have hpos : 0 < (k.lum c.c0).value := by rw [lum_value_real]; exact hL
  have main : nonBlackCam16ToXyz (k.lum (ok c.c0)) (k.chr (ok c.c1)) (ok c.c2) (liftDep p)
      = (nonBlackCam16ToXyz (k.lum c.c0) (k.chr c.c1) c.c2 p).lift := by
    unfold nonBlackCam16ToXyz
    simp only [hueIntoRadians_T, lum_jRoot_T k _ p P hL.le, chr_alpha_T k _ _ p P hj.ne']
    unfold inverseCore
    rw [inverseOpponent_T _ _ _ p P hj.le ha hdiv, inverseFromAdapted_T _ p P r0 r1 r2]
  have hnb : ¬ Scalar.eqv (k.lum (ok c.c0)).value (0.0 : PReal) := by
    rw [lum_value_T, lum_value_real, show (0.0 : PReal) = ok (0.0:ℝ) from rfl, eqv_some]
    intro h0; rw [h0] at hL; norm_num at hL
  have hnb' : ¬ Scalar.eqv (k.lum c.c0).value (0.0 : ℝ) := not_eqv_zero_of_pos hpos
  unfold PKind.intoXyz cam16ToXyz
  simp only [V3.lift, if_neg hnb, if_neg hnb', main]

/-- condition (ii) is needed: at or beyond the saturation level `|c| ≥ 400` of the adapted response `Unadapt::run` is poison
    (division by `400 − |c| = 0`, or a non-integer power of the negative number `|c|/(400 − |c|)`) -/
theorem unadaptRun_outside_poison (k e c : ℝ) (hc : 400 ≤ |c|) : unadaptRun (ok k) (ok e) (ok c) = poison := by
  rcases eq_or_lt_of_le hc with h | h
  · have hd : (400.0:ℝ) - |c| = 0 := by norm_num; linarith
    simp only [unadaptRun, KP.unadapt_0, abs_some, sub_some, div_zero_of_eq _ _ hd, powf_none_left, mul_none]
  · have hd : (400.0:ℝ) - |c| ≠ 0 := by norm_num; linarith
    have hb : |c| / (400.0 - |c|) < 0 := div_neg_of_pos_of_neg (by linarith) (by norm_num; linarith)
    simp only [unadaptRun, KP.unadapt_0, abs_some, sub_some, div_some_of_ne _ _ hd, powf_some_of_neg _ _ hb, mul_none]

/-- … and a zero luminance component takes the black branch, whatever the other components are (even poison) -/
theorem intoXyz_black_general (k : PKind) (C h : PReal) (p : Dep PReal) :
    k.intoXyz ⟨ok 0, C, h⟩ p = (⟨0.0, 0.0, 0.0⟩ : V3 ℝ).lift := by
  apply partial_intoXyz_black
  show Scalar.eqv (ok 0) (ok (0.0:ℝ))
  rw [eqv_some]; norm_num

theorem chrOf_nonneg (k : PKind) (xyz : V3 ℝ) (p : Dep ℝ) (P : Positive p) (D : InDomain xyz p) :
    0 ≤ k.chrOf (xyzToCam16 xyz p) := by
  have ha := forward_alpha_nonneg xyz p P D
  have hj : 0 ≤ (forward xyz p).jRoot := by
    rw [forward_jRoot_eq]
    exact Real.rpow_nonneg (div_nonneg (mul_nonneg P.nBb.le D.achromatic) P.aW.le) _
  have hfl := P.fL4
  cases k <;> simp only [PKind.chrOf, xyzToCam16, calculateChroma, calculateColorfulness, calculateSaturation, K.calcSaturation_0,
    RealScalar.sqrt_eq]
  all_goals positivity

/-- **what exactly is missing for the model as it stands**: the composite `into_xyz ∘ from_xyz`, with the hue stored and read back
    through the model's own `from_radians` / `into_radians` (angle `θ′ = into_radians(from_radians(h_rad)) = h_rad·(1 − 1.9e-36)`), is
    finite at `PReal` for every kind, valid raw viewing conditions and every colour of `InDomain` with positive achromatic signal
    **provided** the two margins hold at `θ′`: the divisor of `r` is non-zero and the recovered adapted responses are inside
    `(−400, 400)`.  At `θ′ = h_rad` both hold (`rDivisor_forward_pos`, `C16.adaptRun_range`); carrying them over the perturbation is
    the open quantitative step. -/
theorem cam16_model_roundtrip_finite_of_margins (k : PKind) (prm : Parameters ℝ) (v : ValidRaw prm) (xyz : V3 ℝ)
    (D : InDomain xyz (prepareParameters prm)) (hA : 0 < achromaticSignal (forward xyz (prepareParameters prm)))
    (hdiv : rDivisor (forward xyz (prepareParameters prm)).alpha
              (hueIntoRadians (hueFromRadians (forward xyz (prepareParameters prm)).hRad)) (prepareParameters prm) ≠ 0)
    (h400 : let rgb := inverseOpponent (forward xyz (prepareParameters prm)).jRoot (forward xyz (prepareParameters prm)).alpha
              (hueIntoRadians (hueFromRadians (forward xyz (prepareParameters prm)).hRad)) (prepareParameters prm)
            |rgb.c0| < 400 ∧ |rgb.c1| < 400 ∧ |rgb.c2| < 400) :
    (k.intoXyz (k.fromXyz xyz.lift (prepareParameters (liftParameters prm))) (prepareParameters (liftParameters prm))).Finite := by
  have P := prepare_positive v
  rw [prepare_defined v, partial_fromXyz_defined k xyz _ P D]
  have hj := forward_jRoot_pos xyz _ P hA
  have ha := forward_alpha_nonneg xyz _ P D
  have hLpos := kinds_lum_pos k (alpha := (forward xyz (prepareParameters prm)).alpha)
    (hueFromRadians (forward xyz (prepareParameters prm)).hRad) _ P hj
  obtain ⟨e1, e2⟩ := kinds_recover_core k (hueFromRadians (forward xyz (prepareParameters prm)).hRad) _ P hj ha
  rw [← xyzToCam16_eq_attrs] at e1 e2 hLpos
  rw [lum_value_real] at hLpos
  have c0 : (k.fromXyz xyz (prepareParameters prm)).c0 = k.lumOf (xyzToCam16 xyz (prepareParameters prm)) := rfl
  have c1 : (k.fromXyz xyz (prepareParameters prm)).c1 = k.chrOf (xyzToCam16 xyz (prepareParameters prm)) := rfl
  have c2 : (k.fromXyz xyz (prepareParameters prm)).c2 = hueFromRadians (forward xyz (prepareParameters prm)).hRad := rfl
  refine ⟨_, intoXyz_defined_general k _ _ P (by rw [c0]; exact hLpos) (by rw [c1]; exact chrOf_nonneg k xyz _ P D) ?_ ?_⟩
  · rw [c0, c1, c2, e1, e2]; exact hdiv
  · rw [c0, c1, c2, e1, e2]; exact h400

/-! ## CAM16-UCS -/

/-- `Cam16UcsJmh ← Cam16Jmh`: `ln(1 + 0.0228 M)` needs `M > −43.86`, the lightness divisor `1 + 0.007 J ≠ 0`; both hold for `J, M ≥ 0` -/
theorem jmhToUcs_finite (c : V3 ℝ) (hJ : 0 ≤ c.c0) (hM : 0 ≤ c.c1) : (jmhToUcs c.lift).Finite := by
  have h1 : (0:ℝ) < 1.0 + 0.0228 * c.c1 := by positivity
  have h2 : (1.0:ℝ) + 0.007 * c.c0 ≠ 0 := by positivity
  have h3 : (0.0228:ℝ) ≠ 0 := by norm_num
  simp only [jmhToUcs, V3.lift, KP.jmhToUcs_0, KP.jmhToUcs_1, KP.jmhToUcs_2, KP.jmhToUcs_3, ofSci, mul_some, add_some, ln_some_of_pos _ h1,
    div_some_of_ne _ _ h3, div_some_of_ne _ _ h2]
  exact V3.finite_mk _ _ _

/-- `Cam16Jmh ← Cam16UcsJmh`: the lightness divisor `1.7 − 0.007 J′` vanishes at `J′ ≈ 242.9` only (UCS lightness is `≤ 100`) -/
theorem ucsToJmh_finite (c : V3 ℝ) (hJ : c.c0 ≤ 100) : (ucsToJmh c.lift).Finite := by
  have h2 : (1.7:ℝ) - 0.007 * c.c0 ≠ 0 := by
    have : (0:ℝ) < 1.7 - 0.007 * c.c0 := by nlinarith
    exact this.ne'
  have h3 : (0.0228:ℝ) ≠ 0 := by norm_num
  simp only [ucsToJmh, V3.lift, KP.ucsToJmh_0, KP.ucsToJmh_1, KP.ucsToJmh_2, KP.ucsToJmh_3, ofSci, mul_some, sub_some, exp_some,
    div_some_of_ne _ _ h3, div_some_of_ne _ _ h2]
  exact V3.finite_mk _ _ _

/-- outside the range the divisor can vanish: the hypothesis is needed -/
theorem ucsToJmh_poison : (ucsToJmh (⟨1.7 / 0.007, 0, 0⟩ : V3 ℝ).lift).c0 = poison := by
  have h2 : (1.7:ℝ) - 0.007 * (1.7 / 0.007) = 0 := by norm_num
  simp only [ucsToJmh, V3.lift, KP.ucsToJmh_2, KP.ucsToJmh_3, mul_some, sub_some, div_zero_of_eq _ _ h2]

/-- polar ↔ rectangular: total -/
theorem ucsJmhToJab_finite (c : V3 ℝ) : (ucsJmhToJab c.lift).Finite := by
  have h180 : (180.0:ℝ) ≠ 0 := by norm_num
  have e : (Scalar.const Cam16.PI : PReal) = ok (Scalar.const Cam16.PI : ℝ) := rfl
  simp only [ucsJmhToJab, hueIntoRawRadians, toRadians, V3.lift, e, ofSci, div_some_of_ne _ _ h180, mul_some, cos_some, sin_some, max_some]
  exact V3.finite_mk _ _ _
theorem ucsJabToJmh_finite (c : V3 ℝ) : (ucsJabToJmh c.lift).Finite := by
  have hr : 0 ≤ c.c1 * c.c1 + c.c2 * c.c2 := by nlinarith [mul_self_nonneg c.c1, mul_self_nonneg c.c2]
  have e : (Scalar.const Cam16.PI : PReal) = ok (Scalar.const Cam16.PI : ℝ) := rfl
  have e2 : ∀ x : ℝ, hueFromRadians (ok x) = ok (hueFromRadians x) := fun _ => rfl
  simp only [ucsJabToJmh, hypot, V3.lift, e, neg_some, atan2_some, add_some, mul_some, sqrt_some_of_nonneg _ hr, e2]
  exact V3.finite_mk _ _ _

example : (jmhToUcs (⟨50, 40, 120⟩ : V3 ℝ).lift).Finite ∧ (ucsToJmh (⟨63, 28, 120⟩ : V3 ℝ).lift).Finite :=
  ⟨jmhToUcs_finite _ (by norm_num) (by norm_num), ucsToJmh_finite _ (by norm_num)⟩

/-- the forward attributes are non-negative on the domain -/
theorem forward_J_M_nonneg (xyz : V3 ℝ) (p : Dep ℝ) (P : Positive p) (D : InDomain xyz p) :
    0 ≤ (xyzToCam16 xyz p).lightness ∧ 0 ≤ (xyzToCam16 xyz p).colorfulness := by
  have ha := forward_alpha_nonneg xyz p P D
  have hj : 0 ≤ (forward xyz p).jRoot := by
    rw [forward_jRoot_eq]
    exact Real.rpow_nonneg (div_nonneg (mul_nonneg P.nBb.le D.achromatic) P.aW.le) _
  have hfl := P.fL4
  constructor
  · simp only [xyzToCam16, calculateLightness, K.calcLightness_0]; positivity
  · simp only [xyzToCam16, calculateColorfulness, calculateChroma]; positivity

/-- **`Xyz → Cam16Jmh → Cam16UcsJmh → Cam16UcsJab` is finite on `InDomain`**, valid raw viewing conditions -/
theorem xyz_to_ucs_finite (prm : Parameters ℝ) (v : ValidRaw prm) (xyz : V3 ℝ) (D : InDomain xyz (prepareParameters prm)) :
    (ucsJmhToJab (jmhToUcs (PKind.Jmh.fromXyz xyz.lift (prepareParameters (liftParameters prm))))).Finite := by
  have P := prepare_positive v
  rw [prepare_defined v, partial_fromXyz_defined .Jmh xyz _ P D]
  obtain ⟨hJ, hM⟩ := forward_J_M_nonneg xyz _ P D
  obtain ⟨r, hr⟩ := jmhToUcs_finite (PKind.Jmh.fromXyz xyz (prepareParameters prm)) hJ hM
  rw [hr]
  exact ucsJmhToJab_finite r

/-- non-vacuity: the mid grey under the repo's D65 test conditions -/
example :
    let prm : Parameters ℝ := ⟨⟨0.95047, 1.0, 1.08883⟩, 40.0, 0.2, .average, .auto⟩
    (ucsJmhToJab (jmhToUcs (PKind.Jmh.fromXyz (⟨0.2, 0.2, 0.2⟩ : V3 ℝ).lift (prepareParameters (liftParameters prm))))).Finite :=
  xyz_to_ucs_finite _ (validRaw_d65 .average .auto) _ grey_inDomain.1

end C07
