/-
  C07, CAM16: the forward model (`Cam16::from_xyz`, the six partial types) at `PReal`, chained through what the C16 modules provide
  (`C16.prepare_defined`: every baked parameter is defined for valid raw viewing conditions; `C16.forward_defined_iff`: `J_root` and
  `α` are defined exactly on `C16.InDomain`; `C16.witness_outside`).

  * `xyzToCam16_defined`: on `InDomain` all six attributes (J, C, h, Q, M, s) evaluated at `PReal` are `ok` of their real values —
    with hypotheses on the RAW viewing conditions only in `cam16_fromXyz_finite`;
  * `xyzToCam16_finite_iff`, `partial_fromXyz_finite_iff`: the full colour, and **each of the six partial types**, is finite *iff*
    the colour is in `InDomain` — the domain is exact for every output type, none of them avoids the NaN;
  * the finding **cam16-negative-achromatic-C07** as theorems: `cam16_negative_achromatic` (the rational witness of
    `C16.witness_outside`, in range for the equal-energy white), and a *family* of in-range counterexamples:
    `near_blue_axis_outside` — under D65 **every** `Xyz(0, Y, Z)` with `Z > 0`, `0 ≤ Y ≤ 0.00198·Z` (the blue axis and a wedge
    around it), under **every** valid viewing condition (`L_A`, `Y_b`, surround, discounting arbitrary) has a negative achromatic
    signal, so lightness, brightness, chroma and colourfulness are poison in `Cam16` and in all six partial types
    (`d65_near_blue_axis_poison`); the general criterion on the adapted cone responses is `achromatic_neg_of_cones`;
  * a sufficient condition for `InDomain` in terms of XYZ: non-negative CAT16 cone responses (`inDomain_of_cone_nonneg`), in
    particular every colour with `X, Y, Z ≥ 0`, `Y ≥ 0.0792·Z` and `Y ≥ 0.2078·X` ("enough luminance for its blue and red
    content", `inDomain_of_luminance`), the whole neutral axis, and **the whole sRGB gamut**, components above 1 included
    (`srgb_gamut_inDomain`; the chain `Rgb<Srgb> → Xyz → Cam16` is finite for all components `≥ 0`: `srgb_to_cam16_finite`).
  The inverse model is in `C07_FiniteCam16Inv.lean`.
-/
import PaletteProofs.C16_Cam16Defined
import PaletteProofs.C07_Finite
import PaletteProofs.Lemmas.Cam16ConstsP2

set_option linter.unusedSimpArgs false
set_option linter.unusedVariables false

namespace C07
open Cam16 PReal C16

theorem lit100 : (100.0:ℝ) = 100 := by norm_num

/-- a real full CAM16 colour read at `PReal` -/
def liftFull (f : Full ℝ) : Full PReal :=
  { lightness := ok f.lightness, chroma := ok f.chroma, hue := ok f.hue, brightness := ok f.brightness,
    colorfulness := ok f.colorfulness, saturation := ok f.saturation }

/-- no attribute is poison -/
def FullFinite (f : Full PReal) : Prop := ∃ r : Full ℝ, f = liftFull r

/-! ## the attributes from `J_root`, `α`, `h` -/

theorem hueFromRadians_T (θ : ℝ) : hueFromRadians (ok θ) = ok (hueFromRadians θ) := rfl

theorem calculateLightness_T (j : ℝ) : calculateLightness (ok j) = ok (calculateLightness j) := rfl

theorem calculateBrightness_T (j c aw fl4 : ℝ) (hc : c ≠ 0) :
    calculateBrightness (ok j) (ok c) (ok aw) (ok fl4) = ok (calculateBrightness j c aw fl4) := by
  simp only [calculateBrightness, KP.calcBrightness_0, KP.calcBrightness_1, K.calcBrightness_0, K.calcBrightness_1,
    div_some_of_ne _ _ hc, mul_some, add_some]

theorem calculateChroma_T (j a : ℝ) : calculateChroma (ok j) (ok a) = ok (calculateChroma j a) := rfl
theorem calculateColorfulness_T (f c : ℝ) : calculateColorfulness (ok f) (ok c) = ok (calculateColorfulness f c) := rfl

theorem calculateSaturation_T (c aw alpha : ℝ) (hc : 0 ≤ c) (haw : 0 < aw + 4.0) (ha : 0 ≤ alpha) :
    calculateSaturation (ok c) (ok aw) (ok alpha) = ok (calculateSaturation c aw alpha) := by
  have hr : 0 ≤ c * alpha / (aw + 4.0) := by positivity
  simp only [calculateSaturation, KP.calcSaturation_0, KP.calcSaturation_1, K.calcSaturation_0, K.calcSaturation_1, mul_some, add_some,
    div_some_of_ne _ _ haw.ne', sqrt_some_of_nonneg _ hr, RealScalar.sqrt_eq]

/-- **the forward model is finite on its domain**: all six attributes of `xyz_to_cam16` evaluated at `PReal` are `ok` of the real
    attributes (positive baked parameters) -/
theorem xyzToCam16_defined (xyz : V3 ℝ) (p : Dep ℝ) (P : Positive p) (D : InDomain xyz p) :
    xyzToCam16 xyz.lift (liftDep p) = liftFull (xyzToCam16 xyz p) := by
  have hc : 0 < p.c := by have := P.c_lo; linarith
  have haw : 0 < p.aW + 4.0 := by have := P.aW; norm_num; linarith
  have ha := forward_alpha_nonneg xyz p P D
  have e := forward_defined xyz p P D
  simp only [xyzToCam16, e]
  simp only [liftFwd, liftDep, liftFull, hueFromRadians_T, calculateLightness_T, calculateBrightness_T _ _ _ _ hc.ne',
    calculateChroma_T, calculateColorfulness_T, calculateSaturation_T _ _ _ hc.le haw ha]

/-- **`Cam16::from_xyz` is finite for every colour of `InDomain` under every valid set of raw viewing conditions** (hypotheses on the
    raw `Parameters` and the colour only; `prepare_parameters` is evaluated at `PReal` too) -/
theorem cam16_fromXyz_finite (prm : Parameters ℝ) (v : ValidRaw prm) (xyz : V3 ℝ) (D : InDomain xyz (prepareParameters prm)) :
    xyzToCam16 xyz.lift (prepareParameters (liftParameters prm)) = liftFull (xyzToCam16 xyz (prepareParameters prm)) := by
  rw [prepare_defined v]
  exact xyzToCam16_defined xyz _ (prepare_positive v) D

/-- non-vacuity: the mid grey under the repo's D65 test conditions -/
example :
    let prm : Parameters ℝ := ⟨⟨0.95047, 1.0, 1.08883⟩, 40.0, 0.2, .average, .auto⟩
    FullFinite (xyzToCam16 (⟨0.2, 0.2, 0.2⟩ : V3 ℝ).lift (prepareParameters (liftParameters prm))) :=
  ⟨_, cam16_fromXyz_finite _ (validRaw_d65 .average .auto) _ grey_inDomain.1⟩

/-! ### … and only there -/

theorem mul_ne_poison {a b : PReal} (h : a * b ≠ poison) : a ≠ poison ∧ b ≠ poison := by
  constructor
  · rintro rfl; exact h (none_mul _)
  · rintro rfl; exact h (mul_none _)

theorem ok_ne_poison' {x : PReal} {r : ℝ} (h : x = ok r) : x ≠ poison := by rw [h]; exact some_ne_none r

/-- lightness and brightness are poison as soon as `J_root` is, chroma and colourfulness as soon as `J_root` or `α` is, saturation as
    soon as `α` is -/
theorem attrs_poison (w : Fwd PReal) (c aw fl4 : PReal) :
    (calculateLightness w.jRoot ≠ poison → w.jRoot ≠ poison) ∧
    (calculateBrightness w.jRoot c aw fl4 ≠ poison → w.jRoot ≠ poison) ∧
    (calculateChroma w.jRoot w.alpha ≠ poison → w.jRoot ≠ poison ∧ w.alpha ≠ poison) ∧
    (calculateColorfulness fl4 (calculateChroma w.jRoot w.alpha) ≠ poison → w.jRoot ≠ poison ∧ w.alpha ≠ poison) ∧
    (calculateSaturation c aw w.alpha ≠ poison → w.alpha ≠ poison) := by
  refine ⟨?_, ?_, ?_, ?_, ?_⟩
  · intro h; exact (mul_ne_poison h).2
  · intro h; exact (mul_ne_poison (mul_ne_poison (mul_ne_poison h).1).1).2
  · intro h; exact mul_ne_poison h
  · intro h; exact mul_ne_poison (mul_ne_poison h).2
  · intro h hp
    apply h
    simp only [calculateSaturation, hp, mul_none, none_div, sqrt_none]

/-- the luminance-like component of every partial type is a multiple of `J_root`, the chroma-like one needs `α` -/
theorem partial_components_poison (k : PKind) (xyz : V3 PReal) (p : Dep PReal)
    (h0 : (k.fromXyz xyz p).c0 ≠ poison) (h1 : (k.fromXyz xyz p).c1 ≠ poison) :
    (forward xyz p).jRoot ≠ poison ∧ (forward xyz p).alpha ≠ poison := by
  obtain ⟨a1, a2, a3, a4, a5⟩ := attrs_poison (forward xyz p) p.c p.aW p.fL4
  cases k <;> simp only [PKind.fromXyz, PKind.fromFull, PKind.lumOf, PKind.chrOf, xyzToCam16] at h0 h1
  · exact a3 h1
  · exact a4 h1
  · exact ⟨a1 h0, a5 h1⟩
  · exact a3 h1
  · exact a4 h1
  · exact ⟨a2 h0, a5 h1⟩

/-- **exact domain, each of the six partial types**: `Cam16Jch/Jmh/Jsh/Qch/Qmh/Qsh::from_xyz` is finite iff the colour is in
    `InDomain` — no partial type avoids the NaN of the finding -/
theorem partial_fromXyz_finite_iff (k : PKind) (xyz : V3 ℝ) (p : Dep ℝ) (P : Positive p) :
    (k.fromXyz xyz.lift (liftDep p)).Finite ↔ InDomain xyz p := by
  constructor
  · intro hf
    obtain ⟨h0, h1, _⟩ := (V3.finite_iff _).mp hf
    exact (forward_defined_iff xyz p P).mp (partial_components_poison k _ _ h0 h1)
  · intro D
    rw [partial_fromXyz_eq_projection, xyzToCam16_defined xyz p P D]
    refine ⟨k.fromFull (xyzToCam16 xyz p), ?_⟩
    cases k <;> rfl

/-- the value on the domain: the six partial forms at `PReal` are the real partial colours -/
theorem partial_fromXyz_defined (k : PKind) (xyz : V3 ℝ) (p : Dep ℝ) (P : Positive p) (D : InDomain xyz p) :
    k.fromXyz xyz.lift (liftDep p) = (k.fromXyz xyz p).lift := by
  rw [partial_fromXyz_eq_projection, xyzToCam16_defined xyz p P D]
  cases k <;> rfl

/-- **exact domain, the full colour** -/
theorem xyzToCam16_finite_iff (xyz : V3 ℝ) (p : Dep ℝ) (P : Positive p) :
    FullFinite (xyzToCam16 xyz.lift (liftDep p)) ↔ InDomain xyz p := by
  constructor
  · rintro ⟨r, hr⟩
    apply (partial_fromXyz_finite_iff .Jch xyz p P).mp
    rw [partial_fromXyz_eq_projection, hr]
    exact ⟨⟨r.lightness, r.chroma, r.hue⟩, rfl⟩
  · intro D; exact ⟨_, xyzToCam16_defined xyz p P D⟩

/-- under raw hypotheses, all six partial types at once -/
theorem cam16_partials_finite_iff (prm : Parameters ℝ) (v : ValidRaw prm) (xyz : V3 ℝ) :
    (∀ k : PKind, (k.fromXyz xyz.lift (prepareParameters (liftParameters prm))).Finite) ↔ InDomain xyz (prepareParameters prm) := by
  rw [prepare_defined v]
  constructor
  · intro h; exact (partial_fromXyz_finite_iff .Jch xyz _ (prepare_positive v)).mp (h .Jch)
  · intro D k; exact (partial_fromXyz_finite_iff k xyz _ (prepare_positive v)).mpr D

/-! ## the finding cam16-negative-achromatic-C07 -/

/-- **finding cam16-negative-achromatic-C07 as a theorem**: there are valid raw viewing conditions and a colour inside the documented
    range of `Xyz` for that white point (`0 ≤ X ≤ X_w`, `0 ≤ Y ≤ Y_w`, `0 ≤ Z ≤ Z_w`, every component on a bound or far from it) whose
    CAM16 lightness, brightness and chroma are poison — and with them the first or second component of each of the six partial types.
    Witness (`C16.witness_outside`): equal-energy white, `L_A = 40`, `Y_b = 0.2`, average surround, `Xyz(0, 0, 1/2)`. -/
theorem cam16_negative_achromatic :
    ∃ (prm : Parameters ℝ) (xyz : V3 ℝ), ValidRaw prm ∧
      (0 ≤ xyz.c0 ∧ xyz.c0 ≤ prm.whitePoint.c0) ∧ (0 ≤ xyz.c1 ∧ xyz.c1 ≤ prm.whitePoint.c1) ∧ (0 ≤ xyz.c2 ∧ xyz.c2 ≤ prm.whitePoint.c2) ∧
      (xyzToCam16 xyz.lift (prepareParameters (liftParameters prm))).lightness = poison ∧
      (xyzToCam16 xyz.lift (prepareParameters (liftParameters prm))).brightness = poison ∧
      (xyzToCam16 xyz.lift (prepareParameters (liftParameters prm))).chroma = poison ∧
      ∀ k : PKind, ¬ (k.fromXyz xyz.lift (prepareParameters (liftParameters prm))).Finite := by
  obtain ⟨hD, _, h1, h2, h3⟩ := witness_outside
  refine ⟨witnessPrm, witnessXyz, witness_valid, ?_, ?_, ?_, h1, h2, h3, ?_⟩
  · simp only [witnessXyz, witnessPrm]; norm_num
  · simp only [witnessXyz, witnessPrm]; norm_num
  · simp only [witnessXyz, witnessPrm]; norm_num
  · intro k hf
    rw [prepare_defined witness_valid] at hf
    exact hD ((partial_fromXyz_finite_iff k _ _ (prepare_positive witness_valid)).mp hf)

/-! ### a family: the blue axis and its neighbourhood -/

/-- the compression is monotone and sub-linear, so a colour whose adapted cone responses satisfy `R_c < 0`, `0 ≤ G_c ≤ |R_c|`,
    `0 ≤ B_c ≤ 19·|R_c|` has a negative achromatic signal: `2R_a + G_a + 0.05B_a ≤ (−2 + 1 + 0.05·19)·|R_a| < 0` -/
theorem achromatic_neg_of_cones (xyz : V3 ℝ) (p : Dep ℝ) (hf : 0 < p.adaptFL)
    (hR : (coneAdapted xyz p).c0 < 0) (hG0 : 0 ≤ (coneAdapted xyz p).c1) (hG : (coneAdapted xyz p).c1 ≤ -(coneAdapted xyz p).c0)
    (hB0 : 0 ≤ (coneAdapted xyz p).c2) (hB : (coneAdapted xyz p).c2 ≤ 19 * -(coneAdapted xyz p).c0) :
    achromaticSignal (forward xyz p) < 0 := by
  obtain ⟨e0, e1, e2⟩ := forward_adapted xyz p
  generalize (coneAdapted xyz p).c0 = R at *
  generalize (coneAdapted xyz p).c1 = G at *
  generalize (coneAdapted xyz p).c2 = B at *
  set fL := p.adaptFL with hfL
  have hr : 0 < -R := by linarith
  have e0' : (forward xyz p).rA = -adaptMag fL (-R) := by
    rw [e0, show R = -(-R) by ring, adaptRun_neg, adaptRun_pos_eq_mag hr, neg_neg]
  have m0 : 0 < adaptMag fL (-R) := by
    rw [adaptMag_eq_gOf]; apply gOf_pos; apply Real.rpow_pos_of_pos
    have : (0:ℝ) < |-R| := abs_pos.mpr hr.ne'
    positivity
  have nn : ∀ x : ℝ, 0 ≤ x → adaptRun fL x ≤ adaptMag fL x := by
    intro x hx
    rcases eq_or_lt_of_le hx with h | h
    · rw [← h, adaptRun_zero]; unfold adaptMag; positivity
    · rw [adaptRun_pos_eq_mag h]
  have eG := nn G hG0
  have eB := nn B hB0
  have m1 : adaptMag fL G ≤ adaptMag fL (-R) := adaptMag_le_of_abs_le hf (by rw [abs_of_nonneg hG0, abs_of_pos hr]; exact hG)
  have m2 : adaptMag fL B ≤ 19 * adaptMag fL (-R) := adaptMag_le_scale hf (by norm_num) (by rw [abs_of_nonneg hB0, abs_of_pos hr]; exact hB)
  unfold achromaticSignal
  rw [e0', e1, e2]
  norm_num at *
  nlinarith

/-- D65 with arbitrary luminances, surround and discounting -/
noncomputable def d65Prm (la yb : ℝ) (s : Surround ℝ) (d : Discounting ℝ) : Parameters ℝ := ⟨⟨0.95047, 1.0, 1.08883⟩, la, yb, s, d⟩

theorem d65Prm_valid (la yb : ℝ) (hla : 0 < la) (hyb : 0 < yb) (s : Surround ℝ) (d : Discounting ℝ) : ValidRaw (d65Prm la yb s d) := by
  refine ⟨hla, hyb, by norm_num [d65Prm], ?_, ?_, ?_⟩ <;> · simp only [d65Prm, m16_eq]; norm_num

/-- the D65 channel factors for any degree of adaptation `D ∈ [0, 1]`: `D_R ≥ 1 ≥ D_G, D_B > 0` -/
theorem d65_dRgb_bounds (la yb : ℝ) (s : Surround ℝ) (d : Discounting ℝ) :
    1 ≤ (prepareParameters (d65Prm la yb s d)).dRgb.c0 ∧ (prepareParameters (d65Prm la yb s d)).dRgb.c1 ≤ 1 ∧
    (prepareParameters (d65Prm la yb s d)).dRgb.c2 ≤ 1 := by
  obtain ⟨D, D0, D1, e⟩ := prepare_dRgb (d65Prm la yb s d)
  rw [e]
  simp only [whiteCones, d65Prm, m16_eq, lerp_eq]
  norm_num
  refine ⟨?_, ?_, ?_⟩ <;> nlinarith

/-- **a family of in-range counterexamples**: under D65 and *every* valid viewing condition (`L_A`, `Y_b`, surround, discounting
    arbitrary), *every* colour `Xyz(0, Y, Z)` with `Z > 0` and `0 ≤ Y ≤ 0.00198·Z` — the blue axis `Y = 0` and a wedge around it; in
    range for `Z ≤ 1.08883` — has a negative achromatic signal, hence is outside `InDomain` -/
theorem near_blue_axis_outside (la yb : ℝ) (hla : 0 < la) (hyb : 0 < yb) (s : Surround ℝ) (d : Discounting ℝ) (Y Z : ℝ)
    (hY0 : 0 ≤ Y) (hYZ : Y ≤ 0.00198 * Z) (hZ : 0 < Z) :
    achromaticSignal (forward ⟨0, Y, Z⟩ (prepareParameters (d65Prm la yb s d))) < 0 ∧
    ¬ InDomain ⟨0, Y, Z⟩ (prepareParameters (d65Prm la yb s d)) := by
  have v := d65Prm_valid la yb hla hyb s d
  have P := prepare_positive v
  obtain ⟨b0, b1, b2⟩ := d65_dRgb_bounds la yb s d
  have d0 := P.d0; have d1 := P.d1; have d2 := P.d2
  generalize prepareParameters (d65Prm la yb s d) = p at *
  have c0 : (coneAdapted ⟨0, Y, Z⟩ p).c0 = -((5.1461 * Z - 65.0173 * Y) * p.dRgb.c0) := by
    simp only [coneAdapted, mul3, m16_eq, lit100]; ring
  have c1 : (coneAdapted ⟨0, Y, Z⟩ p).c1 = (120.4414 * Y + 4.5854 * Z) * p.dRgb.c1 := by
    simp only [coneAdapted, mul3, m16_eq, lit100]; ring
  have c2 : (coneAdapted ⟨0, Y, Z⟩ p).c2 = (4.8952 * Y + 95.3127 * Z) * p.dRgb.c2 := by
    simp only [coneAdapted, mul3, m16_eq, lit100]; ring
  have hr : 0 < 5.1461 * Z - 65.0173 * Y := by nlinarith
  have hg : 0 ≤ 120.4414 * Y + 4.5854 * Z := by positivity
  have hb : 0 ≤ 4.8952 * Y + 95.3127 * Z := by positivity
  have h : achromaticSignal (forward ⟨0, Y, Z⟩ p) < 0 := by
    apply achromatic_neg_of_cones _ p P.fL
    · rw [c0]; have := mul_pos hr d0; linarith
    · rw [c1]; positivity
    · rw [c0, c1, neg_neg]
      calc (120.4414 * Y + 4.5854 * Z) * p.dRgb.c1 ≤ (120.4414 * Y + 4.5854 * Z) * 1 := mul_le_mul_of_nonneg_left b1 hg
        _ ≤ (5.1461 * Z - 65.0173 * Y) * 1 := by nlinarith
        _ ≤ (5.1461 * Z - 65.0173 * Y) * p.dRgb.c0 := mul_le_mul_of_nonneg_left b0 hr.le
    · rw [c2]; positivity
    · rw [c0, c2, neg_neg]
      calc (4.8952 * Y + 95.3127 * Z) * p.dRgb.c2 ≤ (4.8952 * Y + 95.3127 * Z) * 1 := mul_le_mul_of_nonneg_left b2 hb
        _ ≤ 19 * ((5.1461 * Z - 65.0173 * Y) * 1) := by nlinarith
        _ ≤ 19 * ((5.1461 * Z - 65.0173 * Y) * p.dRgb.c0) := by
            have := mul_le_mul_of_nonneg_left b0 hr.le; linarith
  exact ⟨h, fun D => absurd D.achromatic (not_le.mpr h)⟩

/-- the blue axis itself -/
theorem blue_axis_outside (la yb : ℝ) (hla : 0 < la) (hyb : 0 < yb) (s : Surround ℝ) (d : Discounting ℝ) (Z : ℝ) (hZ : 0 < Z) :
    achromaticSignal (forward ⟨0, 0, Z⟩ (prepareParameters (d65Prm la yb s d))) < 0 ∧
    ¬ InDomain ⟨0, 0, Z⟩ (prepareParameters (d65Prm la yb s d)) :=
  near_blue_axis_outside la yb hla hyb s d 0 Z le_rfl (by positivity) hZ

/-- … so lightness, brightness, chroma, colourfulness are poison and none of the six partial types is finite -/
theorem d65_near_blue_axis_poison (la yb : ℝ) (hla : 0 < la) (hyb : 0 < yb) (s : Surround ℝ) (d : Discounting ℝ) (Y Z : ℝ)
    (hY0 : 0 ≤ Y) (hYZ : Y ≤ 0.00198 * Z) (hZ : 0 < Z) :
    let f := xyzToCam16 (⟨0, Y, Z⟩ : V3 ℝ).lift (prepareParameters (liftParameters (d65Prm la yb s d)))
    f.lightness = poison ∧ f.brightness = poison ∧ f.chroma = poison ∧ f.colorfulness = poison ∧
    ∀ k : PKind, ¬ (k.fromXyz (⟨0, Y, Z⟩ : V3 ℝ).lift (prepareParameters (liftParameters (d65Prm la yb s d)))).Finite := by
  intro f
  have v := d65Prm_valid la yb hla hyb s d
  have P := prepare_positive v
  obtain ⟨hA, hD⟩ := near_blue_axis_outside la yb hla hyb s d Y Z hY0 hYZ hZ
  have hj : (forward (⟨0, Y, Z⟩ : V3 ℝ).lift (prepareParameters (liftParameters (d65Prm la yb s d)))).jRoot = poison := by
    rw [prepare_defined v]; exact forward_jRoot_poison _ _ P hA
  refine ⟨?_, ?_, ?_, ?_, ?_⟩
  · simp only [f, xyzToCam16, calculateLightness, hj, mul_none, none_mul]
  · simp only [f, xyzToCam16, calculateBrightness, hj, mul_none, none_mul]
  · simp only [f, xyzToCam16, calculateChroma, hj, mul_none, none_mul]
  · simp only [f, xyzToCam16, calculateColorfulness, calculateChroma, hj, mul_none, none_mul]
  · intro k hf
    rw [prepare_defined v] at hf
    exact hD ((partial_fromXyz_finite_iff k _ _ P).mp hf)

/-- the lattice colours of the known finding are members: `Xyz<D65>(0, 0, 0.544415)`, `Xyz(0, 1e-9, 1.08883)`,
    `Xyz(0, 0, 1.08883e-9)`, and the corner `Xyz(0, 0, 1.08883)` -/
example : ¬ InDomain ⟨0, 0, 0.544415⟩ (prepareParameters (d65Prm 40 0.2 .average .auto)) ∧
    ¬ InDomain ⟨0, 1e-9, 1.08883⟩ (prepareParameters (d65Prm 40 0.2 .average .auto)) ∧
    ¬ InDomain ⟨0, 0, 1.08883e-9⟩ (prepareParameters (d65Prm 40 0.2 .average .auto)) ∧
    ¬ InDomain ⟨0, 0, 1.08883⟩ (prepareParameters (d65Prm 40 0.2 .average .auto)) :=
  ⟨(blue_axis_outside 40 0.2 (by norm_num) (by norm_num) _ _ _ (by norm_num)).2,
   (near_blue_axis_outside 40 0.2 (by norm_num) (by norm_num) _ _ _ _ (by norm_num) (by norm_num) (by norm_num)).2,
   (blue_axis_outside 40 0.2 (by norm_num) (by norm_num) _ _ _ (by norm_num)).2,
   (blue_axis_outside 40 0.2 (by norm_num) (by norm_num) _ _ _ (by norm_num)).2⟩

/-! ## a sufficient condition for `InDomain` in terms of XYZ -/

/-- non-negative adapted cone responses are inside the domain (extends `C16.inDomain_of_pos` to the faces: black, and colours with a
    vanishing cone response) -/
theorem inDomain_of_cone_nonneg {xyz : V3 ℝ} {p : Dep ℝ} (hf : 0 < p.adaptFL)
    (h0 : 0 ≤ (coneAdapted xyz p).c0) (h1 : 0 ≤ (coneAdapted xyz p).c1) (h2 : 0 ≤ (coneAdapted xyz p).c2) : InDomain xyz p := by
  obtain ⟨e0, e1, e2⟩ := forward_adapted xyz p
  have nn : ∀ x : ℝ, 0 ≤ x → 0 ≤ adaptRun p.adaptFL x := by
    intro x hx
    rcases eq_or_lt_of_le hx with h | h
    · rw [← h, adaptRun_zero]
    · exact (adaptRun_pos_range hf h).1.le
  have hR := nn _ h0
  have hG := nn _ h1
  have hB := nn _ h2
  constructor
  · simp only [achromaticSignal, e0, e1, e2]; positivity
  · simp only [tDenominator, e0, e1, e2]; positivity

/-- in terms of the colour alone: non-negative CAT16 cone responses `M16·xyz`, under any valid raw viewing conditions -/
theorem inDomain_of_m16_nonneg (prm : Parameters ℝ) (v : ValidRaw prm) (xyz : V3 ℝ)
    (h0 : 0 ≤ (m16 xyz).c0) (h1 : 0 ≤ (m16 xyz).c1) (h2 : 0 ≤ (m16 xyz).c2) : InDomain xyz (prepareParameters prm) := by
  have P := prepare_positive v
  have e : m16 xyz = m16 ⟨xyz.c0, xyz.c1, xyz.c2⟩ := rfl
  rw [e, m16_eq] at h0 h1 h2
  simp only [] at h0 h1 h2
  refine inDomain_of_cone_nonneg P.fL ?_ ?_ ?_
  · simp only [coneAdapted, mul3, m16_eq]; apply mul_nonneg _ P.d0.le; nlinarith
  · simp only [coneAdapted, mul3, m16_eq]; apply mul_nonneg _ P.d1.le; nlinarith
  · simp only [coneAdapted, mul3, m16_eq]; apply mul_nonneg _ P.d2.le; nlinarith

/-- **explicit sufficient condition**: a colour with `X, Y, Z ≥ 0` whose luminance is at least `0.0792` of its `Z` and `0.2078` of its
    `X` is in the domain of CAM16 under every valid viewing condition.  (The colours of the finding have `Y ≈ 0` with `Z > 0`.) -/
theorem inDomain_of_luminance (prm : Parameters ℝ) (v : ValidRaw prm) (xyz : V3 ℝ) (hx : 0 ≤ xyz.c0) (hz : 0 ≤ xyz.c2)
    (hYZ : 0.0792 * xyz.c2 ≤ xyz.c1) (hYX : 0.2078 * xyz.c0 ≤ xyz.c1) : InDomain xyz (prepareParameters prm) := by
  have e : m16 xyz = m16 ⟨xyz.c0, xyz.c1, xyz.c2⟩ := rfl
  apply inDomain_of_m16_nonneg prm v xyz <;> rw [e, m16_eq] <;> simp only [] <;> nlinarith

/-- non-vacuity: an ordinary green-ish colour under D65 -/
example : InDomain ⟨0.3, 0.4, 0.2⟩ (prepareParameters (d65Prm 40 0.2 .average .auto)) :=
  inDomain_of_luminance _ (d65Prm_valid 40 0.2 (by norm_num) (by norm_num) _ _) _ (by norm_num) (by norm_num) (by norm_num) (by norm_num)

/-- the neutral axis `t·(X_w, Y_w, Z_w)`, `t ≥ 0`, of any valid white point -/
theorem neutral_axis_inDomain (prm : Parameters ℝ) (v : ValidRaw prm) (t : ℝ) (ht : 0 ≤ t) :
    InDomain ⟨t * prm.whitePoint.c0, t * prm.whitePoint.c1, t * prm.whitePoint.c2⟩ (prepareParameters prm) := by
  have c0 := v.cone0; have c1 := v.cone1; have c2 := v.cone2
  have e : m16 prm.whitePoint = m16 ⟨prm.whitePoint.c0, prm.whitePoint.c1, prm.whitePoint.c2⟩ := rfl
  rw [e, m16_eq] at c0 c1 c2
  simp only [] at c0 c1 c2
  apply inDomain_of_m16_nonneg prm v <;> rw [m16_eq] <;> simp only [] <;> nlinarith

/-- **the whole sRGB gamut** (linear components `≥ 0`, no upper bound needed) lies in the domain: the three primaries have positive
    cone responses.  `M` is the crate's `Srgb → Xyz` table (`C07.srgbToXyz`, tied to `Gen.Mat` by `tables_are_generated`). -/
theorem srgb_gamut_inDomain (prm : Parameters ℝ) (v : ValidRaw prm) (r g b : ℝ) (hr : 0 ≤ r) (hg : 0 ≤ g) (hb : 0 ≤ b) :
    InDomain ⟨0.4124564 * r + 0.3575761 * g + 0.1804375 * b, 0.2126729 * r + 0.7151522 * g + 0.0721750 * b,
              0.0193339 * r + 0.1191920 * g + 0.9503041 * b⟩ (prepareParameters prm) := by
  apply inDomain_of_m16_nonneg prm v <;> rw [m16_eq] <;> simp only [] <;> nlinarith

/-! ### the chain `Rgb<Srgb> → Xyz → Cam16` -/

theorem srgbIntoLinear_nonneg (x : ℝ) (h : 0 ≤ x) : ∃ r, 0 ≤ r ∧ Transfer.srgbIntoLinear (ok x) = ok r := by
  unfold Transfer.srgbIntoLinear
  norm_num
  split_ifs with hx
  · exact ⟨_, by positivity, rfl⟩
  · have hb : (0:ℝ) < x * (200 / 211) + 11 / 211 := by positivity
    rw [powf_some_of_pos _ _ hb]; exact ⟨_, Real.rpow_nonneg hb.le _, rfl⟩

/-- `Xyz ← Rgb<Srgb>` on components `≥ 0` is a real colour of the sRGB cone -/
theorem rgbToXyz_srgb_value (c : V3 ℝ) (h0 : 0 ≤ c.c0) (h1 : 0 ≤ c.c1) (h2 : 0 ≤ c.c2) :
    ∃ r g b : ℝ, 0 ≤ r ∧ 0 ≤ g ∧ 0 ≤ b ∧ RgbFam.rgbToXyz srgbToXyz .srgb c.lift =
      (⟨0.4124564 * r + 0.3575761 * g + 0.1804375 * b, 0.2126729 * r + 0.7151522 * g + 0.0721750 * b,
        0.0193339 * r + 0.1191920 * g + 0.9503041 * b⟩ : V3 ℝ).lift := by
  obtain ⟨r, hr, er⟩ := srgbIntoLinear_nonneg c.c0 h0
  obtain ⟨g, hg, eg⟩ := srgbIntoLinear_nonneg c.c1 h1
  obtain ⟨b, hb, eb⟩ := srgbIntoLinear_nonneg c.c2 h2
  refine ⟨r, g, b, hr, hg, hb, ?_⟩
  unfold RgbFam.rgbToXyz RgbFam.intoLinear V3.map
  rw [srgbToXyz_lit]
  simp only [V3.lift, Transfer.intoLinear, er, eg, eb, M3.mulVec, mul_some, add_some]

/-- **`Rgb<Srgb> → Xyz → Cam16` is finite for every sRGB colour with components `≥ 0`** (in particular on the documented range
    `[0, 1]³`), under every valid raw viewing condition: the intermediate stays in the hypothesis set `InDomain` of the second edge -/
theorem srgb_to_cam16_finite (prm : Parameters ℝ) (v : ValidRaw prm) (c : V3 ℝ) (h0 : 0 ≤ c.c0) (h1 : 0 ≤ c.c1) (h2 : 0 ≤ c.c2) :
    FullFinite (xyzToCam16 (RgbFam.rgbToXyz srgbToXyz .srgb c.lift) (prepareParameters (liftParameters prm))) ∧
    ∀ k : PKind, (k.fromXyz (RgbFam.rgbToXyz srgbToXyz .srgb c.lift) (prepareParameters (liftParameters prm))).Finite := by
  obtain ⟨r, g, b, hr, hg, hb, e⟩ := rgbToXyz_srgb_value c h0 h1 h2
  have D := srgb_gamut_inDomain prm v r g b hr hg hb
  rw [e]
  exact ⟨⟨_, cam16_fromXyz_finite prm v _ D⟩, (cam16_partials_finite_iff prm v _).mpr D⟩

end C07
