/-
  Tie of the hand-written hue model (`PaletteModel/Hue.lean`, C11) to the *text* of `palette/src/angle.rs` and `palette/src/hues.rs`.

  `tools/extract.py` (`gen_bodies`, translator `tools/rust2lean.py`, family `hue`) re-translates on every run: the bodies of
  `impl_angle_float!` (`half_rotation`, `full_rotation`, `degrees_to_radians`, `radians_to_degrees`, `angle_eq`, `normalize_signed_angle`,
  `normalize_unsigned_angle`), both arms of `impl_from_angle_u8!` (instantiated at `f32` of the invocation `impl_from_angle_u8!(f32, f64)`),
  and of `make_hues!`: `new`, `into_inner`, `from_degrees`, `from_radians`, `into_raw_degrees`, `into_raw_radians`, `into_degrees`,
  `into_radians`, `into_positive_degrees`, `into_positive_radians`, `from_cartesian`, `into_cartesian`, `From<T>`, `From<Hue<f32>> for f32`,
  `From<Hue<f64>> for f64`, both `PartialEq` impls, and all sixteen `Add` / `Sub` / `AddAssign` / `SubAssign` impls (hue ∘ hue, hue ∘ T,
  f32 ∘ hue, f64 ∘ hue) — into `Gen.Body.ang*` / `Gen.Body.hues*` (lean/PaletteModel/Gen/BodiesHue.lean).  Each theorem `tie_<name>` states for
  every `α` with `[Scalar α] [Hue.AngleConsts α]` (hence at `Float`, `Float32` and `ℝ`) that the translated body is the model function the
  driver executes and the C11 theorems talk about; all proofs are `rfl`.  So `+ 180` → `- 180`, `ceil` → `floor`, `/ 256` → `/ 255`,
  `> 255.5` → `>= 255.5`, `atan2(-b, -a)` → `atan2(b, a)`, `self.0 + other.0` → `self.0 - other.0`, `normalize_unsigned_angle` →
  `normalize_signed_angle` in `eq`, … are broken obligations naming the function.  The pinned-text theorem `C11.source_as_modelled` stays;
  these ties are stronger (insensitive to formatting, and they relate the text to the model function instead of to a string).

  A hue is its stored angle (`$name<T>(T)` is a transparent wrapper), so `Self(x)`, `$name(x)`, `self.0`, `.into()` are the identity.
  The per-type primitives `to_radians`, `to_degrees`, `u8 as f32`, `f32 as u8`, `T::from_f64(PI)` are read as the fields of
  `Hue.AngleConsts` (their `Float` / `Float32` values are compared with the implementation bit for bit on every run: `hrad`, `hnorm`, `hu8`).

  NOT translated: header of Gen/BodiesHue.lean.
-/
import PaletteModel.Gen.BodiesHue

namespace Tie
variable {α : Type} [Scalar α] [Hue.AngleConsts α]

/-! ### angle.rs: `impl_angle_float!` -/
theorem tie_angHalfRotation : (Gen.Body.angHalfRotation : α) = Hue.halfRotation := rfl
theorem tie_angFullRotation : (Gen.Body.angFullRotation : α) = Hue.fullRotation := rfl
theorem tie_angDegreesToRadians : @Gen.Body.angDegreesToRadians α _ _ = Hue.degreesToRadians := rfl
theorem tie_angRadiansToDegrees : @Gen.Body.angRadiansToDegrees α _ _ = Hue.radiansToDegrees := rfl
theorem tie_angNormalizeSigned : @Gen.Body.angNormalizeSigned α _ _ = Hue.normalizeSigned := rfl
theorem tie_angNormalizeUnsigned : @Gen.Body.angNormalizeUnsigned α _ _ = Hue.normalizeUnsigned := rfl
theorem tie_angAngleEq : @Gen.Body.angAngleEq α _ _ = Hue.angleEq := rfl

/-! ### angle.rs: `impl_from_angle_u8!` (the 8-bit hue) -/
theorem tie_angFromU8 : @Gen.Body.angFromU8 α _ _ = Hue.u8ToFloat := rfl
theorem tie_angIntoU8 : @Gen.Body.angIntoU8 α _ _ = Hue.floatToU8 := rfl

/-! ### hues.rs: `make_hues!` — constructors and accessors -/
theorem tie_huesNew : @Gen.Body.huesNew α _ _ = Hue.fromDegrees := rfl
theorem tie_huesIntoInner : @Gen.Body.huesIntoInner α _ _ = Hue.intoRawDegrees := rfl
theorem tie_huesFromDegrees : @Gen.Body.huesFromDegrees α _ _ = Hue.fromDegrees := rfl
theorem tie_huesFromRadians : @Gen.Body.huesFromRadians α _ _ = Hue.fromRadians := rfl
theorem tie_huesIntoRawDegrees : @Gen.Body.huesIntoRawDegrees α _ _ = Hue.intoRawDegrees := rfl
theorem tie_huesIntoRawRadians : @Gen.Body.huesIntoRawRadians α _ _ = Hue.intoRawRadians := rfl
theorem tie_huesIntoDegrees : @Gen.Body.huesIntoDegrees α _ _ = Hue.intoDegrees := rfl
theorem tie_huesIntoRadians : @Gen.Body.huesIntoRadians α _ _ = Hue.intoRadians := rfl
theorem tie_huesIntoPositiveDegrees : @Gen.Body.huesIntoPositiveDegrees α _ _ = Hue.intoPositiveDegrees := rfl
theorem tie_huesIntoPositiveRadians : @Gen.Body.huesIntoPositiveRadians α _ _ = Hue.intoPositiveRadians := rfl
theorem tie_huesFromCartesian : @Gen.Body.huesFromCartesian α _ _ = Hue.fromCartesian := rfl
theorem tie_huesIntoCartesian : @Gen.Body.huesIntoCartesian α _ _ = Hue.intoCartesian := rfl
-- `From<T> for Hue<T>`
theorem tie_huesFromT : @Gen.Body.huesFromT α _ _ = Hue.fromDegrees := rfl
-- `From<Hue<f64>> for f64`, `From<Hue<f32>> for f32`: the signed normal form (`Hue.intoDegrees`)
theorem tie_huesIntoF64 : @Gen.Body.huesIntoF64 α _ _ = Hue.intoDegrees := rfl
theorem tie_huesIntoF32 : @Gen.Body.huesIntoF32 α _ _ = Hue.intoDegrees := rfl

/-! ### hues.rs: equality (`PartialEq for Hue<T>`, `PartialEq<T> for Hue<T>`) -/
theorem tie_huesEq : @Gen.Body.huesEq α _ _ = Hue.hueEq := rfl
theorem tie_huesEqT : @Gen.Body.huesEqT α _ _ = Hue.hueEq := rfl

/-! ### hues.rs: `Add` / `Sub` and the assigning forms, in the four operand combinations (hue ∘ hue, hue ∘ T, f32 ∘ hue, f64 ∘ hue) -/
theorem tie_huesAdd0 : @Gen.Body.huesAdd0 α _ _ = Hue.add := rfl
theorem tie_huesAdd1 : @Gen.Body.huesAdd1 α _ _ = Hue.add := rfl
theorem tie_huesAdd2 : @Gen.Body.huesAdd2 α _ _ = Hue.add := rfl
theorem tie_huesAdd3 : @Gen.Body.huesAdd3 α _ _ = Hue.add := rfl
theorem tie_huesAddAssign0 : @Gen.Body.huesAddAssign0 α _ _ = Hue.add := rfl
theorem tie_huesAddAssign1 : @Gen.Body.huesAddAssign1 α _ _ = Hue.add := rfl
theorem tie_huesAddAssign2 : @Gen.Body.huesAddAssign2 α _ _ = Hue.add := rfl
theorem tie_huesAddAssign3 : @Gen.Body.huesAddAssign3 α _ _ = Hue.add := rfl
theorem tie_huesSub0 : @Gen.Body.huesSub0 α _ _ = Hue.sub := rfl
theorem tie_huesSub1 : @Gen.Body.huesSub1 α _ _ = Hue.sub := rfl
theorem tie_huesSub2 : @Gen.Body.huesSub2 α _ _ = Hue.sub := rfl
theorem tie_huesSub3 : @Gen.Body.huesSub3 α _ _ = Hue.sub := rfl
theorem tie_huesSubAssign0 : @Gen.Body.huesSubAssign0 α _ _ = Hue.sub := rfl
theorem tie_huesSubAssign1 : @Gen.Body.huesSubAssign1 α _ _ = Hue.sub := rfl
theorem tie_huesSubAssign2 : @Gen.Body.huesSubAssign2 α _ _ = Hue.sub := rfl
theorem tie_huesSubAssign3 : @Gen.Body.huesSubAssign3 α _ _ = Hue.sub := rfl

end Tie
