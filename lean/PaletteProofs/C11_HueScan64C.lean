/-
  C11 — finite scan for the upper bound of the signed normal form (part C of A–D): `C11.chk64 k` (see
  `Lemmas/HueScan64.lean`) for 1458 consecutive integers `k`, by kernel evaluation of core's `UnpackedFloat.add/div/sub`
  (three blocks of 486; all of `−2916 ≤ k ≤ 2915` over the four modules).
-/
import PaletteProofs.Lemmas.HueScan64

namespace C11

theorem scan64_06 : ∀ i : Fin 486, chk64 ((i.val : ℤ) + (0)) = true := by decide +kernel

theorem scan64_07 : ∀ i : Fin 486, chk64 ((i.val : ℤ) + (486)) = true := by decide +kernel

theorem scan64_08 : ∀ i : Fin 486, chk64 ((i.val : ℤ) + (972)) = true := by decide +kernel

end C11
