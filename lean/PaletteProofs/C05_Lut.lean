/-
  C05 — the integer fast paths of the transfer functions (lookup tables).

  Theorems about `PaletteModel/Lut.lean` (model of `encoding/lut.rs`) over the tables that
  `tools/extract.py` regenerates from `encoding/lut/codegen.rs` on every run.
-/
import PaletteModel.Lut

namespace C05
open Lut

/-! ## the clamp in front of the unchecked read -/

theorem clampBits_range (minBits maxBits bits : Nat) (h : minBits ≤ maxBits) :
    minBits ≤ clampBits minBits maxBits bits ∧ clampBits minBits maxBits bits ≤ maxBits := by
  unfold clampBits; (repeat' split) <;> omega

theorem shiftRight_mono {a b : Nat} (k : Nat) (h : a ≤ b) : a >>> k ≤ b >>> k := by
  rw [Nat.shiftRight_eq_div_pow, Nat.shiftRight_eq_div_pow]; exact Nat.div_le_div_right h

/-- **total and in bounds, every bit pattern** (and indeed every `Nat`): the index handed to `get_unchecked` is below
    the table length, for each of the four 8-bit encoders.  This is the statement the `unsafe` block relies on. -/
theorem index_in_bounds (e : Enc) (bits : Nat) :
    cellIndex e.minFloat 3 (clampBits e.minFloat Gen.Lut.maxFloatBits bits) < e.table.length := by
  have hmm : e.minFloat ≤ Gen.Lut.maxFloatBits := by cases e <;> decide +kernel
  have hlast : (Gen.Lut.maxFloatBits - e.minFloat) >>> 20 < e.table.length := by cases e <;> decide +kernel
  obtain ⟨h1, h2⟩ := clampBits_range e.minFloat Gen.Lut.maxFloatBits bits hmm
  have : clampBits e.minFloat Gen.Lut.maxFloatBits bits - e.minFloat ≤ Gen.Lut.maxFloatBits - e.minFloat := by omega
  exact Nat.lt_of_le_of_lt (shiftRight_mono 20 this) hlast

/-- same for the 16-bit ProPhoto encoder: on the table branch `minBits ≤ b ≤ maxBits` -/
theorem index_in_bounds_u16 (b : Nat) (h1 : Gen.Lut.prophotoMinFloat ≤ b) (h2 : b ≤ Gen.Lut.maxFloatBits) :
    cellIndex Gen.Lut.prophotoMinFloat 7 b < Gen.Lut.prophotoEnc.length := by
  have hlast : (Gen.Lut.maxFloatBits - Gen.Lut.prophotoMinFloat) >>> 16 < Gen.Lut.prophotoEnc.length := by decide +kernel
  have : b - Gen.Lut.prophotoMinFloat ≤ Gen.Lut.maxFloatBits - Gen.Lut.prophotoMinFloat := by omega
  exact Nat.lt_of_le_of_lt (shiftRight_mono 16 this) hlast

/-! ## no overflow of the `$lut` integer, result within the code range -/

def biasOf (bw entry : Nat) : Nat := (entry >>> (2 * bw)) <<< (bw + 1)
def scaleOf (bw entry : Nat) : Nat := entry &&& (2^(2 * bw) - 1)

theorem cellRes_mono_t (bw entry : Nat) {t t' : Nat} (h : t ≤ t') : cellRes bw entry t ≤ cellRes bw entry t' := by
  unfold cellRes
  exact shiftRight_mono _ (Nat.add_le_add_left (Nat.mul_le_mul_left _ h) _)

/-- per table entry, at the largest in-cell offset: the `u32` (`u64`) sum does not wrap and the result is a valid code -/
def entryOK (bw lutBits : Nat) (entry : Nat) : Bool :=
  biasOf bw entry + scaleOf bw entry * (2^bw - 1) < 2^lutBits && cellRes bw entry (2^bw - 1) < 2^bw

theorem Enc.mem_all (e : Enc) : e ∈ Enc.all := by cases e <;> decide

theorem tables_ok : ∀ e ∈ Enc.all, e.table.all (entryOK 8 32) = true := by decide +kernel
theorem prophoto_table_ok : Gen.Lut.prophotoEnc.all (entryOK 16 64) = true := by decide +kernel

/-- hence for every entry and every in-cell offset `t ≤ 255` the result is `≤ 255`: the final `as u8` never truncates -/
theorem res_le_max (e : Enc) (entry : Nat) (hm : entry ∈ e.table) (t : Nat) (ht : t ≤ 255) :
    cellRes 8 entry t ≤ 255 := by
  have h := List.all_eq_true.mp (tables_ok e (Enc.mem_all e)) entry hm
  simp only [entryOK, Bool.and_eq_true, decide_eq_true_eq] at h
  have := cellRes_mono_t 8 entry (t := t) (t' := 2^8 - 1) (by omega)
  omega

/-! ## saturation at the ends -/

/-- every input at or below zero (sign bit set, or +0) and every NaN is clamped to `min_float`, whose code is 0 -/
theorem low_saturates (e : Enc) (bits : Nat) (h : bits ≥ 0x80000000 ∨ bits = 0 ∨ bits > 0x7f800000) :
    fromLinearU8 e bits = 0 := by
  have hc : clampBits e.minFloat Gen.Lut.maxFloatBits bits = e.minFloat := by
    unfold clampBits
    rcases h with h | h | h
    · rw [if_pos h]
    · subst h; split
      · rfl
      · split
        · rfl
        · rw [if_pos (Nat.zero_le _)]
    · split
      · rfl
      · first | rfl | rw [if_pos h]
  unfold fromLinearU8 encU8; rw [hc]; cases e <;> decide +kernel

/-- every input from 1.0 up to +∞ is clamped to `1 − ε`, whose code is 255 -/
theorem high_saturates (e : Enc) (bits : Nat) (h1 : 0x3f800000 ≤ bits) (h2 : bits ≤ 0x7f800000) :
    fromLinearU8 e bits = 255 := by
  have hc : clampBits e.minFloat Gen.Lut.maxFloatBits bits = Gen.Lut.maxFloatBits := by
    have hm : e.minFloat < 0x3f800000 := by cases e <;> decide +kernel
    have hx : Gen.Lut.maxFloatBits = 0x3f7fffff := by decide +kernel
    unfold clampBits
    split; · omega
    split; · omega
    split; · omega
    split; · rfl
    · omega
  unfold fromLinearU8 encU8; rw [hc]; cases e <;> decide +kernel

/-! ## decode → encode reproduces every code (all 256 codes × 4 encodings × f32/f64 decoders) -/

theorem decode_encode_f32 : ∀ e ∈ Enc.all, ∀ c : Fin 256, fromLinearU8 e (intoLinear32 e c.val) = c.val := by decide +kernel
theorem decode_encode_f64 : ∀ e ∈ Enc.all, ∀ c : Fin 256, fromLinearU8_f64 e (intoLinear64 e c.val) = c.val := by decide +kernel

/-- shape facts the model relies on, decided on the generated data -/
theorem geometry : Gen.Lut.u8BitWidth = 8 ∧ Gen.Lut.u8ManIndexWidth = 3 ∧ Gen.Lut.u8LutBits = 32 ∧
    Gen.Lut.u16BitWidth = 16 ∧ Gen.Lut.u16ManIndexWidth = 7 ∧ Gen.Lut.u16LutBits = 64 ∧ Gen.Lut.maxFloatBits = 0x3f7fffff ∧
    (∀ e ∈ Enc.all, e.dec32.length = 256 ∧ e.dec64.length = 256 ∧ e.minFloat % 2^20 = 0) ∧ Gen.Lut.prophotoMinFloat % 2^16 = 0 := by decide +kernel

/-- call-site wiring: each `FromLinear<f32,u8>` impl passes its own table and minimum, each `IntoLinear` reads its own table -/
theorem wiring : Gen.Lut.wiring =
    [("Srgb", "SRGB_MIN_FLOAT", "TO_SRGB_U8"), ("Srgb.dec", "SRGB_U8_TO_F32", "SRGB_U8_TO_F64"),
     ("RecOetf", "REC_OETF_MIN_FLOAT", "TO_REC_OETF_U8"), ("RecOetf.dec", "REC_OETF_U8_TO_F32", "REC_OETF_U8_TO_F64"),
     ("AdobeRgb", "ADOBE_RGB_MIN_FLOAT", "TO_ADOBE_RGB_U8"), ("AdobeRgb.dec", "ADOBE_RGB_U8_TO_F32", "ADOBE_RGB_U8_TO_F64"),
     ("P3Gamma", "P3_GAMMA_MIN_FLOAT", "TO_P3_GAMMA_U8"), ("P3Gamma.dec", "P3_GAMMA_U8_TO_F32", "P3_GAMMA_U8_TO_F64")] := by decide

end C05
