/-
  Tie of palette's serde support (C20) to the *text* of `palette/src/serde.rs`, `serde/alpha_serializer.rs`, `serde/alpha_deserializer.rs` and the
  `Serialize` / `Deserialize` impls of `Alpha` (alpha/alpha.rs) and `PreAlpha` (blend/pre_alpha.rs).

  `tools/extract.py` (plugin `tools/extract_plugins/serde.py`, translator `tools/rust2lean_serde.py`) re-reads those function bodies on every run and
  translates each into `Gen.BodySerde.<name>` (lean/PaletteModel/Gen/BodiesSerde.lean).  serde's traits are the parameters: the translation of a
  method is generic over the wrapped serializer / deserializer / visitor / map access, every call on it is a parameter.

  1. `tie_<name>` (one per translated body, for every value of the parameters): the body is the method-level model function `Serde.Proto.<..>` of
     `PaletteModel/SerdeProto.lean` - which compound is opened with which length (`len + 1`, `len.map (· + 1)`, `1 + 1` for a newtype struct, `0 + 1`
     for a unit), that elements are forwarded unchanged, that `end` writes the alpha LAST (under the key `"alpha"` for maps / structs) before closing,
     which 22 + 20 + 24 methods are `unimplemented!`, which visitor with which `field_count` each `deserialize_*` installs, which identifier the field
     visitor intercepts (`"alpha"`, `b"alpha"`, position `field_count`; `invalid_type` without a count), the `duplicate_field("alpha")` guard and the
     order "key, then value into the cell" of `MapWrapper::next_key_seed`, `missing_field("alpha")` vs `max_intensity()` for an empty cell.
  2. the bridge to the tree language of `PaletteModel/Serde.lean` that the C20 theorems are about:
     * `emit_rec`: the recording serializer is faithful; `alphaSerializer_is_alphaSer`: feeding ANY data-model tree `t` to the translated
       `AlphaSerializer` methods wrapped around the recorder records exactly `Serde.alphaSer Serde.cfgAlpha t a` (and fails exactly where that is `none`):
       the model's tree transformer is a theorem about the Rust methods, for every tree shape;
     * `fieldVisitor_is_isAlphaKey`, `fieldVisitor_without_count`: the translated `AlphaFieldVisitor` intercepts a key iff `Serde.isAlphaKey Serde.cfgAlpha`
       says so (name `"alpha"`; position `field_count`; without a count a position is `invalid_type`);
     * `alphaDeserialize_is_deAlpha`, `optionalAlpha_is_deAlphaOpt` (+ the `PreAlpha` forms): the translated `Alpha::deserialize` / optional-alpha helper applied
       to a colour deserialization that behaves as `Serde.deAlphaRaw` is `Serde.deAlpha` / `Serde.deAlphaOpt`; `serializeAsArray_is_serAsArray`, .. for the helpers.
     NOT bridged (method-level ties only): the composition of `MapWrapper::next_key_seed` / `AlphaMapVisitor::visit_seq` with serde's *derived* `visit_map` /
     `visit_seq` and a format's map / sequence access into `Serde.alphaMapStep` / `Serde.deAlphaRaw` (the derived code and the formats are modelled, not
     translated; that composition stays with the correspondence run).
  NOT translated: header of Gen/BodiesSerde.lean.
-/
import PaletteModel.Gen.BodiesSerde
import PaletteModel.SerdeProto

namespace Tie
open Prim Serde.Proto


/-- after unfolding: case analysis on every stuck `match` scrutinee (`?` of the Rust body), then `rfl` -/
macro "tie_cases" : tactic =>
  `(tactic| (try unfold Serde.Proto.openWith Serde.Proto.endPlain Serde.Proto.endKeyed Serde.Proto.intercept
             try unfold Serde.Proto.openWith
             try unfold Serde.Proto.endPlain
             try unfold Serde.Proto.endKeyed
             try unfold Serde.Proto.intercept
             try unfold Serde.Proto.andThen
             try dsimp only
             repeat' (first | rfl | (split <;> simp_all only []))))

section methods
variable {ε α β γ τ S Q A V K κ D W ρ M σ υ Sd Dk T : Type}

/-! ### `Serializer for AlphaSerializer` -/
theorem tie_alphaSerializerError (panic : String → ε) : (Gen.BodySerde.alphaSerializerError panic : Except ε β) = Serde.Proto.serUnsupported panic := rfl
theorem tie_serSerializeSeq (inner : S → Option Nat → Except ε Q) (w : AlphaSerializer S A) (len : Option Nat) :
    Gen.BodySerde.serSerializeSeq inner w len = Serde.Proto.serSerializeSeq inner w len := by
  first | rfl | (unfold Gen.BodySerde.serSerializeSeq Serde.Proto.serSerializeSeq; tie_cases)
theorem tie_serSerializeTuple (inner : S → Nat → Except ε Q) (w : AlphaSerializer S A) (len : Nat) :
    Gen.BodySerde.serSerializeTuple inner w len = Serde.Proto.serSerializeTuple inner w len := by
  first | rfl | (unfold Gen.BodySerde.serSerializeTuple Serde.Proto.serSerializeTuple; tie_cases)
theorem tie_serSerializeTupleStruct (inner : S → String → Nat → Except ε Q) (w : AlphaSerializer S A) (name : String) (len : Nat) :
    Gen.BodySerde.serSerializeTupleStruct inner w name len = Serde.Proto.serSerializeTupleStruct inner w name len := by
  first | rfl | (unfold Gen.BodySerde.serSerializeTupleStruct Serde.Proto.serSerializeTupleStruct; tie_cases)
theorem tie_serSerializeMap (inner : S → Option Nat → Except ε Q) (w : AlphaSerializer S A) (len : Option Nat) :
    Gen.BodySerde.serSerializeMap inner w len = Serde.Proto.serSerializeMap inner w len := by
  first | rfl | (unfold Gen.BodySerde.serSerializeMap Serde.Proto.serSerializeMap; tie_cases)
theorem tie_serSerializeStruct (inner : S → String → Nat → Except ε Q) (w : AlphaSerializer S A) (name : String) (len : Nat) :
    Gen.BodySerde.serSerializeStruct inner w name len = Serde.Proto.serSerializeStruct inner w name len := by
  first | rfl | (unfold Gen.BodySerde.serSerializeStruct Serde.Proto.serSerializeStruct; tie_cases)

/-! ### the `Serialize*` impls: forwarding and `end` -/
theorem tie_seqSerializeElement (put : Q → V → Except ε Q) (w : AlphaSerializer Q A) (v : V) :
    Gen.BodySerde.seqSerializeElement put w v = Serde.Proto.forward1 put w v := by
  first | rfl | (unfold Gen.BodySerde.seqSerializeElement Serde.Proto.forward1; tie_cases)
theorem tie_tupleSerializeElement (put : Q → V → Except ε Q) (w : AlphaSerializer Q A) (v : V) :
    Gen.BodySerde.tupleSerializeElement put w v = Serde.Proto.forward1 put w v := by
  first | rfl | (unfold Gen.BodySerde.tupleSerializeElement Serde.Proto.forward1; tie_cases)
theorem tie_tupleStructSerializeField (put : Q → V → Except ε Q) (w : AlphaSerializer Q A) (v : V) :
    Gen.BodySerde.tupleStructSerializeField put w v = Serde.Proto.forward1 put w v := by
  first | rfl | (unfold Gen.BodySerde.tupleStructSerializeField Serde.Proto.forward1; tie_cases)
theorem tie_tupleVariantSerializeField (put : Q → V → Except ε Q) (w : AlphaSerializer Q A) (v : V) :
    Gen.BodySerde.tupleVariantSerializeField put w v = Serde.Proto.forward1 put w v := by
  first | rfl | (unfold Gen.BodySerde.tupleVariantSerializeField Serde.Proto.forward1; tie_cases)
theorem tie_mapSerializeKey (put : Q → K → Except ε Q) (w : AlphaSerializer Q A) (k : K) :
    Gen.BodySerde.mapSerializeKey put w k = Serde.Proto.forward1 put w k := by
  first | rfl | (unfold Gen.BodySerde.mapSerializeKey Serde.Proto.forward1; tie_cases)
theorem tie_mapSerializeValue (put : Q → V → Except ε Q) (w : AlphaSerializer Q A) (v : V) :
    Gen.BodySerde.mapSerializeValue put w v = Serde.Proto.forward1 put w v := by
  first | rfl | (unfold Gen.BodySerde.mapSerializeValue Serde.Proto.forward1; tie_cases)
theorem tie_mapSerializeEntry (put : Q → K → V → Except ε Q) (w : AlphaSerializer Q A) (k : K) (v : V) :
    Gen.BodySerde.mapSerializeEntry put w k v = Serde.Proto.forward2 put w k v := by
  first | rfl | (unfold Gen.BodySerde.mapSerializeEntry Serde.Proto.forward2; tie_cases)
theorem tie_structSerializeField (put : Q → String → V → Except ε Q) (w : AlphaSerializer Q A) (k : String) (v : V) :
    Gen.BodySerde.structSerializeField put w k v = Serde.Proto.forward2 put w k v := by
  first | rfl | (unfold Gen.BodySerde.structSerializeField Serde.Proto.forward2; tie_cases)
theorem tie_structSkipField (skip : Q → String → Except ε Q) (w : AlphaSerializer Q A) (k : String) :
    Gen.BodySerde.structSkipField skip w k = Serde.Proto.forward1 skip w k := by
  first | rfl | (unfold Gen.BodySerde.structSkipField Serde.Proto.forward1; tie_cases)
theorem tie_structVariantSerializeField (put : Q → String → V → Except ε Q) (w : AlphaSerializer Q A) (k : String) (v : V) :
    Gen.BodySerde.structVariantSerializeField put w k v = Serde.Proto.forward2 put w k v := by
  first | rfl | (unfold Gen.BodySerde.structVariantSerializeField Serde.Proto.forward2; tie_cases)
theorem tie_structVariantSkipField (skip : Q → String → Except ε Q) (w : AlphaSerializer Q A) (k : String) :
    Gen.BodySerde.structVariantSkipField skip w k = Serde.Proto.forward1 skip w k := by
  first | rfl | (unfold Gen.BodySerde.structVariantSkipField Serde.Proto.forward1; tie_cases)
theorem tie_seqEnd (putAlpha : Q → A → Except ε Q) (fin : Q → Except ε β) (w : AlphaSerializer Q A) :
    Gen.BodySerde.seqEnd putAlpha fin w = Serde.Proto.seqEnd putAlpha fin w := by
  first | rfl | (unfold Gen.BodySerde.seqEnd Serde.Proto.seqEnd; tie_cases)
theorem tie_tupleEnd (putAlpha : Q → A → Except ε Q) (fin : Q → Except ε β) (w : AlphaSerializer Q A) :
    Gen.BodySerde.tupleEnd putAlpha fin w = Serde.Proto.tupleEnd putAlpha fin w := by
  first | rfl | (unfold Gen.BodySerde.tupleEnd Serde.Proto.tupleEnd; tie_cases)
theorem tie_tupleStructEnd (putAlpha : Q → A → Except ε Q) (fin : Q → Except ε β) (w : AlphaSerializer Q A) :
    Gen.BodySerde.tupleStructEnd putAlpha fin w = Serde.Proto.tupleStructEnd putAlpha fin w := by
  first | rfl | (unfold Gen.BodySerde.tupleStructEnd Serde.Proto.tupleStructEnd; tie_cases)
theorem tie_tupleVariantEnd (putAlpha : Q → A → Except ε Q) (fin : Q → Except ε β) (w : AlphaSerializer Q A) :
    Gen.BodySerde.tupleVariantEnd putAlpha fin w = Serde.Proto.tupleVariantEnd putAlpha fin w := by
  first | rfl | (unfold Gen.BodySerde.tupleVariantEnd Serde.Proto.tupleVariantEnd; tie_cases)
theorem tie_mapEnd (putAlpha : Q → String → A → Except ε Q) (fin : Q → Except ε β) (w : AlphaSerializer Q A) :
    Gen.BodySerde.mapEnd putAlpha fin w = Serde.Proto.mapEnd putAlpha fin w := by
  first | rfl | (unfold Gen.BodySerde.mapEnd Serde.Proto.mapEnd; tie_cases)
theorem tie_structEnd (putAlpha : Q → String → A → Except ε Q) (fin : Q → Except ε β) (w : AlphaSerializer Q A) :
    Gen.BodySerde.structEnd putAlpha fin w = Serde.Proto.structEnd putAlpha fin w := by
  first | rfl | (unfold Gen.BodySerde.structEnd Serde.Proto.structEnd; tie_cases)
theorem tie_structVariantEnd (putAlpha : Q → String → A → Except ε Q) (fin : Q → Except ε β) (w : AlphaSerializer Q A) :
    Gen.BodySerde.structVariantEnd putAlpha fin w = Serde.Proto.structVariantEnd putAlpha fin w := by
  first | rfl | (unfold Gen.BodySerde.structVariantEnd Serde.Proto.structVariantEnd; tie_cases)

/-! ### newtype struct, unit struct, unit (the bodies that call other translated bodies) -/
theorem tie_serSerializeNewtypeStruct (ts : S → String → Nat → Except ε Q) (put : Q → V → Except ε Q) (putAlpha : Q → A → Except ε Q)
    (fin : Q → Except ε β) (w : AlphaSerializer S A) (name : String) (value : V) :
    Gen.BodySerde.serSerializeNewtypeStruct ts put putAlpha fin w name value = Serde.Proto.serSerializeNewtypeStruct ts put putAlpha fin w name value := by
  unfold Gen.BodySerde.serSerializeNewtypeStruct Serde.Proto.serSerializeNewtypeStruct Gen.BodySerde.serSerializeTupleStruct
    Gen.BodySerde.tupleStructSerializeField Gen.BodySerde.tupleStructEnd
  cases ts w.inner name (1 + 1) with
  | error e => rfl
  | ok q =>
    simp only [Prim.tryE]
    cases put q value <;> rfl
theorem tie_serSerializeUnitStruct (nts : S → String → A → Except ε β) (w : AlphaSerializer S A) (name : String) :
    Gen.BodySerde.serSerializeUnitStruct nts w name = Serde.Proto.serSerializeUnitStruct nts w name := by
  first | rfl | (unfold Gen.BodySerde.serSerializeUnitStruct Serde.Proto.serSerializeUnitStruct; tie_cases)
theorem tie_serSerializeUnit (tuple : S → Nat → Except ε Q) (putAlpha : Q → A → Except ε Q) (fin : Q → Except ε β) (w : AlphaSerializer S A) :
    Gen.BodySerde.serSerializeUnit tuple putAlpha fin w = Serde.Proto.serSerializeUnit tuple putAlpha fin w := by
  unfold Gen.BodySerde.serSerializeUnit Serde.Proto.serSerializeUnit Gen.BodySerde.serSerializeTuple Gen.BodySerde.tupleEnd
  cases tuple w.inner (0 + 1) <;> rfl
theorem tie_serIsHumanReadable (hr : S → Bool) (w : AlphaSerializer S A) :
    Gen.BodySerde.serIsHumanReadable hr w = Serde.Proto.serIsHumanReadable hr w := by
  first | rfl | (unfold Gen.BodySerde.serIsHumanReadable Serde.Proto.serIsHumanReadable; tie_cases)

/-! ### `Alpha`, `PreAlpha`, serde.rs -/
theorem tie_alphaSerialize (serColor : γ → AlphaSerializer S τ → Except ε β) (c : AlphaOf γ τ) (s : S) :
    Gen.BodySerde.alphaSerialize serColor c s = Serde.Proto.alphaSerialize serColor c s := by
  first | rfl | (unfold Gen.BodySerde.alphaSerialize Serde.Proto.alphaSerialize; tie_cases)
theorem tie_preAlphaSerialize (serColor : γ → AlphaSerializer S τ → Except ε β) (c : PreAlphaOf γ τ) (s : S) :
    Gen.BodySerde.preAlphaSerialize serColor c s = Serde.Proto.alphaSerialize serColor ⟨c.color, c.alpha⟩ s := by
  first | rfl | (unfold Gen.BodySerde.preAlphaSerialize Serde.Proto.alphaSerialize; tie_cases)
theorem tie_serializeAsArray (cast : σ → ρ) (ser : ρ → S → Except ε β) (v : σ) (s : S) :
    Gen.BodySerde.serializeAsArray cast ser v s = Serde.Proto.serializeVia cast ser v s := by
  first | rfl | (unfold Gen.BodySerde.serializeAsArray Serde.Proto.serializeVia; tie_cases)
theorem tie_serializeAsUint (cast : σ → ρ) (ser : ρ → S → Except ε β) (v : σ) (s : S) :
    Gen.BodySerde.serializeAsUint cast ser v s = Serde.Proto.serializeVia cast ser v s := by
  first | rfl | (unfold Gen.BodySerde.serializeAsUint Serde.Proto.serializeVia; tie_cases)
theorem tie_deserializeAsArray (uncast : ρ → σ) (de : D → Except ε ρ) (d : D) :
    Gen.BodySerde.deserializeAsArray uncast de d = Serde.Proto.deserializeVia uncast de d := by
  first | rfl | (unfold Gen.BodySerde.deserializeAsArray Serde.Proto.deserializeVia; tie_cases)
theorem tie_deserializeAsUint (uncast : ρ → σ) (de : D → Except ε ρ) (d : D) :
    Gen.BodySerde.deserializeAsUint uncast de d = Serde.Proto.deserializeVia uncast de d := by
  first | rfl | (unfold Gen.BodySerde.deserializeAsUint Serde.Proto.deserializeVia; tie_cases)
theorem tie_alphaDeserialize (deColor : AlphaDeserializer D τ → Except ε (γ × Option τ)) (missing : String → ε) (d : D) :
    Gen.BodySerde.alphaDeserialize deColor missing d = Serde.Proto.alphaDeserialize deColor missing d := by
  unfold Gen.BodySerde.alphaDeserialize Serde.Proto.alphaDeserialize
  dsimp only
  cases deColor ⟨d, none⟩ with
  | error e => rfl
  | ok r => obtain ⟨c, a⟩ := r; cases a <;> rfl
theorem tie_preAlphaDeserialize (deColor : AlphaDeserializer D τ → Except ε (γ × Option τ)) (missing : String → ε) (d : D) :
    (Gen.BodySerde.preAlphaDeserialize deColor missing d).map (fun p => (⟨p.color, p.alpha⟩ : AlphaOf γ τ)) = Serde.Proto.alphaDeserialize deColor missing d := by
  unfold Gen.BodySerde.preAlphaDeserialize Serde.Proto.alphaDeserialize
  dsimp only
  cases deColor ⟨d, none⟩ with
  | error e => rfl
  | ok r => obtain ⟨c, a⟩ := r; cases a <;> rfl
theorem tie_deserializeWithOptionalAlpha (deColor : AlphaDeserializer D τ → Except ε (γ × Option τ)) (maxI minI : τ) (d : D) :
    Gen.BodySerde.deserializeWithOptionalAlpha deColor maxI minI d = Serde.Proto.optionalAlpha deColor maxI minI d := by
  unfold Gen.BodySerde.deserializeWithOptionalAlpha Serde.Proto.optionalAlpha
  dsimp only
  cases deColor ⟨d, none⟩ with
  | error e => rfl
  | ok r => obtain ⟨c, a⟩ := r; cases a <;> rfl
theorem tie_deserializeWithOptionalPreAlpha (deColor : AlphaDeserializer D τ → Except ε (γ × Option τ)) (maxI minI : τ) (d : D) :
    (Gen.BodySerde.deserializeWithOptionalPreAlpha deColor maxI minI d).map (fun p => (⟨p.color, p.alpha⟩ : AlphaOf γ τ))
      = Serde.Proto.optionalAlpha deColor maxI minI d := by
  unfold Gen.BodySerde.deserializeWithOptionalPreAlpha Serde.Proto.optionalAlpha
  dsimp only
  cases deColor ⟨d, none⟩ with
  | error e => rfl
  | ok r => obtain ⟨c, a⟩ := r; cases a <;> rfl
/-! ### `Deserializer for AlphaDeserializer` -/
theorem tie_alphaDeserializerError (panic : String → ε) : (Gen.BodySerde.alphaDeserializerError panic : Except ε β) = Serde.Proto.deUnsupported panic := rfl
theorem tie_structFieldDeserializerError (panic : String → ε) :
    (Gen.BodySerde.structFieldDeserializerError panic : Except ε β) = Serde.Proto.sfdUnsupported panic := by
  first | rfl | (unfold Gen.BodySerde.structFieldDeserializerError Serde.Proto.sfdUnsupported; tie_cases)
theorem tie_deDeserializeSeq (inner : D → AlphaSeqVisitor W A → Except ε ρ) (d : AlphaDeserializer D A) (v : W) :
    Gen.BodySerde.deDeserializeSeq inner d v = Serde.Proto.deDeserializeSeq inner d v := by
  first | rfl | (unfold Gen.BodySerde.deDeserializeSeq Serde.Proto.deDeserializeSeq; tie_cases)
theorem tie_deDeserializeTuple (inner : D → Nat → AlphaMapVisitor W A → Except ε ρ) (d : AlphaDeserializer D A) (len : Nat) (v : W) :
    Gen.BodySerde.deDeserializeTuple inner d len v = Serde.Proto.deDeserializeTuple inner d len v := by
  first | rfl | (unfold Gen.BodySerde.deDeserializeTuple Serde.Proto.deDeserializeTuple; tie_cases)
theorem tie_deDeserializeTupleStruct (inner : D → String → Nat → AlphaMapVisitor W A → Except ε ρ) (d : AlphaDeserializer D A) (name : String) (len : Nat) (v : W) :
    Gen.BodySerde.deDeserializeTupleStruct inner d name len v = Serde.Proto.deDeserializeTupleStruct inner d name len v := by
  first | rfl | (unfold Gen.BodySerde.deDeserializeTupleStruct Serde.Proto.deDeserializeTupleStruct; tie_cases)
theorem tie_deDeserializeMap (inner : D → AlphaMapVisitor W A → Except ε ρ) (d : AlphaDeserializer D A) (v : W) :
    Gen.BodySerde.deDeserializeMap inner d v = Serde.Proto.deDeserializeMap inner d v := by
  first | rfl | (unfold Gen.BodySerde.deDeserializeMap Serde.Proto.deDeserializeMap; tie_cases)
theorem tie_deDeserializeStruct (inner : D → String → List String → AlphaMapVisitor W A → Except ε ρ) (d : AlphaDeserializer D A) (name : String)
    (fields : List String) (v : W) :
    Gen.BodySerde.deDeserializeStruct inner d name fields v = Serde.Proto.deDeserializeStruct inner d name fields v := by
  first | rfl | (unfold Gen.BodySerde.deDeserializeStruct Serde.Proto.deDeserializeStruct; tie_cases)
theorem tie_deDeserializeIgnoredAny (inner : D → AlphaSeqVisitor W A → Except ε ρ) (d : AlphaDeserializer D A) (v : W) :
    Gen.BodySerde.deDeserializeIgnoredAny inner d v = Serde.Proto.deDeserializeIgnoredAny inner d v := by
  first | rfl | (unfold Gen.BodySerde.deDeserializeIgnoredAny Serde.Proto.deDeserializeIgnoredAny; tie_cases)
theorem tie_deDeserializeUnit (inner : D → Nat → AlphaMapVisitor W A → Except ε ρ) (d : AlphaDeserializer D A) (v : W) :
    Gen.BodySerde.deDeserializeUnit inner d v = Serde.Proto.deDeserializeUnit inner d v := by
  first | rfl | (unfold Gen.BodySerde.deDeserializeUnit Serde.Proto.deDeserializeUnit; tie_cases)
theorem tie_deDeserializeUnitStruct (inner : D → String → AlphaMapVisitor W A → Except ε ρ) (d : AlphaDeserializer D A) (name : String) (v : W) :
    Gen.BodySerde.deDeserializeUnitStruct inner d name v = Serde.Proto.deDeserializeUnitStruct inner d name v := by
  first | rfl | (unfold Gen.BodySerde.deDeserializeUnitStruct Serde.Proto.deDeserializeUnitStruct; tie_cases)
theorem tie_deDeserializeNewtypeStruct (inner : D → String → Nat → AlphaMapVisitor W A → Except ε ρ) (d : AlphaDeserializer D A) (name : String) (v : W) :
    Gen.BodySerde.deDeserializeNewtypeStruct inner d name v = Serde.Proto.deDeserializeNewtypeStruct inner d name v := by
  first | rfl | (unfold Gen.BodySerde.deDeserializeNewtypeStruct Serde.Proto.deDeserializeNewtypeStruct; tie_cases)

/-! ### the visitors, `MapWrapper`, the field visitor -/
theorem tie_seqVisitorVisitSeq (visitSeq : W → Q → Except ε (β × Q)) (next : Q → Except ε (Option A × Q)) (v : AlphaSeqVisitor W A) (seq : Q) :
    Gen.BodySerde.seqVisitorVisitSeq visitSeq next v seq = Serde.Proto.seqVisitorVisitSeq visitSeq next v seq := by
  rfl
theorem tie_mapVisitorVisitSeq (visitUnit : W → Except ε β) (visitSeq : W → Q → Except ε (β × Q)) (next : Q → Except ε (Option A × Q))
    (v : AlphaMapVisitor W A) (seq : Q) :
    Gen.BodySerde.mapVisitorVisitSeq visitUnit visitSeq next v seq = Serde.Proto.mapVisitorVisitSeq visitUnit visitSeq next v seq := by
  unfold Gen.BodySerde.mapVisitorVisitSeq Serde.Proto.mapVisitorVisitSeq
  cases v.field_count.isNone
  · simp only [Bool.false_eq_true, if_false]
    cases visitSeq v.inner seq <;> rfl
  · rfl
theorem tie_mapVisitorVisitMap (visitMap : W → MapWrapper M A → Except ε (β × MapWrapper M A)) (v : AlphaMapVisitor W A) (map : M) :
    Gen.BodySerde.mapVisitorVisitMap visitMap v map = Serde.Proto.mapVisitorVisitMap visitMap v map := by
  rfl
theorem tie_mapVisitorVisitNewtypeStruct (deAlpha : T → Except ε A) (visitUnit : W → Except ε β) (v : AlphaMapVisitor W A) (d : T) :
    Gen.BodySerde.mapVisitorVisitNewtypeStruct deAlpha visitUnit v d = Serde.Proto.mapVisitorVisitNewtypeStruct deAlpha visitUnit v d := by
  rfl
theorem tie_mapWrapperNextKeySeedStep (nextKey : M → AlphaFieldDeserializerSeed K → Except ε (Option (AlphaField K κ) × M)) (nextValue : M → Except ε (A × M))
    (dup : String → ε) (w : MapWrapper M A) (seed : K) :
    Gen.BodySerde.mapWrapperNextKeySeedStep nextKey nextValue dup w seed = Serde.Proto.nextKeySeedStep nextKey nextValue dup w seed := by
  unfold Gen.BodySerde.mapWrapperNextKeySeedStep Serde.Proto.nextKeySeedStep
  cases nextKey w.inner ⟨seed, w.field_count⟩ with
  | error e => rfl
  | ok r =>
    obtain ⟨k, m⟩ := r
    cases k with
    | none => rfl
    | some f =>
      cases f with
      | other o => rfl
      | alpha s =>
        first | rfl | (dsimp only; cases w.alpha.isSome <;> rfl)
theorem tie_mapWrapperNextKeySeed (nextKey : M → AlphaFieldDeserializerSeed K → Except ε (Option (AlphaField K κ) × M)) (nextValue : M → Except ε (A × M))
    (dup : String → ε) (fuel : Nat) (w : MapWrapper M A) (seed : K) :
    Gen.BodySerde.mapWrapperNextKeySeed nextKey nextValue dup fuel w seed = Serde.Proto.nextKeySeed nextKey nextValue dup fuel w seed := by
  unfold Gen.BodySerde.mapWrapperNextKeySeed Serde.Proto.nextKeySeed
  congr 1
  funext st
  exact tie_mapWrapperNextKeySeedStep nextKey nextValue dup st.1 st.2
theorem tie_mapWrapperNextValueSeed (inner : M → Sd → Except ε (υ × M)) (w : MapWrapper M A) (seed : Sd) :
    Gen.BodySerde.mapWrapperNextValueSeed inner w seed = Serde.Proto.nextValueSeed inner w seed := by
  rfl
theorem tie_seedDeserialize (di : Dk → AlphaFieldVisitor K → Except ε ρ) (s : AlphaFieldDeserializerSeed K) (d : Dk) :
    Gen.BodySerde.seedDeserialize di s d = Serde.Proto.seedDeserialize di s d := by
  first | rfl | (unfold Gen.BodySerde.seedDeserialize Serde.Proto.seedDeserialize; tie_cases)
theorem tie_fieldVisitorVisitU64 (sd : K → StructFieldDeserializer → Except ε κ) (it : Unexpected → String → ε) (v : AlphaFieldVisitor K) (n : Nat) :
    Gen.BodySerde.fieldVisitorVisitU64 sd it v n = Serde.Proto.fieldVisitU64 sd it v n := by
  unfold Gen.BodySerde.fieldVisitorVisitU64 Serde.Proto.fieldVisitU64 Prim.okOrElse
  cases v.field_count <;> rfl
theorem tie_fieldVisitorVisitStr (sd : K → StructFieldDeserializer → Except ε κ) (it : Unexpected → String → ε) (v : AlphaFieldVisitor K) (s : String) :
    Gen.BodySerde.fieldVisitorVisitStr sd it v s = Serde.Proto.fieldVisitStr sd it v s := by
  first | rfl | (unfold Gen.BodySerde.fieldVisitorVisitStr Serde.Proto.fieldVisitStr; tie_cases)
theorem tie_fieldVisitorVisitBytes (sd : K → StructFieldDeserializer → Except ε κ) (it : Unexpected → String → ε) (v : AlphaFieldVisitor K) (b : List UInt8) :
    Gen.BodySerde.fieldVisitorVisitBytes sd it v b = Serde.Proto.fieldVisitBytes sd it v b := by
  first | rfl | (unfold Gen.BodySerde.fieldVisitorVisitBytes Serde.Proto.fieldVisitBytes; tie_cases)
theorem tie_sfdDeserializeIdentifier (vu : W → Nat → Except ε ρ) (vs : W → String → Except ε ρ) (vb : W → List UInt8 → Except ε ρ)
    (d : StructFieldDeserializer) (v : W) :
    Gen.BodySerde.sfdDeserializeIdentifier vu vs vb d v = Serde.Proto.sfdDeserializeIdentifier vu vs vb d v := by
  unfold Gen.BodySerde.sfdDeserializeIdentifier Serde.Proto.sfdDeserializeIdentifier
  cases d.struct_field <;> rfl
theorem tie_sfdDeserializeIgnoredAny (vu : W → Nat → Except ε ρ) (vs : W → String → Except ε ρ) (vb : W → List UInt8 → Except ε ρ)
    (d : StructFieldDeserializer) (v : W) :
    Gen.BodySerde.sfdDeserializeIgnoredAny vu vs vb d v = Serde.Proto.sfdDeserializeIdentifier vu vs vb d v :=
  tie_sfdDeserializeIdentifier vu vs vb d v
theorem tie_sfdDeserializeAny (vu : W → Nat → Except ε ρ) (vs : W → String → Except ε ρ) (vb : W → List UInt8 → Except ε ρ)
    (d : StructFieldDeserializer) (v : W) :
    Gen.BodySerde.sfdDeserializeAny vu vs vb d v = Serde.Proto.sfdDeserializeIdentifier vu vs vb d v :=
  tie_sfdDeserializeIdentifier vu vs vb d v

end methods

/-! ### the `unimplemented!` forwarders (the set of methods is re-read from the three impls on every run) -/
theorem tie_serSerializeBool {S A β ε : Type} (panic : String → ε) (self_ : Prim.AlphaSerializer S A) (_v : Bool) :
    Gen.BodySerde.serSerializeBool panic self_ _v = (Serde.Proto.serUnsupported panic : Except ε β) := rfl
theorem tie_serSerializeI8 {S A β ε : Type} (panic : String → ε) (self_ : Prim.AlphaSerializer S A) (_v : Nat) :
    Gen.BodySerde.serSerializeI8 panic self_ _v = (Serde.Proto.serUnsupported panic : Except ε β) := rfl
theorem tie_serSerializeI16 {S A β ε : Type} (panic : String → ε) (self_ : Prim.AlphaSerializer S A) (_v : Nat) :
    Gen.BodySerde.serSerializeI16 panic self_ _v = (Serde.Proto.serUnsupported panic : Except ε β) := rfl
theorem tie_serSerializeI32 {S A β ε : Type} (panic : String → ε) (self_ : Prim.AlphaSerializer S A) (_v : Nat) :
    Gen.BodySerde.serSerializeI32 panic self_ _v = (Serde.Proto.serUnsupported panic : Except ε β) := rfl
theorem tie_serSerializeI64 {S A β ε : Type} (panic : String → ε) (self_ : Prim.AlphaSerializer S A) (_v : Nat) :
    Gen.BodySerde.serSerializeI64 panic self_ _v = (Serde.Proto.serUnsupported panic : Except ε β) := rfl
theorem tie_serSerializeU8 {S A β ε : Type} (panic : String → ε) (self_ : Prim.AlphaSerializer S A) (_v : Nat) :
    Gen.BodySerde.serSerializeU8 panic self_ _v = (Serde.Proto.serUnsupported panic : Except ε β) := rfl
theorem tie_serSerializeU16 {S A β ε : Type} (panic : String → ε) (self_ : Prim.AlphaSerializer S A) (_v : Nat) :
    Gen.BodySerde.serSerializeU16 panic self_ _v = (Serde.Proto.serUnsupported panic : Except ε β) := rfl
theorem tie_serSerializeU32 {S A β ε : Type} (panic : String → ε) (self_ : Prim.AlphaSerializer S A) (_v : Nat) :
    Gen.BodySerde.serSerializeU32 panic self_ _v = (Serde.Proto.serUnsupported panic : Except ε β) := rfl
theorem tie_serSerializeU64 {S A β ε : Type} (panic : String → ε) (self_ : Prim.AlphaSerializer S A) (_v : Nat) :
    Gen.BodySerde.serSerializeU64 panic self_ _v = (Serde.Proto.serUnsupported panic : Except ε β) := rfl
theorem tie_serSerializeF32 {S A β ε : Type} (panic : String → ε) (self_ : Prim.AlphaSerializer S A) (_v : Float32) :
    Gen.BodySerde.serSerializeF32 panic self_ _v = (Serde.Proto.serUnsupported panic : Except ε β) := rfl
theorem tie_serSerializeF64 {S A β ε : Type} (panic : String → ε) (self_ : Prim.AlphaSerializer S A) (_v : Float) :
    Gen.BodySerde.serSerializeF64 panic self_ _v = (Serde.Proto.serUnsupported panic : Except ε β) := rfl
theorem tie_serSerializeChar {S A β ε : Type} (panic : String → ε) (self_ : Prim.AlphaSerializer S A) (_v : Char) :
    Gen.BodySerde.serSerializeChar panic self_ _v = (Serde.Proto.serUnsupported panic : Except ε β) := rfl
theorem tie_serSerializeStr {S A β ε : Type} (panic : String → ε) (self_ : Prim.AlphaSerializer S A) (_v : String) :
    Gen.BodySerde.serSerializeStr panic self_ _v = (Serde.Proto.serUnsupported panic : Except ε β) := rfl
theorem tie_serSerializeBytes {S A β ε : Type} (panic : String → ε) (self_ : Prim.AlphaSerializer S A) (_v : List UInt8) :
    Gen.BodySerde.serSerializeBytes panic self_ _v = (Serde.Proto.serUnsupported panic : Except ε β) := rfl
theorem tie_serSerializeNone {S A β ε : Type} (panic : String → ε) (self_ : Prim.AlphaSerializer S A) :
    Gen.BodySerde.serSerializeNone panic self_ = (Serde.Proto.serUnsupported panic : Except ε β) := rfl
theorem tie_serSerializeSome {S A V β ε : Type} (panic : String → ε) (self_ : Prim.AlphaSerializer S A) (_value : V) :
    Gen.BodySerde.serSerializeSome panic self_ _value = (Serde.Proto.serUnsupported panic : Except ε β) := rfl
theorem tie_serSerializeTupleVariant {S A β ε : Type} (panic : String → ε) (self_ : Prim.AlphaSerializer S A) (_name : String) (_variant_index : Nat) (_variant : String) (_len : Nat) :
    Gen.BodySerde.serSerializeTupleVariant panic self_ _name _variant_index _variant _len = (Serde.Proto.serUnsupported panic : Except ε β) := rfl
theorem tie_serSerializeStructVariant {S A β ε : Type} (panic : String → ε) (self_ : Prim.AlphaSerializer S A) (_name : String) (_variant_index : Nat) (_variant : String) (_len : Nat) :
    Gen.BodySerde.serSerializeStructVariant panic self_ _name _variant_index _variant _len = (Serde.Proto.serUnsupported panic : Except ε β) := rfl
theorem tie_serSerializeUnitVariant {S A β ε : Type} (panic : String → ε) (self_ : Prim.AlphaSerializer S A) (_name : String) (_variant_index : Nat) (_variant : String) :
    Gen.BodySerde.serSerializeUnitVariant panic self_ _name _variant_index _variant = (Serde.Proto.serUnsupported panic : Except ε β) := rfl
theorem tie_serSerializeNewtypeVariant {S A V β ε : Type} (panic : String → ε) (self_ : Prim.AlphaSerializer S A) (_name : String) (_variant_index : Nat) (_variant : String) (_value : V) :
    Gen.BodySerde.serSerializeNewtypeVariant panic self_ _name _variant_index _variant _value = (Serde.Proto.serUnsupported panic : Except ε β) := rfl
theorem tie_serSerializeI128 {S A β ε : Type} (panic : String → ε) (self_ : Prim.AlphaSerializer S A) (v : Nat) :
    Gen.BodySerde.serSerializeI128 panic self_ v = (Serde.Proto.serUnsupported panic : Except ε β) := rfl
theorem tie_serSerializeU128 {S A β ε : Type} (panic : String → ε) (self_ : Prim.AlphaSerializer S A) (v : Nat) :
    Gen.BodySerde.serSerializeU128 panic self_ v = (Serde.Proto.serUnsupported panic : Except ε β) := rfl
theorem tie_deDeserializeAny {D A W β ε : Type} (panic : String → ε) (self_ : Prim.AlphaDeserializer D A) (_visitor : W) :
    Gen.BodySerde.deDeserializeAny panic self_ _visitor = (Serde.Proto.deUnsupported panic : Except ε β) := rfl
theorem tie_deDeserializeBool {D A W β ε : Type} (panic : String → ε) (self_ : Prim.AlphaDeserializer D A) (_visitor : W) :
    Gen.BodySerde.deDeserializeBool panic self_ _visitor = (Serde.Proto.deUnsupported panic : Except ε β) := rfl
theorem tie_deDeserializeI8 {D A W β ε : Type} (panic : String → ε) (self_ : Prim.AlphaDeserializer D A) (_visitor : W) :
    Gen.BodySerde.deDeserializeI8 panic self_ _visitor = (Serde.Proto.deUnsupported panic : Except ε β) := rfl
theorem tie_deDeserializeI16 {D A W β ε : Type} (panic : String → ε) (self_ : Prim.AlphaDeserializer D A) (_visitor : W) :
    Gen.BodySerde.deDeserializeI16 panic self_ _visitor = (Serde.Proto.deUnsupported panic : Except ε β) := rfl
theorem tie_deDeserializeI32 {D A W β ε : Type} (panic : String → ε) (self_ : Prim.AlphaDeserializer D A) (_visitor : W) :
    Gen.BodySerde.deDeserializeI32 panic self_ _visitor = (Serde.Proto.deUnsupported panic : Except ε β) := rfl
theorem tie_deDeserializeI64 {D A W β ε : Type} (panic : String → ε) (self_ : Prim.AlphaDeserializer D A) (_visitor : W) :
    Gen.BodySerde.deDeserializeI64 panic self_ _visitor = (Serde.Proto.deUnsupported panic : Except ε β) := rfl
theorem tie_deDeserializeU8 {D A W β ε : Type} (panic : String → ε) (self_ : Prim.AlphaDeserializer D A) (_visitor : W) :
    Gen.BodySerde.deDeserializeU8 panic self_ _visitor = (Serde.Proto.deUnsupported panic : Except ε β) := rfl
theorem tie_deDeserializeU16 {D A W β ε : Type} (panic : String → ε) (self_ : Prim.AlphaDeserializer D A) (_visitor : W) :
    Gen.BodySerde.deDeserializeU16 panic self_ _visitor = (Serde.Proto.deUnsupported panic : Except ε β) := rfl
theorem tie_deDeserializeU32 {D A W β ε : Type} (panic : String → ε) (self_ : Prim.AlphaDeserializer D A) (_visitor : W) :
    Gen.BodySerde.deDeserializeU32 panic self_ _visitor = (Serde.Proto.deUnsupported panic : Except ε β) := rfl
theorem tie_deDeserializeU64 {D A W β ε : Type} (panic : String → ε) (self_ : Prim.AlphaDeserializer D A) (_visitor : W) :
    Gen.BodySerde.deDeserializeU64 panic self_ _visitor = (Serde.Proto.deUnsupported panic : Except ε β) := rfl
theorem tie_deDeserializeF32 {D A W β ε : Type} (panic : String → ε) (self_ : Prim.AlphaDeserializer D A) (_visitor : W) :
    Gen.BodySerde.deDeserializeF32 panic self_ _visitor = (Serde.Proto.deUnsupported panic : Except ε β) := rfl
theorem tie_deDeserializeF64 {D A W β ε : Type} (panic : String → ε) (self_ : Prim.AlphaDeserializer D A) (_visitor : W) :
    Gen.BodySerde.deDeserializeF64 panic self_ _visitor = (Serde.Proto.deUnsupported panic : Except ε β) := rfl
theorem tie_deDeserializeChar {D A W β ε : Type} (panic : String → ε) (self_ : Prim.AlphaDeserializer D A) (_visitor : W) :
    Gen.BodySerde.deDeserializeChar panic self_ _visitor = (Serde.Proto.deUnsupported panic : Except ε β) := rfl
theorem tie_deDeserializeStr {D A W β ε : Type} (panic : String → ε) (self_ : Prim.AlphaDeserializer D A) (_visitor : W) :
    Gen.BodySerde.deDeserializeStr panic self_ _visitor = (Serde.Proto.deUnsupported panic : Except ε β) := rfl
theorem tie_deDeserializeString {D A W β ε : Type} (panic : String → ε) (self_ : Prim.AlphaDeserializer D A) (_visitor : W) :
    Gen.BodySerde.deDeserializeString panic self_ _visitor = (Serde.Proto.deUnsupported panic : Except ε β) := rfl
theorem tie_deDeserializeBytes {D A W β ε : Type} (panic : String → ε) (self_ : Prim.AlphaDeserializer D A) (_visitor : W) :
    Gen.BodySerde.deDeserializeBytes panic self_ _visitor = (Serde.Proto.deUnsupported panic : Except ε β) := rfl
theorem tie_deDeserializeByteBuf {D A W β ε : Type} (panic : String → ε) (self_ : Prim.AlphaDeserializer D A) (_visitor : W) :
    Gen.BodySerde.deDeserializeByteBuf panic self_ _visitor = (Serde.Proto.deUnsupported panic : Except ε β) := rfl
theorem tie_deDeserializeOption {D A W β ε : Type} (panic : String → ε) (self_ : Prim.AlphaDeserializer D A) (_visitor : W) :
    Gen.BodySerde.deDeserializeOption panic self_ _visitor = (Serde.Proto.deUnsupported panic : Except ε β) := rfl
theorem tie_deDeserializeEnum {D A W β ε : Type} (panic : String → ε) (self_ : Prim.AlphaDeserializer D A) (_name : String) (_variants : List String) (_visitor : W) :
    Gen.BodySerde.deDeserializeEnum panic self_ _name _variants _visitor = (Serde.Proto.deUnsupported panic : Except ε β) := rfl
theorem tie_deDeserializeIdentifier {D A W β ε : Type} (panic : String → ε) (self_ : Prim.AlphaDeserializer D A) (_visitor : W) :
    Gen.BodySerde.deDeserializeIdentifier panic self_ _visitor = (Serde.Proto.deUnsupported panic : Except ε β) := rfl
theorem tie_sfdDeserializeBool {W β ε : Type} (panic : String → ε) (self_ : Prim.StructFieldDeserializer) (_visitor : W) :
    Gen.BodySerde.sfdDeserializeBool panic self_ _visitor = (Serde.Proto.sfdUnsupported panic : Except ε β) := rfl
theorem tie_sfdDeserializeI8 {W β ε : Type} (panic : String → ε) (self_ : Prim.StructFieldDeserializer) (_visitor : W) :
    Gen.BodySerde.sfdDeserializeI8 panic self_ _visitor = (Serde.Proto.sfdUnsupported panic : Except ε β) := rfl
theorem tie_sfdDeserializeI16 {W β ε : Type} (panic : String → ε) (self_ : Prim.StructFieldDeserializer) (_visitor : W) :
    Gen.BodySerde.sfdDeserializeI16 panic self_ _visitor = (Serde.Proto.sfdUnsupported panic : Except ε β) := rfl
theorem tie_sfdDeserializeI32 {W β ε : Type} (panic : String → ε) (self_ : Prim.StructFieldDeserializer) (_visitor : W) :
    Gen.BodySerde.sfdDeserializeI32 panic self_ _visitor = (Serde.Proto.sfdUnsupported panic : Except ε β) := rfl
theorem tie_sfdDeserializeI64 {W β ε : Type} (panic : String → ε) (self_ : Prim.StructFieldDeserializer) (_visitor : W) :
    Gen.BodySerde.sfdDeserializeI64 panic self_ _visitor = (Serde.Proto.sfdUnsupported panic : Except ε β) := rfl
theorem tie_sfdDeserializeU8 {W β ε : Type} (panic : String → ε) (self_ : Prim.StructFieldDeserializer) (_visitor : W) :
    Gen.BodySerde.sfdDeserializeU8 panic self_ _visitor = (Serde.Proto.sfdUnsupported panic : Except ε β) := rfl
theorem tie_sfdDeserializeU16 {W β ε : Type} (panic : String → ε) (self_ : Prim.StructFieldDeserializer) (_visitor : W) :
    Gen.BodySerde.sfdDeserializeU16 panic self_ _visitor = (Serde.Proto.sfdUnsupported panic : Except ε β) := rfl
theorem tie_sfdDeserializeU32 {W β ε : Type} (panic : String → ε) (self_ : Prim.StructFieldDeserializer) (_visitor : W) :
    Gen.BodySerde.sfdDeserializeU32 panic self_ _visitor = (Serde.Proto.sfdUnsupported panic : Except ε β) := rfl
theorem tie_sfdDeserializeU64 {W β ε : Type} (panic : String → ε) (self_ : Prim.StructFieldDeserializer) (_visitor : W) :
    Gen.BodySerde.sfdDeserializeU64 panic self_ _visitor = (Serde.Proto.sfdUnsupported panic : Except ε β) := rfl
theorem tie_sfdDeserializeF32 {W β ε : Type} (panic : String → ε) (self_ : Prim.StructFieldDeserializer) (_visitor : W) :
    Gen.BodySerde.sfdDeserializeF32 panic self_ _visitor = (Serde.Proto.sfdUnsupported panic : Except ε β) := rfl
theorem tie_sfdDeserializeF64 {W β ε : Type} (panic : String → ε) (self_ : Prim.StructFieldDeserializer) (_visitor : W) :
    Gen.BodySerde.sfdDeserializeF64 panic self_ _visitor = (Serde.Proto.sfdUnsupported panic : Except ε β) := rfl
theorem tie_sfdDeserializeChar {W β ε : Type} (panic : String → ε) (self_ : Prim.StructFieldDeserializer) (_visitor : W) :
    Gen.BodySerde.sfdDeserializeChar panic self_ _visitor = (Serde.Proto.sfdUnsupported panic : Except ε β) := rfl
theorem tie_sfdDeserializeStr {W β ε : Type} (panic : String → ε) (self_ : Prim.StructFieldDeserializer) (_visitor : W) :
    Gen.BodySerde.sfdDeserializeStr panic self_ _visitor = (Serde.Proto.sfdUnsupported panic : Except ε β) := rfl
theorem tie_sfdDeserializeString {W β ε : Type} (panic : String → ε) (self_ : Prim.StructFieldDeserializer) (_visitor : W) :
    Gen.BodySerde.sfdDeserializeString panic self_ _visitor = (Serde.Proto.sfdUnsupported panic : Except ε β) := rfl
theorem tie_sfdDeserializeBytes {W β ε : Type} (panic : String → ε) (self_ : Prim.StructFieldDeserializer) (_visitor : W) :
    Gen.BodySerde.sfdDeserializeBytes panic self_ _visitor = (Serde.Proto.sfdUnsupported panic : Except ε β) := rfl
theorem tie_sfdDeserializeByteBuf {W β ε : Type} (panic : String → ε) (self_ : Prim.StructFieldDeserializer) (_visitor : W) :
    Gen.BodySerde.sfdDeserializeByteBuf panic self_ _visitor = (Serde.Proto.sfdUnsupported panic : Except ε β) := rfl
theorem tie_sfdDeserializeOption {W β ε : Type} (panic : String → ε) (self_ : Prim.StructFieldDeserializer) (_visitor : W) :
    Gen.BodySerde.sfdDeserializeOption panic self_ _visitor = (Serde.Proto.sfdUnsupported panic : Except ε β) := rfl
theorem tie_sfdDeserializeUnit {W β ε : Type} (panic : String → ε) (self_ : Prim.StructFieldDeserializer) (_visitor : W) :
    Gen.BodySerde.sfdDeserializeUnit panic self_ _visitor = (Serde.Proto.sfdUnsupported panic : Except ε β) := rfl
theorem tie_sfdDeserializeUnitStruct {W β ε : Type} (panic : String → ε) (self_ : Prim.StructFieldDeserializer) (_name : String) (_visitor : W) :
    Gen.BodySerde.sfdDeserializeUnitStruct panic self_ _name _visitor = (Serde.Proto.sfdUnsupported panic : Except ε β) := rfl
theorem tie_sfdDeserializeNewtypeStruct {W β ε : Type} (panic : String → ε) (self_ : Prim.StructFieldDeserializer) (_name : String) (_visitor : W) :
    Gen.BodySerde.sfdDeserializeNewtypeStruct panic self_ _name _visitor = (Serde.Proto.sfdUnsupported panic : Except ε β) := rfl
theorem tie_sfdDeserializeSeq {W β ε : Type} (panic : String → ε) (self_ : Prim.StructFieldDeserializer) (_visitor : W) :
    Gen.BodySerde.sfdDeserializeSeq panic self_ _visitor = (Serde.Proto.sfdUnsupported panic : Except ε β) := rfl
theorem tie_sfdDeserializeTuple {W β ε : Type} (panic : String → ε) (self_ : Prim.StructFieldDeserializer) (_len : Nat) (_visitor : W) :
    Gen.BodySerde.sfdDeserializeTuple panic self_ _len _visitor = (Serde.Proto.sfdUnsupported panic : Except ε β) := rfl
theorem tie_sfdDeserializeTupleStruct {W β ε : Type} (panic : String → ε) (self_ : Prim.StructFieldDeserializer) (_name : String) (_len : Nat) (_visitor : W) :
    Gen.BodySerde.sfdDeserializeTupleStruct panic self_ _name _len _visitor = (Serde.Proto.sfdUnsupported panic : Except ε β) := rfl
theorem tie_sfdDeserializeMap {W β ε : Type} (panic : String → ε) (self_ : Prim.StructFieldDeserializer) (_visitor : W) :
    Gen.BodySerde.sfdDeserializeMap panic self_ _visitor = (Serde.Proto.sfdUnsupported panic : Except ε β) := rfl
theorem tie_sfdDeserializeStruct {W β ε : Type} (panic : String → ε) (self_ : Prim.StructFieldDeserializer) (_name : String) (_fields : List String) (_visitor : W) :
    Gen.BodySerde.sfdDeserializeStruct panic self_ _name _fields _visitor = (Serde.Proto.sfdUnsupported panic : Except ε β) := rfl
theorem tie_sfdDeserializeEnum {W β ε : Type} (panic : String → ε) (self_ : Prim.StructFieldDeserializer) (_name : String) (_variants : List String) (_visitor : W) :
    Gen.BodySerde.sfdDeserializeEnum panic self_ _name _variants _visitor = (Serde.Proto.sfdUnsupported panic : Except ε β) := rfl


/-! ### bridge 1: the translated `AlphaSerializer` around the recording serializer IS `Serde.alphaSer` -/
section bridge
variable {α ε S Q β : Type}

/-- the translated `AlphaSerializer` methods, bundled as a serializer around any serializer `s` (alpha and element values are leaves `Val α`; a `&str`
    key reaches a map as `Key.str`).  Every primitive method is the `unimplemented!` forwarder (`tie_serSerializeF32`, .. above). -/
def alphaWrap (panic : String → ε) (s : Ser ε S Q β α) : Ser ε (AlphaSerializer S (Serde.Val α)) (AlphaSerializer Q (Serde.Val α)) β α where
  seq := Gen.BodySerde.serSerializeSeq s.seq
  tuple := Gen.BodySerde.serSerializeTuple s.tuple
  tupleStruct := Gen.BodySerde.serSerializeTupleStruct s.tupleStruct
  map := Gen.BodySerde.serSerializeMap s.map
  struct := Gen.BodySerde.serSerializeStruct s.struct
  newtypeStruct := Gen.BodySerde.serSerializeNewtypeStruct s.tupleStruct s.tsField s.tsField s.tsEnd
  unitStruct := Gen.BodySerde.serSerializeUnitStruct s.newtypeStruct
  unit := Gen.BodySerde.serSerializeUnit s.tuple s.tupleElement s.tupleEnd
  prim := fun _ _ => Gen.BodySerde.alphaSerializerError panic
  seqElement := Gen.BodySerde.seqSerializeElement s.seqElement
  tupleElement := Gen.BodySerde.tupleSerializeElement s.tupleElement
  tsField := Gen.BodySerde.tupleStructSerializeField s.tsField
  mapEntry := Gen.BodySerde.mapSerializeEntry s.mapEntry
  structField := Gen.BodySerde.structSerializeField s.structField
  seqEnd := Gen.BodySerde.seqEnd s.seqElement s.seqEnd
  tupleEnd := Gen.BodySerde.tupleEnd s.tupleElement s.tupleEnd
  tsEnd := Gen.BodySerde.tupleStructEnd s.tsField s.tsEnd
  mapEnd := Gen.BodySerde.mapEnd (fun q k a => s.mapEntry q (.str k) a) s.mapEnd
  structEnd := Gen.BodySerde.structEnd s.structField s.structEnd

/-- forwarding element by element keeps the alpha and feeds the wrapped compound -/
theorem feed_forward {γ A : Type} (g : Q → γ → Except ε Q) (q : Q) (a : A) (xs : List γ) :
    feed (fun (w : AlphaSerializer Q A) x => Prim.tryE (g w.inner x) fun q' => .ok { w with inner := q' }) ⟨q, a⟩ xs
      = Prim.tryE (feed g q xs) fun q' => .ok ⟨q', a⟩ := by
  induction xs generalizing q with
  | nil => rfl
  | cons x xs ih =>
    simp only [feed]
    cases h : g q x with
    | error e => rfl
    | ok q' => simp only [Prim.tryE]; exact ih q'

theorem feed_rec_seq (l : Option Nat) (acc xs : List (Serde.Val α)) :
    feed (rec (α := α)).seqElement (.seq l acc) xs = .ok (.seq l (acc ++ xs)) := by
  induction xs generalizing acc with
  | nil => simp [feed]
  | cons x xs ih =>
    simp only [feed, andThen]
    refine Eq.trans (b := feed _ _ xs) rfl ?_
    rw [ih]; simp
theorem feed_rec_tuple (l : Nat) (acc xs : List (Serde.Val α)) :
    feed (rec (α := α)).tupleElement (.tuple l acc) xs = .ok (.tuple l (acc ++ xs)) := by
  induction xs generalizing acc with
  | nil => simp [feed]
  | cons x xs ih =>
    simp only [feed, andThen]
    refine Eq.trans (b := feed _ _ xs) rfl ?_
    rw [ih]; simp
theorem feed_rec_ts (n : String) (l : Nat) (acc xs : List (Serde.Val α)) :
    feed (rec (α := α)).tsField (.tupleStruct n l acc) xs = .ok (.tupleStruct n l (acc ++ xs)) := by
  induction xs generalizing acc with
  | nil => simp [feed]
  | cons x xs ih =>
    simp only [feed, andThen]
    refine Eq.trans (b := feed _ _ xs) rfl ?_
    rw [ih]; simp
theorem feed_rec_map (l : Option Nat) (acc es : List (Serde.Key × Serde.Val α)) :
    feed (fun q (e : Serde.Key × Serde.Val α) => (rec (α := α)).mapEntry q e.1 e.2) (.map l acc) es = .ok (.map l (acc ++ es)) := by
  induction es generalizing acc with
  | nil => simp [feed]
  | cons x xs ih =>
    simp only [feed, andThen]
    refine Eq.trans (b := feed _ _ xs) rfl ?_
    rw [ih]; simp
theorem feed_rec_struct (n : String) (l : Nat) (acc fs : List (String × Serde.Val α)) :
    feed (fun q (e : String × Serde.Val α) => (rec (α := α)).structField q e.1 e.2) (.struct n l acc) fs = .ok (.struct n l (acc ++ fs)) := by
  induction fs generalizing acc with
  | nil => simp [feed]
  | cons x xs ih =>
    simp only [feed, andThen]
    refine Eq.trans (b := feed _ _ xs) rfl ?_
    rw [ih]; simp

/-- the recording serializer is faithful: a `Serialize` impl that denotes `t` records `t` -/
theorem emit_rec (t : Serde.Tree α) : emit rec () t = .ok t := by
  cases t with
  | val v => cases v <;> rfl
  | unit => rfl
  | unitStruct n => rfl
  | seq l xs =>
    refine Eq.trans (b := Prim.tryE (feed (rec (α := α)).seqElement (.seq l []) xs) (rec (α := α)).seqEnd) rfl ?_
    rw [feed_rec_seq]; simp [Prim.tryE, rec]
  | tuple l xs =>
    refine Eq.trans (b := Prim.tryE (feed (rec (α := α)).tupleElement (.tuple l []) xs) (rec (α := α)).tupleEnd) rfl ?_
    rw [feed_rec_tuple]; simp [Prim.tryE, rec]
  | tupleStruct n l xs =>
    refine Eq.trans (b := Prim.tryE (feed (rec (α := α)).tsField (.tupleStruct n l []) xs) (rec (α := α)).tsEnd) rfl ?_
    rw [feed_rec_ts]; simp [Prim.tryE, rec]
  | map l es =>
    refine Eq.trans (b := Prim.tryE (feed (fun q (e : Serde.Key × Serde.Val α) => (rec (α := α)).mapEntry q e.1 e.2) (.map l []) es) (rec (α := α)).mapEnd) rfl ?_
    rw [feed_rec_map]; simp [Prim.tryE, rec]
  | struct n l fs =>
    refine Eq.trans (b := Prim.tryE (feed (fun q (e : String × Serde.Val α) => (rec (α := α)).structField q e.1 e.2) (.struct n l []) fs) (rec (α := α)).structEnd) rfl ?_
    rw [feed_rec_struct]; simp [Prim.tryE, rec]

/-- **`Serde.alphaSer` is a theorem about the Rust methods.**  Feed ANY data-model tree `t` (what some `Serialize` impl tells its serializer) to the
    translated `AlphaSerializer { inner: <recorder>, alpha: a }`: what the recorder has seen at the end is exactly `Serde.alphaSer Serde.cfgAlpha t a` - the
    same compound with declared length + 1 and the alpha appended LAST (under `"alpha"` for maps and structs), `Name(v, alpha)` for a newtype struct,
    `Name(alpha)` for a unit struct, `(alpha)` for `()` - and it fails (panic, or nothing representable) exactly where the model says `none`. -/
theorem alphaSerializer_is_alphaSer (t : Serde.Tree α) (a : Serde.Val α) :
    (emit (alphaWrap Fault.panic rec) ⟨(), a⟩ t).toOption = Serde.alphaSer Serde.cfgAlpha t a := by
  cases t with
  | val v => cases v <;> rfl
  | unit => rfl
  | unitStruct n => cases a <;> rfl
  | seq l xs =>
    have h : emit (alphaWrap Fault.panic rec) ⟨(), a⟩ (.seq l xs)
        = Prim.tryE (feed (fun (w : AlphaSerializer (Serde.Tree α) (Serde.Val α)) x => Prim.tryE ((rec (α := α)).seqElement w.inner x) fun q' => .ok { w with inner := q' })
            ⟨.seq (l.map (· + 1)) [], a⟩ xs) (Gen.BodySerde.seqEnd (rec (α := α)).seqElement (rec (α := α)).seqEnd) := rfl
    rw [h, feed_forward, feed_rec_seq]
    simp [Prim.tryE, Gen.BodySerde.seqEnd, rec, Serde.alphaSer, Serde.cfgAlpha, Gen.Serde.serLenPlus_seq, Except.toOption]
  | tuple l xs =>
    have h : emit (alphaWrap Fault.panic rec) ⟨(), a⟩ (.tuple l xs)
        = Prim.tryE (feed (fun (w : AlphaSerializer (Serde.Tree α) (Serde.Val α)) x => Prim.tryE ((rec (α := α)).tupleElement w.inner x) fun q' => .ok { w with inner := q' })
            ⟨.tuple (l + 1) [], a⟩ xs) (Gen.BodySerde.tupleEnd (rec (α := α)).tupleElement (rec (α := α)).tupleEnd) := rfl
    rw [h, feed_forward, feed_rec_tuple]
    simp [Prim.tryE, Gen.BodySerde.tupleEnd, rec, Serde.alphaSer, Serde.cfgAlpha, Gen.Serde.serLenPlus_tuple, Except.toOption]
  | tupleStruct n l xs =>
    have h : emit (alphaWrap Fault.panic rec) ⟨(), a⟩ (.tupleStruct n l xs)
        = Prim.tryE (feed (fun (w : AlphaSerializer (Serde.Tree α) (Serde.Val α)) x => Prim.tryE ((rec (α := α)).tsField w.inner x) fun q' => .ok { w with inner := q' })
            ⟨.tupleStruct n (l + 1) [], a⟩ xs) (Gen.BodySerde.tupleStructEnd (rec (α := α)).tsField (rec (α := α)).tsEnd) := rfl
    rw [h, feed_forward, feed_rec_ts]
    simp [Prim.tryE, Gen.BodySerde.tupleStructEnd, rec, Serde.alphaSer, Serde.cfgAlpha, Gen.Serde.serLenPlus_tupleStruct, Except.toOption]
  | map l es =>
    have h : emit (alphaWrap Fault.panic rec) ⟨(), a⟩ (.map l es)
        = Prim.tryE (feed (fun (w : AlphaSerializer (Serde.Tree α) (Serde.Val α)) (e : Serde.Key × Serde.Val α) =>
              Prim.tryE ((rec (α := α)).mapEntry w.inner e.1 e.2) fun q' => .ok { w with inner := q' })
            ⟨.map (l.map (· + 1)) [], a⟩ es) (Gen.BodySerde.mapEnd (fun q k a => (rec (α := α)).mapEntry q (.str k) a) (rec (α := α)).mapEnd) := rfl
    rw [h, feed_forward (g := fun q (e : Serde.Key × Serde.Val α) => (rec (α := α)).mapEntry q e.1 e.2), feed_rec_map]
    simp [Prim.tryE, Gen.BodySerde.mapEnd, rec, Serde.alphaSer, Serde.cfgAlpha, Gen.Serde.serLenPlus_map, Gen.Serde.serMapAlphaKey, Except.toOption]
  | struct n l fs =>
    have h : emit (alphaWrap Fault.panic rec) ⟨(), a⟩ (.struct n l fs)
        = Prim.tryE (feed (fun (w : AlphaSerializer (Serde.Tree α) (Serde.Val α)) (e : String × Serde.Val α) =>
              Prim.tryE ((rec (α := α)).structField w.inner e.1 e.2) fun q' => .ok { w with inner := q' })
            ⟨.struct n (l + 1) [], a⟩ fs) (Gen.BodySerde.structEnd (rec (α := α)).structField (rec (α := α)).structEnd) := rfl
    rw [h, feed_forward (g := fun q (e : String × Serde.Val α) => (rec (α := α)).structField q e.1 e.2), feed_rec_struct]
    simp [Prim.tryE, Gen.BodySerde.structEnd, rec, Serde.alphaSer, Serde.cfgAlpha, Gen.Serde.serLenPlus_struct, Gen.Serde.serStructAlphaKey, Except.toOption]

/-- in particular `Alpha<C, T>::serialize` / `PreAlpha<C>::serialize` (translated) of a colour whose derived `Serialize` denotes `Serde.serColor tr d c`
    records `Serde.serAlpha` -/
theorem alphaSerialize_is_serAlpha (d : Serde.Desc) (c : List α) (a : α) :
    (Gen.BodySerde.alphaSerialize (fun (col : List α) w => emit (alphaWrap Fault.panic rec) w (Serde.serColor Serde.cfgAlpha.hueTransparent d col))
        (⟨c, Serde.Val.num a⟩ : AlphaOf (List α) (Serde.Val α)) ()).toOption = Serde.serAlpha Serde.cfgAlpha d c a :=
  alphaSerializer_is_alphaSer (Serde.serColor Serde.cfgAlpha.hueTransparent d c) (Serde.Val.num a)

end bridge

/-! ### bridge 2: the deserializing side -/
section bridge2
variable {α ε K κ : Type}

/-- the replayed identifier of a model key -/
def keyField : Serde.Key → StructField
  | .str s => .str s
  | .idx n => .unsigned n

/-- **`Serde.isAlphaKey` is the translated `AlphaFieldVisitor`.**  A key that presents itself through `deserialize_identifier` (a name: `visit_str`, a
    position: `visit_u64`) to the field visitor installed on the `deserialize_struct` / `_tuple` paths (`field_count = Some fc`) is intercepted - the seed is
    handed back unused - exactly when `Serde.isAlphaKey Serde.cfgAlpha fc` holds; any other key is replayed unchanged to the wrapped seed. -/
theorem fieldVisitor_is_isAlphaKey (sd : K → StructFieldDeserializer → Except ε κ) (it : Unexpected → String → ε) (seed : K) (fc : Nat) (k : Serde.Key) :
    keyIdentifier (Gen.BodySerde.fieldVisitorVisitU64 sd it) (Gen.BodySerde.fieldVisitorVisitStr sd it) k ⟨seed, some fc⟩
      = if Serde.isAlphaKey Serde.cfgAlpha fc k then .ok (.alpha seed) else Prim.tryE (sd seed ⟨keyField k⟩) fun x => .ok (.other x) := by
  cases k with
  | str s =>
    show Gen.BodySerde.fieldVisitorVisitStr sd it ⟨seed, some fc⟩ s = _
    rw [tie_fieldVisitorVisitStr]; rfl
  | idx n =>
    show Gen.BodySerde.fieldVisitorVisitU64 sd it ⟨seed, some fc⟩ n = _
    rw [tie_fieldVisitorVisitU64]; rfl

/-- on the `deserialize_map` path (`field_count = None`) only the name `"alpha"` is the alpha; a positional key is `invalid_type` -/
theorem fieldVisitor_without_count (sd : K → StructFieldDeserializer → Except ε κ) (it : Unexpected → String → ε) (seed : K) (k : Serde.Key) :
    keyIdentifier (Gen.BodySerde.fieldVisitorVisitU64 sd it) (Gen.BodySerde.fieldVisitorVisitStr sd it) k ⟨seed, none⟩
      = match k with
        | .str s => if s == Serde.cfgAlpha.deStrKey then .ok (.alpha seed) else Prim.tryE (sd seed ⟨.str s⟩) fun x => .ok (.other x)
        | .idx n => .error (it (.unsigned n) "map key or struct field") := by
  cases k with
  | str s =>
    show Gen.BodySerde.fieldVisitorVisitStr sd it ⟨seed, none⟩ s = _
    rw [tie_fieldVisitorVisitStr]; rfl
  | idx n =>
    show Gen.BodySerde.fieldVisitorVisitU64 sd it ⟨seed, none⟩ n = _
    rw [tie_fieldVisitorVisitU64]; rfl

/-- **`Serde.deAlpha` is the translated `Alpha::deserialize`** applied to a colour deserialization that behaves as `Serde.deAlphaRaw` (the derived
    `Deserialize` of the colour over the `AlphaDeserializer`: modelled, see the header): an empty cell is `missing field "alpha"` -/
theorem alphaDeserialize_is_deAlpha (f : Serde.Fmt) (d : Serde.Desc) (t : Serde.GTree α) :
    (Gen.BodySerde.alphaDeserialize (fun (_ : AlphaDeserializer Unit α) => Serde.deAlphaRaw Serde.cfgAlpha f d t) Serde.Err.missingField ()).map
        (fun x => (x.color, x.alpha)) = Serde.deAlpha Serde.cfgAlpha f d t := by
  rw [tie_alphaDeserialize]
  unfold Serde.Proto.alphaDeserialize Serde.deAlpha
  cases Serde.deAlphaRaw Serde.cfgAlpha f d t with
  | error e => rfl
  | ok r => obtain ⟨c, a⟩ := r; cases a <;> rfl
theorem preAlphaDeserialize_is_deAlpha (f : Serde.Fmt) (d : Serde.Desc) (t : Serde.GTree α) :
    (Gen.BodySerde.preAlphaDeserialize (fun (_ : AlphaDeserializer Unit α) => Serde.deAlphaRaw Serde.cfgPreAlpha f d t) Serde.Err.missingField ()).map
        (fun x => (x.color, x.alpha)) = Serde.deAlpha Serde.cfgPreAlpha f d t := by
  unfold Gen.BodySerde.preAlphaDeserialize Serde.deAlpha
  dsimp only
  cases Serde.deAlphaRaw Serde.cfgPreAlpha f d t with
  | error e => rfl
  | ok r => obtain ⟨c, a⟩ := r; cases a <;> rfl

/-- **`Serde.deAlphaOpt` is the translated `deserialize_with_optional_alpha`** (same reading of the colour's part): an empty cell is `max_intensity()` -/
theorem optionalAlpha_is_deAlphaOpt (f : Serde.Fmt) (d : Serde.Desc) (maxI minI : α) (t : Serde.GTree α) :
    (Gen.BodySerde.deserializeWithOptionalAlpha (fun (_ : AlphaDeserializer Unit α) => Serde.deAlphaRaw Serde.cfgAlpha f d t) maxI minI ()).map
        (fun x => (x.color, x.alpha)) = Serde.deAlphaOpt Serde.cfgAlpha f d maxI t := by
  rw [tie_deserializeWithOptionalAlpha]
  unfold Serde.Proto.optionalAlpha Serde.deAlphaOpt
  cases Serde.deAlphaRaw Serde.cfgAlpha f d t with
  | error e => rfl
  | ok r => obtain ⟨c, a⟩ := r; cases a <;> rfl
theorem optionalPreAlpha_is_deAlphaOpt (f : Serde.Fmt) (d : Serde.Desc) (maxI minI : α) (t : Serde.GTree α) :
    (Gen.BodySerde.deserializeWithOptionalPreAlpha (fun (_ : AlphaDeserializer Unit α) => Serde.deAlphaRaw Serde.cfgPreAlpha f d t) maxI minI ()).map
        (fun x => (x.color, x.alpha)) = Serde.deAlphaOpt Serde.cfgPreAlpha f d maxI t := by
  unfold Gen.BodySerde.deserializeWithOptionalPreAlpha Serde.deAlphaOpt
  dsimp only
  cases Serde.deAlphaRaw Serde.cfgPreAlpha f d t with
  | error e => rfl
  | ok r => obtain ⟨c, a⟩ := r; cases a <;> rfl

/-- `as_array` / `as_uint`: serializing is serializing what the cast gives (`Serde.serAsArray` / `Serde.serAsUint` of the cast value), deserializing is the
    array / integer deserialization followed by the cast back -/
theorem serializeAsArray_is_serAsArray {σ : Type} (cast : σ → List α) (v : σ) :
    Gen.BodySerde.serializeAsArray cast (fun arr (_ : Unit) => (Except.ok (Serde.serAsArray arr) : Except ε (Serde.Tree α))) v () = .ok (Serde.serAsArray (cast v)) := rfl
theorem serializeAsUint_is_serAsUint {σ : Type} (cast : σ → α) (v : σ) :
    Gen.BodySerde.serializeAsUint cast (fun u (_ : Unit) => (Except.ok (Serde.serAsUint u) : Except ε (Serde.Tree α))) v () = .ok (Serde.serAsUint (cast v)) := rfl
theorem deserializeAsArray_is_deAsArray {σ : Type} (uncast : List α → σ) (n : Nat) (t : Serde.GTree α) :
    Gen.BodySerde.deserializeAsArray uncast (fun (_ : Unit) => Serde.deAsArray n t) () = (Serde.deAsArray n t).map uncast := by
  unfold Gen.BodySerde.deserializeAsArray; cases Serde.deAsArray n t <;> rfl
theorem deserializeAsUint_is_deAsUint {σ : Type} (uncast : α → σ) (t : Serde.GTree α) :
    Gen.BodySerde.deserializeAsUint uncast (fun (_ : Unit) => Serde.deAsUint t) () = (Serde.deAsUint t).map uncast := by
  unfold Gen.BodySerde.deserializeAsUint; cases Serde.deAsUint t <;> rfl

end bridge2

end Tie
