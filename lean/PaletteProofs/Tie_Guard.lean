/-
  Source-text tie of C13 (in-place conversion and its scope guards) to the *text* of
    palette/src/convert/from_into_color_mut.rs, from_into_color_unclamped_mut.rs   (the element / slice impls, the blanket `Into..Mut`, every inherent
                                                                                   method of both guard structs, their `Deref`, `DerefMut`, `Drop`)
    palette/src/cast/array.rs                                                      (`map_vec_in_place`, `map_slice_box_in_place` and the owned-buffer casts
                                                                                   `into/from_array_vec`, `into/from_array_slice_box`, `into/from_array_slice_mut`)

  `tools/extract.py` (plugin `tools/extract_plugins/guard.py`, translator `tools/rust2lean_guard.py`) re-reads these bodies on every run and lowers each to
  `Gen.BodyGuard.<name>` (lean/PaletteModel/Gen/BodiesGuard.lean): state passing (the guard value, the memory), `Option::take / map / and_then / as_ref`
  on the guard's `current`, the trait-dispatched conversions `X::from_color_mut` / `X::from_color_unclamped_mut` as *parameters*, `mem::forget` as "no
  destructor", and the **scope-end drops the language inserts** (`mut self`, the closure's `guard`) as calls of `dropGlue`, i.e. of the translated `Drop::drop`.

  Three layers:
    * `*_none`, `*_some`, `dropGlue_*` (section `shape`): for **every** conversion callee, what the translated body does - `take()` empties `current` and its
      value is the only thing handed to the conversion; `Drop` converts back exactly once, and only if `current` is `Some`; the `then_*` methods and
      `restore` move the reference out of the inner guard, so that the inner guard's and the moved-from `self`'s destructors do nothing; `restore`
      returns the reference the back-conversion's guard held;
    * `tie_<name>`: at the hand model's conversion (`InPlace.fromColorMutAt form cl`, the symbolic `conv` step with the clamped flag) the translated body
      **is** the model function the driver executes and the theorems of `C13_InPlace.lean` / `C13_InPlacePanic.lean` are about (`InPlace.dropGuard`,
      `thenInto`, `switchGuard`, `restore`, `fromColorMutElem`, `fromColorMutSlice`, `fromColorMut`, `readMapWrite` / `mapInPlace`);
    * the new explicit model functions of `PaletteModel/InPlaceForms.lean` are proved equal to what `InPlace.step` / `viewTy` / `mapInPlace` use.
  NOT translated: header of Gen/BodiesGuard.lean.
-/
import PaletteModel.Gen.BodiesGuard
import PaletteProofs.C13_InPlace

namespace Tie
open InPlace

/-! ### shape: for every conversion callee -/
section shape
variable {μ : Type} (fcm fcum : Prim.Ty → Prim.Ty → μ → Prim.Guard × μ)

/- **`Drop` does nothing when `current` is `None`** (both guard structs) -/
theorem clampedDrop_none (g : Guard) (m : μ) (h : g.current = none) : Gen.BodyGuard.clampedDrop fcm fcum g m = (g, m) := by
  cases g with | mk c o cl => cases h; rfl
theorem unclampedDrop_none (g : Guard) (m : μ) (h : g.current = none) : Gen.BodyGuard.unclampedDrop fcm fcum g m = (g, m) := by
  cases g with | mk c o cl => cases h; rfl

/- **`Drop` converts back exactly once when `current` is `Some`**: one call of `U::from_color_mut` (resp. `U::from_color_unclamped_mut`) on the reference
    that was taken, with target type `U` = `original`; the guard it returns is forgotten; `current` is `None` afterwards -/
theorem clampedDrop_some (g : Guard) (m : μ) (T : Ty) (h : g.current = some T) :
    Gen.BodyGuard.clampedDrop fcm fcum g m = ({ g with current := none }, (fcm T g.original m).2) := by
  cases g with | mk c o cl => cases h; rfl
theorem unclampedDrop_some (g : Guard) (m : μ) (T : Ty) (h : g.current = some T) :
    Gen.BodyGuard.unclampedDrop fcm fcum g m = ({ g with current := none }, (fcum T g.original m).2) := by
  cases g with | mk c o cl => cases h; rfl

/- the destructor of a guard whose reference has been taken / moved out leaves the memory alone -/
theorem dropGlue_none (g : Guard) (m : μ) (h : g.current = none) : Gen.BodyGuard.dropGlue fcm fcum g m = m := by
  cases g with | mk c o cl => cases h; cases cl <;> rfl
theorem dropGlue_some (g : Guard) (m : μ) (T : Ty) (h : g.current = some T) :
    Gen.BodyGuard.dropGlue fcm fcum g m = ((if g.clamped then fcm else fcum) T g.original m).2 := by
  cases g with | mk c o cl => cases h; cases cl <;> rfl

/- **`then_into_color_mut` / `then_into_color_unclamped_mut`**: `current` is taken first; if it was `None` nothing is converted; otherwise exactly one
    conversion runs, on the taken reference, to `C`; the reference is moved out of the inner guard (**the inner guard is consumed**: its destructor runs
    on `current = None`, see the proof: `dropGlue_none` twice), and `self`'s destructor runs on `current = None` as well; `original` is kept -/
theorem clampedThenIntoColorMut_none (C : Ty) (g : Guard) (m : μ) (h : g.current = none) :
    Gen.BodyGuard.clampedThenIntoColorMut fcm fcum C g m = ({ current := none, original := g.original, clamped := true }, m) := by
  cases g with | mk c o cl => cases h; cases cl <;> rfl
theorem clampedThenIntoColorMut_some (C : Ty) (g : Guard) (m : μ) (T : Ty) (h : g.current = some T) :
    Gen.BodyGuard.clampedThenIntoColorMut fcm fcum C g m
      = ({ current := (fcm T C m).1.current, original := g.original, clamped := true }, (fcm T C m).2) := by
  cases g with | mk c o cl =>
    cases h
    simp only [Gen.BodyGuard.clampedThenIntoColorMut, Prim.optTake, Prim.optMapM, Prim.optAndThenM]
    rw [dropGlue_none _ _ _ _ rfl, dropGlue_none _ _ _ _ rfl]
theorem clampedThenIntoColorUnclampedMut_some (C : Ty) (g : Guard) (m : μ) (T : Ty) (h : g.current = some T) :
    Gen.BodyGuard.clampedThenIntoColorUnclampedMut fcm fcum C g m
      = ({ current := (fcum T C m).1.current, original := g.original, clamped := false }, (fcum T C m).2) := by
  cases g with | mk c o cl =>
    cases h
    simp only [Gen.BodyGuard.clampedThenIntoColorUnclampedMut, Prim.optTake, Prim.optMapM, Prim.optAndThenM]
    rw [dropGlue_none _ _ _ _ rfl, dropGlue_none _ _ _ _ rfl]
theorem unclampedThenIntoColorMut_some (C : Ty) (g : Guard) (m : μ) (T : Ty) (h : g.current = some T) :
    Gen.BodyGuard.unclampedThenIntoColorMut fcm fcum C g m
      = ({ current := (fcm T C m).1.current, original := g.original, clamped := true }, (fcm T C m).2) := by
  cases g with | mk c o cl =>
    cases h
    simp only [Gen.BodyGuard.unclampedThenIntoColorMut, Prim.optTake, Prim.optMapM, Prim.optAndThenM]
    rw [dropGlue_none _ _ _ _ rfl, dropGlue_none _ _ _ _ rfl]
theorem unclampedThenIntoColorUnclampedMut_some (C : Ty) (g : Guard) (m : μ) (T : Ty) (h : g.current = some T) :
    Gen.BodyGuard.unclampedThenIntoColorUnclampedMut fcm fcum C g m
      = ({ current := (fcum T C m).1.current, original := g.original, clamped := false }, (fcum T C m).2) := by
  cases g with | mk c o cl =>
    cases h
    simp only [Gen.BodyGuard.unclampedThenIntoColorUnclampedMut, Prim.optTake, Prim.optMapM, Prim.optAndThenM]
    rw [dropGlue_none _ _ _ _ rfl, dropGlue_none _ _ _ _ rfl]

/- **`into_unclamped_guard` / `into_clamped_guard` convert nothing**: the reference moves to a guard of the other struct, the memory is untouched
    (the moved-from `self` is dropped with `current = None`) -/
theorem clampedIntoUnclampedGuard_shape (g : Guard) (m : μ) :
    Gen.BodyGuard.clampedIntoUnclampedGuard fcm fcum g m = ({ current := g.current, original := g.original, clamped := false }, m) := by
  cases g with | mk c o cl =>
    simp only [Gen.BodyGuard.clampedIntoUnclampedGuard, Prim.optTake]
    rw [dropGlue_none _ _ _ _ rfl]
theorem unclampedIntoClampedGuard_shape (g : Guard) (m : μ) :
    Gen.BodyGuard.unclampedIntoClampedGuard fcm fcum g m = ({ current := g.current, original := g.original, clamped := true }, m) := by
  cases g with | mk c o cl =>
    simp only [Gen.BodyGuard.unclampedIntoClampedGuard, Prim.optTake]
    rw [dropGlue_none _ _ _ _ rfl]

/- **`restore`**: one back-conversion to `U` = `original` on the taken reference; the value returned is **the reference held by the guard that
    back-conversion returned** (moved out of it, so that guard's destructor does nothing); `None` in `current` reaches `unreachable!()` -/
theorem clampedRestore_none (g : Guard) (m : μ) (h : g.current = none) : Gen.BodyGuard.clampedRestore fcm fcum g m = none := by
  cases g with | mk c o cl => cases h; rfl
theorem clampedRestore_some (g : Guard) (m : μ) (T : Ty) (h : g.current = some T) :
    Gen.BodyGuard.clampedRestore fcm fcum g m = (fcm T g.original m).1.current.map fun r => (r, (fcm T g.original m).2) := by
  cases g with | mk c o cl =>
    cases h
    simp only [Gen.BodyGuard.clampedRestore, Prim.optTake, Prim.optMapM, Prim.optAndThenM]
    rw [dropGlue_none _ _ _ _ rfl]
    cases (fcm T o m).1.current with
    | none => rfl
    | some r => simp only [Option.map]; rw [dropGlue_none _ _ _ _ rfl]
theorem unclampedRestore_some (g : Guard) (m : μ) (T : Ty) (h : g.current = some T) :
    Gen.BodyGuard.unclampedRestore fcm fcum g m = (fcum T g.original m).1.current.map fun r => (r, (fcum T g.original m).2) := by
  cases g with | mk c o cl =>
    cases h
    simp only [Gen.BodyGuard.unclampedRestore, Prim.optTake, Prim.optMapM, Prim.optAndThenM]
    rw [dropGlue_none _ _ _ _ rfl]
    cases (fcum T o m).1.current with
    | none => rfl
    | some r => simp only [Option.map]; rw [dropGlue_none _ _ _ _ rfl]
end shape

/-! ### the element and slice impls, for every by-value conversion -/
section base
variable {κ : Type}

/- **one colour**: the clone is converted by value (`into_color()` for the clamped trait, `into_color_unclamped()` for the unclamped one) and
    assigned through the cast reference; the guard holds the reference at type `T` and remembers `U` -/
theorem clampedFromColorMut_shape (ic icu : κ → κ) (T U : Ty) (c : κ) :
    Gen.BodyGuard.clampedFromColorMut ic icu T U c = ({ current := some T, original := U, clamped := true }, ic c) := rfl
theorem unclampedFromColorMut_shape (ic icu : κ → κ) (T U : Ty) (c : κ) :
    Gen.BodyGuard.unclampedFromColorMut ic icu T U c = ({ current := some T, original := U, clamped := false }, icu c) := rfl

theorem forEachMut_eq_map {σ : Type} (f : σ → σ) (l : List σ) : Prim.forEachMut f l = l.map f := by
  induction l with
  | nil => rfl
  | cons a l ih => simp [Prim.forEachMut, ih]

/- **a slice**: every element, in order, through the element impl (whose guard is forgotten: no back-conversion), then one guard for the whole slice -/
theorem clampedFromColorMutSlice_shape (fe feu : Ty → Ty → κ → Prim.Guard × κ) (T U : Ty) (cs : List κ) :
    Gen.BodyGuard.clampedFromColorMutSlice fe feu T U cs = ({ current := some T, original := U, clamped := true }, cs.map fun c => (fe U T c).2) := by
  simp only [Gen.BodyGuard.clampedFromColorMutSlice, forEachMut_eq_map, Prim.castRef]
theorem unclampedFromColorMutSlice_shape (fe feu : Ty → Ty → κ → Prim.Guard × κ) (T U : Ty) (cs : List κ) :
    Gen.BodyGuard.unclampedFromColorMutSlice fe feu T U cs = ({ current := some T, original := U, clamped := false }, cs.map fun c => (feu U T c).2) := by
  simp only [Gen.BodyGuard.unclampedFromColorMutSlice, forEachMut_eq_map, Prim.castRef]
end base

/-! ### the same bodies at the hand model's conversions = the model functions of `PaletteModel/InPlace.lean` -/

theorem tie_clampedFromColorMut (U T : Ty) :
    Gen.BodyGuard.clampedFromColorMut (Term.conv true U T) (Term.conv false U T) T U = InPlace.fromColorMutElem true U T := rfl
theorem tie_unclampedFromColorMut (U T : Ty) :
    Gen.BodyGuard.unclampedFromColorMut (Term.conv true U T) (Term.conv false U T) T U = InPlace.fromColorMutElem false U T := rfl

theorem tie_clampedFromColorMutSlice (U T : Ty) :
    Gen.BodyGuard.clampedFromColorMutSlice (fromColorMutElemAt true) (fromColorMutElemAt false) T U = InPlace.fromColorMutSlice true U T := by
  funext cs; rw [clampedFromColorMutSlice_shape]; rfl
theorem tie_unclampedFromColorMutSlice (U T : Ty) :
    Gen.BodyGuard.unclampedFromColorMutSlice (fromColorMutElemAt true) (fromColorMutElemAt false) T U = InPlace.fromColorMutSlice false U T := by
  funext cs; rw [unclampedFromColorMutSlice_shape]; rfl

/- `v.into_color_mut()` is `T::from_color_mut(v)`, `v.into_color_unclamped_mut()` is `T::from_color_unclamped_mut(v)` (`Op.fromColorMut cl T`) -/
theorem tie_clampedIntoColorMut (form : Form) (U T : Ty) :
    Gen.BodyGuard.clampedIntoColorMut (fromColorMutAt form true) (fromColorMutAt form false) T U = InPlace.fromColorMut true U T form := rfl
theorem tie_unclampedIntoColorMut (form : Form) (U T : Ty) :
    Gen.BodyGuard.unclampedIntoColorMut (fromColorMutAt form true) (fromColorMutAt form false) T U = InPlace.fromColorMut false U T form := rfl

/- what trait resolution selects for `X::from_color_mut`: the element impl for one colour, the slice impl for `[T]`, `Vec`'s and `Box<[T]>`'s slices
    (not text: stated in terms of the two translated bodies) -/
theorem fromColorMut_single (cl : Bool) (U T : Ty) (b : Buffer) (c : Term) (rest : List Term) (h : b.elems = c :: rest) :
    InPlace.fromColorMut cl U T .single b
      = ((if cl then Gen.BodyGuard.clampedFromColorMut (Term.conv true U T) (Term.conv false U T) T U c
               else Gen.BodyGuard.unclampedFromColorMut (Term.conv true U T) (Term.conv false U T) T U c).1,
         { b with tag := T, elems := (if cl then Gen.BodyGuard.clampedFromColorMut (Term.conv true U T) (Term.conv false U T) T U c
               else Gen.BodyGuard.unclampedFromColorMut (Term.conv true U T) (Term.conv false U T) T U c).2 :: rest }) := by
  cases cl <;> simp [InPlace.fromColorMut, h, tie_clampedFromColorMut, tie_unclampedFromColorMut, fromColorMutElem]
theorem fromColorMut_slice (cl : Bool) (U T : Ty) (form : Form) (hf : form ≠ .single) (b : Buffer) :
    InPlace.fromColorMut cl U T form b
      = let r := if cl then Gen.BodyGuard.clampedFromColorMutSlice (fromColorMutElemAt true) (fromColorMutElemAt false) T U b.elems
                 else Gen.BodyGuard.unclampedFromColorMutSlice (fromColorMutElemAt true) (fromColorMutElemAt false) T U b.elems
        (r.1, { b with tag := T, elems := r.2 }) := by
  cases cl <;> cases form <;> simp_all [InPlace.fromColorMut, tie_clampedFromColorMutSlice, tie_unclampedFromColorMutSlice]

section guards
variable (form : Form)

/- the drop glue the translator inserts where a guard goes out of scope is the model's `dropGuard`, for either struct -/
theorem tie_dropGlue (g : Guard) (b : Buffer) :
    Gen.BodyGuard.dropGlue (fromColorMutAt form true) (fromColorMutAt form false) g b = InPlace.dropGuard form g b := by
  cases g with | mk c o cl => cases c <;> cases cl <;> rfl

/- **`Drop::drop`** of a `FromColorMutGuard` (`clamped = true`: that is the struct the impl is for) / `FromColorUnclampedMutGuard`: the memory is the
    model's `dropGuard`, and the guard is left with `current = None` -/
theorem tie_clampedDrop (g : Guard) (b : Buffer) (h : g.clamped = true) :
    Gen.BodyGuard.clampedDrop (fromColorMutAt form true) (fromColorMutAt form false) g b = (g.take.2, InPlace.dropGuard form g b) := by
  cases g with | mk c o cl => cases h; cases c <;> rfl
theorem tie_unclampedDrop (g : Guard) (b : Buffer) (h : g.clamped = false) :
    Gen.BodyGuard.unclampedDrop (fromColorMutAt form true) (fromColorMutAt form false) g b = (g.take.2, InPlace.dropGuard form g b) := by
  cases g with | mk c o cl => cases h; cases c <;> rfl
example : ({ current := some 3, original := 1, clamped := true } : Guard).clamped = true := rfl
example : ({ current := some 3, original := 1, clamped := false } : Guard).clamped = false := rfl

theorem thenInto_eq (cl : Bool) (C : Ty) (g : Guard) (b : Buffer) :
    InPlace.thenInto form cl C g b
      = match g.current with
        | none => ({ current := none, original := g.original, clamped := cl }, b)
        | some T => ({ current := (InPlace.fromColorMut cl T C form b).1.current, original := g.original, clamped := cl },
                     (InPlace.fromColorMut cl T C form b).2) := by
  cases g with | mk c o gcl =>
    cases c with
    | none => simp [InPlace.thenInto, InPlace.takeMapTake, Guard.take, InPlace.dropGuard]
    | some T =>
      simp only [InPlace.thenInto, InPlace.takeMapTake, Guard.take]
      cases hfc : InPlace.fromColorMut cl T C form b with
      | mk gi b1 => cases gi with | mk ci oi cli => simp [InPlace.dropGuard, Guard.take]

/- **`then_into_color_mut::<C>()` / `then_into_color_unclamped_mut::<C>()`**, on either guard struct, are the model's `thenInto form true C` / `false` -/
theorem tie_clampedThenIntoColorMut (C : Ty) (g : Guard) (b : Buffer) :
    Gen.BodyGuard.clampedThenIntoColorMut (fromColorMutAt form true) (fromColorMutAt form false) C g b = InPlace.thenInto form true C g b := by
  rw [thenInto_eq]
  cases g with | mk c o cl =>
    cases c with
    | none => cases cl <;> rfl
    | some T =>
      simp only [Gen.BodyGuard.clampedThenIntoColorMut, Prim.optTake, Prim.optMapM, Prim.optAndThenM]
      rw [dropGlue_none _ _ _ _ rfl, dropGlue_none _ _ _ _ rfl]; rfl
theorem tie_clampedThenIntoColorUnclampedMut (C : Ty) (g : Guard) (b : Buffer) :
    Gen.BodyGuard.clampedThenIntoColorUnclampedMut (fromColorMutAt form true) (fromColorMutAt form false) C g b = InPlace.thenInto form false C g b := by
  rw [thenInto_eq]
  cases g with | mk c o cl =>
    cases c with
    | none => cases cl <;> rfl
    | some T =>
      simp only [Gen.BodyGuard.clampedThenIntoColorUnclampedMut, Prim.optTake, Prim.optMapM, Prim.optAndThenM]
      rw [dropGlue_none _ _ _ _ rfl, dropGlue_none _ _ _ _ rfl]; rfl
theorem tie_unclampedThenIntoColorMut (C : Ty) (g : Guard) (b : Buffer) :
    Gen.BodyGuard.unclampedThenIntoColorMut (fromColorMutAt form true) (fromColorMutAt form false) C g b = InPlace.thenInto form true C g b := by
  rw [thenInto_eq]
  cases g with | mk c o cl =>
    cases c with
    | none => cases cl <;> rfl
    | some T =>
      simp only [Gen.BodyGuard.unclampedThenIntoColorMut, Prim.optTake, Prim.optMapM, Prim.optAndThenM]
      rw [dropGlue_none _ _ _ _ rfl, dropGlue_none _ _ _ _ rfl]; rfl
theorem tie_unclampedThenIntoColorUnclampedMut (C : Ty) (g : Guard) (b : Buffer) :
    Gen.BodyGuard.unclampedThenIntoColorUnclampedMut (fromColorMutAt form true) (fromColorMutAt form false) C g b = InPlace.thenInto form false C g b := by
  rw [thenInto_eq]
  cases g with | mk c o cl =>
    cases c with
    | none => cases cl <;> rfl
    | some T =>
      simp only [Gen.BodyGuard.unclampedThenIntoColorUnclampedMut, Prim.optTake, Prim.optMapM, Prim.optAndThenM]
      rw [dropGlue_none _ _ _ _ rfl, dropGlue_none _ _ _ _ rfl]; rfl

/- **`into_unclamped_guard()`** (on the clamped struct) / **`into_clamped_guard()`** (on the unclamped one) are the model's `switchGuard` -/
theorem tie_clampedIntoUnclampedGuard (g : Guard) (b : Buffer) (h : g.clamped = true) :
    Gen.BodyGuard.clampedIntoUnclampedGuard (fromColorMutAt form true) (fromColorMutAt form false) g b = InPlace.switchGuard form g b := by
  rw [clampedIntoUnclampedGuard_shape]
  cases g with | mk c o cl => cases h; simp [InPlace.switchGuard, Guard.take, InPlace.dropGuard]
theorem tie_unclampedIntoClampedGuard (g : Guard) (b : Buffer) (h : g.clamped = false) :
    Gen.BodyGuard.unclampedIntoClampedGuard (fromColorMutAt form true) (fromColorMutAt form false) g b = InPlace.switchGuard form g b := by
  rw [unclampedIntoClampedGuard_shape]
  cases g with | mk c o cl => cases h; simp [InPlace.switchGuard, Guard.take, InPlace.dropGuard]

theorem restore_eq (g : Guard) (b : Buffer) :
    InPlace.restore form g b
      = match g.current with
        | none => none
        | some T => (InPlace.fromColorMut g.clamped T g.original form b).1.current.map fun r => (r, (InPlace.fromColorMut g.clamped T g.original form b).2) := by
  cases g with | mk c o gcl =>
    cases c with
    | none => simp [InPlace.restore, InPlace.takeMapTake, Guard.take, InPlace.dropGuard]
    | some T =>
      simp only [InPlace.restore, InPlace.takeMapTake, Guard.take]
      cases hfc : InPlace.fromColorMut gcl T o form b with
      | mk gi b1 => cases gi with | mk ci oi cli => cases ci <;> simp [InPlace.dropGuard, Guard.take]

/- **`restore()`** is the model's `restore` (`none` = the `unreachable!()` arm) -/
theorem tie_clampedRestore (g : Guard) (b : Buffer) (h : g.clamped = true) :
    Gen.BodyGuard.clampedRestore (fromColorMutAt form true) (fromColorMutAt form false) g b = InPlace.restore form g b := by
  rw [restore_eq]
  cases g with | mk c o cl =>
    cases h
    cases c with
    | none => rfl
    | some T =>
      simp only [Gen.BodyGuard.clampedRestore, Prim.optTake, Prim.optMapM, Prim.optAndThenM]
      rw [dropGlue_none _ _ _ _ rfl]
      cases hcur : (fromColorMutAt form true T o b).1.current with
      | none => simp only [fromColorMutAt] at hcur; simp [hcur]
      | some r => simp only [fromColorMutAt] at hcur; simp only [hcur, Option.map]; rw [dropGlue_none _ _ _ _ rfl]; rfl
theorem tie_unclampedRestore (g : Guard) (b : Buffer) (h : g.clamped = false) :
    Gen.BodyGuard.unclampedRestore (fromColorMutAt form true) (fromColorMutAt form false) g b = InPlace.restore form g b := by
  rw [restore_eq]
  cases g with | mk c o cl =>
    cases h
    cases c with
    | none => rfl
    | some T =>
      simp only [Gen.BodyGuard.unclampedRestore, Prim.optTake, Prim.optMapM, Prim.optAndThenM]
      rw [dropGlue_none _ _ _ _ rfl]
      cases hcur : (fromColorMutAt form false T o b).1.current with
      | none => simp only [fromColorMutAt] at hcur; simp [hcur]
      | some r => simp only [fromColorMutAt] at hcur; simp only [hcur, Option.map]; rw [dropGlue_none _ _ _ _ rfl]; rfl

/- **`restore` returns the original reference**: for a guard holding `Some`, `restore()` returns a reference of static type `U` = `original` -/
theorem restore_returns_original (g : Guard) (b : Buffer) (T : Ty) (hc : g.current = some T) :
    (Gen.BodyGuard.clampedRestore (fromColorMutAt form true) (fromColorMutAt form false) g b).map (·.1) = some g.original := by
  rw [clampedRestore_some _ _ _ _ T hc]
  cases form <;> simp [fromColorMutAt, InPlace.fromColorMut, InPlace.fromColorMutSlice] <;> (cases b.elems <;> simp [InPlace.fromColorMutElem])
example : ({ current := some 3, original := 1, clamped := true } : Guard).current = some 3 := rfl
end guards

/-! ### `Deref` / `DerefMut` -/
theorem tie_clampedDeref : Gen.BodyGuard.clampedDeref = InPlace.derefGuard := by
  funext g; cases g with | mk c o cl => cases c <;> rfl
theorem tie_unclampedDeref : Gen.BodyGuard.unclampedDeref = InPlace.derefGuard := by
  funext g; cases g with | mk c o cl => cases c <;> rfl
theorem tie_clampedDerefMut : Gen.BodyGuard.clampedDerefMut = InPlace.derefMutGuard := by
  funext g; cases g with | mk c o cl => cases c <;> rfl
theorem tie_unclampedDerefMut : Gen.BodyGuard.unclampedDerefMut = InPlace.derefMutGuard := by
  funext g; cases g with | mk c o cl => cases c <;> rfl

/- the explicit model functions are what `InPlace.viewTy` / `InPlace.step` use -/
theorem viewTy_cons_eq_derefGuard (root : Ty) (g : Guard) (gs : List Guard) : InPlace.viewTy root (g :: gs) = InPlace.derefGuard g := rfl
theorem step_fromColorMut_nested_eq (cl : Bool) (T : Ty) (s : State) (g : Guard) (gs : List Guard) (hg : s.guards = g :: gs) :
    InPlace.step (.fromColorMut cl T) s
      = (InPlace.derefMutGuard g).map fun (cur, g0) =>
          { s with buf := (InPlace.fromColorMut cl cur T s.form s.buf).2, guards := (InPlace.fromColorMut cl cur T s.form s.buf).1 :: g0 :: gs } := by
  cases s with | mk form root buf guards =>
    cases hg
    cases g with | mk c o gcl => cases c <;> simp [InPlace.step, InPlace.derefMutGuard]

/-! ### `cast/array.rs`: the owned-buffer casts and the in-place maps -/
section owned
variable {κ : Type}

theorem tie_intoArrayVec : @Gen.BodyGuard.intoArrayVec κ = InPlace.vecCast := rfl
theorem tie_fromArrayVec : @Gen.BodyGuard.fromArrayVec κ = InPlace.vecCast := rfl
theorem tie_intoArraySliceMut : @Gen.BodyGuard.intoArraySliceMut κ = InPlace.sliceCast := rfl
theorem tie_fromArraySliceMut : @Gen.BodyGuard.fromArraySliceMut κ = InPlace.sliceCast := rfl
theorem tie_intoArraySliceBox : @Gen.BodyGuard.intoArraySliceBox κ = InPlace.sliceCast := rfl
theorem tie_fromArraySliceBox : @Gen.BodyGuard.fromArraySliceBox κ = InPlace.sliceCast := rfl

/- the layout asserts each function starts with (size and alignment of the array type against the colour type it is about to reinterpret) -/
theorem tie_intoArrayVecAsserts : Gen.BodyGuard.intoArrayVecAsserts = [("size_of", "T"), ("align_of", "T")] := rfl
theorem tie_fromArrayVecAsserts : Gen.BodyGuard.fromArrayVecAsserts = [("size_of", "T"), ("align_of", "T")] := rfl
theorem tie_intoArraySliceMutAsserts : Gen.BodyGuard.intoArraySliceMutAsserts = [("size_of", "T"), ("align_of", "T")] := rfl
theorem tie_fromArraySliceMutAsserts : Gen.BodyGuard.fromArraySliceMutAsserts = [("size_of", "T"), ("align_of", "T")] := rfl
theorem tie_mapVecInPlaceAsserts : Gen.BodyGuard.mapVecInPlaceAsserts = [("size_of", "B"), ("align_of", "B")] := rfl
theorem tie_mapSliceBoxInPlaceAsserts : Gen.BodyGuard.mapSliceBoxInPlaceAsserts = [("size_of", "B"), ("align_of", "B")] := rfl

/- **`map_vec_in_place` for every element type and every `map`**: the same pointer, the same length, the same capacity; every slot, in order, read once,
    mapped, written back -/
theorem mapVecInPlace_shape (v : Prim.VecV κ) (f : κ → κ) :
    Gen.BodyGuard.mapVecInPlace v f = { ptr := v.ptr, len := v.len, cap := v.cap, elems := v.elems.map f } := by
  simp only [Gen.BodyGuard.mapVecInPlace, forEachMut_eq_map]; rfl
theorem mapSliceBoxInPlace_shape (s : Prim.SliceV κ) (f : κ → κ) :
    Gen.BodyGuard.mapSliceBoxInPlace s f = { ptr := s.ptr, len := s.len, elems := s.elems.map f } := by
  simp only [Gen.BodyGuard.mapSliceBoxInPlace, forEachMut_eq_map]; rfl
end owned

theorem tie_mapVecInPlace (f : Term → Term) (v : Prim.VecV Term) : Gen.BodyGuard.mapVecInPlace v f = InPlace.mapVec f v := by
  simp only [Gen.BodyGuard.mapVecInPlace, forEachMut_eq_map, InPlace.mapVec, C13.readMapWrite_eq_map]; rfl
theorem tie_mapSliceBoxInPlace (f : Term → Term) (s : Prim.SliceV Term) : Gen.BodyGuard.mapSliceBoxInPlace s f = InPlace.mapSliceBox f s := by
  simp only [Gen.BodyGuard.mapSliceBoxInPlace, forEachMut_eq_map, InPlace.mapSliceBox, C13.readMapWrite_eq_map]; rfl

theorem readMapWrite_length (f : Term → Term) (l : List Term) : (InPlace.readMapWrite f l).length = l.length := by
  rw [C13.readMapWrite_eq_map, List.length_map]

/- the explicit model functions are the model's `mapInPlace` seen as a `Vec` / `Box<[T]>`: **same address, length and capacity**, converted contents -/
theorem mapVec_vecOf (cl : Bool) (A B : Ty) (b : Buffer) :
    InPlace.mapVec (Term.conv cl A B) (InPlace.vecOf b) = InPlace.vecOf (InPlace.mapInPlace cl A B b) := by
  simp [InPlace.mapVec, InPlace.vecOf, InPlace.mapInPlace, readMapWrite_length]
theorem mapSliceBox_sliceOf (cl : Bool) (A B : Ty) (b : Buffer) :
    InPlace.mapSliceBox (Term.conv cl A B) (InPlace.sliceOf b) = InPlace.sliceOf (InPlace.mapInPlace cl A B b) := by
  simp [InPlace.mapSliceBox, InPlace.sliceOf, InPlace.mapInPlace, readMapWrite_length]

/- the translated `map_vec_in_place` applied to a `Vec` owner with the by-value conversion is the model's owned conversion (`Op.ownedFromColor`) -/
theorem mapVecInPlace_at_model (cl : Bool) (A B : Ty) (b : Buffer) :
    Gen.BodyGuard.mapVecInPlace (InPlace.vecOf b) (Term.conv cl A B) = InPlace.vecOf (InPlace.mapInPlace cl A B b) := by
  rw [tie_mapVecInPlace, mapVec_vecOf]
theorem mapSliceBoxInPlace_at_model (cl : Bool) (A B : Ty) (b : Buffer) :
    Gen.BodyGuard.mapSliceBoxInPlace (InPlace.sliceOf b) (Term.conv cl A B) = InPlace.sliceOf (InPlace.mapInPlace cl A B b) := by
  rw [tie_mapSliceBoxInPlace, mapSliceBox_sliceOf]

end Tie
