/-
  C05 (float curves, shared with C01/C02) — the generic transfer functions read at ℝ.
-/
import PaletteProofs.Real
import PaletteModel.Color.Transfer
import Mathlib.Tactic.NormNum
import Mathlib.Tactic.Linarith
import Mathlib.Tactic.Positivity

namespace C05T
open Transfer

/-- `(x^a)^b = x` when `a·b = 1`, `x ≥ 0` -/
theorem rpow_rpow_inv {x a b : ℝ} (hx : 0 ≤ x) (hab : a * b = 1) : (x ^ a) ^ b = x := by
  rw [← Real.rpow_mul hx, hab, Real.rpow_one]

/-! ### pure power laws: exact mutual inverses on `x ≥ 0` (Adobe RGB 563/256, P3 2.6, GammaFn 2.2) -/

theorem adobe_into_from (x : ℝ) (hx : 0 ≤ x) : adobeIntoLinear (adobeFromLinear x) = x := by
  simp only [adobeIntoLinear, adobeFromLinear, RealScalar.powf_eq, RealScalar.const_eq, RealScalar.eval_div, RealScalar.eval_ofSci]
  exact rpow_rpow_inv hx (by norm_num)
theorem adobe_from_into (x : ℝ) (hx : 0 ≤ x) : adobeFromLinear (adobeIntoLinear x) = x := by
  simp only [adobeIntoLinear, adobeFromLinear, RealScalar.powf_eq, RealScalar.const_eq, RealScalar.eval_div, RealScalar.eval_ofSci]
  exact rpow_rpow_inv hx (by norm_num)

theorem p3_into_from (x : ℝ) (hx : 0 ≤ x) : p3IntoLinear (p3FromLinear x) = x := by
  simp only [p3IntoLinear, p3FromLinear, RealScalar.powf_eq, RealScalar.const_eq, RealScalar.eval_div, RealScalar.eval_ofSci]
  exact rpow_rpow_inv hx (by norm_num)
theorem p3_from_into (x : ℝ) (hx : 0 ≤ x) : p3FromLinear (p3IntoLinear x) = x := by
  simp only [p3IntoLinear, p3FromLinear, RealScalar.powf_eq, RealScalar.const_eq, RealScalar.eval_div, RealScalar.eval_ofSci]
  exact rpow_rpow_inv hx (by norm_num)

theorem gamma_into_from (x : ℝ) (hx : 0 ≤ x) : gammaIntoLinear (gammaFromLinear x) = x := by
  simp only [gammaIntoLinear, gammaFromLinear, RealScalar.powf_eq]
  exact rpow_rpow_inv hx (by norm_num)
theorem gamma_from_into (x : ℝ) (hx : 0 ≤ x) : gammaFromLinear (gammaIntoLinear x) = x := by
  simp only [gammaIntoLinear, gammaFromLinear, RealScalar.powf_eq]
  exact rpow_rpow_inv hx (by norm_num)

/-- power laws are monotone on `x ≥ 0` -/
theorem adobe_from_mono {x y : ℝ} (hx : 0 ≤ x) (h : x ≤ y) : adobeFromLinear x ≤ adobeFromLinear y := by
  simp only [adobeFromLinear, RealScalar.powf_eq, RealScalar.const_eq, RealScalar.eval_div, RealScalar.eval_ofSci]
  exact Real.rpow_le_rpow hx h (by norm_num)
theorem p3_from_mono {x y : ℝ} (hx : 0 ≤ x) (h : x ≤ y) : p3FromLinear x ≤ p3FromLinear y := by
  simp only [p3FromLinear, RealScalar.powf_eq, RealScalar.const_eq, RealScalar.eval_div, RealScalar.eval_ofSci]
  exact Real.rpow_le_rpow hx h (by norm_num)

/-! ### ProPhoto (ROMM): the published constants make the join exact: `16·2⁻⁹ = 2⁻⁵ = (2⁻⁹)^(5/9)` -/

theorem prophoto_join : (0.001953125 : ℝ) ^ ((1:ℝ) / 1.8) = 0.03125 := by
  have h : (0.001953125 : ℝ) = (0.03125 : ℝ) ^ (1.8 : ℝ) := by
    have e : (0.03125 : ℝ) = (0.5 : ℝ) ^ (5 : ℝ) := by norm_num
    rw [e, ← Real.rpow_mul (by norm_num)]
    have : (5 : ℝ) * 1.8 = ((9 : ℕ) : ℝ) := by norm_num
    rw [this, Real.rpow_natCast]; norm_num
  rw [h]; exact rpow_rpow_inv (by norm_num) (by norm_num)

/-! value lemmas: one per branch (avoids rewriting under `ite` with a dependent `Decidable` instance) -/
theorem prophotoFrom_lo {x : ℝ} (h : x < 0.001953125) : prophotoFromLinear x = 16.0 * x := by
  unfold prophotoFromLinear; exact if_pos h
theorem prophotoFrom_hi {x : ℝ} (h : ¬ x < 0.001953125) : prophotoFromLinear x = x ^ ((1.0:ℝ) / 1.8) := by
  unfold prophotoFromLinear; exact if_neg h
theorem prophotoInto_lo {x : ℝ} (h : x < 0.03125) : prophotoIntoLinear x = (1.0:ℝ) / 16.0 * x := by
  unfold prophotoIntoLinear; exact if_pos h
theorem prophotoInto_hi {x : ℝ} (h : ¬ x < 0.03125) : prophotoIntoLinear x = x ^ (1.8:ℝ) := by
  unfold prophotoIntoLinear; exact if_neg h
theorem srgbFrom_lo {x : ℝ} (h : x ≤ 0.0031308) : srgbFromLinear x = 12.92 * x := by
  unfold srgbFromLinear; exact if_pos h
theorem srgbFrom_hi {x : ℝ} (h : ¬ x ≤ 0.0031308) : srgbFromLinear x = x ^ ((1.0:ℝ) / 2.4) * 1.055 - 0.055 := by
  unfold srgbFromLinear; exact if_neg h
theorem srgbInto_lo {x : ℝ} (h : x ≤ 0.04045) : srgbIntoLinear x = (1.0:ℝ) / 12.92 * x := by
  unfold srgbIntoLinear; exact if_pos h
theorem srgbInto_hi {x : ℝ} (h : ¬ x ≤ 0.04045) : srgbIntoLinear x = (x * ((1.0:ℝ) / 1.055) + (0.055:ℝ) / 1.055) ^ (2.4:ℝ) := by
  unfold srgbIntoLinear; exact if_neg h
theorem recFrom_lo {x : ℝ} (h : x < 0.018053968510807) : recFromLinear x = 4.5 * x := by
  unfold recFromLinear; exact if_pos h
theorem recInto_lo {x : ℝ} (h : x < (4.5:ℝ) * 0.018053968510807) : recIntoLinear x = (1.0:ℝ) / 4.5 * x := by
  unfold recIntoLinear; exact if_pos h

theorem prophoto_into_from (x : ℝ) (hx : 0 ≤ x) : prophotoIntoLinear (prophotoFromLinear x) = x := by
  by_cases h : x < 0.001953125
  · have h2 : (16.0 : ℝ) * x < 0.03125 := by linarith
    rw [prophotoFrom_lo h, prophotoInto_lo h2]; sring
  · have hge : (0.001953125 : ℝ) ≤ x := not_lt.mp h
    have h2 : ¬ (x ^ ((1.0:ℝ) / 1.8) < 0.03125) := by
      rw [not_lt, ← prophoto_join]
      have e : ((1.0:ℝ) / 1.8) = (1:ℝ) / 1.8 := by norm_num
      rw [e]
      exact Real.rpow_le_rpow (by norm_num) hge (by norm_num)
    rw [prophotoFrom_hi h, prophotoInto_hi h2]
    exact rpow_rpow_inv hx (by norm_num)

/-- ProPhoto encoding is monotone on `[0, ∞)`, with no step at the join -/
theorem prophoto_from_mono {x y : ℝ} (hx : 0 ≤ x) (h : x ≤ y) : prophotoFromLinear x ≤ prophotoFromLinear y := by
  have e : ((1.0:ℝ) / 1.8) = (1:ℝ) / 1.8 := by norm_num
  by_cases h1 : x < 0.001953125 <;> by_cases h2 : y < 0.001953125
  · rw [prophotoFrom_lo h1, prophotoFrom_lo h2]; linarith
  · rw [prophotoFrom_lo h1, prophotoFrom_hi h2]
    have : (0.03125:ℝ) ≤ y ^ ((1.0:ℝ) / 1.8) := by
      rw [← prophoto_join, e]; exact Real.rpow_le_rpow (by norm_num) (not_lt.mp h2) (by norm_num)
    linarith
  · exact absurd (lt_of_le_of_lt h h2) h1
  · rw [prophotoFrom_hi h1, prophotoFrom_hi h2]; exact Real.rpow_le_rpow hx h (by positivity)

/-! ### sRGB and Rec.709/2020: exact on the linear toe; the power segment is inverted exactly wherever its image stays
    above the decoder's threshold.  (The published constants leave a join step; its size is looked at by the oracle.) -/

theorem srgb_into_from_toe (x : ℝ) (h : x ≤ 0.0031308) : srgbIntoLinear (srgbFromLinear x) = x := by
  have h2 : (12.92 : ℝ) * x ≤ 0.04045 := by linarith
  rw [srgbFrom_lo h, srgbInto_lo h2]; sring

/-- on the power segment: exact inverse under the explicit side condition that the encoded value is above the decoder's knee -/
theorem srgb_into_from_power (x : ℝ) (hx : 0.0031308 < x)
    (hk : (0.04045 : ℝ) < x ^ ((1.0:ℝ) / 2.4) * 1.055 - 0.055) : srgbIntoLinear (srgbFromLinear x) = x := by
  rw [srgbFrom_hi (not_le.mpr hx), srgbInto_hi (not_le.mpr hk)]
  have : (x ^ ((1.0:ℝ) / 2.4) * 1.055 - 0.055) * ((1.0:ℝ) / 1.055) + (0.055:ℝ) / 1.055 = x ^ ((1.0:ℝ) / 2.4) := by sring
  rw [this]
  exact rpow_rpow_inv (by linarith) (by norm_num)

theorem rec_into_from_toe (x : ℝ) (h : x < 0.018053968510807) : recIntoLinear (recFromLinear x) = x := by
  have h2 : (4.5 : ℝ) * x < 4.5 * 0.018053968510807 := by linarith
  rw [recFrom_lo h, recInto_lo h2]; sring

/-- monotone on the toe and on the power segment separately (the join step is not proved here) -/
theorem srgb_from_mono_toe {x y : ℝ} (h : x ≤ y) (hy : y ≤ 0.0031308) : srgbFromLinear x ≤ srgbFromLinear y := by
  rw [srgbFrom_lo (le_trans h hy), srgbFrom_lo hy]; linarith
theorem srgb_from_mono_power {x y : ℝ} (hx : 0.0031308 < x) (h : x ≤ y) : srgbFromLinear x ≤ srgbFromLinear y := by
  rw [srgbFrom_hi (not_le.mpr hx), srgbFrom_hi (not_le.mpr (lt_of_lt_of_le hx h))]
  have := Real.rpow_le_rpow (by linarith) h (show (0:ℝ) ≤ (1.0:ℝ) / 2.4 by norm_num)
  linarith

/-- non-vacuity: the side condition of `srgb_into_from_power` holds e.g. at x = 1 -/
example : (0.04045 : ℝ) < (1:ℝ) ^ ((1.0:ℝ) / 2.4) * 1.055 - 0.055 := by rw [Real.one_rpow]; norm_num

end C05T
