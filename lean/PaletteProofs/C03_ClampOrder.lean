/-
  C03 — order-theoretic characterisation of the clamp (over an arbitrary `LinearOrder`, so with no rounding residual for the integer
  component types and for non-NaN floats).  `C03_Clamp` proves `within ∘ clamp`, `clamp = id` on within and idempotence; this file
  proves that the clamp is *the* projection onto the bounds: monotone in the component, lying between the input and every in-bounds
  value (hence the nearest in-bounds value), equal to `max lo (min hi v)`, moving a component only onto the bound it violated, and
  that out-of-bounds inputs are exactly those the clamp changes (`tryFrom` errs ⇔ `fromColor` differs from the unclamped value).
-/
import PaletteProofs.C03_Clamp

namespace C03
open Clamp

section order
variable {α : Type} [LinearOrder α]

theorem clampV_eq_max_min (v lo hi : α) (h : lo ≤ hi) : clampV v lo hi = max lo (min hi v) := by
  unfold clampV
  split_ifs with h1 h2
  · rw [max_eq_left]; exact le_trans (min_le_right _ _) (le_of_lt h1)
  · rw [min_eq_left (le_of_lt h2), max_eq_right h]
  · rw [min_eq_right (not_lt.mp h2), max_eq_right (not_lt.mp h1)]
theorem clampMinV_eq_max (v lo : α) : clampMinV v lo = max lo v := by
  unfold clampMinV
  split_ifs with h1
  · rw [max_eq_left (le_of_lt h1)]
  · rw [max_eq_right (not_lt.mp h1)]

/-- the clamp is monotone in the component -/
theorem clampC_mono (b : Bound α) (hb : Bound.WF b) {v v' : α} (h : v ≤ v') : clampC v b ≤ clampC v' b := by
  cases b with
  | both lo hi =>
    simp only [Bound.WF] at hb
    simp only [clampC, clampV_eq_max_min _ _ _ hb]
    exact max_le_max (le_refl _) (min_le_min (le_refl _) h)
  | minOnly lo => simp only [clampC, clampMinV_eq_max]; exact max_le_max (le_refl _) h
  | untouched => exact h

/-- the clamped value lies between the input and any in-bounds value, on either side -/
theorem clampC_between (v w : α) (b : Bound α) (hw : withinC w b = true) :
    (v ≤ w → v ≤ clampC v b ∧ clampC v b ≤ w) ∧ (w ≤ v → w ≤ clampC v b ∧ clampC v b ≤ v) := by
  cases b with
  | both lo hi =>
    simp only [withinC, Bool.and_eq_true, decide_eq_true_eq] at hw
    simp only [clampC, clampV]
    refine ⟨fun h => ?_, fun h => ?_⟩
    · split_ifs with h1 h2
      · exact ⟨le_of_lt h1, hw.1⟩
      · exact absurd (lt_of_lt_of_le h2 (le_trans h hw.2)) (lt_irrefl _)
      · exact ⟨le_refl _, h⟩
    · split_ifs with h1 h2
      · exact absurd (lt_of_le_of_lt (le_trans hw.1 h) h1) (lt_irrefl _)
      · exact ⟨hw.2, le_of_lt h2⟩
      · exact ⟨h, le_refl _⟩
  | minOnly lo =>
    simp only [withinC, decide_eq_true_eq] at hw
    simp only [clampC, clampMinV]
    refine ⟨fun h => ?_, fun h => ?_⟩
    · split_ifs with h1
      · exact ⟨le_of_lt h1, hw⟩
      · exact ⟨le_refl _, h⟩
    · split_ifs with h1
      · exact absurd (lt_of_le_of_lt (le_trans hw h) h1) (lt_irrefl _)
      · exact ⟨h, le_refl _⟩
  | untouched => exact ⟨fun h => ⟨le_refl _, h⟩, fun h => ⟨h, le_refl _⟩⟩

/-- a component the clamp changes was out of bounds, and conversely: `is_within_bounds` ⇔ `clamp` is the identity -/
theorem withinC_iff_clampC_eq (v : α) (b : Bound α) (hb : Bound.WF b) : withinC v b = true ↔ clampC v b = v :=
  ⟨clampC_of_within v b, fun h => by have := within_clampC v b hb; rwa [h] at this⟩

theorem withinAll_iff_clampAll_eq : ∀ (vs : List α) (bs : List (Bound α)), (∀ b ∈ bs, Bound.WF b) →
    (withinAll vs bs = true ↔ clampAll vs bs = vs)
  | [], bs, _ => by cases bs <;> simp [clampAll, withinAll]
  | v :: vs, [], _ => by simp [clampAll, withinAll]
  | v :: vs, b :: bs, h => by
    simp only [clampAll, withinAll, Bool.and_eq_true, List.cons.injEq]
    rw [withinC_iff_clampC_eq v b (h b (List.mem_cons_self ..)),
      withinAll_iff_clampAll_eq vs bs (fun b' hb' => h b' (List.mem_cons_of_mem _ hb'))]

/-- **`try_from_color` fails exactly when `from_color` differs from `from_color_unclamped`** (same unclamped value `u`) -/
theorem tryFrom_err_iff_fromColor_ne (u : List α) (bs : List (Bound α)) (h : ∀ b ∈ bs, Bound.WF b) :
    tryFrom u bs = .error u ↔ fromColor u bs ≠ u := by
  unfold tryFrom fromColor
  rw [← not_iff_not, not_not, ← withinAll_iff_clampAll_eq u bs h]
  by_cases hw : withinAll u bs = true
  · simp [hw]
  · simp [hw]

/-- componentwise monotonicity of the whole-colour clamp -/
theorem clampAll_mono : ∀ (vs vs' : List α) (bs : List (Bound α)), (∀ b ∈ bs, Bound.WF b) →
    List.Forall₂ (· ≤ ·) vs vs' → List.Forall₂ (· ≤ ·) (clampAll vs bs) (clampAll vs' bs)
  | _, _, [], _, h => by
    cases h with
    | nil => simp [clampAll]
    | cons h1 h2 => simpa [clampAll] using List.Forall₂.cons h1 h2
  | _, _, b :: bs, _, .nil => by simp [clampAll]
  | _, _, b :: bs, hb, .cons h1 h2 => by
    simp only [clampAll]
    exact List.Forall₂.cons (clampC_mono b (hb b (List.mem_cons_self ..)) h1)
      (clampAll_mono _ _ bs (fun b' hb' => hb b' (List.mem_cons_of_mem _ hb')) h2)

end order

/-- non-vacuity on ℕ-valued components (u8-style): 300 is clamped to 255, between 300 and the in-bounds 7 -/
example : clampC (300 : Nat) (.both 0 255) = 255 ∧ withinC (7 : Nat) (.both 0 255) = true ∧ clampC (300 : Nat) (.both 0 255) ≠ 300 := by decide

end C03
