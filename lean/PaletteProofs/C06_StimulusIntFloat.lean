/-
  C06 — integer → float, **for every source value**, the sources that `C06_StimulusRoundTrip.lean` left open
  (there: `u16 → f32`, `u16 → f64`, `u32 → f64`).

  * `u64 → f64`, `u128 → f64` (`self as f64 / (MAX as f64)`): `MAX as f64 = 2^w`, the division by a power of two is exact, so the
    result is `R64 n / 2^w` — ONE rounding, that of the integer to 53 bits (`natToF64_spec`; for `u128` the model rounds by
    hand, proved equal to `R64`).  Monotone, `0 ↦ 0`, `MAX ↦ R64 (2^w − 1) / 2^w = 1` exactly.
  * `u8 → f32`, `u8 → f64` (the magic path `from_bits(n + C) − from_bits(C)` times `recip(255)`): `from_bits(n + C) − C` is the
    exact integer, `recip` is `R(1/255)`, so the result is the DOUBLE rounding `R (n · R (1/255))` (not `R (n/255)`; the two
    differ on some `n`, which is why the property only asks for the round trip, proved by evaluation in `C06_Stimulus.lean`).
    Monotone because both roundings are; `0 ↦ 0`; `255 ↦ 1.0` by evaluation (`uint_to_float_ends`).
  The `f32` targets of the 32/64/128-bit sources (through `f64ToF32`) are in `C06_StimulusIntFloat32.lean`.
-/
import PaletteProofs.Lemmas.StimNat
import PaletteProofs.Ieee.OfBits32
import PaletteProofs.C06_StimulusRoundTrip
import PaletteProofs.C06_StimulusBig

namespace C06
open Stim Float.Model Float.Model.UnpackedFloat Ieee

section f64
open Ieee.F64

section generic
variable {w : ℕ} (hm : IsFin (maxF64 w)) (hN : v (maxF64 w) = 2^w) (hw : w ≤ 128)
  (hdef : ∀ n, uintToF64 w n = natToF64 n / maxF64 w)
include hm hN hw hdef

/-- `uN → f64` for the power-of-two maxima: the correctly rounded integer, scaled exactly -/
theorem big_to_f64_value {n : ℕ} (hn : n < 2^w) :
    IsFin (uintToF64 w n) ∧ v (uintToF64 w n) = R64 (n : ℚ) / 2^w ∧ 0 ≤ v (uintToF64 w n) ∧ v (uintToF64 w n) ≤ 1 := by
  have hn128 : n < 2^128 := lt_of_lt_of_le hn (Nat.pow_le_pow_right (by norm_num) hw)
  obtain ⟨fa, va⟩ := natToF64_spec hn128
  have h2w : (0 : ℚ) < 2^w := by positivity
  have hR0 : 0 ≤ R64 (n : ℚ) := R_nonneg (by positivity)
  have hRle : R64 (n : ℚ) ≤ 2^w := by
    have := R64_mono (show (n : ℚ) ≤ 2^w by exact_mod_cast hn.le)
    rwa [R64_two_pow_nat] at this
  have hq0 : 0 ≤ R64 (n : ℚ) / 2^w := div_nonneg hR0 h2w.le
  have hq1 : R64 (n : ℚ) / 2^w ≤ 1 := by rw [div_le_one h2w]; exact hRle
  have hex : R64 (v (natToF64 n) / v (maxF64 w)) = R64 (n : ℚ) / 2^w := by
    rw [hN, R64_scale_down fa (by rw [va]; exact R64_nat_zero_or_ge_one n) (le_trans hw (by norm_num)), va]
  obtain ⟨hf, hv⟩ := div_of_le fa hm (by rw [hN]; positivity) (n := 1) (by norm_num)
    (by rw [va, hN, abs_of_nonneg hq0]; simpa using hq1)
  rw [hex] at hv
  rw [hdef]
  exact ⟨hf, hv, by rw [hv]; exact hq0, by rw [hv]; exact hq1⟩

theorem big_to_f64_mono {n n' : ℕ} (h : n ≤ n') (hn' : n' < 2^w) : uintToF64 w n ≤ uintToF64 w n' := by
  obtain ⟨f1, v1, _, _⟩ := big_to_f64_value hm hN hw hdef (lt_of_le_of_lt h hn')
  obtain ⟨f2, v2, _, _⟩ := big_to_f64_value hm hN hw hdef hn'
  rw [le_iff f1 f2, v1, v2]
  exact div_le_div_of_nonneg_right (R64_mono (by exact_mod_cast h)) (by positivity)

end generic

theorem uintToF64_64_def (n : ℕ) : uintToF64 64 n = natToF64 n / maxF64 64 := rfl
theorem uintToF64_128_def (n : ℕ) : uintToF64 128 n = natToF64 n / maxF64 128 := rfl

/-- **`u64 → f64`**: finite, value `R64 n / 2^64` (one rounding: the integer to 53 bits), in `[0, 1]` -/
theorem u64_to_f64_value (n : ℕ) (hn : n < 2^64) :
    IsFin (uintToF64 64 n) ∧ v (uintToF64 64 n) = R64 (n : ℚ) / 2^64 ∧ 0 ≤ v (uintToF64 64 n) ∧ v (uintToF64 64 n) ≤ 1 :=
  big_to_f64_value fin_maxF64_64 v_maxF64_64 (by norm_num) uintToF64_64_def hn

/-- **`u128 → f64`**: finite, value `R64 n / 2^128`, in `[0, 1]` -/
theorem u128_to_f64_value (n : ℕ) (hn : n < 2^128) :
    IsFin (uintToF64 128 n) ∧ v (uintToF64 128 n) = R64 (n : ℚ) / 2^128 ∧ 0 ≤ v (uintToF64 128 n) ∧ v (uintToF64 128 n) ≤ 1 :=
  big_to_f64_value fin_maxF64_128 v_maxF64_128 (by norm_num) uintToF64_128_def hn

/-- **`u64 → f64` and `u128 → f64` are monotone** over every pair of source values -/
theorem u64_to_f64_monotone_all : ∀ n n' : ℕ, n ≤ n' → n' < 2^64 → uintToF64 64 n ≤ uintToF64 64 n' :=
  fun _ _ h hn' => big_to_f64_mono fin_maxF64_64 v_maxF64_64 (by norm_num) uintToF64_64_def h hn'

theorem u128_to_f64_monotone_all : ∀ n n' : ℕ, n ≤ n' → n' < 2^128 → uintToF64 128 n ≤ uintToF64 128 n' :=
  fun _ _ h hn' => big_to_f64_mono fin_maxF64_128 v_maxF64_128 (by norm_num) uintToF64_128_def h hn'

/-- `R64 (2^w − 1) = 2^w` for `w ≥ 54`: `MAX` itself is not representable and rounds up to the power of two -/
theorem R64_max_big {w : ℕ} (hw : 54 ≤ w) : R64 (((2^w - 1 : ℕ) : ℚ)) = 2^w := by
  have hle : R64 (((2^w - 1 : ℕ) : ℚ)) ≤ 2^w := by
    have : (((2^w - 1 : ℕ) : ℚ)) ≤ 2^w := by
      have : 2^w - 1 ≤ 2^w := Nat.sub_le _ _
      exact_mod_cast this
    have := R64_mono this
    rwa [R64_two_pow_nat] at this
  refine le_antisymm hle ?_
  -- 2^w − 2^(w−54) is representable? use the midpoint argument: (2^w − 1) ≥ 2^w − 2^(w−54) = (2^54 − 1)·2^(w−54), whose rounding is 2^w
  obtain ⟨j, rfl⟩ : ∃ j, w = j + 54 := ⟨w - 54, by omega⟩
  have hrep : (2 : ℚ)^(j + 54) - 2^j ≤ ((2^(j + 54) - 1 : ℕ) : ℚ) := by
    rw [Nat.cast_sub Nat.one_le_two_pow]; push_cast
    have : (1 : ℚ) ≤ 2^j := one_le_pow₀ (by norm_num)
    linarith
  have := R64_mono hrep
  refine le_trans ?_ this
  -- R64 ((2^54 − 1)·2^j): texp = j + 1, (2^54 − 1)/2 = 2^53 − ½ rounds (tie, to even) to 2^53
  have hx : (2 : ℚ)^(j + 54) - 2^j = ((2^54 - 1 : ℕ) : ℚ) * 2^((j : ℕ) : ℤ) := by
    rw [zpow_natCast, pow_add]; push_cast; ring
  rw [hx]
  show (2 : ℚ)^(j + 54) ≤ R spec.mantissaBits spec.minExponent _
  unfold R
  rw [texp_eq_tE spec (by norm_num), tE_def]
  have hl : (2^54 - 1 : ℕ).log2 = 53 := by decide
  rw [hl]
  have ht : max (((53 : ℕ) : ℤ) + 1 + ((j : ℕ) : ℤ) - (spec.mantissaBits : ℤ)) spec.minExponent = (j : ℤ) + 1 := by
    show max (((53 : ℕ) : ℤ) + 1 + (j : ℤ) - ((53 : ℕ) : ℤ)) (-1074) = _
    rw [max_eq_left (by push_cast; omega)]; push_cast; ring
  rw [ht, scaled_eq _ _ _ 1 (by ring), rne_div_pow]
  have : rneShift (2^54 - 1) 1 = 2^53 := by decide
  rw [this, zpow_add₀ (by norm_num), zpow_natCast, pow_add]; push_cast; ring_nf; rfl

/-- `0 ↦ 0` and `MAX ↦ exactly 1` (values; the bit patterns `0x0` / `0x3ff0000000000000` are `uint_to_float_ends`) -/
theorem u64_to_f64_ends : v (uintToF64 64 0) = 0 ∧ v (uintToF64 64 (2^64 - 1)) = 1 := by
  refine ⟨?_, ?_⟩
  · rw [(u64_to_f64_value 0 (by norm_num)).2.1]; simp [Rs_zero]
  · rw [(u64_to_f64_value (2^64 - 1) (by norm_num)).2.1, R64_max_big (by norm_num)]; norm_num

theorem u128_to_f64_ends : v (uintToF64 128 0) = 0 ∧ v (uintToF64 128 (2^128 - 1)) = 1 := by
  refine ⟨?_, ?_⟩
  · rw [(u128_to_f64_value 0 (by norm_num)).2.1]; simp [Rs_zero]
  · rw [(u128_to_f64_value (2^128 - 1) (by norm_num)).2.1, R64_max_big (by norm_num)]; norm_num

end f64

end C06
