/-
  IEEE reasoning layer, binary32 instance, part 4: `Float32.ofBits a` unpacks to the reading of the pattern `a`
  (`U_ofBits`, by cases on the fields: `U_ofBits_inf / _nan / _zero / _sub / _normal`), and every pattern whose exponent
  field is not all ones is a finite float of value `± wOf a · 2^-149` (`ofBits_fin`).  Companion of the last section of
  `Bits64.lean`.
-/
import PaletteProofs.Ieee.Bits32

namespace Ieee.F32
open Float.Model Float.Model.UnpackedFloat Ieee

/-- `Float32.ofBits a` unpacks to the reading of the pattern `a` -/
theorem U_ofBits (a : UInt32) : U (Float32.ofBits a) = UnpackedFloat.unpack spec a.toBitVec := by
  show repack spec (UnpackedFloat.unpack spec a.toBitVec) = _
  exact repack_of_expOK spec (canon_unpack spec _) (expOK_unpack spec heb _)

/-! ### `Float32.ofBits` by cases on the fields of the pattern -/

theorem U_ofBits_fields (a : UInt32) :
    U (Float32.ofBits a) =
      if fE a.toNat = 255 then
        (if fM a.toNat = 0 then .infinity (signOf a.toNat) else .notANumber)
      else if fE a.toNat = 0 then
        (if h : fM a.toNat = 0 then .zero (signOf a.toNat)
         else .finite (signOf a.toNat) (fM a.toNat) (-149) (Nat.pos_of_ne_zero h))
      else .finite (signOf a.toNat) (2^23 + fM a.toNat) ((fE a.toNat : ℤ) - 150)
        (by have : 0 < 2^23 := by norm_num
            omega) := by
  rw [U_ofBits]; exact unpack_bits a.toBitVec

theorem U_ofBits_inf {a : UInt32} (hE : fE a.toNat = 255) (hM : fM a.toNat = 0) :
    U (Float32.ofBits a) = .infinity (signOf a.toNat) := by
  rw [U_ofBits_fields, if_pos hE, if_pos hM]

theorem U_ofBits_nan {a : UInt32} (hE : fE a.toNat = 255) (hM : fM a.toNat ≠ 0) :
    U (Float32.ofBits a) = .notANumber := by
  rw [U_ofBits_fields, if_pos hE, if_neg hM]

theorem U_ofBits_zero {a : UInt32} (hE : fE a.toNat = 0) (hM : fM a.toNat = 0) :
    U (Float32.ofBits a) = .zero (signOf a.toNat) := by
  rw [U_ofBits_fields, if_neg (by omega), if_pos hE, dif_pos hM]

theorem U_ofBits_sub {a : UInt32} (hE : fE a.toNat = 0) (hM : fM a.toNat ≠ 0) :
    U (Float32.ofBits a) = .finite (signOf a.toNat) (fM a.toNat) (-149) (Nat.pos_of_ne_zero hM) := by
  rw [U_ofBits_fields, if_neg (by omega), if_pos hE, dif_neg hM]

theorem U_ofBits_normal {a : UInt32} (hE0 : fE a.toNat ≠ 0) (hE1 : fE a.toNat ≠ 255) :
    U (Float32.ofBits a) = .finite (signOf a.toNat) (2^23 + fM a.toNat) ((fE a.toNat : ℤ) - 150)
      (by have : 0 < 2^23 := by norm_num
          omega) := by
  rw [U_ofBits_fields, if_neg hE1, if_neg hE0]

/-- every pattern whose exponent field is not all ones is a finite float of value `± w · 2^-149` -/
theorem ofBits_fin {a : UInt32} (hE1 : fE a.toNat ≠ 255) :
    IsFin (Float32.ofBits a) ∧ v (Float32.ofBits a) = sgn (signOf a.toNat) * ((wOf a.toNat : ℚ) * 2^(-149 : ℤ)) := by
  unfold IsFin v wOf
  by_cases hE0 : fE a.toNat = 0
  · rw [if_pos hE0]
    by_cases hM : fM a.toNat = 0
    · rw [U_ofBits_zero hE0 hM, hM]; exact ⟨rfl, by simp [val]⟩
    · rw [U_ofBits_sub hE0 hM]; exact ⟨rfl, by simp only [val]; ring⟩
  · rw [if_neg hE0, U_ofBits_normal hE0 hE1]
    refine ⟨rfl, ?_⟩
    simp only [val]
    simp only [Nat.cast_add, Nat.cast_pow, Nat.cast_ofNat, Nat.cast_mul]
    have : (2 : ℚ)^((fE a.toNat : ℤ) - 150) = 2^(fE a.toNat - 1) * 2^(-149 : ℤ) := by
      rw [← zpow_natCast, ← zpow_add₀ (by norm_num)]; congr 1
      have : 1 ≤ fE a.toNat := Nat.pos_of_ne_zero hE0
      omega
    rw [this]; ring

end Ieee.F32
