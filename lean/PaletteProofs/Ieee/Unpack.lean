/-
  IEEE reasoning layer, part 14: unpacked bit patterns are below the overflow threshold, so re-packing them (as `neg`,
  `abs` do) is the identity.
-/
import PaletteProofs.Ieee.Conv
import PaletteProofs.Ieee.Repack

namespace Ieee
open Float.Model Float.Model.UnpackedFloat

/-- exponent bound of a float that packs without overflow -/
def ExpOK (spec : Format) : UnpackedFloat → Prop
  | .finite _ _ e _ => e + spec.mantissaBitsWithoutImplicit < (2^(spec.exponentBits - 1) : ℕ)
  | _ => True

theorem repack_of_expOK (spec : Format) {f : UnpackedFloat} (cf : Canon spec f) (hf : ExpOK spec f) :
    repack spec f = f := by
  cases f
  · exact repack_inf spec _
  · exact repack_nan spec
  · exact repack_zero spec _
  · rename_i s m e hm
    have hc : CanonME spec m e := cf
    refine unpack_pack_finite spec s m e hm hc ?_
    by_contra hov
    have := (biasedExp_overflow_iff spec hc.emin_le).mp (by omega)
    simp only [ExpOK] at hf; omega

theorem expOK_unpack (spec : Format) (heb : 2 ≤ spec.exponentBits) (b : BitVec spec.numBits) :
    ExpOK spec (UnpackedFloat.unpack spec b) := by
  have h2 : 2 ≤ 2^(spec.exponentBits - 1) := by
    calc 2 = 2^1 := rfl
      _ ≤ 2^(spec.exponentBits - 1) := Nat.pow_le_pow_right (by norm_num) (by omega)
  have hpow : 2^spec.exponentBits = 2 * 2^(spec.exponentBits - 1) := by
    obtain ⟨j, hj⟩ : ∃ j, spec.exponentBits = j + 1 := ⟨spec.exponentBits - 1, by omega⟩
    rw [hj, Nat.add_sub_cancel, Nat.pow_succ]; omega
  have hb : (spec.exponentBias : ℤ) = (2^(spec.exponentBits - 1) : ℕ) - 1 := by
    unfold Format.exponentBias; omega
  have h2z : (2 : ℤ) ≤ 2^(spec.exponentBits - 1) := by exact_mod_cast h2
  have hbz : (spec.exponentBias : ℤ) = 2^(spec.exponentBits - 1) - 1 := by rw [hb]; push_cast; rfl
  unfold UnpackedFloat.unpack
  simp only
  split
  · split <;> trivial
  · split
    · rename_i h0
      split
      · trivial
      · simp only [ExpOK]; rw [h0]; simp; omega
    · rename_i h1 h0
      simp only [ExpOK]
      have hE : (unpackExponent b).toNat < 2^spec.exponentBits - 1 := by
        have hlt := (unpackExponent b).isLt
        rcases Nat.lt_or_ge (unpackExponent b).toNat (2^spec.exponentBits - 1) with h | h
        · exact h
        · exfalso; apply h1
          apply BitVec.eq_of_toNat_eq
          rw [BitVec.neg_one_eq_allOnes, BitVec.toNat_allOnes]; omega
      omega

theorem expOK_neg {spec : Format} {f : UnpackedFloat} (h : ExpOK spec f) : ExpOK spec f.neg := by
  cases f <;> trivial

theorem expOK_abs {spec : Format} {f : UnpackedFloat} (h : ExpOK spec f) : ExpOK spec f.abs := by
  cases f <;> trivial

/-- a canonical float below `2^(p-1)·2^k`… : exponent bound from a magnitude bound -/
theorem expOK_of_val_lt {spec : Format} {f : UnpackedFloat} (cf : Canon spec f) (h : |val f| < Ω spec)
    (heb : 2 ≤ spec.exponentBits) : ExpOK spec f := by
  cases f <;> try trivial
  rename_i s m e hm
  have hc : CanonME spec m e := cf
  rcases repack_finite spec heb (s := s) (hm := hm) hc with ⟨_, h2⟩ | ⟨h1, _⟩
  · simp only [ExpOK]
    by_contra hge
    have hov := (biasedExp_overflow_iff spec hc.emin_le).mpr (by omega)
    rw [show repack spec (.finite s m e hm) = _ from unpack_pack_overflow spec s m e hm hov] at h2
    cases h2
  · exfalso
    have hpos := mag_pos hm e
    cases s
    · rw [val_neg_eq, abs_neg, abs_of_pos hpos] at h; linarith
    · rw [val_pos_eq, abs_of_pos hpos] at h; linarith

end Ieee
