/-
  IEEE reasoning layer, part 8: `repack = unpack ∘ pack`, the step every packed operation performs on its rounded
  result: identity below the overflow threshold `Ω = 2^(2^(exponentBits−1))`, signed infinity at or above it.
-/
import PaletteProofs.Ieee.Compare

namespace Ieee
open Float.Model Float.Model.UnpackedFloat

def repack (spec : Format) (f : UnpackedFloat) : UnpackedFloat :=
  UnpackedFloat.unpack spec (UnpackedFloat.pack spec f)

/-- overflow threshold of the format -/
def Ω (spec : Format) : ℚ := 2^(2^(spec.exponentBits - 1))

theorem unpack_packedNaN (spec : Format) : UnpackedFloat.unpack spec (packedNaN spec) = .notANumber := by
  unfold packedNaN; rw [unpack_packComponents, if_pos rfl, if_neg]
  intro h
  have := congrArg BitVec.toNat h
  have hm := spec.hm
  rw [BitVec.toNat_shiftLeft, BitVec.toNat_ofNat, Nat.shiftLeft_eq] at this
  have h1 : 1 % 2^spec.mantissaBitsWithoutImplicit = 1 :=
    Nat.mod_eq_of_lt (Nat.one_lt_two_pow (by omega))
  have h2 : 2^(spec.mantissaBitsWithoutImplicit - 1) < 2^spec.mantissaBitsWithoutImplicit :=
    Nat.pow_lt_pow_right (by norm_num) (by omega)
  rw [h1, Nat.one_mul, Nat.mod_eq_of_lt h2] at this
  have : 0 < 2^(spec.mantissaBitsWithoutImplicit - 1) := Nat.pos_of_ne_zero (by simp)
  simp at *

theorem repack_nan (spec : Format) : repack spec .notANumber = .notANumber := unpack_packedNaN spec
theorem repack_inf (spec : Format) (s : Sign) : repack spec (.infinity s) = .infinity s := unpack_packedInfinity spec s
theorem repack_zero (spec : Format) (s : Sign) : repack spec (.zero s) = .zero s := unpack_packedZero spec s

theorem biasedExp_overflow_iff (spec : Format) {e : ℤ} (he : spec.minExponent ≤ e) :
    2^spec.exponentBits ≤ biasedExp spec e + 1 ↔ (2^(spec.exponentBits - 1) : ℕ) ≤ e + spec.mantissaBitsWithoutImplicit := by
  have hme := minExponent_eq spec
  have h2 : 1 ≤ 2^(spec.exponentBits - 1) := Nat.one_le_two_pow
  have hpow : 2^spec.exponentBits = 2 * 2^(spec.exponentBits - 1) := by
    obtain ⟨j, hj⟩ : ∃ j, spec.exponentBits = j + 1 := ⟨spec.exponentBits - 1, by have := spec.he; omega⟩
    rw [hj, Nat.add_sub_cancel, Nat.pow_succ]; omega
  have hb : (spec.exponentBias : ℤ) = (2^(spec.exponentBits - 1) : ℕ) - 1 := by
    unfold Format.exponentBias; omega
  unfold biasedExp
  rw [hpow]
  omega

theorem repack_finite (spec : Format) (heb : 2 ≤ spec.exponentBits) {s : Sign} {m : ℕ} {e : ℤ} {hm : 0 < m} (hc : CanonME spec m e) :
    (mag m e < Ω spec ∧ repack spec (.finite s m e hm) = .finite s m e hm) ∨
    (Ω spec ≤ mag m e ∧ repack spec (.finite s m e hm) = .infinity s) := by
  have hp : spec.mantissaBits = spec.mantissaBitsWithoutImplicit + 1 := by unfold Format.mantissaBits; omega
  have hmq : (0 : ℚ) < m := by exact_mod_cast hm
  by_cases hov : 2^spec.exponentBits ≤ biasedExp spec e + 1
  · right
    refine ⟨?_, unpack_pack_overflow spec s m e hm hov⟩
    have h1 := (biasedExp_overflow_iff spec hc.emin_le).mp hov
    have hn : 2^spec.mantissaBitsWithoutImplicit ≤ m := by
      rcases hc.norm with h | h | h
      · omega
      · rwa [hp, Nat.add_sub_cancel] at h
      · have := minExponent_eq spec
        have hb : (spec.exponentBias : ℤ) = (2^(spec.exponentBits - 1) : ℕ) - 1 := by
          have h2 : 1 ≤ 2^(spec.exponentBits - 1) := Nat.one_le_two_pow
          unfold Format.exponentBias; omega
        have h3 : 2 ≤ 2^(spec.exponentBits - 1) := by
          calc 2 = 2^1 := rfl
            _ ≤ 2^(spec.exponentBits - 1) := Nat.pow_le_pow_right (by norm_num) (by omega)
        omega
    have hnq : (2 : ℚ)^spec.mantissaBitsWithoutImplicit ≤ m := by exact_mod_cast hn
    unfold Ω mag
    calc (2 : ℚ)^(2^(spec.exponentBits - 1)) = 2^(((2^(spec.exponentBits - 1) : ℕ) : ℤ)) := (zpow_natCast _ _).symm
      _ ≤ 2^(e + spec.mantissaBitsWithoutImplicit) := zpow_le_zpow_right₀ (by norm_num) h1
      _ = 2^spec.mantissaBitsWithoutImplicit * 2^e := by rw [zpow_add₀ (by norm_num), zpow_natCast]; ring
      _ ≤ (m : ℚ) * 2^e := mul_le_mul_of_nonneg_right hnq (two_zpow_pos e).le
  · left
    refine ⟨?_, unpack_pack_finite spec s m e hm hc (by omega)⟩
    have h1 : e + spec.mantissaBitsWithoutImplicit < (2^(spec.exponentBits - 1) : ℕ) := by
      by_contra h; exact hov ((biasedExp_overflow_iff spec hc.emin_le).mpr (by omega))
    have hlt : (m : ℚ) < 2^spec.mantissaBits := by exact_mod_cast hc.lt
    unfold Ω mag
    calc (m : ℚ) * 2^e < 2^spec.mantissaBits * 2^e := mul_lt_mul_of_pos_right hlt (two_zpow_pos e)
      _ = 2^(e + spec.mantissaBitsWithoutImplicit + 1) := by
          rw [hp, zpow_add₀ (by norm_num), zpow_add₀ (by norm_num), zpow_natCast, pow_succ]; ring
      _ ≤ 2^(((2^(spec.exponentBits - 1) : ℕ) : ℤ)) := zpow_le_zpow_right₀ (by norm_num) (by omega)
      _ = (2 : ℚ)^(2^(spec.exponentBits - 1)) := zpow_natCast _ _

theorem Ω_pos (spec : Format) : 0 < Ω spec := by unfold Ω; positivity

/-- the three outcomes of re-packing a finite canonical result -/
theorem repack_cases (spec : Format) (heb : 2 ≤ spec.exponentBits) {f : UnpackedFloat} (cf : Canon spec f) (ff : f.isFinite = true) :
    (|val f| < Ω spec ∧ repack spec f = f) ∨
    (Ω spec ≤ val f ∧ repack spec f = .infinity .positive) ∨
    (val f ≤ -Ω spec ∧ repack spec f = .infinity .negative) := by
  cases f <;> simp only [UnpackedFloat.isFinite, Bool.false_eq_true] at ff
  · left; exact ⟨by simpa [val] using Ω_pos spec, repack_zero spec _⟩
  · rename_i s m e hm
    have hpos := mag_pos hm e
    rcases repack_finite spec heb (s := s) (hm := hm) cf with ⟨h1, h2⟩ | ⟨h1, h2⟩
    · left; refine ⟨?_, h2⟩
      cases s
      · rw [val_neg_eq, abs_neg, abs_of_pos hpos]; exact h1
      · rw [val_pos_eq, abs_of_pos hpos]; exact h1
    · right
      cases s
      · right; rw [val_neg_eq]; exact ⟨by linarith, h2⟩
      · left; rw [val_pos_eq]; exact ⟨h1, h2⟩

end Ieee
