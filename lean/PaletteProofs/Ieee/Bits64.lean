/-
  IEEE reasoning layer, binary64 instance, part 3: bit patterns (the companion of `Bits32.lean`).  `U_bits` reads the
  unpacked form of a `Float` off the three fields of `x.toBits` (sign `n / 2^63`, exponent `(n / 2^52) % 2048`, mantissa
  `n % 2^52`); `U_ofBits`: `Float.ofBits a` unpacks to the reading of `a` (NaN payloads are canonicalised by `ofBits`, which
  the unpacked form does not see); on finite floats with the sign bit clear the order of the bit patterns is the order of
  the values (`toBits_le_iff`, `toBits_lt_iff`).
-/
import PaletteProofs.Ieee.F64Ops

namespace Ieee.F64
open Float.Model Float.Model.UnpackedFloat Ieee

def fS (n : ℕ) : ℕ := n / 2^63
def fE (n : ℕ) : ℕ := (n / 2^52) % 2^11
def fM (n : ℕ) : ℕ := n % 2^52

theorem toNat_unpackMantissa (b : BitVec 64) : (unpackMantissa (spec := spec) b).toNat = fM b.toNat := by
  simp [unpackMantissa, BitVec.extractLsb, BitVec.extractLsb', fM]

theorem toNat_unpackExponent (b : BitVec 64) : (unpackExponent (spec := spec) b).toNat = fE b.toNat := by
  simp [unpackExponent, BitVec.extractLsb, BitVec.extractLsb', Nat.shiftRight_eq_div_pow, fE]

theorem toNat_unpackSign (b : BitVec 64) : (unpackSign (spec := spec) b).toNat = fS b.toNat := by
  have h : b.toNat < 2^64 := b.isLt
  simp [unpackSign, BitVec.extractLsb, BitVec.extractLsb', Nat.shiftRight_eq_div_pow, fS]
  omega

def signOf (n : ℕ) : Sign := if fS n = 0 then .positive else .negative

theorem fM_lt (n : ℕ) : fM n < 2^52 := Nat.mod_lt _ (by norm_num)
theorem fE_lt (n : ℕ) : fE n < 2^11 := Nat.mod_lt _ (by norm_num)

/-- the unpacked form of a bit pattern, read off its three fields -/
theorem unpack_bits (b : BitVec 64) :
    UnpackedFloat.unpack spec b =
      if fE b.toNat = 2047 then
        (if fM b.toNat = 0 then .infinity (signOf b.toNat) else .notANumber)
      else if fE b.toNat = 0 then
        (if h : fM b.toNat = 0 then .zero (signOf b.toNat)
         else .finite (signOf b.toNat) (fM b.toNat) (-1074) (Nat.pos_of_ne_zero h))
      else .finite (signOf b.toNat) (2^52 + fM b.toNat) ((fE b.toNat : ℤ) - 1075)
        (by have : 0 < 2^52 := by norm_num
            omega) := by
  have hM := toNat_unpackMantissa b
  have hE := toNat_unpackExponent b
  have hS := toNat_unpackSign b
  have hsign : Sign.ofBitVec (unpackSign (spec := spec) b) = signOf b.toNat := by
    unfold Sign.ofBitVec signOf
    by_cases h0 : fS b.toNat = 0
    · rw [if_pos h0, if_pos]; apply BitVec.eq_of_toNat_eq; rw [hS, h0]; rfl
    · rw [if_neg h0, if_neg]; intro h; apply h0; rw [← hS, h]; rfl
  have hEall : unpackExponent (spec := spec) b = -1#_ ↔ fE b.toNat = 2047 := by
    rw [← hE]; constructor
    · intro h; rw [h]; rfl
    · intro h; apply BitVec.eq_of_toNat_eq; rw [h]; rfl
  have hE0 : unpackExponent (spec := spec) b = 0#_ ↔ fE b.toNat = 0 := by
    rw [← hE]; constructor
    · intro h; rw [h]; rfl
    · intro h; apply BitVec.eq_of_toNat_eq; rw [h]; rfl
  have hM0 : unpackMantissa (spec := spec) b = 0#_ ↔ fM b.toNat = 0 := by
    rw [← hM]; constructor
    · intro h; rw [h]; rfl
    · intro h; apply BitVec.eq_of_toNat_eq; rw [h]; rfl
  unfold UnpackedFloat.unpack
  simp only [hsign]
  by_cases c1 : fE b.toNat = 2047
  · rw [if_pos (hEall.mpr c1), if_pos c1]
    by_cases c2 : fM b.toNat = 0
    · rw [if_pos (hM0.mpr c2), if_pos c2]
    · rw [if_neg (mt hM0.mp c2), if_neg c2]
  · rw [if_neg (mt hEall.mp c1), if_neg c1]
    by_cases c3 : fE b.toNat = 0
    · rw [if_pos (hE0.mpr c3), if_pos c3]
      by_cases c2 : fM b.toNat = 0
      · rw [dif_pos (hM0.mpr c2), dif_pos c2]
      · rw [dif_neg (mt hM0.mp c2), dif_neg c2]
        apply finite_congr hM
        rw [hE, c3]; rfl
    · rw [if_neg (mt hE0.mp c3), if_neg c3]
      apply finite_congr
      · have hlt := fM_lt b.toNat
        rw [BitVec.toNat_append, hM, ← Nat.shiftLeft_add_eq_or_of_lt hlt, Nat.shiftLeft_eq]; rfl
      · rw [hE]; rfl

/-- the unpacked form of a `Float`, read off the fields of its bit pattern -/
theorem U_bits (x : Float) :
    U x =
      if fE x.toBits.toNat = 2047 then
        (if fM x.toBits.toNat = 0 then .infinity (signOf x.toBits.toNat) else .notANumber)
      else if fE x.toBits.toNat = 0 then
        (if h : fM x.toBits.toNat = 0 then .zero (signOf x.toBits.toNat)
         else .finite (signOf x.toBits.toNat) (fM x.toBits.toNat) (-1074) (Nat.pos_of_ne_zero h))
      else .finite (signOf x.toBits.toNat) (2^52 + fM x.toBits.toNat) ((fE x.toBits.toNat : ℤ) - 1075)
        (by have : 0 < 2^52 := by norm_num
            omega) :=
  unpack_bits x.toBits.toBitVec

/-- fixed-point magnitude: `|v x| = wOf n · 2^-1074` for a finite float with bits `n` -/
def wOf (n : ℕ) : ℕ := if fE n = 0 then fM n else (2^52 + fM n) * 2^(fE n - 1)

theorem v_bits_nonneg {x : Float} (hx : IsFin x) (hs : fS x.toBits.toNat = 0) :
    v x = (wOf x.toBits.toNat : ℚ) * 2^(-1074 : ℤ) := by
  unfold v IsFin at *
  have hsg : signOf x.toBits.toNat = .positive := by unfold signOf; rw [if_pos hs]
  rw [U_bits] at hx ⊢
  unfold wOf
  by_cases c1 : fE x.toBits.toNat = 2047
  · rw [if_pos c1] at hx; split at hx <;> simp [UnpackedFloat.isFinite] at hx
  · rw [if_neg c1]
    by_cases c3 : fE x.toBits.toNat = 0
    · rw [if_pos c3, if_pos c3]
      by_cases c2 : fM x.toBits.toNat = 0
      · rw [dif_pos c2, c2]; simp [val]
      · rw [dif_neg c2, hsg]; simp [val, sgn]
    · rw [if_neg c3, if_neg c3, hsg]
      simp only [val, sgn, one_mul]
      simp only [Nat.cast_add, Nat.cast_pow, Nat.cast_ofNat, Nat.cast_mul]
      have : (2 : ℚ)^((fE x.toBits.toNat : ℤ) - 1075) = 2^(fE x.toBits.toNat - 1) * 2^(-1074 : ℤ) := by
        rw [← zpow_natCast, ← zpow_add₀ (by norm_num)]; congr 1
        have : 1 ≤ fE x.toBits.toNat := Nat.pos_of_ne_zero c3
        omega
      rw [this]; ring

theorem bits_decomp {n : ℕ} (hs : fS n = 0) : n = fE n * 2^52 + fM n := by
  unfold fS fE fM at *
  have h31 : n < 2^63 := by
    by_contra h; rw [not_lt] at h
    have : 1 ≤ n / 2^63 := (Nat.le_div_iff_mul_le (by norm_num)).mpr (by omega)
    omega
  have := Nat.div_add_mod n (2^52)
  have h8 : n / 2^52 < 2^11 := by
    rw [Nat.div_lt_iff_lt_mul (by norm_num)]; omega
  rw [Nat.mod_eq_of_lt h8]; omega

/-- the fixed-point magnitude is strictly increasing in the bit pattern (finite, sign bit clear) -/
theorem wOf_strictMono {a b : ℕ} (ha : fS a = 0) (hb : fS b = 0) (hab : a < b) : wOf a < wOf b := by
  have da := bits_decomp ha
  have db := bits_decomp hb
  have ma := fM_lt a
  have mb := fM_lt b
  have hE : fE a ≤ fE b := by
    by_contra h; rw [not_le] at h
    have : (fE b + 1) * 2^52 ≤ fE a * 2^52 := Nat.mul_le_mul_right _ h
    omega
  unfold wOf
  rcases hE.lt_or_eq with hlt | heq
  · have hb0 : fE b ≠ 0 := by omega
    rw [if_neg hb0]
    have hpow : 2^52 * 2^(fE b - 1) ≤ (2^52 + fM b) * 2^(fE b - 1) := Nat.mul_le_mul_right _ (by omega)
    by_cases ha0 : fE a = 0
    · rw [if_pos ha0]
      have : 2^52 * 1 ≤ 2^52 * 2^(fE b - 1) := Nat.mul_le_mul_left _ Nat.one_le_two_pow
      omega
    · rw [if_neg ha0]
      have h1 : (2^52 + fM a) * 2^(fE a - 1) < 2^53 * 2^(fE a - 1) :=
        Nat.mul_lt_mul_of_pos_right (by omega) (Nat.pos_of_ne_zero (by simp))
      have h2 : 2^53 * 2^(fE a - 1) = 2^52 * 2^(fE a) := by
        obtain ⟨j, hj⟩ : ∃ j, fE a = j + 1 := ⟨fE a - 1, by omega⟩
        rw [hj, Nat.add_sub_cancel, Nat.pow_succ]; ring
      have h3 : 2^52 * 2^(fE a) ≤ 2^52 * 2^(fE b - 1) :=
        Nat.mul_le_mul_left _ (Nat.pow_le_pow_right (by norm_num) (by omega))
      omega
  · have hM : fM a < fM b := by rw [heq] at da; omega
    by_cases ha0 : fE a = 0
    · rw [if_pos ha0, if_pos (by omega)]; exact hM
    · rw [if_neg ha0, if_neg (by omega), heq]
      exact Nat.mul_lt_mul_of_pos_right (by omega) (Nat.pos_of_ne_zero (by simp))

theorem wOf_mono {a b : ℕ} (ha : fS a = 0) (hb : fS b = 0) (hab : a ≤ b) : wOf a ≤ wOf b := by
  rcases hab.lt_or_eq with h | h
  · exact (wOf_strictMono ha hb h).le
  · rw [h]

/-- **on finite floats with the sign bit clear, the order of bit patterns is the order of values** -/
theorem toBits_le_iff {a b : Float} (ha : IsFin a) (hb : IsFin b) (sa : fS a.toBits.toNat = 0)
    (sb : fS b.toBits.toNat = 0) : a.toBits ≤ b.toBits ↔ v a ≤ v b := by
  rw [UInt64.le_iff_toNat_le, v_bits_nonneg ha sa, v_bits_nonneg hb sb]
  have hp : (0 : ℚ) < 2^(-1074 : ℤ) := two_zpow_pos _
  constructor
  · intro h
    exact mul_le_mul_of_nonneg_right (by exact_mod_cast wOf_mono sa sb h) hp.le
  · intro h
    by_contra hlt; rw [not_le] at hlt
    have := wOf_strictMono sb sa hlt
    have h' : (wOf a.toBits.toNat : ℚ) ≤ wOf b.toBits.toNat := le_of_mul_le_mul_right h hp
    have h'' : wOf a.toBits.toNat ≤ wOf b.toBits.toNat := by exact_mod_cast h'
    omega

theorem toBits_lt_iff {a b : Float} (ha : IsFin a) (hb : IsFin b) (sa : fS a.toBits.toNat = 0)
    (sb : fS b.toBits.toNat = 0) : a.toBits < b.toBits ↔ v a < v b := by
  have h := toBits_le_iff hb ha sb sa
  rw [UInt64.le_iff_toNat_le] at h
  rw [UInt64.lt_iff_toNat_lt]
  constructor
  · intro hlt; by_contra hge; rw [not_lt] at hge; have := h.mpr hge; omega
  · intro hlt; by_contra hge; rw [not_lt] at hge; have := h.mp hge; linarith

/-- `Float.ofBits a` unpacks to the reading of the pattern `a` -/
theorem U_ofBits (a : UInt64) : U (Float.ofBits a) = UnpackedFloat.unpack spec a.toBitVec := by
  show repack spec (UnpackedFloat.unpack spec a.toBitVec) = _
  exact repack_of_expOK spec (canon_unpack spec _) (expOK_unpack spec heb _)

/-! ### `Float.ofBits` by cases on the fields of the pattern -/

theorem U_ofBits_fields (a : UInt64) :
    U (Float.ofBits a) =
      if fE a.toNat = 2047 then
        (if fM a.toNat = 0 then .infinity (signOf a.toNat) else .notANumber)
      else if fE a.toNat = 0 then
        (if h : fM a.toNat = 0 then .zero (signOf a.toNat)
         else .finite (signOf a.toNat) (fM a.toNat) (-1074) (Nat.pos_of_ne_zero h))
      else .finite (signOf a.toNat) (2^52 + fM a.toNat) ((fE a.toNat : ℤ) - 1075)
        (by have : 0 < 2^52 := by norm_num
            omega) := by
  rw [U_ofBits]; exact unpack_bits a.toBitVec

theorem U_ofBits_inf {a : UInt64} (hE : fE a.toNat = 2047) (hM : fM a.toNat = 0) :
    U (Float.ofBits a) = .infinity (signOf a.toNat) := by
  rw [U_ofBits_fields, if_pos hE, if_pos hM]

theorem U_ofBits_nan {a : UInt64} (hE : fE a.toNat = 2047) (hM : fM a.toNat ≠ 0) :
    U (Float.ofBits a) = .notANumber := by
  rw [U_ofBits_fields, if_pos hE, if_neg hM]

theorem U_ofBits_zero {a : UInt64} (hE : fE a.toNat = 0) (hM : fM a.toNat = 0) :
    U (Float.ofBits a) = .zero (signOf a.toNat) := by
  rw [U_ofBits_fields, if_neg (by omega), if_pos hE, dif_pos hM]

theorem U_ofBits_sub {a : UInt64} (hE : fE a.toNat = 0) (hM : fM a.toNat ≠ 0) :
    U (Float.ofBits a) = .finite (signOf a.toNat) (fM a.toNat) (-1074) (Nat.pos_of_ne_zero hM) := by
  rw [U_ofBits_fields, if_neg (by omega), if_pos hE, dif_neg hM]

theorem U_ofBits_normal {a : UInt64} (hE0 : fE a.toNat ≠ 0) (hE1 : fE a.toNat ≠ 2047) :
    U (Float.ofBits a) = .finite (signOf a.toNat) (2^52 + fM a.toNat) ((fE a.toNat : ℤ) - 1075)
      (by have : 0 < 2^52 := by norm_num
          omega) := by
  rw [U_ofBits_fields, if_neg hE1, if_neg hE0]

/-- every pattern whose exponent field is not all ones is a finite float of value `± w · 2^-1074` -/
theorem ofBits_fin {a : UInt64} (hE1 : fE a.toNat ≠ 2047) :
    IsFin (Float.ofBits a) ∧ v (Float.ofBits a) = sgn (signOf a.toNat) * ((wOf a.toNat : ℚ) * 2^(-1074 : ℤ)) := by
  unfold IsFin v wOf
  by_cases hE0 : fE a.toNat = 0
  · rw [if_pos hE0]
    by_cases hM : fM a.toNat = 0
    · rw [U_ofBits_zero hE0 hM, hM]; exact ⟨rfl, by simp [val]⟩
    · rw [U_ofBits_sub hE0 hM]; exact ⟨rfl, by simp only [val]; ring⟩
  · rw [if_neg hE0, U_ofBits_normal hE0 hE1]
    refine ⟨rfl, ?_⟩
    simp only [val]
    simp only [Nat.cast_add, Nat.cast_pow, Nat.cast_ofNat, Nat.cast_mul]
    have : (2 : ℚ)^((fE a.toNat : ℤ) - 1075) = 2^(fE a.toNat - 1) * 2^(-1074 : ℤ) := by
      rw [← zpow_natCast, ← zpow_add₀ (by norm_num)]; congr 1
      have : 1 ≤ fE a.toNat := Nat.pos_of_ne_zero hE0
      omega
    rw [this]; ring

end Ieee.F64
