/-
  IEEE reasoning layer, part 12: `div`, `sub`, `neg`, `abs` of `Float.Model.UnpackedFloat` on exact values.
-/
import PaletteProofs.Ieee.RoundAcc
import PaletteProofs.Ieee.Compare

namespace Ieee
open Float.Model Float.Model.UnpackedFloat

/-! ### `div` -/

theorem accRep_fraction (n d : ℕ) (hd : 0 < d) : AccRep (n / d) (accuracyOfFraction (n % d) d) ((n : ℚ) / d) := by
  have hdm := Nat.div_add_mod n d
  have hr : n % d < d := Nat.mod_lt _ hd
  have hdq : (0 : ℚ) < d := by exact_mod_cast hd
  have hx : (n : ℚ) / d = ((n / d : ℕ) : ℚ) + ((n % d : ℕ) : ℚ) / d := by
    have : (n : ℚ) = (d : ℚ) * ((n / d : ℕ) : ℚ) + ((n % d : ℕ) : ℚ) := by exact_mod_cast hdm.symm
    rw [this]; field_simp
  generalize n / d = q at *
  generalize n % d = r at *
  unfold accuracyOfFraction
  by_cases h0 : r = 0
  · rw [if_pos h0]; subst h0; simp only [AccRep]; rw [hx]; simp
  · rw [if_neg h0]
    have hrpos : (0 : ℚ) < r := by exact_mod_cast Nat.pos_of_ne_zero h0
    have hfpos : (0 : ℚ) < (r : ℚ) / d := div_pos hrpos hdq
    rcases lt_trichotomy (2 * r) d with h | h | h
    · rw [compare_lt_iff_lt.mpr h]; simp only [AccRep]
      have : (r : ℚ) / d < 1 / 2 := by
        rw [div_lt_iff₀ hdq]; have : ((2 * r : ℕ) : ℚ) < d := by exact_mod_cast h
        push_cast at this; linarith
      rw [hx]; constructor <;> linarith
    · rw [compare_eq_iff_eq.mpr h]; simp only [AccRep]
      have : (r : ℚ) / d = 1 / 2 := by
        rw [div_eq_iff hdq.ne']; have : ((2 * r : ℕ) : ℚ) = d := by exact_mod_cast h
        push_cast at this; linarith
      rw [hx, this]
    · rw [compare_gt_iff_gt.mpr h]; simp only [AccRep]
      have h1 : 1 / 2 < (r : ℚ) / d := by
        rw [lt_div_iff₀ hdq]; have : (d : ℚ) < ((2 * r : ℕ) : ℚ) := by exact_mod_cast h
        push_cast at this; linarith
      have h2 : (r : ℚ) / d < 1 := by rw [div_lt_one hdq]; exact_mod_cast hr
      rw [hx]; constructor <;> linarith

/-- exponent at which `divCore` delivers the integer quotient -/
def divE (spec : Format) (m₁ : ℕ) (e₁ : ℤ) (m₂ : ℕ) (e₂ : ℤ) : ℤ :=
  min (e₁ - e₂) (spec.targetExponent (totalExponent m₁ e₁ - totalExponent m₂ e₂))

/-- numerator after the left shift of `divCore` -/
def divN (spec : Format) (m₁ : ℕ) (e₁ : ℤ) (m₂ : ℕ) (e₂ : ℤ) : ℕ :=
  m₁ * 2^(e₁ - e₂ - divE spec m₁ e₁ m₂ e₂).toNat

theorem div_finite (spec : Format) (s₁ : Sign) (m₁ : ℕ) (e₁ : ℤ) (h₁ : 0 < m₁) (s₂ : Sign) (m₂ : ℕ) (e₂ : ℤ) (h₂ : 0 < m₂) :
    UnpackedFloat.div spec (.finite s₁ m₁ e₁ h₁) (.finite s₂ m₂ e₂ h₂) =
      roundWithAccuracy spec (s₁ / s₂) (divN spec m₁ e₁ m₂ e₂ / m₂) (divE spec m₁ e₁ m₂ e₂)
        (accuracyOfFraction (divN spec m₁ e₁ m₂ e₂ % m₂) m₂) := by
  simp only [UnpackedFloat.div, divCore, Nat.shiftLeft_eq]
  rfl

theorem sgn_div (s₁ s₂ : Sign) : sgn (s₁ / s₂) = sgn s₁ / sgn s₂ := by
  cases s₁ <;> cases s₂ <;>
    first | (show sgn Sign.positive = _; simp [sgn]) | (show sgn Sign.negative = _; simp [sgn])

theorem mag_bounds {m : ℕ} (hm : 0 < m) (e : ℤ) :
    (2 : ℚ)^(totalExponent m e - 1) ≤ (m : ℚ) * 2^e ∧ (m : ℚ) * 2^e < 2^(totalExponent m e) := by
  unfold totalExponent
  constructor
  · rw [show (m.log2 : ℤ) + 1 + e - 1 = (m.log2 : ℤ) + e by ring, zpow_add₀ (by norm_num), zpow_natCast]
    exact mul_le_mul_of_nonneg_right (natCast_two_pow_log2_le hm) (two_zpow_pos e).le
  · rw [zpow_add₀ (by norm_num)]
    have : (2 : ℚ)^((m.log2 : ℤ) + 1) = 2^(m.log2 + 1) := by rw [← zpow_natCast]; push_cast; rfl
    rw [this]
    exact mul_lt_mul_of_pos_right (natCast_lt_two_pow_log2 m) (two_zpow_pos e)

theorem div_spec (spec : Format) (s₁ : Sign) {m₁ : ℕ} (e₁ : ℤ) (h₁ : 0 < m₁) (s₂ : Sign) {m₂ : ℕ} (e₂ : ℤ) (h₂ : 0 < m₂) :
    val (UnpackedFloat.div spec (.finite s₁ m₁ e₁ h₁) (.finite s₂ m₂ e₂ h₂)) =
        Rs spec (val (.finite s₁ m₁ e₁ h₁) / val (.finite s₂ m₂ e₂ h₂)) ∧
    Canon spec (UnpackedFloat.div spec (.finite s₁ m₁ e₁ h₁) (.finite s₂ m₂ e₂ h₂)) ∧
    (UnpackedFloat.div spec (.finite s₁ m₁ e₁ h₁) (.finite s₂ m₂ e₂ h₂)).isFinite = true := by
  have hp := one_le_mantissaBits spec
  rw [div_finite]
  set te := divE spec m₁ e₁ m₂ e₂ with hte
  set N := divN spec m₁ e₁ m₂ e₂ with hN
  set T := totalExponent m₁ e₁ - totalExponent m₂ e₂ with hT
  have hteG : te ≤ spec.targetExponent T := min_le_right _ _
  have htele : te ≤ e₁ - e₂ := min_le_left _ _
  have hG : spec.targetExponent T = max (T - spec.mantissaBits) spec.minExponent := rfl
  have hm2q : (0 : ℚ) < m₂ := by exact_mod_cast h₂
  have hm1q : (0 : ℚ) < m₁ := by exact_mod_cast h₁
  have hrep := accRep_fraction N m₂ h₂
  -- the exact quotient
  have hQ : ((N : ℚ) / m₂) * 2^te = ((m₁ : ℚ) * 2^e₁) / ((m₂ : ℚ) * 2^e₂) := by
    rw [hN]; unfold divN; rw [← hte]; push_cast
    have hsh : (((e₁ - e₂ - te).toNat : ℕ) : ℤ) + te = e₁ - e₂ := by omega
    have h2 := (two_zpow_pos e₂).ne'
    field_simp
    rw [← zpow_natCast, ← zpow_add₀ (by norm_num), ← zpow_add₀ (by norm_num)]
    congr 1; omega
  obtain ⟨b1lo, b1hi⟩ := mag_bounds h₁ e₁
  obtain ⟨b2lo, b2hi⟩ := mag_bounds h₂ e₂
  have hQlow : (2 : ℚ)^(T - 1) < ((N : ℚ) / m₂) * 2^te := by
    rw [hQ, lt_div_iff₀ (mul_pos hm2q (two_zpow_pos e₂))]
    calc (2 : ℚ)^(T - 1) * ((m₂ : ℚ) * 2^e₂) < 2^(T - 1) * 2^(totalExponent m₂ e₂) :=
          mul_lt_mul_of_pos_left b2hi (two_zpow_pos _)
      _ = 2^(totalExponent m₁ e₁ - 1) := by rw [← zpow_add₀ (by norm_num)]; congr 1; omega
      _ ≤ _ := b1lo
  obtain ⟨hx0, hx1⟩ := accRep_bounds hrep
  have hkey : (1 ≤ N / m₂ ∧ T ≤ ((N / m₂).log2 : ℤ) + 1 + te) ∨ (N / m₂ = 0 ∧ te ≤ spec.minExponent) := by
    rcases Nat.eq_zero_or_pos (N / m₂) with h0 | h0
    · right; refine ⟨h0, ?_⟩
      rw [h0] at hx1
      have : ((N : ℚ) / m₂) * 2^te < 2^te := by
        calc ((N : ℚ) / m₂) * 2^te < 1 * 2^te := mul_lt_mul_of_pos_right (by simpa using hx1) (two_zpow_pos te)
          _ = 2^te := one_mul _
      have hlt : (2 : ℚ)^(T - 1) < 2^te := lt_trans hQlow this
      have hTte : T - 1 < te := (zpow_lt_zpow_iff_right₀ (by norm_num : (1 : ℚ) < 2)).mp hlt
      rw [hG] at hteG
      rcases le_total (T - (spec.mantissaBits : ℤ)) spec.minExponent with hh | hh
      · rwa [max_eq_right hh] at hteG
      · rw [max_eq_left hh] at hteG; omega
    · left; refine ⟨h0, ?_⟩
      have hup : ((N : ℚ) / m₂) * 2^te < 2^(((N / m₂).log2 : ℤ) + 1 + te) := by
        have h3 : N / m₂ + 1 ≤ 2^((N / m₂).log2 + 1) := Nat.lt_log2_self
        have h4 : (((N / m₂ : ℕ) : ℚ) + 1) ≤ 2^((N / m₂).log2 + 1) := by exact_mod_cast h3
        rw [zpow_add₀ (by norm_num)]
        apply mul_lt_mul_of_pos_right _ (two_zpow_pos te)
        have : ((2 : ℚ)^(((N / m₂).log2 : ℤ) + 1)) = 2^((N / m₂).log2 + 1) := by
          rw [← zpow_natCast]; congr 1
        rw [this]; linarith
      have hlt : (2 : ℚ)^(T - 1) < 2^(((N / m₂).log2 : ℤ) + 1 + te) := lt_trans hQlow hup
      have := (zpow_lt_zpow_iff_right₀ (by norm_num : (1 : ℚ) < 2)).mp hlt
      omega
  have hA : te ≤ tE spec (N / m₂) te := by
    rw [tE_def]
    rcases hkey with ⟨_, h⟩ | ⟨_, h⟩
    · rw [hG] at hteG
      exact le_trans hteG (max_le_max (by omega) le_rfl)
    · exact le_trans h (le_max_right _ _)
  have hq : 1 ≤ N / m₂ ∨ 1 + te - (spec.mantissaBits : ℤ) ≤ spec.minExponent := by
    rcases hkey with ⟨h, _⟩ | ⟨_, h⟩
    · exact Or.inl h
    · right; omega
  obtain ⟨hv, hc, hf⟩ := rwa_acc_spec spec (s₁ / s₂) hrep hA hq
  refine ⟨?_, hc, hf⟩
  rw [hv, hQ, sgn_div]
  congr 1
  simp only [val]
  have := (two_zpow_pos e₂).ne'
  have hs2 : sgn s₂ ≠ 0 := by cases s₂ <;> simp [sgn]
  field_simp

theorem val_div (spec : Format) {a b : UnpackedFloat} (ha : a.isFinite = true) (hb : b.isFinite = true)
    (hb0 : val b ≠ 0) : val (UnpackedFloat.div spec a b) = Rs spec (val a / val b) := by
  cases a <;> cases b <;> simp only [UnpackedFloat.isFinite, Bool.false_eq_true] at ha hb
  · simp [val] at hb0
  · simp only [UnpackedFloat.div, val, zero_div, Rs_zero]
  · simp [val] at hb0
  · exact (div_spec spec _ _ _ _ _ _).1

theorem isFinite_div (spec : Format) {a b : UnpackedFloat} (ha : a.isFinite = true) (hb : b.isFinite = true)
    (hb0 : val b ≠ 0) : (UnpackedFloat.div spec a b).isFinite = true := by
  cases a <;> cases b <;> simp only [UnpackedFloat.isFinite, Bool.false_eq_true] at ha hb
  · simp [val] at hb0
  · rfl
  · simp [val] at hb0
  · exact (div_spec spec _ _ _ _ _ _).2.2

theorem canon_div (spec : Format) (a b : UnpackedFloat) : Canon spec (UnpackedFloat.div spec a b) := by
  cases a <;> cases b
  case finite.finite => exact (div_spec spec _ _ _ _ _ _).2.1
  all_goals simp only [UnpackedFloat.div]
  all_goals trivial

/-! ### `sub` -/

theorem sub_finite (spec : Format) (s₁ : Sign) (m₁ : ℕ) (e₁ : ℤ) (h₁ : 0 < m₁) (s₂ : Sign) (m₂ : ℕ) (e₂ : ℤ) (h₂ : 0 < m₂) :
    UnpackedFloat.sub spec (.finite s₁ m₁ e₁ h₁) (.finite s₂ m₂ e₂ h₂) =
      normalize spec (s₁.apply ((m₁ * 2^(e₁ - min e₁ e₂).toNat : ℕ) : ℤ) - s₂.apply ((m₂ * 2^(e₂ - min e₁ e₂).toNat : ℕ) : ℤ))
        (min e₁ e₂) .positive := by
  simp only [UnpackedFloat.sub, decreaseExponent, Nat.shiftLeft_eq]

theorem val_sub (spec : Format) {a b : UnpackedFloat} (ha : a.isFinite = true) (hb : b.isFinite = true)
    (ca : Canon spec a) (cb : Canon spec b) :
    val (UnpackedFloat.sub spec a b) = Rs spec (val a - val b) := by
  cases a <;> cases b <;> simp only [UnpackedFloat.isFinite, Bool.false_eq_true] at ha hb
  · rename_i s₁ s₂
    simp only [UnpackedFloat.sub]; split <;> simp [val, Rs_zero]
  · rename_i s₁ s₂ m₂ e₂ h₂
    simp only [UnpackedFloat.sub]
    have hcn : Canon spec (.finite (-s₂) m₂ e₂ h₂) := cb
    have := R_val_of_canon spec hcn
    rw [show val (UnpackedFloat.zero s₁) = 0 from rfl, zero_sub]
    have hneg : val (.finite (-s₂) m₂ e₂ h₂) = - val (.finite s₂ m₂ e₂ h₂) := by simp only [val, sgn_neg]; ring
    rw [← hneg, this]
  · simp only [UnpackedFloat.sub]
    rw [show val (UnpackedFloat.zero _) = 0 from rfl, sub_zero, R_val_of_canon spec ca]
  · rename_i s₁ m₁ e₁ h₁ s₂ m₂ e₂ h₂
    rw [sub_finite, val_normalize]
    congr 1
    push_cast
    rw [sign_apply_cast, sign_apply_cast]
    simp only [val]
    push_cast
    have k₁ : ((e₁ - min e₁ e₂).toNat : ℤ) + min e₁ e₂ = e₁ := by omega
    have k₂ : ((e₂ - min e₁ e₂).toNat : ℤ) + min e₁ e₂ = e₂ := by omega
    have z₁ : (2 : ℚ)^(e₁ - min e₁ e₂).toNat * 2^(min e₁ e₂) = 2^e₁ := by
      rw [← zpow_natCast, ← zpow_add₀ (by norm_num), k₁]
    have z₂ : (2 : ℚ)^(e₂ - min e₁ e₂).toNat * 2^(min e₁ e₂) = 2^e₂ := by
      rw [← zpow_natCast, ← zpow_add₀ (by norm_num), k₂]
    rw [← z₁, ← z₂]; ring

theorem isFinite_sub (spec : Format) {a b : UnpackedFloat} (ha : a.isFinite = true) (hb : b.isFinite = true) :
    (UnpackedFloat.sub spec a b).isFinite = true := by
  cases a <;> cases b <;> simp only [UnpackedFloat.isFinite, Bool.false_eq_true] at ha hb
  · simp only [UnpackedFloat.sub]; split <;> rfl
  · simp only [UnpackedFloat.sub]; rfl
  · simp only [UnpackedFloat.sub]; rfl
  · rw [sub_finite]; exact isFinite_normalize ..

theorem canon_sub (spec : Format) {a b : UnpackedFloat} (ca : Canon spec a) (cb : Canon spec b) :
    Canon spec (UnpackedFloat.sub spec a b) := by
  cases a <;> cases b
  case finite.finite => rw [sub_finite]; exact canon_normalize ..
  case zero.finite => simp only [UnpackedFloat.sub]; exact cb
  case finite.zero => simpa only [UnpackedFloat.sub] using ca
  all_goals simp only [UnpackedFloat.sub]
  all_goals first | trivial | (split <;> trivial)

/-! ### `neg`, `abs` -/

theorem val_neg (f : UnpackedFloat) : val f.neg = - val f := by
  cases f <;> simp only [UnpackedFloat.neg, val, neg_zero]
  rw [sgn_neg]; ring

theorem canon_neg {spec : Format} {f : UnpackedFloat} (h : Canon spec f) : Canon spec f.neg := by
  cases f <;> trivial

theorem isFinite_neg (f : UnpackedFloat) : f.neg.isFinite = f.isFinite := by cases f <;> rfl

theorem val_abs (f : UnpackedFloat) : val f.abs = |val f| := by
  cases f <;> simp only [UnpackedFloat.abs, val, abs_zero]
  rename_i s m e h
  have := mag_pos h e
  cases s
  · rw [show sgn Sign.negative * (m : ℚ) * 2^e = - mag m e by simp [sgn, mag], abs_neg, abs_of_pos this]; simp [sgn, mag]
  · rw [show sgn Sign.positive * (m : ℚ) * 2^e = mag m e by simp [sgn, mag], abs_of_pos this]

theorem canon_abs {spec : Format} {f : UnpackedFloat} (h : Canon spec f) : Canon spec f.abs := by
  cases f <;> trivial

theorem isFinite_abs (f : UnpackedFloat) : f.abs.isFinite = f.isFinite := by cases f <;> rfl

end Ieee
