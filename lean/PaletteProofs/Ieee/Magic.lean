/-
  IEEE reasoning layer, part 9: the "magic number" trick.  Adding `2^(p−1)` to a value `0 ≤ a ≤ 2^(p−1) − 1` rounds
  `a` to the nearest integer (ties to even) and leaves that integer in the low mantissa bits of the sum:
  `add a 2^(p−1) = finite + (2^(p−1) + rne a) 0`, whose packed bit pattern is `bits(2^(p−1)) + rne a`.
-/
import PaletteProofs.Ieee.Repack

namespace Ieee
open Float.Model Float.Model.UnpackedFloat

theorem rne_add_even (x : ℚ) (k : ℤ) : rne (x + ((2 * k : ℤ) : ℚ)) = rne x + 2 * k := by
  unfold rne
  rw [Int.floor_add_intCast]
  have e : x + ((2 * k : ℤ) : ℚ) - ((⌊x⌋ + 2 * k : ℤ) : ℚ) = x - ⌊x⌋ := by push_cast; ring
  rw [e]
  split_ifs <;> omega

/-- in the top binade below `2^p` the unit in the last place is `1`: rounding is `rne` -/
theorem R_top_binade (spec : Format) {w : ℚ} (h0 : (2 : ℚ)^(spec.mantissaBits - 1) ≤ w) (h1 : w < 2^spec.mantissaBits) :
    Rs spec w = rne w := by
  have hp := one_le_mantissaBits spec
  have hpos : 0 < w := lt_of_lt_of_le (by positivity) h0
  have hl : Int.log 2 w = ((spec.mantissaBits - 1 : ℕ) : ℤ) := by
    apply intLog_eq hpos
    · rw [zpow_natCast]; exact h0
    · rw [show ((spec.mantissaBits - 1 : ℕ) : ℤ) + 1 = (spec.mantissaBits : ℕ) by omega, zpow_natCast]; exact h1
  have ht : texp spec.mantissaBits spec.minExponent w = 0 := by
    unfold texp
    rw [abs_of_pos hpos, hl]
    have := minExponent_le_zero spec
    rw [max_eq_left (by omega)]; omega
  unfold Rs R
  rw [ht]; simp

theorem pos_finite_of_val_pos {spec : Format} {u : UnpackedFloat} (cu : Canon spec u) (hv : 0 < val u) :
    ∃ m e h, u = .finite .positive m e h ∧ CanonME spec m e ∧ mag m e = val u := by
  cases u
  case finite s m e h =>
    cases s
    · rw [val_neg_eq] at hv; have := mag_pos h e; linarith
    · exact ⟨m, e, h, rfl, cu, (val_pos_eq m e h).symm⟩
  all_goals simp [val] at hv

/-- the magic constant `2^(p−1)` as an unpacked float -/
def magicC (spec : Format) : UnpackedFloat :=
  .finite .positive (2^(spec.mantissaBits - 1)) 0 (Nat.pos_of_ne_zero (by simp))

theorem canon_magicC (spec : Format) : Canon spec (magicC spec) := by
  have hp := one_le_mantissaBits spec
  exact ⟨Nat.pow_lt_pow_right (by norm_num) (by omega), minExponent_le_zero spec, Or.inr (Or.inl le_rfl)⟩

theorem val_magicC (spec : Format) : val (magicC spec) = 2^(spec.mantissaBits - 1) := by
  simp [magicC, val, sgn]

/-- **magic-number rounding**: `add a 2^(p−1)` is the float with mantissa `2^(p−1) + rne a`, exponent `0` -/
theorem add_magic (spec : Format) {a : UnpackedFloat} (ca : Canon spec a) (fa : a.isFinite = true)
    (h0 : 0 ≤ val a) (h1 : val a ≤ 2^(spec.mantissaBits - 1) - 1) :
    ∃ h, UnpackedFloat.add spec a (magicC spec) =
      .finite .positive (2^(spec.mantissaBits - 1) + (rne (val a)).toNat) 0 h ∧
      (rne (val a)).toNat ≤ 2^(spec.mantissaBits - 1) - 1 := by
  have hp : spec.mantissaBits = spec.mantissaBitsWithoutImplicit + 1 := by unfold Format.mantissaBits; omega
  have hmbw := spec.hm
  set P := spec.mantissaBits - 1 with hP
  have hPP : spec.mantissaBits = P + 1 := by omega
  have hPpos : 1 ≤ P := by omega
  -- the rounded integer
  have hn0 : 0 ≤ rne (val a) := rne_nonneg h0
  have hn1 : rne (val a) ≤ 2^P - 1 := by
    have := rne_mono h1
    rw [show ((2 : ℚ)^P - 1) = (((2^P - 1 : ℤ)) : ℚ) by push_cast; ring, rne_intCast] at this
    exact this
  obtain ⟨n, hn⟩ : ∃ n : ℕ, (n : ℤ) = rne (val a) := ⟨(rne (val a)).toNat, by omega⟩
  have hnle : n ≤ 2^P - 1 := by
    have h2 : (1 : ℤ) ≤ 2^P := by exact_mod_cast Nat.one_le_two_pow
    have : (n : ℤ) ≤ ((2^P - 1 : ℕ) : ℤ) := by
      rw [Nat.cast_sub Nat.one_le_two_pow]; push_cast; omega
    exact_mod_cast this
  have htoNat : (rne (val a)).toNat = n := by omega
  -- value of the sum
  have hval : val (UnpackedFloat.add spec a (magicC spec)) = ((2^P + n : ℕ) : ℚ) := by
    rw [val_add spec fa rfl ca (canon_magicC spec), val_magicC]
    have hw0 : (2 : ℚ)^(spec.mantissaBits - 1) ≤ val a + 2^P := by rw [← hP]; linarith
    have hw1 : val a + 2^P < 2^spec.mantissaBits := by rw [hPP, pow_succ]; linarith
    rw [R_top_binade spec hw0 hw1]
    obtain ⟨j, hj⟩ : ∃ j, P = j + 1 := ⟨P - 1, by omega⟩
    have he : (2 : ℚ)^P = ((2 * 2^j : ℤ) : ℚ) := by rw [hj, pow_succ]; push_cast; ring
    rw [he, rne_add_even, ← hn]
    push_cast; rw [hj, pow_succ]; ring
  have hpos : 0 < val (UnpackedFloat.add spec a (magicC spec)) := by
    rw [hval]; positivity
  obtain ⟨m, e, h, hu, hc, hmag⟩ := pos_finite_of_val_pos (canon_add spec ca (canon_magicC spec)) hpos
  have hcand : CanonME spec (2^P + n) 0 := by
    refine ⟨?_, minExponent_le_zero spec, Or.inr (Or.inl ?_)⟩
    · rw [hPP, Nat.pow_succ]; have : 1 ≤ 2^P := Nat.one_le_two_pow; omega
    · exact Nat.le_add_right _ _
  have hcpos : 0 < 2^P + n := by have : 1 ≤ 2^P := Nat.one_le_two_pow; omega
  have huniq := canon_unique hc hcand h hcpos (by rw [hmag, hval]; simp [mag])
  refine ⟨by rw [htoNat]; exact hcpos, ?_, by rw [htoNat]; exact hnle⟩
  rw [hu]
  exact finite_congr (by rw [htoNat]; exact huniq.1) huniq.2

/-! ### bit pattern of a packed positive float -/

theorem toNat_packComponents_pos (spec : Format) (E : BitVec spec.exponentBits) (M : BitVec spec.mantissaBitsWithoutImplicit) :
    (packComponents spec .positive E M).toNat = E.toNat * 2^spec.mantissaBitsWithoutImplicit + M.toNat := by
  unfold packComponents
  rw [BitVec.toNat_append, BitVec.toNat_append, ← Nat.shiftLeft_add_eq_or_of_lt M.isLt, Nat.shiftLeft_eq]
  simp [Sign.toBitVec]

/-- bit pattern of `finite + (2^(p−1) + n) 0`: exponent field `bias + (p−1)`, mantissa field `n` -/
theorem toNat_pack_magic (spec : Format) {P n : ℕ} (hP : P = spec.mantissaBitsWithoutImplicit) (hn : n ≤ 2^P - 1)
    (h : 0 < 2^P + n) (hov : spec.exponentBias + spec.mantissaBitsWithoutImplicit + 1 < 2^spec.exponentBits) :
    (UnpackedFloat.pack spec (.finite .positive (2^P + n) 0 h)).toNat =
      (spec.exponentBias + spec.mantissaBitsWithoutImplicit) * 2^spec.mantissaBitsWithoutImplicit + n := by
  subst hP
  have hp : spec.mantissaBits = spec.mantissaBitsWithoutImplicit + 1 := by unfold Format.mantissaBits; omega
  have hB : biasedExp spec 0 = spec.exponentBias + spec.mantissaBitsWithoutImplicit := by
    unfold biasedExp; omega
  have h1 : 1 ≤ 2^spec.mantissaBitsWithoutImplicit := Nat.one_le_two_pow
  rw [pack_finite_eq, hB, if_neg (by omega)]
  have hlog : (2^spec.mantissaBitsWithoutImplicit + n).log2 + 1 = spec.mantissaBits := by
    rw [hp]; congr 1
    rw [Nat.log2_eq_iff (by omega)]
    constructor
    · omega
    · rw [Nat.pow_succ]; omega
  rw [if_pos hlog, toNat_packComponents_pos, BitVec.toNat_ofNat, BitVec.toNat_ofNat,
    Nat.mod_eq_of_lt (by omega)]
  congr 1
  rw [Nat.add_mod_left, Nat.mod_eq_of_lt (by omega)]

end Ieee
